import SSVerif.Proofs.LatticeBuildLinks
import SSVerif.Proofs.LatticeBuildShape
import SSVerif.Proofs.LatticeBuildEnds
/-! When does `fsg_search_lattice` return a lattice?  Exactly when the history table has a word entry. -/
namespace SSVerif.Lattice
open SSVerif.Nfa
namespace BuildTotal
open BuildShape

/-- with at least one word node there is always an end candidate, so `find_end_node` never fails -/
theorem findStartEnd_some {G : Nfa} {frame : Nat} {b0 : Build} (wS wE : Nat) (hm : MidOK G frame b0)
    (hpos : 0 < b0.nodes.size) : findStartEnd b0 frame wS wE ≠ none := by
  rw [findStartEnd_eq]
  have hl : ∀ l ∈ b0.links.toList, l.src < b0.nodes.size ∧ l.dst < b0.nodes.size :=
    fun l hl => ⟨(hm.link l hl).1, (hm.link l hl).2.1⟩
  have hs := startStep_spec b0 wS hl
  have hscmem : ∀ v, v ∈ scOf b0 ↔ v < b0.nodes.size ∧ (b0.node v).sf = 0 ∧
      ((∃ l ∈ b0.links.toList, l.src = v) ∨ ((b0.node v).lef : Int) = lastEfOf b0) := by
    intro v
    unfold scOf
    rw [mem_candidates]
    simp only [decide_eq_true_eq, hasExit_iff]
  -- a word node with the last exit frame
  obtain ⟨u, hu, hlef⟩ : ∃ u, u < b0.nodes.size ∧ ((b0.node u).lef : Int) = lastEfOf b0 := by
    rcases lastEf_att b0 with ⟨h0, _⟩ | h
    · omega
    · exact h
  have hmem : u ∈ ecOf (startStep b0 wS).1 (lastEfOf b0) (startStep b0 wS).2 := by
    unfold ecOf
    rw [mem_candidates]
    simp only [decide_eq_true_eq, hasEntry_iff]
    rcases hs with ⟨hsc, hb1⟩ | ⟨_, hs0, hn1, hl1⟩
    · rw [hb1]
      refine ⟨hu, hlef, ?_⟩
      by_cases hsf : 0 < (b0.node u).sf
      · exact Or.inl (hm.entry u hu hsf)
      · right
        have : u ∈ scOf b0 := (hscmem u).2 ⟨hu, by omega, Or.inr hlef⟩
        rw [hsc] at this
        simpa using this
    · refine ⟨by rw [hn1, Array.size_push]; omega, ?_, ?_⟩
      · rw [BuildEnds.node_push b0 _ _ hn1, if_neg (by omega)]; exact hlef
      · left
        rw [hl1]
        by_cases hsf : 0 < (b0.node u).sf
        · obtain ⟨l, hl', hd⟩ := hm.entry u hu hsf
          exact ⟨l, List.mem_append_left _ hl', hd⟩
        · have : u ∈ scOf b0 := (hscmem u).2 ⟨hu, by omega, Or.inr hlef⟩
          exact ⟨⟨b0.nodes.size, u, 0, 0⟩, List.mem_append_right _ (List.mem_map.2 ⟨u, this, rfl⟩), rfl⟩
  unfold endStep
  split
  · simp
  · rename_i heq; rw [heq] at hmem; cases hmem
  · simp

theorem buildNodes_empty (h : Array HEntry)
    (hno : ∀ i, i < h.size → ∀ f w t, (hent h i).arc ≠ some (f, some w, t)) :
    buildNodes h = { nodes := #[], links := #[] } := by
  rw [BuildNodes.buildNodes_eq]
  have : ∀ (post pre : List HEntry) (b : Build), pre ++ post = h.toList → post.foldl (BuildNodes.step h) b = b := by
    intro post
    induction post with
    | nil => intro pre b _; rfl
    | cons e post ih =>
      intro pre b hs
      simp only [List.foldl_cons]
      obtain ⟨he, hlt⟩ := BuildNodes.hent_toList h pre post e hs
      have hstep : BuildNodes.step h b e = b := by
        unfold BuildNodes.step
        split
        · rename_i w to harc
          rw [← he] at harc
          exact absurd harc (hno _ hlt _ _ _)
        · rfl
      rw [hstep]
      exact ih (pre ++ [e]) b (by simpa using hs)
  exact this h.toList [] _ rfl

theorem buildLinks_nodes {G : Nfa} {h : Array HEntry} {frame : Nat} {b0 : Build} (hwf : HistWF G h frame)
    (hn : NodesOK G h frame b0) : (buildLinks G h b0).nodes = b0.nodes := by
  rw [BuildLinks.buildLinks_eq]
  exact (BuildLinks.oinv_fold hwf hn h.toList [] b0 rfl (BuildLinks.oinv_init hn)).inv.nodes

end BuildTotal

/-- a lattice is built exactly when the history table has a word entry -/
theorem buildLattice_isSome_iff (G : Nfa) (h : Array HEntry) (frame wS wE : Nat)
    (isFiller : Nat → Bool) (silWord : Nat) (silpen fillpen : Int) (hwf : HistWF G h frame) :
    (buildLattice G h frame wS wE isFiller silWord silpen fillpen).isSome = true ↔
      ∃ i f w t, i < h.size ∧ (hent h i).arc = some (f, some w, t) := by
  have hn := buildNodes_nodesOK G h frame hwf
  have hm := buildLinks_midOK G h frame _ hwf hn
  have hnodes := BuildTotal.buildLinks_nodes hwf hn
  rw [buildLattice_eq, Option.isSome_map]
  constructor
  · intro hsome
    apply Classical.byContradiction
    intro hno
    have hno' : ∀ i, i < h.size → ∀ f w t, (hent h i).arc ≠ some (f, some w, t) :=
      fun i hi f w t harc => hno ⟨i, f, w, t, hi, harc⟩
    have hemp := BuildTotal.buildNodes_empty h hno'
    cases hfs : findStartEnd (buildLinks G h (buildNodes h)) frame wS wE with
    | none => rw [hfs] at hsome; cases hsome
    | some R =>
      obtain ⟨lastEf, sc, ec, b1, hs⟩ := findStartEnd_shape _ frame wS wE R
        (fun l hl => ⟨(hm.link l hl).1, (hm.link l hl).2.1⟩) hfs
      obtain ⟨sc', F⟩ := BuildEnds.facts hm hs
      have := BuildEnds.n0_pos hm hs F
      rw [hnodes, hemp] at this
      simp at this
  · rintro ⟨i, f, w, t, hi, harc⟩
    obtain ⟨v, hv, _⟩ := hn.covered i f w t hi harc
    have hpos : 0 < (buildLinks G h (buildNodes h)).nodes.size := by rw [hnodes]; omega
    have := BuildTotal.findStartEnd_some wS wE hm hpos
    cases hfs : findStartEnd (buildLinks G h (buildNodes h)) frame wS wE with
    | none => exact absurd hfs this
    | some R => rfl

end SSVerif.Lattice
