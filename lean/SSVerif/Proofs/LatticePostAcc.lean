import Mathlib.Analysis.SpecialFunctions.Log.Base
import SSVerif.Proofs.LatticeIntUpper
import SSVerif.Proofs.LatticePostBudget
/-!
# Accuracy of the integer forward pass relative to exact base-`B` arithmetic (helper lemmas for C12)

`LaddLaw P B ρ hi` is what the induction needs of the log-add: log-zero on the left is the identity,
and for arguments above log-zero and below `hi` the result is the logarithm of the exact sum up to the
factor `ρ` (`ρ = B^(1/2+ε)` for `logmath_add`, `C19_logAdd_is_rounded_log_of_sum`), in multiplicative
form so that no logarithm occurs:

  `B^(ladd x y) ≤ (B^x + B^y)·ρ`   and   `B^x + B^y ≤ B^(ladd x y)·ρ`.

`Close B ρ a X e`: the integer `a` is the base-`B` logarithm of the exact (real) quantity `X` up to `e`
factors `ρ`, i.e. `|a − log_B X| ≤ e·log_B ρ`.

`alphaInt_close`: for every exact solution `Ax` of the forward equations with link weights `B^(sc l)`
and every error budget `E` with `BudA L E` (the budget of a link is at least the budget of every link
entering its source plus one per further entering link), `Close (alphaInt l) (Ax l) (E l)` for every link.
The induction runs over the verified traversal order together with the max-plus invariants `AInv`/`AUp`
of `LatticeInt`/`LatticeIntUpper`, which supply the range facts (`lz < value < hi`) the law asks for.
-/
namespace SSVerif.Lattice

variable {L : Lat} {P : IntParams}

/-- laws of the log-add relative to exact arithmetic to the base `B` -/
structure LaddLaw (P : IntParams) (B ρ : ℝ) (hi : Int) : Prop where
  B_gt : 1 < B
  rho_ge : 1 ≤ ρ
  lz_lt_hi : P.lz < hi
  zeroL : ∀ x y, x ≤ P.lz → P.ladd x y = y
  acc : ∀ x y, P.lz < x → P.lz < y → x < hi → y < hi →
    B ^ P.ladd x y ≤ (B ^ x + B ^ y) * ρ ∧ B ^ x + B ^ y ≤ B ^ P.ladd x y * ρ

/-- `a` is `log_B X` up to `e` factors `ρ` -/
def Close (B ρ : ℝ) (a : Int) (X : ℝ) (e : Nat) : Prop := B ^ a ≤ X * ρ ^ e ∧ X ≤ B ^ a * ρ ^ e

section close
variable {B ρ : ℝ}

theorem Close.pos (hB : 0 < B) (hρ : 1 ≤ ρ) {a : Int} {X : ℝ} {e : Nat} (h : Close B ρ a X e) : 0 < X := by
  have h1 : 0 < B ^ a := zpow_pos hB a
  have h2 : 0 < ρ ^ e := pow_pos (by linarith) e
  by_contra hX
  have : X * ρ ^ e ≤ 0 := mul_nonpos_of_nonpos_of_nonneg (by linarith) h2.le
  linarith [h.1]

theorem Close.mono (hB : 0 < B) (hρ : 1 ≤ ρ) {a : Int} {X : ℝ} {e e' : Nat} (h : Close B ρ a X e) (hee : e ≤ e') :
    Close B ρ a X e' := by
  have hX := h.pos hB hρ
  have h1 : 0 < B ^ a := zpow_pos hB a
  have hp : ρ ^ e ≤ ρ ^ e' := pow_le_pow_right₀ hρ hee
  exact ⟨le_trans h.1 (mul_le_mul_of_nonneg_left hp hX.le), le_trans h.2 (mul_le_mul_of_nonneg_left hp h1.le)⟩

theorem Close.exact (a : Int) : Close B ρ a (B ^ a) 0 := by
  simp [Close]

theorem Close.shift (hB : 0 < B) {a : Int} {X : ℝ} {e : Nat} (h : Close B ρ a X e) (s : Int) :
    Close B ρ (a + s) (X * B ^ s) e := by
  have hs : 0 < B ^ s := zpow_pos hB s
  rw [Close, zpow_add₀ hB.ne']
  constructor
  · calc B ^ a * B ^ s ≤ X * ρ ^ e * B ^ s := mul_le_mul_of_nonneg_right h.1 hs.le
      _ = X * B ^ s * ρ ^ e := by ring
  · calc X * B ^ s ≤ B ^ a * ρ ^ e * B ^ s := mul_le_mul_of_nonneg_right h.2 hs.le
      _ = B ^ a * B ^ s * ρ ^ e := by ring

theorem Close.add {hi : Int} (law : LaddLaw P B ρ hi) {a b : Int} {X Y : ℝ} {e1 e2 : Nat}
    (ha : P.lz < a) (hb : P.lz < b) (ha' : a < hi) (hb' : b < hi)
    (h1 : Close B ρ a X e1) (h2 : Close B ρ b Y e2) :
    Close B ρ (P.ladd a b) (X + Y) (max e1 e2 + 1) := by
  have hB : 0 < B := by linarith [law.B_gt]
  have hρ := law.rho_ge
  have hρ0 : 0 < ρ := by linarith
  have g1 := h1.mono hB hρ (Nat.le_max_left e1 e2)
  have g2 := h2.mono hB hρ (Nat.le_max_right e1 e2)
  obtain ⟨l1, l2⟩ := law.acc a b ha hb ha' hb'
  set e := max e1 e2
  have hpe : 0 < ρ ^ e := pow_pos hρ0 e
  rw [Close, pow_succ]
  constructor
  · calc B ^ P.ladd a b ≤ (B ^ a + B ^ b) * ρ := l1
      _ ≤ (X * ρ ^ e + Y * ρ ^ e) * ρ := mul_le_mul_of_nonneg_right (add_le_add g1.1 g2.1) hρ0.le
      _ = (X + Y) * (ρ ^ e * ρ) := by ring
  · calc X + Y ≤ B ^ a * ρ ^ e + B ^ b * ρ ^ e := add_le_add g1.2 g2.2
      _ = (B ^ a + B ^ b) * ρ ^ e := by ring
      _ ≤ B ^ P.ladd a b * ρ * ρ ^ e := mul_le_mul_of_nonneg_right l2 hpe.le
      _ = B ^ P.ladd a b * (ρ ^ e * ρ) := by ring

end close

/-! ### accumulation of a list of values with the log-add (normaliser, one beta, backward total) -/

/-- `xs.foldl (ladd · (v x)) lz`: if every value is above log-zero, below `hi`, `Close` to its exact
counterpart within a budget `≤ M`, and the result is below `hi`, then the result is `Close` to the
exact sum within `M + (|xs| − 1)`: the first addition (to log-zero) is exact, each further one costs
one factor `ρ` on top of the largest budget among its arguments. -/
theorem fold_close {B ρ : ℝ} {hi : Int} (law : LaddLaw P B ρ hi)
    (hge : ∀ x y, P.lz ≤ x → P.lz ≤ y → max x y ≤ P.ladd x y)
    (v : Link → Int) (X : Link → ℝ) (e : Link → Nat) (M : Nat) :
    ∀ (xs : List Link), (∀ x ∈ xs, P.lz < v x ∧ v x < hi ∧ Close B ρ (v x) (X x) (e x) ∧ e x ≤ M) → xs ≠ [] →
      xs.foldl (fun n x => P.ladd n (v x)) P.lz < hi →
      P.lz < xs.foldl (fun n x => P.ladd n (v x)) P.lz ∧
      Close B ρ (xs.foldl (fun n x => P.ladd n (v x)) P.lz) ((xs.map X).sum) (M + (xs.length - 1)) := by
  have hB : 0 < B := by linarith [law.B_gt]
  intro xs
  induction xs using List.reverseRecOn with
  | nil => intro _ h; exact absurd rfl h
  | append_singleton xs x ih =>
    intro hall _ hr
    rw [List.foldl_append] at hr ⊢
    simp only [List.foldl_cons, List.foldl_nil] at hr ⊢
    obtain ⟨hx1, hx2, hx3, hx4⟩ := hall x (by simp)
    by_cases hxs : xs = []
    · subst hxs
      simp only [List.foldl_nil, List.nil_append, List.map_cons, List.map_nil, List.sum_cons, List.sum_nil,
        List.length_cons, List.length_nil, add_zero]
      rw [law.zeroL _ _ (le_refl _)]
      exact ⟨hx1, hx3.mono hB law.rho_ge (by omega)⟩
    · set r := xs.foldl (fun n x => P.ladd n (v x)) P.lz with hrdef
      have hall' : ∀ y ∈ xs, P.lz < v y ∧ v y < hi ∧ Close B ρ (v y) (X y) (e y) ∧ e y ≤ M :=
        fun y hy => hall y (by simp [hy])
      -- the accumulator is at least log-zero and at most the result
      have hrlb : P.lz ≤ r := by
        have := (normInt_ge (P := P) hge v xs P.lz (le_refl _) (fun y hy => (hall' y hy).1.le)).1
        exact this
      have hmx := hge r (v x) hrlb hx1.le
      have hrhi : r < hi := by omega
      obtain ⟨i1, i2⟩ := ih hall' hxs hrhi
      refine ⟨by omega, ?_⟩
      have hlen : 0 < xs.length := List.length_pos_iff.2 hxs
      have := Close.add law i1 hx1 hrhi hx2 i2 hx3
      rw [List.map_append, List.sum_append]
      simp only [List.map_cons, List.map_nil, List.sum_cons, List.sum_nil, add_zero, List.length_append,
        List.length_cons, List.length_nil]
      exact this.mono hB law.rho_ge (by omega)

/-! ### forward pass -/

/-- the already visited links into node `v` -/
def visitedInto (pre : List Link) (v : Nat) : List Link := pre.filter (fun l' => l'.dst = v)

theorem visitedInto_snoc (pre : List Link) (l : Link) (v : Nat) :
    visitedInto (pre ++ [l]) v = visitedInto pre v ++ (if l.dst = v then [l] else []) := by
  unfold visitedInto
  rw [List.filter_append]
  by_cases h : l.dst = v <;> simp [h]

theorem mem_visitedInto {pre : List Link} {v : Nat} {x : Link} : x ∈ visitedInto pre v ↔ x ∈ pre ∧ x.dst = v := by
  simp [visitedInto, List.mem_filter]

/-- accuracy invariant of the forward pass after the links `pre` have been visited -/
structure AAcc (L : Lat) (P : IntParams) (B ρ : ℝ) (Ax : Link → ℝ) (E : Link → Nat) (pre : List Link)
    (al : Link → Int) : Prop where
  done : ∀ y ∈ pre, Close B ρ (al y) (Ax y) (E y)
  startv : ∀ y ∈ L.links, y ∉ pre → y.src = L.start → al y = 0
  pend : ∀ y ∈ L.links, y ∉ pre → y.src ≠ L.start →
    (visitedInto pre y.src = [] ∧ al y = P.lz) ∨
    (visitedInto pre y.src ≠ [] ∧ P.lz < al y ∧
      Close B ρ (al y) (((visitedInto pre y.src).map Ax).sum)
        (E y - ((entries L y.src).length - 1) + ((visitedInto pre y.src).length - 1)))

theorem aacc_init {B ρ : ℝ} {Ax : Link → ℝ} {E : Link → Nat} : AAcc L P B ρ Ax E [] (alphaInit P L) where
  done := fun y hy => by cases hy
  startv := by
    intro y hy _ hs
    unfold alphaInit
    rw [if_pos ⟨hy, hs⟩]
  pend := by
    intro y _ _ hs
    left
    refine ⟨rfl, ?_⟩
    unfold alphaInit
    rw [if_neg (fun h => hs h.2)]

theorem aacc_step {rank : Nat → Nat} (ok : DagOK L rank) {B ρ : ℝ} {hi : Int} (law : LaddLaw P B ρ hi)
    (hge : ∀ x y, P.lz ≤ x → P.lz ≤ y → max x y ≤ P.ladd x y)
    {Ax : Link → ℝ} {E : Link → Nat} (hE : BudA L E)
    (hfwd : ∀ l ∈ L.links, Ax l = B ^ P.sc l * ((if l.src = L.start then 1 else 0) + ((entries L l.src).map Ax).sum))
    {pre : List Link} {l : Link} {post : List Link}
    (hnd : (pre ++ l :: post).Nodup) (hsub : ∀ y ∈ pre ++ l :: post, y ∈ L.links)
    (htopo : Topo L (pre ++ l :: post)) {al : Link → Int}
    (hlb : ∀ y ∈ L.links, P.lz ≤ al y)
    (hlo : P.lz < al l + P.sc l) (hhi : al l + P.sc l < hi) (hhiy : ∀ y ∈ exits L l.dst, al y < hi)
    (inv : AAcc L P B ρ Ax E pre al) :
    AAcc L P B ρ Ax E (pre ++ [l]) (alphaVisit P L al l) := by
  have hB : 0 < B := by linarith [law.B_gt]
  have hρ := law.rho_ge
  have hl : l ∈ L.links := hsub l (by simp)
  have hndpre : pre.Nodup := (List.nodup_append.1 hnd).1
  have hlpre : l ∉ pre := fun h => (List.nodup_append.1 hnd).2.2 l h l (by simp) rfl
  obtain ⟨hv_l, hv_exit, hv_other⟩ := alphaVisit_vals (P := P) ok hl al
  have hnex : ∀ y ∈ pre, y ∉ exits L l.dst := by
    intro y hy h
    obtain ⟨pre', post', hsplit⟩ := List.append_of_mem hy
    have : l ∈ pre' := htopo pre' y (post' ++ l :: post) (by rw [hsplit]; simp) l hl (mem_exits.1 h).2.symm
    exact hlpre (by rw [hsplit]; exact List.mem_append_left _ this)
  -- the value of `l` after adding its own score is close to the exact forward weight
  have key : Close B ρ (al l + P.sc l) (Ax l) (E l) := by
    rw [hfwd l hl]
    by_cases hs : l.src = L.start
    · have h0 := inv.startv l hl hlpre hs
      have hnone : entries L l.src = [] := by
        rw [List.eq_nil_iff_forall_not_mem]
        intro x hx
        have := mem_entries.1 hx
        exact ok.no_entry_start x this.1 (this.2.trans hs)
      rw [if_pos hs, hnone, h0]
      simp only [List.map_nil, List.sum_nil, add_zero, mul_one, zero_add]
      exact (Close.exact (P.sc l)).mono hB hρ (Nat.zero_le _)
    · rw [if_neg hs]
      rcases inv.pend l hl hlpre hs with ⟨hV, _⟩ | ⟨hV, _, hc⟩
      · exfalso
        obtain ⟨l', hl', hd⟩ := ok.has_entry l hl hs
        have : l' ∈ visitedInto pre l.src := mem_visitedInto.2 ⟨htopo pre l post rfl l' hl' hd, hd⟩
        rw [hV] at this; cases this
      · -- the visited links into the source are all its entries
        have hperm : (visitedInto pre l.src).Perm (entries L l.src) := by
          have hndV : (visitedInto pre l.src).Nodup := hndpre.sublist List.filter_sublist
          rw [List.perm_ext_iff_of_nodup hndV (entries_nodup ok _)]
          intro x
          rw [mem_visitedInto, mem_entries]
          constructor
          · intro h; exact ⟨hsub x (List.mem_append_left _ h.1), h.2⟩
          · intro h; exact ⟨htopo pre l post rfl x h.1 h.2, h.2⟩
        have hsum : ((visitedInto pre l.src).map Ax).sum = ((entries L l.src).map Ax).sum :=
          (hperm.map Ax).sum_eq
        have hlen : (visitedInto pre l.src).length = (entries L l.src).length := hperm.length_eq
        rw [hsum, hlen] at hc
        -- the budget of l covers the number of entries
        have hbud : E l - ((entries L l.src).length - 1) + ((entries L l.src).length - 1) = E l := by
          obtain ⟨l', hl', hd⟩ := ok.has_entry l hl hs
          have := hE l hl l' (mem_entries.2 ⟨hl', hd⟩)
          omega
        rw [hbud] at hc
        have := hc.shift hB (P.sc l)
        simpa [mul_comm] using this
  constructor
  · intro y hy
    rcases List.mem_append.1 hy with hy | hy
    · have hne : y ≠ l := fun h => hlpre (h ▸ hy)
      rw [hv_other y hne (hnex y hy)]
      exact inv.done y hy
    · simp at hy; subst hy
      rw [hv_l]; exact key
  · intro y hy hyn hs
    have hy1 : y ∉ pre := fun h => hyn (List.mem_append_left _ h)
    have hy2 : y ≠ l := fun h => hyn (by rw [h]; simp)
    have hex : y ∉ exits L l.dst := by
      intro h
      exact ok.no_entry_start l hl ((mem_exits.1 h).2.symm.trans hs)
    rw [hv_other y hy2 hex]
    exact inv.startv y hy hy1 hs
  · intro y hy hyn hs
    have hy1 : y ∉ pre := fun h => hyn (List.mem_append_left _ h)
    have hy2 : y ≠ l := fun h => hyn (by rw [h]; simp)
    rw [visitedInto_snoc]
    by_cases hex : y ∈ exits L l.dst
    · have hsrc : l.dst = y.src := (mem_exits.1 hex).2.symm
      rw [if_pos hsrc, hv_exit y hex]
      right
      have hlent : l ∈ entries L y.src := mem_entries.2 ⟨hl, hsrc⟩
      have hEl := hE y hy l hlent
      have hmx := hge (al y) (al l + P.sc l) (hlb y hy) hlo.le
      refine ⟨by simp, by omega, ?_⟩
      rw [List.map_append, List.sum_append]
      simp only [List.map_cons, List.map_nil, List.sum_cons, List.sum_nil, add_zero, List.length_append,
        List.length_cons, List.length_nil]
      rcases inv.pend y hy hy1 hs with ⟨hV, hz⟩ | ⟨hV, hlt, hc⟩
      · rw [hV, hz, law.zeroL _ _ (le_refl _)]
        simp only [List.map_nil, List.sum_nil, zero_add, List.length_nil]
        exact key.mono hB hρ (by omega)
      · have hlen : 0 < (visitedInto pre y.src).length := List.length_pos_iff.2 hV
        have := Close.add law hlt hlo (hhiy y hex) hhi hc key
        exact this.mono hB hρ (by omega)
    · have hsrc : ¬ l.dst = y.src := fun h => hex (mem_exits.2 ⟨hy, h.symm⟩)
      rw [if_neg hsrc, List.append_nil, hv_other y hy2 hex]
      exact inv.pend y hy hy1 hs

/-- the three invariants along the traversal order -/
theorem aacc_fold {rank : Nat → Nat} (ok : DagOK L rank) {B ρ : ℝ} {hi : Int} (law : LaddLaw P B ρ hi)
    {c : Int} (hc : 0 ≤ c)
    (hge : ∀ x y, P.lz ≤ x → P.lz ≤ y → max x y ≤ P.ladd x y)
    (hub : ∀ x y, P.ladd x y ≤ max x y + c)
    (hnu : ∀ p x, Walk L p x → P.lz < jointInt P p)
    {N : Nat} (hhiW : ∀ p x, Walk L p x → jointInt P p + c * N < hi)
    {Ax : Link → ℝ} {E : Link → Nat} (hE : BudA L E)
    (hfwd : ∀ l ∈ L.links, Ax l = B ^ P.sc l * ((if l.src = L.start then 1 else 0) + ((entries L l.src).map Ax).sum)) :
    ∀ (post pre : List Link) (al : Link → Int), (pre ++ post).Nodup → (∀ y ∈ pre ++ post, y ∈ L.links) →
      Topo L (pre ++ post) → (pre ++ post).length ≤ N → AInv L P pre al → AUp L P c pre al → AAcc L P B ρ Ax E pre al →
      AInv L P (pre ++ post) (post.foldl (alphaVisit P L) al) ∧
      AUp L P c (pre ++ post) (post.foldl (alphaVisit P L) al) ∧
      AAcc L P B ρ Ax E (pre ++ post) (post.foldl (alphaVisit P L) al) := by
  have hnu' : ∀ p x, Walk L p x → P.lz ≤ jointInt P p := fun p x h => (hnu p x h).le
  intro post
  induction post with
  | nil => intro pre al _ _ _ _ inv up acc; simpa using ⟨inv, up, acc⟩
  | cons l post ih =>
    intro pre al hnd hsub htopo hlen inv up acc
    simp only [List.foldl_cons]
    have hl : l ∈ L.links := hsub l (by simp)
    have hlpre : l ∉ pre := fun h => (List.nodup_append.1 hnd).2.2 l h l (by simp) rfl
    have h1 := ainv_step ok hge hnu' hnd hsub htopo inv
    have hvl := (alphaVisit_vals (P := P) ok hl al).1
    obtain ⟨q0, hq0⟩ := exists_walk ok _ l hl rfl
    have hlo : P.lz < al l + P.sc l := by
      have := h1.done l (by simp) q0 hq0
      rw [hvl] at this
      have := hnu q0 l hq0
      omega
    have h2 := aup_step ok hc hub hnd hsub htopo hlo.le up
    have hlenpre : ((pre ++ [l]).length : Int) ≤ N := by
      have : (pre ++ [l]).length ≤ (pre ++ l :: post).length := by simp
      exact_mod_cast Nat.le_trans this hlen
    have hcN : ∀ k : Nat, (k : Int) ≤ N → c * (k : Int) ≤ c * (N : Int) := fun k hk => Int.mul_le_mul_of_nonneg_left hk hc
    have hhi : al l + P.sc l < hi := by
      obtain ⟨p, hp, hle⟩ := h2.done l (by simp)
      rw [hvl] at hle
      have := hhiW p l hp
      have := hcN _ hlenpre
      omega
    have hlenpre' : (pre.length : Int) ≤ N := by
      have : ((pre ++ [l]).length : Int) = pre.length + 1 := by simp
      omega
    have hnex : ∀ y ∈ pre, y ∉ exits L l.dst := by
      intro y hy h
      obtain ⟨pre', post', hsplit⟩ := List.append_of_mem hy
      have : l ∈ pre' := htopo pre' y (post' ++ l :: post) (by rw [hsplit]; simp) l hl (mem_exits.1 h).2.symm
      exact hlpre (by rw [hsplit]; exact List.mem_append_left _ this)
    have hhiy : ∀ y ∈ exits L l.dst, al y < hi := by
      intro y hy
      have hym := (mem_exits.1 hy).1
      have hypre : y ∉ pre := fun h => hnex y h hy
      rcases up.pend y hym hypre with ⟨hs, _⟩ | ⟨p, l', hp, _, hle⟩ | ⟨_, hz, _⟩
      · exact absurd ((mem_exits.1 hy).2.symm.trans hs) (ok.no_entry_start l hl)
      · have := hhiW p l' hp
        have := hcN _ hlenpre'
        omega
      · rw [hz]; exact law.lz_lt_hi
    have h3 := aacc_step ok law hge hE hfwd hnd hsub htopo inv.lb hlo hhi hhiy acc
    have := ih (pre ++ [l]) _ (by simpa using hnd) (by simpa using hsub) (by simpa using htopo)
      (by simpa using hlen) h1 h2 h3
    simpa using this

/-- **accuracy of the forward pass**: every integer alpha is the base-`B` logarithm of the exact forward
weight of its link up to `E l` factors `ρ`, lies above log-zero and below `hi` -/
theorem alphaInt_close {rank : Nat → Nat} (ok : DagOK L rank) {B ρ : ℝ} {hi : Int} (law : LaddLaw P B ρ hi)
    {c : Int} (hc : 0 ≤ c) (hlz : P.lz ≤ 0)
    (hge : ∀ x y, P.lz ≤ x → P.lz ≤ y → max x y ≤ P.ladd x y)
    (hub : ∀ x y, P.ladd x y ≤ max x y + c)
    (hnu : ∀ p x, Walk L p x → P.lz < jointInt P p)
    (hhiW : ∀ p x, Walk L p x → jointInt P p + c * L.links.length < hi)
    {Ax : Link → ℝ} {E : Link → Nat} (hE : BudA L E)
    (hfwd : ∀ l ∈ L.links, Ax l = B ^ P.sc l * ((if l.src = L.start then 1 else 0) + ((entries L l.src).map Ax).sum)) :
    ∀ y ∈ L.links, Close B ρ (alphaInt P L y) (Ax y) (E y) ∧ P.lz < alphaInt P L y ∧ alphaInt P L y < hi := by
  obtain ⟨hperm, htopo⟩ := traverse_topological ok
  have hnd : (traverseEdges L).Nodup := (hperm.nodup_iff).2 ok.nodup
  obtain ⟨inv, up, acc⟩ := aacc_fold ok law hc hge hub hnu hhiW hE hfwd (traverseEdges L) [] (alphaInit P L)
    (by simpa using hnd) (by intro y hy; exact hperm.mem_iff.1 (by simpa using hy)) (by simpa using htopo)
    (by simp [hperm.length_eq]) (ainv_init hlz) (aup_init c) aacc_init
  simp only [List.nil_append] at inv up acc
  intro y hy
  have hyt : y ∈ traverseEdges L := hperm.mem_iff.2 hy
  refine ⟨acc.done y hyt, ?_, ?_⟩
  · obtain ⟨q0, hq0⟩ := exists_walk ok _ y hy rfl
    have := inv.done y hyt q0 hq0
    have := hnu q0 y hq0
    unfold alphaInt
    omega
  · obtain ⟨p, hp, hle⟩ := up.done y hyt
    have := hhiW p y hp
    rw [hperm.length_eq] at hle
    unfold alphaInt
    omega

end SSVerif.Lattice
