import SSVerif.Proofs.LatticeChainDefs
import SSVerif.Proofs.LatticeBuildLinks
/-!
# A complete backtrace of the history table is a chain of linked word nodes (`ChainMid`)
-/
namespace SSVerif.Lattice
open SSVerif.Nfa
namespace ChainHist
open BuildNodes BuildLinks

/-! ### (A) every node's `lef` is the frame of some word entry -/

def LefAtt (h : Array HEntry) (b : Build) : Prop :=
  ∀ v, v < b.nodes.size → ∃ j f w t, j < h.size ∧ (hent h j).arc = some (f, some w, t) ∧
    (hent h j).frame.toNat = (b.node v).lef

theorem lefAtt_step (h : Array HEntry) (b : Build) (k : Nat) (hk : k < h.size) (hinv : LefAtt h b) :
    LefAtt h (step h b (hent h k)) := by
  unfold step
  split
  · rename_i f w t harc
    show LefAtt h (newNode b (entrySfAscr h (hent h k)).1 (hent h k).frame.toNat w (some t)
      (entrySfAscr h (hent h k)).2)
    obtain ⟨_, hcase⟩ := newNode_spec b (entrySfAscr h (hent h k)).1 (hent h k).frame.toNat w (some t)
      (entrySfAscr h (hent h k)).2
    generalize newNode b (entrySfAscr h (hent h k)).1 (hent h k).frame.toNat w (some t)
      (entrySfAscr h (hent h k)).2 = b' at *
    rcases hcase with ⟨i, hi, hsz, _, _, _, hoth, _, _, _, _, hn5⟩ | ⟨_, hsz, hold, hnew⟩
    · intro v hv
      rw [hsz] at hv
      by_cases hvi : v = i
      · subst hvi
        rw [hn5]
        rcases Nat.le_total (b.node v).lef (hent h k).frame.toNat with hle | hle
        · rw [Nat.max_eq_right hle]; exact ⟨k, f, w, t, hk, harc, rfl⟩
        · rw [Nat.max_eq_left hle]; exact hinv v hv
      · rw [hoth v hvi]; exact hinv v hv
    · intro v hv
      rw [hsz] at hv
      by_cases hvs : v < b.nodes.size
      · rw [hold v hvs]; exact hinv v hvs
      · have hve : v = b.nodes.size := by omega
        subst hve; rw [hnew]; exact ⟨k, f, w, t, hk, harc, rfl⟩
  · exact hinv

theorem lefAtt_fold (h : Array HEntry) (post : List HEntry) :
    ∀ (pre : List HEntry) (b : Build), pre ++ post = h.toList → LefAtt h b →
      LefAtt h (post.foldl (step h) b) := by
  induction post with
  | nil => intro pre b _ hinv; exact hinv
  | cons e post ih =>
    intro pre b hs hinv
    obtain ⟨he, hk⟩ := hent_toList h pre post e hs
    rw [List.foldl_cons]
    have := lefAtt_step h b pre.length hk hinv
    rw [he] at this
    exact ih (pre ++ [e]) _ (by rw [← hs]; simp) this

/-- (A) the last end frame of every node of `buildNodes h` is the frame of a word entry -/
theorem lefAtt_buildNodes (h : Array HEntry) : LefAtt h (buildNodes h) := by
  rw [buildNodes_eq]
  exact lefAtt_fold h h.toList [] _ rfl (by intro v hv; simp at hv)

/-! ### (B) links name their source -/

theorem links_complete {G : Nfa} {h : Array HEntry} {frame : Nat} {b0 : Build} (hwf : HistWF G h frame)
    (hn : NodesOK G h frame b0) :
    (buildLinks G h b0).nodes = b0.nodes ∧
    ∀ j f' w' t', j < h.size → (hent h j).arc = some (f', some w', t') →
      ∀ u, u < b0.nodes.size → (b0.node u).sf = (entrySfAscr h (hent h j)).1 → (b0.node u).word = w' →
        (b0.node u).state = some t' →
      ∀ v r, v < b0.nodes.size → (b0.node v).sf = ((hent h j).frame + 1).toNat → (b0.node v).state = some r →
        stepOK G t' (b0.node v).word r →
        ∃ l ∈ (buildLinks G h b0).links.toList, l.src = u ∧ l.dst = v := by
  have hinv := oinv_fold hwf hn h.toList [] b0 rfl (oinv_init hn)
  rw [← buildLinks_eq] at hinv
  refine ⟨hinv.inv.nodes, ?_⟩
  intro j f' w' t' hj harc u hu u1 u2 u3 v r hv v1 v2 v3
  have hp := hinv.compl j f' w' t' hj hj harc u hu u1 u2 u3 v r hv v1 v2 v3
  unfold pairs at hp
  rw [List.mem_map] at hp
  obtain ⟨l, hl, hlp⟩ := hp
  exact ⟨l, hl, congrArg Prod.fst hlp, congrArg Prod.snd hlp⟩

/-! ### (C) one step of a backtrace -/

theorem isWord_iff (h : Array HEntry) (i : Nat) :
    isWordEntry h i = true ↔ ∃ f w t, (hent h i).arc = some (f, some w, t) := by
  unfold isWordEntry wordOf
  split
  · rename_i f w t harc
    simp only [Option.isSome_some, true_iff]
    exact ⟨f, w, t, harc⟩
  · rename_i hna
    simp only [Option.isSome_none, Bool.false_eq_true, false_iff]
    intro ⟨f, w, t, harc⟩
    exact hna f w t harc

/-- a word entry without a preceding word entry starts in frame 0 -/
theorem prev_none {G : Nfa} {h : Array HEntry} {frame : Nat} (hwf : HistWF G h frame)
    (i : Nat) (hi : i < h.size) (f w t : Nat) (harc : (hent h i).arc = some (f, some w, t))
    (hp : prevWord h i = none) : (entrySfAscr h (hent h i)).1 = 0 := by
  have hw := hwf i hi
  unfold EntryWF at hw
  rw [harc] at hw
  simp only at hw
  obtain ⟨_, _, _, hpo⟩ := hw
  rw [sf_eq]
  unfold prevWord at hp
  simp only at hp
  generalize hent h i = e at *
  unfold PredOK at hpo
  by_cases hp0 : e.pred = 0
  · simp only [hp0, ne_eq, not_true_eq_false, if_false]
  · rw [if_neg hp0] at hpo hp
    obtain ⟨_, _, _, hm⟩ := hpo
    generalize hent h e.pred.toNat = p at *
    cases hpa : p.arc with
    | none => rw [hpa] at hm; exact absurd hm (by simp)
    | some a =>
      obtain ⟨pf, pw, pt⟩ := a
      cases pw with
      | some pw => rw [hpa] at hp; simp at hp
      | none =>
        rw [hpa] at hp hm; simp only at hp hm
        obtain ⟨_, _, hnp⟩ := hm
        unfold NullPredOK at hnp
        by_cases hpp : p.pred = 0
        · rw [if_pos hpp] at hnp
          simp only [ne_eq, hp0, not_false_eq_true, if_true]
          omega
        · rw [if_neg hpp] at hp; simp at hp

/-- the preceding word entry `j` of word entry `i`: `i` starts in the frame after `j`, one grammar step after it -/
theorem prev_some {G : Nfa} {h : Array HEntry} {frame : Nat} (hwf : HistWF G h frame)
    (i : Nat) (hi : i < h.size) (f w t : Nat) (harc : (hent h i).arc = some (f, some w, t))
    (j : Nat) (hp : prevWord h i = some j) :
    j < h.size ∧ ∃ f' w' t', (hent h j).arc = some (f', some w', t') ∧
      (entrySfAscr h (hent h i)).1 = ((hent h j).frame + 1).toNat ∧ stepOK G t' w t := by
  have hw := hwf i hi
  unfold EntryWF at hw
  rw [harc] at hw
  simp only at hw
  obtain ⟨harcG, _, _, hpo⟩ := hw
  rw [sf_eq]
  unfold prevWord at hp
  simp only at hp
  generalize hent h i = e at *
  unfold PredOK at hpo
  by_cases hp0 : e.pred = 0
  · rw [if_pos hp0] at hp; simp at hp
  · rw [if_neg hp0] at hpo hp
    obtain ⟨hpos, hlt, _, hm⟩ := hpo
    simp only [ne_eq, hp0, not_false_eq_true, if_true]
    generalize hpe : hent h e.pred.toNat = p at *
    cases hpa : p.arc with
    | none => rw [hpa] at hm; exact absurd hm (by simp)
    | some a =>
      obtain ⟨pf, pw, pt⟩ := a
      cases pw with
      | some pw =>
        rw [hpa] at hp hm; simp only [Option.some.injEq] at hp hm
        subst hp
        refine ⟨by omega, pf, pw, pt, by rw [hpe]; exact hpa, by rw [hpe], ?_⟩
        left; rw [hm.1]; exact harcG
      | none =>
        rw [hpa] at hp hm; simp only at hp hm
        obtain ⟨hpt, hpG, hnp⟩ := hm
        unfold NullPredOK at hnp
        by_cases hpp : p.pred = 0
        · rw [if_pos hpp] at hp; simp at hp
        · rw [if_neg hpp] at hp hnp
          simp only [Option.some.injEq] at hp
          subst hp
          obtain ⟨_, hpplt, hppfr, _, hmm⟩ := hnp
          cases hppa : (hent h p.pred.toNat).arc with
          | none => rw [hppa] at hmm; exact absurd hmm (by simp)
          | some a2 =>
            obtain ⟨ppf, ppw, ppt⟩ := a2
            cases ppw with
            | none => rw [hppa] at hmm; exact absurd hmm (by simp)
            | some ppw =>
              rw [hppa] at hmm; simp only at hmm
              refine ⟨by omega, ppf, ppw, ppt, rfl, by rw [hppfr], ?_⟩
              right
              refine ⟨(pf, none, pt), hpG, hmm.symm, rfl, ?_⟩
              simp only; rw [hpt]; exact harcG

theorem segOf_eq (h : Array HEntry) (i : Nat) (f w t : Nat) (harc : (hent h i).arc = some (f, some w, t)) :
    segOf h i = ⟨w, (entrySfAscr h (hent h i)).1, (hent h i).frame.toNat⟩ := by
  unfold segOf wordOf
  rw [harc]
  rfl

/-! ### (E) the node of the last word entry -/

theorem lastDominates_spec (h : Array HEntry) (k : Nat) (hd : lastDominates h k = true) (j : Nat)
    (hj : j < h.size) (f w t : Nat) (harc : (hent h j).arc = some (f, some w, t)) :
    (hent h j).frame ≤ (hent h k).frame := by
  unfold lastDominates at hd
  rw [List.all_eq_true] at hd
  have := hd j (List.mem_range.mpr hj)
  have hw : isWordEntry h j = true := (isWord_iff h j).mpr ⟨f, w, t, harc⟩
  rw [hw] at this
  simpa using this

theorem last_node {h : Array HEntry} {b0 : Build} (hla : LefAtt h b0) (k : Nat)
    (hd : lastDominates h k = true) (v : Nat) (hv : v < b0.nodes.size)
    (hle : (hent h k).frame.toNat ≤ (b0.node v).lef) :
    (b0.node v).lef = (hent h k).frame.toNat ∧ ∀ u, u < b0.nodes.size → (b0.node u).lef ≤ (b0.node v).lef := by
  have dom : ∀ u, u < b0.nodes.size → (b0.node u).lef ≤ (hent h k).frame.toNat := by
    intro u hu
    obtain ⟨j, f, w, t, hj, harc, hfr⟩ := hla u hu
    have := lastDominates_spec h k hd j hj f w t harc
    omega
  have := dom v hv
  refine ⟨by omega, ?_⟩
  intro u hu
  have := dom u hu
  omega

/-! ### (F) the chain -/

theorem chainFrom_cons (h : Array HEntry) (prev : Option Nat) (i : Nat) (rest : List Nat) :
    chainFrom h prev (i :: rest) = true ↔
      i < h.size ∧ isWordEntry h i = true ∧ prevWord h i = prev ∧ chainFrom h (some i) rest = true := by
  rw [chainFrom]
  simp only [Bool.and_eq_true, decide_eq_true_eq, beq_iff_eq, and_assoc]

theorem chain_ind {G : Nfa} {h : Array HEntry} {frame : Nat} (hwf : HistWF G h frame) {b0 b : Build}
    (hn : NodesOK G h frame b0) (hla : LefAtt h b0) (hnodes : b.nodes = b0.nodes)
    (hcompl : ∀ j f' w' t', j < h.size → (hent h j).arc = some (f', some w', t') →
      ∀ u, u < b0.nodes.size → (b0.node u).sf = (entrySfAscr h (hent h j)).1 → (b0.node u).word = w' →
        (b0.node u).state = some t' →
      ∀ v r, v < b0.nodes.size → (b0.node v).sf = ((hent h j).frame + 1).toNat → (b0.node v).state = some r →
        stepOK G t' (b0.node v).word r → ∃ l ∈ b.links.toList, l.src = u ∧ l.dst = v) :
    ∀ (c : List Nat) (prev : Option Nat) (i : Nat), chainFrom h prev (i :: c) = true →
      (∀ k, (i :: c).getLast? = some k → lastDominates h k = true) →
      ∃ v vs, ChainMid b (v :: vs) (segsOf h (i :: c)) ∧ v < b0.nodes.size ∧
        ∃ f w t, (hent h i).arc = some (f, some w, t) ∧ (b0.node v).sf = (entrySfAscr h (hent h i)).1 ∧
          (b0.node v).word = w ∧ (b0.node v).state = some t := by
  have hnode : ∀ v, b.node v = b0.node v := by
    intro v; unfold Build.node; rw [hnodes]
  intro c
  induction c with
  | nil =>
    intro prev i hc hlast
    rw [chainFrom_cons] at hc
    obtain ⟨hi, hw, _, _⟩ := hc
    obtain ⟨f, w, t, harc⟩ := (isWord_iff h i).mp hw
    obtain ⟨v, hv, c1, c2, c3, _, c5⟩ := hn.covered i f w t hi harc
    obtain ⟨e1, e2⟩ := last_node hla i (hlast i rfl) v hv c5
    refine ⟨v, [], ?_, hv, f, w, t, harc, c1, c2, c3⟩
    show ChainMid b [v] [segOf h i]
    rw [segOf_eq h i f w t harc]
    simp only [ChainMid, hnodes, hnode]
    exact ⟨hv, c2, c1, e1, e2⟩
  | cons i' c' ih =>
    intro prev i hc hlast
    rw [chainFrom_cons] at hc
    obtain ⟨hi, hw, _, hc'⟩ := hc
    have hc'' := hc'
    rw [chainFrom_cons] at hc''
    obtain ⟨hi', _, hprev, _⟩ := hc''
    obtain ⟨v', vs', hcm, hv', f', w', t', harc', d1, d2, d3⟩ := ih (some i) i' hc' (by
      intro k hk; apply hlast k; rw [List.getLast?_cons_cons]; exact hk)
    obtain ⟨f, w, t, harc⟩ := (isWord_iff h i).mp hw
    obtain ⟨v, hv, c1, c2, c3, _, _⟩ := hn.covered i f w t hi harc
    obtain ⟨_, f2, w2, t2, harc2, hsf, hstep⟩ := prev_some hwf i' hi' f' w' t' harc' i hprev
    rw [harc] at harc2
    simp only [Option.some.injEq, Prod.mk.injEq] at harc2
    obtain ⟨_, _, ht2⟩ := harc2
    subst ht2
    have h1 : 1 ≤ (hent h i).frame := (entry_facts G h frame hwf i hi f w t harc).1
    obtain ⟨l, hl, hls, hld⟩ := hcompl i f w t hi harc v hv c1 c2 c3 v' t' hv' (d1.trans hsf) d3
      (by rw [d2]; exact hstep)
    refine ⟨v, v' :: vs', ?_, hv, f, w, t, harc, c1, c2, c3⟩
    show ChainMid b (v :: v' :: vs') (segOf h i :: segsOf h (i' :: c'))
    rw [segOf_eq h i f w t harc]
    simp only [ChainMid]
    refine ⟨by rw [hnodes]; exact hv, by rw [hnode]; exact c2, by rw [hnode]; exact c1,
      ⟨l, hl, hls, hld⟩, ?_, hcm⟩
    rw [hnode, d1, hsf]; omega

end ChainHist

/-- a complete backtrace of a well-formed history table, ending in the last word-exit frame, is a chain of
linked word nodes after the two passes of `fsg_search_lattice`, carrying exactly its segmentation -/
theorem chainMid_of_hist (G : Nfa) (h : Array HEntry) (frame : Nat) (hwf : HistWF G h frame)
    (c : List Nat) (hc : chainOKB h c = true) :
    ∃ vs, ChainMid (buildLinks G h (buildNodes h)) vs (segsOf h c) ∧
      ∀ v ∈ vs.head?, ((buildLinks G h (buildNodes h)).node v).sf = 0 := by
  unfold chainOKB at hc
  rw [Bool.and_eq_true] at hc
  obtain ⟨hc1, hc2⟩ := hc
  cases c with
  | nil => simp at hc2
  | cons i rest =>
    have hn := buildNodes_nodesOK G h frame hwf
    obtain ⟨hnodes, hcompl⟩ := ChainHist.links_complete hwf hn
    obtain ⟨v, vs, hcm, hv, f, w, t, harc, c1, c2, c3⟩ :=
      ChainHist.chain_ind hwf hn (ChainHist.lefAtt_buildNodes h) hnodes hcompl rest none i hc1 (by
        intro k hk; rw [hk] at hc2; exact hc2)
    refine ⟨v :: vs, hcm, ?_⟩
    intro v0 hv0
    simp only [List.head?_cons, Option.mem_def, Option.some.injEq] at hv0
    subst hv0
    obtain ⟨hi, _, hprev, _⟩ := (ChainHist.chainFrom_cons h none i rest).mp hc1
    have hnode : (buildLinks G h (buildNodes h)).node v = (buildNodes h).node v := by
      unfold Build.node; rw [hnodes]
    rw [hnode, c1]
    exact ChainHist.prev_none hwf i hi f w t harc hprev

end SSVerif.Lattice
