import SSVerif.Proofs.FsgClosure
/-!
# `addSilence` is idempotent; what the closure leaves alone; `NullWF` under `addSilence`/`addAlt`
-/
namespace SSVerif.Fsg

variable {z : Int}

/-! ### the closure touches nothing but null links -/

def wordLinks (g : Fsg) : List Link := g.links.filter fun l => !l.isNull

theorem wordLinks_raiseFirst_null {p : Link → Bool} (hp : ∀ l, p l = true → l.isNull = true) (lp : Int) :
    ∀ ls : List Link, (raiseFirst p lp ls).filter (fun l => !l.isNull) = ls.filter fun l => !l.isNull
  | [] => rfl
  | l :: ls => by
    simp only [raiseFirst]
    split
    · rename_i h
      have hn := hp l h
      have hn' : Link.isNull { l with logp := lp } = true := hn
      simp [List.filter, hn, hn']
    · simp [List.filter, wordLinks_raiseFirst_null hp lp ls]

/-- fields other than `links` and the non-null links are unchanged -/
def SameButNulls (g g' : Fsg) : Prop :=
  wordLinks g' = wordLinks g ∧ g'.nState = g.nState ∧ g'.start = g.start ∧ g'.final = g.final ∧
  g'.vocab = g.vocab ∧ g'.sil = g.sil ∧ g'.alt = g.alt ∧ g'.name = g.name ∧ g'.logZero = g.logZero

theorem SameButNulls.refl (g : Fsg) : SameButNulls g g := ⟨rfl, rfl, rfl, rfl, rfl, rfl, rfl, rfl, rfl⟩

theorem SameButNulls.trans {a b c : Fsg} (h1 : SameButNulls a b) (h2 : SameButNulls b c) : SameButNulls a c := by
  obtain ⟨a1, a2, a3, a4, a5, a6, a7, a8, a9⟩ := h1
  obtain ⟨b1, b2, b3, b4, b5, b6, b7, b8, b9⟩ := h2
  exact ⟨b1.trans a1, b2.trans a2, b3.trans a3, b4.trans a4, b5.trans a5, b6.trans a6, b7.trans a7, b8.trans a8, b9.trans a9⟩

theorem nullAdd_same (g : Fsg) (a c : Nat) (lp : Int) : SameButNulls g (nullAdd g a c lp).1 := by
  have f := nullAdd_start g a c lp
  refine ⟨?_, f.2.2.1, f.1, f.2.1, f.2.2.2.1, f.2.2.2.2.1, f.2.2.2.2.2.1, f.2.2.2.2.2.2.1, f.2.2.2.2.2.2.2⟩
  unfold wordLinks nullAdd
  split
  · rfl
  · cases nullLookup g a c with
    | none => simp [List.filter, Link.isNull]
    | some old =>
      simp only
      split
      · exact wordLinks_raiseFirst_null (fun l h => by simp [Link.isNull, (isNullAt_iff.1 h).1]) lp g.links
      · rfl

theorem innerFold_same {a : Nat} {lp1 : Int} : ∀ (ts : List Link) (s : PassSt),
    SameButNulls s.g (ts.foldl (innerStep z a lp1) s).g
  | [], _ => SameButNulls.refl _
  | t :: ts, s => (nullAdd_same s.g a t.dst (satAdd z lp1 t.logp)).trans (innerFold_same ts (innerStep z a lp1 s t))

theorem outerStep_same (s : PassSt) (k : Key) : SameButNulls s.g (outerStep z s k).g := by
  unfold outerStep
  cases nullLookup s.g k.1 k.2 with
  | none => exact SameButNulls.refl _
  | some lp1 => exact innerFold_same _ _

theorem outerFold_same : ∀ (ks : List Key) (s : PassSt), SameButNulls s.g (ks.foldl (outerStep z) s).g
  | [], _ => SameButNulls.refl _
  | k :: ks, s => (outerStep_same s k).trans (outerFold_same ks _)

theorem closureLoop_same : ∀ (fuel : Nat) (g : Fsg) (nulls : List Key), SameButNulls g (closureLoop z fuel g nulls).1
  | 0, g, _ => SameButNulls.refl g
  | fuel + 1, g, nulls => by
    rw [closureLoop]
    have hp : SameButNulls g (pass z g nulls).g := outerFold_same nulls { g, nulls, updated := false }
    split
    · exact hp.trans (closureLoop_same fuel _ _)
    · exact hp

theorem closure_same (g : Fsg) : SameButNulls g (closure g) := closureLoop_same (z := g.logZero) _ g _

/-! ### `NullWF` under `addSilence` and `addAlt` -/

theorem wordAdd_links (g : Fsg) (w : String) : (wordAdd g w).1.links = g.links := by
  unfold wordAdd; split <;> rfl

theorem nullWF_congr {g g' : Fsg} (h : g'.links = g.links) (hw : NullWF g) : NullWF g' := by
  refine ⟨fun l hl => hw.le0 l (h ▸ hl), fun l hl => hw.noLoop l (h ▸ hl), ?_⟩
  have : nullKeys g' = nullKeys g := by unfold nullKeys nullLinks; rw [h]
  rw [this]; exact hw.uniq

theorem silFold_wf (lp : Int) (wid : Nat) : ∀ (ss : List Nat) (g : Fsg), NullWF g →
    NullWF (ss.foldl (fun acc s => transAdd acc s s lp wid) g)
  | [], _, h => h
  | s :: ss, _, h => silFold_wf lp wid ss _ (nullWF_transAdd h s s lp wid)

theorem nullWF_addSilence {g : Fsg} (h : NullWF g) (word : String) (state : Option Nat) (lp : Int) :
    NullWF (addSilence g word state lp).1 := by
  have h1 : NullWF { (wordAdd g word).1 with sil := setBit (wordAdd g word).1.sil (wordAdd g word).2 } :=
    nullWF_congr (wordAdd_links g word) h
  unfold addSilence
  cases state with
  | none => exact silFold_wf lp _ _ _ h1
  | some s => exact nullWF_transAdd h1 s s lp _

theorem nullGe_addSilence {g : Fsg} (h : NullGe z g) (word : String) (state : Option Nat) (lp : Int) :
    NullGe z (addSilence g word state lp).1 := by
  intro l hl hw
  rcases (addSilence_spec g word state lp).2.2.2 l hl with hl | ⟨_, e, _⟩
  · exact h l hl hw
  · rw [hw] at e; cases e

theorem nullGe_addAlt {g : Fsg} (h : NullGe z g) (base altw : String) : NullGe z (addAlt g base altw).1 := by
  intro l hl hw
  cases hb : wordId g base with
  | none =>
    have : (addAlt g base altw).1 = g := by unfold addAlt; simp [hb]
    exact h l (this ▸ hl) hw
  | some bw =>
    rcases (addAlt_spec g base altw).2.2.2 bw hb l hl with hl | ⟨l0, _, _, rfl⟩
    · exact h l hl hw
    · cases hw

theorem nullWF_addAlt {g : Fsg} (h : NullWF g) (base altw : String) : NullWF (addAlt g base altw).1 := by
  unfold addAlt
  cases wordId g base with
  | none => exact h
  | some bw =>
    simp only [wordAdd_links]
    -- the new links are word links put in front
    generalize hc : (List.map (fun l : Link => { l with wid := some (wordAdd g altw).2 })
      (List.filter (fun l => l.wid == some bw) g.links)).reverse = copies
    have hcw : ∀ x ∈ copies, x.wid ≠ none := by
      intro x hx
      rw [← hc, List.mem_reverse] at hx
      obtain ⟨l, _, rfl⟩ := List.mem_map.1 hx
      simp
    refine ⟨fun l hl hw => ?_, fun l hl hw => ?_, ?_⟩
    · rcases List.mem_append.1 hl with hl | hl
      · exact absurd hw (hcw l hl)
      · exact h.le0 l hl hw
    · rcases List.mem_append.1 hl with hl | hl
      · exact absurd hw (hcw l hl)
      · exact h.noLoop l hl hw
    · have hnil : copies.filter Link.isNull = [] := by
        apply List.filter_eq_nil_iff.2
        intro x hx
        cases hw : x.wid with
        | none => exact absurd hw (hcw x hx)
        | some w => simp [Link.isNull, hw]
      have hu := h.uniq
      unfold nullKeys nullLinks at hu ⊢
      simp only [List.filter_append, hnil, List.nil_append]
      exact hu

/-! ### `addSilence` twice = once -/

theorem isWordAt_logp (a c w : Nat) (l : Link) (x : Int) : Link.isWordAt a c w { l with logp := x } = Link.isWordAt a c w l := rfl

theorem isWordAt_disj {a c w a' c' w' : Nat} (h : ¬(a = a' ∧ c = c' ∧ w = w')) (l : Link)
    (hl : Link.isWordAt a c w l = true) : Link.isWordAt a' c' w' l = false := by
  have := isWordAt_iff.1 hl
  cases hx : Link.isWordAt a' c' w' l with
  | false => rfl
  | true =>
    have h2 := isWordAt_iff.1 hx
    refine absurd ⟨this.2.1.symm.trans h2.2.1, this.2.2.symm.trans h2.2.2, ?_⟩ h
    have := this.1.symm.trans h2.1
    exact Option.some.inj this

/-- the self-loop of `s` labelled `wid` that `fsg_model_trans_add` would find is at least `lp` -/
def Good (lp : Int) (wid : Nat) (g : Fsg) (s : Nat) : Prop :=
  ∃ l, g.links.find? (Link.isWordAt s s wid) = some l ∧ lp ≤ l.logp

theorem transAdd_of_good {lp : Int} {wid : Nat} {g : Fsg} {s : Nat} (h : Good lp wid g s) :
    transAdd g s s lp wid = g := by
  obtain ⟨l, hf, hle⟩ := h
  unfold transAdd
  rw [hf]; simp only
  rw [if_neg (by omega)]

theorem transAdd_good (lp : Int) (wid : Nat) (g : Fsg) (a : Nat) :
    Good lp wid (transAdd g a a lp wid) a ∧ ∀ s, Good lp wid g s → Good lp wid (transAdd g a a lp wid) s := by
  unfold transAdd
  cases hf : g.links.find? (Link.isWordAt a a wid) with
  | none =>
    simp only
    have hm : Link.isWordAt a a wid ⟨a, a, lp, some wid⟩ = true := isWordAt_iff.2 ⟨rfl, rfl, rfl⟩
    refine ⟨⟨⟨a, a, lp, some wid⟩, by simp [List.find?, hm], Int.le_refl _⟩, fun s hs => ?_⟩
    by_cases hsa : s = a
    · subst hsa; exact ⟨⟨s, s, lp, some wid⟩, by simp [List.find?, hm], Int.le_refl _⟩
    · obtain ⟨l, hl, le⟩ := hs
      have : Link.isWordAt s s wid ⟨a, a, lp, some wid⟩ = false :=
        isWordAt_disj (by rintro ⟨e, _, _⟩; exact hsa e.symm) _ hm
      exact ⟨l, by simp only [List.find?, this]; exact hl, le⟩
  | some l0 =>
    simp only
    split
    · refine ⟨⟨{ l0 with logp := lp }, ?_, Int.le_refl _⟩, fun s hs => ?_⟩
      · show (raiseFirst (Link.isWordAt a a wid) lp g.links).find? (Link.isWordAt a a wid) = _
        rw [find?_raiseFirst_same (isWordAt_logp a a wid), hf]; rfl
      · by_cases hsa : s = a
        · subst hsa
          exact ⟨{ l0 with logp := lp }, by
            show (raiseFirst (Link.isWordAt s s wid) lp g.links).find? (Link.isWordAt s s wid) = _
            rw [find?_raiseFirst_same (isWordAt_logp s s wid), hf]; rfl, Int.le_refl _⟩
        · obtain ⟨l, hl, le⟩ := hs
          refine ⟨l, ?_, le⟩
          show (raiseFirst (Link.isWordAt a a wid) lp g.links).find? (Link.isWordAt s s wid) = _
          rw [find?_raiseFirst_other (isWordAt_disj (by rintro ⟨e, _, _⟩; exact hsa e.symm)) (isWordAt_logp s s wid)]
          exact hl
    · rename_i hge
      exact ⟨⟨l0, hf, by omega⟩, fun s hs => hs⟩

theorem silFold_good (lp : Int) (wid : Nat) : ∀ (ss : List Nat) (g : Fsg),
    (∀ s, Good lp wid g s → Good lp wid (ss.foldl (fun acc s => transAdd acc s s lp wid) g) s) ∧
    ∀ s ∈ ss, Good lp wid (ss.foldl (fun acc s => transAdd acc s s lp wid) g) s
  | [], _ => ⟨fun _ h => h, fun _ h => by cases h⟩
  | a :: ss, g => by
    obtain ⟨keep, est⟩ := silFold_good lp wid ss (transAdd g a a lp wid)
    obtain ⟨ga, gk⟩ := transAdd_good lp wid g a
    refine ⟨fun s hs => keep s (gk s hs), fun s hs => ?_⟩
    rcases List.mem_cons.1 hs with rfl | hs
    · exact keep _ ga
    · exact est s hs

theorem silFold_fixed (lp : Int) (wid : Nat) : ∀ (ss : List Nat) (g : Fsg), (∀ s ∈ ss, Good lp wid g s) →
    ss.foldl (fun acc s => transAdd acc s s lp wid) g = g
  | [], _, _ => rfl
  | a :: ss, g, h => by
    rw [List.foldl_cons, transAdd_of_good (h a List.mem_cons_self)]
    exact silFold_fixed lp wid ss g fun s hs => h s (List.mem_cons_of_mem _ hs)

theorem silFold_fields (lp : Int) (wid : Nat) : ∀ (ss : List Nat) (g : Fsg),
    let g' := ss.foldl (fun acc s => transAdd acc s s lp wid) g
    g'.nState = g.nState ∧ g'.vocab = g.vocab ∧ g'.sil = g.sil
  | [], _ => ⟨rfl, rfl, rfl⟩
  | a :: ss, g => by
    obtain ⟨h1, h2, h3⟩ := silFold_fields lp wid ss (transAdd g a a lp wid)
    have f := transAdd_fields g a a lp wid
    exact ⟨h1.trans f.2.2.1, h2.trans f.2.2.2.1, h3.trans f.2.2.2.2.1⟩

theorem idxOf?_append_self (w : String) : ∀ (vs : List String), vs.idxOf? w = none →
    (vs ++ [w]).idxOf? w = some vs.length
  | [], _ => by simp [List.idxOf?, List.findIdx?_cons]
  | v :: vs, h => by
    have hv : (v == w) = false := by
      cases hb : v == w with
      | false => rfl
      | true => simp [List.idxOf?, List.findIdx?_cons, hb] at h
    have ht : vs.idxOf? w = none := by
      simp only [List.idxOf?, List.findIdx?_cons, hv] at h
      simpa [List.idxOf?] using h
    have ih := idxOf?_append_self w vs ht
    simp only [List.idxOf?] at ih ⊢
    simp [List.findIdx?_cons, hv, ih]

theorem wordId_wordAdd (g : Fsg) (w : String) : wordId (wordAdd g w).1 w = some (wordAdd g w).2 := by
  unfold wordAdd
  cases h : wordId g w with
  | some i => simpa using h
  | none =>
    simp only
    unfold wordId at h ⊢
    exact idxOf?_append_self w g.vocab h

theorem setBit_of_mem {s : List Nat} {i : Nat} (h : s.contains i = true) : setBit s i = s := by
  unfold setBit; rw [if_pos h]

theorem setBit_idem (s : List Nat) (i : Nat) : setBit (setBit s i) i = setBit s i := by
  apply setBit_of_mem
  unfold setBit; split
  · assumption
  · simp

theorem addSilence_idem (g : Fsg) (word : String) (state : Option Nat) (lp : Int) :
    (addSilence (addSilence g word state lp).1 word state lp).1 = (addSilence g word state lp).1 := by
  -- the first call
  let wid := (wordAdd g word).2
  let g1 : Fsg := { (wordAdd g word).1 with sil := setBit (wordAdd g word).1.sil wid }
  let ss : List Nat := match state with | none => List.range g.nState | some s => [s]
  have hR : (addSilence g word state lp).1 = ss.foldl (fun acc s => transAdd acc s s lp wid) g1 := by
    unfold addSilence; cases state <;> rfl
  generalize hRdef : ss.foldl (fun acc s => transAdd acc s s lp wid) g1 = R at hR
  have hf := silFold_fields lp wid ss g1
  rw [hRdef] at hf
  obtain ⟨hn, hv, hs⟩ := hf
  have hgood : ∀ s ∈ ss, Good lp wid R s := by
    have := (silFold_good lp wid ss g1).2; rwa [hRdef] at this
  have hg1n : g1.nState = g.nState := by
    show (wordAdd g word).1.nState = g.nState
    unfold wordAdd; split <;> rfl
  -- the second call sees the word, the bit and the loops
  have hword : wordAdd R word = (R, wid) := by
    have : wordId R word = some wid := by
      unfold wordId; rw [hv]; exact wordId_wordAdd g word
    unfold wordAdd; rw [this]
  have hbit : setBit R.sil wid = R.sil := by rw [hs]; exact setBit_idem _ _
  rw [hR]
  unfold addSilence
  rw [hword]
  simp only [hbit]
  have hss : (match state with | none => List.range R.nState | some s => [s]) = ss := by
    cases state with
    | none => show List.range R.nState = List.range g.nState; rw [hn, hg1n]
    | some s => rfl
  cases state with
  | none =>
    simp only
    have : List.range R.nState = ss := hss
    rw [this]
    exact silFold_fixed lp wid ss R hgood
  | some s =>
    simp only
    exact transAdd_of_good (hgood s (by simp [ss]))

end SSVerif.Fsg
