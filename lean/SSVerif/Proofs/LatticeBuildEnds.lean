import SSVerif.Proofs.LatticeBuildNodes
/-! Start/end selection (`find_start_node`, `find_end_node`): from the explicit shape `EndsShape` and the
invariant `MidOK` of the two history passes to the pre-pruning invariant `PreOK`. -/
namespace SSVerif.Lattice
open SSVerif.Nfa
namespace BuildEnds

theorem node_push (b b' : Build) (x : BNode) (h : b'.nodes = b.nodes.push x) (v : Nat) :
    b'.node v = if v = b.nodes.size then x else b.node v := by
  rw [BuildNodes.node_eq, BuildNodes.node_eq, h, Array.getElem?_push]
  split <;> rfl

/-- uniform description of the result: `n0 ≤ s` iff the start is the synthetic `<s>`, `n0 ≤ f` iff the end is the
synthetic `</s>` (`n0` = number of word nodes) -/
structure Facts (frame wS wE : Nat) (b0 : Build) (R : BuildResult) (lastEf : Int) (sc ec : List Nat)
    (sc' : Nat → Int) : Prop where
  old : ∀ v, v < b0.nodes.size → R.b.node v = b0.node v
  idx : ∀ v, v < R.b.nodes.size → v < b0.nodes.size ∨ (v = R.start ∧ b0.nodes.size ≤ R.start) ∨
    (v = R.final ∧ b0.nodes.size ≤ R.final)
  szLe : b0.nodes.size ≤ R.b.nodes.size
  sLt : R.start < R.b.nodes.size
  fLt : R.final < R.b.nodes.size
  sR : R.start < b0.nodes.size → sc = [R.start]
  sS : b0.nodes.size ≤ R.start → R.b.node R.start = ⟨wS, 0, 0, 0, none, 0⟩
  fS : b0.nodes.size ≤ R.final → R.final ≠ R.start ∧ R.b.node R.final = ⟨wE, frame, frame, frame, none, 0⟩ ∧ ec ≠ []
  fR : R.final < b0.nodes.size → R.final ∈ ec ∨ ∃ l ∈ R.b.links.toList, l.dst = R.final
  links : ∀ l, l ∈ R.b.links.toList ↔ l ∈ b0.links.toList ∨
    (b0.nodes.size ≤ R.start ∧ ∃ v ∈ sc, l = ⟨R.start, v, 0, 0⟩) ∨
    (b0.nodes.size ≤ R.final ∧ ∃ v ∈ ec, l = ⟨v, R.final, frame, sc' v⟩)
  distinct : R.b.links.toList.Pairwise (fun a c => ¬(a.src = c.src ∧ a.dst = c.dst))
  ecP : ∀ v ∈ ec, v < b0.nodes.size ∧ ((b0.node v).lef : Int) = lastEf
  ecIn : ∀ v, v < b0.nodes.size → ((b0.node v).lef : Int) = lastEf →
    ((∃ l ∈ R.b.links.toList, l.dst = v) ∨ v = R.start) → v ∈ ec

section
variable {G : Nfa} {frame wS wE : Nat} {b0 : Build} {R : BuildResult} {lastEf : Int} {sc ec : List Nat} {b1 : Build}

theorem scP (hs : EndsShape b0 frame wS wE R lastEf sc ec b1) {v : Nat} (hv : v ∈ sc) :
    v < b0.nodes.size ∧ (b0.node v).sf = 0 := by
  have := (hs.scMem v).1 hv
  exact ⟨this.1, this.2.1⟩

theorem pairwise_map_start (s : Nat) (l : List Nat) (h : l.Nodup) :
    (l.map fun v => (⟨s, v, 0, 0⟩ : BLink)).Pairwise (fun a c => ¬(a.src = c.src ∧ a.dst = c.dst)) := by
  rw [List.pairwise_map]
  exact h.imp (fun hne => fun e => hne e.2)

theorem pairwise_map_end (e frame : Nat) (sc' : Nat → Int) (l : List Nat) (h : l.Nodup) :
    (l.map fun v => (⟨v, e, frame, sc' v⟩ : BLink)).Pairwise (fun a c => ¬(a.src = c.src ∧ a.dst = c.dst)) := by
  rw [List.pairwise_map]
  exact h.imp (fun hne => fun e => hne e.1)

/-- description of the state after the start node has been chosen -/
structure Facts1 (wS : Nat) (b0 : Build) (s : Nat) (sc : List Nat) (b1 : Build) : Prop where
  old : ∀ v, v < b0.nodes.size → b1.node v = b0.node v
  links : ∀ l, l ∈ b1.links.toList ↔ l ∈ b0.links.toList ∨ (b0.nodes.size ≤ s ∧ ∃ v ∈ sc, l = ⟨s, v, 0, 0⟩)
  distinct : b1.links.toList.Pairwise (fun a c => ¬(a.src = c.src ∧ a.dst = c.dst))
  sz : (s < b0.nodes.size ∧ b1.nodes.size = b0.nodes.size ∧ sc = [s]) ∨
    (s = b0.nodes.size ∧ b1.nodes.size = b0.nodes.size + 1 ∧ b1.node b0.nodes.size = ⟨wS, 0, 0, 0, none, 0⟩)

theorem facts1 (hm : MidOK G frame b0) (hs : EndsShape b0 frame wS wE R lastEf sc ec b1) :
    Facts1 wS b0 R.start sc b1 := by
  rcases hs.start with ⟨hsc, hb1⟩ | ⟨_, hs0, hn1, hl1⟩
  · subst hb1
    have hslt : R.start < b1.nodes.size := (scP hs (by rw [hsc]; simp)).1
    refine ⟨fun _ _ => rfl, ?_, hm.distinct, Or.inl ⟨hslt, rfl, hsc⟩⟩
    intro l
    constructor
    · exact Or.inl
    · rintro (h | ⟨h, _⟩)
      · exact h
      · omega
  · refine ⟨?_, ?_, ?_, Or.inr ⟨hs0, ?_, ?_⟩⟩
    · intro v hv
      rw [node_push b0 b1 _ hn1, if_neg (by omega)]
    · intro l
      rw [hl1, List.mem_append, List.mem_map, hs0]
      constructor
      · rintro (h | ⟨v, hv, rfl⟩)
        · exact Or.inl h
        · exact Or.inr ⟨Nat.le_refl _, v, hv, rfl⟩
      · rintro (h | ⟨_, v, hv, rfl⟩)
        · exact Or.inl h
        · exact Or.inr ⟨v, hv, rfl⟩
    · rw [hl1, List.pairwise_append]
      refine ⟨hm.distinct, pairwise_map_start _ _ hs.scNodup, ?_⟩
      intro a ha c hc
      obtain ⟨v, _, rfl⟩ := List.mem_map.1 hc
      have := (hm.link a ha).1
      intro e
      simp only at e
      omega
    · rw [hn1, Array.size_push]
    · rw [node_push b0 b1 _ hn1, if_pos rfl]

theorem facts (hm : MidOK G frame b0) (hs : EndsShape b0 frame wS wE R lastEf sc ec b1) :
    ∃ sc', Facts frame wS wE b0 R lastEf sc ec sc' := by
  have h1 := facts1 hm hs
  -- the synthetic start is never an end candidate; end candidates are word nodes with the last exit frame
  have hlast : 0 < b0.nodes.size → 1 ≤ lastEf := by
    intro hpos
    rcases hs.lastAtt with ⟨h0, _⟩ | ⟨v, hv, hlef⟩
    · omega
    · obtain ⟨t, _, _, _, h3, _⟩ := hm.node v hv
      omega
  have hecP : ∀ v ∈ ec, v < b0.nodes.size ∧ ((b0.node v).lef : Int) = lastEf := by
    intro v hv
    obtain ⟨hv1, hv2, _⟩ := (hs.ecMem v).1 hv
    rcases h1.sz with ⟨_, hsz, _⟩ | ⟨_, hsz, hnode⟩
    · rw [hsz] at hv1
      exact ⟨hv1, by rw [← h1.old v hv1]; exact hv2⟩
    · by_cases hlt : v < b0.nodes.size
      · exact ⟨hlt, by rw [← h1.old v hlt]; exact hv2⟩
      · have : v = b0.nodes.size := by omega
        subst this
        rw [hnode] at hv2
        simp only at hv2
        rcases hs.lastAtt with ⟨_, h0⟩ | ⟨u, hu, _⟩
        · omega
        · have := hlast (by omega); omega
  have hdst1 : ∀ l ∈ b1.links.toList, l.dst < b0.nodes.size := by
    intro l hl
    rcases (h1.links l).1 hl with h | ⟨_, v, hv, rfl⟩
    · exact (hm.link l h).2.1
    · exact (scP hs hv).1
  have hn1 : b0.nodes.size ≤ b1.nodes.size := by
    rcases h1.sz with ⟨_, hsz, _⟩ | ⟨_, hsz, _⟩ <;> omega
  have hslt1 : R.start < b1.nodes.size := by
    rcases h1.sz with ⟨h, hsz, _⟩ | ⟨h, hsz, _⟩ <;> omega
  have hidx1 : ∀ v, v < b1.nodes.size → v < b0.nodes.size ∨ (v = R.start ∧ b0.nodes.size ≤ R.start) := by
    intro v hv
    rcases h1.sz with ⟨h, hsz, _⟩ | ⟨h, hsz, _⟩
    · left; omega
    · by_cases hlt : v < b0.nodes.size
      · exact Or.inl hlt
      · right; omega
  have hsS1 : b0.nodes.size ≤ R.start → b1.node R.start = ⟨wS, 0, 0, 0, none, 0⟩ := by
    intro h
    rcases h1.sz with ⟨h', _, _⟩ | ⟨h', _, hnode⟩
    · omega
    · rw [h']; exact hnode
  have hsR : R.start < b0.nodes.size → sc = [R.start] := by
    intro h
    rcases h1.sz with ⟨_, _, h'⟩ | ⟨h', _, _⟩
    · exact h'
    · omega
  rcases hs.final with ⟨hec, hB⟩ | ⟨hec, hB, hf, hent⟩ | ⟨hlen, hf, hnB, sc', hlB⟩
  · -- one end candidate
    refine ⟨fun _ => 0, ?_⟩
    have hfin := hecP R.final (by rw [hec]; simp)
    have hBnode : ∀ v, R.b.node v = b1.node v := by intro v; rw [hB]
    have hBsize : R.b.nodes.size = b1.nodes.size := by rw [hB]
    have hBlinks : R.b.links.toList = b1.links.toList := by rw [hB]
    refine ⟨fun v hv => (hBnode v).trans (h1.old v hv), ?_, by rw [hBsize]; exact hn1, by rw [hBsize]; exact hslt1, by rw [hBsize]; omega, hsR,
      fun h => (hBnode _).trans (hsS1 h), fun h => by omega, fun _ => Or.inl (by rw [hec]; simp), ?_,
      by rw [hBlinks]; exact h1.distinct, hecP, ?_⟩
    · intro v hv
      rw [hBsize] at hv
      rcases hidx1 v hv with h | h
      · exact Or.inl h
      · exact Or.inr (Or.inl h)
    · intro l
      rw [hBlinks, h1.links l]
      constructor
      · rintro (h | h)
        · exact Or.inl h
        · exact Or.inr (Or.inl h)
      · rintro (h | h | ⟨h, _⟩)
        · exact Or.inl h
        · exact Or.inr h
        · omega
    · intro v hv hlef hor
      rw [hBlinks] at hor
      apply (hs.ecMem v).2
      exact ⟨by omega, by rw [h1.old v hv]; exact hlef, hor⟩
  · -- no end candidate: a node with an entry
    refine ⟨fun _ => 0, ?_⟩
    obtain ⟨l0, hl0, hd0⟩ := hent
    have hflt : R.final < b0.nodes.size := hd0 ▸ hdst1 l0 hl0
    have hBnode : ∀ v, R.b.node v = b1.node v := by intro v; rw [hB]
    have hBsize : R.b.nodes.size = b1.nodes.size := by rw [hB]
    have hBlinks : R.b.links.toList = b1.links.toList := by rw [hB]
    refine ⟨fun v hv => (hBnode v).trans (h1.old v hv), ?_, by rw [hBsize]; exact hn1, by rw [hBsize]; exact hslt1, by rw [hBsize]; exact hf, hsR,
      fun h => (hBnode _).trans (hsS1 h), fun h => by omega, fun _ => Or.inr ⟨l0, by rw [hBlinks]; exact hl0, hd0⟩, ?_,
      by rw [hBlinks]; exact h1.distinct, hecP, ?_⟩
    · intro v hv
      rw [hBsize] at hv
      rcases hidx1 v hv with h | h
      · exact Or.inl h
      · exact Or.inr (Or.inl h)
    · intro l
      rw [hBlinks, h1.links l]
      constructor
      · rintro (h | h)
        · exact Or.inl h
        · exact Or.inr (Or.inl h)
      · rintro (h | h | ⟨h, _⟩)
        · exact Or.inl h
        · exact Or.inr h
        · omega
    · intro v hv hlef hor
      rw [hBlinks] at hor
      apply (hs.ecMem v).2
      exact ⟨by omega, by rw [h1.old v hv]; exact hlef, hor⟩
  · -- several end candidates: the synthetic `</s>`
    refine ⟨sc', ?_⟩
    have hnodeB : ∀ v, R.b.node v = if v = b1.nodes.size then ⟨wE, frame, frame, frame, none, 0⟩ else b1.node v :=
      node_push b1 R.b _ hnB
    have hszB : R.b.nodes.size = b1.nodes.size + 1 := by rw [hnB, Array.size_push]
    have hlinksB : ∀ l, l ∈ R.b.links.toList ↔ l ∈ b1.links.toList ∨ ∃ v ∈ ec, l = ⟨v, R.final, frame, sc' v⟩ := by
      intro l
      rw [hlB, List.mem_append, List.mem_map, hf]
      constructor
      · rintro (h | ⟨v, hv, rfl⟩)
        · exact Or.inl h
        · exact Or.inr ⟨v, hv, rfl⟩
      · rintro (h | ⟨v, hv, rfl⟩)
        · exact Or.inl h
        · exact Or.inr ⟨v, hv, rfl⟩
    have hecne : ec ≠ [] := by intro h; rw [h] at hlen; simp at hlen
    refine ⟨?_, ?_, by omega, by omega, by omega, hsR, ?_, ?_, fun h => by omega, ?_, ?_, hecP, ?_⟩
    · intro v hv
      rw [hnodeB, if_neg (by omega)]
      exact h1.old v hv
    · intro v hv
      by_cases hlt : v < b1.nodes.size
      · rcases hidx1 v hlt with h | h
        · exact Or.inl h
        · exact Or.inr (Or.inl h)
      · right; right; omega
    · intro h
      rw [hnodeB, if_neg (by omega)]
      exact hsS1 h
    · intro _
      refine ⟨by omega, ?_, hecne⟩
      rw [hnodeB, if_pos hf]
    · intro l
      rw [hlinksB l, h1.links l]
      constructor
      · rintro ((h | h) | h)
        · exact Or.inl h
        · exact Or.inr (Or.inl h)
        · exact Or.inr (Or.inr ⟨by omega, h⟩)
      · rintro (h | h | ⟨_, h⟩)
        · exact Or.inl (Or.inl h)
        · exact Or.inl (Or.inr h)
        · exact Or.inr h
    · rw [hlB, List.pairwise_append]
      refine ⟨h1.distinct, pairwise_map_end _ _ _ _ hs.ecNodup, ?_⟩
      intro a ha c hc
      obtain ⟨v, _, rfl⟩ := List.mem_map.1 hc
      have := hdst1 a ha
      intro e
      simp only at e
      omega
    · intro v hv hlef hor
      apply (hs.ecMem v).2
      refine ⟨by omega, by rw [h1.old v hv]; exact hlef, ?_⟩
      rcases hor with ⟨l, hl, hd⟩ | h
      · rcases (hlinksB l).1 hl with h | ⟨u, _, rfl⟩
        · exact Or.inl ⟨l, h, hd⟩
        · simp only at hd; omega
      · exact Or.inr h

end
/-! ### the fields of `PreOK` from the uniform description -/

section
variable {G : Nfa} {frame wS wE : Nat} {b0 : Build} {R : BuildResult} {lastEf : Int} {sc ec : List Nat} {b1 : Build}
  {sc' : Nat → Int}

theorem realOld (hm : MidOK G frame b0) (F : Facts frame wS wE b0 R lastEf sc ec sc') {v : Nat}
    (hv : v < b0.nodes.size) : (R.b.node v).state.isSome = true := by
  rw [F.old v hv]
  obtain ⟨t, ht, _⟩ := hm.node v hv
  rw [ht]; rfl

theorem synS (F : Facts frame wS wE b0 R lastEf sc ec sc') (h : b0.nodes.size ≤ R.start) :
    (R.b.node R.start).state.isSome = false := by rw [F.sS h]; rfl

theorem synF (F : Facts frame wS wE b0 R lastEf sc ec sc') (h : b0.nodes.size ≤ R.final) :
    (R.b.node R.final).state.isSome = false := by rw [(F.fS h).2.1]; rfl

theorem real_lt (F : Facts frame wS wE b0 R lastEf sc ec sc') {v : Nat} (hv : v < R.b.nodes.size)
    (hr : (R.b.node v).state.isSome = true) : v < b0.nodes.size := by
  rcases F.idx v hv with h | ⟨rfl, h⟩ | ⟨rfl, h⟩
  · exact h
  · rw [synS F h] at hr; cases hr
  · rw [synF F h] at hr; cases hr

theorem syn_cases (hm : MidOK G frame b0) (F : Facts frame wS wE b0 R lastEf sc ec sc') {v : Nat}
    (hv : v < R.b.nodes.size) (hr : (R.b.node v).state.isSome = false) :
    (v = R.start ∧ b0.nodes.size ≤ R.start) ∨ (v = R.final ∧ b0.nodes.size ≤ R.final) := by
  rcases F.idx v hv with h | h | h
  · rw [realOld hm F h] at hr; cases hr
  · exact Or.inl h
  · exact Or.inr h

/-- classification of the links of the result -/
theorem link_cases (hm : MidOK G frame b0) (hs : EndsShape b0 frame wS wE R lastEf sc ec b1)
    (F : Facts frame wS wE b0 R lastEf sc ec sc') {l : BLink} (hl : l ∈ R.b.links.toList) :
    (l ∈ b0.links.toList ∧ l.src < b0.nodes.size ∧ l.dst < b0.nodes.size) ∨
    (b0.nodes.size ≤ R.start ∧ ∃ v ∈ sc, l = ⟨R.start, v, 0, 0⟩ ∧ v < b0.nodes.size ∧ (b0.node v).sf = 0) ∨
    (b0.nodes.size ≤ R.final ∧ ∃ v ∈ ec, l = ⟨v, R.final, frame, sc' v⟩ ∧ v < b0.nodes.size ∧
      ((b0.node v).lef : Int) = lastEf) := by
  rcases (F.links l).1 hl with h | ⟨h, v, hv, rfl⟩ | ⟨h, v, hv, rfl⟩
  · exact Or.inl ⟨h, (hm.link l h).1, (hm.link l h).2.1⟩
  · exact Or.inr (Or.inl ⟨h, v, hv, rfl, (scP hs hv).1, (scP hs hv).2⟩)
  · exact Or.inr (Or.inr ⟨h, v, hv, rfl, (F.ecP v hv).1, (F.ecP v hv).2⟩)

/-- an entry into a word node starting at frame 0 is a link from the synthetic start -/
theorem entry0 (hm : MidOK G frame b0) (hs : EndsShape b0 frame wS wE R lastEf sc ec b1)
    (F : Facts frame wS wE b0 R lastEf sc ec sc') {v : Nat} (hv : v < b0.nodes.size) (hsf : (b0.node v).sf = 0)
    {l : BLink} (hl : l ∈ R.b.links.toList) (hd : l.dst = v) : v ∈ sc := by
  rcases link_cases hm hs F hl with ⟨h, _, _⟩ | ⟨_, u, hu, rfl, _, _⟩ | ⟨h, u, _, rfl, _, _⟩
  · have := (hm.link l h).2.2.2.2.2.1
    rw [hd] at this; omega
  · simp only at hd; rw [← hd]; exact hu
  · simp only at hd; omega

/-- a word node starting at frame 0 that is the end or has an exit is a start candidate -/
theorem cand0 (hm : MidOK G frame b0) (hs : EndsShape b0 frame wS wE R lastEf sc ec b1)
    (F : Facts frame wS wE b0 R lastEf sc ec sc') {v : Nat} (hv : v < b0.nodes.size) (hsf : (b0.node v).sf = 0)
    (h : v = R.final ∨ ∃ l ∈ R.b.links.toList, l.src = v) : v ∈ sc := by
  rcases h with rfl | ⟨l, hl, hsrc⟩
  · rcases F.fR hv with h | ⟨l, hl, hd⟩
    · exact (hs.scMem _).2 ⟨hv, hsf, Or.inr (F.ecP _ h).2⟩
    · exact entry0 hm hs F hv hsf hl hd
  · rcases link_cases hm hs F hl with ⟨h, _, _⟩ | ⟨h, u, _, rfl, _, _⟩ | ⟨_, u, hu, rfl, _, hlef⟩
    · exact (hs.scMem v).2 ⟨hv, hsf, Or.inl ⟨l, h, hsrc⟩⟩
    · simp only at hsrc; omega
    · simp only at hsrc; subst hsrc
      exact (hs.scMem _).2 ⟨hv, hsf, Or.inr hlef⟩

theorem sc_start (F : Facts frame wS wE b0 R lastEf sc ec sc') {v : Nat} (hv : v ∈ sc) :
    (R.start < b0.nodes.size → v = R.start) ∧
    (b0.nodes.size ≤ R.start → (⟨R.start, v, 0, 0⟩ : BLink) ∈ R.b.links.toList) := by
  constructor
  · intro h
    rw [F.sR h] at hv
    simpa using hv
  · intro h
    exact (F.links _).2 (Or.inr (Or.inl ⟨h, v, hv, rfl⟩))

theorem n0_pos (_hm : MidOK G frame b0) (_hs : EndsShape b0 frame wS wE R lastEf sc ec b1)
    (F : Facts frame wS wE b0 R lastEf sc ec sc') : 0 < b0.nodes.size := by
  by_cases hf : R.final < b0.nodes.size
  · omega
  · obtain ⟨_, _, hne⟩ := F.fS (by omega)
    cases hec : ec with
    | nil => exact absurd hec hne
    | cons v _ => have := (F.ecP v (by rw [hec]; simp)).1; omega

theorem lastEf_dom (hm : MidOK G frame b0) (hs : EndsShape b0 frame wS wE R lastEf sc ec b1)
    (F : Facts frame wS wE b0 R lastEf sc ec sc') :
    (∀ v, v < b0.nodes.size → ((b0.node v).lef : Int) ≤ lastEf) ∧
    ∃ u, u < b0.nodes.size ∧ ((b0.node u).lef : Int) = lastEf := by
  refine ⟨hs.lastUb, ?_⟩
  rcases hs.lastAtt with ⟨h0, _⟩ | h
  · have := n0_pos hm hs F; omega
  · exact h

theorem preOK (hm : MidOK G frame b0) (hs : EndsShape b0 frame wS wE R lastEf sc ec b1)
    (F : Facts frame wS wE b0 R lastEf sc ec sc') : PreOK G frame R.b R.start R.final := by
  have hpos := n0_pos hm hs F
  have hframe : 1 < frame := by
    obtain ⟨t, _, _, _, h3, h4, _⟩ := hm.node 0 hpos
    omega
  have hentry_old : ∀ v, v < b0.nodes.size → 0 < (b0.node v).sf → ∃ l ∈ R.b.links.toList, l.dst = v := by
    intro v hv hsf
    obtain ⟨l, hl, hd⟩ := hm.entry v hv hsf
    exact ⟨l, (F.links l).2 (Or.inl hl), hd⟩
  refine
    { sLt := F.sLt, fLt := F.fLt, linkLt := ?linkLt, distinct := F.distinct, noEnterStart := ?noEnter,
      rank := ?rank, entry := ?entry, markers := ?markers, nodeReal := ?nodeReal, nodeSyn := ?nodeSyn,
      linkRR := ?linkRR, linkRS := ?linkRS, linkSR := ?linkSR, realStart := ?realStart, startMark := ?startMark,
      endMark := ?endMark, finalEntry := ?finalEntry, linkGrammar := ?linkGrammar, startGrammar := ?startGrammar }
  case linkLt =>
    intro l hl
    have hs1 := F.sLt
    have hf1 := F.fLt
    have hsz := F.szLe
    rcases link_cases hm hs F hl with ⟨_, h1, h2⟩ | ⟨_, u, _, rfl, hu, _⟩ | ⟨_, u, _, rfl, hu, _⟩
    · exact ⟨by omega, by omega⟩
    · exact ⟨hs1, by show u < _; omega⟩
    · exact ⟨by show u < _; omega, hf1⟩
  case noEnter =>
    intro l hl hd
    rcases link_cases hm hs F hl with ⟨h, _, h2⟩ | ⟨hS, u, _, rfl, hu, _⟩ | ⟨hF, u, _, rfl, _, _⟩
    · have hsf := (hm.link l h).2.2.2.2.2.1
      rw [hd] at h2 hsf
      have := (scP hs (by rw [F.sR h2]; simp : R.start ∈ sc)).2
      omega
    · simp only at hd; omega
    · simp only at hd; exact (F.fS hF).1 hd
  case rank =>
    refine ⟨fun v => if (R.b.node v).state.isSome then (R.b.node v).sf + 1 else if v = R.start then 0 else frame + 2, ?_⟩
    intro l hl
    rcases link_cases hm hs F hl with ⟨h, h1, h2⟩ | ⟨hS, u, _, rfl, hu, _⟩ | ⟨hF, u, _, rfl, hu, _⟩
    · simp only [realOld hm F h1, realOld hm F h2, if_true]
      rw [F.old _ h1, F.old _ h2]
      have := hm.link l h
      omega
    · simp only [synS F hS, realOld hm F hu, if_true, Bool.false_eq_true, if_false]
      omega
    · simp only [synF F hF, realOld hm F hu, if_true, Bool.false_eq_true, if_false, if_neg (F.fS hF).1]
      rw [F.old _ hu]
      obtain ⟨t, _, h1, h2, _, h4, _⟩ := hm.node u hu
      omega
  case entry =>
    intro v hv hvs hex
    rcases F.idx v hv with h | ⟨h, _⟩ | ⟨h, hF⟩
    · by_cases hsf : 0 < (b0.node v).sf
      · exact hentry_old v h hsf
      · have hsf0 : (b0.node v).sf = 0 := by omega
        have hc := cand0 hm hs F h hsf0 hex
        have := sc_start F hc
        by_cases hS : R.start < b0.nodes.size
        · exact absurd (this.1 hS) hvs
        · exact ⟨_, this.2 (by omega), rfl⟩
    · exact absurd h hvs
    · obtain ⟨_, _, hne⟩ := F.fS hF
      cases hec : ec with
      | nil => exact absurd hec hne
      | cons u _ =>
        exact ⟨_, (F.links _).2 (Or.inr (Or.inr ⟨hF, u, by rw [hec]; simp, rfl⟩)), h.symm⟩
  case markers =>
    intro v hv hr
    rcases syn_cases hm F hv hr with ⟨h, _⟩ | ⟨h, _⟩
    · exact Or.inl h
    · exact Or.inr h
  case nodeReal =>
    intro v hv hr
    have hlt := real_lt F hv hr
    rw [F.old v hlt]
    obtain ⟨t, _, h1, h2, _, h4, _⟩ := hm.node v hlt
    exact ⟨h1, h2, h4⟩
  case nodeSyn =>
    intro v hv hr
    rcases syn_cases hm F hv hr with ⟨rfl, h⟩ | ⟨rfl, h⟩
    · rw [F.sS h]
      exact ⟨fun _ => rfl, fun h' => absurd rfl h', rfl, rfl⟩
    · rw [(F.fS h).2.1]
      exact ⟨fun h' => absurd h' (F.fS h).1, fun _ => rfl, rfl, rfl⟩
  case linkRR =>
    intro l hl hr1 hr2
    rcases link_cases hm hs F hl with ⟨h, h1, h2⟩ | ⟨hS, u, _, rfl, _, _⟩ | ⟨hF, u, _, rfl, _, _⟩
    · rw [F.old _ h1, F.old _ h2]
      have := hm.link l h
      exact ⟨this.2.2.1, this.2.2.2.1, this.2.2.2.2.1, this.2.2.2.2.2.1⟩
    · simp only at hr1; rw [synS F hS] at hr1; cases hr1
    · simp only at hr2; rw [synF F hF] at hr2; cases hr2
  case linkRS =>
    intro l hl hr1 hr2
    rcases link_cases hm hs F hl with ⟨h, _, h2⟩ | ⟨hS, u, _, rfl, _, _⟩ | ⟨hF, u, _, rfl, hu, hlef⟩
    · rw [realOld hm F h2] at hr2; cases hr2
    · simp only at hr1; rw [synS F hS] at hr1; cases hr1
    · refine ⟨rfl, rfl, ?_⟩
      intro w hw hwr
      have hwlt := real_lt F hw hwr
      simp only
      rw [F.old _ hwlt, F.old _ hu]
      have := hs.lastUb w hwlt
      omega
  case linkSR =>
    intro l hl hr1
    rcases link_cases hm hs F hl with ⟨h, h1, _⟩ | ⟨hS, u, _, rfl, hu, hsf⟩ | ⟨hF, u, _, rfl, hu, _⟩
    · rw [realOld hm F h1] at hr1; cases hr1
    · refine ⟨rfl, rfl, realOld hm F hu, ?_⟩
      simp only
      rw [F.old _ hu]; exact hsf
    · simp only at hr1; rw [realOld hm F hu] at hr1; cases hr1
  case realStart =>
    intro hr
    have hslt := real_lt F F.sLt hr
    have hsc := F.sR hslt
    have hs0 := (scP hs (by rw [hsc]; simp : R.start ∈ sc)).2
    refine ⟨by rw [F.old _ hslt]; exact hs0, ?_⟩
    intro v hv hvs hex
    rcases F.idx v hv with h | ⟨h, _⟩ | ⟨h, hF⟩
    · rw [F.old v h]
      intro hsf
      have hc := cand0 hm hs F h hsf hex
      exact hvs ((sc_start F hc).1 hslt)
    · exact absurd h hvs
    · rw [h, (F.fS hF).2.1]
      simp only
      omega
  case startMark =>
    intro hr v hv hvr hsf hex
    have hS : b0.nodes.size ≤ R.start := by
      apply Nat.le_of_not_lt
      intro h
      rw [realOld hm F h] at hr; cases hr
    have hlt := real_lt F hv hvr
    rw [F.old v hlt] at hsf
    have hc := cand0 hm hs F hlt hsf hex
    exact ⟨_, (sc_start F hc).2 hS, rfl, rfl⟩
  case endMark =>
    intro hr v hv hvr hdom
    have hF : b0.nodes.size ≤ R.final := by
      apply Nat.le_of_not_lt
      intro h
      rw [realOld hm F h] at hr; cases hr
    have hlt := real_lt F hv hvr
    obtain ⟨hub, u, hu, hlu⟩ := lastEf_dom hm hs F
    have hsz : b0.nodes.size ≤ R.b.nodes.size := by
      have := F.fLt; omega
    have h1 := hdom u (by omega) (realOld hm F hu)
    rw [F.old u hu, F.old v hlt] at h1
    have h2 := hub v hlt
    have hlef : ((b0.node v).lef : Int) = lastEf := by omega
    have hin : v ∈ ec := by
      apply F.ecIn v hlt hlef
      by_cases hsf : 0 < (b0.node v).sf
      · exact Or.inl (hentry_old v hlt hsf)
      · have hc : v ∈ sc := (hs.scMem v).2 ⟨hlt, by omega, Or.inr hlef⟩
        by_cases hS : R.start < b0.nodes.size
        · exact Or.inr ((sc_start F hc).1 hS)
        · exact Or.inl ⟨_, (sc_start F hc).2 (by omega), rfl⟩
    exact ⟨_, (F.links _).2 (Or.inr (Or.inr ⟨hF, v, hin, rfl⟩)), rfl, rfl⟩
  case finalEntry =>
    intro hr
    have hF : b0.nodes.size ≤ R.final := by
      apply Nat.le_of_not_lt
      intro h
      rw [realOld hm F h] at hr; cases hr
    obtain ⟨_, _, hne⟩ := F.fS hF
    cases hec : ec with
    | nil => exact absurd hec hne
    | cons u _ => exact ⟨_, (F.links _).2 (Or.inr (Or.inr ⟨hF, u, by rw [hec]; simp, rfl⟩)), rfl⟩
  case linkGrammar =>
    intro l hl r hst
    rcases link_cases hm hs F hl with ⟨h, h1, h2⟩ | ⟨hS, u, _, rfl, hu, hsf⟩ | ⟨hF, u, _, rfl, _, _⟩
    · rw [F.old _ h1, F.old _ h2] at *
      obtain ⟨q, hq, _⟩ := hm.node l.src h1
      rw [hq]
      exact (hm.link l h).2.2.2.2.2.2 q r hq hst
    · simp only at hst ⊢
      rw [F.sS hS, F.old _ hu] at *
      obtain ⟨t, ht, _, _, _, _, h5⟩ := hm.node u hu
      rw [ht] at hst
      cases hst
      exact h5 hsf
    · simp only at hst
      rw [(F.fS hF).2.1] at hst
      cases hst
  case startGrammar =>
    intro r hst
    have hr : (R.b.node R.start).state.isSome = true := by rw [hst]; rfl
    have hslt := real_lt F F.sLt hr
    have hsc := F.sR hslt
    have hs0 := (scP hs (by rw [hsc]; simp : R.start ∈ sc)).2
    rw [F.old _ hslt] at hst ⊢
    obtain ⟨t, ht, _, _, _, _, h5⟩ := hm.node R.start hslt
    rw [ht] at hst
    cases hst
    exact h5 hs0

end

/-- a real end node is the only end candidate (or there was none) -/
theorem final_real {frame wS wE : Nat} {b0 : Build} {R : BuildResult} {lastEf : Int} {sc ec : List Nat} {b1 : Build}
    (hs : EndsShape b0 frame wS wE R lastEf sc ec b1) (hf : R.final < b0.nodes.size) : ec = [R.final] ∨ ec = [] := by
  have hn1 : b0.nodes.size ≤ b1.nodes.size := by
    rcases hs.start with ⟨_, h⟩ | ⟨_, _, h, _⟩
    · rw [h]; exact Nat.le_refl _
    · rw [h, Array.size_push]; omega
  rcases hs.final with ⟨h, _⟩ | ⟨h, _⟩ | ⟨_, h, _⟩
  · exact Or.inl h
  · exact Or.inr h
  · omega

end BuildEnds

/-- start/end selection (`find_start_node`, `find_end_node`) preserves / establishes the pre-pruning invariant -/
theorem preOK_of_shape (G : Nfa) (frame wS wE : Nat) (b0 : Build) (R : BuildResult)
    (lastEf : Int) (sc ec : List Nat) (b1 : Build)
    (hm : MidOK G frame b0) (hs : EndsShape b0 frame wS wE R lastEf sc ec b1) :
    PreOK G frame R.b R.start R.final := by
  obtain ⟨sc', F⟩ := BuildEnds.facts hm hs
  exact BuildEnds.preOK hm hs F
end SSVerif.Lattice
