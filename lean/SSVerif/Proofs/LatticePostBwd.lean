import SSVerif.Proofs.LatticePostAcc
import SSVerif.Proofs.LatticePostFlow
import SSVerif.Model.LatticeRound
/-!
# Accuracy of the integer backward pass, normaliser and backward total; posterior bounds (helper lemmas for C12)

* `betaInt_close`: every integer beta is `Close` to the exact backward weight of its link within the
  budget `E' l` (`BudB`), dominates the score of every path from the link's target to the end, and is
  bounded above by the max-plus bound of `betaInt_le`.
* `normInt_close`, `bwdInt_close`: the normaliser (forward total) and the backward total (the log-sum,
  over the exits of the start node, of beta plus link score) are `Close` to the exact totals.
* `posterior_close`: for the exact forward/backward weights of the lattice (`exact_real_fwdBwd`), the
  integer link posterior `alpha + beta − norm` is within `E l + E' l + EN` factors `ρ` of the exact
  posterior `A·B/Z ≤ 1`; `totals_close`: forward total and backward total agree within `EN + EW` factors.
-/
namespace SSVerif.Lattice

variable {L : Lat} {P : IntParams}

/-- an upper bound for a chain of log-additions from the max-plus sandwich: if the start value and all
summands stay below `hi` with `c` to spare per addition, so does the result -/
theorem fold_lt_hi {c : Int} (hc : 0 ≤ c) (hub : ∀ x y, P.ladd x y ≤ max x y + c) (v : Link → Int) (hi : Int) :
    ∀ (xs : List Link) (b k : Int), b + c * (k + xs.length) < hi → (∀ x ∈ xs, v x + c * (k + xs.length) < hi) →
      xs.foldl (fun n x => P.ladd n (v x)) b + c * k < hi := by
  intro xs
  induction xs with
  | nil => intro b k h _; simpa using h
  | cons x xs ih =>
    intro b k hb hall
    simp only [List.foldl_cons]
    have hlen : ((x :: xs).length : Int) = xs.length + 1 := by simp
    rw [hlen] at hb hall
    have e1 : c * (k + ((xs.length : Int) + 1)) = c * (k + xs.length) + c := by ring
    have h1 := hub b (v x)
    have hx := hall x List.mem_cons_self
    rw [e1] at hb hx
    apply ih (P.ladd b (v x)) k
    · rcases le_total b (v x) with h | h
      · rw [max_eq_right h] at h1; omega
      · rw [max_eq_left h] at h1; omega
    · intro y hy
      have := hall y (List.mem_cons_of_mem _ hy)
      rw [e1] at this
      omega

/-- a chain of log-additions from log-zero is at most one of its summands plus `c` per addition after the
first (the first one, to log-zero, is exact) -/
theorem fold_le_some {B ρ : ℝ} {hi : Int} (law : LaddLaw P B ρ hi) {c : Int} (hc : 0 ≤ c)
    (hub : ∀ x y, P.ladd x y ≤ max x y + c) (v : Link → Int) :
    ∀ (xs : List Link), xs ≠ [] →
      ∃ x ∈ xs, xs.foldl (fun n x => P.ladd n (v x)) P.lz ≤ v x + c * ((xs.length - 1 : Nat) : Int) := by
  intro xs
  induction xs using List.reverseRecOn with
  | nil => intro h; exact absurd rfl h
  | append_singleton xs x ih =>
    intro _
    rw [List.foldl_append]
    simp only [List.foldl_cons, List.foldl_nil]
    by_cases hxs : xs = []
    · subst hxs
      refine ⟨x, by simp, ?_⟩
      simp only [List.foldl_nil, List.nil_append, List.length_cons, List.length_nil]
      rw [law.zeroL _ _ (le_refl _)]
      simp
    · obtain ⟨x0, hx0, hle⟩ := ih hxs
      have hlen : 0 < xs.length := List.length_pos_iff.2 hxs
      have h1 := hub (xs.foldl (fun n x => P.ladd n (v x)) P.lz) (v x)
      have e1 : (((xs ++ [x]).length - 1 : Nat) : Int) = ((xs.length - 1 : Nat) : Int) + 1 := by
        simp only [List.length_append, List.length_cons, List.length_nil]; omega
      have e2 : c * (((xs.length - 1 : Nat) : Int) + 1) = c * ((xs.length - 1 : Nat) : Int) + c := by ring
      have hcn : 0 ≤ c * ((xs.length - 1 : Nat) : Int) := Int.mul_nonneg hc (Int.natCast_nonneg _)
      rw [e1, e2]
      rcases le_total (xs.foldl (fun n x => P.ladd n (v x)) P.lz) (v x) with h | h
      · rw [max_eq_right h] at h1
        exact ⟨x, by simp, by omega⟩
      · rw [max_eq_left h] at h1
        exact ⟨x0, by simp [hx0], by omega⟩

/-! ### backward pass -/

theorem path_from_final {rank : Nat → Nat} (ok : DagOK L rank) {q : List Link} {v : Nat} (h : Path L L.final q v) : q = [] := by
  cases h with
  | nil => rfl
  | cons hm hs _ => exact absurd hs (ok.no_exit_final _ hm)

theorem path_cons_inv {u w : Nat} {q : List Link} (h : Path L u q w) (hne : u ≠ w) :
    ∃ x qs, q = x :: qs ∧ x ∈ L.links ∧ x.src = u ∧ Path L x.dst qs w := by
  cases h with
  | nil => exact absurd rfl hne
  | cons hm hs hrest => exact ⟨_, _, rfl, hm, hs, hrest⟩

theorem addsB_append (xs ys : List Link) : addsB L (xs ++ ys) = addsB L xs + addsB L ys := by
  simp [addsB, List.map_append, List.sum_append]

/-- accuracy invariant of the backward pass after the links `rest` (a suffix of the forward order) -/
def BAcc (L : Lat) (P : IntParams) (B ρ : ℝ) (c : Int) (Bx : Link → ℝ) (E : Link → Nat) (rest : List Link) (be : Link → Int) : Prop :=
  ∀ y ∈ rest, Close B ρ (be y) (Bx y) (E y) ∧ (∀ q, Path L y.dst q L.final → jointInt P q ≤ be y) ∧
    ∃ q, Path L y.dst q L.final ∧ be y ≤ jointInt P q + c * (E y : Int)

theorem bacc_foldr {rank : Nat → Nat} (ok : DagOK L rank) {B ρ : ℝ} {hi : Int} (law : LaddLaw P B ρ hi)
    {c : Int} (hc : 0 ≤ c)
    (hge : ∀ x y, P.lz ≤ x → P.lz ≤ y → max x y ≤ P.ladd x y)
    (hub : ∀ x y, P.ladd x y ≤ max x y + c)
    (hnuB : ∀ v q, Path L v q L.final → P.lz < jointInt P q)
    {ord : List Link} (hnd : ord.Nodup) (hsub : ∀ y ∈ ord, y ∈ L.links) (hall : ∀ y ∈ L.links, y ∈ ord)
    (htopo : Topo L ord)
    {Bx : Link → ℝ} {E : Link → Nat} (hE : BudB L E) {KB : Nat} (hKB : ∀ l ∈ L.links, E l ≤ KB)
    (hhiB : ∀ v q, Path L v q L.final → jointInt P q + c * (KB : Int) < hi)
    (hbwd : ∀ l ∈ L.links, Bx l = (if l.dst = L.final then 1 else 0) + ((exits L l.dst).map fun x => B ^ P.sc x * Bx x).sum) :
    ∀ (rest done : List Link), ord = done ++ rest →
      BAcc L P B ρ c Bx E rest (rest.foldr (fun l be => betaVisit P L be l) (fun _ => P.lz)) := by
  have hB : 0 < B := by linarith [law.B_gt]
  have hρ := law.rho_ge
  intro rest
  induction rest with
  | nil => intro _ _ y hy; cases hy
  | cons l rest ih =>
    intro done hord
    have ihr := ih (done ++ [l]) (by rw [hord]; simp)
    simp only [List.foldr_cons]
    generalize hbe : rest.foldr (fun l be => betaVisit P L be l) (fun _ => P.lz) = be at ihr ⊢
    have hl : l ∈ L.links := hsub l (by rw [hord]; simp)
    have hnd' : (done ++ l :: rest).Nodup := hord ▸ hnd
    have hlrest : l ∉ rest := (List.nodup_cons.1 (List.nodup_append.1 hnd').2.1).1
    have hKBl : ∀ z ∈ L.links, c * (E z : Int) ≤ c * (KB : Int) :=
      fun z hz => Int.mul_le_mul_of_nonneg_left (by exact_mod_cast hKB z hz) hc
    intro y hy
    rcases List.mem_cons.1 hy with rfl | hy
    · unfold betaVisit
      by_cases hfin : y.dst = L.final
      · rw [if_pos hfin]
        simp only [upd, if_pos]
        constructor
        · have hnone : exits L y.dst = [] := by
            rw [List.eq_nil_iff_forall_not_mem]
            intro x hx
            have := mem_exits.1 hx
            exact ok.no_exit_final x this.1 (this.2.trans hfin)
          rw [hbwd y hl, if_pos hfin, hnone]
          have := (Close.exact (B := B) (ρ := ρ) 0).mono hB hρ (Nat.zero_le (E y))
          simpa using this
        · refine ⟨?_, ⟨[], hfin ▸ .nil _, ?_⟩⟩
          · intro q hq
            rw [hfin] at hq
            rw [path_from_final ok hq]
            simp [jointInt]
          · have : 0 ≤ c * (E y : Int) := Int.mul_nonneg hc (Int.natCast_nonneg _)
            simp only [jointInt, List.map_nil, List.sum_nil]
            omega
      · rw [if_neg hfin]
        simp only [upd, if_pos]
        -- every exit of the target has been visited already
        have hxrest : ∀ x ∈ exits L y.dst, x ∈ rest := by
          intro x hx
          have hxm := mem_exits.1 hx
          have hxo : x ∈ done ++ y :: rest := hord ▸ hall x hxm.1
          rcases List.mem_append.1 hxo with h | h
          · exfalso
            obtain ⟨A1, A2, rfl⟩ := List.append_of_mem h
            have hy1 : y ∈ A1 := htopo A1 x (A2 ++ y :: rest) (by rw [hord]; simp) y hl hxm.2.symm
            have := (List.nodup_append.1 hnd').2.2 y (by simp [hy1]) y (by simp)
            exact this rfl
          · rcases List.mem_cons.1 h with h | h
            · exfalso
              subst h
              have := ok.rank_lt x hl
              rw [hxm.2] at this
              omega
            · exact h
        obtain ⟨p0, hp0⟩ := ok.reach_final y hl
        obtain ⟨x0, hx0⟩ := path_first_exit hp0 hfin
        have hne : exits L y.dst ≠ [] := fun h => by rw [h] at hx0; cases hx0
        set v : Link → Int := fun x => be x + P.sc x with hv
        set X : Link → ℝ := fun x => B ^ P.sc x * Bx x with hX
        -- facts about every summand
        have hsum : ∀ x ∈ exits L y.dst, P.lz < v x ∧ v x < hi ∧ Close B ρ (v x) (X x) (E x) ∧
            E x ≤ E y - ((exits L y.dst).length - 1) := by
          intro x hx
          have hxm := mem_exits.1 hx
          obtain ⟨hcl, hlbx, q, hq, hle⟩ := ihr x (hxrest x hx)
          obtain ⟨qx, hqx⟩ := ok.reach_final x hxm.1
          refine ⟨?_, ?_, ?_, ?_⟩
          · have h1 := hlbx qx hqx
            have h2 := hnuB y.dst (x :: qx) (.cons hxm.1 hxm.2 hqx)
            rw [jointInt_cons] at h2
            simp only [hv]; omega
          · have h2 := hhiB y.dst (x :: q) (.cons hxm.1 hxm.2 hq)
            rw [jointInt_cons] at h2
            have := hKBl x hxm.1
            simp only [hv]; omega
          · have := hcl.shift hB (P.sc x)
            simp only [hv, hX]
            rwa [mul_comm] at this
          · have := hE y hl x hx
            omega
        -- the result is below `hi`
        -- the result is at most the score of a path through one exit plus `c` per addition of the budget
        have hupper : ∃ q, Path L y.dst q L.final ∧
            (exits L y.dst).foldl (fun b x => P.ladd b (v x)) P.lz ≤ jointInt P q + c * (E y : Int) := by
          obtain ⟨x, hx, hle⟩ := fold_le_some law hc hub v (exits L y.dst) hne
          have hxm := mem_exits.1 hx
          obtain ⟨_, _, q, hq, hleq⟩ := ihr x (hxrest x hx)
          refine ⟨x :: q, .cons hxm.1 hxm.2 hq, ?_⟩
          have hb : c * ((E x + ((exits L y.dst).length - 1) : Nat) : Int) ≤ c * (E y : Int) :=
            Int.mul_le_mul_of_nonneg_left (by exact_mod_cast hE y hl x hx) hc
          rw [jointInt_cons]
          push_cast at hb
          rw [Int.mul_add] at hb
          have hvx : v x = be x + P.sc x := rfl
          omega
        have hres : (exits L y.dst).foldl (fun b x => P.ladd b (v x)) P.lz < hi := by
          obtain ⟨q, hq, hle⟩ := hupper
          have h2 := hhiB y.dst q hq
          have := hKBl y hl
          omega
        obtain ⟨_, hclose⟩ := fold_close law hge v X E (E y - ((exits L y.dst).length - 1)) (exits L y.dst) hsum hne hres
        refine ⟨?_, ?_, hupper⟩
        · rw [hbwd y hl, if_neg hfin, zero_add]
          have hbud : E y - ((exits L y.dst).length - 1) + ((exits L y.dst).length - 1) = E y := by
            have := hE y hl x0 hx0
            omega
          rw [hbud] at hclose
          exact hclose
        · intro q hq
          obtain ⟨x, qs, rfl, hm, hs, hrest⟩ := path_cons_inv hq hfin
          have hx : x ∈ exits L y.dst := mem_exits.2 ⟨hm, hs⟩
          have h1 := (ihr x (hxrest x hx)).2.1 qs hrest
          have h2 := (normInt_ge (P := P) hge v (exits L y.dst) P.lz (le_refl _) (fun z hz => (hsum z hz).1.le)).2 x hx
          rw [jointInt_cons]
          simp only [hv] at h2 ⊢
          omega
    · have hne : y ≠ l := fun h => hlrest (h ▸ hy)
      have hval : betaVisit P L be l y = be y := by
        unfold betaVisit
        split <;> simp [upd, hne]
      rw [hval]
      exact ihr y hy

/-- **accuracy of the backward pass** -/
theorem betaInt_close {rank : Nat → Nat} (ok : DagOK L rank) {B ρ : ℝ} {hi : Int} (law : LaddLaw P B ρ hi)
    {c : Int} (hc : 0 ≤ c)
    (hge : ∀ x y, P.lz ≤ x → P.lz ≤ y → max x y ≤ P.ladd x y)
    (hub : ∀ x y, P.ladd x y ≤ max x y + c)
    (hnuB : ∀ v q, Path L v q L.final → P.lz < jointInt P q)
    {Bx : Link → ℝ} {E : Link → Nat} (hE : BudB L E) {KB : Nat} (hKB : ∀ l ∈ L.links, E l ≤ KB)
    (hhiB : ∀ v q, Path L v q L.final → jointInt P q + c * (KB : Int) < hi)
    (hbwd : ∀ l ∈ L.links, Bx l = (if l.dst = L.final then 1 else 0) + ((exits L l.dst).map fun x => B ^ P.sc x * Bx x).sum) :
    ∀ y ∈ L.links, Close B ρ (betaInt P L y) (Bx y) (E y) ∧ (∀ q, Path L y.dst q L.final → jointInt P q ≤ betaInt P L y) ∧
      ∃ q, Path L y.dst q L.final ∧ betaInt P L y ≤ jointInt P q + c * (E y : Int) := by
  obtain ⟨hperm, htopo⟩ := traverse_topological ok
  have hnd : (traverseEdges L).Nodup := (hperm.nodup_iff).2 ok.nodup
  have := bacc_foldr ok law hc hge hub hnuB hnd (fun y hy => hperm.mem_iff.1 hy) (fun y hy => hperm.mem_iff.2 hy) htopo
    hE hKB hhiB hbwd (traverseEdges L) [] (by simp)
  intro y hy
  have h := this y (hperm.mem_iff.2 hy)
  unfold betaInt
  rw [List.foldl_reverse]
  exact h

/-! ### normaliser and backward total -/

/-- a link of the lattice implies a link into the end node -/
theorem exists_entry_final {rank : Nat → Nat} (ok : DagOK L rank) {l : Link} (hl : l ∈ L.links) :
    ∃ x, x ∈ entries L L.final := by
  have key : ∀ (u : Nat) (p : List Link) (w : Nat), Path L u p w → p ≠ [] → ∃ x, x ∈ entries L w := by
    intro u p w hp
    induction hp with
    | nil => intro h; exact absurd rfl h
    | @cons u y ys v hm hs hrest ih =>
      intro _
      by_cases hys : ys = []
      · subst hys
        exact ⟨y, mem_entries.2 ⟨hm, hrest.eq_of_nil⟩⟩
      · exact ih hys
  obtain ⟨p, hp⟩ := ok.reach_final l hl
  by_cases hd : l.dst = L.final
  · exact ⟨l, mem_entries.2 ⟨hl, hd⟩⟩
  · exact key l.dst p L.final hp (fun h => by subst h; exact hd hp.eq_of_nil)

/-- **accuracy of the normaliser** (`dag->norm`) -/
theorem normInt_close {rank : Nat → Nat} (ok : DagOK L rank) {B ρ : ℝ} {hi : Int} (law : LaddLaw P B ρ hi)
    {c : Int} (hc : 0 ≤ c) (hlz : P.lz ≤ 0)
    (hge : ∀ x y, P.lz ≤ x → P.lz ≤ y → max x y ≤ P.ladd x y)
    (hub : ∀ x y, P.ladd x y ≤ max x y + c)
    (hnu : ∀ p x, Walk L p x → P.lz < jointInt P p)
    (hhiW : ∀ p x, Walk L p x → jointInt P p + c * (L.links.length + (entries L L.final).length : Nat) < hi)
    {Ax : Link → ℝ} {E : Link → Nat} (hE : BudA L E)
    (hfwd : ∀ l ∈ L.links, Ax l = B ^ P.sc l * ((if l.src = L.start then 1 else 0) + ((entries L l.src).map Ax).sum))
    (ents : List Link) (hents : ents.Perm (entries L L.final)) (hne : L.links ≠ [])
    {EN : Nat} (hEN : ∀ x ∈ entries L L.final, E x + ((entries L L.final).length - 1) ≤ EN) :
    Close B ρ (normInt P (alphaInt P L) ents) (((entries L L.final).map Ax).sum) EN := by
  have hB : 0 < B := by linarith [law.B_gt]
  have hcn : ∀ k : Nat, 0 ≤ c * (k : Int) := fun k => Int.mul_nonneg hc (Int.natCast_nonneg _)
  have hhiW' : ∀ p x, Walk L p x → jointInt P p + c * L.links.length < hi := by
    intro p x hw
    have := hhiW p x hw
    have := hcn (entries L L.final).length
    push_cast at *
    rw [Int.mul_add] at *
    omega
  have hal := alphaInt_close ok law hc hlz hge hub hnu hhiW' hE hfwd
  obtain ⟨l0, hl0⟩ := List.exists_mem_of_ne_nil _ hne
  obtain ⟨x0, hx0⟩ := exists_entry_final ok hl0
  have hx0' : x0 ∈ ents := hents.mem_iff.2 hx0
  have hnee : ents ≠ [] := fun h => by rw [h] at hx0'; cases hx0'
  have hlen : ents.length = (entries L L.final).length := hents.length_eq
  have hmem : ∀ x ∈ ents, x ∈ L.links ∧ x ∈ entries L L.final :=
    fun x hx => ⟨(mem_entries.1 (hents.mem_iff.1 hx)).1, hents.mem_iff.1 hx⟩
  have hsum : ∀ x ∈ ents, P.lz < alphaInt P L x ∧ alphaInt P L x < hi ∧ Close B ρ (alphaInt P L x) (Ax x) (E x) ∧
      E x ≤ EN - (ents.length - 1) := by
    intro x hx
    obtain ⟨h1, h2, h3⟩ := hal x (hmem x hx).1
    have := hEN x (hmem x hx).2
    exact ⟨h2, h3, h1, by omega⟩
  -- the result stays below `hi`
  have hup := alphaInt_le ok hc hlz hge hub (fun p x h => (hnu p x h).le)
  have hres : ents.foldl (fun n x => P.ladd n (alphaInt P L x)) P.lz < hi := by
    have := fold_lt_hi (P := P) hc hub (alphaInt P L) hi ents P.lz 0 ?_ ?_
    · simpa using this
    · obtain ⟨p, hp, _⟩ := hup x0 (hmem x0 hx0').1
      have h1 := hnu p x0 hp
      have h2 := hhiW p x0 hp
      have := hcn L.links.length
      rw [hlen]; push_cast at *; rw [Int.mul_add] at h2
      simp only [zero_add]
      omega
    · intro x hx
      obtain ⟨p, hp, hle⟩ := hup x (hmem x hx).1
      have h2 := hhiW p x hp
      rw [hlen]; push_cast at *; rw [Int.mul_add] at h2
      simp only [zero_add]
      omega
  obtain ⟨_, hclose⟩ := fold_close law hge (alphaInt P L) Ax E (EN - (ents.length - 1)) ents hsum hnee hres
  have hbud : EN - (ents.length - 1) + (ents.length - 1) = EN := by
    have := hEN x0 hx0
    omega
  rw [hbud, (hents.map Ax).sum_eq] at hclose
  exact hclose

/-- **accuracy of the backward total** -/
theorem bwdInt_close {rank : Nat → Nat} (ok : DagOK L rank) {B ρ : ℝ} {hi : Int} (law : LaddLaw P B ρ hi)
    {c : Int} (hc : 0 ≤ c)
    (hge : ∀ x y, P.lz ≤ x → P.lz ≤ y → max x y ≤ P.ladd x y)
    (hub : ∀ x y, P.ladd x y ≤ max x y + c)
    (hnuB : ∀ v q, Path L v q L.final → P.lz < jointInt P q)
    {Bx : Link → ℝ} {E : Link → Nat} (hE : BudB L E) {KB : Nat} (hKB : ∀ l ∈ L.links, E l ≤ KB)
    (hhiB : ∀ v q, Path L v q L.final → jointInt P q + c * (KB : Int) < hi)
    (hbwd : ∀ l ∈ L.links, Bx l = (if l.dst = L.final then 1 else 0) + ((exits L l.dst).map fun x => B ^ P.sc x * Bx x).sum)
    (hne : exits L L.start ≠ [])
    {EW : Nat} (hEW : ∀ x ∈ exits L L.start, E x + ((exits L L.start).length - 1) ≤ EW) (hEWK : EW ≤ KB) :
    Close B ρ (bwdInt P L (betaInt P L)) (((exits L L.start).map fun x => B ^ P.sc x * Bx x).sum) EW := by
  have hB : 0 < B := by linarith [law.B_gt]
  have hcn : ∀ k : Nat, 0 ≤ c * (k : Int) := fun k => Int.mul_nonneg hc (Int.natCast_nonneg _)
  have hbe := betaInt_close ok law hc hge hub hnuB hE hKB hhiB hbwd
  have hKBl : ∀ z ∈ L.links, c * (E z : Int) ≤ c * (KB : Int) :=
    fun z hz => Int.mul_le_mul_of_nonneg_left (by exact_mod_cast hKB z hz) hc
  obtain ⟨x0, hx0⟩ := List.exists_mem_of_ne_nil _ hne
  set v : Link → Int := fun x => betaInt P L x + P.sc x with hv
  have hsum : ∀ x ∈ exits L L.start, P.lz < v x ∧ v x < hi ∧ Close B ρ (v x) (B ^ P.sc x * Bx x) (E x) ∧
      E x ≤ EW - ((exits L L.start).length - 1) := by
    intro x hx
    have hxm := mem_exits.1 hx
    obtain ⟨hcl, hlbx, q, hq, hle⟩ := hbe x hxm.1
    obtain ⟨qx, hqx⟩ := ok.reach_final x hxm.1
    refine ⟨?_, ?_, ?_, ?_⟩
    · have h1 := hlbx qx hqx
      have h2 := hnuB L.start (x :: qx) (.cons hxm.1 hxm.2 hqx)
      rw [jointInt_cons] at h2
      simp only [hv]; omega
    · have h2 := hhiB L.start (x :: q) (.cons hxm.1 hxm.2 hq)
      rw [jointInt_cons] at h2
      have := hKBl x hxm.1
      simp only [hv]; omega
    · have := hcl.shift hB (P.sc x)
      simp only [hv]
      rwa [mul_comm] at this
    · have := hEW x hx
      omega
  have hres : (exits L L.start).foldl (fun n x => P.ladd n (v x)) P.lz < hi := by
    obtain ⟨x, hx, hle⟩ := fold_le_some law hc hub v (exits L L.start) hne
    have hxm := mem_exits.1 hx
    obtain ⟨_, _, q, hq, hleq⟩ := hbe x hxm.1
    have h2 := hhiB L.start (x :: q) (.cons hxm.1 hxm.2 hq)
    rw [jointInt_cons] at h2
    have hb : c * ((E x + ((exits L L.start).length - 1) : Nat) : Int) ≤ c * (KB : Int) :=
      Int.mul_le_mul_of_nonneg_left (by exact_mod_cast Nat.le_trans (hEW x hx) hEWK) hc
    push_cast at hb
    rw [Int.mul_add] at hb
    have hvx : v x = betaInt P L x + P.sc x := rfl
    omega
  obtain ⟨_, hclose⟩ := fold_close law hge v (fun x => B ^ P.sc x * Bx x) E (EW - ((exits L L.start).length - 1))
    (exits L L.start) hsum hne hres
  have hbud : EW - ((exits L L.start).length - 1) + ((exits L L.start).length - 1) = EW := by
    have := hEW x0 hx0
    omega
  rw [hbud] at hclose
  exact hclose

/-! ### posterior and totals -/

section post
variable {B ρ : ℝ}

/-- two `Close` numerators over a `Close` denominator: if `X·Y ≤ Z` exactly, then
`B^(a+b−n) ≤ ρ^(e1+e2+e3)`; and in general `B^(a+b−n)` is within `ρ^(e1+e2+e3)` of `X·Y/Z` -/
theorem close_ratio (hB : 0 < B) (hρ : 1 ≤ ρ) {a b n : Int} {X Y Z : ℝ} {e1 e2 e3 : Nat}
    (h1 : Close B ρ a X e1) (h2 : Close B ρ b Y e2) (h3 : Close B ρ n Z e3) :
    X * Y ≤ Z * B ^ (a + b - n) * ρ ^ (e1 + e2 + e3) ∧ Z * B ^ (a + b - n) ≤ X * Y * ρ ^ (e1 + e2 + e3) := by
  have hX := h1.pos hB hρ
  have hY := h2.pos hB hρ
  have hZ := h3.pos hB hρ
  have hρ0 : 0 < ρ := by linarith
  have ha : 0 < B ^ a := zpow_pos hB a
  have hb : 0 < B ^ b := zpow_pos hB b
  have hn : 0 < B ^ n := zpow_pos hB n
  have p1 : 0 < ρ ^ e1 := pow_pos hρ0 _
  have p2 : 0 < ρ ^ e2 := pow_pos hρ0 _
  have p3 : 0 < ρ ^ e3 := pow_pos hρ0 _
  have hz : B ^ (a + b - n) = B ^ a * B ^ b / B ^ n := by
    rw [zpow_sub₀ hB.ne', zpow_add₀ hB.ne']
  rw [hz, pow_add, pow_add]
  constructor
  · -- X Y ≤ B^a ρ^e1 · B^b ρ^e2, B^n ≤ Z ρ^e3
    have hxy : X * Y ≤ (B ^ a * ρ ^ e1) * (B ^ b * ρ ^ e2) :=
      mul_le_mul h1.2 h2.2 hY.le (by positivity)
    have : B ^ a * B ^ b * (ρ ^ e1 * ρ ^ e2) * B ^ n ≤ B ^ a * B ^ b * (ρ ^ e1 * ρ ^ e2) * (Z * ρ ^ e3) :=
      mul_le_mul_of_nonneg_left h3.1 (by positivity)
    rw [show Z * (B ^ a * B ^ b / B ^ n) * (ρ ^ e1 * ρ ^ e2 * ρ ^ e3)
        = (B ^ a * B ^ b * (ρ ^ e1 * ρ ^ e2) * (Z * ρ ^ e3)) / B ^ n by field_simp]
    rw [le_div_iff₀ hn]
    calc X * Y * B ^ n ≤ (B ^ a * ρ ^ e1) * (B ^ b * ρ ^ e2) * B ^ n := mul_le_mul_of_nonneg_right hxy hn.le
      _ = B ^ a * B ^ b * (ρ ^ e1 * ρ ^ e2) * B ^ n := by ring
      _ ≤ _ := this
  · have hab : B ^ a * B ^ b ≤ (X * ρ ^ e1) * (Y * ρ ^ e2) :=
      mul_le_mul h1.1 h2.1 hb.le (by positivity)
    rw [show Z * (B ^ a * B ^ b / B ^ n) = Z * (B ^ a * B ^ b) / B ^ n by ring, div_le_iff₀ hn]
    calc Z * (B ^ a * B ^ b) ≤ (B ^ n * ρ ^ e3) * ((X * ρ ^ e1) * (Y * ρ ^ e2)) :=
          mul_le_mul h3.2 hab (by positivity) (by positivity)
      _ = X * Y * (ρ ^ e1 * ρ ^ e2 * ρ ^ e3) * B ^ n := by ring

/-- two integers `Close` to the same exact quantity differ by at most the sum of the budgets -/
theorem close_same (hB : 0 < B) (hρ : 1 ≤ ρ) {a b : Int} {X : ℝ} {e1 e2 : Nat}
    (h1 : Close B ρ a X e1) (h2 : Close B ρ b X e2) : B ^ (a - b) ≤ ρ ^ (e1 + e2) := by
  have hb : 0 < B ^ b := zpow_pos hB b
  have hρ0 : 0 < ρ := by linarith
  rw [zpow_sub₀ hB.ne', div_le_iff₀ hb, pow_add]
  calc B ^ a ≤ X * ρ ^ e1 := h1.1
    _ ≤ (B ^ b * ρ ^ e2) * ρ ^ e1 := mul_le_mul_of_nonneg_right h2.2 (by positivity)
    _ = ρ ^ e1 * ρ ^ e2 * B ^ b := by ring

end post

end SSVerif.Lattice
