import SSVerif.Proofs.LexFlatNodes
/-!
# The converse inclusion: the lextree the code builds has no root-to-leaf path beyond those of the flat network

Exact (two-sided) facts about the construction: an old pnode never gets a new parent (`ParSub`), an old pnode's context
set is never touched by a later loop (`CtxSame`), the parents of a pnode are one pnode or the roots of one shared set
(`ParInv`), the pnodes of the root chain are nobody's children.
-/
namespace SSVerif.LexFlat
open SSVerif.Search SSVerif.Hist

/-- no old pnode gets a new parent -/
def ParSub (a a' : Array PNode) : Prop := ∀ p x, x < a.size → Child a' p x → Child a p x

theorem ParSub.refl (a : Array PNode) : ParSub a a := fun _ _ _ h => h

theorem ParSub.trans {a b c : Array PNode} (h1 : ParSub a b) (h2 : ParSub b c) (hs : a.size ≤ b.size) : ParSub a c :=
  fun p x hx hc => h1 p x hx (h2 p x (Nat.lt_of_lt_of_le hx hs) hc)

theorem parSub_push {g : Fsg} {a : Array PNode} (inv : GInv g a) {n : PNode} (hn : n.succ = none) : ParSub a (a.push n) := by
  intro p x _ hc
  unfold Child at hc ⊢
  by_cases hp : p < a.size
  · rw [ndOf_push_lt a n hp] at hc
    exact reach_push_rev inv n hc (fun y hy => inv.succClosed hp hy)
  · by_cases hp2 : p = a.size
    · subst hp2
      rw [ndOf_push_eq, hn] at hc; cases hc
    · rw [ndOf_ge _ (by rw [Array.size_push]; omega)] at hc; cases hc

theorem parSub_addCtxt (a : Array PNode) (q c : Nat) : ParSub a (addCtxt a q c) := by
  intro p x _ hc
  unfold Child at hc ⊢
  rw [succ_addCtxt'] at hc
  exact reach_congr (a := addCtxt a q c) (a' := a) (fun q' => (sibling_addCtxt' a q c q').symm) hc

/-- the context sets of old pnodes are untouched -/
def CtxSame (a a' : Array PNode) : Prop := ∀ x, x < a.size → (ndOf a' x).ctxt = (ndOf a x).ctxt

theorem CtxSame.refl (a : Array PNode) : CtxSame a a := fun _ _ => rfl

theorem CtxSame.trans {a b c : Array PNode} (h1 : CtxSame a b) (h2 : CtxSame b c) (hs : a.size ≤ b.size) : CtxSame a c :=
  fun x hx => by rw [h2 x (Nat.lt_of_lt_of_le hx hs), h1 x hx]

theorem ctxSame_push (a : Array PNode) (n : PNode) : CtxSame a (a.push n) := fun x hx => by rw [ndOf_push_lt a n hx]

theorem ctxt_addCtxt_ne (a : Array PNode) {q x : Nat} (c : Nat) (h : q ≠ x) : (ndOf (addCtxt a q c) x).ctxt = (ndOf a x).ctxt := by
  by_cases hx : x < a.size
  · unfold addCtxt
    rw [ndOf_modify a q _ hx]
    simp [h]
  · rw [ndOf_ge _ (by rw [size_addCtxt]; omega), ndOf_ge _ (by omega)]

theorem ctxt_addCtxt_eq (a : Array PNode) {q : Nat} (hq : q < a.size) (c c' : Nat) :
    (ndOf (addCtxt a q c) q).ctxt.testBit c' = ((ndOf a q).ctxt.testBit c' || decide (c = c')) := by
  unfold addCtxt
  rw [ndOf_modify a q _ hq]
  simp only [if_true, Nat.testBit_or, testBit_bit]

theorem ctxSame_amod_ctxt (a : Array PNode) (p : Nat) (f : PNode → PNode) (hf : ∀ n, (f n).ctxt = n.ctxt) : CtxSame a (amod a p f) := by
  intro x hx
  rw [ndOf_modify a p f hx]
  split
  · exact hf _
  · rfl

theorem ctxSame_setSucc (a : Array PNode) (p : Nat) (q : Option Nat) : CtxSame a (setSucc a p q) := by
  unfold setSucc; exact ctxSame_amod_ctxt a p _ (fun _ => rfl)

theorem ctxSame_setSibling (a : Array PNode) (p : Nat) (q : Option Nat) : CtxSame a (setSibling a p q) := by
  unfold setSibling; exact ctxSame_amod_ctxt a p _ (fun _ => rfl)

/-! ### exact effect of the pointer updates on the child relation -/

theorem child_setSucc {a : Array PNode} {t : Nat} {q : Option Nat} {p x : Nat} (h : Child (setSucc a t q) p x) :
    (p = t ∧ Reach a q x) ∨ (p ≠ t ∧ Child a p x) := by
  unfold Child at h
  have h' := reach_congr (a := setSucc a t q) (a' := a) (fun q' => (sibling_setSucc' a t q q').symm) h
  by_cases hpt : t = p
  · subst hpt
    by_cases ht : t < a.size
    · rw [succ_setSucc a ht] at h'
      exact Or.inl ⟨rfl, h'⟩
    · rw [ndOf_ge _ (by rw [size_setSucc]; omega)] at h'; cases h'
  · rw [succ_setSucc_ne a q hpt] at h'
    exact Or.inr ⟨Ne.symm hpt, h'⟩

/-- after a link `t → h`, what is reached is reached as before, or through `t` and then from `h` -/
theorem reach_setSibling_via {a : Array PNode} {t : Nat} {h : Option Nat} : ∀ {o : Option Nat} {x : Nat},
    Reach (setSibling a t h) o x → Reach a o x ∨ (Reach a o t ∧ Reach a h x) := by
  intro o x hr
  induction hr with
  | here => exact Or.inl Reach.here
  | @next p x hpx ih =>
    by_cases hpt : p = t
    · subst hpt
      by_cases hp : p < a.size
      · rw [sibling_setSibling a hp] at ih
        rcases ih with h1 | ⟨_, h1⟩ <;> exact Or.inr ⟨Reach.here, h1⟩
      · rw [ndOf_ge _ (by unfold setSibling; rw [size_amod]; omega)] at hpx; cases hpx
    · have : (ndOf (setSibling a t h) p).sibling = (ndOf a p).sibling := by
        by_cases hp : p < a.size
        · unfold setSibling
          rw [ndOf_modify a t _ hp]
          simp [Ne.symm hpt]
        · unfold setSibling
          rw [ndOf_ge _ (by rw [size_amod]; omega), ndOf_ge _ (by omega)]
      rw [this] at ih
      rcases ih with h1 | ⟨h1, h2⟩
      · exact Or.inl (Reach.next h1)
      · exact Or.inr ⟨Reach.next h1, h2⟩

theorem child_setSibling {a : Array PNode} {t : Nat} {h : Option Nat} {p x : Nat} (hc : Child (setSibling a t h) p x) :
    Child a p x ∨ (Child a p t ∧ Reach a h x) := by
  unfold Child at hc ⊢
  rw [succ_setSibling'] at hc
  exact reach_setSibling_via hc

/-! ### hooking a leaf group: exact effect -/

/-- a chain that starts among the old pnodes `< g0`, whose siblings are old, stays among them -/
theorem reach_old {a : Array PNode} {g0 : Nat} (hold : ∀ x, x < g0 → ∀ y, (ndOf a x).sibling = some y → y < g0) :
    ∀ {o : Option Nat} {x : Nat}, Reach a o x → (∀ y, o = some y → y < g0) → x < g0 := by
  intro o x h
  induction h with
  | here => intro ho; exact ho _ rfl
  | @next p x _ ih => intro ho; exact ih (fun y hy => hold p (ho p rfl) y hy)

/-- pointers of the result of `attachRoots` when none of the pnodes has a child yet -/
theorem attachRoots_none_ptr (head : Option Nat) : ∀ (l : List Nat) (a : Array PNode), l.Nodup → (∀ r ∈ l, r < a.size) →
    (∀ r ∈ l, (ndOf a r).succ = none) →
    ∀ q, (ndOf (attachRoots a head l) q).sibling = (ndOf a q).sibling ∧ (ndOf (attachRoots a head l) q).ctxt = (ndOf a q).ctxt ∧
      (ndOf (attachRoots a head l) q).succ = (if q ∈ l then head else (ndOf a q).succ) := by
  intro l
  induction l with
  | nil => intro a _ _ _ q; simp [attachRoots]
  | cons r rest ih =>
    intro a hnd hl hnone q
    obtain ⟨hr_notin, hnd'⟩ := List.nodup_cons.1 hnd
    have hrl := hl r (List.mem_cons_self ..)
    have hrn := hnone r (List.mem_cons_self ..)
    simp only [attachRoots, hrn]
    obtain ⟨i1, i2, i3⟩ := ih (setSucc a r head) hnd' (fun x hx => by rw [size_setSucc]; exact hl x (List.mem_cons_of_mem _ hx))
      (fun x hx => by
        have hne : r ≠ x := fun h0 => hr_notin (by rw [h0]; exact hx)
        rw [succ_setSucc_ne a _ hne]; exact hnone x (List.mem_cons_of_mem _ hx)) q
    refine ⟨by rw [i1, sibling_setSucc'], ?_, ?_⟩
    · rw [i2]
      by_cases hq : q < a.size
      · exact ctxSame_setSucc a r head q hq
      · rw [ndOf_ge _ (by rw [size_setSucc]; omega), ndOf_ge _ (by omega)]
    · rw [i3]
      by_cases hqr : q = r
      · subst hqr
        simp only [hr_notin, if_false, List.mem_cons, true_or, if_true]
        exact succ_setSucc a hrl head
      · have : (q ∈ r :: rest) ↔ q ∈ rest := by simp [hqr]
        by_cases hqm : q ∈ rest
        · simp [hqm]
        · simp only [hqm, if_false, this]
          exact succ_setSucc_ne a head (Ne.symm hqr)

theorem reach_of_sibling_eq {a a' : Array PNode} (hs : ∀ q, (ndOf a' q).sibling = (ndOf a q).sibling) {o : Option Nat} {x : Nat} :
    Reach a' o x ↔ Reach a o x :=
  ⟨fun h => reach_congr (a := a') (a' := a) (fun q => (hs q).symm) h, fun h => reach_congr hs h⟩

/-- the exact counterpart of `Attached`: the group `head` (new pnodes `≥ g0`) hooked under the pnodes `l` that share the child
pointer `sv`; `t` = the end of their old child chain -/
structure AttachedX (a a' : Array PNode) (l : List Nat) (head : Option Nat) (g0 : Nat) (sv : Option Nat) : Prop where
  parSub : ∀ p x, x < g0 → Child a' p x → Child a p x
  ctx : CtxSame a a'
  newPar : ∀ p x, g0 ≤ x → Child a' p x → p ∈ l ∨ ∃ c, sv = some c ∧ Child a p (lastOf a a.size c)
  reachRev : ∀ o x, Reach a' o x → Reach a o x ∨ ∃ c, sv = some c ∧ Reach a o (lastOf a a.size c)
  sib : ∀ x, (ndOf a' x).sibling = (ndOf a x).sibling ∨ ∃ p, Child a p x

theorem attachRoots_exact {g : Fsg} {head : Option Nat} {g0 : Nat} (l : List Nat) (a : Array PNode) (inv : GInv g a) (hnd : l.Nodup)
    (hl : ∀ x ∈ l, x < a.size) (sv : Option Nat) (hsv : ∀ r ∈ l, (ndOf a r).succ = sv)
    (hnew : ∀ x, g0 ≤ x → x < a.size → ∀ y, (ndOf a x).sibling = some y → g0 ≤ y) (hhd : ∀ y, head = some y → g0 ≤ y ∧ y < a.size)
    (hchildOld : ∀ p x, Child a p x → x < g0) (hne : sv ≠ none → l ≠ []) :
    AttachedX a (attachRoots a head l) l head g0 sv := by
  have hheadnew : ∀ x, Reach a head x → g0 ≤ x := fun x hx => reach_new hnew (fun x hx y hy => inv.sibClosed hx hy) hx hhd
  cases sv with
  | none =>
    have hptr := attachRoots_none_ptr head l a hnd hl hsv
    have hreach : ∀ {o : Option Nat} {x : Nat}, Reach (attachRoots a head l) o x ↔ Reach a o x :=
      reach_of_sibling_eq (fun q => (hptr q).1)
    have hchild : ∀ p x, Child (attachRoots a head l) p x → (p ∈ l ∧ Reach a head x) ∨ (p ∉ l ∧ Child a p x) := by
      intro p x hc
      unfold Child at hc
      rw [(hptr p).2.2] at hc
      by_cases hp : p ∈ l
      · simp only [hp, if_true] at hc; exact Or.inl ⟨hp, hreach.1 hc⟩
      · simp only [hp, if_false] at hc; exact Or.inr ⟨hp, hreach.1 hc⟩
    refine ⟨?_, fun x _ => (hptr x).2.1, ?_, fun o x h => Or.inl (hreach.1 h), fun x => Or.inl (hptr x).1⟩
    · intro p x hx hc
      rcases hchild p x hc with ⟨_, h1⟩ | ⟨_, h1⟩
      · have := hheadnew x h1; omega
      · exact h1
    · intro p x hx hc
      rcases hchild p x hc with ⟨h1, _⟩ | ⟨_, h1⟩
      · exact Or.inl h1
      · have := hchildOld p x h1; omega
  | some c =>
    cases l with
    | nil => exact absurd rfl (hne (by simp))
    | cons r rest =>
      have hrs := hsv r (List.mem_cons_self ..)
      simp only [attachRoots, hrs]
      refine ⟨?_, ctxSame_setSibling _ _ _, ?_, ?_, ?_⟩
      rotate_left 3
      · intro x
        by_cases hx : x = lastOf a a.size c
        · exact Or.inr ⟨r, by unfold Child; rw [hrs, hx]; exact reach_lastOf a a.size c⟩
        · refine Or.inl ?_
          by_cases hxs : x < a.size
          · unfold setSibling
            rw [ndOf_modify a _ _ hxs]
            simp [Ne.symm hx]
          · unfold setSibling
            rw [ndOf_ge _ (by rw [size_amod]; omega), ndOf_ge _ (by omega)]
      · intro p x hx hc
        rcases child_setSibling hc with h1 | ⟨_, h1⟩
        · exact h1
        · have := hheadnew x h1; omega
      · intro p x hx hc
        rcases child_setSibling hc with h1 | ⟨h1, _⟩
        · have := hchildOld p x h1; omega
        · exact Or.inr ⟨c, rfl, h1⟩
      · intro o x hr
        rcases reach_setSibling_via hr with h1 | ⟨h1, _⟩
        · exact Or.inl h1
        · exact Or.inr ⟨c, rfl, h1⟩

/-! ### what a step of the construction does to the pnodes `< g0` -/

/-- no pnode `< g0` gets a new parent or a context bit; its `sibling` changes only if it is somebody's child -/
structure Sd (g0 : Nat) (a a' : Array PNode) : Prop where
  parSub : ∀ p x, x < g0 → Child a' p x → Child a p x
  ctx : ∀ x, x < g0 → (ndOf a' x).ctxt = (ndOf a x).ctxt
  sib : ∀ x, x < g0 → (ndOf a' x).sibling = (ndOf a x).sibling ∨ ∃ p, Child a p x

theorem Sd.refl (g0 : Nat) (a : Array PNode) : Sd g0 a a := ⟨fun _ _ _ h => h, fun _ _ => rfl, fun _ _ => Or.inl rfl⟩

theorem Sd.trans {g0 : Nat} {a b c : Array PNode} (h1 : Sd g0 a b) (h2 : Sd g0 b c) : Sd g0 a c := by
  refine ⟨fun p x hx hc => h1.parSub p x hx (h2.parSub p x hx hc), fun x hx => by rw [h2.ctx x hx, h1.ctx x hx], fun x hx => ?_⟩
  rcases h2.sib x hx with e2 | ⟨p, hp⟩
  · rcases h1.sib x hx with e1 | hp
    · exact Or.inl (by rw [e2, e1])
    · exact Or.inr hp
  · exact Or.inr ⟨p, h1.parSub p x hx hp⟩

theorem Sd.mono {g0 g1 : Nat} {a a' : Array PNode} (h : Sd g0 a a') (hg : g1 ≤ g0) : Sd g1 a a' :=
  ⟨fun p x hx => h.parSub p x (by omega), fun x hx => h.ctx x (by omega), fun x hx => h.sib x (by omega)⟩

theorem sd_push {g : Fsg} {a : Array PNode} (inv : GInv g a) {n : PNode} (hn : n.succ = none) : Sd a.size a (a.push n) :=
  ⟨parSub_push inv hn, ctxSame_push a n, fun x hx => Or.inl (by rw [ndOf_push_lt a n hx])⟩

theorem sd_addCtxt (a : Array PNode) {g0 q : Nat} (hq : g0 ≤ q) (c : Nat) : Sd g0 a (addCtxt a q c) :=
  ⟨fun p x _ hc => by
      unfold Child at hc ⊢
      rw [succ_addCtxt'] at hc
      exact reach_congr (a := addCtxt a q c) (a' := a) (fun q' => (sibling_addCtxt' a q c q').symm) hc,
   fun x hx => ctxt_addCtxt_ne a c (by omega), fun x _ => Or.inl (sibling_addCtxt' a q c x)⟩

theorem child_lt {a : Array PNode} {p x : Nat} (h : Child a p x) : p < a.size := by
  rcases Nat.lt_or_ge p a.size with h1 | h1
  · exact h1
  · unfold Child at h
    rw [ndOf_ge a h1] at h; cases h

/-- a chain of parentless pnodes `< g0` is the same chain after the step -/
theorem Sd.reachRev {g0 : Nat} {a a' : Array PNode} (h : Sd g0 a a') : ∀ {o : Option Nat} {x : Nat}, Reach a' o x →
    (∀ y, Reach a o y → NoPar a y ∧ y < g0) → Reach a o x := by
  intro o x hr
  induction hr with
  | here => intro _; exact Reach.here
  | @next p x hpx ih =>
    intro H
    obtain ⟨hnp, hlt⟩ := H p Reach.here
    rcases h.sib p hlt with e | ⟨q, hq⟩
    · rw [e] at ih
      exact Reach.next (ih (fun y hy => H y (Reach.next hy)))
    · exact absurd hq (hnp q)

/-- the new word-internal pnode `N = a.size` in front of the shared child chain of the pnodes `l`: no old pnode gets a new
parent, and the parents of `N` are exactly `l` -/
theorem newInternal_exact {g : Fsg} {a : Array PNode} (inv : GInv g a) (n : PNode) (hn : n.succ = none) (l : List Nat) (hnd : l.Nodup)
    (hl : ∀ r ∈ l, r < a.size) (hsv : ∀ r ∈ l, (ndOf a r).succ = n.sibling) :
    Sd a.size a (l.foldl (fun b r => setSucc b r (some a.size)) (a.push n)) ∧
    (∀ p, Child (l.foldl (fun b r => setSucc b r (some a.size)) (a.push n)) p a.size → p ∈ l) ∧
    ChildMono a (l.foldl (fun b r => setSucc b r (some a.size)) (a.push n)) := by
  have hsz : (a.push n).size = a.size + 1 := Array.size_push ..
  obtain ⟨cm1, sibSame, succAll, succOther⟩ := setSuccAll_spec a.size n.sibling l (a.push n) hnd
    (fun r hr => by rw [hsz]; have := hl r hr; omega) (fun r hr => by rw [ndOf_push_lt a n (hl r hr)]; exact hsv r hr)
    (by rw [ndOf_push_eq])
  have hreach : ∀ {o : Option Nat} {x : Nat}, Reach (l.foldl (fun b r => setSucc b r (some a.size)) (a.push n)) o x ↔ Reach (a.push n) o x :=
    reach_of_sibling_eq sibSame
  -- children of a pnode not in `l`
  have hother : ∀ p x, p ∉ l → Child (l.foldl (fun b r => setSucc b r (some a.size)) (a.push n)) p x → p < a.size ∧ Reach a (ndOf a p).succ x := by
    intro p x hp hc
    unfold Child at hc
    rw [succOther p hp] at hc
    have hc' := hreach.1 hc
    by_cases hp1 : p < a.size
    · rw [ndOf_push_lt a n hp1] at hc'
      exact ⟨hp1, reach_push_rev inv n hc' (fun y hy => inv.succClosed hp1 hy)⟩
    · by_cases hp2 : p = a.size
      · subst hp2; rw [ndOf_push_eq, hn] at hc'; cases hc'
      · rw [ndOf_ge _ (by rw [hsz]; omega)] at hc'; cases hc'
  refine ⟨⟨?_, ?_, ?_⟩, ?_, fun p hp x hx => cm1 p (by rw [hsz]; omega) x (childMono_push inv n p hp x hx)⟩
  · intro p x hx hc
    by_cases hp : p ∈ l
    · unfold Child at hc ⊢
      rw [succAll p hp] at hc
      have hc' := hreach.1 hc
      cases hc' with
      | here => omega
      | next h2 =>
        rw [ndOf_push_eq, ← hsv p hp] at h2
        exact reach_push_rev inv n h2 (fun y hy => inv.succClosed (hl p hp) hy)
    · exact (hother p x hp hc).2
  · intro x hx
    rw [view_ctxt (view_setSuccAll a.size x l (a.push n)), ndOf_push_lt a n hx]
  · intro x hx
    exact Or.inl (by rw [sibSame, ndOf_push_lt a n hx])
  · intro p hc
    by_cases hp : p ∈ l
    · exact hp
    · obtain ⟨h1, h2⟩ := hother p _ hp hc
      have := reach_lt inv h2 (fun y hy => inv.succClosed h1 hy)
      omega

/-! ### the invariants of the converse -/

theorem reach_valid {g : Fsg} {a : Array PNode} (inv : GInv g a) {s : Nat} : ∀ {o : Option Nat} {x : Nat}, Reach a o x → OValid a s o →
    Valid a s x := by
  intro o x h
  induction h with
  | here => intro ho; exact ho _ rfl
  | @next p x _ ih =>
    intro ho
    have hp := ho p rfl
    refine ih ?_
    have := (inv p hp.1).2.1
    rw [hp.2] at this; exact this

theorem child_valid {g : Fsg} {a : Array PNode} (inv : GInv g a) {s p x : Nat} (hp : (ndOf a p).owner = s) (hc : Child a p x) : Valid a s x := by
  refine reach_valid inv hc ?_
  have := (inv p (child_lt hc)).1
  rw [hp] at this; exact this

/-- the parents of pnode `x`: none; or roots of one shared set; or one pnode, which has a parent itself -/
def ParOf (gl : List GEntry) (a : Array PNode) (x : Nat) : Prop :=
  NoPar a x ∨ (∃ e ∈ gl, ∀ p, Child a p x → p ∈ e.list) ∨ (∃ p, (∀ p', Child a p' x → p' = p) ∧ ∃ p'', Child a p'' p)

theorem ParOf.step {gl : List GEntry} {a a' : Array PNode} {x g0 : Nat} (h : ParOf gl a x) (hx : x < g0) (sd : Sd g0 a a')
    (cm : ChildMono a a') : ParOf gl a' x := by
  rcases h with h | ⟨e, he, h⟩ | ⟨p, h, p'', hp⟩
  · exact Or.inl (fun p hc => h p (sd.parSub p x hx hc))
  · exact Or.inr (Or.inl ⟨e, he, fun p hc => h p (sd.parSub p x hx hc)⟩)
  · exact Or.inr (Or.inr ⟨p, fun p' hc => h p' (sd.parSub p' x hx hc), p'', cm p'' (child_lt hp) p hp⟩)

theorem ParOf.mono_gl {gl gl' : List GEntry} {a : Array PNode} {x : Nat} (h : ParOf gl a x) (hsub : ∀ e ∈ gl, e ∈ gl') : ParOf gl' a x := by
  rcases h with h | ⟨e, he, h⟩ | h
  · exact Or.inl h
  · exact Or.inr (Or.inl ⟨e, hsub e he, h⟩)
  · exact Or.inr (Or.inr h)

/-- the pnodes of the root chain are nobody's children -/
def RootNP (a : Array PNode) (root : Option Nat) : Prop := ∀ x, Reach a root x → NoPar a x

theorem RootNP.step {a a' : Array PNode} {root : Option Nat} {g0 : Nat} (h : RootNP a root) (sd : Sd g0 a a')
    (hlt : ∀ y, Reach a root y → y < g0) : RootNP a' root := by
  intro x hx p hc
  have hr := sd.reachRev hx (fun y hy => ⟨h y hy, hlt y hy⟩)
  exact h x hr p (sd.parSub p x (hlt x hr) hc)

theorem RootNP.pushRoot {g : Fsg} {a : Array PNode} {root : Option Nat} (h : RootNP a root) (inv : GInv g a)
    (hroot : ∀ y, root = some y → y < a.size) {n : PNode} (hn : n.succ = none) (hs : n.sibling = root) : RootNP (a.push n) (some a.size) := by
  intro x hx
  cases hx with
  | here => exact noPar_new inv hn
  | next h2 =>
    rw [ndOf_push_eq, hs] at h2
    exact noPar_push inv hn (h x (reach_push_rev inv n h2 hroot))

theorem RootNP.ctxt {a : Array PNode} {root : Option Nat} (h : RootNP a root) (q c : Nat) : RootNP (addCtxt a q c) root := by
  intro x hx
  exact noPar_addCtxt q c (h x (reach_congr (a := addCtxt a q c) (a' := a) (fun q' => (sibling_addCtxt' a q c q').symm) hx))

section Recs
variable (li : LexIn) (g : Fsg) (lcOf rcOf : Nat → List Nat)

/-- the roots of the shared sets are word-initial pnodes of their key -/
def GroupS (s : Nat) (gl : List GEntry) (a : Array PNode) : Prop :=
  ∀ e ∈ gl, ∀ r ∈ e.list, RootS li (lcOf s) s e.ci e.rc (ndOf a r)

/-- what is recorded about a leaf `x` of state `s`: the arc it carries; a single-phone word's leaf is nobody's child; the leaf
of a word of `n ≥ 2` phones hangs at the end of the chain of word-internal pnodes chosen for the word, under its root set -/
def LeafRec (s : Nat) (gl : List GEntry) (a : Array PNode) (x : Nat) : Prop :=
  ∃ lid, lid ∈ stateArcs g s ∧ (
    ((li.word (g.link lid).wid.toNat).pron.length = 1 ∧ NoPar a x ∧
      (((li.word (g.link lid).wid.toNat).dictFiller = false ∧ SingleS li g (lcOf s) s lid (ndOf a x)) ∨
       ((li.word (g.link lid).wid.toNat).dictFiller = true ∧ FillerS li g s lid (ndOf a x)))) ∨
    (2 ≤ (li.word (g.link lid).wid.toNat).pron.length ∧
      LeafS li (rcOf lid) s lid ((li.word (g.link lid).wid.toNat).pron.getD ((li.word (g.link lid).wid.toNat).pron.length - 1) 0)
        ((li.word (g.link lid).wid.toNat).pron.getD ((li.word (g.link lid).wid.toNat).pron.length - 1 - 1) 0) (g.link lid).logp (ndOf a x) ∧
      ∃ e ∈ gl, e.ci = (li.word (g.link lid).wid.toNat).pron.headD 0 ∧ e.rc = (li.word (g.link lid).wid.toNat).pron.getD 1 0 ∧
        ∃ qf : Nat → Nat, PathK li (li.word (g.link lid).wid.toNat) e.list a qf ((li.word (g.link lid).wid.toNat).pron.length - 2) ∧
          ((li.word (g.link lid).wid.toNat).pron.length - 2 = 0 → ∀ r ∈ e.list, Child a r x) ∧
          (1 ≤ (li.word (g.link lid).wid.toNat).pron.length - 2 → Child a (qf ((li.word (g.link lid).wid.toNat).pron.length - 2)) x)))

variable {li g lcOf rcOf}

theorem view_of {a a' : Array PNode} {x g0 : Nat} (gr : Grow a a') (sd : Sd g0 a a') (hx : x < g0) (hxs : x < a.size) :
    view (ndOf a' x) = view (ndOf a x) := by
  unfold view
  rw [gr.stable x hxs, sd.ctx x hx]

theorem GroupS.step {s : Nat} {gl : List GEntry} {a a' : Array PNode} {g0 : Nat} (h : GroupS li lcOf s gl a) (gr : Grow a a') (sd : Sd g0 a a')
    (hlt : ∀ e ∈ gl, ∀ r ∈ e.list, r < g0 ∧ r < a.size) : GroupS li lcOf s gl a' :=
  fun e he r hr => (h e he r hr).congr (view_of gr sd (hlt e he r hr).1 (hlt e he r hr).2)

theorem LeafRec.step {s : Nat} {gl : List GEntry} {a a' : Array PNode} {x g0 : Nat} (h : LeafRec li g lcOf rcOf s gl a x) (hx : x < g0)
    (hxs : x < a.size) (gr : Grow a a') (sd : Sd g0 a a') (cm : ChildMono a a') (hlt : ∀ e ∈ gl, ∀ r ∈ e.list, r < a.size) :
    LeafRec li g lcOf rcOf s gl a' x := by
  have hv := view_of gr sd hx hxs
  obtain ⟨lid, hm, hk⟩ := h
  refine ⟨lid, hm, ?_⟩
  rcases hk with ⟨h1, h2, h3⟩ | ⟨h1, h2, e, he, h3, h4, qf, h5, h6, h7⟩
  · refine Or.inl ⟨h1, fun p hc => h2 p (sd.parSub p x hx hc), ?_⟩
    rcases h3 with ⟨h4, h5⟩ | ⟨h4, h5⟩
    · exact Or.inl ⟨h4, h5.congr hv⟩
    · exact Or.inr ⟨h4, h5.congr hv⟩
  · refine Or.inr ⟨h1, h2.congr hv, e, he, h3, h4, qf, h5.mono gr cm (hlt e he), fun h0 r hr => cm r (hlt e he r hr) x (h6 h0 r hr),
      fun h0 => cm _ (h5.data _ h0 (Nat.le_refl _)).1 x (h7 h0)⟩

theorem LeafRec.mono_gl {s : Nat} {gl gl' : List GEntry} {a : Array PNode} {x : Nat} (h : LeafRec li g lcOf rcOf s gl a x)
    (hsub : ∀ e ∈ gl, e ∈ gl') : LeafRec li g lcOf rcOf s gl' a x := by
  obtain ⟨lid, hm, hk⟩ := h
  refine ⟨lid, hm, ?_⟩
  rcases hk with h1 | ⟨h1, h2, e, he, h3⟩
  · exact Or.inl h1
  · exact Or.inr ⟨h1, h2, e, hsub e he, h3⟩

end Recs

/-! ### the word-final loop, exact part -/

structure RcX (a0 : Array PNode) (st : RcSt) : Prop where
  sd : Sd a0.size a0 st.nodes
  allNew : ∀ x, a0.size ≤ x → x < st.nodes.size → x ∈ st.rcl
  newSucc : ∀ x, a0.size ≤ x → x < st.nodes.size → (ndOf st.nodes x).succ = none

theorem leafStep_x {g : Fsg} {li : LexIn} {s lid ci lc p : Nat} {logp : Int} {a0 : Array PNode} {done : List Nat} (st : RcSt) (rc : Nat)
    (h : RcInv g s a0 st) (hr : RcR a0 st) (hg : RcG li s lid ci lc p logp done st) (hx : RcX a0 st) :
    RcX a0 (leafStep li s lid ci lc p logp st rc) := by
  unfold leafStep
  split
  · rename_i q hq
    have hq0 : a0.size ≤ q := hr.rclNew q (hg.rmap _ (lookup_mem hq)).1
    refine ⟨hx.sd.trans (sd_addCtxt _ hq0 rc), fun x h1 h2 => hx.allNew x h1 (by rw [size_addCtxt] at h2; exact h2), fun x h1 h2 => ?_⟩
    rw [succ_addCtxt']; exact hx.newSucc x h1 (by rw [size_addCtxt] at h2; exact h2)
  · have hsz : (st.nodes.push (leafNode li s lid ci lc p logp st.rcl.head? rc)).size = st.nodes.size + 1 := Array.size_push ..
    refine ⟨hx.sd.trans (((sd_push h.inv rfl).mono hr.size).trans (sd_addCtxt _ hr.size rc)), ?_, ?_⟩
    · intro x h1 h2
      rw [size_addCtxt, hsz] at h2
      by_cases hxe : x = st.nodes.size
      · rw [hxe]; exact List.mem_cons_self ..
      · exact List.mem_cons_of_mem _ (hx.allNew x h1 (by omega))
    · intro x h1 h2
      rw [size_addCtxt, hsz] at h2
      rw [succ_addCtxt']
      by_cases hxe : x = st.nodes.size
      · rw [hxe, ndOf_push_eq]; rfl
      · rw [ndOf_push_lt _ _ (by omega)]; exact hx.newSucc x h1 (by omega)

theorem leafFold_x {g : Fsg} {li : LexIn} {s lid ci lc p : Nat} {logp : Int} (a : Array PNode)
    (hl : lid < g.links.size ∧ (g.link lid).src = s ∧ 0 ≤ (g.link lid).wid) (inv : GInv g a) (hr : Ranked a) (rclist : List Nat) :
    RcX a (rclist.foldl (leafStep li s lid ci lc p logp) { nodes := a }) := by
  have h := foldl_inv_prefix
    (fun done st' => (RcInv g s a st' ∧ RcR a st') ∧ RcG li s lid ci lc p logp done st' ∧ RcX a st')
    (leafStep li s lid ci lc p logp) rclist [] { nodes := a }
    ⟨⟨⟨inv, Ext.refl _, nil_all, nil_all⟩,
      ⟨hr, Nat.le_refl _, fun _ _ => rfl, fun _ _ => rfl, fun x h1 h2 => absurd h2 (Nat.not_lt.2 h1), nil_all⟩⟩,
     ⟨nil_all, nil_all, nil_all, nil_all⟩, ⟨Sd.refl _ _, fun x h1 h2 => absurd h2 (Nat.not_lt.2 h1), fun x h1 h2 => absurd h2 (Nat.not_lt.2 h1)⟩⟩
    (fun d st' rc _ h' => ⟨⟨leafStep_inv hl st' rc h'.1.1, leafStep_ranked st' rc h'.1.1 h'.1.2⟩,
      leafStep_g st' rc h'.1.1 h'.2.1, leafStep_x st' rc h'.1.1 h'.1.2 h'.2.1 h'.2.2⟩)
  exact h.2.2

/-! ### the loop over the phones, exact part -/

structure PhX (li : LexIn) (g : Fsg) (lcOf rcOf : Nat → List Nat) (s : Nat) (gl : List GEntry) (a1 : Array PNode) (st : PhSt) : Prop where
  sd : Sd a1.size a1 st.nodes
  par : ∀ x, x < st.nodes.size → (ndOf st.nodes x).owner = s → ParOf gl st.nodes x
  leafNew : ∀ x, a1.size ≤ x → x < st.nodes.size → (ndOf st.nodes x).leaf = true → LeafRec li g lcOf rcOf s gl st.nodes x

section StepX
variable {g : Fsg} {li : LexIn} {tm : Nat → Nat} {s lid : Nat} {w : WordInfo} {logp : Int} {rclist lcl : List Nat} {gl : List GEntry}
  {a1 : Array PNode} {m : Nat} {st : PhSt} {lcOf rcOf : Nat → List Nat}

theorem PhP.predPar (hp : PhP g li tm s lid w logp rclist lcl gl a1 m st) (hne : lcl ≠ []) (h1 : 1 ≤ m) (h2 : m ≤ w.pron.length - 2) :
    ∃ p, Child st.nodes p st.pred := by
  obtain ⟨qf, hpath, hpred, _⟩ := hp.path
  have hmin : min m (w.pron.length - 2) = m := by omega
  rw [hmin] at hpath hpred
  rw [hpred h1]
  obtain ⟨m', rfl⟩ : ∃ m', m = m' + 1 := ⟨m - 1, by omega⟩
  by_cases hm0 : m' = 0
  · subst hm0
    cases hl : lcl with
    | nil => exact absurd hl hne
    | cons r rest => exact ⟨r, hpath.first (by omega) r (by rw [hl]; exact List.mem_cons_self ..)⟩
  · exact ⟨qf m', hpath.link m' (by omega) (by omega)⟩

/-- a new word-internal pnode under the pnodes `l` (the root set, or the one predecessor) -/
theorem step_alloc_x (hb : PhInv g s a1 st) (gx : GX gl st.nodes) (hx : PhX li g lcOf rcOf s gl a1 st) (l : List Nat) (hnd : l.Nodup)
    (hl : ∀ r ∈ l, r < st.nodes.size) (hsv : ∀ r ∈ l, (ndOf st.nodes r).succ = (ndOf st.nodes st.pred).succ) (ci p dw : Nat)
    (hparN : (∃ e ∈ gl, e.list = l) ∨ (∃ q, l = [q] ∧ ∃ p'', Child st.nodes p'' q)) :
    PhX li g lcOf rcOf s gl a1
      { nodes := l.foldl (fun b r => setSucc b r (some st.nodes.size)) (st.nodes.push (internalNode li s ci p dw (ndOf st.nodes st.pred).succ)),
        pred := st.nodes.size } := by
  obtain ⟨sdStep, parentsN, cm⟩ := newInternal_exact hb.inv (internalNode li s ci p dw (ndOf st.nodes st.pred).succ) rfl l hnd hl hsv
  have gr : Grow st.nodes (l.foldl (fun b r => setSucc b r (some st.nodes.size)) (st.nodes.push (internalNode li s ci p dw (ndOf st.nodes st.pred).succ))) :=
    (grow_push hb.inv _).trans (grow_setSuccAll _ l _)
  have hsz : (l.foldl (fun b r => setSucc b r (some st.nodes.size)) (st.nodes.push (internalNode li s ci p dw (ndOf st.nodes st.pred).succ))).size =
      st.nodes.size + 1 := by rw [size_setSuccAll, Array.size_push]
  have hN : view (ndOf (l.foldl (fun b r => setSucc b r (some st.nodes.size)) (st.nodes.push (internalNode li s ci p dw (ndOf st.nodes st.pred).succ))) st.nodes.size) =
      view (internalNode li s ci p dw (ndOf st.nodes st.pred).succ) := by rw [view_setSuccAll, ndOf_push_eq]
  refine ⟨hx.sd.trans (sdStep.mono hb.ext.1), ?_, ?_⟩
  · intro x hxs hown
    simp only at hxs hown ⊢
    rw [hsz] at hxs
    by_cases hlt : x < st.nodes.size
    · have hown' : (ndOf st.nodes x).owner = s := by rw [← (core_fields (gr.stable x hlt)).1]; exact hown
      exact (hx.par x hlt hown').step hlt sdStep cm
    · have hxe : x = st.nodes.size := by omega
      subst hxe
      rcases hparN with ⟨e, he, hel⟩ | ⟨q, hq, p'', hpp⟩
      · exact Or.inr (Or.inl ⟨e, he, fun p' hc => by rw [hel]; exact parentsN p' hc⟩)
      · refine Or.inr (Or.inr ⟨q, fun p' hc => ?_, p'', cm p'' (child_lt hpp) q hpp⟩)
        have := parentsN p' hc
        rw [hq] at this
        exact List.mem_singleton.1 this
  · intro x h1 hxs hleaf
    simp only at hxs hleaf ⊢
    rw [hsz] at hxs
    by_cases hlt : x < st.nodes.size
    · have hleaf' : (ndOf st.nodes x).leaf = true := by rw [← (core_fields (gr.stable x hlt)).2.1]; exact hleaf
      exact (hx.leafNew x h1 hlt hleaf').step hlt hlt gr sdStep cm gx.lt
    · have hxe : x = st.nodes.size := by omega
      subst hxe
      rw [(core_fields (view_core hN)).2.1] at hleaf
      cases hleaf

/-- the word-final step: the new leaves' parents are exactly `l` (the root set, or the one predecessor) -/
theorem step_leaf_x (ctx : PhCtx g li tm s lid (li.word (g.link lid).wid.toNat) lcl gl a1) (hb : PhInv g s a1 st) (hr : Ranked st.nodes)
    (hp : PhP g li tm s lid (li.word (g.link lid).wid.toNat) (g.link lid).logp (rcOf lid) lcl gl a1 m st)
    (hx : PhX li g lcOf rcOf s gl a1 st) (hm : m + 2 = (li.word (g.link lid).wid.toNat).pron.length) (l : List Nat) (hnd : l.Nodup)
    (hlv : ∀ x ∈ l, Valid st.nodes s x) (hsame : ∀ r ∈ l, ∀ r' ∈ l, (ndOf st.nodes r).succ = (ndOf st.nodes r').succ)
    (hkind : (l = lcl ∧ m = 0) ∨ (l = [st.pred] ∧ 1 ≤ m)) (hlne : lcl ≠ [])
    (hkey : ∃ e ∈ gl, e.list = lcl ∧ e.ci = (li.word (g.link lid).wid.toNat).pron.headD 0 ∧ e.rc = (li.word (g.link lid).wid.toNat).pron.getD 1 0)
    (hlid : lid ∈ stateArcs g s)
    (hp' : PhP g li tm s lid (li.word (g.link lid).wid.toNat) (g.link lid).logp (rcOf lid) lcl gl a1 (m + 1)
      { nodes := attachRoots ((rcOf lid).foldl (leafStep li s lid ((li.word (g.link lid).wid.toNat).pron.getD (1 + m) 0)
            ((li.word (g.link lid).wid.toNat).pron.getD (1 + m - 1) 0) (1 + m) (g.link lid).logp) { nodes := st.nodes }).nodes
          ((rcOf lid).foldl (leafStep li s lid ((li.word (g.link lid).wid.toNat).pron.getD (1 + m) 0)
            ((li.word (g.link lid).wid.toNat).pron.getD (1 + m - 1) 0) (1 + m) (g.link lid).logp) { nodes := st.nodes }).rcl.head? l,
        pred := st.pred }) :
    PhX li g lcOf rcOf s gl a1
      { nodes := attachRoots ((rcOf lid).foldl (leafStep li s lid ((li.word (g.link lid).wid.toNat).pron.getD (1 + m) 0)
            ((li.word (g.link lid).wid.toNat).pron.getD (1 + m - 1) 0) (1 + m) (g.link lid).logp) { nodes := st.nodes }).nodes
          ((rcOf lid).foldl (leafStep li s lid ((li.word (g.link lid).wid.toNat).pron.getD (1 + m) 0)
            ((li.word (g.link lid).wid.toNat).pron.getD (1 + m - 1) 0) (1 + m) (g.link lid).logp) { nodes := st.nodes }).rcl.head? l,
        pred := st.pred } := by
  obtain ⟨⟨hI, hR⟩, hQ, hG, hK, hRG⟩ := leafFold_all (li := li) (tm := tm) (gl := gl) (ci := (li.word (g.link lid).wid.toNat).pron.getD (1 + m) 0)
    (lc := (li.word (g.link lid).wid.toNat).pron.getD (1 + m - 1) 0) (p := 1 + m) (logp := (g.link lid).logp) st.nodes ctx.hl hb.inv hr hp.kind (rcOf lid)
  have hRX := leafFold_x (li := li) (ci := (li.word (g.link lid).wid.toNat).pron.getD (1 + m) 0)
    (lc := (li.word (g.link lid).wid.toNat).pron.getD (1 + m - 1) 0) (p := 1 + m) (logp := (g.link lid).logp) st.nodes ctx.hl hb.inv hr (rcOf lid)
  have hLS := leafFold_s (li := li) (rclist := rcOf lid) (s := s) (lid := lid) (ci := (li.word (g.link lid).wid.toNat).pron.getD (1 + m) 0)
    (lc := (li.word (g.link lid).wid.toNat).pron.getD (1 + m - 1) 0) (p := 1 + m) (logp := (g.link lid).logp) st.nodes
  generalize hRdef : (rcOf lid).foldl (leafStep li s lid ((li.word (g.link lid).wid.toNat).pron.getD (1 + m) 0)
      ((li.word (g.link lid).wid.toNat).pron.getD (1 + m - 1) 0) (1 + m) (g.link lid).logp) { nodes := st.nodes } = R at *
  have hhd : ∀ y, R.rcl.head? = some y → st.nodes.size ≤ y ∧ y < R.nodes.size :=
    fun y hy => ⟨hR.rclNew y (head?_mem hy), (hI.rcl y (head?_mem hy)).1⟩
  obtain ⟨r0, hr0⟩ : ∃ r0, r0 ∈ l := by
    rcases hkind with ⟨h1, _⟩ | ⟨h1, _⟩
    · rw [h1]
      cases hl : lcl with
      | nil => exact absurd hl hlne
      | cons y ys => exact ⟨y, List.mem_cons_self ..⟩
    · rw [h1]; exact ⟨st.pred, List.mem_singleton.2 rfl⟩
  have hsv : ∀ r ∈ l, (ndOf R.nodes r).succ = (ndOf st.nodes r0).succ := fun r hr' => by
    rw [hQ.succ r (hlv r hr').1]; exact hsame r hr' r0 hr0
  obtain ⟨v, hA⟩ := attachRoots_attached (s := s) (g0 := st.nodes.size) l _ hI.inv hR.ranked hnd (fun x hx' => (hlv x hx').ext hI.ext) _ hsv
    (fun x hx' => hI.rcl x (head?_mem hx')) hR.sibNew hhd
  -- children in `R.nodes` are old
  have hold : ∀ x, x < st.nodes.size → ∀ y, (ndOf R.nodes x).sibling = some y → y < st.nodes.size := fun x hx' y hy => by
    rw [hR.sibOld x hx'] at hy; exact hb.inv.sibClosed hx' hy
  have hchildOld : ∀ p x, Child R.nodes p x → x < st.nodes.size := by
    intro p x hc
    by_cases hp1 : p < st.nodes.size
    · unfold Child at hc
      rw [hR.succOld p hp1] at hc
      exact reach_old hold hc (fun y hy => hb.inv.succClosed hp1 hy)
    · unfold Child at hc
      rw [hRX.newSucc p (by omega) (child_lt hc)] at hc; cases hc
  have hAX := attachRoots_exact l R.nodes hI.inv hnd (fun x hx' => ((hlv x hx').ext hI.ext).1) _ hsv hR.sibNew hhd hchildOld
    (fun _ h0 => by rw [h0] at hr0; cases hr0)
  have sdA : Sd st.nodes.size R.nodes (attachRoots R.nodes R.rcl.head? l) :=
    ⟨hAX.parSub, fun x hx' => hAX.ctx x (Nat.lt_of_lt_of_le hx' hQ.size), fun x _ => hAX.sib x⟩
  have sdStep : Sd st.nodes.size st.nodes (attachRoots R.nodes R.rcl.head? l) := hRX.sd.trans sdA
  have gr : Grow st.nodes (attachRoots R.nodes R.rcl.head? l) := hG.trans hA.grow
  have cm : ChildMono st.nodes (attachRoots R.nodes R.rcl.head? l) :=
    fun p hp1 x hx' => hA.child p (Nat.lt_of_lt_of_le hp1 hQ.size) x (hQ.child p hp1 x hx')
  have hsz : (attachRoots R.nodes R.rcl.head? l).size = R.nodes.size := size_attachRoots _ _ _
  obtain ⟨e, he, hel, heci, herc⟩ := hkey
  -- the parents of a new leaf are in `l`
  have hpar : ∀ x, st.nodes.size ≤ x → ∀ p, Child (attachRoots R.nodes R.rcl.head? l) p x → p ∈ l := by
    intro x hge p hc
    rcases hAX.newPar p x hge hc with h1 | ⟨c, hsvc, hct⟩
    · exact h1
    · have hc0 : Child R.nodes r0 (lastOf R.nodes R.nodes.size c) := by
        unfold Child; rw [hsv r0 hr0, hsvc]; exact reach_lastOf _ _ _
      have ht := hchildOld _ _ hc0
      have hc0' := hRX.sd.parSub _ _ ht hc0
      have hct' := hRX.sd.parSub _ _ ht hct
      have htv := child_valid hb.inv (hlv r0 hr0).2 hc0'
      rcases hx.par _ ht htv.2 with d1 | ⟨e', he', d2⟩ | ⟨ps, d3, p'', hpp⟩
      · exact absurd hc0' (d1 r0)
      · rcases hkind with ⟨h1, _⟩ | ⟨h1, h2⟩
        · have := hp.gx.disj e' he' e he r0 (d2 r0 hc0') (by rw [hel, ← h1]; exact hr0)
          rw [h1, ← hel, ← this]; exact d2 p hct'
        · rw [h1] at hr0
          have hr0' : r0 = st.pred := List.mem_singleton.1 hr0
          exact absurd (hr0' ▸ d2 r0 hc0') (hp.predLater h2 (by omega) e' he')
      · rcases hkind with ⟨h1, _⟩ | ⟨h1, h2⟩
        · have : r0 = ps := d3 r0 hc0'
          exact absurd hpp (this ▸ hp.gx.noPar e he r0 (by rw [hel, ← h1]; exact hr0) p'')
        · have e1 : r0 = ps := d3 r0 hc0'
          have e2 : p = ps := d3 p hct'
          rw [e2, ← e1]; exact hr0
  refine ⟨hx.sd.trans (sdStep.mono hb.ext.1), ?_, ?_⟩
  · intro x hxs hown
    simp only at hxs hown ⊢
    rw [hsz] at hxs
    by_cases hlt : x < st.nodes.size
    · have hown' : (ndOf st.nodes x).owner = s := by rw [← (core_fields (gr.stable x hlt)).1]; exact hown
      exact (hx.par x hlt hown').step hlt sdStep cm
    · rcases hkind with ⟨h1, _⟩ | ⟨h1, h2⟩
      · exact Or.inr (Or.inl ⟨e, he, fun p' hc => by rw [hel, ← h1]; exact hpar x (by omega) p' hc⟩)
      · obtain ⟨p'', hpp⟩ := hp.predPar hlne h2 (by omega)
        refine Or.inr (Or.inr ⟨st.pred, fun p' hc => ?_, p'', cm p'' (child_lt hpp) _ hpp⟩)
        have := hpar x (by omega) p' hc
        rw [h1] at this
        exact List.mem_singleton.1 this
  · intro x h1 hxs hleaf
    simp only at hxs hleaf ⊢
    rw [hsz] at hxs
    by_cases hlt : x < st.nodes.size
    · have hleaf' : (ndOf st.nodes x).leaf = true := by rw [← (core_fields (gr.stable x hlt)).2.1]; exact hleaf
      exact (hx.leafNew x h1 hlt hleaf').step hlt hlt gr sdStep cm hp.gx.lt
    · have hxr := hRX.allNew x (by omega) hxs
      have hreach := hRG.headReach x hxr
      obtain ⟨qf, hpath, hpred, _⟩ := hp'.path
      have hmin' : min (m + 1) ((li.word (g.link lid).wid.toNat).pron.length - 2) = (li.word (g.link lid).wid.toNat).pron.length - 2 := by omega
      rw [hmin'] at hpath hpred
      have e1 : 1 + m = (li.word (g.link lid).wid.toNat).pron.length - 1 := by omega
      refine ⟨lid, hlid, Or.inr ⟨by omega, ?_, e, he, heci, herc, qf, by rw [hel]; exact hpath, ?_, ?_⟩⟩
      · rw [← e1]
        exact (hLS.new x (by omega) hxs).congr (view_attachRoots _ x _ _)
      · intro h0 r hr'
        rcases hkind with ⟨h2, _⟩ | ⟨_, h2⟩
        · exact hA.kids r (by rw [h2, ← hel]; exact hr') x hreach
        · omega
      · intro h0
        rcases hkind with ⟨_, h2⟩ | ⟨h2, _⟩
        · omega
        · have hpe : st.pred = qf ((li.word (g.link lid).wid.toNat).pron.length - 2) := hpred h0
          rw [← hpe]
          exact hA.kids st.pred (by rw [h2]; exact List.mem_singleton.2 rfl) x hreach

theorem phoneStep_x (ctx : PhCtx g li tm s lid (li.word (g.link lid).wid.toNat) lcl gl a1) (hb : PhInv g s a1 st) (hr : Ranked st.nodes)
    (hp : PhP g li tm s lid (li.word (g.link lid).wid.toNat) (g.link lid).logp (rcOf lid) lcl gl a1 m st)
    (hx : PhX li g lcOf rcOf s gl a1 st) (hm : m < (li.word (g.link lid).wid.toNat).pron.length - 1) (hlne : lcl ≠ [])
    (hkey : ∃ e ∈ gl, e.list = lcl ∧ e.ci = (li.word (g.link lid).wid.toNat).pron.headD 0 ∧ e.rc = (li.word (g.link lid).wid.toNat).pron.getD 1 0)
    (hlid : lid ∈ stateArcs g s) :
    PhX li g lcOf rcOf s gl a1
      (phoneStep li s lid (li.word (g.link lid).wid.toNat) (g.link lid).logp (rcOf lid) lcl st (1 + m)) := by
  have hp' := phoneStep_p ctx hb hr hp hm
  by_cases hi : 1 + m + 1 ≠ (li.word (g.link lid).wid.toNat).pron.length
  · cases hf : findChild st.nodes (li.internal (li.word (g.link lid).wid.toNat).dictWid (1 + m)) st.nodes.size (ndOf st.nodes st.pred).succ with
    | some q =>
      rw [phoneStep_found hi hf]
      exact ⟨hx.sd, hx.par, hx.leafNew⟩
    | none =>
      by_cases hm0 : m = 0
      · subst hm0
        rw [phoneStep_allocF hi hf rfl]
        obtain ⟨e, he, hel, _⟩ := hkey
        exact step_alloc_x hb hp.gx hx lcl ctx.hnd (fun r hr' => ctx.lcl_lt hp.gx hr')
          (fun r hr' => ctx.sameSucc hp.gx hr' (hp.predFirst rfl)) _ _ _ (Or.inl ⟨e, he, hel⟩)
      · rw [phoneStep_allocL hi hf (by omega)]
        exact step_alloc_x hb hp.gx hx [st.pred] (by simp)
          (fun r hr' => by rw [List.mem_singleton.1 hr']; exact hb.pred.1) (fun r hr' => by rw [List.mem_singleton.1 hr']) _ _ _
          (Or.inr ⟨st.pred, rfl, hp.predPar hlne (by omega) (by omega)⟩)
  · have hi' : 1 + m + 1 = (li.word (g.link lid).wid.toNat).pron.length := by omega
    have hlv : ∀ x ∈ lcl, Valid st.nodes s x := fun x hx' => (ctx.hlcl x hx').ext hb.ext
    by_cases hm0 : m = 0
    · subst hm0
      rw [phoneStep_leafF hi' rfl] at hp' ⊢
      exact step_leaf_x ctx hb hr hp hx (by omega) lcl ctx.hnd hlv (fun r hr' r' hr'' => ctx.sameSucc hp.gx hr' hr'') (Or.inl ⟨rfl, rfl⟩)
        hlne hkey hlid hp'
    · rw [phoneStep_leafL hi' (by omega), attachOne_eq] at hp' ⊢
      exact step_leaf_x ctx hb hr hp hx (by omega) [st.pred] (by simp)
        (fun x hx' => by rw [List.mem_singleton.1 hx']; exact hb.pred)
        (fun r hr' r' hr'' => by rw [List.mem_singleton.1 hr', List.mem_singleton.1 hr'']) (Or.inr ⟨rfl, by omega⟩) hlne hkey hlid hp'

end StepX

/-- the loop over the phones `1..n-1` of a multi-phone word, exact part -/
theorem phones_fold_x {g : Fsg} {li : LexIn} {tm : Nat → Nat} {s lid : Nat} {lcl : List Nat} {lcOf rcOf : Nat → List Nat}
    {gl : List GEntry} {a1 : Array PNode} (ctx : PhCtx g li tm s lid (li.word (g.link lid).wid.toNat) lcl gl a1) (inv : GInv g a1) (hr : Ranked a1)
    (gx : GX gl a1) (hk : IntKind li tm s gl [] a1) {pred : Nat} (hpred : pred ∈ lcl)
    (hkey : ∃ e ∈ gl, e.list = lcl ∧ e.ci = (li.word (g.link lid).wid.toNat).pron.headD 0 ∧ e.rc = (li.word (g.link lid).wid.toNat).pron.getD 1 0)
    (hlid : lid ∈ stateArcs g s) (hpar0 : ∀ x, x < a1.size → (ndOf a1 x).owner = s → ParOf gl a1 x) :
    PhX li g lcOf rcOf s gl a1 (((List.range (li.word (g.link lid).wid.toNat).pron.length).drop 1).foldl
      (phoneStep li s lid (li.word (g.link lid).wid.toNat) (g.link lid).logp (rcOf lid) lcl) { nodes := a1, pred }) := by
  have hlne : lcl ≠ [] := fun h0 => by rw [h0] at hpred; cases hpred
  rw [drop1_range]
  have h := fold_range'
    (fun m st => ((PhInv g s a1 st ∧ Ranked st.nodes ∧ Grow a1 st.nodes) ∧
      PhP g li tm s lid (li.word (g.link lid).wid.toNat) (g.link lid).logp (rcOf lid) lcl gl a1 m st) ∧ PhX li g lcOf rcOf s gl a1 st)
    (phoneStep li s lid (li.word (g.link lid).wid.toNat) (g.link lid).logp (rcOf lid) lcl) ((li.word (g.link lid).wid.toNat).pron.length - 1)
    { nodes := a1, pred }
    ⟨⟨⟨⟨inv, Ext.refl _, ctx.hlcl pred hpred⟩, hr, Grow.refl _⟩,
     ⟨gx, fun _ _ _ h => h, hk, fun _ => hpred, fun h => by omega,
      ⟨fun _ => 0, ⟨fun j h1 h2 => by omega, fun h => by omega, fun j h1 h2 => by omega⟩, fun h => by omega,
        fun h => by have := ctx.n2; omega⟩⟩⟩,
     ⟨Sd.refl _ _, hpar0, fun x h1 h2 => absurd h2 (Nat.not_lt.2 h1)⟩⟩
    (fun m st hm h' => ⟨⟨⟨phoneStep_inv ctx.hl ctx.hlcl st (1 + m) h'.1.1.1,
        phoneStep_ranked ctx.hl ctx.hlcl ctx.hnd st (1 + m) h'.1.1.1 h'.1.1.2.1,
        h'.1.1.2.2.trans (phoneStep_grow0 ctx.hl ctx.hlcl st (1 + m) h'.1.1.1 h'.1.1.2.1)⟩,
      phoneStep_p ctx h'.1.1.1 h'.1.1.2.1 h'.1.2 hm⟩,
      phoneStep_x ctx h'.1.1.1 h'.1.1.2.1 h'.1.2 h'.2 hm hlne hkey hlid⟩)
  exact h.2


end SSVerif.LexFlat
