import SSVerif.Proofs.LexFlatNodes
/-!
# The converse inclusion: the lextree the code builds has no root-to-leaf path beyond those of the flat network

`Proofs/LexFlatPaths.lean` proves that every (arc, left context, right context) has its root-to-leaf path; `Proofs/LexFlatNodes.lean`
that every pnode and context bit comes from a word arc.  Here: **every root-to-leaf path is the path of ONE word arc**
(`build_paths_sound`, and `bridge_paths` in the flat model's terms).

Exact (two-sided) facts about the construction, kept through every loop:
* `Sd g0 a a'` — a step gives no pnode `< g0` a new parent or context bit, and changes its `sibling` only if it is a child;
* `ParOf` — the parents of a pnode are none, or roots of ONE shared root set, or ONE pnode that has a parent itself; they are
  fixed when the pnode is hooked (`newInternal_exact`, `attachRoots_exact`);
* `RootNP` — the pnodes of the root chain are nobody's children;
* `GroupS` / `LeafRec` — the roots of a shared set are word-initial pnodes of the set's key; every leaf records its arc and, for a
  multi-phone word, the chain of word-internal pnodes it hangs under (`PathK` of the completeness proof).
`path_unique`: walking up from a leaf, a chain of parents that ends in a parentless pnode IS the recorded chain.  The paths of
an earlier state are untouched by later states (`PathsSound.later`).
-/
namespace SSVerif.LexFlat
open SSVerif.Search SSVerif.Hist

/-- no old pnode gets a new parent -/
def ParSub (a a' : Array PNode) : Prop := ∀ p x, x < a.size → Child a' p x → Child a p x

theorem ParSub.refl (a : Array PNode) : ParSub a a := fun _ _ _ h => h

theorem ParSub.trans {a b c : Array PNode} (h1 : ParSub a b) (h2 : ParSub b c) (hs : a.size ≤ b.size) : ParSub a c :=
  fun p x hx hc => h1 p x hx (h2 p x (Nat.lt_of_lt_of_le hx hs) hc)

theorem parSub_push {g : Fsg} {a : Array PNode} (inv : GInv g a) {n : PNode} (hn : n.succ = none) : ParSub a (a.push n) := by
  intro p x _ hc
  unfold Child at hc ⊢
  by_cases hp : p < a.size
  · rw [ndOf_push_lt a n hp] at hc
    exact reach_push_rev inv n hc (fun y hy => inv.succClosed hp hy)
  · by_cases hp2 : p = a.size
    · subst hp2
      rw [ndOf_push_eq, hn] at hc; cases hc
    · rw [ndOf_ge _ (by rw [Array.size_push]; omega)] at hc; cases hc

theorem parSub_addCtxt (a : Array PNode) (q c : Nat) : ParSub a (addCtxt a q c) := by
  intro p x _ hc
  unfold Child at hc ⊢
  rw [succ_addCtxt'] at hc
  exact reach_congr (a := addCtxt a q c) (a' := a) (fun q' => (sibling_addCtxt' a q c q').symm) hc

/-- the context sets of old pnodes are untouched -/
def CtxSame (a a' : Array PNode) : Prop := ∀ x, x < a.size → (ndOf a' x).ctxt = (ndOf a x).ctxt

theorem CtxSame.refl (a : Array PNode) : CtxSame a a := fun _ _ => rfl

theorem CtxSame.trans {a b c : Array PNode} (h1 : CtxSame a b) (h2 : CtxSame b c) (hs : a.size ≤ b.size) : CtxSame a c :=
  fun x hx => by rw [h2 x (Nat.lt_of_lt_of_le hx hs), h1 x hx]

theorem ctxSame_push (a : Array PNode) (n : PNode) : CtxSame a (a.push n) := fun x hx => by rw [ndOf_push_lt a n hx]

theorem ctxt_addCtxt_ne (a : Array PNode) {q x : Nat} (c : Nat) (h : q ≠ x) : (ndOf (addCtxt a q c) x).ctxt = (ndOf a x).ctxt := by
  by_cases hx : x < a.size
  · unfold addCtxt
    rw [ndOf_modify a q _ hx]
    simp [h]
  · rw [ndOf_ge _ (by rw [size_addCtxt]; omega), ndOf_ge _ (by omega)]

theorem ctxt_addCtxt_eq (a : Array PNode) {q : Nat} (hq : q < a.size) (c c' : Nat) :
    (ndOf (addCtxt a q c) q).ctxt.testBit c' = ((ndOf a q).ctxt.testBit c' || decide (c = c')) := by
  unfold addCtxt
  rw [ndOf_modify a q _ hq]
  simp only [if_true, Nat.testBit_or, testBit_bit]

theorem ctxSame_amod_ctxt (a : Array PNode) (p : Nat) (f : PNode → PNode) (hf : ∀ n, (f n).ctxt = n.ctxt) : CtxSame a (amod a p f) := by
  intro x hx
  rw [ndOf_modify a p f hx]
  split
  · exact hf _
  · rfl

theorem ctxSame_setSucc (a : Array PNode) (p : Nat) (q : Option Nat) : CtxSame a (setSucc a p q) := by
  unfold setSucc; exact ctxSame_amod_ctxt a p _ (fun _ => rfl)

theorem ctxSame_setSibling (a : Array PNode) (p : Nat) (q : Option Nat) : CtxSame a (setSibling a p q) := by
  unfold setSibling; exact ctxSame_amod_ctxt a p _ (fun _ => rfl)

/-! ### exact effect of the pointer updates on the child relation -/

theorem child_setSucc {a : Array PNode} {t : Nat} {q : Option Nat} {p x : Nat} (h : Child (setSucc a t q) p x) :
    (p = t ∧ Reach a q x) ∨ (p ≠ t ∧ Child a p x) := by
  unfold Child at h
  have h' := reach_congr (a := setSucc a t q) (a' := a) (fun q' => (sibling_setSucc' a t q q').symm) h
  by_cases hpt : t = p
  · subst hpt
    by_cases ht : t < a.size
    · rw [succ_setSucc a ht] at h'
      exact Or.inl ⟨rfl, h'⟩
    · rw [ndOf_ge _ (by rw [size_setSucc]; omega)] at h'; cases h'
  · rw [succ_setSucc_ne a q hpt] at h'
    exact Or.inr ⟨Ne.symm hpt, h'⟩

/-- after a link `t → h`, what is reached is reached as before, or through `t` and then from `h` -/
theorem reach_setSibling_via {a : Array PNode} {t : Nat} {h : Option Nat} : ∀ {o : Option Nat} {x : Nat},
    Reach (setSibling a t h) o x → Reach a o x ∨ (Reach a o t ∧ Reach a h x) := by
  intro o x hr
  induction hr with
  | here => exact Or.inl Reach.here
  | @next p x hpx ih =>
    by_cases hpt : p = t
    · subst hpt
      by_cases hp : p < a.size
      · rw [sibling_setSibling a hp] at ih
        rcases ih with h1 | ⟨_, h1⟩ <;> exact Or.inr ⟨Reach.here, h1⟩
      · rw [ndOf_ge _ (by unfold setSibling; rw [size_amod]; omega)] at hpx; cases hpx
    · have : (ndOf (setSibling a t h) p).sibling = (ndOf a p).sibling := by
        by_cases hp : p < a.size
        · unfold setSibling
          rw [ndOf_modify a t _ hp]
          simp [Ne.symm hpt]
        · unfold setSibling
          rw [ndOf_ge _ (by rw [size_amod]; omega), ndOf_ge _ (by omega)]
      rw [this] at ih
      rcases ih with h1 | ⟨h1, h2⟩
      · exact Or.inl (Reach.next h1)
      · exact Or.inr ⟨Reach.next h1, h2⟩

theorem child_setSibling {a : Array PNode} {t : Nat} {h : Option Nat} {p x : Nat} (hc : Child (setSibling a t h) p x) :
    Child a p x ∨ (Child a p t ∧ Reach a h x) := by
  unfold Child at hc ⊢
  rw [succ_setSibling'] at hc
  exact reach_setSibling_via hc

/-! ### hooking a leaf group: exact effect -/

/-- a chain that starts among the old pnodes `< g0`, whose siblings are old, stays among them -/
theorem reach_old {a : Array PNode} {g0 : Nat} (hold : ∀ x, x < g0 → ∀ y, (ndOf a x).sibling = some y → y < g0) :
    ∀ {o : Option Nat} {x : Nat}, Reach a o x → (∀ y, o = some y → y < g0) → x < g0 := by
  intro o x h
  induction h with
  | here => intro ho; exact ho _ rfl
  | @next p x _ ih => intro ho; exact ih (fun y hy => hold p (ho p rfl) y hy)

/-- pointers of the result of `attachRoots` when none of the pnodes has a child yet -/
theorem attachRoots_none_ptr (head : Option Nat) : ∀ (l : List Nat) (a : Array PNode), l.Nodup → (∀ r ∈ l, r < a.size) →
    (∀ r ∈ l, (ndOf a r).succ = none) →
    ∀ q, (ndOf (attachRoots a head l) q).sibling = (ndOf a q).sibling ∧ (ndOf (attachRoots a head l) q).ctxt = (ndOf a q).ctxt ∧
      (ndOf (attachRoots a head l) q).succ = (if q ∈ l then head else (ndOf a q).succ) := by
  intro l
  induction l with
  | nil => intro a _ _ _ q; simp [attachRoots]
  | cons r rest ih =>
    intro a hnd hl hnone q
    obtain ⟨hr_notin, hnd'⟩ := List.nodup_cons.1 hnd
    have hrl := hl r (List.mem_cons_self ..)
    have hrn := hnone r (List.mem_cons_self ..)
    simp only [attachRoots, hrn]
    obtain ⟨i1, i2, i3⟩ := ih (setSucc a r head) hnd' (fun x hx => by rw [size_setSucc]; exact hl x (List.mem_cons_of_mem _ hx))
      (fun x hx => by
        have hne : r ≠ x := fun h0 => hr_notin (by rw [h0]; exact hx)
        rw [succ_setSucc_ne a _ hne]; exact hnone x (List.mem_cons_of_mem _ hx)) q
    refine ⟨by rw [i1, sibling_setSucc'], ?_, ?_⟩
    · rw [i2]
      by_cases hq : q < a.size
      · exact ctxSame_setSucc a r head q hq
      · rw [ndOf_ge _ (by rw [size_setSucc]; omega), ndOf_ge _ (by omega)]
    · rw [i3]
      by_cases hqr : q = r
      · subst hqr
        simp only [hr_notin, if_false, List.mem_cons, true_or, if_true]
        exact succ_setSucc a hrl head
      · have : (q ∈ r :: rest) ↔ q ∈ rest := by simp [hqr]
        by_cases hqm : q ∈ rest
        · simp [hqm]
        · simp only [hqm, if_false, this]
          exact succ_setSucc_ne a head (Ne.symm hqr)

theorem reach_of_sibling_eq {a a' : Array PNode} (hs : ∀ q, (ndOf a' q).sibling = (ndOf a q).sibling) {o : Option Nat} {x : Nat} :
    Reach a' o x ↔ Reach a o x :=
  ⟨fun h => reach_congr (a := a') (a' := a) (fun q => (hs q).symm) h, fun h => reach_congr hs h⟩

/-- the exact counterpart of `Attached`: the group `head` (new pnodes `≥ g0`) hooked under the pnodes `l` that share the child
pointer `sv`; `t` = the end of their old child chain -/
structure AttachedX (a a' : Array PNode) (l : List Nat) (head : Option Nat) (g0 : Nat) (sv : Option Nat) : Prop where
  parSub : ∀ p x, x < g0 → Child a' p x → Child a p x
  ctx : CtxSame a a'
  newPar : ∀ p x, g0 ≤ x → Child a' p x → p ∈ l ∨ ∃ c, sv = some c ∧ Child a p (lastOf a a.size c)
  reachRev : ∀ o x, Reach a' o x → Reach a o x ∨ ∃ c, sv = some c ∧ Reach a o (lastOf a a.size c)
  sib : ∀ x, (ndOf a' x).sibling = (ndOf a x).sibling ∨ ∃ p, Child a p x

theorem attachRoots_exact {g : Fsg} {head : Option Nat} {g0 : Nat} (l : List Nat) (a : Array PNode) (inv : GInv g a) (hnd : l.Nodup)
    (hl : ∀ x ∈ l, x < a.size) (sv : Option Nat) (hsv : ∀ r ∈ l, (ndOf a r).succ = sv)
    (hnew : ∀ x, g0 ≤ x → x < a.size → ∀ y, (ndOf a x).sibling = some y → g0 ≤ y) (hhd : ∀ y, head = some y → g0 ≤ y ∧ y < a.size)
    (hchildOld : ∀ p x, Child a p x → x < g0) (hne : sv ≠ none → l ≠ []) :
    AttachedX a (attachRoots a head l) l head g0 sv := by
  have hheadnew : ∀ x, Reach a head x → g0 ≤ x := fun x hx => reach_new hnew (fun x hx y hy => inv.sibClosed hx hy) hx hhd
  cases sv with
  | none =>
    have hptr := attachRoots_none_ptr head l a hnd hl hsv
    have hreach : ∀ {o : Option Nat} {x : Nat}, Reach (attachRoots a head l) o x ↔ Reach a o x :=
      reach_of_sibling_eq (fun q => (hptr q).1)
    have hchild : ∀ p x, Child (attachRoots a head l) p x → (p ∈ l ∧ Reach a head x) ∨ (p ∉ l ∧ Child a p x) := by
      intro p x hc
      unfold Child at hc
      rw [(hptr p).2.2] at hc
      by_cases hp : p ∈ l
      · simp only [hp, if_true] at hc; exact Or.inl ⟨hp, hreach.1 hc⟩
      · simp only [hp, if_false] at hc; exact Or.inr ⟨hp, hreach.1 hc⟩
    refine ⟨?_, fun x _ => (hptr x).2.1, ?_, fun o x h => Or.inl (hreach.1 h), fun x => Or.inl (hptr x).1⟩
    · intro p x hx hc
      rcases hchild p x hc with ⟨_, h1⟩ | ⟨_, h1⟩
      · have := hheadnew x h1; omega
      · exact h1
    · intro p x hx hc
      rcases hchild p x hc with ⟨h1, _⟩ | ⟨_, h1⟩
      · exact Or.inl h1
      · have := hchildOld p x h1; omega
  | some c =>
    cases l with
    | nil => exact absurd rfl (hne (by simp))
    | cons r rest =>
      have hrs := hsv r (List.mem_cons_self ..)
      simp only [attachRoots, hrs]
      refine ⟨?_, ctxSame_setSibling _ _ _, ?_, ?_, ?_⟩
      rotate_left 3
      · intro x
        by_cases hx : x = lastOf a a.size c
        · exact Or.inr ⟨r, by unfold Child; rw [hrs, hx]; exact reach_lastOf a a.size c⟩
        · refine Or.inl ?_
          by_cases hxs : x < a.size
          · unfold setSibling
            rw [ndOf_modify a _ _ hxs]
            simp [Ne.symm hx]
          · unfold setSibling
            rw [ndOf_ge _ (by rw [size_amod]; omega), ndOf_ge _ (by omega)]
      · intro p x hx hc
        rcases child_setSibling hc with h1 | ⟨_, h1⟩
        · exact h1
        · have := hheadnew x h1; omega
      · intro p x hx hc
        rcases child_setSibling hc with h1 | ⟨h1, _⟩
        · have := hchildOld p x h1; omega
        · exact Or.inr ⟨c, rfl, h1⟩
      · intro o x hr
        rcases reach_setSibling_via hr with h1 | ⟨h1, _⟩
        · exact Or.inl h1
        · exact Or.inr ⟨c, rfl, h1⟩

/-! ### what a step of the construction does to the pnodes `< g0` -/

/-- no pnode `< g0` gets a new parent or a context bit; its `sibling` changes only if it is somebody's child -/
structure Sd (g0 : Nat) (a a' : Array PNode) : Prop where
  parSub : ∀ p x, x < g0 → Child a' p x → Child a p x
  ctx : ∀ x, x < g0 → (ndOf a' x).ctxt = (ndOf a x).ctxt
  sib : ∀ x, x < g0 → (ndOf a' x).sibling = (ndOf a x).sibling ∨ ∃ p, Child a p x

theorem Sd.refl (g0 : Nat) (a : Array PNode) : Sd g0 a a := ⟨fun _ _ _ h => h, fun _ _ => rfl, fun _ _ => Or.inl rfl⟩

theorem Sd.trans {g0 : Nat} {a b c : Array PNode} (h1 : Sd g0 a b) (h2 : Sd g0 b c) : Sd g0 a c := by
  refine ⟨fun p x hx hc => h1.parSub p x hx (h2.parSub p x hx hc), fun x hx => by rw [h2.ctx x hx, h1.ctx x hx], fun x hx => ?_⟩
  rcases h2.sib x hx with e2 | ⟨p, hp⟩
  · rcases h1.sib x hx with e1 | hp
    · exact Or.inl (by rw [e2, e1])
    · exact Or.inr hp
  · exact Or.inr ⟨p, h1.parSub p x hx hp⟩

theorem Sd.mono {g0 g1 : Nat} {a a' : Array PNode} (h : Sd g0 a a') (hg : g1 ≤ g0) : Sd g1 a a' :=
  ⟨fun p x hx => h.parSub p x (by omega), fun x hx => h.ctx x (by omega), fun x hx => h.sib x (by omega)⟩

theorem sd_push {g : Fsg} {a : Array PNode} (inv : GInv g a) {n : PNode} (hn : n.succ = none) : Sd a.size a (a.push n) :=
  ⟨parSub_push inv hn, ctxSame_push a n, fun x hx => Or.inl (by rw [ndOf_push_lt a n hx])⟩

theorem sd_addCtxt (a : Array PNode) {g0 q : Nat} (hq : g0 ≤ q) (c : Nat) : Sd g0 a (addCtxt a q c) :=
  ⟨fun p x _ hc => by
      unfold Child at hc ⊢
      rw [succ_addCtxt'] at hc
      exact reach_congr (a := addCtxt a q c) (a' := a) (fun q' => (sibling_addCtxt' a q c q').symm) hc,
   fun x hx => ctxt_addCtxt_ne a c (by omega), fun x _ => Or.inl (sibling_addCtxt' a q c x)⟩

theorem child_lt {a : Array PNode} {p x : Nat} (h : Child a p x) : p < a.size := by
  rcases Nat.lt_or_ge p a.size with h1 | h1
  · exact h1
  · unfold Child at h
    rw [ndOf_ge a h1] at h; cases h

/-- a chain of parentless pnodes `< g0` is the same chain after the step -/
theorem Sd.reachRev {g0 : Nat} {a a' : Array PNode} (h : Sd g0 a a') : ∀ {o : Option Nat} {x : Nat}, Reach a' o x →
    (∀ y, Reach a o y → NoPar a y ∧ y < g0) → Reach a o x := by
  intro o x hr
  induction hr with
  | here => intro _; exact Reach.here
  | @next p x hpx ih =>
    intro H
    obtain ⟨hnp, hlt⟩ := H p Reach.here
    rcases h.sib p hlt with e | ⟨q, hq⟩
    · rw [e] at ih
      exact Reach.next (ih (fun y hy => H y (Reach.next hy)))
    · exact absurd hq (hnp q)

/-- the new word-internal pnode `N = a.size` in front of the shared child chain of the pnodes `l`: no old pnode gets a new
parent, and the parents of `N` are exactly `l` -/
theorem newInternal_exact {g : Fsg} {a : Array PNode} (inv : GInv g a) (n : PNode) (hn : n.succ = none) (l : List Nat) (hnd : l.Nodup)
    (hl : ∀ r ∈ l, r < a.size) (hsv : ∀ r ∈ l, (ndOf a r).succ = n.sibling) :
    Sd a.size a (l.foldl (fun b r => setSucc b r (some a.size)) (a.push n)) ∧
    (∀ p, Child (l.foldl (fun b r => setSucc b r (some a.size)) (a.push n)) p a.size → p ∈ l) ∧
    ChildMono a (l.foldl (fun b r => setSucc b r (some a.size)) (a.push n)) := by
  have hsz : (a.push n).size = a.size + 1 := Array.size_push ..
  obtain ⟨cm1, sibSame, succAll, succOther⟩ := setSuccAll_spec a.size n.sibling l (a.push n) hnd
    (fun r hr => by rw [hsz]; have := hl r hr; omega) (fun r hr => by rw [ndOf_push_lt a n (hl r hr)]; exact hsv r hr)
    (by rw [ndOf_push_eq])
  have hreach : ∀ {o : Option Nat} {x : Nat}, Reach (l.foldl (fun b r => setSucc b r (some a.size)) (a.push n)) o x ↔ Reach (a.push n) o x :=
    reach_of_sibling_eq sibSame
  -- children of a pnode not in `l`
  have hother : ∀ p x, p ∉ l → Child (l.foldl (fun b r => setSucc b r (some a.size)) (a.push n)) p x → p < a.size ∧ Reach a (ndOf a p).succ x := by
    intro p x hp hc
    unfold Child at hc
    rw [succOther p hp] at hc
    have hc' := hreach.1 hc
    by_cases hp1 : p < a.size
    · rw [ndOf_push_lt a n hp1] at hc'
      exact ⟨hp1, reach_push_rev inv n hc' (fun y hy => inv.succClosed hp1 hy)⟩
    · by_cases hp2 : p = a.size
      · subst hp2; rw [ndOf_push_eq, hn] at hc'; cases hc'
      · rw [ndOf_ge _ (by rw [hsz]; omega)] at hc'; cases hc'
  refine ⟨⟨?_, ?_, ?_⟩, ?_, fun p hp x hx => cm1 p (by rw [hsz]; omega) x (childMono_push inv n p hp x hx)⟩
  · intro p x hx hc
    by_cases hp : p ∈ l
    · unfold Child at hc ⊢
      rw [succAll p hp] at hc
      have hc' := hreach.1 hc
      cases hc' with
      | here => omega
      | next h2 =>
        rw [ndOf_push_eq, ← hsv p hp] at h2
        exact reach_push_rev inv n h2 (fun y hy => inv.succClosed (hl p hp) hy)
    · exact (hother p x hp hc).2
  · intro x hx
    rw [view_ctxt (view_setSuccAll a.size x l (a.push n)), ndOf_push_lt a n hx]
  · intro x hx
    exact Or.inl (by rw [sibSame, ndOf_push_lt a n hx])
  · intro p hc
    by_cases hp : p ∈ l
    · exact hp
    · obtain ⟨h1, h2⟩ := hother p _ hp hc
      have := reach_lt inv h2 (fun y hy => inv.succClosed h1 hy)
      omega

/-! ### the invariants of the converse -/

theorem reach_valid {g : Fsg} {a : Array PNode} (inv : GInv g a) {s : Nat} : ∀ {o : Option Nat} {x : Nat}, Reach a o x → OValid a s o →
    Valid a s x := by
  intro o x h
  induction h with
  | here => intro ho; exact ho _ rfl
  | @next p x _ ih =>
    intro ho
    have hp := ho p rfl
    refine ih ?_
    have := (inv p hp.1).2.1
    rw [hp.2] at this; exact this

theorem child_valid {g : Fsg} {a : Array PNode} (inv : GInv g a) {s p x : Nat} (hp : (ndOf a p).owner = s) (hc : Child a p x) : Valid a s x := by
  refine reach_valid inv hc ?_
  have := (inv p (child_lt hc)).1
  rw [hp] at this; exact this

/-- the parents of pnode `x`: none; or roots of one shared set; or one pnode, which has a parent itself -/
def ParOf (gl : List GEntry) (a : Array PNode) (x : Nat) : Prop :=
  NoPar a x ∨ (∃ e ∈ gl, ∀ p, Child a p x → p ∈ e.list) ∨ (∃ p, (∀ p', Child a p' x → p' = p) ∧ ∃ p'', Child a p'' p)

theorem ParOf.step {gl : List GEntry} {a a' : Array PNode} {x g0 : Nat} (h : ParOf gl a x) (hx : x < g0) (sd : Sd g0 a a')
    (cm : ChildMono a a') : ParOf gl a' x := by
  rcases h with h | ⟨e, he, h⟩ | ⟨p, h, p'', hp⟩
  · exact Or.inl (fun p hc => h p (sd.parSub p x hx hc))
  · exact Or.inr (Or.inl ⟨e, he, fun p hc => h p (sd.parSub p x hx hc)⟩)
  · exact Or.inr (Or.inr ⟨p, fun p' hc => h p' (sd.parSub p' x hx hc), p'', cm p'' (child_lt hp) p hp⟩)

theorem ParOf.mono_gl {gl gl' : List GEntry} {a : Array PNode} {x : Nat} (h : ParOf gl a x) (hsub : ∀ e ∈ gl, e ∈ gl') : ParOf gl' a x := by
  rcases h with h | ⟨e, he, h⟩ | h
  · exact Or.inl h
  · exact Or.inr (Or.inl ⟨e, hsub e he, h⟩)
  · exact Or.inr (Or.inr h)

/-- the pnodes of the root chain are nobody's children -/
def RootNP (a : Array PNode) (root : Option Nat) : Prop := ∀ x, Reach a root x → NoPar a x

theorem RootNP.step {a a' : Array PNode} {root : Option Nat} {g0 : Nat} (h : RootNP a root) (sd : Sd g0 a a')
    (hlt : ∀ y, Reach a root y → y < g0) : RootNP a' root := by
  intro x hx p hc
  have hr := sd.reachRev hx (fun y hy => ⟨h y hy, hlt y hy⟩)
  exact h x hr p (sd.parSub p x (hlt x hr) hc)

theorem RootNP.pushRoot {g : Fsg} {a : Array PNode} {root : Option Nat} (h : RootNP a root) (inv : GInv g a)
    (hroot : ∀ y, root = some y → y < a.size) {n : PNode} (hn : n.succ = none) (hs : n.sibling = root) : RootNP (a.push n) (some a.size) := by
  intro x hx
  cases hx with
  | here => exact noPar_new inv hn
  | next h2 =>
    rw [ndOf_push_eq, hs] at h2
    exact noPar_push inv hn (h x (reach_push_rev inv n h2 hroot))

theorem RootNP.ctxt {a : Array PNode} {root : Option Nat} (h : RootNP a root) (q c : Nat) : RootNP (addCtxt a q c) root := by
  intro x hx
  exact noPar_addCtxt q c (h x (reach_congr (a := addCtxt a q c) (a' := a) (fun q' => (sibling_addCtxt' a q c q').symm) hx))

section Recs
variable (li : LexIn) (g : Fsg) (lcOf rcOf : Nat → List Nat)

/-- the roots of the shared sets are word-initial pnodes of their key -/
def GroupS (s : Nat) (gl : List GEntry) (a : Array PNode) : Prop :=
  ∀ e ∈ gl, ∀ r ∈ e.list, RootS li (lcOf s) s e.ci e.rc (ndOf a r)

/-- what is recorded about a leaf `x` of state `s`: the arc it carries; a single-phone word's leaf is nobody's child; the leaf
of a word of `n ≥ 2` phones hangs at the end of the chain of word-internal pnodes chosen for the word, under its root set -/
def LeafRec (s : Nat) (gl : List GEntry) (a : Array PNode) (x : Nat) : Prop :=
  ∃ lid, lid ∈ stateArcs g s ∧ (
    ((li.word (g.link lid).wid.toNat).pron.length = 1 ∧ NoPar a x ∧
      (((li.word (g.link lid).wid.toNat).dictFiller = false ∧ SingleS li g (lcOf s) s lid (ndOf a x)) ∨
       ((li.word (g.link lid).wid.toNat).dictFiller = true ∧ FillerS li g s lid (ndOf a x)))) ∨
    (2 ≤ (li.word (g.link lid).wid.toNat).pron.length ∧
      LeafS li (rcOf lid) s lid ((li.word (g.link lid).wid.toNat).pron.getD ((li.word (g.link lid).wid.toNat).pron.length - 1) 0)
        ((li.word (g.link lid).wid.toNat).pron.getD ((li.word (g.link lid).wid.toNat).pron.length - 1 - 1) 0) (g.link lid).logp (ndOf a x) ∧
      ∃ e ∈ gl, e.ci = (li.word (g.link lid).wid.toNat).pron.headD 0 ∧ e.rc = (li.word (g.link lid).wid.toNat).pron.getD 1 0 ∧
        ∃ qf : Nat → Nat, PathK li (li.word (g.link lid).wid.toNat) e.list a qf ((li.word (g.link lid).wid.toNat).pron.length - 2) ∧
          ((li.word (g.link lid).wid.toNat).pron.length - 2 = 0 → ∀ r ∈ e.list, Child a r x) ∧
          (1 ≤ (li.word (g.link lid).wid.toNat).pron.length - 2 → Child a (qf ((li.word (g.link lid).wid.toNat).pron.length - 2)) x)))

variable {li g lcOf rcOf}

theorem view_of {a a' : Array PNode} {x g0 : Nat} (gr : Grow a a') (sd : Sd g0 a a') (hx : x < g0) (hxs : x < a.size) :
    view (ndOf a' x) = view (ndOf a x) := by
  unfold view
  rw [gr.stable x hxs, sd.ctx x hx]

theorem GroupS.step {s : Nat} {gl : List GEntry} {a a' : Array PNode} {g0 : Nat} (h : GroupS li lcOf s gl a) (gr : Grow a a') (sd : Sd g0 a a')
    (hlt : ∀ e ∈ gl, ∀ r ∈ e.list, r < g0 ∧ r < a.size) : GroupS li lcOf s gl a' :=
  fun e he r hr => (h e he r hr).congr (view_of gr sd (hlt e he r hr).1 (hlt e he r hr).2)

theorem LeafRec.step {s : Nat} {gl : List GEntry} {a a' : Array PNode} {x g0 : Nat} (h : LeafRec li g lcOf rcOf s gl a x) (hx : x < g0)
    (hxs : x < a.size) (gr : Grow a a') (sd : Sd g0 a a') (cm : ChildMono a a') (hlt : ∀ e ∈ gl, ∀ r ∈ e.list, r < a.size) :
    LeafRec li g lcOf rcOf s gl a' x := by
  have hv := view_of gr sd hx hxs
  obtain ⟨lid, hm, hk⟩ := h
  refine ⟨lid, hm, ?_⟩
  rcases hk with ⟨h1, h2, h3⟩ | ⟨h1, h2, e, he, h3, h4, qf, h5, h6, h7⟩
  · refine Or.inl ⟨h1, fun p hc => h2 p (sd.parSub p x hx hc), ?_⟩
    rcases h3 with ⟨h4, h5⟩ | ⟨h4, h5⟩
    · exact Or.inl ⟨h4, h5.congr hv⟩
    · exact Or.inr ⟨h4, h5.congr hv⟩
  · refine Or.inr ⟨h1, h2.congr hv, e, he, h3, h4, qf, h5.mono gr cm (hlt e he), fun h0 r hr => cm r (hlt e he r hr) x (h6 h0 r hr),
      fun h0 => cm _ (h5.data _ h0 (Nat.le_refl _)).1 x (h7 h0)⟩

theorem LeafRec.mono_gl {s : Nat} {gl gl' : List GEntry} {a : Array PNode} {x : Nat} (h : LeafRec li g lcOf rcOf s gl a x)
    (hsub : ∀ e ∈ gl, e ∈ gl') : LeafRec li g lcOf rcOf s gl' a x := by
  obtain ⟨lid, hm, hk⟩ := h
  refine ⟨lid, hm, ?_⟩
  rcases hk with h1 | ⟨h1, h2, e, he, h3⟩
  · exact Or.inl h1
  · exact Or.inr ⟨h1, h2, e, hsub e he, h3⟩

end Recs

/-! ### the word-final loop, exact part -/

structure RcX (a0 : Array PNode) (st : RcSt) : Prop where
  sd : Sd a0.size a0 st.nodes
  allNew : ∀ x, a0.size ≤ x → x < st.nodes.size → x ∈ st.rcl
  newSucc : ∀ x, a0.size ≤ x → x < st.nodes.size → (ndOf st.nodes x).succ = none

theorem leafStep_x {g : Fsg} {li : LexIn} {s lid ci lc p : Nat} {logp : Int} {a0 : Array PNode} {done : List Nat} (st : RcSt) (rc : Nat)
    (h : RcInv g s a0 st) (hr : RcR a0 st) (hg : RcG li s lid ci lc p logp done st) (hx : RcX a0 st) :
    RcX a0 (leafStep li s lid ci lc p logp st rc) := by
  unfold leafStep
  split
  · rename_i q hq
    have hq0 : a0.size ≤ q := hr.rclNew q (hg.rmap _ (lookup_mem hq)).1
    refine ⟨hx.sd.trans (sd_addCtxt _ hq0 rc), fun x h1 h2 => hx.allNew x h1 (by rw [size_addCtxt] at h2; exact h2), fun x h1 h2 => ?_⟩
    rw [succ_addCtxt']; exact hx.newSucc x h1 (by rw [size_addCtxt] at h2; exact h2)
  · have hsz : (st.nodes.push (leafNode li s lid ci lc p logp st.rcl.head? rc)).size = st.nodes.size + 1 := Array.size_push ..
    refine ⟨hx.sd.trans (((sd_push h.inv rfl).mono hr.size).trans (sd_addCtxt _ hr.size rc)), ?_, ?_⟩
    · intro x h1 h2
      rw [size_addCtxt, hsz] at h2
      by_cases hxe : x = st.nodes.size
      · rw [hxe]; exact List.mem_cons_self ..
      · exact List.mem_cons_of_mem _ (hx.allNew x h1 (by omega))
    · intro x h1 h2
      rw [size_addCtxt, hsz] at h2
      rw [succ_addCtxt']
      by_cases hxe : x = st.nodes.size
      · rw [hxe, ndOf_push_eq]; rfl
      · rw [ndOf_push_lt _ _ (by omega)]; exact hx.newSucc x h1 (by omega)

theorem leafFold_x {g : Fsg} {li : LexIn} {s lid ci lc p : Nat} {logp : Int} (a : Array PNode)
    (hl : lid < g.links.size ∧ (g.link lid).src = s ∧ 0 ≤ (g.link lid).wid) (inv : GInv g a) (hr : Ranked a) (rclist : List Nat) :
    RcX a (rclist.foldl (leafStep li s lid ci lc p logp) { nodes := a }) := by
  have h := foldl_inv_prefix
    (fun done st' => (RcInv g s a st' ∧ RcR a st') ∧ RcG li s lid ci lc p logp done st' ∧ RcX a st')
    (leafStep li s lid ci lc p logp) rclist [] { nodes := a }
    ⟨⟨⟨inv, Ext.refl _, nil_all, nil_all⟩,
      ⟨hr, Nat.le_refl _, fun _ _ => rfl, fun _ _ => rfl, fun x h1 h2 => absurd h2 (Nat.not_lt.2 h1), nil_all⟩⟩,
     ⟨nil_all, nil_all, nil_all, nil_all⟩, ⟨Sd.refl _ _, fun x h1 h2 => absurd h2 (Nat.not_lt.2 h1), fun x h1 h2 => absurd h2 (Nat.not_lt.2 h1)⟩⟩
    (fun d st' rc _ h' => ⟨⟨leafStep_inv hl st' rc h'.1.1, leafStep_ranked st' rc h'.1.1 h'.1.2⟩,
      leafStep_g st' rc h'.1.1 h'.2.1, leafStep_x st' rc h'.1.1 h'.1.2 h'.2.1 h'.2.2⟩)
  exact h.2.2

/-! ### the loop over the phones, exact part -/

structure PhX (li : LexIn) (g : Fsg) (lcOf rcOf : Nat → List Nat) (s : Nat) (gl : List GEntry) (a1 : Array PNode) (st : PhSt) : Prop where
  sd : Sd a1.size a1 st.nodes
  par : ∀ x, x < st.nodes.size → (ndOf st.nodes x).owner = s → ParOf gl st.nodes x
  leafNew : ∀ x, a1.size ≤ x → x < st.nodes.size → (ndOf st.nodes x).leaf = true → LeafRec li g lcOf rcOf s gl st.nodes x

section StepX
variable {g : Fsg} {li : LexIn} {tm : Nat → Nat} {s lid : Nat} {w : WordInfo} {logp : Int} {rclist lcl : List Nat} {gl : List GEntry}
  {a1 : Array PNode} {m : Nat} {st : PhSt} {lcOf rcOf : Nat → List Nat}

theorem PhP.predPar (hp : PhP g li tm s lid w logp rclist lcl gl a1 m st) (hne : lcl ≠ []) (h1 : 1 ≤ m) (h2 : m ≤ w.pron.length - 2) :
    ∃ p, Child st.nodes p st.pred := by
  obtain ⟨qf, hpath, hpred, _⟩ := hp.path
  have hmin : min m (w.pron.length - 2) = m := by omega
  rw [hmin] at hpath hpred
  rw [hpred h1]
  obtain ⟨m', rfl⟩ : ∃ m', m = m' + 1 := ⟨m - 1, by omega⟩
  by_cases hm0 : m' = 0
  · subst hm0
    cases hl : lcl with
    | nil => exact absurd hl hne
    | cons r rest => exact ⟨r, hpath.first (by omega) r (by rw [hl]; exact List.mem_cons_self ..)⟩
  · exact ⟨qf m', hpath.link m' (by omega) (by omega)⟩

/-- a new word-internal pnode under the pnodes `l` (the root set, or the one predecessor) -/
theorem step_alloc_x (hb : PhInv g s a1 st) (gx : GX gl st.nodes) (hx : PhX li g lcOf rcOf s gl a1 st) (l : List Nat) (hnd : l.Nodup)
    (hl : ∀ r ∈ l, r < st.nodes.size) (hsv : ∀ r ∈ l, (ndOf st.nodes r).succ = (ndOf st.nodes st.pred).succ) (ci p dw : Nat)
    (hparN : (∃ e ∈ gl, e.list = l) ∨ (∃ q, l = [q] ∧ ∃ p'', Child st.nodes p'' q)) :
    PhX li g lcOf rcOf s gl a1
      { nodes := l.foldl (fun b r => setSucc b r (some st.nodes.size)) (st.nodes.push (internalNode li s ci p dw (ndOf st.nodes st.pred).succ)),
        pred := st.nodes.size } := by
  obtain ⟨sdStep, parentsN, cm⟩ := newInternal_exact hb.inv (internalNode li s ci p dw (ndOf st.nodes st.pred).succ) rfl l hnd hl hsv
  have gr : Grow st.nodes (l.foldl (fun b r => setSucc b r (some st.nodes.size)) (st.nodes.push (internalNode li s ci p dw (ndOf st.nodes st.pred).succ))) :=
    (grow_push hb.inv _).trans (grow_setSuccAll _ l _)
  have hsz : (l.foldl (fun b r => setSucc b r (some st.nodes.size)) (st.nodes.push (internalNode li s ci p dw (ndOf st.nodes st.pred).succ))).size =
      st.nodes.size + 1 := by rw [size_setSuccAll, Array.size_push]
  have hN : view (ndOf (l.foldl (fun b r => setSucc b r (some st.nodes.size)) (st.nodes.push (internalNode li s ci p dw (ndOf st.nodes st.pred).succ))) st.nodes.size) =
      view (internalNode li s ci p dw (ndOf st.nodes st.pred).succ) := by rw [view_setSuccAll, ndOf_push_eq]
  refine ⟨hx.sd.trans (sdStep.mono hb.ext.1), ?_, ?_⟩
  · intro x hxs hown
    simp only at hxs hown ⊢
    rw [hsz] at hxs
    by_cases hlt : x < st.nodes.size
    · have hown' : (ndOf st.nodes x).owner = s := by rw [← (core_fields (gr.stable x hlt)).1]; exact hown
      exact (hx.par x hlt hown').step hlt sdStep cm
    · have hxe : x = st.nodes.size := by omega
      subst hxe
      rcases hparN with ⟨e, he, hel⟩ | ⟨q, hq, p'', hpp⟩
      · exact Or.inr (Or.inl ⟨e, he, fun p' hc => by rw [hel]; exact parentsN p' hc⟩)
      · refine Or.inr (Or.inr ⟨q, fun p' hc => ?_, p'', cm p'' (child_lt hpp) q hpp⟩)
        have := parentsN p' hc
        rw [hq] at this
        exact List.mem_singleton.1 this
  · intro x h1 hxs hleaf
    simp only at hxs hleaf ⊢
    rw [hsz] at hxs
    by_cases hlt : x < st.nodes.size
    · have hleaf' : (ndOf st.nodes x).leaf = true := by rw [← (core_fields (gr.stable x hlt)).2.1]; exact hleaf
      exact (hx.leafNew x h1 hlt hleaf').step hlt hlt gr sdStep cm gx.lt
    · have hxe : x = st.nodes.size := by omega
      subst hxe
      rw [(core_fields (view_core hN)).2.1] at hleaf
      cases hleaf

/-- the word-final step: the new leaves' parents are exactly `l` (the root set, or the one predecessor) -/
theorem step_leaf_x (ctx : PhCtx g li tm s lid (li.word (g.link lid).wid.toNat) lcl gl a1) (hb : PhInv g s a1 st) (hr : Ranked st.nodes)
    (hp : PhP g li tm s lid (li.word (g.link lid).wid.toNat) (g.link lid).logp (rcOf lid) lcl gl a1 m st)
    (hx : PhX li g lcOf rcOf s gl a1 st) (hm : m + 2 = (li.word (g.link lid).wid.toNat).pron.length) (l : List Nat) (hnd : l.Nodup)
    (hlv : ∀ x ∈ l, Valid st.nodes s x) (hsame : ∀ r ∈ l, ∀ r' ∈ l, (ndOf st.nodes r).succ = (ndOf st.nodes r').succ)
    (hkind : (l = lcl ∧ m = 0) ∨ (l = [st.pred] ∧ 1 ≤ m)) (hlne : lcl ≠ [])
    (hkey : ∃ e ∈ gl, e.list = lcl ∧ e.ci = (li.word (g.link lid).wid.toNat).pron.headD 0 ∧ e.rc = (li.word (g.link lid).wid.toNat).pron.getD 1 0)
    (hlid : lid ∈ stateArcs g s)
    (hp' : PhP g li tm s lid (li.word (g.link lid).wid.toNat) (g.link lid).logp (rcOf lid) lcl gl a1 (m + 1)
      { nodes := attachRoots ((rcOf lid).foldl (leafStep li s lid ((li.word (g.link lid).wid.toNat).pron.getD (1 + m) 0)
            ((li.word (g.link lid).wid.toNat).pron.getD (1 + m - 1) 0) (1 + m) (g.link lid).logp) { nodes := st.nodes }).nodes
          ((rcOf lid).foldl (leafStep li s lid ((li.word (g.link lid).wid.toNat).pron.getD (1 + m) 0)
            ((li.word (g.link lid).wid.toNat).pron.getD (1 + m - 1) 0) (1 + m) (g.link lid).logp) { nodes := st.nodes }).rcl.head? l,
        pred := st.pred }) :
    PhX li g lcOf rcOf s gl a1
      { nodes := attachRoots ((rcOf lid).foldl (leafStep li s lid ((li.word (g.link lid).wid.toNat).pron.getD (1 + m) 0)
            ((li.word (g.link lid).wid.toNat).pron.getD (1 + m - 1) 0) (1 + m) (g.link lid).logp) { nodes := st.nodes }).nodes
          ((rcOf lid).foldl (leafStep li s lid ((li.word (g.link lid).wid.toNat).pron.getD (1 + m) 0)
            ((li.word (g.link lid).wid.toNat).pron.getD (1 + m - 1) 0) (1 + m) (g.link lid).logp) { nodes := st.nodes }).rcl.head? l,
        pred := st.pred } := by
  obtain ⟨⟨hI, hR⟩, hQ, hG, hK, hRG⟩ := leafFold_all (li := li) (tm := tm) (gl := gl) (ci := (li.word (g.link lid).wid.toNat).pron.getD (1 + m) 0)
    (lc := (li.word (g.link lid).wid.toNat).pron.getD (1 + m - 1) 0) (p := 1 + m) (logp := (g.link lid).logp) st.nodes ctx.hl hb.inv hr hp.kind (rcOf lid)
  have hRX := leafFold_x (li := li) (ci := (li.word (g.link lid).wid.toNat).pron.getD (1 + m) 0)
    (lc := (li.word (g.link lid).wid.toNat).pron.getD (1 + m - 1) 0) (p := 1 + m) (logp := (g.link lid).logp) st.nodes ctx.hl hb.inv hr (rcOf lid)
  have hLS := leafFold_s (li := li) (rclist := rcOf lid) (s := s) (lid := lid) (ci := (li.word (g.link lid).wid.toNat).pron.getD (1 + m) 0)
    (lc := (li.word (g.link lid).wid.toNat).pron.getD (1 + m - 1) 0) (p := 1 + m) (logp := (g.link lid).logp) st.nodes
  generalize hRdef : (rcOf lid).foldl (leafStep li s lid ((li.word (g.link lid).wid.toNat).pron.getD (1 + m) 0)
      ((li.word (g.link lid).wid.toNat).pron.getD (1 + m - 1) 0) (1 + m) (g.link lid).logp) { nodes := st.nodes } = R at *
  have hhd : ∀ y, R.rcl.head? = some y → st.nodes.size ≤ y ∧ y < R.nodes.size :=
    fun y hy => ⟨hR.rclNew y (head?_mem hy), (hI.rcl y (head?_mem hy)).1⟩
  obtain ⟨r0, hr0⟩ : ∃ r0, r0 ∈ l := by
    rcases hkind with ⟨h1, _⟩ | ⟨h1, _⟩
    · rw [h1]
      cases hl : lcl with
      | nil => exact absurd hl hlne
      | cons y ys => exact ⟨y, List.mem_cons_self ..⟩
    · rw [h1]; exact ⟨st.pred, List.mem_singleton.2 rfl⟩
  have hsv : ∀ r ∈ l, (ndOf R.nodes r).succ = (ndOf st.nodes r0).succ := fun r hr' => by
    rw [hQ.succ r (hlv r hr').1]; exact hsame r hr' r0 hr0
  obtain ⟨v, hA⟩ := attachRoots_attached (s := s) (g0 := st.nodes.size) l _ hI.inv hR.ranked hnd (fun x hx' => (hlv x hx').ext hI.ext) _ hsv
    (fun x hx' => hI.rcl x (head?_mem hx')) hR.sibNew hhd
  -- children in `R.nodes` are old
  have hold : ∀ x, x < st.nodes.size → ∀ y, (ndOf R.nodes x).sibling = some y → y < st.nodes.size := fun x hx' y hy => by
    rw [hR.sibOld x hx'] at hy; exact hb.inv.sibClosed hx' hy
  have hchildOld : ∀ p x, Child R.nodes p x → x < st.nodes.size := by
    intro p x hc
    by_cases hp1 : p < st.nodes.size
    · unfold Child at hc
      rw [hR.succOld p hp1] at hc
      exact reach_old hold hc (fun y hy => hb.inv.succClosed hp1 hy)
    · unfold Child at hc
      rw [hRX.newSucc p (by omega) (child_lt hc)] at hc; cases hc
  have hAX := attachRoots_exact l R.nodes hI.inv hnd (fun x hx' => ((hlv x hx').ext hI.ext).1) _ hsv hR.sibNew hhd hchildOld
    (fun _ h0 => by rw [h0] at hr0; cases hr0)
  have sdA : Sd st.nodes.size R.nodes (attachRoots R.nodes R.rcl.head? l) :=
    ⟨hAX.parSub, fun x hx' => hAX.ctx x (Nat.lt_of_lt_of_le hx' hQ.size), fun x _ => hAX.sib x⟩
  have sdStep : Sd st.nodes.size st.nodes (attachRoots R.nodes R.rcl.head? l) := hRX.sd.trans sdA
  have gr : Grow st.nodes (attachRoots R.nodes R.rcl.head? l) := hG.trans hA.grow
  have cm : ChildMono st.nodes (attachRoots R.nodes R.rcl.head? l) :=
    fun p hp1 x hx' => hA.child p (Nat.lt_of_lt_of_le hp1 hQ.size) x (hQ.child p hp1 x hx')
  have hsz : (attachRoots R.nodes R.rcl.head? l).size = R.nodes.size := size_attachRoots _ _ _
  obtain ⟨e, he, hel, heci, herc⟩ := hkey
  -- the parents of a new leaf are in `l`
  have hpar : ∀ x, st.nodes.size ≤ x → ∀ p, Child (attachRoots R.nodes R.rcl.head? l) p x → p ∈ l := by
    intro x hge p hc
    rcases hAX.newPar p x hge hc with h1 | ⟨c, hsvc, hct⟩
    · exact h1
    · have hc0 : Child R.nodes r0 (lastOf R.nodes R.nodes.size c) := by
        unfold Child; rw [hsv r0 hr0, hsvc]; exact reach_lastOf _ _ _
      have ht := hchildOld _ _ hc0
      have hc0' := hRX.sd.parSub _ _ ht hc0
      have hct' := hRX.sd.parSub _ _ ht hct
      have htv := child_valid hb.inv (hlv r0 hr0).2 hc0'
      rcases hx.par _ ht htv.2 with d1 | ⟨e', he', d2⟩ | ⟨ps, d3, p'', hpp⟩
      · exact absurd hc0' (d1 r0)
      · rcases hkind with ⟨h1, _⟩ | ⟨h1, h2⟩
        · have := hp.gx.disj e' he' e he r0 (d2 r0 hc0') (by rw [hel, ← h1]; exact hr0)
          rw [h1, ← hel, ← this]; exact d2 p hct'
        · rw [h1] at hr0
          have hr0' : r0 = st.pred := List.mem_singleton.1 hr0
          exact absurd (hr0' ▸ d2 r0 hc0') (hp.predLater h2 (by omega) e' he')
      · rcases hkind with ⟨h1, _⟩ | ⟨h1, h2⟩
        · have : r0 = ps := d3 r0 hc0'
          exact absurd hpp (this ▸ hp.gx.noPar e he r0 (by rw [hel, ← h1]; exact hr0) p'')
        · have e1 : r0 = ps := d3 r0 hc0'
          have e2 : p = ps := d3 p hct'
          rw [e2, ← e1]; exact hr0
  refine ⟨hx.sd.trans (sdStep.mono hb.ext.1), ?_, ?_⟩
  · intro x hxs hown
    simp only at hxs hown ⊢
    rw [hsz] at hxs
    by_cases hlt : x < st.nodes.size
    · have hown' : (ndOf st.nodes x).owner = s := by rw [← (core_fields (gr.stable x hlt)).1]; exact hown
      exact (hx.par x hlt hown').step hlt sdStep cm
    · rcases hkind with ⟨h1, _⟩ | ⟨h1, h2⟩
      · exact Or.inr (Or.inl ⟨e, he, fun p' hc => by rw [hel, ← h1]; exact hpar x (by omega) p' hc⟩)
      · obtain ⟨p'', hpp⟩ := hp.predPar hlne h2 (by omega)
        refine Or.inr (Or.inr ⟨st.pred, fun p' hc => ?_, p'', cm p'' (child_lt hpp) _ hpp⟩)
        have := hpar x (by omega) p' hc
        rw [h1] at this
        exact List.mem_singleton.1 this
  · intro x h1 hxs hleaf
    simp only at hxs hleaf ⊢
    rw [hsz] at hxs
    by_cases hlt : x < st.nodes.size
    · have hleaf' : (ndOf st.nodes x).leaf = true := by rw [← (core_fields (gr.stable x hlt)).2.1]; exact hleaf
      exact (hx.leafNew x h1 hlt hleaf').step hlt hlt gr sdStep cm hp.gx.lt
    · have hxr := hRX.allNew x (by omega) hxs
      have hreach := hRG.headReach x hxr
      obtain ⟨qf, hpath, hpred, _⟩ := hp'.path
      have hmin' : min (m + 1) ((li.word (g.link lid).wid.toNat).pron.length - 2) = (li.word (g.link lid).wid.toNat).pron.length - 2 := by omega
      rw [hmin'] at hpath hpred
      have e1 : 1 + m = (li.word (g.link lid).wid.toNat).pron.length - 1 := by omega
      refine ⟨lid, hlid, Or.inr ⟨by omega, ?_, e, he, heci, herc, qf, by rw [hel]; exact hpath, ?_, ?_⟩⟩
      · rw [← e1]
        exact (hLS.new x (by omega) hxs).congr (view_attachRoots _ x _ _)
      · intro h0 r hr'
        rcases hkind with ⟨h2, _⟩ | ⟨_, h2⟩
        · exact hA.kids r (by rw [h2, ← hel]; exact hr') x hreach
        · omega
      · intro h0
        rcases hkind with ⟨_, h2⟩ | ⟨h2, _⟩
        · omega
        · have hpe : st.pred = qf ((li.word (g.link lid).wid.toNat).pron.length - 2) := hpred h0
          rw [← hpe]
          exact hA.kids st.pred (by rw [h2]; exact List.mem_singleton.2 rfl) x hreach

theorem phoneStep_x (ctx : PhCtx g li tm s lid (li.word (g.link lid).wid.toNat) lcl gl a1) (hb : PhInv g s a1 st) (hr : Ranked st.nodes)
    (hp : PhP g li tm s lid (li.word (g.link lid).wid.toNat) (g.link lid).logp (rcOf lid) lcl gl a1 m st)
    (hx : PhX li g lcOf rcOf s gl a1 st) (hm : m < (li.word (g.link lid).wid.toNat).pron.length - 1) (hlne : lcl ≠ [])
    (hkey : ∃ e ∈ gl, e.list = lcl ∧ e.ci = (li.word (g.link lid).wid.toNat).pron.headD 0 ∧ e.rc = (li.word (g.link lid).wid.toNat).pron.getD 1 0)
    (hlid : lid ∈ stateArcs g s) :
    PhX li g lcOf rcOf s gl a1
      (phoneStep li s lid (li.word (g.link lid).wid.toNat) (g.link lid).logp (rcOf lid) lcl st (1 + m)) := by
  have hp' := phoneStep_p ctx hb hr hp hm
  by_cases hi : 1 + m + 1 ≠ (li.word (g.link lid).wid.toNat).pron.length
  · cases hf : findChild st.nodes (li.internal (li.word (g.link lid).wid.toNat).dictWid (1 + m)) st.nodes.size (ndOf st.nodes st.pred).succ with
    | some q =>
      rw [phoneStep_found hi hf]
      exact ⟨hx.sd, hx.par, hx.leafNew⟩
    | none =>
      by_cases hm0 : m = 0
      · subst hm0
        rw [phoneStep_allocF hi hf rfl]
        obtain ⟨e, he, hel, _⟩ := hkey
        exact step_alloc_x hb hp.gx hx lcl ctx.hnd (fun r hr' => ctx.lcl_lt hp.gx hr')
          (fun r hr' => ctx.sameSucc hp.gx hr' (hp.predFirst rfl)) _ _ _ (Or.inl ⟨e, he, hel⟩)
      · rw [phoneStep_allocL hi hf (by omega)]
        exact step_alloc_x hb hp.gx hx [st.pred] (by simp)
          (fun r hr' => by rw [List.mem_singleton.1 hr']; exact hb.pred.1) (fun r hr' => by rw [List.mem_singleton.1 hr']) _ _ _
          (Or.inr ⟨st.pred, rfl, hp.predPar hlne (by omega) (by omega)⟩)
  · have hi' : 1 + m + 1 = (li.word (g.link lid).wid.toNat).pron.length := by omega
    have hlv : ∀ x ∈ lcl, Valid st.nodes s x := fun x hx' => (ctx.hlcl x hx').ext hb.ext
    by_cases hm0 : m = 0
    · subst hm0
      rw [phoneStep_leafF hi' rfl] at hp' ⊢
      exact step_leaf_x ctx hb hr hp hx (by omega) lcl ctx.hnd hlv (fun r hr' r' hr'' => ctx.sameSucc hp.gx hr' hr'') (Or.inl ⟨rfl, rfl⟩)
        hlne hkey hlid hp'
    · rw [phoneStep_leafL hi' (by omega), attachOne_eq] at hp' ⊢
      exact step_leaf_x ctx hb hr hp hx (by omega) [st.pred] (by simp)
        (fun x hx' => by rw [List.mem_singleton.1 hx']; exact hb.pred)
        (fun r hr' r' hr'' => by rw [List.mem_singleton.1 hr', List.mem_singleton.1 hr'']) (Or.inr ⟨rfl, by omega⟩) hlne hkey hlid hp'

end StepX

/-- the loop over the phones `1..n-1` of a multi-phone word, exact part -/
theorem phones_fold_x {g : Fsg} {li : LexIn} {tm : Nat → Nat} {s lid : Nat} {lcl : List Nat} {lcOf rcOf : Nat → List Nat}
    {gl : List GEntry} {a1 : Array PNode} (ctx : PhCtx g li tm s lid (li.word (g.link lid).wid.toNat) lcl gl a1) (inv : GInv g a1) (hr : Ranked a1)
    (gx : GX gl a1) (hk : IntKind li tm s gl [] a1) {pred : Nat} (hpred : pred ∈ lcl)
    (hkey : ∃ e ∈ gl, e.list = lcl ∧ e.ci = (li.word (g.link lid).wid.toNat).pron.headD 0 ∧ e.rc = (li.word (g.link lid).wid.toNat).pron.getD 1 0)
    (hlid : lid ∈ stateArcs g s) (hpar0 : ∀ x, x < a1.size → (ndOf a1 x).owner = s → ParOf gl a1 x) :
    PhX li g lcOf rcOf s gl a1 (((List.range (li.word (g.link lid).wid.toNat).pron.length).drop 1).foldl
      (phoneStep li s lid (li.word (g.link lid).wid.toNat) (g.link lid).logp (rcOf lid) lcl) { nodes := a1, pred }) := by
  have hlne : lcl ≠ [] := fun h0 => by rw [h0] at hpred; cases hpred
  rw [drop1_range]
  have h := fold_range'
    (fun m st => ((PhInv g s a1 st ∧ Ranked st.nodes ∧ Grow a1 st.nodes) ∧
      PhP g li tm s lid (li.word (g.link lid).wid.toNat) (g.link lid).logp (rcOf lid) lcl gl a1 m st) ∧ PhX li g lcOf rcOf s gl a1 st)
    (phoneStep li s lid (li.word (g.link lid).wid.toNat) (g.link lid).logp (rcOf lid) lcl) ((li.word (g.link lid).wid.toNat).pron.length - 1)
    { nodes := a1, pred }
    ⟨⟨⟨⟨inv, Ext.refl _, ctx.hlcl pred hpred⟩, hr, Grow.refl _⟩,
     ⟨gx, fun _ _ _ h => h, hk, fun _ => hpred, fun h => by omega,
      ⟨fun _ => 0, ⟨fun j h1 h2 => by omega, fun h => by omega, fun j h1 h2 => by omega⟩, fun h => by omega,
        fun h => by have := ctx.n2; omega⟩⟩⟩,
     ⟨Sd.refl _ _, hpar0, fun x h1 h2 => absurd h2 (Nat.not_lt.2 h1)⟩⟩
    (fun m st hm h' => ⟨⟨⟨phoneStep_inv ctx.hl ctx.hlcl st (1 + m) h'.1.1.1,
        phoneStep_ranked ctx.hl ctx.hlcl ctx.hnd st (1 + m) h'.1.1.1 h'.1.1.2.1,
        h'.1.1.2.2.trans (phoneStep_grow0 ctx.hl ctx.hlcl st (1 + m) h'.1.1.1 h'.1.1.2.1)⟩,
      phoneStep_p ctx h'.1.1.1 h'.1.1.2.1 h'.1.2 hm⟩,
      phoneStep_x ctx h'.1.1.1 h'.1.1.2.1 h'.1.2 h'.2 hm hlne hkey hlid⟩)
  exact h.2


/-! ### the loops that allocate roots (single-phone words, word-initial pnodes), exact part -/

structure QX (a0 : Array PNode) (st : LcSt) : Prop where
  sd : Sd a0.size a0 st.nodes
  rootNP : RootNP st.nodes st.root
  newNP : ∀ x, a0.size ≤ x → x < st.nodes.size → NoPar st.nodes x
  fresh : (∀ p ∈ st.lcl, a0.size ≤ p) ∧ (∀ p ∈ st.lmap, a0.size ≤ p)

theorem QX.bit {g : Fsg} {s : Nat} {a0 : Array PNode} {st : LcSt} (_h : LcInv g s a0 st) (hx : QX a0 st) {p : Nat} (hp : a0.size ≤ p) (c : Nat) :
    QX a0 { st with nodes := addCtxt st.nodes p c } :=
  ⟨hx.sd.trans (sd_addCtxt _ hp c), hx.rootNP.ctxt p c,
   fun x h1 h2 => noPar_addCtxt p c (hx.newNP x h1 (by rw [size_addCtxt] at h2; exact h2)), hx.fresh⟩

theorem QX.pushRoot {g : Fsg} {s : Nat} {a0 : Array PNode} {st : LcSt} (h : LcInv g s a0 st) (hx : QX a0 st) {n : PNode} (hn : n.succ = none)
    (hs : n.sibling = st.root) : Sd a0.size a0 (st.nodes.push n) ∧ RootNP (st.nodes.push n) (some st.nodes.size) ∧
      (∀ x, a0.size ≤ x → x < (st.nodes.push n).size → NoPar (st.nodes.push n) x) := by
  refine ⟨hx.sd.trans ((sd_push h.inv hn).mono h.ext.1), hx.rootNP.pushRoot h.inv (fun y hy => (h.root y hy).1) hn hs, fun x h1 h2 => ?_⟩
  rw [Array.size_push] at h2
  by_cases hxe : x = st.nodes.size
  · rw [hxe]; exact noPar_new h.inv hn
  · exact noPar_push h.inv hn (hx.newNP x h1 (by omega))

theorem singleStep_qx {g : Fsg} {li : LexIn} {s lid ci : Nat} {logp : Int} {a0 : Array PNode} (st : LcSt) (lc : Nat)
    (h : LcInv g s a0 st) (hx : QX a0 st) : QX a0 (singleStep li s lid ci logp st lc) := by
  unfold singleStep
  simp only
  split
  · rename_i p hf
    exact QX.bit h hx (hx.fresh.1 p (find?_spec hf).1) lc
  · obtain ⟨h1, h2, h3⟩ := QX.pushRoot h hx (n := singleNode li s lid ci logp st.root lc) rfl rfl
    refine ⟨h1, h2, h3, fun p hp => ?_, hx.fresh.2⟩
    rcases List.mem_cons.1 hp with h4 | h4
    · rw [h4]; exact h.ext.1
    · exact hx.fresh.1 p h4

theorem rootStep_qx {g : Fsg} {li : LexIn} {s ci rc : Nat} {a0 : Array PNode} (st : LcSt) (lc : Nat)
    (h : LcInv g s a0 st) (hx : QX a0 st) : QX a0 (rootStep li s ci rc st lc) := by
  unfold rootStep
  simp only
  split
  · rename_i p hf
    exact QX.bit h hx (hx.fresh.2 p (find?_spec hf).1) lc
  · obtain ⟨h1, h2, h3⟩ := QX.pushRoot h hx (n := rootNode li s ci rc st.root lc) rfl rfl
    refine ⟨h1.trans (sd_addCtxt _ h.ext.1 lc), h2.ctxt _ _, fun x h4 h5 => noPar_addCtxt _ _ (h3 x h4 (by rw [size_addCtxt] at h5; exact h5)),
      fun p hp => ?_, fun p hp => ?_⟩
    · rcases List.mem_cons.1 hp with h4 | h4
      · rw [h4]; exact h.ext.1
      · exact hx.fresh.1 p h4
    · rcases List.mem_append.1 hp with h4 | h4
      · exact hx.fresh.2 p h4
      · rw [List.mem_singleton.1 h4]; exact h.ext.1

/-! ### one arc, exact part -/

/-- the exact facts about the pnodes of the state under construction -/
structure SX (li : LexIn) (g : Fsg) (lcOf rcOf : Nat → List Nat) (s : Nat) (a0 : Array PNode) (w : Bld) : Prop where
  sd : Sd a0.size a0 w.nodes
  par : ∀ x, x < w.nodes.size → (ndOf w.nodes x).owner = s → ParOf w.glists w.nodes x
  rootNP : RootNP w.nodes w.root
  group : GroupS li lcOf s w.glists w.nodes
  leaf : ∀ x, x < w.nodes.size → (ndOf w.nodes x).owner = s → (ndOf w.nodes x).leaf = true → LeafRec li g lcOf rcOf s w.glists w.nodes x

/-- after a loop that only allocates parentless pnodes of kind `K` (non-leaves, or leaves with their record) -/
theorem SX.quietLoop {li : LexIn} {g : Fsg} {lcOf rcOf : Nat → List Nat} {s : Nat} {a0 : Array PNode} {w0 : Bld} {K : PNode → Prop} {st : LcSt}
    (hx : SX li g lcOf rcOf s a0 w0) (ha0 : a0.size ≤ w0.nodes.size) (gx : GX w0.glists w0.nodes) (hq : QX w0.nodes st) (hQ : Quiet w0.nodes st.nodes) (hG : Grow w0.nodes st.nodes)
    (hL : LoopS K w0.nodes st.nodes)
    (hK : ∀ x, w0.nodes.size ≤ x → x < st.nodes.size → K (ndOf st.nodes x) → NoPar st.nodes x → (ndOf st.nodes x).leaf = true →
      LeafRec li g lcOf rcOf s w0.glists st.nodes x) :
    SX li g lcOf rcOf s a0 { w0 with nodes := st.nodes, root := st.root } := by
  refine ⟨hx.sd.trans (hq.sd.mono ha0), ?_, hq.rootNP, hx.group.step hG hq.sd (fun e he r hr => ⟨gx.lt e he r hr, gx.lt e he r hr⟩), ?_⟩
  · intro x hxs hown
    simp only at hxs hown ⊢
    by_cases hlt : x < w0.nodes.size
    · have hown' : (ndOf w0.nodes x).owner = s := by rw [← (core_fields (hG.stable x hlt)).1]; exact hown
      exact (hx.par x hlt hown').step hlt hq.sd hQ.child
    · exact Or.inl (hq.newNP x (by omega) hxs)
  · intro x hxs hown hleaf
    simp only at hxs hown hleaf ⊢
    by_cases hlt : x < w0.nodes.size
    · have hown' : (ndOf w0.nodes x).owner = s := by rw [← (core_fields (hG.stable x hlt)).1]; exact hown
      have hleaf' : (ndOf w0.nodes x).leaf = true := by rw [← (core_fields (hG.stable x hlt)).2.1]; exact hleaf
      exact (hx.leaf x hlt hown' hleaf').step hlt hlt hG hq.sd hQ.child gx.lt
    · exact hK x (by omega) hxs (hL.new x (by omega) hxs) (hq.newNP x (by omega) hxs) hleaf

theorem SX.consGroup {li : LexIn} {g : Fsg} {lcOf rcOf : Nat → List Nat} {s : Nat} {a0 : Array PNode} {nodes : Array PNode} {root : Option Nat} {gl : List GEntry}
    (hx : SX li g lcOf rcOf s a0 { nodes := nodes, root := root, glists := gl }) (E : GEntry)
    (hE : ∀ r ∈ E.list, RootS li (lcOf s) s E.ci E.rc (ndOf nodes r)) : SX li g lcOf rcOf s a0 { nodes := nodes, root := root, glists := E :: gl } := by
  refine ⟨hx.sd, fun x h1 h2 => (hx.par x h1 h2).mono_gl (fun e he => List.mem_cons_of_mem _ he), hx.rootNP, ?_,
    fun x h1 h2 h3 => (hx.leaf x h1 h2 h3).mono_gl (fun e he => List.mem_cons_of_mem _ he)⟩
  intro e he r hr
  rcases List.mem_cons.1 he with h1 | h1
  · rw [h1] at hr ⊢; exact hE r hr
  · exact hx.group e h1 r hr

/-- a multi-phone word over a root set `lcl` that is among the sets `gl`, exact part -/
theorem multi_sx {g : Fsg} {li : LexIn} {tm : Nat → Nat} {s lid : Nat} {lcl : List Nat} {lcOf rcOf : Nat → List Nat} {gl : List GEntry}
    {a0 a1 : Array PNode} {root : Option Nat} (ctx : PhCtx g li tm s lid (li.word (g.link lid).wid.toNat) lcl gl a1) (inv : GInv g a1)
    (hr : Ranked a1) (gx : GX gl a1) (hk : IntKind li tm s gl [] a1) {pred : Nat} (hpred : pred ∈ lcl)
    (hkey : ∃ e ∈ gl, e.list = lcl ∧ e.ci = (li.word (g.link lid).wid.toNat).pron.headD 0 ∧ e.rc = (li.word (g.link lid).wid.toNat).pron.getD 1 0)
    (hlid : lid ∈ stateArcs g s) (hrootv : ∀ y, root = some y → y < a1.size) (ha0 : a0.size ≤ a1.size)
    (sx : SX li g lcOf rcOf s a0 { nodes := a1, root := root, glists := gl }) :
    SX li g lcOf rcOf s a0 (Bld.mk (((List.range (li.word (g.link lid).wid.toNat).pron.length).drop 1).foldl
        (phoneStep li s lid (li.word (g.link lid).wid.toNat) (g.link lid).logp (rcOf lid) lcl) { nodes := a1, pred }).nodes root gl) := by
  obtain ⟨hG, hP⟩ := phones_fold (logp := (g.link lid).logp) (rclist := rcOf lid) ctx inv hr gx hk hpred
  have hX := phones_fold_x (lcOf := lcOf) (rcOf := rcOf) ctx inv hr gx hk hpred hkey hlid sx.par
  refine ⟨sx.sd.trans (hX.sd.mono ha0), hX.par, sx.rootNP.step hX.sd (fun y hy => reach_lt inv hy hrootv),
    sx.group.step hG hX.sd (fun e he r hr' => ⟨gx.lt e he r hr', gx.lt e he r hr'⟩), ?_⟩
  intro x hxs hown hleaf
  simp only at hxs hown hleaf ⊢
  by_cases hlt : x < a1.size
  · have hown' : (ndOf a1 x).owner = s := by rw [← (core_fields (hG.stable x hlt)).1]; exact hown
    have hleaf' : (ndOf a1 x).leaf = true := by rw [← (core_fields (hG.stable x hlt)).2.1]; exact hleaf
    exact (sx.leaf x hlt hown' hleaf').step hlt hlt hG hX.sd hP.child gx.lt
  · exact hX.leafNew x (by omega) hxs hleaf

/-- **`psubtree_add_trans` keeps the exact facts** -/
theorem addTrans_sx {g : Fsg} {li : LexIn} {tm : Nat → Nat} {s : Nat} {lcOf rcOf : Nat → List Nat} {a0 : Array PNode} (hlc : lcOf s ≠ [])
    (w0 : Bld) (lid : Nat) (hlid : lid ∈ stateArcs g s) (h : WInv g s a0 w0) (hr : WR w0) (hx : WX li tm s (lcOf s) w0) (htm : SsidTmat li g tm)
    (hn : 1 ≤ (li.word (g.link lid).wid.toNat).pron.length) (sx : SX li g lcOf rcOf s a0 w0) :
    SX li g lcOf rcOf s a0 (addTrans li g s (lcOf s) (rcOf lid) w0 lid) := by
  have hl := mem_stateArcs hlid
  have hv : ∀ y, w0.root = some y → y < w0.nodes.size := fun y hy => (h.root y hy).1
  have hinit : LcInv g s w0.nodes { nodes := w0.nodes, root := w0.root, lcl := [] } := ⟨h.inv, Ext.refl _, h.root, nil_all, nil_all⟩
  have hqinit : QX w0.nodes { nodes := w0.nodes, root := w0.root, lcl := [] } :=
    ⟨Sd.refl _ _, sx.rootNP, fun x h1 h2 => absurd h2 (Nat.not_lt.2 h1), nil_all, nil_all⟩
  unfold addTrans
  simp only
  split
  · rename_i h1
    split
    · rename_i hfl
      have hfl' : (li.word (g.link lid).wid.toNat).dictFiller = false := by simpa using hfl
      have hf := foldl_inv (fun st => LcInv g s w0.nodes st ∧ Quiet w0.nodes st.nodes ∧ Grow w0.nodes st.nodes ∧ QX w0.nodes st)
          (singleStep li s lid ((li.word (g.link lid).wid.toNat).pron.headD 0) (g.link lid).logp) (lcOf s)
          { nodes := w0.nodes, root := w0.root, lcl := [] } ⟨hinit, Quiet.refl _, Grow.refl _, hqinit⟩
          (fun st lc _ h' => ⟨singleStep_inv hl st lc h'.1, h'.2.1.trans (singleStep_quiet st lc h'.1),
            h'.2.2.1.trans (singleStep_grow0 st lc h'.1).1, singleStep_qx st lc h'.1 h'.2.2.2⟩)
      exact sx.quietLoop h.ext.1 hx.gx hf.2.2.2 hf.2.1 hf.2.2.1 (singleFold_s (li := li) (g := g) w0.nodes w0.root)
        (fun x _ _ hK hnp _ => ⟨lid, hlid, Or.inl ⟨h1, hnp, Or.inl ⟨hfl', hK⟩⟩⟩)
    · rename_i hfl
      have hfl' : (li.word (g.link lid).wid.toNat).dictFiller = true := by simpa using hfl
      obtain ⟨q1, q2, q3⟩ := QX.pushRoot hinit hqinit (n := fillerNode li s lid ((li.word (g.link lid).wid.toNat).pron.headD 0) (g.link lid).logp w0.root) rfl rfl
      exact sx.quietLoop (K := FillerS li g s lid)
        (st := { nodes := w0.nodes.push (fillerNode li s lid ((li.word (g.link lid).wid.toNat).pron.headD 0) (g.link lid).logp w0.root),
                 root := some w0.nodes.size, lcl := [] })
        h.ext.1 hx.gx ⟨q1, q2, q3, nil_all, nil_all⟩ (quiet_push h.inv rfl) (grow_push h.inv _) ((LoopS.refl _ _).push _ rfl)
        (fun x _ _ hK hnp _ => ⟨lid, hlid, Or.inl ⟨h1, hnp, Or.inr ⟨hfl', hK⟩⟩⟩)
  · rename_i h1
    have hn2 : 2 ≤ (li.word (g.link lid).wid.toNat).pron.length := by omega
    -- a new set of roots
    have newSet : SX li g lcOf rcOf s a0
        { nodes := (((List.range (li.word (g.link lid).wid.toNat).pron.length).drop 1).foldl
            (phoneStep li s lid (li.word (g.link lid).wid.toNat) (g.link lid).logp (rcOf lid)
              ((lcOf s).foldl (rootStep li s ((li.word (g.link lid).wid.toNat).pron.headD 0) ((li.word (g.link lid).wid.toNat).pron.getD 1 0))
                { nodes := w0.nodes, root := w0.root, lcl := [] }).lcl)
            { nodes := ((lcOf s).foldl (rootStep li s ((li.word (g.link lid).wid.toNat).pron.headD 0) ((li.word (g.link lid).wid.toNat).pron.getD 1 0))
                { nodes := w0.nodes, root := w0.root, lcl := [] }).nodes,
              pred := ((lcOf s).foldl (rootStep li s ((li.word (g.link lid).wid.toNat).pron.headD 0) ((li.word (g.link lid).wid.toNat).pron.getD 1 0))
                { nodes := w0.nodes, root := w0.root, lcl := [] }).root.getD 0 }).nodes,
          root := ((lcOf s).foldl (rootStep li s ((li.word (g.link lid).wid.toNat).pron.headD 0) ((li.word (g.link lid).wid.toNat).pron.getD 1 0))
                { nodes := w0.nodes, root := w0.root, lcl := [] }).root,
          glists := GEntry.mk ((li.word (g.link lid).wid.toNat).pron.headD 0) ((li.word (g.link lid).wid.toNat).pron.getD 1 0)
              ((lcOf s).foldl (rootStep li s ((li.word (g.link lid).wid.toNat).pron.headD 0) ((li.word (g.link lid).wid.toNat).pron.getD 1 0))
                { nodes := w0.nodes, root := w0.root, lcl := [] }).lcl :: w0.glists } := by
      obtain ⟨⟨hI, hR⟩, hQ, hG, hM, hK, hT⟩ := rootFold_all (li := li) (tm := tm) (ci := (li.word (g.link lid).wid.toNat).pron.headD 0)
        (rc := (li.word (g.link lid).wid.toNat).pron.getD 1 0) w0 h hr hx.kind (lcOf s)
      have hqx := (foldl_inv (fun st => LcInv g s w0.nodes st ∧ QX w0.nodes st)
          (rootStep li s ((li.word (g.link lid).wid.toNat).pron.headD 0) ((li.word (g.link lid).wid.toNat).pron.getD 1 0)) (lcOf s)
          { nodes := w0.nodes, root := w0.root, lcl := [] } ⟨hinit, hqinit⟩
          (fun st lc _ h' => ⟨rootStep_inv st lc h'.1, rootStep_qx st lc h'.1 h'.2⟩)).2
      have hLS := rootFold_s (li := li) (lclist := lcOf s) (s := s) (ci := (li.word (g.link lid).wid.toNat).pron.headD 0)
        (rc := (li.word (g.link lid).wid.toNat).pron.getD 1 0) w0.nodes w0.root
      have hlclne : ((lcOf s).foldl (rootStep li s ((li.word (g.link lid).wid.toNat).pron.headD 0)
          ((li.word (g.link lid).wid.toNat).pron.getD 1 0)) { nodes := w0.nodes, root := w0.root, lcl := [] }).lcl ≠ [] := by
        have hlm : ((lcOf s).foldl (rootStep li s ((li.word (g.link lid).wid.toNat).pron.headD 0)
            ((li.word (g.link lid).wid.toNat).pron.getD 1 0)) { nodes := w0.nodes, root := w0.root, lcl := [] }).lmap ≠ [] := by
          cases hlcs : lcOf s with
          | nil => exact absurd hlcs hlc
          | cons x rest =>
            simp only [List.foldl_cons]
            exact (rootFold_root li s _ _ rest _ (rootStep_root li s _ _ _ x (Or.inl rfl))).1
        intro h0
        cases hlmap : ((lcOf s).foldl (rootStep li s ((li.word (g.link lid).wid.toNat).pron.headD 0)
            ((li.word (g.link lid).wid.toNat).pron.getD 1 0)) { nodes := w0.nodes, root := w0.root, lcl := [] }).lmap with
        | nil => exact hlm hlmap
        | cons y ys =>
          have := hT.lmapSub y (by rw [hlmap]; exact List.mem_cons_self ..)
          rw [h0] at this; cases this
      generalize hRdef : (lcOf s).foldl (rootStep li s ((li.word (g.link lid).wid.toNat).pron.headD 0)
          ((li.word (g.link lid).wid.toNat).pron.getD 1 0)) { nodes := w0.nodes, root := w0.root, lcl := [] } = R at *
      have gxQ := hx.gx.quiet hQ
      have hgx' : GX (GEntry.mk ((li.word (g.link lid).wid.toNat).pron.headD 0) ((li.word (g.link lid).wid.toNat).pron.getD 1 0) R.lcl :: w0.glists) R.nodes := by
        refine ⟨?_, ?_, ?_, ?_⟩
        · intro e' he' r hr'
          rcases List.mem_cons.1 he' with h2 | h2
          · rw [h2] at hr'; exact (hI.lcl r hr').1
          · exact gxQ.lt e' h2 r hr'
        · intro e' he' r hr'
          rcases List.mem_cons.1 he' with h2 | h2
          · rw [h2] at hr'; exact hT.noPar r hr'
          · exact gxQ.noPar e' h2 r hr'
        · intro e' he' r hr' r' hr''
          rcases List.mem_cons.1 he' with h2 | h2
          · rw [h2] at hr' hr''; rw [hT.succNone r hr', hT.succNone r' hr'']
          · exact gxQ.same e' h2 r hr' r' hr''
        · intro e1 he1 e2 he2 x hx1 hx2
          rcases List.mem_cons.1 he1 with h2 | h2 <;> rcases List.mem_cons.1 he2 with h3 | h3
          · rw [h2, h3]
          · rw [h2] at hx1
            have := hT.fresh x hx1
            have := hx.gx.lt e2 h3 x hx2
            omega
          · rw [h3] at hx2
            have := hT.fresh x hx2
            have := hx.gx.lt e1 h2 x hx1
            omega
          · exact gxQ.disj e1 h2 e2 h3 x hx1 hx2
      have hpredm : R.root.getD 0 ∈ R.lcl := by
        rw [hT.rootHead hlclne]
        cases hl' : R.lcl with
        | nil => exact absurd hl' hlclne
        | cons y ys => exact List.mem_cons_self ..
      have ctx : PhCtx g li tm s lid (li.word (g.link lid).wid.toNat) R.lcl
          (GEntry.mk ((li.word (g.link lid).wid.toNat).pron.headD 0) ((li.word (g.link lid).wid.toNat).pron.getD 1 0) R.lcl :: w0.glists) R.nodes :=
        ⟨hl, rfl, hI.lcl, hR.nodup, ⟨_, List.mem_cons_self .., rfl⟩, fun p h1 h2 => htm lid hl.1 hl.2.2 p h1 h2, hn2⟩
      have sx1 : SX li g lcOf rcOf s a0 { nodes := R.nodes, root := R.root, glists := w0.glists } :=
        sx.quietLoop (st := R) h.ext.1 hx.gx hqx hQ hG hLS (fun x _ _ hK' _ hleaf => by
          rw [(core_eq hK'.1).2.1] at hleaf; cases hleaf)
      have sx2 := sx1.consGroup (GEntry.mk ((li.word (g.link lid).wid.toNat).pron.headD 0) ((li.word (g.link lid).wid.toNat).pron.getD 1 0) R.lcl)
        (fun r hr' => hLS.new r (hT.fresh r hr') (hI.lcl r hr').1)
      exact multi_sx ctx hI.inv hR.ranked hgx' (hK.intoSets _ rfl) hpredm ⟨_, List.mem_cons_self .., rfl, rfl, rfl⟩ hlid
        (fun y hy => (hI.root y hy).1) (Nat.le_trans h.ext.1 hQ.size) sx2
    split
    · rename_i i e hf
      obtain ⟨he, hspec⟩ := findG_spec _ _ _ _ _ _ hf
      have hne := hx.nonempty e he
      have hemp : e.list.isEmpty = false := by
        cases hel : e.list with
        | nil => exact absurd hel hne
        | cons _ _ => rfl
      have hcirc : e.ci = (li.word (g.link lid).wid.toNat).pron.headD 0 ∧ e.rc = (li.word (g.link lid).wid.toNat).pron.getD 1 0 := by
        rcases hspec with h2 | h2
        · rw [hemp] at h2; cases h2
        · exact h2
      simp only [hemp, Bool.not_false, if_true]
      have ctx : PhCtx g li tm s lid (li.word (g.link lid).wid.toNat) e.list w0.glists w0.nodes :=
        ⟨hl, rfl, h.glists e he, hr.nodup e he, ⟨e, he, rfl⟩, fun p h1 h2 => htm lid hl.1 hl.2.2 p h1 h2, hn2⟩
      exact multi_sx ctx h.inv hr.ranked hx.gx hx.kind (headD_mem hne) ⟨e, he, rfl, hcirc.1, hcirc.2⟩ hlid hv h.ext.1 sx
    · exact newSet

/-! ### a path up from a leaf is the recorded chain -/

/-- `qe 0, qe 1, …, qe K`: a chain of parents that ends in a parentless pnode; `ce 0 = qe 0, ce 1, …, ce N`: the recorded chain,
under every root of the set `e`.  They coincide, `K = N + 1`, and `qe K` is a root of `e`. -/
theorem path_unique {gl : List GEntry} {a : Array PNode} (gx : GX gl a) {e : GEntry} (he : e ∈ gl) (hne : e.list ≠ []) (qe ce : Nat → Nat)
    (K N : Nat) (h0 : qe 0 = ce 0) (hq : ∀ i, i < K → Child a (qe (i + 1)) (qe i)) (hc : ∀ i, i < N → Child a (ce (i + 1)) (ce i))
    (hr : ∀ r ∈ e.list, Child a r (ce N)) (hnp : NoPar a (qe K)) (hP : ∀ i, i < K → ParOf gl a (qe i)) (hK : 1 ≤ K) :
    K = N + 1 ∧ qe K ∈ e.list ∧ ∀ i, i ≤ N → qe i = ce i := by
  obtain ⟨r0, hr0⟩ : ∃ r0, r0 ∈ e.list := by
    cases hl : e.list with
    | nil => exact absurd hl hne
    | cons y ys => exact ⟨y, List.mem_cons_self ..⟩
  have hcpar : ∀ i, i ≤ N → 1 ≤ i → ∃ p, Child a p (ce i) := by
    intro i hi _
    by_cases hiN : i < N
    · exact ⟨_, hc i hiN⟩
    · have : i = N := by omega
      rw [this]; exact ⟨r0, hr r0 hr0⟩
  have hA : ∀ i, i ≤ N → i < K → qe i = ce i := by
    intro i
    induction i with
    | zero => intro _ _; exact h0
    | succ i ih =>
      intro h1 h2
      have hy := ih (by omega) (by omega)
      have hp1 : Child a (qe (i + 1)) (qe i) := hq i (by omega)
      have hp2 : Child a (ce (i + 1)) (qe i) := by rw [hy]; exact hc i (by omega)
      have hpp1 : Child a (qe (i + 2)) (qe (i + 1)) := hq (i + 1) h2
      rcases hP i (by omega) with d1 | ⟨e', he', d2⟩ | ⟨p, d3, _⟩
      · exact absurd hp1 (d1 _)
      · exact absurd hpp1 (gx.noPar e' he' _ (d2 _ hp1) _)
      · rw [d3 _ hp1, d3 _ hp2]
  -- `K` is not shorter than the recorded chain
  have hKN : N + 1 ≤ K := by
    rcases Nat.lt_or_ge N K with h1 | h1
    · omega
    · exfalso
      obtain ⟨K', rfl⟩ : ∃ K', K = K' + 1 := ⟨K - 1, by omega⟩
      have hy := hA K' (by omega) (by omega)
      have hp1 : Child a (qe (K' + 1)) (qe K') := hq K' (by omega)
      have hp2 : Child a (ce (K' + 1)) (qe K') := by rw [hy]; exact hc K' (by omega)
      obtain ⟨pc, hpc⟩ := hcpar (K' + 1) (by omega) (by omega)
      rcases hP K' (by omega) with d1 | ⟨e', he', d2⟩ | ⟨p, d3, _⟩
      · exact absurd hp1 (d1 _)
      · exact absurd hpc (gx.noPar e' he' _ (d2 _ hp2) _)
      · have : qe (K' + 1) = ce (K' + 1) := by rw [d3 _ hp1, d3 _ hp2]
        exact absurd hpc (this ▸ hnp pc)
  have hy := hA N (Nat.le_refl _) (by omega)
  have hp1 : Child a (qe (N + 1)) (qe N) := hq N (by omega)
  have hp2 : Child a r0 (qe N) := by rw [hy]; exact hr r0 hr0
  have hKe : K = N + 1 := by
    rcases Nat.lt_or_ge (N + 1) K with h1 | h1
    · exfalso
      have hpp1 : Child a (qe (N + 2)) (qe (N + 1)) := hq (N + 1) h1
      rcases hP N (by omega) with d1 | ⟨e', he', d2⟩ | ⟨p, d3, _⟩
      · exact absurd hp1 (d1 _)
      · exact absurd hpp1 (gx.noPar e' he' _ (d2 _ hp1) _)
      · have : qe (N + 1) = r0 := by rw [d3 _ hp1, d3 _ hp2]
        exact absurd hpp1 (this ▸ gx.noPar e he r0 hr0 _)
    · omega
  refine ⟨hKe, ?_, fun i hi => hA i hi (by omega)⟩
  rw [hKe]
  rcases hP N (by omega) with d1 | ⟨e', he', d2⟩ | ⟨p, d3, p'', hpp⟩
  · exact absurd hp1 (d1 _)
  · have := gx.disj e' he' e he r0 (d2 _ hp2) hr0
    rw [← this]; exact d2 _ hp1
  · have : r0 = p := d3 _ hp2
    exact absurd hpp (this ▸ gx.noPar e he r0 hr0 p'')

/-! ### the root-to-leaf paths of one state -/

section Paths
variable (li : LexIn) (g : Fsg) (lcOf rcOf : Nat → List Nat)

/-- what a root-to-leaf path `q 0 → … → q k` of state `s` is: the pnodes of one word arc `lid` leaving `s` whose word has
`k + 1` phones -/
def PathFacts (a : Array PNode) (s k : Nat) (q : Nat → Nat) : Prop :=
  ∃ lid, lid ∈ stateArcs g s ∧ (li.word (g.link lid).wid.toNat).pron.length = k + 1 ∧
    (k = 0 → ((li.word (g.link lid).wid.toNat).dictFiller = false ∧ SingleS li g (lcOf s) s lid (ndOf a (q 0))) ∨
      ((li.word (g.link lid).wid.toNat).dictFiller = true ∧ FillerS li g s lid (ndOf a (q 0)))) ∧
    (1 ≤ k →
      RootS li (lcOf s) s ((li.word (g.link lid).wid.toNat).pron.headD 0) ((li.word (g.link lid).wid.toNat).pron.getD 1 0) (ndOf a (q 0)) ∧
      (∀ j, 1 ≤ j → j < k → (ndOf a (q j)).leaf = false ∧ (ndOf a (q j)).ssid = li.internal (li.word (g.link lid).wid.toNat).dictWid j ∧
        (ndOf a (q j)).tmatid = li.tmat ((li.word (g.link lid).wid.toNat).pron.getD j 0) ∧ (ndOf a (q j)).logs2prob = li.pip) ∧
      LeafS li (rcOf lid) s lid ((li.word (g.link lid).wid.toNat).pron.getD ((li.word (g.link lid).wid.toNat).pron.length - 1) 0)
        ((li.word (g.link lid).wid.toNat).pron.getD ((li.word (g.link lid).wid.toNat).pron.length - 1 - 1) 0) (g.link lid).logp (ndOf a (q k)))

/-- every root-to-leaf path under `root` is the path of a word arc -/
def PathsSound (a : Array PNode) (s : Nat) (root : Option Nat) : Prop :=
  ∀ (k : Nat) (q : Nat → Nat), Reach a root (q 0) → (∀ j, j < k → Child a (q j) (q (j + 1))) → (ndOf a (q k)).leaf = true →
    PathFacts li g lcOf rcOf a s k q

variable {li g lcOf rcOf}

theorem state_paths_sound {s : Nat} {a0 : Array PNode} {w : Bld} (inv : GInv g w.nodes) (hroot : OValid w.nodes s w.root) (gx : GX w.glists w.nodes)
    (hne : ∀ e ∈ w.glists, e.list ≠ []) (sx : SX li g lcOf rcOf s a0 w) : PathsSound li g lcOf rcOf w.nodes s w.root := by
  intro k q h0 hch hleaf
  have hval : ∀ j, j ≤ k → Valid w.nodes s (q j) := by
    intro j
    induction j with
    | zero => intro _; exact reach_valid inv h0 hroot
    | succ j ih => intro hj; exact child_valid inv (ih (by omega)).2 (hch j (by omega))
  have hnp0 := sx.rootNP _ h0
  obtain ⟨lid, hlid, hk⟩ := sx.leaf (q k) (hval k (Nat.le_refl _)).1 (hval k (Nat.le_refl _)).2 hleaf
  rcases hk with ⟨h1, h2, h3⟩ | ⟨h1, h2, e, he, h3, h4, qf, h5, h6, h7⟩
  · have hk0 : k = 0 := by
      rcases Nat.eq_zero_or_pos k with h | h
      · exact h
      · obtain ⟨k', rfl⟩ : ∃ k', k = k' + 1 := ⟨k - 1, by omega⟩
        exact absurd (hch k' (by omega)) (h2 _)
    subst hk0
    exact ⟨lid, hlid, h1, fun _ => h3, fun h => by omega⟩
  · obtain ⟨r0, hr0⟩ : ∃ r0, r0 ∈ e.list := by
      cases hl : e.list with
      | nil => exact absurd hl (hne e he)
      | cons y ys => exact ⟨y, List.mem_cons_self ..⟩
    have hk1 : 1 ≤ k := by
      rcases Nat.eq_zero_or_pos k with h | h
      · exfalso
        subst h
        by_cases hN : (li.word (g.link lid).wid.toNat).pron.length - 2 = 0
        · exact hnp0 _ (h6 hN r0 hr0)
        · exact hnp0 _ (h7 (by omega))
      · exact h
    obtain ⟨hK, hrt, hall⟩ := path_unique gx he (hne e he) (fun i => q (k - i))
      (fun i => if i = 0 then q k else qf ((li.word (g.link lid).wid.toNat).pron.length - 1 - i)) k ((li.word (g.link lid).wid.toNat).pron.length - 2)
      (by simp)
      (fun i hi => by
        have := hch (k - (i + 1)) (by omega)
        have e1 : k - (i + 1) + 1 = k - i := by omega
        rw [e1] at this; exact this)
      (fun i hi => by
        simp only [Nat.succ_ne_zero, if_false]
        by_cases hi0 : i = 0
        · subst hi0
          simp only [if_true]
          exact h7 (by omega)
        · simp only [hi0, if_false]
          have := h5.link ((li.word (g.link lid).wid.toNat).pron.length - 1 - (i + 1)) (by omega) (by omega)
          have e1 : (li.word (g.link lid).wid.toNat).pron.length - 1 - (i + 1) + 1 = (li.word (g.link lid).wid.toNat).pron.length - 1 - i := by omega
          rw [e1] at this; exact this)
      (fun r hr' => by
        by_cases hN : (li.word (g.link lid).wid.toNat).pron.length - 2 = 0
        · simp only [hN, if_true]; exact h6 hN r hr'
        · simp only [hN, if_false]
          have e1 : (li.word (g.link lid).wid.toNat).pron.length - 1 - ((li.word (g.link lid).wid.toNat).pron.length - 2) = 1 := by omega
          rw [e1]; exact h5.first (by omega) r hr')
      (by simp only [Nat.sub_self]; exact hnp0)
      (fun i hi => sx.par _ (hval (k - i) (by omega)).1 (hval (k - i) (by omega)).2) hk1
    simp only [Nat.sub_self] at hrt
    refine ⟨lid, hlid, by omega, fun h => by omega, fun _ => ⟨?_, ?_, h2⟩⟩
    · have := sx.group e he (q 0) hrt
      rw [h3, h4] at this; exact this
    · intro j hj1 hj2
      have := hall (k - j) (by omega)
      have e1 : k - (k - j) = j := by omega
      have e2 : ¬ (k - j = 0) := by omega
      have e3 : (li.word (g.link lid).wid.toNat).pron.length - 1 - (k - j) = j := by omega
      simp only [e1, e2, if_false, e3] at this
      rw [this]
      exact (h5.data j hj1 (by omega)).2

end Paths

/-! ### one state, all states -/

/-- **one state**: every root-to-leaf path under the new `root[s]` is the path of a word arc leaving `s` -/
theorem buildState_sx {g : Fsg} {li : LexIn} {tm : Nat → Nat} {lcs rcs : Array Nat} {nodes : Array PNode} {s : Nat}
    (hlc : ctxList li (lcs.getD s 0) ≠ []) (inv : GInv g nodes) (hr : Ranked nodes) (htm : SsidTmat li g tm)
    (hpron : ∀ lid ∈ stateArcs g s, 1 ≤ (li.word (g.link lid).wid.toNat).pron.length)
    (hown : ∀ x, x < nodes.size → (ndOf nodes x).owner ≠ s) :
    PathsSound li g (fun s => ctxList li (lcs.getD s 0)) (fun lid => ctxList li (rcs.getD (g.link lid).dst 0))
      (buildState li g lcs rcs nodes s).1 s (buildState li g lcs rcs nodes s).2 ∧
    RootNP (buildState li g lcs rcs nodes s).1 (buildState li g lcs rcs nodes s).2 ∧
    Sd nodes.size nodes (buildState li g lcs rcs nodes s).1 := by
  have h := foldl_inv
    (fun w => ((WInv g s nodes w ∧ WR w) ∧ WX li tm s (ctxList li (lcs.getD s 0)) w) ∧
      SX li g (fun s => ctxList li (lcs.getD s 0)) (fun lid => ctxList li (rcs.getD (g.link lid).dst 0)) s nodes w)
    (fun w lid => addTrans li g s (ctxList li (lcs.getD s 0)) (ctxList li (rcs.getD (g.link lid).dst 0)) w lid)
    (stateArcs g s) { nodes := nodes }
    ⟨⟨⟨⟨inv, Ext.refl _, ovalid_none _ _, nil_all⟩, ⟨hr, nil_all⟩⟩,
      ⟨⟨nil_all, nil_all, nil_all, nil_all⟩, fun x hx ho _ => absurd ho (hown x hx), nil_all, nil_all⟩⟩,
     ⟨Sd.refl _ _, fun x hx ho => absurd ho (hown x hx), fun x hx => (by cases hx), nil_all, fun x hx ho _ => absurd ho (hown x hx)⟩⟩
    (fun w lid hm hw => by
      have hl := mem_stateArcs hm
      exact ⟨⟨⟨addTrans_inv hlc w lid hl hw.1.1.1, addTrans_ranked hlc w lid hl hw.1.1.1 hw.1.1.2⟩,
        (addTrans_x (li := li) (tm := tm) (rclist := ctxList li (rcs.getD (g.link lid).dst 0)) hlc w lid hl hw.1.1.1 hw.1.1.2 hw.1.2 htm
          (hpron lid hm)).1⟩,
        addTrans_sx (lcOf := fun s => ctxList li (lcs.getD s 0)) (rcOf := fun lid => ctxList li (rcs.getD (g.link lid).dst 0))
          hlc w lid hm hw.1.1.1 hw.1.1.2 hw.1.2 htm (hpron lid hm) hw.2⟩)
  exact ⟨state_paths_sound h.1.1.1.inv h.1.1.1.root h.1.2.gx h.1.2.nonempty h.2, h.2.rootNP, h.2.sd⟩

/-- the paths of an earlier state are untouched by the construction of a later state -/
theorem PathsSound.later {li : LexIn} {g : Fsg} {lcOf rcOf : Nat → List Nat} {a a' : Array PNode} {s s' : Nat} {root : Option Nat}
    (hss : s ≠ s') (hps : PathsSound li g lcOf rcOf a s root) (hnp : RootNP a root) (hroot : OValid a s root) (inv : GInv g a)
    (inv' : GInv g a') (gr : Grow a a') (sd : Sd a.size a a') (hown' : OwnSince a.size s' a') :
    PathsSound li g lcOf rcOf a' s root ∧ RootNP a' root := by
  have hchain : ∀ y, Reach a root y → y < a.size := fun y hy => reach_lt inv hy (fun z hz => (hroot z hz).1)
  refine ⟨?_, hnp.step sd hchain⟩
  have hold : ∀ x, x < a'.size → (ndOf a' x).owner = s → x < a.size := by
    intro x hx ho
    rcases Nat.lt_or_ge x a.size with h | h
    · exact h
    · exact absurd ((hown' x h hx).symm.trans ho) (Ne.symm hss)
  have hext : Ext a a' := ⟨gr.size, fun p hp => (core_fields (gr.stable p hp)).1⟩
  intro k q h0 hch hleaf
  have h0' : Reach a root (q 0) := sd.reachRev h0 (fun y hy => ⟨hnp y hy, hchain y hy⟩)
  have hval : ∀ j, j ≤ k → Valid a' s (q j) := by
    intro j
    induction j with
    | zero => intro _; exact reach_valid inv' h0 (hroot.ext hext)
    | succ j ih => intro hj; exact child_valid inv' (ih (by omega)).2 (hch j (by omega))
  have hlt : ∀ j, j ≤ k → q j < a.size := fun j hj => hold _ (hval j hj).1 (hval j hj).2
  have hch' : ∀ j, j < k → Child a (q j) (q (j + 1)) := fun j hj => sd.parSub _ _ (hlt (j + 1) (by omega)) (hch j hj)
  have hv : ∀ j, j ≤ k → view (ndOf a' (q j)) = view (ndOf a (q j)) := fun j hj => view_of gr sd (hlt j hj) (hlt j hj)
  have hleaf' : (ndOf a (q k)).leaf = true := by
    rw [← (core_fields (view_core (hv k (Nat.le_refl _)))).2.1]; exact hleaf
  obtain ⟨lid, hlid, hlen, hk0, hk1⟩ := hps k q h0' hch' hleaf'
  refine ⟨lid, hlid, hlen, fun h => ?_, fun h => ?_⟩
  · rcases hk0 h with ⟨h1, h2⟩ | ⟨h1, h2⟩
    · exact Or.inl ⟨h1, h2.congr (hv 0 (by omega))⟩
    · exact Or.inr ⟨h1, h2.congr (hv 0 (by omega))⟩
  · obtain ⟨h1, h2, h3⟩ := hk1 h
    refine ⟨h1.congr (hv 0 (by omega)), fun j hj1 hj2 => ?_, h3.congr (hv k (Nat.le_refl _))⟩
    obtain ⟨_, f2, _, f4, f5, f6, _⟩ := core_fields (view_core (hv j (by omega)))
    rw [f2, f4, f5, f6]; exact h2 j hj1 hj2

/-- all states -/
theorem buildFold_sx (li : LexIn) (g : Fsg) (tm : Nat → Nat) (hsil : li.sil < li.nCi) (htm : SsidTmat li g tm)
    (hpron : ∀ s, s < li.nState → ∀ lid ∈ stateArcs g s, 1 ≤ (li.word (g.link lid).wid.toNat).pron.length) :
    ∀ n, n ≤ li.nState → ∀ s, s < n →
      PathsSound li g (fun s => ctxList li ((ctxFlags li g).1.getD s 0)) (fun lid => ctxList li ((ctxFlags li g).2.getD (g.link lid).dst 0))
        ((List.range n).foldl (buildStep li g) (#[], #[])).1 s (((List.range n).foldl (buildStep li g) (#[], #[])).2.getD s none) ∧
      RootNP ((List.range n).foldl (buildStep li g) (#[], #[])).1 (((List.range n).foldl (buildStep li g) (#[], #[])).2.getD s none) := by
  intro n
  induction n with
  | zero => intro _ s hs; omega
  | succ n ih =>
    intro hn
    obtain ⟨hi, hsz, hroots⟩ := buildFold_inv li g hsil n (by omega)
    obtain ⟨hi', _, _⟩ := buildFold_inv li g hsil (n + 1) hn
    have hr := buildFold_ranked li g hsil n (by omega)
    obtain ⟨hown, _⟩ := buildFold_multi li g tm hsil htm hpron n (by omega)
    have ih' := ih (by omega)
    rw [List.range_succ, List.foldl_append] at hi' ⊢
    simp only [List.foldl_cons, List.foldl_nil] at hi' ⊢
    generalize (List.range n).foldl (buildStep li g) (#[], #[]) = acc at hi hsz hroots hr hown ih' hi'
    have hown0 : ∀ x, x < acc.1.size → (ndOf acc.1 x).owner ≠ n := fun x hx h0 => by have := hown x hx; omega
    obtain ⟨⟨hG, hC, hO⟩, _⟩ := buildState_multi (li := li) (tm := tm) (lcs := (ctxFlags li g).1) (rcs := (ctxFlags li g).2)
      (ctxList_ne_nil li g hsil (by omega : n < li.nState)) hi hr htm (hpron n (by omega)) hown0
    obtain ⟨hP, hNP, hSd⟩ := buildState_sx (li := li) (tm := tm) (lcs := (ctxFlags li g).1) (rcs := (ctxFlags li g).2)
      (ctxList_ne_nil li g hsil (by omega : n < li.nState)) hi hr htm (hpron n (by omega)) hown0
    intro s hs
    show PathsSound li g _ _ (buildState li g (ctxFlags li g).1 (ctxFlags li g).2 acc.1 n).1 s
        ((acc.2.push (buildState li g (ctxFlags li g).1 (ctxFlags li g).2 acc.1 n).2).getD s none) ∧
      RootNP (buildState li g (ctxFlags li g).1 (ctxFlags li g).2 acc.1 n).1
        ((acc.2.push (buildState li g (ctxFlags li g).1 (ctxFlags li g).2 acc.1 n).2).getD s none)
    by_cases hsn : s < n
    · have : (acc.2.push (buildState li g (ctxFlags li g).1 (ctxFlags li g).2 acc.1 n).2).getD s none = acc.2.getD s none := by
        simp [Array.getD, hsz, hsn, Array.getElem_push, Nat.lt_succ_of_lt hsn]
      rw [this]
      obtain ⟨i1, i2⟩ := ih' s hsn
      exact PathsSound.later (by omega) i1 i2 (hroots s hsn) hi hi' hG hSd hO
    · have hs' : s = n := by omega
      subst hs'
      have : (acc.2.push (buildState li g (ctxFlags li g).1 (ctxFlags li g).2 acc.1 s).2).getD s none =
          (buildState li g (ctxFlags li g).1 (ctxFlags li g).2 acc.1 s).2 := by
        simp [Array.getD, hsz, Array.getElem_push]
      rw [this]
      exact ⟨hP, hNP⟩

theorem mem_chainA_reach (a : Array PNode) : ∀ (k : Nat) {o : Option Nat} {x : Nat}, x ∈ chainA a k o → Reach a o x := by
  intro k
  induction k with
  | zero => intro o x h; cases o <;> simp [chainA] at h
  | succ k ih =>
    intro o x h
    cases o with
    | none => simp [chainA] at h
    | some p =>
      simp only [chainA] at h
      rcases List.mem_cons.1 h with h1 | h1
      · rw [h1]; exact Reach.here
      · exact Reach.next (ih h1)

/-- **every root-to-leaf path of the lextree the code builds is the path of a word arc**: for `q 0` a root of `root[s]`, every
`q (j+1)` a child of `q j` (in the sense of `fsg_search_pnode_trans`) and `q k` a leaf, there is a word arc `lid` leaving `s` whose
word has `k + 1` phones such that — `k = 0`: `q 0` is the pnode of the single-phone word / filler of the arc; `k ≥ 1`: `q 0` is a
word-initial pnode of the word (every bit `c` of its context set is a left context of `s` with `ssid = ldiph p₀ p₁ c`), `q j` has
the ssid, transition matrix and entry penalty of the word's position `j`, and `q k` is a word-final pnode carrying the arc (every
bit `c` of its context set is a right context of the arc's target state with `ssid = rssid p_k p_{k−1} c`). -/
theorem build_paths_sound (li : LexIn) (g : Fsg) (tm : Nat → Nat) (hsil : li.sil < li.nCi) (htm : SsidTmat li g tm)
    (hpron : ∀ s, s < li.nState → ∀ lid ∈ stateArcs g s, 1 ≤ (li.word (g.link lid).wid.toNat).pron.length)
    {s : Nat} (hs : s < li.nState) (k : Nat) (q : Nat → Nat) (h0 : q 0 ∈ (buildLexTree li g).roots s)
    (hch : ∀ j, j < k → q (j + 1) ∈ (buildLexTree li g).children (q j)) (hleaf : ((buildLexTree li g).node (q k)).leaf = true) :
    PathFacts li g (fun s => ctxList li ((ctxFlags li g).1.getD s 0)) (fun lid => ctxList li ((ctxFlags li g).2.getD (g.link lid).dst 0))
      (buildLexTree li g).nodes s k q := by
  refine (buildFold_sx li g tm hsil htm hpron li.nState (Nat.le_refl _) s hs).1 k q ?_ ?_ hleaf
  · unfold LexTree.roots at h0
    rw [chain_eq] at h0
    exact mem_chainA_reach _ _ h0
  · intro j hj
    have := hch j hj
    unfold LexTree.children at this
    split at this
    · cases this
    · rw [chain_eq] at this
      exact mem_chainA_reach _ _ this

/-! ### in the terms of the flat network -/

section Flat
open SSVerif.FlatNet (Model Arc Word Inst instsOfArc wordArcs lcSet rcSet shiftS)
open SSVerif.Generated.Search (wposSingle wposBegin wposInternal wposEnd)

/-- **every root-to-leaf path of the lextree the code builds is an instance chain of one word arc of the flat network** -/
theorem bridge_paths {M : Model} {li : LexIn} {tm : Nat → Nat} (h : Agree M li) (hl : LookAgree M li) (htm : SsidTmat li (fsgOf M) tm)
    (hall : ∀ i a w, (i, a, w) ∈ wordArcs M → ∃ insts, instsOfArc M i a w = some insts)
    {s : Nat} (hs : s < li.nState) (k : Nat) (q : Nat → Nat) (h0 : q 0 ∈ (buildLexTree li (fsgOf M)).roots s)
    (hch : ∀ j, j < k → q (j + 1) ∈ (buildLexTree li (fsgOf M)).children (q j))
    (hleaf : ((buildLexTree li (fsgOf M)).node (q k)).leaf = true) :
    ∃ i a w insts, (i, a, w) ∈ wordArcs M ∧ instsOfArc M i a w = some insts ∧ a.src = s ∧ w.pron.length = k + 1 ∧
      ((buildLexTree li (fsgOf M)).node (q k)).link = i ∧
      (k = 0 → (∃ y ∈ insts, NodeOf ((buildLexTree li (fsgOf M)).node (q 0)) y ∧ y.lc = none ∧ y.rc = none) ∨
        (∀ c, ((buildLexTree li (fsgOf M)).node (q 0)).ctxt.testBit c = true →
          ∃ y ∈ insts, NodeOf ((buildLexTree li (fsgOf M)).node (q 0)) y ∧ y.lc = some c)) ∧
      (1 ≤ k →
        (∀ c, ((buildLexTree li (fsgOf M)).node (q 0)).ctxt.testBit c = true →
          ∃ R ∈ insts, R.isRoot = true ∧ R.lc = some c ∧ NodeOf ((buildLexTree li (fsgOf M)).node (q 0)) R) ∧
        (∀ j, 1 ≤ j → j < k → ∃ x ∈ insts, x.isRoot = false ∧ x.isLeaf = false ∧ x.pos = j ∧
          NodeOf ((buildLexTree li (fsgOf M)).node (q j)) x) ∧
        (∀ c, ((buildLexTree li (fsgOf M)).node (q k)).ctxt.testBit c = true →
          ∃ L ∈ insts, L.isLeaf = true ∧ L.rc = some c ∧ NodeOf ((buildLexTree li (fsgOf M)).node (q k)) L)) := by
  obtain ⟨lid, hm, hlen, hk0, hk1⟩ := build_paths_sound li (fsgOf M) tm h.silCi htm (agree_pron h) hs k q h0 hch hleaf
  obtain ⟨a, w, hwa, hsrc⟩ := wordArc_of_stateArc h hm
  subst hsrc
  obtain ⟨insts, hi⟩ := hall lid a w hwa
  have v := arcView h hl hwa
  obtain ⟨wid, hwid, hwd, hw⟩ := v.wid
  have hok := build_lexTreeOK li (fsgOf M) h.silCi
  -- owners along the path
  have hown : ∀ j, j ≤ k → q j < (buildLexTree li (fsgOf M)).nodes.size ∧ ((buildLexTree li (fsgOf M)).node (q j)).owner = a.src := by
    intro j
    induction j with
    | zero =>
      intro _
      have hrs : a.src < (buildLexTree li (fsgOf M)).root.size := by
        rcases Nat.lt_or_ge a.src (buildLexTree li (fsgOf M)).root.size with h5 | h5
        · exact h5
        · exact absurd h0 (by
            unfold LexTree.roots
            have : (buildLexTree li (fsgOf M)).root.getD a.src none = none := by simp [Array.getD, Nat.not_lt.2 h5]
            rw [this, chain_none]; simp)
      exact hok.1 a.src hrs (q 0) h0
    | succ j ih =>
      intro hj
      obtain ⟨i1, i2⟩ := ih (by omega)
      have := hok.2.1 (q j) i1 (q (j + 1)) (hch j (by omega))
      exact ⟨this.1, by rw [this.2]; exact i2⟩
  unfold SingleS FillerS at hk0
  unfold RootS LeafS at hk1
  have hnode : ∀ x, (buildLexTree li (fsgOf M)).node x = ndOf (buildLexTree li (fsgOf M)).nodes x := fun _ => rfl
  simp only [hnode] at hown ⊢
  simp only [v.pron, v.filler, v.logp, v.dst] at hlen hk0 hk1
  rw [hwid] at hk1
  refine ⟨lid, a, w, insts, hwa, hi, rfl, hlen, ?_, fun hk => ?_, fun hk => ?_⟩
  · by_cases hk : k = 0
    · subst hk
      rcases hk0 rfl with ⟨_, h3, _⟩ | ⟨_, h3⟩
      · exact (core_eq h3).2.2.1
      · exact (core_eq h3).2.2.1
    · exact (core_eq (hk1 (by omega)).2.2.1).2.2.1
  · subst hk
    obtain ⟨p, hp⟩ := pron_one hlen
    rcases hk0 rfl with ⟨h2, h3, h4⟩ | ⟨h2, h3⟩
    · rw [hp] at h3 h4
      obtain ⟨f1, f2, f3, _, f5, f6, f7⟩ := core_eq h3
      unfold instsOfArc at hi
      simp only [hp, h2, Bool.false_eq_true, if_false, Option.bind_eq_bind, Option.bind_eq_some_iff] at hi
      obtain ⟨tmv, htmv, hmap⟩ := hi
      refine Or.inr (fun c hc => ?_)
      obtain ⟨hcl, hss⟩ := h4 c hc
      obtain ⟨y, hy, hfy⟩ := mapM_option_mem hmap c ((lc_iff h v.src c).1 hcl)
      simp only [Option.bind_eq_some_iff, Option.pure_def, Option.some.injEq] at hfy
      obtain ⟨ss, hss', hye⟩ := hfy
      subst hye
      refine ⟨_, hy, ⟨f1, f2, ?_, ?_, ?_, fun _ => f3, fun _ => f7, fun c' hc' => ?_, fun c' hc' => (by cases hc')⟩, rfl⟩
      · rw [hss]; exact hw.single' hp (ctxList_lt hcl) hss'
      · rw [f5]; exact hw.ciTmat'' hp (k := 0) (by simp) htmv
      · rw [f6, shift_eq hl, hl.wip, hl.pip]
      · simp only [Option.some.injEq] at hc'
        subst hc'; exact hc
    · rw [hp] at h3
      obtain ⟨f1, f2, f3, f4, f5, f6, f7⟩ := core_eq h3
      unfold instsOfArc at hi
      simp only [hp, h2, if_true, Option.bind_eq_bind, Option.bind_eq_some_iff, Option.pure_def, Option.some.injEq] at hi
      obtain ⟨ss, hss, tmv, htmv, hins⟩ := hi
      subst hins
      refine Or.inl ⟨_, List.mem_singleton.2 rfl, ⟨f1, f2, ?_, ?_, ?_, fun _ => f3, fun _ => (by rw [f7]; exact h.sil),
        fun c' hc' => (by cases hc'), fun c' hc' => (by cases hc')⟩, rfl, rfl⟩
      · rw [f4]; exact hw.ciSsid' hp hss
      · rw [f5]; exact hw.ciTmat'' hp (k := 0) (by simp) htmv
      · rw [f6, shift_eq hl, hl.wip, hl.pip]
  · obtain ⟨⟨r3, r4⟩, hint, l3, l4⟩ := hk1 hk
    obtain ⟨p0, p1, rest, hp⟩ := pron_two (by omega : 2 ≤ w.pron.length)
    rw [hp] at r3 r4 l3 l4 hint hlen
    refine ⟨fun c hc => ?_, fun j hj1 hj2 => ?_, fun c hc => ?_⟩
    · obtain ⟨f1, f2, f3, _, f5, f6, f7⟩ := core_eq r3
      obtain ⟨hcl, hss⟩ := r4 c hc
      obtain ⟨ss, tm0, hss', htm0, hmem⟩ := (multi_insts hp hi).1 c ((lc_iff h v.src c).1 hcl)
      refine ⟨_, hmem, rfl, rfl, f1, f2, ?_, ?_, ?_, fun hc' => (by cases hc'), fun _ => f7, fun c' hc' => ?_, fun c' hc' => (by cases hc')⟩
      · rw [hss]; exact hw.begin' hp (ctxList_lt hcl) hss'
      · rw [f5]; exact hw.ciTmat'' hp (k := 0) (by simp) htm0
      · rw [f6, hl.wip, hl.pip]
      · simp only [Option.some.injEq] at hc'
        subst hc'; exact hc
    · obtain ⟨d1, d2, d3, d4⟩ := hint j hj1 hj2
      obtain ⟨j', rfl⟩ : ∃ j', j = j' + 1 := ⟨j - 1, by omega⟩
      obtain ⟨ss, tmv, hss, htmv, hmem⟩ := (multi_insts hp hi).2.1 j' (by omega)
      refine ⟨_, hmem, rfl, rfl, rfl, (hown (j' + 1) (by omega)).2, d1, ?_, ?_, ?_, fun hc' => (by cases hc'),
        fun hc' => (by rcases hc' with hc' | hc' <;> cases hc'), fun c' hc' => (by cases hc'), fun c' hc' => (by cases hc')⟩
      · rw [d2]; exact hw.internal' (k := j') (by rw [hp]; omega) (by rw [hp]; exact hss)
      · rw [d3]; exact hw.ciTmat'' hp (k := j' + 1) (by omega) htmv
      · rw [d4, hl.pip]
    · obtain ⟨f1, f2, f3, _, f5, f6, f7⟩ := core_eq l3
      obtain ⟨hcl, hss⟩ := l4 c hc
      obtain ⟨ss, tml, hss', html, hmem⟩ := (multi_insts hp hi).2.2 c ((rc_iff h v.dstLt c).1 hcl)
      refine ⟨_, hmem, rfl, rfl, f1, f2, ?_, ?_, ?_, fun _ => f3, fun _ => f7, fun c' hc' => (by cases hc'), fun c' hc' => ?_⟩
      · rw [hss]; exact hw.final' hp (ctxList_lt hcl) hss'
      · rw [f5]; exact hw.ciTmat'' hp (k := (p0 :: p1 :: rest).length - 1) (by simp) html
      · rw [f6, shift_eq hl, hl.pip]
      · simp only [Option.some.injEq] at hc'
        subst hc'; exact hc

end Flat

end SSVerif.LexFlat
