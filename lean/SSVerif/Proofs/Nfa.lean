import SSVerif.Model.Nfa
/-! soundness of the NFA certificate checks (see Model/Nfa.lean) -/
namespace SSVerif.Nfa

theorem Reach.trans {A p u q v r} (h1 : Reach A p u q) (h2 : Reach A q v r) : Reach A p (u ++ v) r := by
  induction h1 with
  | refl => simpa using h2
  | eps ha _ ih => exact .eps ha (ih h2)
  | sym ha _ ih => exact .sym ha (ih h2)

/-- split a run on `u ++ v` -/
theorem Reach.split {A} : ∀ (u v : List Nat) {p r}, Reach A p (u ++ v) r →
    ∃ q, Reach A p u q ∧ Reach A q v r := by
  intro u v p r h
  generalize huv : u ++ v = w at h
  induction h generalizing u with
  | refl =>
    have : u = [] ∧ v = [] := by simpa using huv
    obtain ⟨rfl, rfl⟩ := this
    exact ⟨_, .refl, .refl⟩
  | eps ha _ ih =>
    obtain ⟨q, h1, h2⟩ := ih u huv
    exact ⟨q, .eps ha h1, h2⟩
  | sym ha hr ih =>
    cases u with
    | nil =>
      simp at huv; subst huv
      exact ⟨_, .refl, .sym ha hr⟩
    | cons x u' =>
      simp at huv
      obtain ⟨rfl, huv'⟩ := huv
      obtain ⟨q, h1, h2⟩ := ih u' huv'
      exact ⟨q, .sym ha h1, h2⟩

/-- a one-symbol run = ε* , one arc, ε* -/
theorem Reach.single {A p a r} (h : Reach A p [a] r) :
    ∃ p1 p2, Reach A p [] p1 ∧ (p1, some a, p2) ∈ A.arcs ∧ Reach A p2 [] r := by
  generalize hw : [a] = w at h
  induction h with
  | refl => cases hw
  | eps ha _ ih =>
    obtain ⟨p1, p2, h1, h2, h3⟩ := ih hw
    exact ⟨p1, p2, .eps ha h1, h2, h3⟩
  | sym ha hr _ =>
    simp at hw; obtain ⟨rfl, rfl⟩ := hw
    exact ⟨_, _, .refl, ha, hr⟩

theorem epsClosed_spec {A S} (h : epsClosed A S = true) {p q} (hp : p ∈ S) (ha : (p, none, q) ∈ A.arcs) : q ∈ S := by
  unfold epsClosed at h
  rw [List.all_eq_true] at h
  have := h _ ha
  simp at this
  rcases this with h1 | h1
  · exact absurd hp h1
  · exact h1

theorem epsClosed_reach {A S} (h : epsClosed A S = true) {p q} (hr : Reach A p [] q) (hp : p ∈ S) : q ∈ S := by
  generalize hw : ([] : List Nat) = w at hr
  induction hr with
  | refl => exact hp
  | eps ha _ ih => exact ih (epsClosed_spec h hp ha) hw
  | sym _ _ _ => cases hw

theorem justified_spec {A base} : ∀ (S' seen : List Nat), justified A base seen S' = true →
    (∀ x ∈ seen, ∃ b ∈ base, Reach A b [] x) → ∀ x ∈ S', ∃ b ∈ base, Reach A b [] x := by
  intro S'
  induction S' with
  | nil => intro _ _ _ x hx; cases hx
  | cons y ys ih =>
    intro seen hj hseen x hx
    simp only [justified, Bool.and_eq_true, Bool.or_eq_true] at hj
    obtain ⟨hy, hrest⟩ := hj
    have hyr : ∃ b ∈ base, Reach A b [] y := by
      rcases hy with hy | hy
      · exact ⟨y, by simpa using hy, .refl⟩
      · rw [List.any_eq_true] at hy
        obtain ⟨⟨p, l, q⟩, hm, hc⟩ := hy
        simp at hc
        obtain ⟨⟨hl, hq⟩, hp⟩ := hc
        subst hq
        cases l with
        | some _ => simp at hl
        | none =>
          obtain ⟨b, hb, hr⟩ := hseen p hp
          exact ⟨b, hb, Reach.trans hr (.eps hm .refl)⟩
    cases hx with
    | head => exact hyr
    | tail _ hx' =>
      apply ih (y :: seen) hrest _ x hx'
      intro z hz
      cases hz with
      | head => exact hyr
      | tail _ hz' => exact hseen z hz'

theorem isClosureOf_spec {A base S'} (h : isClosureOf A base S' = true) :
    ∀ x, x ∈ S' ↔ ∃ b ∈ base, Reach A b [] x := by
  simp only [isClosureOf, Bool.and_eq_true] at h
  obtain ⟨⟨hsub, hcl⟩, hj⟩ := h
  intro x
  constructor
  · intro hx
    exact justified_spec S' [] hj (by intro _ h; cases h) x hx
  · rintro ⟨b, hb, hr⟩
    have : b ∈ S' := by
      unfold subsetB at hsub
      rw [List.all_eq_true] at hsub
      simpa using hsub b hb
    exact epsClosed_reach hcl hr this

theorem mem_move {A S a q} : q ∈ move A S a ↔ ∃ p ∈ S, (p, some a, q) ∈ A.arcs := by
  unfold move
  simp only [List.mem_filterMap]
  constructor
  · rintro ⟨⟨p, l, q'⟩, hm, hc⟩
    by_cases h : l = some a ∧ S.contains p = true
    · rw [if_pos h] at hc
      obtain ⟨rfl, hp⟩ := h
      have : q' = q := by simpa using hc
      subst this
      exact ⟨p, by simpa using hp, hm⟩
    · rw [if_neg h] at hc; cases hc
  · rintro ⟨p, hp, hm⟩
    exact ⟨(p, some a, q), hm, by simp [hp]⟩

/-- exactness is preserved by one symbol -/
theorem step_exact {A : Nfa} {s0 : Nat} {w : List Nat} {S S' : List Nat} {a : Nat}
    (hS : ∀ q, q ∈ S ↔ Reach A s0 w q)
    (hc : isClosureOf A (move A S a) S' = true) :
    ∀ q, q ∈ S' ↔ Reach A s0 (w ++ [a]) q := by
  intro q
  rw [isClosureOf_spec hc]
  constructor
  · rintro ⟨b, hb, hr⟩
    obtain ⟨p, hp, hm⟩ := mem_move.mp hb
    have h1 := (hS p).mp hp
    exact Reach.trans h1 (.sym hm hr)
  · intro h
    obtain ⟨p, h1, h2⟩ := Reach.split w [a] h
    obtain ⟨p1, p2, e1, hm, e2⟩ := Reach.single h2
    have hp1 : p1 ∈ S := (hS p1).mpr (by simpa using Reach.trans h1 e1)
    exact ⟨p2, mem_move.mpr ⟨p1, hp1, hm⟩, e2⟩

theorem Reach.syms {A p ws r} (h : Reach A p ws r) : ∀ w ∈ ws, w ∈ symsOf A := by
  induction h with
  | refl => intro w hw; cases hw
  | eps _ _ ih => exact ih
  | sym ha _ ih =>
    intro w hw
    cases hw with
    | head =>
      unfold symsOf
      simp only [List.mem_filterMap]
      exact ⟨_, ha, rfl⟩
    | tail _ hw' => exact ih w hw'

theorem subsetB_spec {X Y : List Nat} (h : subsetB X Y = true) {x} (hx : x ∈ X) : x ∈ Y := by
  unfold subsetB at h
  rw [List.all_eq_true] at h
  simpa using h x hx

theorem seteqB_spec {X Y : List Nat} (h : seteqB X Y = true) (x : Nat) : x ∈ X ↔ x ∈ Y := by
  simp only [seteqB, Bool.and_eq_true] at h
  exact ⟨fun hx => subsetB_spec h.1 hx, fun hx => subsetB_spec h.2 hx⟩

theorem cert_invariant {A B : Nfa} {c : Cert} (h : checkCert A B c = true) :
    ∀ ws : List Nat, (∀ w ∈ ws, w ∈ c.sigma) →
      ∃ i, i < c.pairs.length ∧
        (∀ q, q ∈ (pairAt c i).1 ↔ Reach A A.start ws q) ∧
        (∀ q, q ∈ (pairAt c i).2 ↔ Reach B B.start ws q) := by
  simp only [checkCert, Bool.and_eq_true] at h
  obtain ⟨⟨⟨⟨⟨_, _⟩, hlen⟩, hA0⟩, hB0⟩, hall⟩ := h
  intro ws
  generalize hn : ws.length = n
  induction n generalizing ws with
  | zero =>
    have : ws = [] := List.eq_nil_of_length_eq_zero hn
    subst this
    intro _
    refine ⟨0, by simpa using hlen, ?_, ?_⟩
    · intro q; rw [isClosureOf_spec hA0]; simp
    · intro q; rw [isClosureOf_spec hB0]; simp
  | succ n ih =>
    intro hs
    rcases List.eq_nil_or_concat ws with hnil | ⟨ws', a, hcat⟩
    · subst hnil; simp at hn
    rw [List.concat_eq_append] at hcat
    subst hcat
    have hlen' : ws'.length = n := by simp at hn; exact hn
    obtain ⟨i, hi, hSi, hTi⟩ := ih ws' hlen' (fun w hw => hs w (by simp [hw]))
    have ha : a ∈ c.sigma := hs a (by simp)
    rw [List.all_eq_true] at hall
    have hi' := hall i (by simpa using hi)
    simp only [Bool.and_eq_true] at hi'
    obtain ⟨_, hsig⟩ := hi'
    rw [List.all_eq_true] at hsig
    have hja := hsig a ha
    simp only [Bool.and_eq_true, decide_eq_true_eq] at hja
    obtain ⟨⟨⟨⟨hj, hA⟩, hAe⟩, hB⟩, hBe⟩ := hja
    refine ⟨(c.next i a).1, hj, ?_, ?_⟩
    · intro q; rw [← seteqB_spec hAe q]; exact step_exact hSi hA q
    · intro q; rw [← seteqB_spec hBe q]; exact step_exact hTi hB q

/-- soundness of the certificate check -/
theorem checkCert_sound {A B : Nfa} {c : Cert} (h : checkCert A B c = true) :
    ∀ ws, Accepts A ws ↔ Accepts B ws := by
  have h0 := h
  simp only [checkCert, Bool.and_eq_true] at h0
  obtain ⟨⟨⟨⟨⟨hsA, hsB⟩, _⟩, _⟩, _⟩, hall⟩ := h0
  intro ws
  by_cases hs : ∀ w ∈ ws, w ∈ c.sigma
  · obtain ⟨i, hi, hSi, hTi⟩ := cert_invariant h ws hs
    rw [List.all_eq_true] at hall
    have hi' := hall i (by simpa using hi)
    simp only [Bool.and_eq_true] at hi'
    obtain ⟨hfin, _⟩ := hi'
    unfold Accepts
    rw [← hSi, ← hTi]
    have := beq_iff_eq.mp hfin
    constructor
    · intro hq
      have : (pairAt c i).2.contains B.final = true := by rw [← this]; simpa using hq
      simpa using this
    · intro hq
      have : (pairAt c i).1.contains A.final = true := by rw [this]; simpa using hq
      simpa using this
  · constructor
    · intro hA
      exact absurd (fun w hw => subsetB_spec hsA (Reach.syms hA w hw)) hs
    · intro hB
      exact absurd (fun w hw => subsetB_spec hsB (Reach.syms hB w hw)) hs

/-! ### membership -/

theorem checkRunFrom_exact {A : Nfa} : ∀ (w u : List Nat) (S : List Nat) (sets : List (List Nat)),
    (∀ q, q ∈ S ↔ Reach A A.start u q) → checkRunFrom A S w sets = true →
    ∀ q, q ∈ (sets.getLastD S) ↔ Reach A A.start (u ++ w) q := by
  intro w
  induction w with
  | nil =>
    intro u S sets hS hc q
    cases sets with
    | nil => simpa using hS q
    | cons _ _ => simp [checkRunFrom] at hc
  | cons a w ih =>
    intro u S sets hS hc q
    cases sets with
    | nil => simp [checkRunFrom] at hc
    | cons S' rest =>
      simp only [checkRunFrom, Bool.and_eq_true] at hc
      have hS' := step_exact hS hc.1
      have := ih (u ++ [a]) S' rest hS' hc.2 q
      rw [List.append_assoc] at this
      simp only [List.singleton_append] at this
      rw [← this]
      cases rest with
      | nil => simp
      | cons x xs => simp [List.getLastD]

theorem checkRun_exact {A : Nfa} {w : List Nat} {sets : List (List Nat)} (h : checkRun A w sets = true) :
    ∀ q, q ∈ sets.getLastD [] ↔ Reach A A.start w q := by
  cases sets with
  | nil => simp [checkRun] at h
  | cons S0 rest =>
    simp only [checkRun, Bool.and_eq_true] at h
    have h0 : ∀ q, q ∈ S0 ↔ Reach A A.start [] q := by
      intro q; rw [isClosureOf_spec h.1]; simp
    intro q
    have := checkRunFrom_exact w [] S0 rest h0 h.2 q
    simp only [List.nil_append] at this
    rw [← this]
    cases rest with
    | nil => simp
    | cons x xs => simp [List.getLastD]

/-- the membership decision is correct whenever it answers -/
theorem decideAccepts_sound {A : Nfa} {w : List Nat} {b : Bool} (h : decideAccepts A w = some b) :
    Accepts A w ↔ b = true := by
  unfold decideAccepts at h
  simp only at h
  split at h
  · rename_i hc
    have := checkRun_exact hc A.final
    simp only [Option.some.injEq] at h
    unfold Accepts
    rw [← this, ← h]; simp
  · cases h

theorem checkPath_sound {A : Nfa} : ∀ (path : List (Nat × Option Nat × Nat)) (q : Nat) (ws : List Nat),
    checkPath A q path ws = true → Reach A q ws A.final := by
  intro path
  induction path with
  | nil =>
    intro q ws h
    simp only [checkPath, Bool.and_eq_true, beq_iff_eq, List.isEmpty_iff] at h
    obtain ⟨rfl, rfl⟩ := h
    exact .refl
  | cons x rest ih =>
    intro q ws h
    obtain ⟨p, l, r⟩ := x
    simp only [checkPath, Bool.and_eq_true, beq_iff_eq] at h
    obtain ⟨⟨rfl, hm⟩, hrest⟩ := h
    have hm' : (p, l, r) ∈ A.arcs := by simpa using hm
    cases l with
    | none => exact .eps hm' (ih r ws hrest)
    | some w =>
      cases ws with
      | nil => simp at hrest
      | cons w' ws' =>
        simp only [Bool.and_eq_true, beq_iff_eq] at hrest
        obtain ⟨rfl, hr⟩ := hrest
        exact .sym hm' (ih r ws' hr)

/-- `nfaEquiv` answers "equal" only for equal languages and "differ" only with a real witness -/
theorem nfaEquiv_sound {A B : Nfa} {n : Nat} :
    (nfaEquiv A B n = .ok none → ∀ ws, Accepts A ws ↔ Accepts B ws) ∧
    (∀ w, nfaEquiv A B n = .ok (some w) → ¬ (Accepts A w ↔ Accepts B w)) := by
  constructor
  · intro h
    unfold nfaEquiv at h
    split at h
    · rename_i c _
      by_cases hc : checkCert A B c = true
      · exact checkCert_sound hc
      · simp [hc] at h
    · split at h
      · split at h <;> cases h
      · cases h
    · cases h
  · intro w h
    unfold nfaEquiv at h
    split at h
    · split at h <;> cases h
    · rename_i w' _
      split at h
      · rename_i x y hx hy
        by_cases hne : (x != y) = true
        · simp only [hne, if_true] at h
          have hw : w' = w := by cases h; rfl
          subst hw
          have h1 := decideAccepts_sound hx
          have h2 := decideAccepts_sound hy
          intro hiff
          rw [h1, h2] at hiff
          have : x = y := by cases x <;> cases y <;> simp_all
          simp [this] at hne
        · simp [hne] at h
      · cases h
    · cases h

end SSVerif.Nfa
