import SSVerif.Model.AcmodBuf
/-!
Helper lemmas for C07: closed forms of the ring primitives of `Model/AcmodBuf.lean` and the
invariants of the live feature window.  Core Lean only.
-/
namespace SSVerif.AcmodBuf
open SSVerif.Generated

/-! ## `getD` / `set` on lists -/

theorem getD_set_eq {α} (l : List α) (i : Nat) (a d : α) (h : i < l.length) : (l.set i a).getD i d = a := by
  simp [List.getD_eq_getElem?_getD, List.getElem?_set, h]

theorem getD_set_ne {α} (l : List α) (i j : Nat) (a d : α) (h : i ≠ j) : (l.set i a).getD j d = l.getD j d := by
  simp [List.getD_eq_getElem?_getD, List.getElem?_set, h]

/-! ## the live cepstrum ring -/

/-- pure form of a run of `pushCep` -/
def ringWrite (cb : List (Option Cep)) (p : Nat) : List (Option Cep) → List (Option Cep)
  | [] => cb
  | x :: xs => ringWrite (cb.set p x) ((p + 1) % livebuf) xs

theorem ringWrite_length (xs : List (Option Cep)) : ∀ (cb : List (Option Cep)) (p : Nat),
    (ringWrite cb p xs).length = cb.length := by
  induction xs with
  | nil => intro cb p; rfl
  | cons x xs ih => intro cb p; simp [ringWrite, ih]

theorem pushMany_eq (xs : List (Option Cep)) : ∀ (s : St), s.cepbuf.length = livebuf → s.bufpos < livebuf →
    pushMany s xs = { s with cepbuf := ringWrite s.cepbuf s.bufpos xs, bufpos := (s.bufpos + xs.length) % livebuf } := by
  induction xs with
  | nil =>
    intro s _ hb
    simp [pushMany, ringWrite, Nat.mod_eq_of_lt hb]
  | cons x xs ih =>
    intro s hl hb
    have h1 : pushCep s x = { s with cepbuf := s.cepbuf.set s.bufpos x, bufpos := (s.bufpos + 1) % livebuf } := by
      simp [pushCep, hl, hb]
    have hlt : (s.bufpos + 1) % livebuf < livebuf := Nat.mod_lt _ (by decide)
    have := ih { s with cepbuf := s.cepbuf.set s.bufpos x, bufpos := (s.bufpos + 1) % livebuf } (by simp [hl]) hlt
    simp only [pushMany, List.foldl_cons] at this ⊢
    rw [h1, this]
    have harith : ((s.bufpos + 1) % livebuf + xs.length) % livebuf = (s.bufpos + (xs.length + 1)) % livebuf := by
      simp only [livebuf]; omega
    simp [ringWrite, harith]

/-- what a ring write leaves in the buffer -/
theorem ringWrite_get (xs : List (Option Cep)) : ∀ (cb : List (Option Cep)) (p : Nat),
    cb.length = livebuf → p < livebuf → xs.length ≤ livebuf →
    (∀ i, i < xs.length → (ringWrite cb p xs).getD ((p + i) % livebuf) none = xs.getD i none) ∧
    (∀ q, (∀ i, i < xs.length → q ≠ (p + i) % livebuf) → (ringWrite cb p xs).getD q none = cb.getD q none) := by
  induction xs with
  | nil => intro cb p _ _ _; simp [ringWrite]
  | cons x xs ih =>
    intro cb p hl hp hx
    have hlt : (p + 1) % livebuf < livebuf := Nat.mod_lt _ (by decide)
    simp only [List.length_cons] at hx
    obtain ⟨ih1, ih2⟩ := ih (cb.set p x) ((p + 1) % livebuf) (by simp [hl]) hlt (by omega)
    constructor
    · intro i hi
      simp only [List.length_cons] at hi
      cases i with
      | zero =>
        simp only [ringWrite, Nat.add_zero, Nat.mod_eq_of_lt hp]
        rw [ih2 p]
        · rw [getD_set_eq _ _ _ _ (by omega : p < cb.length)]; simp
        · intro i hi; simp only [livebuf] at *; omega
      | succ i =>
        have : (p + (i + 1)) % livebuf = ((p + 1) % livebuf + i) % livebuf := by simp only [livebuf]; omega
        simp only [ringWrite, this]
        rw [ih1 i (by omega)]
        simp
    · intro q hq
      simp only [ringWrite]
      rw [ih2 q]
      · have : q ≠ p := by
          have := hq 0 (by simp)
          simpa [Nat.mod_eq_of_lt hp] using this
        exact getD_set_ne _ _ _ _ _ (Ne.symm this)
      · intro i hi
        have := hq (i + 1) (by simp; omega)
        have e : (p + (i + 1)) % livebuf = ((p + 1) % livebuf + i) % livebuf := by simp only [livebuf]; omega
        rwa [e] at this

/-- ids held by a stretch of the ring starting at virtual address `V` -/
def Ring (cb : List (Option Cep)) (V : Nat) (idf : Nat → Nat) (cnt : Nat) : Prop :=
  ∀ j, j < cnt → cb.getD ((V + j) % livebuf) none = some ⟨idf j, 1, false⟩

theorem Ring.mono {cb V idf cnt cnt'} (h : Ring cb V idf cnt) (hle : cnt' ≤ cnt) : Ring cb V idf cnt' :=
  fun j hj => h j (by omega)

theorem Ring.congr {cb V idf idf' cnt} (h : Ring cb V idf cnt) (he : ∀ j, j < cnt → idf j = idf' j) : Ring cb V idf' cnt :=
  fun j hj => by rw [h j hj, he j hj]

/-- dropping the first `t` entries of a stretch -/
theorem Ring.shift {cb V idf cnt} (h : Ring cb V idf cnt) (t : Nat) (ht : t ≤ cnt) :
    Ring cb (V + t) (fun j => idf (t + j)) (cnt - t) := by
  intro j hj
  have := h (t + j) (by omega)
  rwa [show V + (t + j) = V + t + j by omega] at this

theorem Ring.write {cb V idf cnt} (h : Ring cb V idf cnt) (hl : cb.length = livebuf) (xs : List (Option Cep))
    (hfit : cnt + xs.length ≤ livebuf)
    (hx : ∀ i, i < xs.length → xs.getD i none = some ⟨idf (cnt + i), 1, false⟩) :
    Ring (ringWrite cb ((V + cnt) % livebuf) xs) V idf (cnt + xs.length) := by
  have hp : (V + cnt) % livebuf < livebuf := Nat.mod_lt _ (by decide)
  obtain ⟨g1, g2⟩ := ringWrite_get xs cb ((V + cnt) % livebuf) hl hp (by omega)
  intro j hj
  by_cases hjc : j < cnt
  · rw [g2]
    · exact h j hjc
    · intro i hi; simp only [livebuf] at *; omega
  · have e : (V + j) % livebuf = ((V + cnt) % livebuf + (j - cnt)) % livebuf := by simp only [livebuf]; omega
    rw [e, g1 (j - cnt) (by omega), hx (j - cnt) (by omega)]
    congr 3; omega

/-! ### end replication -/

theorem repLast_eq : ∀ (n tpos : Nat) (s : St), s.cepbuf.length = livebuf → s.bufpos < livebuf → tpos < livebuf →
    (∀ i, i < n → tpos ≠ (s.bufpos + i) % livebuf) →
    repLast n tpos s = pushMany s (List.replicate n (s.cepbuf.getD tpos none)) := by
  intro n
  induction n with
  | zero => intro tpos s _ _ _ _; simp [repLast, pushMany]
  | succ n ih =>
    intro tpos s hl hb ht hne
    have h1 : pushCep s (s.cepbuf.getD tpos none) =
        { s with cepbuf := s.cepbuf.set s.bufpos (s.cepbuf.getD tpos none), bufpos := (s.bufpos + 1) % livebuf } := by
      simp [pushCep, hl, hb]
    have hlt : (s.bufpos + 1) % livebuf < livebuf := Nat.mod_lt _ (by decide)
    have hne0 : tpos ≠ s.bufpos := by
      have := hne 0 (by omega); simpa [Nat.mod_eq_of_lt hb] using this
    simp only [repLast, hl, ht, if_true]
    rw [h1, ih tpos _ (by simp [hl]) hlt ht]
    · simp only [getD_set_ne _ _ _ _ _ (Ne.symm hne0)]
      simp only [pushMany, List.replicate_succ, List.foldl_cons, h1]
    · intro i hi
      have := hne (i + 1) (by omega)
      have e : (s.bufpos + (i + 1)) % livebuf = ((s.bufpos + 1) % livebuf + i) % livebuf := by simp only [livebuf]; omega
      rw [e] at this; exact this

/-! ### the feature loop -/

/-- the window `compute_feat` reads when `curpos = cp` -/
def winAt (win : Nat) (cb : List (Option Cep)) (cp : Nat) : Feat :=
  if cp < win ∨ cp + win ≥ livebuf then
    (List.range (2 * win + 1)).map fun j => cb.getD ((cp + j + livebuf - win) % livebuf) none
  else
    (List.range (2 * win + 1)).map fun j => cb.getD (cp + j - win) none

theorem readWindow_eq (win : Nat) (s : St) : readWindow win s = winAt win s.cepbuf s.curpos := rfl

def featWrite (fb : List (Option Feat)) (o : Nat) : List Feat → List (Option Feat)
  | [] => fb
  | f :: fs => featWrite (fb.set o (some f)) (o + 1) fs

theorem featWrite_length (fs : List Feat) : ∀ (fb : List (Option Feat)) (o : Nat), (featWrite fb o fs).length = fb.length := by
  induction fs with
  | nil => intro fb o; rfl
  | cons f fs ih => intro fb o; simp [featWrite, ih]

theorem featWrite_get (fs : List Feat) : ∀ (fb : List (Option Feat)) (o : Nat), o + fs.length ≤ fb.length →
    (∀ i, i < fs.length → (featWrite fb o fs).getD (o + i) none = some (fs.getD i [])) ∧
    (∀ q, (q < o ∨ q ≥ o + fs.length) → (featWrite fb o fs).getD q none = fb.getD q none) := by
  induction fs with
  | nil => intro fb o _; simp [featWrite]
  | cons f fs ih =>
    intro fb o ho
    simp only [List.length_cons] at ho
    obtain ⟨i1, i2⟩ := ih (fb.set o (some f)) (o + 1) (by simp; omega)
    constructor
    · intro i hi
      simp only [List.length_cons] at hi
      cases i with
      | zero =>
        simp only [featWrite, Nat.add_zero]
        rw [i2 o (by omega), getD_set_eq _ _ _ _ (by omega)]; simp
      | succ i =>
        simp only [featWrite]
        rw [show o + (i + 1) = o + 1 + i by omega, i1 i (by omega)]; simp
    · intro q hq
      simp only [List.length_cons] at hq
      simp only [featWrite]
      rw [i2 q (by omega), getD_set_ne _ _ _ _ _ (by omega)]

theorem computeFeats_eq (win : Nat) : ∀ (n o : Nat) (s : St), o + n ≤ s.featBuf.length → s.curpos < livebuf →
    computeFeats win n o s =
      { s with featBuf := featWrite s.featBuf o ((List.range n).map fun i => winAt win s.cepbuf ((s.curpos + i) % livebuf)),
               curpos := (s.curpos + n) % livebuf } := by
  intro n
  induction n with
  | zero => intro o s _ hc; simp [computeFeats, featWrite, Nat.mod_eq_of_lt hc]
  | succ n ih =>
    intro o s ho hc
    have hw : writeFeat s o (readWindow win s) = { s with featBuf := s.featBuf.set o (some (readWindow win s)) } := by
      simp [writeFeat, (by omega : o < s.featBuf.length)]
    simp only [computeFeats]
    rw [hw, ih (o + 1) _ (by simp; omega) (Nat.mod_lt _ (by decide))]
    have e1 : ((s.curpos + 1) % livebuf + n) % livebuf = (s.curpos + (n + 1)) % livebuf := by simp only [livebuf]; omega
    have e2 : ∀ i, ((s.curpos + 1) % livebuf + i) % livebuf = (s.curpos + (i + 1)) % livebuf := by
      intro i; simp only [livebuf]; omega
    simp only [e1, e2, readWindow_eq, List.range_succ_eq_map, List.map_cons, List.map_map, featWrite,
      Nat.add_zero, Nat.mod_eq_of_lt hc]
    rfl

/-- a window that lies inside a known stretch of the ring -/
theorem winAt_ring {cb V idf cnt} (win t cp : Nat) (h : Ring cb V idf cnt) (hcp : cp = (V + t + win) % livebuf)
    (hfit : t + 2 * win + 1 ≤ cnt) (hw : 2 * win + 1 ≤ livebuf) :
    winAt win cb cp = (List.range (2 * win + 1)).map fun j => some ⟨idf (t + j), 1, false⟩ := by
  unfold winAt
  split
  · apply List.map_congr_left
    intro j hj
    have hj' : j < 2 * win + 1 := List.mem_range.mp hj
    have e : (cp + j + livebuf - win) % livebuf = (V + (t + j)) % livebuf := by
      subst hcp; simp only [livebuf] at *; omega
    rw [e]; exact h (t + j) (by omega)
  · rename_i hn
    apply List.map_congr_left
    intro j hj
    have hj' : j < 2 * win + 1 := List.mem_range.mp hj
    have e : cp + j - win = (V + (t + j)) % livebuf := by
      subst hcp; simp only [livebuf] at *; omega
    rw [e]; exact h (t + j) (by omega)

/-! ## the cepstrum ring (`mfc_buf`) -/

theorem feWrite_spec : ∀ (k p : Nat) (s : St), p + k ≤ s.mfcBuf.length →
    ∃ mb, feWrite k p s = { s with mfcBuf := mb, nextId := s.nextId + k } ∧ mb.length = s.mfcBuf.length ∧
      (∀ i, i < k → mb.getD (p + i) none = some ⟨s.nextId + i, 0, false⟩) ∧
      (∀ q, (q < p ∨ q ≥ p + k) → mb.getD q none = s.mfcBuf.getD q none) := by
  intro k
  induction k with
  | zero => intro p s _; exact ⟨s.mfcBuf, by simp [feWrite], rfl, by simp, by simp⟩
  | succ k ih =>
    intro p s hp
    obtain ⟨mb, e, hl, h1, h2⟩ := ih (p + 1)
      { s with mfcBuf := s.mfcBuf.set p (some ⟨s.nextId, 0, false⟩), nextId := s.nextId + 1 } (by simp; omega)
    refine ⟨mb, ?_, by simpa using hl, ?_, ?_⟩
    · simp only [feWrite, (by omega : p < s.mfcBuf.length), if_true]
      rw [e]; simp [Nat.add_assoc, Nat.add_comm 1 k]
    · intro i hi
      cases i with
      | zero =>
        rw [Nat.add_zero, h2 p (by omega)]
        simp only []
        rw [getD_set_eq _ _ _ _ (by omega)]; simp
      | succ i =>
        have := h1 i (by omega)
        simp only [] at this
        rw [show p + (i + 1) = p + 1 + i by omega, this]
        congr 2; omega
    · intro q hq
      rw [h2 q (by omega)]
      simp only []
      exact getD_set_ne _ _ _ _ _ (by omega)

theorem cmnBlock_spec (skip : Nat → Bool) : ∀ (n ptr : Nat) (s : St) (c : Nat), ptr + n ≤ s.mfcBuf.length →
    (∀ i, i < n → s.mfcBuf.getD (ptr + i) none = some ⟨c + i, 0, false⟩) → s.cmnMoved = false →
    s.cmnFrames + n ≤ cmnWinHwm →
    ∃ mb cf, cmnBlock skip n ptr s = { s with mfcBuf := mb, cmnFrames := cf } ∧ mb.length = s.mfcBuf.length ∧
      (∀ i, i < n → mb.getD (ptr + i) none = some ⟨c + i, 1, false⟩) ∧
      (∀ q, (q < ptr ∨ q ≥ ptr + n) → mb.getD q none = s.mfcBuf.getD q none) ∧
      s.cmnFrames ≤ cf ∧ cf ≤ s.cmnFrames + n := by
  intro n
  induction n with
  | zero => intro ptr s c _ _ _ _; exact ⟨s.mfcBuf, s.cmnFrames, by simp [cmnBlock], rfl, by simp, by simp, by omega, by omega⟩
  | succ n ih =>
    intro ptr s c hp hfr hm hcm
    have h0 := hfr 0 (by omega)
    rw [Nat.add_zero] at h0
    have hcf : (if skip c then s.cmnFrames else s.cmnFrames + 1) ≤ s.cmnFrames + 1 := by split <;> omega
    have hcf0 : s.cmnFrames ≤ (if skip c then s.cmnFrames else s.cmnFrames + 1) := by split <;> omega
    obtain ⟨mb, cf, e, hl, h1, h2, h3, h4⟩ := ih (ptr + 1)
      { s with mfcBuf := s.mfcBuf.set ptr (some ⟨c, 1, false⟩),
               cmnFrames := if skip c then s.cmnFrames else s.cmnFrames + 1 } (c + 1) (by simp; omega)
      (by
        intro i hi
        simp only []
        rw [getD_set_ne _ _ _ _ _ (by omega)]
        have := hfr (i + 1) (by omega)
        rw [show ptr + 1 + i = ptr + (i + 1) by omega, this]
        congr 2; omega)
      (by simpa using hm) (by simp only []; omega)
    simp only [] at h3 h4
    refine ⟨mb, cf, ?_, by simpa using hl, ?_, ?_, by omega, by omega⟩
    · simp only [cmnBlock, h0]
      rw [show (false || s.cmnMoved) = false by simp [hm]]
      have hno : ¬ (cmnWinHwm < if skip c = true then s.cmnFrames else s.cmnFrames + 1) := by omega
      simp only [Nat.zero_add, Nat.add_zero, gt_iff_lt]
      rw [if_neg hno]
      simpa using e
    · intro i hi
      cases i with
      | zero =>
        rw [Nat.add_zero, h2 ptr (by omega)]
        simp only []
        rw [getD_set_eq _ _ _ _ (by omega)]; simp
      | succ i =>
        have := h1 i (by omega)
        rw [show ptr + (i + 1) = ptr + 1 + i by omega, this]
        congr 2; omega
    · intro q hq
      rw [h2 q (by omega)]
      simp only []
      exact getD_set_ne _ _ _ _ _ (by omega)

theorem cmnLive_spec (skip : Nat → Bool) (s : St) (ptr n c : Nat) (hp : ptr + n ≤ s.mfcBuf.length)
    (hfr : ∀ i, i < n → s.mfcBuf.getD (ptr + i) none = some ⟨c + i, 0, false⟩) (hm : s.cmnMoved = false)
    (hcmn : s.cmnFrames + n ≤ cmnWinHwm) :
    ∃ mb cf, cmnLive skip s ptr n = { s with mfcBuf := mb, cmnFrames := cf } ∧ mb.length = s.mfcBuf.length ∧
      (∀ i, i < n → mb.getD (ptr + i) none = some ⟨c + i, 1, false⟩) ∧
      (∀ q, (q < ptr ∨ q ≥ ptr + n) → mb.getD q none = s.mfcBuf.getD q none) ∧
      s.cmnFrames ≤ cf ∧ cf ≤ s.cmnFrames + n := by
  by_cases hn : n = 0
  · subst hn
    exact ⟨s.mfcBuf, s.cmnFrames, by simp [cmnLive], rfl, by simp, by simp, by omega, by omega⟩
  · obtain ⟨mb, cf, e, hl, h1, h2, h3, h4⟩ := cmnBlock_spec skip n ptr s c hp hfr hm hcmn
    refine ⟨mb, cf, ?_, hl, h1, h2, h3, h4⟩
    simp only [cmnLive, hn, if_false, e]

/-! ## `feat_s2mfc2feat_live` -/

/-- window of frame `k` with the left clamp only (valid while `k + win` is below the number of frames seen) -/
def canonL (win k : Nat) : Feat := (List.range (2 * win + 1)).map fun j => some ⟨k + j - win, 1, false⟩

/-- the canonical window of frame `k` of an utterance of `M` frames: ids `clamp (k - win) … clamp (k + win)`,
    each normalised exactly once with the mean fixed at the start of the utterance -/
def canon (win M k : Nat) : Feat := (List.range (2 * win + 1)).map fun j => some ⟨min (k + j - win) (M - 1), 1, false⟩

theorem canonL_eq_canon (win M k : Nat) (h : k + win < M) : canonL win k = canon win M k := by
  unfold canonL canon
  apply List.map_congr_left
  intro j hj
  have : j < 2 * win + 1 := List.mem_range.mp hj
  congr 2
  omega

theorem canon_mono (win M M' k : Nat) (h : k + win < M) (h' : M ≤ M') : canon win M k = canon win M' k := by
  rw [← canonL_eq_canon win M k h, ← canonL_eq_canon win M' k (by omega)]

/-- the live window between two calls after `c ≥ 1` frames have been consumed: the ring holds the frames
    `c - win - win … c - 1` (left-clamped) ending at `bufpos`, `curpos` is the slot of frame `c - win` -/
def LiveInv (win : Nat) (s : St) (c : Nat) : Prop :=
  s.cepbuf.length = livebuf ∧ ∃ V, s.curpos = (V + win) % livebuf ∧ s.bufpos = (V + win + min c win) % livebuf ∧
    Ring s.cepbuf V (fun j => (c - win) + j - win) (win + min c win)

/-- the window over slots `t … t + 2·win` of a stretch with ids `idf` -/
def winOf (win : Nat) (idf : Nat → Nat) (t : Nat) : Feat :=
  (List.range (2 * win + 1)).map fun j => some ⟨idf (t + j), 1, false⟩

theorem winOf_canonL (win f t : Nat) : winOf win (fun j => f + j - win) t = canonL win (f + t) := by
  unfold winOf canonL
  apply List.map_congr_left
  intro j _
  simp only []
  congr 2; omega

theorem winOf_canon (win f N t : Nat) : winOf win (fun j => min (f + j - win) (N - 1)) t = canon win N (f + t) := by
  unfold winOf canon
  apply List.map_congr_left
  intro j _
  simp only []
  congr 3; omega

/-- the trailing-window rule and the feature loop on a ring that holds `win + nb` known slots -/
theorem live_tail (win : Nat) (s2 : St) (V : Nat) (idf : Nat → Nat) (nb o used : Nat) (hl : s2.cepbuf.length = livebuf)
    (hc : s2.curpos = (V + win) % livebuf) (hr : Ring s2.cepbuf V idf (win + nb))
    (ho : o + (nb - win) ≤ s2.featBuf.length) (hw : 2 * win + 1 ≤ livebuf) :
    let R : LiveRes := if nb ≤ win then ⟨s2, used, 0⟩ else ⟨computeFeats win (nb - win) o s2, used, nb - win⟩
    R.used = used ∧ R.nfeat = nb - win ∧
    ∃ fb, R.st = { s2 with featBuf := fb, curpos := (V + (nb - win) + win) % livebuf } ∧ fb.length = s2.featBuf.length ∧
      (∀ t, t < nb - win → fb.getD (o + t) none = some (winOf win idf t)) ∧
      (∀ q, (q < o ∨ q ≥ o + (nb - win)) → fb.getD q none = s2.featBuf.getD q none) := by
  intro R
  by_cases h : nb ≤ win
  · have e : nb - win = 0 := by omega
    simp only [R, h, if_true, e]
    refine ⟨trivial, trivial, s2.featBuf, ?_, rfl, by simp, by simp⟩
    simp [← hc]
  · have hcl : s2.curpos < livebuf := by rw [hc]; exact Nat.mod_lt _ (by decide)
    simp only [R, h, if_false]
    refine ⟨trivial, trivial,
      featWrite s2.featBuf o ((List.range (nb - win)).map fun i => winAt win s2.cepbuf ((s2.curpos + i) % livebuf)),
      ?_, ?_, ?_, ?_⟩
    · rw [computeFeats_eq win _ _ _ ho hcl]
      have : (s2.curpos + (nb - win)) % livebuf = (V + (nb - win) + win) % livebuf := by
        rw [hc]; simp only [livebuf]; omega
      rw [this]
    · rw [featWrite_length]
    · intro t ht
      obtain ⟨g1, _⟩ := featWrite_get ((List.range (nb - win)).map fun i => winAt win s2.cepbuf ((s2.curpos + i) % livebuf))
        s2.featBuf o (by simpa using ho)
      rw [g1 t (by simpa using ht)]
      congr 1
      rw [List.getD_eq_getElem?_getD, List.getElem?_map, List.getElem?_range (by simpa using ht)]
      simp only [Option.map_some, Option.getD_some]
      rw [winAt_ring win t _ hr (by rw [hc]; simp only [livebuf]; omega) (by omega) hw]
      rfl
    · intro q hq
      obtain ⟨_, g2⟩ := featWrite_get ((List.range (nb - win)).map fun i => winAt win s2.cepbuf ((s2.curpos + i) % livebuf))
        s2.featBuf o (by simpa using ho)
      exact g2 q (by simpa using hq)

/-- `m` fresh (not yet normalised) frames `c, c+1, …` at `mfc_buf[ptr ..]` -/
def MfcAt (mb : List (Option Cep)) (ptr m c : Nat) : Prop := ∀ i, i < m → mb.getD (ptr + i) none = some ⟨c + i, 0, false⟩

/-- what `liveIn` (the writes of one `feat_s2mfc2feat_live` call before the feature loop) leaves:
    `win + nb` known slots from virtual address `V`, `curpos` at slot `win`, `bufpos` behind the last one -/
structure InOut (win : Nat) (s s2 : St) (ptr m V : Nat) (idf : Nat → Nat) (nb : Nat) : Prop where
  frame : ∃ cb bp cp mb cf cm, s2 =
    { s with cepbuf := cb, bufpos := bp, curpos := cp, mfcBuf := mb, cmnFrames := cf, cmnMoved := cm }
  cepLen : s2.cepbuf.length = livebuf
  cur : s2.curpos = (V + win) % livebuf
  buf : s2.bufpos = (V + win + nb) % livebuf
  ring : Ring s2.cepbuf V idf (win + nb)
  mbLen : s2.mfcBuf.length = s.mfcBuf.length
  mbOld : ∀ q, (q < ptr ∨ q ≥ ptr + m) → s2.mfcBuf.getD q none = s.mfcBuf.getD q none
  cmnLo : s.cmnFrames ≤ s2.cmnFrames
  cmnHi : s2.cmnFrames ≤ s.cmnFrames + m

/-- what one call of `feat_s2mfc2feat_live` changes -/
structure LiveOut (s : St) (R : LiveRes) (ptr m o nfv : Nat) (feat : Nat → Feat) : Prop where
  used : R.used = m
  nfeat : R.nfeat = nfv
  frame : ∃ cb bp cp fb mb cf cm, R.st =
    { s with cepbuf := cb, bufpos := bp, curpos := cp, featBuf := fb, mfcBuf := mb, cmnFrames := cf, cmnMoved := cm }
  fbLen : R.st.featBuf.length = s.featBuf.length
  fbNew : ∀ t, t < nfv → R.st.featBuf.getD (o + t) none = some (feat t)
  fbOld : ∀ q, (q < o ∨ q ≥ o + nfv) → R.st.featBuf.getD q none = s.featBuf.getD q none
  mbLen : R.st.mfcBuf.length = s.mfcBuf.length
  mbOld : ∀ q, (q < ptr ∨ q ≥ ptr + m) → R.st.mfcBuf.getD q none = s.mfcBuf.getD q none
  cmnLo : s.cmnFrames ≤ R.st.cmnFrames
  cmnHi : R.st.cmnFrames ≤ s.cmnFrames + m

/-- the feature loop on top of `liveIn` -/
theorem featLive_tail (win : Nat) (skip : Nat → Bool) (s : St) (ptr m : Nat) (b e : Bool) (o V : Nat) (idf : Nat → Nat)
    (nb : Nat) (hspecial : (b && e && decide (m > 0)) = false) (hclamp : ¬ liveNbuf win s m b e + m > livebuf - win)
    (hnb3 : (if b && decide (m > 0) then liveNbuf win s m b e - win else liveNbuf win s m b e) + m = nb)
    (hin : InOut win s (liveIn win skip s ptr m b e) ptr m V idf nb)
    (ho : o + (nb - win) ≤ s.featBuf.length) (hw : 2 * win + 1 ≤ livebuf) :
    let R := featLive win skip s ptr m b e o
    LiveOut s R ptr m o (nb - win) (winOf win idf) ∧ R.st.cepbuf = (liveIn win skip s ptr m b e).cepbuf ∧
      R.st.bufpos = (liveIn win skip s ptr m b e).bufpos ∧ R.st.curpos = (V + (nb - win) + win) % livebuf ∧
      R.st.cmnMoved = (liveIn win skip s ptr m b e).cmnMoved := by
  intro R
  obtain ⟨cb, bp, cp, mb, cf, cm, hfr⟩ := hin.frame
  have hfb : (liveIn win skip s ptr m b e).featBuf = s.featBuf := by rw [hfr]
  obtain ⟨t1, t2, fb, t3, t4, t5, t6⟩ := live_tail win (liveIn win skip s ptr m b e) V idf nb o m hin.cepLen hin.cur hin.ring
    (by rw [hfb]; exact ho) hw
  have hR : R = (if nb ≤ win then ⟨liveIn win skip s ptr m b e, m, 0⟩
      else ⟨computeFeats win (nb - win) o (liveIn win skip s ptr m b e), m, nb - win⟩ : LiveRes) := by
    have hcl : decide (liveNbuf win s m b e + m > livebuf - win) = false := by simp only [hclamp, decide_false]
    simp only [R, featLive, hspecial, hcl, hnb3, if_false, Bool.false_eq_true]
  rw [← hR] at t1 t2 t3
  refine ⟨⟨t1, t2, ?_, ?_, ?_, ?_, ?_, ?_, ?_, ?_⟩, ?_, ?_, ?_, ?_⟩
  · refine ⟨cb, bp, (V + (nb - win) + win) % livebuf, fb, mb, cf, cm, ?_⟩
    rw [t3, hfr]
  · rw [t3]; simp only []; rw [t4, hfb]
  · intro t ht; rw [t3]; exact t5 t ht
  · intro q hq; rw [t3]; simp only []; rw [t6 q hq, hfb]
  · rw [t3]; exact hin.mbLen
  · intro q hq; rw [t3]; exact hin.mbOld q hq
  · rw [t3]; exact hin.cmnLo
  · rw [t3]; exact hin.cmnHi
  · rw [t3]
  · rw [t3]
  · rw [t3]
  · rw [t3]

/-- the same when the input is clamped to what fits next to the left-context window: `m'` frames are taken, the
    end-of-utterance processing is cancelled -/
theorem featLive_tail_clamp (win : Nat) (skip : Nat → Bool) (s : St) (ptr m m' : Nat) (b e : Bool) (o V : Nat) (idf : Nat → Nat)
    (nb : Nat) (hspecial : (b && e && decide (m > 0)) = false) (hclamp : liveNbuf win s m b e + m > livebuf - win)
    (hm' : m' = livebuf - liveNbuf win s m b e - win)
    (hnb3 : (if b && decide (m' > 0) then liveNbuf win s m b e - win else liveNbuf win s m b e) + m' = nb)
    (hin : InOut win s (liveIn win skip s ptr m' b false) ptr m' V idf nb)
    (ho : o + (nb - win) ≤ s.featBuf.length) (hw : 2 * win + 1 ≤ livebuf) :
    let R := featLive win skip s ptr m b e o
    LiveOut s R ptr m' o (nb - win) (winOf win idf) ∧ R.st.cepbuf = (liveIn win skip s ptr m' b false).cepbuf ∧
      R.st.bufpos = (liveIn win skip s ptr m' b false).bufpos ∧ R.st.curpos = (V + (nb - win) + win) % livebuf ∧
      R.st.cmnMoved = (liveIn win skip s ptr m' b false).cmnMoved := by
  intro R
  obtain ⟨cb, bp, cp, mb, cf, cm, hfr⟩ := hin.frame
  have hfb : (liveIn win skip s ptr m' b false).featBuf = s.featBuf := by rw [hfr]
  obtain ⟨t1, t2, fb, t3, t4, t5, t6⟩ := live_tail win (liveIn win skip s ptr m' b false) V idf nb o m' hin.cepLen hin.cur hin.ring
    (by rw [hfb]; exact ho) hw
  have hR : R = (if nb ≤ win then ⟨liveIn win skip s ptr m' b false, m', 0⟩
      else ⟨computeFeats win (nb - win) o (liveIn win skip s ptr m' b false), m', nb - win⟩ : LiveRes) := by
    have hcl : decide (liveNbuf win s m b e + m > livebuf - win) = true := by simp only [hclamp, decide_true]
    simp only [R, featLive, hspecial, hcl, if_true, if_false, Bool.false_eq_true, ← hm', hnb3]
  rw [← hR] at t1 t2 t3
  refine ⟨⟨t1, t2, ?_, ?_, ?_, ?_, ?_, ?_, ?_, ?_⟩, ?_, ?_, ?_, ?_⟩
  · refine ⟨cb, bp, (V + (nb - win) + win) % livebuf, fb, mb, cf, cm, ?_⟩
    rw [t3, hfr]
  · rw [t3]; simp only []; rw [t4, hfb]
  · intro t ht; rw [t3]; exact t5 t ht
  · intro q hq; rw [t3]; simp only []; rw [t6 q hq, hfb]
  · rw [t3]; exact hin.mbLen
  · intro q hq; rw [t3]; exact hin.mbOld q hq
  · rw [t3]; exact hin.cmnLo
  · rw [t3]; exact hin.cmnHi
  · rw [t3]
  · rw [t3]
  · rw [t3]
  · rw [t3]

/-- frames one call takes when `nb1` slots are accounted for already: all `m`, or what fits next to the left context -/
def effN (win nb1 m : Nat) : Nat := if nb1 + m > livebuf - win then livebuf - nb1 - win else m

theorem effN_le (win nb1 m : Nat) (h : nb1 + win ≤ livebuf) : effN win nb1 m ≤ m := by
  unfold effN; split <;> omega

theorem effN_pos (win nb1 m : Nat) (hm : 1 ≤ m) (h : nb1 + win + 1 ≤ livebuf) : 1 ≤ effN win nb1 m := by
  unfold effN; split <;> omega

theorem effN_fit (win nb1 m : Nat) (h : nb1 + win ≤ livebuf) : win + nb1 + effN win nb1 m ≤ livebuf := by
  unfold effN; split <;> omega

theorem nbuf_of_inv {win c V bufpos curpos : Nat} (hc : curpos = (V + win) % livebuf)
    (hb : bufpos = (V + win + min c win) % livebuf) (hw : 2 * win + 1 ≤ livebuf) :
    (if bufpos ≥ curpos then bufpos - curpos else bufpos + livebuf - curpos) = min c win := by
  subst hc hb
  simp only [livebuf] at *
  split <;> omega

/-- copying `m` normalised frames behind a known stretch -/
theorem ring_copy {cb V idf cnt} (h : Ring cb V idf cnt) (hl : cb.length = livebuf) (mb : List (Option Cep)) (ptr m c : Nat)
    (hfit : cnt + m ≤ livebuf) (hmb : ∀ i, i < m → mb.getD (ptr + i) none = some ⟨c + i, 1, false⟩)
    (hid : ∀ i, i < m → idf (cnt + i) = c + i) :
    Ring (ringWrite cb ((V + cnt) % livebuf) ((List.range m).map fun i => mb.getD (ptr + i) none)) V idf (cnt + m) := by
  have := h.write hl ((List.range m).map fun i => mb.getD (ptr + i) none)
    (by simpa using hfit)
    (by
      intro i hi
      simp only [List.length_map, List.length_range] at hi
      rw [List.getD_eq_getElem?_getD, List.getElem?_map, List.getElem?_range hi]
      simp only [Option.map_some, Option.getD_some]
      rw [hmb i hi, hid i hi])
  simpa using this

/-- a call in the PROCESSING state: `m ≥ 0` further frames -/
theorem liveIn_mid (win : Nat) (skip : Nat → Bool) (s : St) (ptr m c : Nat) (hinv : LiveInv win s c)
    (hfr : MfcAt s.mfcBuf ptr m c) (hp : ptr + m ≤ s.mfcBuf.length) (hm : s.cmnMoved = false)
    (hcmn : s.cmnFrames + m ≤ cmnWinHwm) (hfit : win + min c win + m ≤ livebuf) :
    ∃ V, InOut win s (liveIn win skip s ptr m false false) ptr m V (fun j => (c - win) + j - win) (min c win + m) ∧
      (liveIn win skip s ptr m false false).cmnMoved = false := by
  obtain ⟨hl, V, hc, hb, hr⟩ := hinv
  obtain ⟨mb, cf, e1, hmbl, hmb1, hmb2, hcf1, hcf2⟩ := cmnLive_spec skip s ptr m c hp hfr hm hcmn
  have hbl : s.bufpos < livebuf := by rw [hb]; exact Nat.mod_lt _ (by decide)
  have e2 := pushMany_eq ((List.range m).map fun i => mb.getD (ptr + i) none)
    { s with mfcBuf := mb, cmnFrames := cf } hl hbl
  simp only [List.length_map, List.length_range] at e2
  have hI : liveIn win skip s ptr m false false =
      { s with mfcBuf := mb, cmnFrames := cf,
               cepbuf := ringWrite s.cepbuf s.bufpos ((List.range m).map fun i => mb.getD (ptr + i) none),
               bufpos := (s.bufpos + m) % livebuf } := by
    simp only [liveIn, Bool.false_and, if_false, Bool.false_eq_true, e1]
    exact e2
  have hr2 := ring_copy hr hl mb ptr m c (by simp only [livebuf] at *; omega) hmb1 (by intro i _; omega)
  rw [show (V + (win + min c win)) % livebuf = s.bufpos by rw [hb]; congr 1; omega] at hr2
  refine ⟨V, ⟨⟨_, _, _, _, _, _, hI⟩, ?_, ?_, ?_, ?_, ?_, ?_, ?_, ?_⟩, ?_⟩
  · rw [hI]; simp [ringWrite_length, hl]
  · rw [hI]; exact hc
  · rw [hI]; simp only []; rw [hb]; simp only [livebuf]; omega
  · rw [hI]; simp only []; rwa [show win + (min c win + m) = win + min c win + m by omega]
  · rw [hI]; exact hmbl
  · intro q hq; rw [hI]; exact hmb2 q hq
  · rw [hI]; exact hcf1
  · rw [hI]; exact hcf2
  · rw [hI]; exact hm

theorem featLive_mid (win : Nat) (skip : Nat → Bool) (s : St) (ptr m o c : Nat) (hinv : LiveInv win s c)
    (hfr : MfcAt s.mfcBuf ptr m c) (hp : ptr + m ≤ s.mfcBuf.length) (hm : s.cmnMoved = false)
    (hcmn : s.cmnFrames + m ≤ cmnWinHwm) (hw : 3 * win + 1 ≤ livebuf)
    (ho : o + ((c + effN win (min c win) m - win) - (c - win)) ≤ s.featBuf.length) :
    let R := featLive win skip s ptr m false false o
    LiveOut s R ptr (effN win (min c win) m) o ((c + effN win (min c win) m - win) - (c - win))
        (fun t => canonL win (c - win + t)) ∧
      LiveInv win R.st (c + effN win (min c win) m) ∧ R.st.cmnMoved = false := by
  intro R
  have hw2 : 2 * win + 1 ≤ livebuf := by omega
  have hle := effN_le win (min c win) m (by omega)
  have hfitE := effN_fit win (min c win) m (by omega)
  generalize hmE : effN win (min c win) m = m' at *
  obtain ⟨V, hin, hmv⟩ := liveIn_mid win skip s ptr m' c hinv (fun i hi => hfr i (by omega)) (by omega) hm (by omega) hfitE
  obtain ⟨_, V0, hc0, hb0, _⟩ := hinv
  have hnb : liveNbuf win s m false false = min c win := by
    simp only [liveNbuf, Bool.false_and, if_false, Bool.false_eq_true, Nat.add_zero]
    exact nbuf_of_inv hc0 hb0 hw2
  have hnfv : min c win + m' - win = (c + m' - win) - (c - win) := by omega
  have hres : LiveOut s R ptr m' o (min c win + m' - win) (winOf win fun j => (c - win) + j - win) ∧
      R.st.cepbuf = (liveIn win skip s ptr m' false false).cepbuf ∧ R.st.bufpos = (liveIn win skip s ptr m' false false).bufpos ∧
      R.st.curpos = (V + (min c win + m' - win) + win) % livebuf ∧
      R.st.cmnMoved = (liveIn win skip s ptr m' false false).cmnMoved := by
    by_cases hcl : min c win + m > livebuf - win
    · have hm'e : m' = livebuf - min c win - win := by rw [← hmE]; unfold effN; rw [if_pos hcl]
      exact featLive_tail_clamp win skip s ptr m m' false false o V _ (min c win + m') (by simp)
        (by rw [hnb]; exact hcl) (by rw [hnb]; exact hm'e) (by simp [hnb]) hin (by rw [hnfv]; exact ho) hw2
    · have hm'e : m' = m := by rw [← hmE]; unfold effN; rw [if_neg hcl]
      subst hm'e
      exact featLive_tail win skip s ptr m' false false o V _ (min c win + m') (by simp)
        (by rw [hnb]; exact hcl) (by simp [hnb]) hin (by rw [hnfv]; exact ho) hw2
  obtain ⟨lo, h1, h2, h3, h4⟩ := hres
  refine ⟨?_, ?_, by rw [h4]; exact hmv⟩
  · rw [hnfv] at lo
    refine { lo with fbNew := ?_ }
    intro t ht
    rw [lo.fbNew t ht, winOf_canonL]
  · refine ⟨by rw [h1]; exact hin.cepLen, V + (min c win + m' - win), h3, ?_, ?_⟩
    · rw [h2, hin.buf]; simp only [livebuf]; omega
    · rw [h1]
      have := (hin.ring.shift (min c win + m' - win) (by omega))
      refine (this.mono (by omega)).congr ?_
      intro j _
      omega

/-- a call in the STARTED state that brings no frame: only the input pointer of the ring is reset -/
theorem featLive_begin0 (win : Nat) (skip : Nat → Bool) (s : St) (ptr o : Nat) :
    featLive win skip s ptr 0 true false o = ⟨{ s with bufpos := s.curpos }, 0, 0⟩ := by
  simp [featLive, liveIn, liveNbuf, cmnLive, pushMany]

/-- the first frames of the utterance (STARTED, `m ≥ 1`): start padding, whatever the ring held before -/
theorem liveIn_begin (win : Nat) (skip : Nat → Bool) (s : St) (ptr m : Nat) (hl : s.cepbuf.length = livebuf)
    (hcur : s.curpos < livebuf) (hm1 : 1 ≤ m)
    (hfr : MfcAt s.mfcBuf ptr m 0) (hp : ptr + m ≤ s.mfcBuf.length) (hm : s.cmnMoved = false)
    (hcmn : s.cmnFrames + m ≤ cmnWinHwm) (hfit : win + win + m ≤ livebuf) :
    InOut win s (liveIn win skip s ptr m true false) ptr m s.curpos (fun j => (0 - win) + j - win) m ∧
      (liveIn win skip s ptr m true false).cmnMoved = false := by
  obtain ⟨mb, cf, e1, hmbl, hmb1, hmb2, hcf1, hcf2⟩ := cmnLive_spec skip { s with bufpos := s.curpos } ptr m 0 hp hfr hm hcmn
  have hm0 : decide (m > 0) = true := by simp; omega
  have hx0 : mb.getD ptr none = some ⟨0, 1, false⟩ := by simpa using hmb1 0 (by omega)
  have e2 := pushMany_eq (List.replicate win (mb.getD ptr none))
    { s with bufpos := s.curpos, mfcBuf := mb, cmnFrames := cf } hl hcur
  simp only [List.length_replicate] at e2
  have e3 := pushMany_eq ((List.range m).map fun i => mb.getD (ptr + i) none)
    { s with mfcBuf := mb, cmnFrames := cf,
             cepbuf := ringWrite s.cepbuf s.curpos (List.replicate win (mb.getD ptr none)),
             bufpos := (s.curpos + win) % livebuf, curpos := (s.curpos + win) % livebuf }
    (by simp [ringWrite_length, hl]) (Nat.mod_lt _ (by decide))
  simp only [List.length_map, List.length_range] at e3
  have hI : liveIn win skip s ptr m true false =
      { s with mfcBuf := mb, cmnFrames := cf,
               cepbuf := ringWrite (ringWrite s.cepbuf s.curpos (List.replicate win (mb.getD ptr none)))
                 ((s.curpos + win) % livebuf) ((List.range m).map fun i => mb.getD (ptr + i) none),
               bufpos := ((s.curpos + win) % livebuf + m) % livebuf, curpos := (s.curpos + win) % livebuf } := by
    simp only [liveIn, Bool.true_and, if_true, if_false, Bool.false_eq_true, hm0, e1, e2]
    exact e3
  have hr0 : Ring s.cepbuf s.curpos (fun j => (0 - win) + j - win) 0 := fun j hj => by omega
  have hr1 := hr0.write hl (List.replicate win (mb.getD ptr none))
    (by simp only [List.length_replicate, livebuf] at *; omega)
    (by
      intro i hi
      simp only [List.length_replicate] at hi
      rw [List.getD_eq_getElem?_getD, List.getElem?_replicate]
      simp only [hi, if_true, Option.getD_some, hx0]
      congr 2; omega)
  simp only [List.length_replicate, Nat.add_zero, Nat.zero_add, Nat.mod_eq_of_lt hcur] at hr1
  have hr2 := ring_copy hr1 (by simp [ringWrite_length, hl]) mb ptr m 0 (by simp only [livebuf] at *; omega) hmb1
    (by intro i _; omega)
  refine ⟨⟨⟨_, _, _, _, _, _, hI⟩, ?_, ?_, ?_, ?_, ?_, ?_, ?_, ?_⟩, ?_⟩
  · rw [hI]; simp [ringWrite_length, hl]
  · rw [hI]
  · rw [hI]; simp only [livebuf]; omega
  · rw [hI]; exact hr2
  · rw [hI]; exact hmbl
  · intro q hq; rw [hI]; exact hmb2 q hq
  · rw [hI]; exact hcf1
  · rw [hI]; exact hcf2
  · rw [hI]; exact hm

theorem featLive_begin (win : Nat) (skip : Nat → Bool) (s : St) (ptr m o : Nat) (hl : s.cepbuf.length = livebuf)
    (hcur : s.curpos < livebuf) (hm1 : 1 ≤ m)
    (hfr : MfcAt s.mfcBuf ptr m 0) (hp : ptr + m ≤ s.mfcBuf.length) (hm : s.cmnMoved = false)
    (hcmn : s.cmnFrames + m ≤ cmnWinHwm) (hw3 : 3 * win + 1 ≤ livebuf)
    (ho : o + (effN win win m - win) ≤ s.featBuf.length) :
    let R := featLive win skip s ptr m true false o
    LiveOut s R ptr (effN win win m) o (effN win win m - win) (fun t => canonL win t) ∧ LiveInv win R.st (effN win win m) ∧
      R.st.cmnMoved = false ∧ 1 ≤ effN win win m := by
  intro R
  have hw : 2 * win + 1 ≤ livebuf := by omega
  have hle := effN_le win win m (by omega)
  have hfitE := effN_fit win win m (by omega)
  have hpos := effN_pos win win m hm1 (by omega)
  generalize hmE : effN win win m = m' at *
  obtain ⟨hin, hmv⟩ := liveIn_begin win skip s ptr m' hl hcur hpos (fun i hi => hfr i (by omega)) (by omega) hm (by omega) hfitE
  have hm0 : decide (m > 0) = true := by simp; omega
  have hm0' : decide (m' > 0) = true := by simp; omega
  have hnb : liveNbuf win s m true false = win := by
    simp [liveNbuf, hm0]
  have hres : LiveOut s R ptr m' o (m' - win) (winOf win fun j => (0 - win) + j - win) ∧
      R.st.cepbuf = (liveIn win skip s ptr m' true false).cepbuf ∧ R.st.bufpos = (liveIn win skip s ptr m' true false).bufpos ∧
      R.st.curpos = (s.curpos + (m' - win) + win) % livebuf ∧
      R.st.cmnMoved = (liveIn win skip s ptr m' true false).cmnMoved := by
    by_cases hcl : win + m > livebuf - win
    · have hm'e : m' = livebuf - win - win := by rw [← hmE]; unfold effN; rw [if_pos hcl]
      exact featLive_tail_clamp win skip s ptr m m' true false o s.curpos _ m' (by simp)
        (by rw [hnb]; exact hcl) (by rw [hnb]; exact hm'e) (by simp [hnb, hm0']) hin ho hw
    · have hm'e : m' = m := by rw [← hmE]; unfold effN; rw [if_neg hcl]
      subst hm'e
      exact featLive_tail win skip s ptr m' true false o s.curpos _ m' (by simp)
        (by rw [hnb]; exact hcl) (by simp [hnb, hm0]) hin ho hw
  obtain ⟨lo, h1, h2, h3, h4⟩ := hres
  refine ⟨?_, ?_, by rw [h4]; exact hmv, hpos⟩
  · refine { lo with fbNew := ?_ }
    intro t ht
    rw [lo.fbNew t ht, winOf_canonL, show 0 - win + t = t by omega]
  · refine ⟨by rw [h1]; exact hin.cepLen, s.curpos + (m' - win), h3, ?_, ?_⟩
    · rw [h2, hin.buf]; simp only [livebuf]; omega
    · rw [h1]
      have := (hin.ring.shift (m' - win) (by omega))
      refine (this.mono (by omega)).congr ?_
      intro j _
      omega

/-- the last call of the utterance (ENDED, `m ≥ 0` frames, at least one frame in total): end padding -/
theorem liveIn_end (win : Nat) (skip : Nat → Bool) (s : St) (ptr m c : Nat) (hinv : LiveInv win s c) (hc1 : 1 ≤ c)
    (hfr : MfcAt s.mfcBuf ptr m c) (hp : ptr + m ≤ s.mfcBuf.length) (hm : s.cmnMoved = false)
    (hcmn : s.cmnFrames + m ≤ cmnWinHwm) (hfit : m + 3 * win + 1 ≤ livebuf) :
    ∃ V, InOut win s (liveIn win skip s ptr m false true) ptr m V
      (fun j => min ((c - win) + j - win) (c + m - 1)) (min c win + m + win) := by
  obtain ⟨hl, V, hc, hb, hr⟩ := hinv
  obtain ⟨mb, cf, e1, hmbl, hmb1, hmb2, hcf1, hcf2⟩ := cmnLive_spec skip s ptr m c hp hfr hm hcmn
  have hbl : s.bufpos < livebuf := by rw [hb]; exact Nat.mod_lt _ (by decide)
  -- cmn_live_update leaves the buffers alone
  obtain ⟨cm', cf', e1u, hcfu⟩ : ∃ cm' cf', cmnUpdate { s with mfcBuf := mb, cmnFrames := cf } =
      { s with mfcBuf := mb, cmnFrames := cf', cmnMoved := cm' } ∧ cf' = cf := by
    unfold cmnUpdate
    by_cases h0 : cf = 0
    · exact ⟨s.cmnMoved, cf, by simp [h0], rfl⟩
    · have : ¬ cf > cmnWinHwm := by omega
      exact ⟨true, cf, by simp [h0, this], rfl⟩
  subst hcfu
  have e2 := pushMany_eq ((List.range m).map fun i => mb.getD (ptr + i) none)
    { s with mfcBuf := mb, cmnFrames := cf', cmnMoved := cm' } hl hbl
  simp only [List.length_map, List.length_range] at e2
  have hr2 := ring_copy hr hl mb ptr m c (by simp only [livebuf] at *; omega) hmb1 (by intro i _; omega)
  rw [show (V + (win + min c win)) % livebuf = s.bufpos by rw [hb]; congr 1; omega] at hr2
  -- the frame that is replicated
  let cb2 := ringWrite s.cepbuf s.bufpos ((List.range m).map fun i => mb.getD (ptr + i) none)
  let bp2 := (s.bufpos + m) % livebuf
  let tpos := if bp2 = 0 then livebuf - 1 else bp2 - 1
  have hbp2 : bp2 = (V + (win + min c win + m)) % livebuf := by
    simp only [bp2]; rw [hb]; simp only [livebuf]; omega
  have htpos : win ≥ 1 → tpos = (V + (win + min c win + m - 1)) % livebuf := by
    intro hw1
    simp only [tpos]; rw [hbp2]; simp only [livebuf]; split <;> omega
  have htl : tpos < livebuf := by
    have : bp2 < livebuf := Nat.mod_lt _ (by decide)
    simp only [tpos, livebuf] at *; split <;> omega
  have hx : win ≥ 1 → cb2.getD tpos none = some ⟨c + m - 1, 1, false⟩ := by
    intro hw1
    rw [htpos hw1, hr2 (win + min c win + m - 1) (by omega)]
    show some (⟨c - win + (win + min c win + m - 1) - win, 1, false⟩ : Cep) = _
    congr 2; omega
  have e3 := repLast_eq win tpos
    { s with mfcBuf := mb, cmnFrames := cf', cmnMoved := cm', cepbuf := cb2, bufpos := bp2 }
    (by simp [cb2, ringWrite_length, hl]) (Nat.mod_lt _ (by decide)) htl
    (by
      intro i hi
      simp only []
      rw [htpos (by omega), hbp2]; simp only [livebuf] at *; omega)
  have e4 := pushMany_eq (List.replicate win (cb2.getD tpos none))
    { s with mfcBuf := mb, cmnFrames := cf', cmnMoved := cm', cepbuf := cb2, bufpos := bp2 }
    (by simp [cb2, ringWrite_length, hl]) (Nat.mod_lt _ (by decide))
  simp only [List.length_replicate] at e4
  have hI : liveIn win skip s ptr m false true =
      { s with mfcBuf := mb, cmnFrames := cf', cmnMoved := cm',
               cepbuf := ringWrite cb2 bp2 (List.replicate win (cb2.getD tpos none)),
               bufpos := (bp2 + win) % livebuf } := by
    simp only [liveIn, Bool.false_and, if_false, if_true, Bool.false_eq_true, e1, e1u, e2]
    rw [e3]
    exact e4
  -- the ring with the clamped ids, then the replicated slots
  have hr3 : Ring cb2 V (fun j => min ((c - win) + j - win) (c + m - 1)) (win + min c win + m) := by
    refine hr2.congr ?_
    intro j hj
    omega
  have hr4 := hr3.write (by simp [cb2, ringWrite_length, hl]) (List.replicate win (cb2.getD tpos none))
    (by simp only [List.length_replicate, livebuf] at *; omega)
    (by
      intro i hi
      simp only [List.length_replicate] at hi
      rw [List.getD_eq_getElem?_getD, List.getElem?_replicate]
      simp only [hi, if_true, Option.getD_some]
      rw [hx (by omega)]
      congr 2; omega)
  simp only [List.length_replicate] at hr4
  rw [← hbp2] at hr4
  refine ⟨V, ⟨⟨_, _, _, _, _, _, hI⟩, ?_, ?_, ?_, ?_, ?_, ?_, ?_, ?_⟩⟩
  · rw [hI]; simp [cb2, ringWrite_length, hl]
  · rw [hI]; exact hc
  · rw [hI]; simp only []; rw [hbp2]; simp only [livebuf]; omega
  · rw [hI]; simp only []
    rwa [show win + (min c win + m + win) = win + min c win + m + win by omega]
  · rw [hI]; exact hmbl
  · intro q hq; rw [hI]; exact hmb2 q hq
  · rw [hI]; exact hcf1
  · rw [hI]; exact hcf2

theorem featLive_end (win : Nat) (skip : Nat → Bool) (s : St) (ptr m o c : Nat) (hinv : LiveInv win s c) (hc1 : 1 ≤ c)
    (hfr : MfcAt s.mfcBuf ptr m c) (hp : ptr + m ≤ s.mfcBuf.length) (hm : s.cmnMoved = false)
    (hcmn : s.cmnFrames + m ≤ cmnWinHwm) (hfit : m + 3 * win + 1 ≤ livebuf)
    (ho : o + ((c + m) - (c - win)) ≤ s.featBuf.length) :
    let R := featLive win skip s ptr m false true o
    LiveOut s R ptr m o ((c + m) - (c - win)) (fun t => canon win (c + m) (c - win + t)) := by
  intro R
  have hw : 2 * win + 1 ≤ livebuf := by omega
  obtain ⟨V, hin⟩ := liveIn_end win skip s ptr m c hinv hc1 hfr hp hm hcmn hfit
  obtain ⟨_, V0, hc0, hb0, _⟩ := hinv
  have hnb : liveNbuf win s m false true = min c win + win := by
    simp only [liveNbuf, Bool.false_and, if_false, if_true, Bool.false_eq_true, Nat.add_zero]
    rw [nbuf_of_inv hc0 hb0 hw]
  have hnfv : min c win + m + win - win = (c + m) - (c - win) := by omega
  obtain ⟨lo, -⟩ := featLive_tail win skip s ptr m false true o V _ (min c win + m + win) (by simp)
    (by rw [hnb]; simp only [livebuf] at *; omega) (by simp [hnb]; omega) hin (by rw [hnfv]; exact ho) hw
  rw [hnfv] at lo
  refine { lo with fbNew := ?_ }
  intro t ht
  rw [lo.fbNew t ht, winOf_canon]

/-! ## growing `feat_buf` -/

/-- `s'` is `s` with a longer feature buffer that keeps the old entries -/
def FbExt (s s' : St) : Prop :=
  ∃ fb a, s' = { s with featBuf := fb, nFeatAlloc := a } ∧ fb.length = a ∧ s.nFeatAlloc ≤ a ∧
    ∀ q, q < s.featBuf.length → fb.getD q none = s.featBuf.getD q none

theorem FbExt.refl (s : St) (h : s.featBuf.length = s.nFeatAlloc) : FbExt s s :=
  ⟨s.featBuf, s.nFeatAlloc, rfl, h, Nat.le_refl _, fun _ _ => rfl⟩

theorem FbExt.trans {s s' s'' : St} (h1 : FbExt s s') (h2 : FbExt s' s'') (hl : s.featBuf.length = s.nFeatAlloc) :
    FbExt s s'' := by
  obtain ⟨fb, a, e, hl1, hle, hg⟩ := h1
  obtain ⟨fb', a', e', hl2, hle', hg'⟩ := h2
  refine ⟨fb', a', ?_, hl2, ?_, ?_⟩
  · rw [e', e]
  · rw [e] at hle'; simp only [] at hle'; omega
  · intro q hq
    rw [e] at hg'; simp only [] at hg'
    rw [hg' q (by omega), hg q hq]

theorem growFeatBuf_ext (s : St) (nfr : Nat) (hl : s.featBuf.length = s.nFeatAlloc) (h : s.nFeatAlloc ≤ nfr) :
    FbExt s (growFeatBuf s nfr) := by
  refine ⟨s.featBuf ++ List.replicate (nfr - s.featBuf.length) none, nfr, rfl, by simp; omega, h, ?_⟩
  intro q hq
  simp [List.getD_eq_getElem?_getD, List.getElem?_append_left hq]

theorem growLoop_ext : ∀ (fuel : Nat) (s : St) (need : Int), s.featBuf.length = s.nFeatAlloc → 1 ≤ s.nFeatAlloc →
    need.toNat < s.nFeatAlloc + fuel →
    FbExt s (growLoop fuel s need) ∧ need < ((growLoop fuel s need).nFeatAlloc : Int) := by
  intro fuel
  induction fuel with
  | zero =>
    intro s need hl h1 hf
    have : ¬ need ≥ (s.nFeatAlloc : Int) := by omega
    simp only [growLoop, this, if_false]
    exact ⟨FbExt.refl s hl, by omega⟩
  | succ fuel ih =>
    intro s need hl h1 hf
    by_cases h : need ≥ (s.nFeatAlloc : Int)
    · simp only [growLoop, h, if_true]
      have hg := growFeatBuf_ext s (s.nFeatAlloc * 2) hl (by omega)
      obtain ⟨fb, a, e, hl1, hle, _⟩ := hg
      have hl' : (growFeatBuf s (s.nFeatAlloc * 2)).featBuf.length = (growFeatBuf s (s.nFeatAlloc * 2)).nFeatAlloc := by
        rw [e]; exact hl1
      have ha : (growFeatBuf s (s.nFeatAlloc * 2)).nFeatAlloc = s.nFeatAlloc * 2 := rfl
      obtain ⟨i1, i2⟩ := ih (growFeatBuf s (s.nFeatAlloc * 2)) need hl' (by rw [ha]; omega) (by rw [ha]; omega)
      exact ⟨(growFeatBuf_ext s (s.nFeatAlloc * 2) hl (by omega)).trans i1 hl, i2⟩
    · simp only [growLoop, h, if_false]
      exact ⟨FbExt.refl s hl, by omega⟩

/-- the two growth steps of `acmod_process_cep` leave room for `inptr + nfeat` -/
theorem cepGrow_spec (s : St) (nfeat : Int) (hl : s.featBuf.length = s.nFeatAlloc) (h1 : 1 ≤ s.nFeatAlloc)
    (hff : s.nFeatFrame ≤ s.nFeatAlloc) :
    FbExt s (cepGrow s nfeat) ∧
      ((s.featOutidx + s.nFeatFrame : Nat) : Int) + nfeat < ((cepGrow s nfeat).nFeatAlloc : Int) := by
  have hs1 : FbExt s (if nfeat > (s.nFeatAlloc : Int) - s.nFeatFrame then
      growFeatBuf s ((s.nFeatAlloc : Int) + nfeat).toNat else s) := by
    split
    · exact growFeatBuf_ext s _ hl (by omega)
    · exact FbExt.refl s hl
  obtain ⟨fb, a, e, hl1, hle, hg⟩ := hs1
  unfold cepGrow
  simp only []
  rw [e]
  simp only []
  obtain ⟨i1, i2⟩ := growLoop_ext ((((s.featOutidx + s.nFeatFrame : Nat) : Int) + nfeat).toNat + 1)
    { s with featBuf := fb, nFeatAlloc := a } (((s.featOutidx + s.nFeatFrame : Nat) : Int) + nfeat) hl1
    (by simp only []; omega) (by simp only []; omega)
  exact ⟨FbExt.trans ⟨fb, a, rfl, hl1, hle, hg⟩ i1 hl, i2⟩

theorem processCep_eq (fix : Bool) (win : Nat) (skip : Nat → Bool) (s : St) (ptr n : Nat) (hg : s.growFeat = true)
    (hl : s.featBuf.length = s.nFeatAlloc) (h1 : 1 ≤ s.nFeatAlloc) (hff : s.nFeatFrame ≤ s.nFeatAlloc) :
    processCep fix win skip s ptr n =
      cepFinish fix (featLive win skip (cepGrow s (cepNfeat win s n)) ptr n (s.state == .started) (s.state == .ended)
        (s.featOutidx + s.nFeatFrame)) := by
  obtain ⟨hext, hroom⟩ := cepGrow_spec s (cepNfeat win s n) hl h1 hff
  obtain ⟨fb, a, e, -, -, -⟩ := hext
  have hst : (cepGrow s (cepNfeat win s n)).state = s.state := by rw [e]
  have h2 : ¬ (((s.featOutidx + s.nFeatFrame : Nat) : Int) + cepNfeat win s n >
      ((cepGrow s (cepNfeat win s n)).nFeatAlloc : Int)) := by omega
  unfold processCep
  simp only [hg, Bool.not_true, Bool.false_eq_true, if_false, h2, false_and, hst]

/-! ## `acmod_process_cep` -/

theorem LiveInv.of_eq {win c} {s s' : St} (h : LiveInv win s c) (h1 : s'.cepbuf = s.cepbuf) (h2 : s'.curpos = s.curpos)
    (h3 : s'.bufpos = s.bufpos) : LiveInv win s' c := by
  unfold LiveInv at *
  rw [h1, h2, h3]; exact h

/-- what `acmod_process_cep` leaves, relative to the state before the call -/
structure CepOut (s s' : St) (ptr m nfv : Nat) (feat : Nat → Feat) (st' : UState) : Prop where
  frame : ∃ cb bp cp fb a mb cf cm, s' =
    { s with cepbuf := cb, bufpos := bp, curpos := cp, featBuf := fb, nFeatAlloc := a,
             nFeatFrame := s.nFeatFrame + nfv, mfcBuf := mb, cmnFrames := cf, cmnMoved := cm, state := st' }
  fbLen : s'.featBuf.length = s'.nFeatAlloc
  allocLe : s.nFeatAlloc ≤ s'.nFeatAlloc
  room : s.featOutidx + s.nFeatFrame + nfv < s'.nFeatAlloc
  fbNew : ∀ t, t < nfv → s'.featBuf.getD (s.featOutidx + s.nFeatFrame + t) none = some (feat t)
  fbOld : ∀ q, q < s.featOutidx + s.nFeatFrame → s'.featBuf.getD q none = s.featBuf.getD q none
  mbLen : s'.mfcBuf.length = s.mfcBuf.length
  mbOld : ∀ q, (q < ptr ∨ q ≥ ptr + m) → s'.mfcBuf.getD q none = s.mfcBuf.getD q none
  cmnLo : s.cmnFrames ≤ s'.cmnFrames
  cmnHi : s'.cmnFrames ≤ s.cmnFrames + m

theorem cepFinish_spec (fix : Bool) (s s2 : St) (R : LiveRes) (ptr m nfv : Nat) (feat : Nat → Feat)
    (hext : FbExt s s2) (hlo : LiveOut s2 R ptr m (s.featOutidx + s.nFeatFrame) nfv feat)
    (hroom : s.featOutidx + s.nFeatFrame + nfv < s2.nFeatAlloc) (ho : s.featOutidx + s.nFeatFrame ≤ s.featBuf.length) :
    (cepFinish fix R).used = m ∧
    CepOut s (cepFinish fix R).st ptr m nfv feat
      (if s.state = .started ∧ (!fix || decide (m > 0)) then .processing else s.state) ∧
    (cepFinish fix R).st.cepbuf = R.st.cepbuf ∧ (cepFinish fix R).st.bufpos = R.st.bufpos ∧
    (cepFinish fix R).st.curpos = R.st.curpos ∧ (cepFinish fix R).st.cmnMoved = R.st.cmnMoved := by
  obtain ⟨fb0, a0, e0, hl0, hle0, hg0⟩ := hext
  obtain ⟨cb, bp, cp, fb, mb, cf, cm, eR⟩ := hlo.frame
  have hRa : R.st.nFeatAlloc = a0 := by rw [eR, e0]
  have hRf : R.st.nFeatFrame = s.nFeatFrame := by rw [eR, e0]
  have hRs : R.st.state = s.state := by rw [eR, e0]
  have hs2a : s2.nFeatAlloc = a0 := by rw [e0]
  have hassert : R.st.nFeatFrame + R.nfeat ≤ R.st.nFeatAlloc := by rw [hRa, hRf, hlo.nfeat]; omega
  have hE : (cepFinish fix R).st =
      { s with cepbuf := cb, bufpos := bp, curpos := cp, featBuf := fb, nFeatAlloc := a0,
               nFeatFrame := s.nFeatFrame + nfv, mfcBuf := mb, cmnFrames := cf, cmnMoved := cm,
               state := if s.state = .started ∧ (!fix || decide (m > 0)) then .processing else s.state } := by
    unfold cepFinish
    simp only [hassert, if_true, hRs, hlo.used]
    rw [hlo.nfeat, eR, e0]
    split <;> rfl
  have hfbl : fb.length = a0 := by
    have := hlo.fbLen; rw [eR, e0] at this; simp only [] at this; omega
  have hfbR : R.st.featBuf = fb := by rw [eR]
  have hmbR : R.st.mfcBuf = mb := by rw [eR]
  have hcfR : R.st.cmnFrames = cf := by rw [eR]
  have hs2fb : s2.featBuf = fb0 := by rw [e0]
  have hs2mb : s2.mfcBuf = s.mfcBuf := by rw [e0]
  have hs2cf : s2.cmnFrames = s.cmnFrames := by rw [e0]
  refine ⟨by unfold cepFinish; exact hlo.used, ⟨⟨_, _, _, _, _, _, _, _, hE⟩, ?_, ?_, ?_, ?_, ?_, ?_, ?_, ?_, ?_⟩, ?_, ?_, ?_, ?_⟩
  · rw [hE]; exact hfbl
  · rw [hE]; exact hle0
  · rw [hE]; simp only []; omega
  · intro t ht; rw [hE]; simp only []; rw [← hfbR]; exact hlo.fbNew t ht
  · intro q hq; rw [hE]; simp only []; rw [← hfbR, hlo.fbOld q (by omega), hs2fb, hg0 q (by omega)]
  · rw [hE]; simp only []; rw [← hmbR, hlo.mbLen, hs2mb]
  · intro q hq; rw [hE]; simp only []; rw [← hmbR, hlo.mbOld q hq, hs2mb]
  · rw [hE]; simp only []; rw [← hcfR, ← hs2cf]; exact hlo.cmnLo
  · rw [hE]; simp only []; rw [← hcfR, ← hs2cf]; exact hlo.cmnHi
  · rw [hE, eR]
  · rw [hE, eR]
  · rw [hE, eR]
  · rw [hE, eR]

/-- feature-side invariant between calls while the utterance is open: `c` cepstral frames have been
    consumed, the features `0 … c - win - 1` are in `feat_buf[0 ..]` (never wrapped), the first
    `output_frame` of them have been searched -/
structure FCore (win : Nat) (s : St) (c : Nat) : Prop where
  nofault : s.fault = none
  grow : s.growFeat = true
  cepLen : s.cepbuf.length = livebuf
  cur : s.curpos < livebuf
  fbLen : s.featBuf.length = s.nFeatAlloc
  outIdx : s.featOutidx = s.outputFrame
  cnt : s.outputFrame + s.nFeatFrame = c - win
  room : c - win < s.nFeatAlloc
  feats : ∀ k, k < c - win → s.featBuf.getD k none = some (canonL win k)
  moved : s.cmnMoved = false

theorem LiveInv.cur {win c} {s : St} (h : LiveInv win s c) : s.curpos < livebuf := by
  obtain ⟨_, V, hc, _, _⟩ := h
  rw [hc]; exact Nat.mod_lt _ (by decide)

/-- the outer bookkeeping shared by the three modes -/
theorem FCore.step {win c c' ptr m nfv} {s s' : St} {feat : Nat → Feat} {st' : UState} (h : FCore win s c)
    (ho : CepOut s s' ptr m nfv feat st') (hc' : c' - win = (c - win) + nfv)
    (hfeat : ∀ t, t < nfv → feat t = canonL win (c - win + t))
    (hcl : s'.cepbuf.length = livebuf) (hcur : s'.curpos < livebuf) (hmv : s'.cmnMoved = false) :
    FCore win s' c' := by
  obtain ⟨cb, bp, cp, fb, a, mb, cf, cm, e⟩ := ho.frame
  have ho1 := h.outIdx
  have ho2 := h.cnt
  refine ⟨by rw [e]; exact h.nofault, by rw [e]; exact h.grow, hcl, hcur, ho.fbLen, by rw [e]; exact h.outIdx, ?_, ?_, ?_, hmv⟩
  · rw [e]; simp only []; omega
  · have := ho.room; omega
  · intro k hk
    by_cases hk2 : k < c - win
    · rw [ho.fbOld k (by omega)]; exact h.feats k hk2
    · have := ho.fbNew (k - (c - win)) (by omega)
      rw [show s.featOutidx + s.nFeatFrame + (k - (c - win)) = k by omega] at this
      rw [this, hfeat _ (by omega)]
      congr 2; omega

theorem processCep_mid (win : Nat) (skip : Nat → Bool) (s : St) (ptr m c : Nat) (h : FCore win s c)
    (hlive : LiveInv win s c) (hst : s.state = .processing)
    (hfr : MfcAt s.mfcBuf ptr m c) (hp : ptr + m ≤ s.mfcBuf.length)
    (hcmn : s.cmnFrames + m ≤ cmnWinHwm) (hw : 3 * win + 1 ≤ livebuf) :
    let r := processCep true win skip s ptr m
    r.used = effN win (min c win) m ∧ FCore win r.st (c + effN win (min c win) m) ∧
      LiveInv win r.st (c + effN win (min c win) m) ∧
      CepOut s r.st ptr (effN win (min c win) m) ((c + effN win (min c win) m - win) - (c - win))
        (fun t => canonL win (c - win + t)) .processing := by
  intro r
  have hr : r = cepFinish true (featLive win skip (cepGrow s (cepNfeat win s m)) ptr m false false
      (s.featOutidx + s.nFeatFrame)) := by
    simp only [r]
    rw [processCep_eq true win skip s ptr m h.grow h.fbLen (by have := h.room; omega) (by have := h.room; have := h.cnt; omega)]
    rw [hst, show (UState.processing == UState.started) = false by decide,
      show (UState.processing == UState.ended) = false by decide]
  have hnf : cepNfeat win s m = m := by simp [cepNfeat, hst]
  obtain ⟨hext, hroom⟩ := cepGrow_spec s (cepNfeat win s m) h.fbLen (by have := h.room; omega)
    (by have := h.room; have := h.cnt; omega)
  rw [hnf] at hext hroom hr
  obtain ⟨fb0, a0, e0, hl0, hle0, hg0⟩ := hext
  have ho1 := h.outIdx
  have ho2 := h.cnt
  have ha : (cepGrow s m).nFeatAlloc = a0 := by rw [e0]
  rw [ha] at hroom
  have hle := effN_le win (min c win) m (by omega)
  obtain ⟨lo, hli, hmv⟩ := featLive_mid win skip (cepGrow s m) ptr m (s.featOutidx + s.nFeatFrame) c
    (hlive.of_eq (by rw [e0]) (by rw [e0]) (by rw [e0])) (by rw [e0]; exact hfr) (by rw [e0]; exact hp)
    (by rw [e0]; exact h.moved) (by rw [e0]; exact hcmn) hw
    (by rw [e0]; simp only []; omega)
  generalize effN win (min c win) m = m' at *
  obtain ⟨f1, f2, f3, f4, f5, f6⟩ := cepFinish_spec true s (cepGrow s m) _ ptr m' _ _ ⟨fb0, a0, e0, hl0, hle0, hg0⟩ lo
    (by rw [ha]; omega) (by have := h.fbLen; have := h.room; omega)
  rw [← hr] at f1 f2 f3 f4 f5 f6
  have hst' : (if s.state = .started ∧ (!true || decide (m' > 0)) then UState.processing else s.state) = .processing := by
    simp [hst]
  rw [hst'] at f2
  have hli' : LiveInv win r.st (c + m') := hli.of_eq f3 f5 f4
  exact ⟨f1, h.step f2 (by omega) (fun _ _ => rfl) hli'.1 hli'.cur (by rw [f6]; exact hmv), hli', f2⟩

/-- first frames of the utterance: STARTED → PROCESSING with the start padding -/
theorem processCep_start (win : Nat) (skip : Nat → Bool) (s : St) (ptr m : Nat) (h : FCore win s 0)
    (hst : s.state = .started) (hm1 : 1 ≤ m)
    (hfr : MfcAt s.mfcBuf ptr m 0) (hp : ptr + m ≤ s.mfcBuf.length)
    (hcmn : s.cmnFrames + m ≤ cmnWinHwm) (hw : 3 * win + 1 ≤ livebuf) :
    let r := processCep true win skip s ptr m
    r.used = effN win win m ∧ FCore win r.st (effN win win m) ∧ LiveInv win r.st (effN win win m) ∧
      CepOut s r.st ptr (effN win win m) (effN win win m - win) (fun t => canonL win t) .processing ∧
      1 ≤ effN win win m := by
  intro r
  have ho1 := h.outIdx
  have ho2 := h.cnt
  have hroom0 := h.room
  have hr : r = cepFinish true (featLive win skip (cepGrow s (cepNfeat win s m)) ptr m true false
      (s.featOutidx + s.nFeatFrame)) := by
    simp only [r]
    rw [processCep_eq true win skip s ptr m h.grow h.fbLen (by omega) (by omega)]
    rw [hst, show (UState.started == UState.started) = true by decide,
      show (UState.started == UState.ended) = false by decide]
  have hnf : cepNfeat win s m = (m : Int) - win := by simp [cepNfeat, hst]
  obtain ⟨hext, hroom⟩ := cepGrow_spec s (cepNfeat win s m) h.fbLen (by omega) (by omega)
  rw [hnf] at hext hroom hr
  obtain ⟨fb0, a0, e0, hl0, hle0, hg0⟩ := hext
  have ha : (cepGrow s ((m : Int) - win)).nFeatAlloc = a0 := by rw [e0]
  rw [ha] at hroom
  have hle := effN_le win win m (by omega)
  obtain ⟨lo, hli, hmv, hpos⟩ := featLive_begin win skip (cepGrow s ((m : Int) - win)) ptr m (s.featOutidx + s.nFeatFrame)
    (by rw [e0]; exact h.cepLen) (by rw [e0]; exact h.cur) hm1 (by rw [e0]; exact hfr) (by rw [e0]; exact hp)
    (by rw [e0]; exact h.moved) (by rw [e0]; exact hcmn) hw
    (by rw [e0]; simp only []; omega)
  generalize effN win win m = m' at *
  obtain ⟨f1, f2, f3, f4, f5, f6⟩ := cepFinish_spec true s (cepGrow s ((m : Int) - win)) _ ptr m' _ _
    ⟨fb0, a0, e0, hl0, hle0, hg0⟩ lo (by rw [ha]; omega) (by have := h.fbLen; omega)
  rw [← hr] at f1 f2 f3 f4 f5 f6
  have hst' : (if s.state = .started ∧ (!true || decide (m' > 0)) then UState.processing else s.state) = .processing := by
    have : m' > 0 := by omega
    simp [hst, this]
  rw [hst'] at f2
  have hli' : LiveInv win r.st m' := hli.of_eq f3 f5 f4
  refine ⟨f1, h.step f2 (by omega) (fun t _ => ?_) hli'.1 hli'.cur (by rw [f6]; exact hmv), hli', f2, hpos⟩
  rw [show 0 - win + t = t by omega]

/-- a call that brings no frame while STARTED: nothing happens (with the D8 repair the state stays STARTED) -/
theorem processCep_start0 (win : Nat) (skip : Nat → Bool) (s : St) (ptr : Nat) (h : FCore win s 0)
    (hst : s.state = .started) :
    let r := processCep true win skip s ptr 0
    r.used = 0 ∧ FCore win r.st 0 ∧ CepOut s r.st ptr 0 0 (fun t => canonL win t) .started := by
  intro r
  have ho1 := h.outIdx
  have ho2 := h.cnt
  have hroom0 := h.room
  have hr : r = cepFinish true (featLive win skip (cepGrow s (cepNfeat win s 0)) ptr 0 true false
      (s.featOutidx + s.nFeatFrame)) := by
    simp only [r]
    rw [processCep_eq true win skip s ptr 0 h.grow h.fbLen (by omega) (by omega)]
    rw [hst, show (UState.started == UState.started) = true by decide,
      show (UState.started == UState.ended) = false by decide]
  obtain ⟨hext, hroom⟩ := cepGrow_spec s (cepNfeat win s 0) h.fbLen (by omega) (by omega)
  obtain ⟨fb0, a0, e0, hl0, hle0, hg0⟩ := hext
  have ha : (cepGrow s (cepNfeat win s 0)).nFeatAlloc = a0 := by rw [e0]
  have hE : r.st = { s with bufpos := s.curpos, featBuf := fb0, nFeatAlloc := a0 } := by
    rw [hr, featLive_begin0, e0]
    simp [cepFinish, hst]
    omega
  have hu : r.used = 0 := by rw [hr, featLive_begin0]; rfl
  have hco : CepOut s r.st ptr 0 0 (fun t => canonL win t) .started := by
    refine ⟨⟨s.cepbuf, s.curpos, s.curpos, fb0, a0, s.mfcBuf, s.cmnFrames, s.cmnMoved, ?_⟩, ?_, ?_, ?_, ?_, ?_, ?_, ?_, ?_, ?_⟩
    · rw [hE]; simp only [Nat.add_zero]; rw [← hst]
    · rw [hE]; exact hl0
    · rw [hE]; exact hle0
    · rw [hE]; simp only []; omega
    · intro t ht; omega
    · intro q hq; omega
    · rw [hE]
    · intro q _; rw [hE]
    · rw [hE]; exact Nat.le_refl _
    · rw [hE]; exact Nat.le_refl _
  exact ⟨hu, h.step hco (by omega) (fun t ht => by omega) (by rw [hE]; exact h.cepLen) (by rw [hE]; exact h.cur)
    (by rw [hE]; exact h.moved), hco⟩

/-- what the buffers hold once the end padding has been flushed: all `M` canonical features -/
structure EndCore (win : Nat) (s : St) (M : Nat) : Prop where
  nofault : s.fault = none
  grow : s.growFeat = true
  fbLen : s.featBuf.length = s.nFeatAlloc
  outIdx : s.featOutidx = s.outputFrame
  cnt : s.outputFrame + s.nFeatFrame = M
  room : M < s.nFeatAlloc
  feats : ∀ k, k < M → s.featBuf.getD k none = some (canon win M k)

/-- the flush at the end of the utterance (state ENDED): `m ≥ 0` last frames plus the end padding -/
theorem processCep_end (win : Nat) (skip : Nat → Bool) (s : St) (ptr m c : Nat) (h : FCore win s c)
    (hlive : LiveInv win s c) (hc1 : 1 ≤ c) (hst : s.state = .ended)
    (hfr : MfcAt s.mfcBuf ptr m c) (hp : ptr + m ≤ s.mfcBuf.length)
    (hcmn : s.cmnFrames + m ≤ cmnWinHwm) (hfit : m + 3 * win + 1 ≤ livebuf) :
    let r := processCep true win skip s ptr m
    r.used = m ∧ EndCore win r.st (c + m) ∧
      CepOut s r.st ptr m ((c + m) - (c - win)) (fun t => canon win (c + m) (c - win + t)) .ended := by
  intro r
  have ho1 := h.outIdx
  have ho2 := h.cnt
  have hroom0 := h.room
  have hr : r = cepFinish true (featLive win skip (cepGrow s (cepNfeat win s m)) ptr m false true
      (s.featOutidx + s.nFeatFrame)) := by
    simp only [r]
    rw [processCep_eq true win skip s ptr m h.grow h.fbLen (by omega) (by omega)]
    rw [hst, show (UState.ended == UState.started) = false by decide,
      show (UState.ended == UState.ended) = true by decide]
  have hnf : cepNfeat win s m = (m : Int) + win := by simp [cepNfeat, hst]
  obtain ⟨hext, hroom⟩ := cepGrow_spec s (cepNfeat win s m) h.fbLen (by omega) (by omega)
  rw [hnf] at hext hroom hr
  obtain ⟨fb0, a0, e0, hl0, hle0, hg0⟩ := hext
  have ha : (cepGrow s ((m : Int) + win)).nFeatAlloc = a0 := by rw [e0]
  rw [ha] at hroom
  have lo := featLive_end win skip (cepGrow s ((m : Int) + win)) ptr m (s.featOutidx + s.nFeatFrame) c
    (hlive.of_eq (by rw [e0]) (by rw [e0]) (by rw [e0])) hc1 (by rw [e0]; exact hfr) (by rw [e0]; exact hp)
    (by rw [e0]; exact h.moved) (by rw [e0]; exact hcmn) hfit
    (by rw [e0]; simp only []; omega)
  obtain ⟨f1, f2, -, -, -, -⟩ := cepFinish_spec true s (cepGrow s ((m : Int) + win)) _ ptr m _ _
    ⟨fb0, a0, e0, hl0, hle0, hg0⟩ lo (by rw [ha]; omega) (by have := h.fbLen; omega)
  rw [← hr] at f1 f2
  have hst' : (if s.state = .started ∧ (!true || decide (m > 0)) then UState.processing else s.state) = .ended := by
    simp [hst]
  rw [hst'] at f2
  refine ⟨f1, ?_, f2⟩
  obtain ⟨cb, bp, cp, fb, a, mb, cf, cm, e⟩ := f2.frame
  refine ⟨by rw [e]; exact h.nofault, by rw [e]; exact h.grow, f2.fbLen, by rw [e]; exact h.outIdx, ?_, ?_, ?_⟩
  · rw [e]; simp only []; omega
  · have := f2.room; omega
  · intro k hk
    by_cases hk2 : k < c - win
    · rw [f2.fbOld k (by omega), h.feats k hk2]
      congr 1
      exact canonL_eq_canon win (c + m) k (by omega)
    · have := f2.fbNew (k - (c - win)) (by omega)
      rw [show s.featOutidx + s.nFeatFrame + (k - (c - win)) = k by omega] at this
      rw [this]
      congr 2; omega

/-! ## the search side -/

/-- the queue discipline of `feat_buf` when it never wraps -/
structure QInv (s : St) : Prop where
  nofault : s.fault = none
  fbLen : s.featBuf.length = s.nFeatAlloc
  outIdx : s.featOutidx = s.outputFrame
  room : s.outputFrame + s.nFeatFrame < s.nFeatAlloc

/-- every first-pass search step so far read `feat_buf[k]` for its frame `k`, in order, each once -/
def SearchedOK (s : St) : Prop :=
  s.searched = (List.range s.outputFrame).map fun k => (k, s.featBuf.getD k none)

/-- every alignment pass read `feat_buf[k]` for the frames `k` below some `p ≤ output_frame` -/
def AlignedOK (s : St) : Prop :=
  ∀ l, l ∈ s.aligned → ∃ p, p ≤ s.outputFrame ∧ l = (List.range p).map fun k => (k, s.featBuf.getD k none)

theorem scoreRead_eq (s : St) (h : QInv s) (hn : 1 ≤ s.nFeatFrame) :
    scoreRead s = some (s.outputFrame, s.featBuf.getD s.outputFrame none) := by
  have h1 := h.fbLen
  have h2 := h.outIdx
  have h3 := h.room
  have hidx : featIdx s s.outputFrame = some s.outputFrame := by
    unfold featIdx
    have c1 : ¬ ((s.outputFrame : Int) - (s.outputFrame : Int) > (s.nFeatAlloc : Int) - (s.nFeatFrame : Int)) := by omega
    have c2 : ¬ s.nFeatAlloc = 0 := by omega
    simp only [c1, c2, if_false]
    congr 1
    rw [h2]
    have : ((s.outputFrame : Int) + (s.outputFrame : Int) - (s.outputFrame : Int)) = (s.outputFrame : Int) := by omega
    rw [this, Int.emod_eq_of_lt (by omega) (by omega)]
    simp
  unfold scoreRead
  rw [hidx]
  simp only []
  rw [if_pos (by omega)]

theorem advance_eq (s : St) (h : QInv s) (hn : 1 ≤ s.nFeatFrame) :
    advance s = { s with featOutidx := s.featOutidx + 1, nFeatFrame := s.nFeatFrame - 1, outputFrame := s.outputFrame + 1 } := by
  have h2 := h.outIdx
  have h3 := h.room
  unfold advance
  rw [if_neg (by omega), if_neg (by omega)]

theorem QInv.withSearched {s : St} (h : QInv s) (sr : List (Nat × Option Feat)) : QInv { s with searched := sr } :=
  ⟨h.nofault, h.fbLen, h.outIdx, h.room⟩

theorem searchN_spec : ∀ (n : Nat) (s : St), QInv s → n ≤ s.nFeatFrame → SearchedOK s →
    ∃ sr, searchN n s = { s with searched := sr, featOutidx := s.featOutidx + n, nFeatFrame := s.nFeatFrame - n,
                                 outputFrame := s.outputFrame + n } ∧
      sr = (List.range (s.outputFrame + n)).map fun k => (k, s.featBuf.getD k none) := by
  intro n
  induction n with
  | zero =>
    intro s _ _ hs
    exact ⟨s.searched, by simp [searchN], by simpa [SearchedOK] using hs⟩
  | succ n ih =>
    intro s hq hn hs
    have hadv := advance_eq _ (hq.withSearched (s.searched ++ [(s.outputFrame, s.featBuf.getD s.outputFrame none)]))
      (by simp only []; omega)
    simp only [] at hadv
    have hq' : QInv { s with searched := s.searched ++ [(s.outputFrame, s.featBuf.getD s.outputFrame none)],
                             featOutidx := s.featOutidx + 1, nFeatFrame := s.nFeatFrame - 1,
                             outputFrame := s.outputFrame + 1 } :=
      ⟨hq.nofault, hq.fbLen, by simp only []; rw [hq.outIdx], by have := hq.room; simp only []; omega⟩
    obtain ⟨sr, e, hsr⟩ := ih _ hq' (by simp only []; omega)
      (by
        unfold SearchedOK at *
        simp only []
        rw [hs, List.range_succ, List.map_append]
        rfl)
    simp only [] at e hsr
    refine ⟨sr, ?_, ?_⟩
    · simp only [searchN, scoreRead_eq s hq (by omega)]
      rw [hadv, e]
      congr 1 <;> omega
    · rw [hsr, show s.outputFrame + 1 + n = s.outputFrame + (n + 1) by omega]

theorem searchForward_spec (s : St) (hq : QInv s) (hs : SearchedOK s) :
    searchForward s = { s with searched := (List.range (s.outputFrame + s.nFeatFrame)).map fun k => (k, s.featBuf.getD k none),
                               featOutidx := s.featOutidx + s.nFeatFrame, nFeatFrame := 0,
                               outputFrame := s.outputFrame + s.nFeatFrame } := by
  obtain ⟨sr, e, hsr⟩ := searchN_spec s.nFeatFrame s hq (Nat.le_refl _) hs
  unfold searchForward
  rw [e, hsr, Nat.sub_self]

theorem filter_lt_range (u : Nat) : ∀ n, (List.range n).filter (fun k => decide (k < u)) = List.range (min u n) := by
  intro n
  induction n with
  | zero => simp
  | succ n ih =>
    rw [List.range_succ, List.filter_append, ih]
    by_cases h : n < u
    · rw [show min u (n + 1) = n + 1 by omega, show min u n = n by omega, List.range_succ]
      simp [h]
    · rw [show min u (n + 1) = u by omega, show min u n = u by omega]
      simp [h]

theorem alignN_spec (upto : Nat) : ∀ (n : Nat) (s : St) (acc : List (Nat × Option Feat)), QInv s → n ≤ s.nFeatFrame →
    alignN n upto s acc =
      ({ s with featOutidx := s.featOutidx + n, nFeatFrame := s.nFeatFrame - n, outputFrame := s.outputFrame + n },
       acc ++ ((List.range' s.outputFrame n).filter fun k => decide (k < upto)).map fun k => (k, s.featBuf.getD k none)) := by
  intro n
  induction n with
  | zero => intro s acc _ _; simp [alignN]
  | succ n ih =>
    intro s acc hq hn
    have hadv := advance_eq s hq (by omega)
    have hq' : QInv { s with featOutidx := s.featOutidx + 1, nFeatFrame := s.nFeatFrame - 1,
                             outputFrame := s.outputFrame + 1 } :=
      ⟨hq.nofault, hq.fbLen, by simp only []; rw [hq.outIdx], by have := hq.room; simp only []; omega⟩
    by_cases hu : s.outputFrame < upto
    · simp only [alignN, hu, if_true, scoreRead_eq s hq (by omega)]
      rw [hadv, ih _ _ hq' (by simp only []; omega)]
      simp only [List.range'_succ, List.filter_cons, hu, decide_true, if_true, List.map_cons, List.append_assoc,
        List.singleton_append]
      congr 2 <;> omega
    · simp only [alignN, hu, if_false]
      rw [hadv, ih _ _ hq' (by simp only []; omega)]
      simp only [List.range'_succ, List.filter_cons, hu, decide_false, if_false, Bool.false_eq_true]
      congr 2 <;> omega

/-- an alignment pass reads `feat_buf[k]` for the frames below `min upto output_frame` and puts every
    counter back where it was -/
theorem alignPass_spec (s : St) (upto : Nat) (hq : QInv s) :
    alignPass s upto =
      { s with aligned := s.aligned ++ [(List.range (min upto s.outputFrame)).map fun k => (k, s.featBuf.getD k none)] } := by
  have hroom := hq.room
  have hq1 : QInv { s with nFeatFrame := s.outputFrame + s.nFeatFrame, featOutidx := 0, outputFrame := 0 } :=
    ⟨hq.nofault, hq.fbLen, rfl, by simp only []; omega⟩
  unfold alignPass
  rw [if_neg (by omega)]
  simp only []
  rw [alignN_spec upto s.outputFrame _ [] hq1 (by simp only []; omega)]
  simp only [List.nil_append, Nat.zero_add, Nat.add_sub_cancel_left, ← List.range_eq_range', filter_lt_range]
  rw [← hq.outIdx]

/-! ## `acmod_process_mfcbuf` -/

/-- position `i` behind `o` in a ring of `K` slots -/
theorem ring_mod (o i K : Nat) (ho : o < K) (hi : i ≤ K) : (o + i) % K = if o + i < K then o + i else o + i - K := by
  split
  · rename_i h; exact Nat.mod_eq_of_lt h
  · rename_i h
    rw [Nat.mod_eq_sub_mod (by omega), Nat.mod_eq_of_lt (by omega)]

/-- the cepstrum ring (any size): `nMfcFrame` fresh frames `c, c+1, …` starting at `mfcOutidx`; `nextId` counts them -/
structure MfcInv (s : St) (c : Nat) : Prop where
  len : s.mfcBuf.length = s.nMfcAlloc
  out : s.mfcOutidx < s.nMfcAlloc
  cnt : s.nMfcFrame ≤ s.nMfcAlloc
  next : s.nextId = c + s.nMfcFrame
  frames : ∀ i, i < s.nMfcFrame → s.mfcBuf.getD ((s.mfcOutidx + i) % s.nMfcAlloc) none = some ⟨c + i, 0, false⟩

/-- what a processing call keeps of the outer state -/
structure Keep (s s' : St) (k : Nat) : Prop where
  searched : s'.searched = s.searched
  aligned : s'.aligned = s.aligned
  outFrame : s'.outputFrame = s.outputFrame
  cmnLo : s.cmnFrames ≤ s'.cmnFrames
  cmnHi : s'.cmnFrames ≤ s.cmnFrames + k
  fbOld : ∀ q, q < s.featOutidx + s.nFeatFrame → s'.featBuf.getD q none = s.featBuf.getD q none
  queue : s.featOutidx + s.nFeatFrame ≤ s'.featOutidx + s'.nFeatFrame
  outIdx : s'.featOutidx = s.featOutidx

theorem Keep.refl (s : St) : Keep s s 0 :=
  ⟨rfl, rfl, rfl, Nat.le_refl _, Nat.le_refl _, fun _ _ => rfl, Nat.le_refl _, rfl⟩

theorem Keep.trans {s s' s'' : St} {k k' : Nat} (h1 : Keep s s' k) (h2 : Keep s' s'' k') : Keep s s'' (k + k') := by
  refine ⟨h2.searched.trans h1.searched, h2.aligned.trans h1.aligned, h2.outFrame.trans h1.outFrame,
    Nat.le_trans h1.cmnLo h2.cmnLo, ?_, ?_, Nat.le_trans h1.queue h2.queue,
    h2.outIdx.trans h1.outIdx⟩
  · have := h1.cmnHi; have := h2.cmnHi; omega
  · intro q hq
    have := h1.queue
    rw [h2.fbOld q (by omega), h1.fbOld q hq]

theorem Keep.mono {s s' : St} {k k' : Nat} (h : Keep s s' k) (hk : k ≤ k') : Keep s s' k' :=
  { h with cmnHi := by have := h.cmnHi; omega }

theorem CepOut.keep {s s' : St} {ptr m nfv feat st'} (h : CepOut s s' ptr m nfv feat st') : Keep s s' m := by
  obtain ⟨cb, bp, cp, fb, a, mb, cf, cm, e⟩ := h.frame
  refine ⟨by rw [e], by rw [e], by rw [e], h.cmnLo, h.cmnHi, h.fbOld, ?_, by rw [e]⟩
  rw [e]; simp only []; omega

/-- bookkeeping of `acmod_process_mfcbuf` after a call that consumed `k` contiguous frames -/
theorem MfcInv.consume {s s1 : St} {c k nfv : Nat} {feat : Nat → Feat} {st' : UState} (h : MfcInv s c)
    (ho : CepOut s s1 s.mfcOutidx k nfv feat st') (hk : k ≤ s.nMfcFrame) (hfit : s.mfcOutidx + k ≤ s.nMfcAlloc) :
    afterCep s1 k = { s1 with nMfcFrame := s.nMfcFrame - k, mfcOutidx := (s.mfcOutidx + k) % s.nMfcAlloc } ∧
    MfcInv { s1 with nMfcFrame := s.nMfcFrame - k, mfcOutidx := (s.mfcOutidx + k) % s.nMfcAlloc } (c + k) := by
  obtain ⟨cb, bp, cp, fb, a, mb, cf, cm, e⟩ := ho.frame
  have e1 : s1.nMfcFrame = s.nMfcFrame := by rw [e]
  have e2 : s1.mfcOutidx = s.mfcOutidx := by rw [e]
  have e3 : s1.nMfcAlloc = s.nMfcAlloc := by rw [e]
  have e4 : s1.nextId = s.nextId := by rw [e]
  have hn := h.next
  have hc := h.cnt
  have hout := h.out
  constructor
  · unfold afterCep
    rw [if_pos (by omega), e1, e2, e3]
  · refine ⟨by simp only []; rw [ho.mbLen, h.len, e3], by simp only []; rw [e3]; exact Nat.mod_lt _ (by omega),
      by simp only []; rw [e3]; omega, by simp only []; omega, ?_⟩
    intro i hi
    simp only [] at hi ⊢
    rw [e3, Nat.mod_add_mod, Nat.add_assoc]
    have hpos := ring_mod s.mfcOutidx (k + i) s.nMfcAlloc hout (by omega)
    rw [ho.mbOld _ (by rw [hpos]; split <;> omega), h.frames (k + i) (by omega)]
    congr 2; omega

theorem MfcInv.at {s : St} {c : Nat} (h : MfcInv s c) (k : Nat) (hk : k ≤ s.nMfcFrame) (hfit : s.mfcOutidx + k ≤ s.nMfcAlloc) :
    MfcAt s.mfcBuf s.mfcOutidx k c := by
  intro i hi
  have := h.frames i (by omega)
  rwa [Nat.mod_eq_of_lt (by omega)] at this

theorem FCore.setMfc {win c} {s : St} (h : FCore win s c) (a b : Nat) : FCore win { s with nMfcFrame := a, mfcOutidx := b } c :=
  ⟨h.nofault, h.grow, h.cepLen, h.cur, h.fbLen, h.outIdx, h.cnt, h.room, h.feats, h.moved⟩

theorem Keep.setMfc {s s' : St} {k : Nat} (h : Keep s s' k) (a b : Nat) : Keep s { s' with nMfcFrame := a, mfcOutidx := b } k :=
  ⟨h.searched, h.aligned, h.outFrame, h.cmnLo, h.cmnHi, h.fbOld, h.queue, h.outIdx⟩

/-- the invariant while the utterance is in the PROCESSING state -/
structure PInv (win : Nat) (s : St) (c : Nat) : Prop where
  core : FCore win s c
  live : LiveInv win s c
  st : s.state = .processing
  c1 : 1 ≤ c
  mfc : MfcInv s c

/-- one `acmod_process_cep` call on `k` contiguous frames of the ring plus the bookkeeping after it: it consumes
    `effN …` of them (all, unless the live buffer clamps) -/
theorem consume_mid (win : Nat) (skip : Nat → Bool) (s : St) (c k : Nat) (h : PInv win s c) (hk : k ≤ s.nMfcFrame)
    (hfit : s.mfcOutidx + k ≤ s.nMfcAlloc) (hcmn : s.cmnFrames + k ≤ cmnWinHwm) (hw : 3 * win + 1 ≤ livebuf) :
    let r := processCep true win skip s s.mfcOutidx k
    let s' := afterCep r.st r.used
    r.used = effN win (min c win) k ∧ PInv win s' (c + r.used) ∧ s'.nMfcFrame = s.nMfcFrame - r.used ∧
      s'.mfcOutidx = (s.mfcOutidx + r.used) % s.nMfcAlloc ∧ Keep s s' r.used ∧ s'.nMfcAlloc = s.nMfcAlloc := by
  intro r s'
  have hm := h.mfc
  obtain ⟨f1, f2, f3, f4⟩ := processCep_mid win skip s s.mfcOutidx k c h.core h.live h.st (hm.at k hk hfit)
    (by rw [hm.len]; exact hfit) hcmn hw
  have hle := effN_le win (min c win) k (by omega)
  have f1' : r.used = effN win (min c win) k := f1
  have hs'0 : s' = afterCep r.st (effN win (min c win) k) := by simp only [s']; rw [f1']
  rw [f1', hs'0]
  generalize effN win (min c win) k = k' at *
  obtain ⟨g1, g2⟩ := hm.consume f4 (by omega) (by omega)
  obtain ⟨cb, bp, cp, fb, a, mb, cf, cm, e⟩ := f4.frame
  rw [g1]
  refine ⟨rfl, ⟨f2.setMfc _ _, f3.of_eq rfl rfl rfl, ?_, by have := h.c1; omega, g2⟩, rfl, rfl, f4.keep.setMfc _ _, ?_⟩
  · simp only []; exact (by rw [e] : (processCep true win skip s s.mfcOutidx k).st.state = .processing)
  · simp only []; exact (by rw [e] : (processCep true win skip s s.mfcOutidx k).st.nMfcAlloc = s.nMfcAlloc)

theorem St.setState_self (x : St) (st : UState) (h : x.state = st) : { x with state := st } = x := by
  cases x; simp_all

/-- one pass of `acmod_process_mfcbuf` in the PROCESSING state: some `t` of the queued frames are consumed — at least
    one if any is queued — in one call or, when they wrap around the end of `mfc_buf`, in two -/
theorem processMfcbufOnce_mid (win : Nat) (skip : Nat → Bool) (s : St) (c : Nat) (h : PInv win s c)
    (hcmn : s.cmnFrames + s.nMfcFrame ≤ cmnWinHwm) (hw : 3 * win + 1 ≤ livebuf) :
    let r := processMfcbufOnce true win skip s
    ∃ t, PInv win r.st (c + t) ∧ r.st.nMfcFrame = s.nMfcFrame - t ∧ t ≤ s.nMfcFrame ∧
      (1 ≤ s.nMfcFrame → 1 ≤ t ∧ 1 ≤ r.used) ∧ Keep s r.st t ∧ r.st.nMfcAlloc = s.nMfcAlloc := by
  intro r
  have hm := h.mfc
  have hcnt := hm.cnt
  have hout := hm.out
  have hc1 := h.c1
  by_cases hwrap : s.mfcOutidx + s.nMfcFrame > s.nMfcAlloc
  · -- the part up to the end of the buffer first
    obtain ⟨p0, p1, p2, p3, p4, p5⟩ := consume_mid win skip s c (s.nMfcAlloc - s.mfcOutidx) h (by omega) (by omega) (by omega) hw
    have hpos1 := effN_pos win (min c win) (s.nMfcAlloc - s.mfcOutidx) (by omega) (by omega)
    have hle1 := effN_le win (min c win) (s.nMfcAlloc - s.mfcOutidx) (by omega)
    rw [← p0] at hpos1 hle1
    generalize hu1 : (processCep true win skip s s.mfcOutidx (s.nMfcAlloc - s.mfcOutidx)).used = u1 at *
    generalize hs1def : afterCep (processCep true win skip s s.mfcOutidx (s.nMfcAlloc - s.mfcOutidx)).st u1 = s1 at p1 p2 p3 p4 p5
    have hs1 : ({ s1 with state := s.state } : St) = s1 := St.setState_self _ _ (by rw [h.st]; exact p1.st)
    by_cases hpart : u1 < s.nMfcAlloc - s.mfcOutidx
    · -- not consumed completely: come back for the rest
      have hr : r = ⟨s1, u1⟩ := by
        simp only [r, processMfcbufOnce, hwrap, if_true, h.st, (by decide : ¬ UState.processing = UState.ended), if_false]
        rw [hu1, hs1def, if_pos hpart, ← h.st, hs1]
      rw [hr]
      exact ⟨u1, p1, p2, by omega, fun _ => ⟨hpos1, hpos1⟩, p4, p5⟩
    · have hu1e : u1 = s.nMfcAlloc - s.mfcOutidx := by omega
      have ho1 : s1.mfcOutidx = 0 := by
        rw [p3, hu1e, show s.mfcOutidx + (s.nMfcAlloc - s.mfcOutidx) = s.nMfcAlloc by omega, Nat.mod_self]
      have hk1 := p4.cmnHi
      obtain ⟨q0, q1, q2, q3, q4, q5⟩ := consume_mid win skip s1 (c + u1) s1.nMfcFrame p1 (Nat.le_refl _)
        (by rw [ho1, p5]; omega) (by omega) hw
      have hpos2 := effN_pos win (min (c + u1) win) s1.nMfcFrame (by omega) (by omega)
      have hle2 := effN_le win (min (c + u1) win) s1.nMfcFrame (by omega)
      rw [← q0] at hpos2 hle2
      have hr : r = ⟨afterCep (processCep true win skip s1 s1.mfcOutidx s1.nMfcFrame).st
          (processCep true win skip s1 s1.mfcOutidx s1.nMfcFrame).used,
          (processCep true win skip s1 s1.mfcOutidx s1.nMfcFrame).used⟩ := by
        simp only [r, processMfcbufOnce, hwrap, if_true, h.st, (by decide : ¬ UState.processing = UState.ended), if_false]
        rw [hu1, hs1def, if_neg hpart, ← h.st, hs1, p2]
      rw [hr]
      simp only []
      generalize (processCep true win skip s1 s1.mfcOutidx s1.nMfcFrame).used = u2 at *
      refine ⟨u1 + u2, ?_, by rw [q2, p2]; omega, by omega, fun _ => ⟨by omega, hpos2⟩, p4.trans q4, by rw [q5, p5]⟩
      rw [← Nat.add_assoc]; exact q1
  · obtain ⟨p0, p1, p2, p3, p4, p5⟩ := consume_mid win skip s c s.nMfcFrame h (Nat.le_refl _) (by omega) hcmn hw
    have hle1 := effN_le win (min c win) s.nMfcFrame (by omega)
    rw [← p0] at hle1
    have hr : r = ⟨afterCep (processCep true win skip s s.mfcOutidx s.nMfcFrame).st
        (processCep true win skip s s.mfcOutidx s.nMfcFrame).used,
        (processCep true win skip s s.mfcOutidx s.nMfcFrame).used⟩ := by
      simp only [r, processMfcbufOnce, hwrap, if_false]
    rw [hr]
    simp only []
    refine ⟨_, p1, p2, hle1, fun hn => ?_, p4, p5⟩
    have hpos1 := effN_pos win (min c win) s.nMfcFrame hn (by omega)
    rw [← p0] at hpos1
    exact ⟨hpos1, hpos1⟩

/-- the drain loop in the PROCESSING state empties the ring -/
theorem drain_mid (win : Nat) (skip : Nat → Bool) (hw : 3 * win + 1 ≤ livebuf) :
    ∀ (fuel : Nat) (s : St) (c ncep total : Nat), PInv win s c → s.nMfcFrame + 1 ≤ fuel → (1 ≤ ncep ∨ s.nMfcFrame = 0) →
    s.cmnFrames + s.nMfcFrame ≤ cmnWinHwm →
    PInv win (drainMfc true win skip fuel s ncep total).st (c + s.nMfcFrame) ∧
      (drainMfc true win skip fuel s ncep total).st.nMfcFrame = 0 ∧
      Keep s (drainMfc true win skip fuel s ncep total).st s.nMfcFrame := by
  intro fuel
  induction fuel with
  | zero => intro s c ncep total _ hf _ _; omega
  | succ fuel ih =>
    intro s c ncep total h hf hn hcmn
    by_cases hgo : ncep > 0 ∧ s.nMfcFrame > 0 ∧ s.growFeat = true
    · obtain ⟨t, p1, p2, p3, p4, p5, _⟩ := processMfcbufOnce_mid win skip s c h hcmn hw
      obtain ⟨ht1, hu1⟩ := p4 (by omega)
      simp only [drainMfc, hgo, and_self, if_true]
      have hk := p5.cmnHi
      obtain ⟨i1, i2, i3⟩ := ih _ (c + t) (processMfcbufOnce true win skip s).used
        (if (processMfcbufOnce true win skip s).used > 0 then total + (processMfcbufOnce true win skip s).used else total)
        p1 (by rw [p2]; omega) (Or.inl hu1) (by rw [p2]; omega)
      rw [p2] at i1 i3
      refine ⟨?_, i2, ?_⟩
      · rw [show c + s.nMfcFrame = c + t + (s.nMfcFrame - t) by omega]; exact i1
      · exact (p5.trans i3).mono (by omega)
    · have hn0 : s.nMfcFrame = 0 := by
        have hg := h.core.grow
        rcases hn with hn | hn
        · by_cases h0 : s.nMfcFrame = 0
          · exact h0
          · exact absurd ⟨by omega, by omega, hg⟩ hgo
        · exact hn
      simp only [drainMfc, hgo, if_false]
      exact ⟨by rw [hn0, Nat.add_zero]; exact h, hn0, by rw [hn0]; exact Keep.refl s⟩

/-- `acmod_process_mfcbuf` in the PROCESSING state: every queued frame is consumed, whatever the size of the ring -/
theorem processMfcbuf_mid (win : Nat) (skip : Nat → Bool) (s : St) (c : Nat) (h : PInv win s c)
    (hcmn : s.cmnFrames + s.nMfcFrame ≤ cmnWinHwm) (hw : 3 * win + 1 ≤ livebuf) :
    let r := processMfcbuf true win skip s
    PInv win r.st (c + s.nMfcFrame) ∧ r.st.nMfcFrame = 0 ∧ Keep s r.st s.nMfcFrame := by
  intro r
  obtain ⟨t, p1, p2, p3, p4, p5, _⟩ := processMfcbufOnce_mid win skip s c h hcmn hw
  have hk := p5.cmnHi
  have hn : 1 ≤ (processMfcbufOnce true win skip s).used ∨ (processMfcbufOnce true win skip s).st.nMfcFrame = 0 := by
    by_cases h0 : s.nMfcFrame = 0
    · right; rw [p2, h0]; omega
    · left; exact (p4 (by omega)).2
  obtain ⟨i1, i2, i3⟩ := drain_mid win skip hw ((processMfcbufOnce true win skip s).st.nMfcFrame + 1) _ (c + t)
    (processMfcbufOnce true win skip s).used (processMfcbufOnce true win skip s).used p1 (Nat.le_refl _) hn (by rw [p2]; omega)
  have hr : r = drainMfc true win skip ((processMfcbufOnce true win skip s).st.nMfcFrame + 1) (processMfcbufOnce true win skip s).st
      (processMfcbufOnce true win skip s).used (processMfcbufOnce true win skip s).used := rfl
  rw [hr]
  refine ⟨?_, i2, ?_⟩
  · rw [show c + s.nMfcFrame = c + t + (processMfcbufOnce true win skip s).st.nMfcFrame by rw [p2]; omega]; exact i1
  · exact (p5.trans i3).mono (by rw [p2]; omega)

/-- the invariant while the utterance is still in the STARTED state: no frame consumed so far -/
structure SInv (win : Nat) (s : St) : Prop where
  core : FCore win s 0
  st : s.state = .started
  mfc : MfcInv s 0
  out0 : s.mfcOutidx = 0

theorem processMfcbufOnce_single (fix : Bool) (win : Nat) (skip : Nat → Bool) (s : St) (h : ¬ s.mfcOutidx + s.nMfcFrame > s.nMfcAlloc) :
    processMfcbufOnce fix win skip s = ⟨afterCep (processCep fix win skip s s.mfcOutidx s.nMfcFrame).st
      (processCep fix win skip s s.mfcOutidx s.nMfcFrame).used, (processCep fix win skip s s.mfcOutidx s.nMfcFrame).used⟩ := by
  simp only [processMfcbufOnce, h, if_false]

/-- with an empty ring after the pass the drain loop of the D62 repair does nothing more -/
theorem processMfcbuf_eq_once (fix : Bool) (win : Nat) (skip : Nat → Bool) (s : St)
    (h : (processMfcbufOnce fix win skip s).st.nMfcFrame = 0) :
    processMfcbuf fix win skip s = processMfcbufOnce fix win skip s := by
  unfold processMfcbuf
  simp only [h, drainMfc, Nat.lt_irrefl, false_and, and_false, if_false]

/-- STARTED with at least one frame in the ring: they become the start of the utterance -/
theorem processMfcbuf_start (win : Nat) (skip : Nat → Bool) (s : St) (h : SInv win s) (hn : 1 ≤ s.nMfcFrame)
    (hcmn : s.cmnFrames + s.nMfcFrame ≤ cmnWinHwm) (hw : 3 * win + 1 ≤ livebuf) :
    let r := processMfcbuf true win skip s
    PInv win r.st s.nMfcFrame ∧ r.st.nMfcFrame = 0 ∧ Keep s r.st s.nMfcFrame := by
  intro r
  have hm := h.mfc
  have hcnt := hm.cnt
  have hone : processMfcbufOnce true win skip s = _ := processMfcbufOnce_single true win skip s (by rw [h.out0]; omega)
  obtain ⟨f1, f2, f3, f4, hpos⟩ := processCep_start win skip s s.mfcOutidx s.nMfcFrame h.core h.st hn
    (hm.at _ (Nat.le_refl _) (by rw [h.out0]; omega)) (by rw [hm.len, h.out0]; omega) hcmn hw
  have hle := effN_le win win s.nMfcFrame (by omega)
  generalize hkE : effN win win s.nMfcFrame = k' at *
  obtain ⟨g1, g2⟩ := hm.consume f4 (by omega) (by rw [h.out0]; omega)
  obtain ⟨cb, bp, cp, fb, a, mb, cf, cm, e⟩ := f4.frame
  have hst1 : (processCep true win skip s s.mfcOutidx s.nMfcFrame).st.state = .processing := by rw [e]
  have hP : PInv win (processMfcbufOnce true win skip s).st (0 + k') := by
    rw [hone]; simp only []; rw [f1, g1, Nat.zero_add]
    exact ⟨f2.setMfc _ _, f3.of_eq rfl rfl rfl, hst1, hpos, by simpa using g2⟩
  have hN : (processMfcbufOnce true win skip s).st.nMfcFrame = s.nMfcFrame - k' := by
    rw [hone]; simp only []; rw [f1, g1]
  have hU : (processMfcbufOnce true win skip s).used = k' := by rw [hone]; exact f1
  have hK : Keep s (processMfcbufOnce true win skip s).st k' := by
    rw [hone]; simp only []; rw [f1, g1]; exact f4.keep.setMfc _ _
  have hk := hK.cmnHi
  obtain ⟨i1, i2, i3⟩ := drain_mid win skip hw ((processMfcbufOnce true win skip s).st.nMfcFrame + 1) _ (0 + k')
    (processMfcbufOnce true win skip s).used (processMfcbufOnce true win skip s).used hP (Nat.le_refl _)
    (Or.inl (by rw [hU]; exact hpos)) (by rw [hN]; omega)
  have hr : r = drainMfc true win skip ((processMfcbufOnce true win skip s).st.nMfcFrame + 1) (processMfcbufOnce true win skip s).st
      (processMfcbufOnce true win skip s).used (processMfcbufOnce true win skip s).used := rfl
  rw [hr]
  refine ⟨?_, i2, ?_⟩
  · rw [show s.nMfcFrame = 0 + k' + (processMfcbufOnce true win skip s).st.nMfcFrame by rw [hN]; omega]; exact i1
  · exact (hK.trans i3).mono (by rw [hN]; omega)

/-- STARTED with an empty ring (a call that yielded no frame): the utterance is still at its start -/
theorem processMfcbuf_start0 (win : Nat) (skip : Nat → Bool) (s : St) (h : SInv win s) (hn : s.nMfcFrame = 0) :
    let r := processMfcbuf true win skip s
    SInv win r.st ∧ r.st.nMfcFrame = 0 ∧ Keep s r.st 0 := by
  intro r
  have hm := h.mfc
  have hone : processMfcbufOnce true win skip s = _ := processMfcbufOnce_single true win skip s (by rw [h.out0, hn]; omega)
  rw [hn] at hone
  obtain ⟨f1, f2, f4⟩ := processCep_start0 win skip s s.mfcOutidx h.core h.st
  obtain ⟨g1, g2⟩ := hm.consume f4 (by omega) (by rw [h.out0]; omega)
  obtain ⟨cb, bp, cp, fb, a, mb, cf, cm, e⟩ := f4.frame
  have hA : (processCep true win skip s s.mfcOutidx 0).st.nMfcAlloc = s.nMfcAlloc := by rw [e]
  have hmod : (s.mfcOutidx + 0) % s.nMfcAlloc = 0 := by rw [h.out0]; exact Nat.zero_mod _
  have hres : SInv win (processMfcbufOnce true win skip s).st ∧ (processMfcbufOnce true win skip s).st.nMfcFrame = 0 ∧
      Keep s (processMfcbufOnce true win skip s).st 0 := by
    rw [hone]
    simp only []
    rw [f1, g1]
    exact ⟨⟨f2.setMfc _ _, by simp only []; rw [e], by simpa using g2, hmod⟩, by simp [hn], f4.keep.setMfc _ _⟩
  have : r = processMfcbufOnce true win skip s := processMfcbuf_eq_once true win skip s hres.2.1
  rw [this]; exact hres

/-- ENDED: the (at most one, never wrapping) last frames and the end padding -/
theorem processMfcbuf_end (win : Nat) (skip : Nat → Bool) (s : St) (c : Nat) (hc : FCore win s c) (hl : LiveInv win s c)
    (hc1 : 1 ≤ c) (hst : s.state = .ended) (hm : MfcInv s c) (hfit : s.mfcOutidx + s.nMfcFrame ≤ s.nMfcAlloc)
    (hcmn : s.cmnFrames + s.nMfcFrame ≤ cmnWinHwm) (hw : s.nMfcFrame + 3 * win + 1 ≤ livebuf) :
    let r := processMfcbuf true win skip s
    EndCore win r.st (c + s.nMfcFrame) ∧ r.st.nMfcFrame = 0 ∧ Keep s r.st s.nMfcFrame ∧ r.st.state = .ended ∧
      r.st.nextId = c + s.nMfcFrame := by
  intro r
  have hcnt := hm.cnt
  have hone : processMfcbufOnce true win skip s = _ := processMfcbufOnce_single true win skip s (by omega)
  obtain ⟨f1, f2, f4⟩ := processCep_end win skip s s.mfcOutidx s.nMfcFrame c hc hl hc1 hst
    (hm.at _ (Nat.le_refl _) hfit) (by rw [hm.len]; exact hfit) hcmn hw
  obtain ⟨g1, g2⟩ := hm.consume f4 (Nat.le_refl _) hfit
  obtain ⟨cb, bp, cp, fb, a, mb, cf, cm, e⟩ := f4.frame
  have hres : EndCore win (processMfcbufOnce true win skip s).st (c + s.nMfcFrame) ∧
      (processMfcbufOnce true win skip s).st.nMfcFrame = 0 ∧ Keep s (processMfcbufOnce true win skip s).st s.nMfcFrame ∧
      (processMfcbufOnce true win skip s).st.state = .ended ∧ (processMfcbufOnce true win skip s).st.nextId = c + s.nMfcFrame := by
    rw [hone]
    simp only []
    rw [f1, g1]
    refine ⟨⟨f2.nofault, f2.grow, f2.fbLen, f2.outIdx, f2.cnt, f2.room, f2.feats⟩, by simp, f4.keep.setMfc _ _,
      by simp only []; rw [e], ?_⟩
    simp only []; rw [e]; exact hm.next
  have : r = processMfcbufOnce true win skip s := processMfcbuf_eq_once true win skip s hres.2.1
  rw [this]; exact hres

/-! ## the front end filling the cepstrum ring (`acmod_process_raw`) -/

/-- number of frames a list of front-end responses offers (the model never takes more than the limit) -/
def offered (rs : List FeResp) : Nat := (rs.map fun r => r.nvec).sum

theorem offered_pop (rs : List FeResp) : (popResp rs).1.nvec + offered (popResp rs).2 = offered rs := by
  cases rs with
  | nil => simp [popResp, offered]
  | cons r rs => simp [popResp, offered]

theorem popResp_length (rs : List FeResp) : (popResp rs).2.length ≤ rs.length := by
  cases rs with
  | nil => simp [popResp]
  | cons r rs => simp [popResp]

/-- one front-end call writing `k` frames at `inptr = (mfcOutidx + nMfcFrame) % n_mfc_alloc`, not across the end -/
theorem MfcInv.feWrite {s : St} {c : Nat} (h : MfcInv s c) (k inptr : Nat)
    (hin : inptr = (s.mfcOutidx + s.nMfcFrame) % s.nMfcAlloc) (hk : inptr + k ≤ s.nMfcAlloc) (hroom : s.nMfcFrame + k ≤ s.nMfcAlloc) :
    ∃ mb, { feWrite k inptr s with nMfcFrame := (feWrite k inptr s).nMfcFrame + k } =
        { s with mfcBuf := mb, nextId := s.nextId + k, nMfcFrame := s.nMfcFrame + k } ∧
      MfcInv { s with mfcBuf := mb, nextId := s.nextId + k, nMfcFrame := s.nMfcFrame + k } c := by
  obtain ⟨mb, e, hl, h1, h2⟩ := feWrite_spec k inptr s (by rw [h.len]; exact hk)
  refine ⟨mb, by rw [e], ⟨by simp only []; rw [hl, h.len], h.out, hroom, by simp only []; have := h.next; omega, ?_⟩⟩
  intro i hi
  simp only [] at hi ⊢
  have ho := h.out
  have hc := h.cnt
  have hpi := ring_mod s.mfcOutidx i s.nMfcAlloc ho (by omega)
  have hpa := ring_mod s.mfcOutidx s.nMfcFrame s.nMfcAlloc ho hc
  have hin' : inptr = if s.mfcOutidx + s.nMfcFrame < s.nMfcAlloc then s.mfcOutidx + s.nMfcFrame
      else s.mfcOutidx + s.nMfcFrame - s.nMfcAlloc := by rw [hin, hpa]
  by_cases hia : i < s.nMfcFrame
  · rw [h2 _ (by rw [hpi]; split at hin' <;> split <;> omega)]
    exact h.frames i hia
  · have hpos : (s.mfcOutidx + i) % s.nMfcAlloc = inptr + (i - s.nMfcFrame) := by
      rw [hpi]; split at hin' <;> split <;> omega
    rw [hpos, h1 _ (by omega)]
    congr 2
    have := h.next; omega

theorem rawLoop_spec : ∀ (fuel : Nat) (s : St) (c inptr ncep : Nat) (rs : List FeResp) (more : Bool), MfcInv s c →
    inptr = (s.mfcOutidx + s.nMfcFrame) % s.nMfcAlloc → ncep = s.nMfcAlloc - s.nMfcFrame → ncep + 1 ≤ fuel →
    ∃ mb a, (rawLoop fuel s inptr ncep rs more).1 = { s with mfcBuf := mb, nextId := c + a, nMfcFrame := a } ∧
      MfcInv { s with mfcBuf := mb, nextId := c + a, nMfcFrame := a } c ∧ s.nMfcFrame ≤ a ∧
      a + offered (rawLoop fuel s inptr ncep rs more).2.1 ≤ s.nMfcFrame + offered rs ∧
      (rawLoop fuel s inptr ncep rs more).2.1.length ≤ rs.length ∧
      ((rawLoop fuel s inptr ncep rs more).2.2.2.2.2 = false →
        (rawLoop fuel s inptr ncep rs more).2.2.2.1 = (s.mfcOutidx + a) % s.nMfcAlloc ∧
        (rawLoop fuel s inptr ncep rs more).2.2.2.2.1 = s.nMfcAlloc - a ∧
        (rawLoop fuel s inptr ncep rs more).2.2.2.1 + (rawLoop fuel s inptr ncep rs more).2.2.2.2.1 ≤ s.nMfcAlloc) ∧
      ((rawLoop fuel s inptr ncep rs more).2.2.2.2.2 = true → (rawLoop fuel s inptr ncep rs more).2.1.length < rs.length ∨
        (rs = [] ∧ (rawLoop fuel s inptr ncep rs more).2.2.1 = false)) := by
  intro fuel
  induction fuel with
  | zero => intro s c inptr ncep rs more _ _ _ hf; omega
  | succ fuel ih =>
    intro s c inptr ncep rs more hm hin hnc hf
    have hnext := hm.next
    have hcnt := hm.cnt
    have hout := hm.out
    have hin_lt : inptr < s.nMfcAlloc := by rw [hin]; exact Nat.mod_lt _ (by omega)
    by_cases hwrap : inptr + ncep > s.nMfcAlloc
    · -- one limited call
      have hlim : inptr + min (popResp rs).1.nvec (s.nMfcAlloc - inptr) ≤ s.nMfcAlloc := by omega
      have hroom : s.nMfcFrame + min (popResp rs).1.nvec (s.nMfcAlloc - inptr) ≤ s.nMfcAlloc := by omega
      obtain ⟨mb, e, hm'⟩ := hm.feWrite (min (popResp rs).1.nvec (s.nMfcAlloc - inptr)) inptr hin hlim hroom
      by_cases hz : min (popResp rs).1.nvec (s.nMfcAlloc - inptr) = 0
      · -- goto alldone
        have hR : rawLoop (fuel + 1) s inptr ncep rs more =
            ({ feWrite 0 inptr s with nMfcFrame := (feWrite 0 inptr s).nMfcFrame + 0 }, (popResp rs).2, (popResp rs).1.more,
              inptr, ncep, true) := by
          simp only [rawLoop, hwrap, if_true, hz]
        rw [hz] at e hm'
        rw [hR]
        simp only []
        refine ⟨mb, s.nMfcFrame, ?_, ?_, Nat.le_refl _, ?_, popResp_length rs, by simp, ?_⟩
        · rw [e]; simp only [Nat.add_zero]; rw [hnext]
        · simpa [hnext] using hm'
        · have := offered_pop rs; omega
        · intro _
          cases rs with
          | nil => right; exact ⟨rfl, rfl⟩
          | cons r rs => left; simp [popResp]
      · -- some frames, loop again
        have hA : (feWrite (min (popResp rs).1.nvec (s.nMfcAlloc - inptr)) inptr s).nMfcAlloc = s.nMfcAlloc := by
          obtain ⟨mb0, e0, _⟩ := feWrite_spec (min (popResp rs).1.nvec (s.nMfcAlloc - inptr)) inptr s (by rw [hm.len]; omega)
          rw [e0]
        have hR : rawLoop (fuel + 1) s inptr ncep rs more =
            rawLoop fuel { feWrite (min (popResp rs).1.nvec (s.nMfcAlloc - inptr)) inptr s with
                nMfcFrame := (feWrite (min (popResp rs).1.nvec (s.nMfcAlloc - inptr)) inptr s).nMfcFrame +
                  min (popResp rs).1.nvec (s.nMfcAlloc - inptr) }
              ((inptr + min (popResp rs).1.nvec (s.nMfcAlloc - inptr)) % s.nMfcAlloc)
              (ncep - min (popResp rs).1.nvec (s.nMfcAlloc - inptr))
              (popResp rs).2 (popResp rs).1.more := by
          simp only [rawLoop, hwrap, if_true, hz, if_false, hA]
        rw [hR, e]
        obtain ⟨mb2, a2, i1, i2, i3, i4, i5, i6, i7⟩ := ih _ c ((inptr + min (popResp rs).1.nvec (s.nMfcAlloc - inptr)) % s.nMfcAlloc)
          (ncep - min (popResp rs).1.nvec (s.nMfcAlloc - inptr)) (popResp rs).2 (popResp rs).1.more hm'
          (by simp only []; rw [hin, Nat.mod_add_mod, Nat.add_assoc]) (by simp only []; omega) (by omega)
        simp only [] at i1 i2 i3 i4 i5 i6 i7
        refine ⟨mb2, a2, by rw [i1], i2, by omega, ?_, ?_, ?_, ?_⟩
        · have := offered_pop rs
          have hmin : min (popResp rs).1.nvec (s.nMfcAlloc - inptr) ≤ (popResp rs).1.nvec := Nat.min_le_left _ _
          omega
        · have := popResp_length rs; omega
        · intro hd
          exact i6 hd
        · intro hd
          cases rs with
          | nil => exfalso; simp [popResp] at hz
          | cons r rs =>
            left
            have : ((popResp (r :: rs)).2).length < (r :: rs).length := by simp [popResp]
            omega
    · have hR : rawLoop (fuel + 1) s inptr ncep rs more = (s, rs, more, inptr, ncep, false) := by
        simp only [rawLoop, hwrap, if_false]
      rw [hR]
      simp only []
      refine ⟨s.mfcBuf, s.nMfcFrame, ?_, ?_, Nat.le_refl _, Nat.le_refl _, Nat.le_refl _, ?_, by simp⟩
      · rw [← hnext]
      · rw [← hnext]; exact hm
      · intro _; exact ⟨hin, hnc, by omega⟩

/-- the front-end part of `acmod_process_raw` on an empty ring: some `a ≤ n_mfc_alloc` fresh frames, then `acmod_process_mfcbuf` -/
theorem processRaw_fe (fix : Bool) (win : Nat) (skip : Nat → Bool) (s : St) (c : Nat) (rs : List FeResp) (hm : MfcInv s c)
    (h0 : s.nMfcFrame = 0) :
    ∃ mb a rest more, processRaw fix win skip s rs =
        ⟨(processMfcbuf fix win skip { s with mfcBuf := mb, nextId := c + a, nMfcFrame := a }).st, rest, more⟩ ∧
      MfcInv { s with mfcBuf := mb, nextId := c + a, nMfcFrame := a } c ∧ a + offered rest ≤ offered rs ∧
      (rest.length < rs.length ∨ (rs = [] ∧ more = false)) := by
  obtain ⟨mb, a, i1, i2, i3, i4, i5, i6, i7⟩ := rawLoop_spec (s.nMfcAlloc - s.nMfcFrame + 1) s c
    ((s.mfcOutidx + s.nMfcFrame) % s.nMfcAlloc) (s.nMfcAlloc - s.nMfcFrame) rs true hm rfl rfl (Nat.le_refl _)
  rcases hrl : rawLoop (s.nMfcAlloc - s.nMfcFrame + 1) s ((s.mfcOutidx + s.nMfcFrame) % s.nMfcAlloc)
      (s.nMfcAlloc - s.nMfcFrame) rs true with ⟨s1, rs1, more1, inptr1, ncep1, done1⟩
  rw [hrl] at i1 i4 i5 i6 i7
  simp only [] at i1 i4 i5 i6 i7
  cases done1 with
  | true =>
    refine ⟨mb, a, rs1, more1, ?_, i2, by omega, ?_⟩
    · simp only [processRaw, hrl, if_true]
      rw [i1]
    · rcases i7 rfl with h | h
      · left; exact h
      · right; exact h
  | false =>
    obtain ⟨j1, j2, j3⟩ := i6 rfl
    -- the last call, limited by what is left of the ring
    have hcnt := i2.cnt
    simp only [] at hcnt
    obtain ⟨mb2, e2, hm2⟩ := i2.feWrite (min (popResp rs1).1.nvec ncep1) inptr1 (by simp only []; exact j1)
      (by simp only []; omega) (by simp only []; omega)
    simp only [] at e2 hm2
    refine ⟨mb2, a + min (popResp rs1).1.nvec ncep1, (popResp rs1).2, (popResp rs1).1.more, ?_, ?_, ?_, ?_⟩
    · simp only [processRaw, hrl, Bool.false_eq_true, if_false]
      rw [i1, e2, Nat.add_assoc]
    · rw [Nat.add_assoc] at hm2; exact hm2
    · have := offered_pop rs1
      have hmin : min (popResp rs1).1.nvec ncep1 ≤ (popResp rs1).1.nvec := Nat.min_le_left _ _
      omega
    · cases rs1 with
      | nil =>
        cases rs with
        | nil => right; exact ⟨rfl, rfl⟩
        | cons r rs => left; simp [popResp]
      | cons r1 rs1' =>
        left
        have : (popResp (r1 :: rs1')).2.length < (r1 :: rs1').length := by simp [popResp]
        omega

end SSVerif.AcmodBuf
