import SSVerif.Model.AcmodBuf
/-!
Helper lemmas for C07: closed forms of the ring primitives of `Model/AcmodBuf.lean` and the
invariants of the live feature window.  Core Lean only.
-/
namespace SSVerif.AcmodBuf
open SSVerif.Generated

/-! ## `getD` / `set` on lists -/

theorem getD_set_eq {α} (l : List α) (i : Nat) (a d : α) (h : i < l.length) : (l.set i a).getD i d = a := by
  simp [List.getD_eq_getElem?_getD, List.getElem?_set, h]

theorem getD_set_ne {α} (l : List α) (i j : Nat) (a d : α) (h : i ≠ j) : (l.set i a).getD j d = l.getD j d := by
  simp [List.getD_eq_getElem?_getD, List.getElem?_set, h]

/-! ## the live cepstrum ring -/

/-- pure form of a run of `pushCep` -/
def ringWrite (cb : List (Option Cep)) (p : Nat) : List (Option Cep) → List (Option Cep)
  | [] => cb
  | x :: xs => ringWrite (cb.set p x) ((p + 1) % livebuf) xs

theorem ringWrite_length (xs : List (Option Cep)) : ∀ (cb : List (Option Cep)) (p : Nat),
    (ringWrite cb p xs).length = cb.length := by
  induction xs with
  | nil => intro cb p; rfl
  | cons x xs ih => intro cb p; simp [ringWrite, ih]

theorem pushMany_eq (xs : List (Option Cep)) : ∀ (s : St), s.cepbuf.length = livebuf → s.bufpos < livebuf →
    pushMany s xs = { s with cepbuf := ringWrite s.cepbuf s.bufpos xs, bufpos := (s.bufpos + xs.length) % livebuf } := by
  induction xs with
  | nil =>
    intro s _ hb
    simp [pushMany, ringWrite, Nat.mod_eq_of_lt hb]
  | cons x xs ih =>
    intro s hl hb
    have h1 : pushCep s x = { s with cepbuf := s.cepbuf.set s.bufpos x, bufpos := (s.bufpos + 1) % livebuf } := by
      simp [pushCep, hl, hb]
    have hlt : (s.bufpos + 1) % livebuf < livebuf := Nat.mod_lt _ (by decide)
    have := ih { s with cepbuf := s.cepbuf.set s.bufpos x, bufpos := (s.bufpos + 1) % livebuf } (by simp [hl]) hlt
    simp only [pushMany, List.foldl_cons] at this ⊢
    rw [h1, this]
    have harith : ((s.bufpos + 1) % livebuf + xs.length) % livebuf = (s.bufpos + (xs.length + 1)) % livebuf := by
      simp only [livebuf]; omega
    simp [ringWrite, harith]

/-- what a ring write leaves in the buffer -/
theorem ringWrite_get (xs : List (Option Cep)) : ∀ (cb : List (Option Cep)) (p : Nat),
    cb.length = livebuf → p < livebuf → xs.length ≤ livebuf →
    (∀ i, i < xs.length → (ringWrite cb p xs).getD ((p + i) % livebuf) none = xs.getD i none) ∧
    (∀ q, (∀ i, i < xs.length → q ≠ (p + i) % livebuf) → (ringWrite cb p xs).getD q none = cb.getD q none) := by
  induction xs with
  | nil => intro cb p _ _ _; simp [ringWrite]
  | cons x xs ih =>
    intro cb p hl hp hx
    have hlt : (p + 1) % livebuf < livebuf := Nat.mod_lt _ (by decide)
    simp only [List.length_cons] at hx
    obtain ⟨ih1, ih2⟩ := ih (cb.set p x) ((p + 1) % livebuf) (by simp [hl]) hlt (by omega)
    constructor
    · intro i hi
      simp only [List.length_cons] at hi
      cases i with
      | zero =>
        simp only [ringWrite, Nat.add_zero, Nat.mod_eq_of_lt hp]
        rw [ih2 p]
        · rw [getD_set_eq _ _ _ _ (by omega : p < cb.length)]; simp
        · intro i hi; simp only [livebuf] at *; omega
      | succ i =>
        have : (p + (i + 1)) % livebuf = ((p + 1) % livebuf + i) % livebuf := by simp only [livebuf]; omega
        simp only [ringWrite, this]
        rw [ih1 i (by omega)]
        simp
    · intro q hq
      simp only [ringWrite]
      rw [ih2 q]
      · have : q ≠ p := by
          have := hq 0 (by simp)
          simpa [Nat.mod_eq_of_lt hp] using this
        exact getD_set_ne _ _ _ _ _ (Ne.symm this)
      · intro i hi
        have := hq (i + 1) (by simp; omega)
        have e : (p + (i + 1)) % livebuf = ((p + 1) % livebuf + i) % livebuf := by simp only [livebuf]; omega
        rwa [e] at this

/-- ids held by a stretch of the ring starting at virtual address `V` -/
def Ring (cb : List (Option Cep)) (V : Nat) (idf : Nat → Nat) (cnt : Nat) : Prop :=
  ∀ j, j < cnt → cb.getD ((V + j) % livebuf) none = some ⟨idf j, 1, false⟩

theorem Ring.mono {cb V idf cnt cnt'} (h : Ring cb V idf cnt) (hle : cnt' ≤ cnt) : Ring cb V idf cnt' :=
  fun j hj => h j (by omega)

theorem Ring.congr {cb V idf idf' cnt} (h : Ring cb V idf cnt) (he : ∀ j, j < cnt → idf j = idf' j) : Ring cb V idf' cnt :=
  fun j hj => by rw [h j hj, he j hj]

/-- dropping the first `t` entries of a stretch -/
theorem Ring.shift {cb V idf cnt} (h : Ring cb V idf cnt) (t : Nat) (ht : t ≤ cnt) :
    Ring cb (V + t) (fun j => idf (t + j)) (cnt - t) := by
  intro j hj
  have := h (t + j) (by omega)
  rwa [show V + (t + j) = V + t + j by omega] at this

theorem Ring.write {cb V idf cnt} (h : Ring cb V idf cnt) (hl : cb.length = livebuf) (xs : List (Option Cep))
    (hfit : cnt + xs.length ≤ livebuf)
    (hx : ∀ i, i < xs.length → xs.getD i none = some ⟨idf (cnt + i), 1, false⟩) :
    Ring (ringWrite cb ((V + cnt) % livebuf) xs) V idf (cnt + xs.length) := by
  have hp : (V + cnt) % livebuf < livebuf := Nat.mod_lt _ (by decide)
  obtain ⟨g1, g2⟩ := ringWrite_get xs cb ((V + cnt) % livebuf) hl hp (by omega)
  intro j hj
  by_cases hjc : j < cnt
  · rw [g2]
    · exact h j hjc
    · intro i hi; simp only [livebuf] at *; omega
  · have e : (V + j) % livebuf = ((V + cnt) % livebuf + (j - cnt)) % livebuf := by simp only [livebuf]; omega
    rw [e, g1 (j - cnt) (by omega), hx (j - cnt) (by omega)]
    congr 3; omega

/-! ### end replication -/

theorem repLast_eq : ∀ (n tpos : Nat) (s : St), s.cepbuf.length = livebuf → s.bufpos < livebuf → tpos < livebuf →
    (∀ i, i < n → tpos ≠ (s.bufpos + i) % livebuf) →
    repLast n tpos s = pushMany s (List.replicate n (s.cepbuf.getD tpos none)) := by
  intro n
  induction n with
  | zero => intro tpos s _ _ _ _; simp [repLast, pushMany]
  | succ n ih =>
    intro tpos s hl hb ht hne
    have h1 : pushCep s (s.cepbuf.getD tpos none) =
        { s with cepbuf := s.cepbuf.set s.bufpos (s.cepbuf.getD tpos none), bufpos := (s.bufpos + 1) % livebuf } := by
      simp [pushCep, hl, hb]
    have hlt : (s.bufpos + 1) % livebuf < livebuf := Nat.mod_lt _ (by decide)
    have hne0 : tpos ≠ s.bufpos := by
      have := hne 0 (by omega); simpa [Nat.mod_eq_of_lt hb] using this
    simp only [repLast, hl, ht, if_true]
    rw [h1, ih tpos _ (by simp [hl]) hlt ht]
    · simp only [getD_set_ne _ _ _ _ _ (Ne.symm hne0)]
      simp only [pushMany, List.replicate_succ, List.foldl_cons, h1]
    · intro i hi
      have := hne (i + 1) (by omega)
      have e : (s.bufpos + (i + 1)) % livebuf = ((s.bufpos + 1) % livebuf + i) % livebuf := by simp only [livebuf]; omega
      rw [e] at this; exact this

/-! ### the feature loop -/

/-- the window `compute_feat` reads when `curpos = cp` -/
def winAt (win : Nat) (cb : List (Option Cep)) (cp : Nat) : Feat :=
  if cp < win ∨ cp + win ≥ livebuf then
    (List.range (2 * win + 1)).map fun j => cb.getD ((cp + j + livebuf - win) % livebuf) none
  else
    (List.range (2 * win + 1)).map fun j => cb.getD (cp + j - win) none

theorem readWindow_eq (win : Nat) (s : St) : readWindow win s = winAt win s.cepbuf s.curpos := rfl

def featWrite (fb : List (Option Feat)) (o : Nat) : List Feat → List (Option Feat)
  | [] => fb
  | f :: fs => featWrite (fb.set o (some f)) (o + 1) fs

theorem featWrite_length (fs : List Feat) : ∀ (fb : List (Option Feat)) (o : Nat), (featWrite fb o fs).length = fb.length := by
  induction fs with
  | nil => intro fb o; rfl
  | cons f fs ih => intro fb o; simp [featWrite, ih]

theorem featWrite_get (fs : List Feat) : ∀ (fb : List (Option Feat)) (o : Nat), o + fs.length ≤ fb.length →
    (∀ i, i < fs.length → (featWrite fb o fs).getD (o + i) none = some (fs.getD i [])) ∧
    (∀ q, (q < o ∨ q ≥ o + fs.length) → (featWrite fb o fs).getD q none = fb.getD q none) := by
  induction fs with
  | nil => intro fb o _; simp [featWrite]
  | cons f fs ih =>
    intro fb o ho
    simp only [List.length_cons] at ho
    obtain ⟨i1, i2⟩ := ih (fb.set o (some f)) (o + 1) (by simp; omega)
    constructor
    · intro i hi
      simp only [List.length_cons] at hi
      cases i with
      | zero =>
        simp only [featWrite, Nat.add_zero]
        rw [i2 o (by omega), getD_set_eq _ _ _ _ (by omega)]; simp
      | succ i =>
        simp only [featWrite]
        rw [show o + (i + 1) = o + 1 + i by omega, i1 i (by omega)]; simp
    · intro q hq
      simp only [List.length_cons] at hq
      simp only [featWrite]
      rw [i2 q (by omega), getD_set_ne _ _ _ _ _ (by omega)]

theorem computeFeats_eq (win : Nat) : ∀ (n o : Nat) (s : St), o + n ≤ s.featBuf.length → s.curpos < livebuf →
    computeFeats win n o s =
      { s with featBuf := featWrite s.featBuf o ((List.range n).map fun i => winAt win s.cepbuf ((s.curpos + i) % livebuf)),
               curpos := (s.curpos + n) % livebuf } := by
  intro n
  induction n with
  | zero => intro o s _ hc; simp [computeFeats, featWrite, Nat.mod_eq_of_lt hc]
  | succ n ih =>
    intro o s ho hc
    have hw : writeFeat s o (readWindow win s) = { s with featBuf := s.featBuf.set o (some (readWindow win s)) } := by
      simp [writeFeat, (by omega : o < s.featBuf.length)]
    simp only [computeFeats]
    rw [hw, ih (o + 1) _ (by simp; omega) (Nat.mod_lt _ (by decide))]
    have e1 : ((s.curpos + 1) % livebuf + n) % livebuf = (s.curpos + (n + 1)) % livebuf := by simp only [livebuf]; omega
    have e2 : ∀ i, ((s.curpos + 1) % livebuf + i) % livebuf = (s.curpos + (i + 1)) % livebuf := by
      intro i; simp only [livebuf]; omega
    simp only [e1, e2, readWindow_eq, List.range_succ_eq_map, List.map_cons, List.map_map, featWrite,
      Nat.add_zero, Nat.mod_eq_of_lt hc]
    rfl

/-- a window that lies inside a known stretch of the ring -/
theorem winAt_ring {cb V idf cnt} (win t cp : Nat) (h : Ring cb V idf cnt) (hcp : cp = (V + t + win) % livebuf)
    (hfit : t + 2 * win + 1 ≤ cnt) (hw : 2 * win + 1 ≤ livebuf) :
    winAt win cb cp = (List.range (2 * win + 1)).map fun j => some ⟨idf (t + j), 1, false⟩ := by
  unfold winAt
  split
  · apply List.map_congr_left
    intro j hj
    have hj' : j < 2 * win + 1 := List.mem_range.mp hj
    have e : (cp + j + livebuf - win) % livebuf = (V + (t + j)) % livebuf := by
      subst hcp; simp only [livebuf] at *; omega
    rw [e]; exact h (t + j) (by omega)
  · rename_i hn
    apply List.map_congr_left
    intro j hj
    have hj' : j < 2 * win + 1 := List.mem_range.mp hj
    have e : cp + j - win = (V + (t + j)) % livebuf := by
      subst hcp; simp only [livebuf] at *; omega
    rw [e]; exact h (t + j) (by omega)

/-! ## the cepstrum ring (`mfc_buf`) -/

theorem feWrite_spec : ∀ (k p : Nat) (s : St), p + k ≤ s.mfcBuf.length →
    ∃ mb, feWrite k p s = { s with mfcBuf := mb, nextId := s.nextId + k } ∧ mb.length = s.mfcBuf.length ∧
      (∀ i, i < k → mb.getD (p + i) none = some ⟨s.nextId + i, 0, false⟩) ∧
      (∀ q, (q < p ∨ q ≥ p + k) → mb.getD q none = s.mfcBuf.getD q none) := by
  intro k
  induction k with
  | zero => intro p s _; exact ⟨s.mfcBuf, by simp [feWrite], rfl, by simp, by simp⟩
  | succ k ih =>
    intro p s hp
    obtain ⟨mb, e, hl, h1, h2⟩ := ih (p + 1)
      { s with mfcBuf := s.mfcBuf.set p (some ⟨s.nextId, 0, false⟩), nextId := s.nextId + 1 } (by simp; omega)
    refine ⟨mb, ?_, by simpa using hl, ?_, ?_⟩
    · simp only [feWrite, (by omega : p < s.mfcBuf.length), if_true]
      rw [e]; simp [Nat.add_assoc, Nat.add_comm 1 k]
    · intro i hi
      cases i with
      | zero =>
        rw [Nat.add_zero, h2 p (by omega)]
        simp only []
        rw [getD_set_eq _ _ _ _ (by omega)]; simp
      | succ i =>
        have := h1 i (by omega)
        simp only [] at this
        rw [show p + (i + 1) = p + 1 + i by omega, this]
        congr 2; omega
    · intro q hq
      rw [h2 q (by omega)]
      simp only []
      exact getD_set_ne _ _ _ _ _ (by omega)

theorem cmnBlock_spec (skip : Nat → Bool) : ∀ (n ptr : Nat) (s : St) (c : Nat), ptr + n ≤ s.mfcBuf.length →
    (∀ i, i < n → s.mfcBuf.getD (ptr + i) none = some ⟨c + i, 0, false⟩) → s.cmnMoved = false →
    ∃ mb cf, cmnBlock skip n ptr s = { s with mfcBuf := mb, cmnFrames := cf } ∧ mb.length = s.mfcBuf.length ∧
      (∀ i, i < n → mb.getD (ptr + i) none = some ⟨c + i, 1, false⟩) ∧
      (∀ q, (q < ptr ∨ q ≥ ptr + n) → mb.getD q none = s.mfcBuf.getD q none) ∧
      s.cmnFrames ≤ cf ∧ cf ≤ s.cmnFrames + n := by
  intro n
  induction n with
  | zero => intro ptr s c _ _ _; exact ⟨s.mfcBuf, s.cmnFrames, by simp [cmnBlock], rfl, by simp, by simp, by omega, by omega⟩
  | succ n ih =>
    intro ptr s c hp hfr hm
    have h0 := hfr 0 (by omega)
    rw [Nat.add_zero] at h0
    obtain ⟨mb, cf, e, hl, h1, h2, h3, h4⟩ := ih (ptr + 1)
      { s with mfcBuf := s.mfcBuf.set ptr (some ⟨c, 1, false⟩),
               cmnFrames := if skip c then s.cmnFrames else s.cmnFrames + 1 } (c + 1) (by simp; omega)
      (by
        intro i hi
        simp only []
        rw [getD_set_ne _ _ _ _ _ (by omega)]
        have := hfr (i + 1) (by omega)
        rw [show ptr + 1 + i = ptr + (i + 1) by omega, this]
        congr 2; omega)
      (by simpa using hm)
    refine ⟨mb, cf, ?_, by simpa using hl, ?_, ?_, ?_, ?_⟩
    · simp only [cmnBlock, h0]
      rw [show (false || s.cmnMoved) = false by simp [hm]]
      simpa using e
    · intro i hi
      cases i with
      | zero =>
        rw [Nat.add_zero, h2 ptr (by omega)]
        simp only []
        rw [getD_set_eq _ _ _ _ (by omega)]; simp
      | succ i =>
        have := h1 i (by omega)
        rw [show ptr + (i + 1) = ptr + 1 + i by omega, this]
        congr 2; omega
    · intro q hq
      rw [h2 q (by omega)]
      simp only []
      exact getD_set_ne _ _ _ _ _ (by omega)
    · simp only [] at h3
      split at h3 <;> omega
    · simp only [] at h4
      split at h4 <;> omega

theorem cmnLive_spec (skip : Nat → Bool) (s : St) (ptr n c : Nat) (hp : ptr + n ≤ s.mfcBuf.length)
    (hfr : ∀ i, i < n → s.mfcBuf.getD (ptr + i) none = some ⟨c + i, 0, false⟩) (hm : s.cmnMoved = false)
    (hcmn : s.cmnFrames + n ≤ cmnWinHwm) :
    ∃ mb cf, cmnLive skip s ptr n = { s with mfcBuf := mb, cmnFrames := cf } ∧ mb.length = s.mfcBuf.length ∧
      (∀ i, i < n → mb.getD (ptr + i) none = some ⟨c + i, 1, false⟩) ∧
      (∀ q, (q < ptr ∨ q ≥ ptr + n) → mb.getD q none = s.mfcBuf.getD q none) ∧
      s.cmnFrames ≤ cf ∧ cf ≤ s.cmnFrames + n := by
  by_cases hn : n = 0
  · subst hn
    exact ⟨s.mfcBuf, s.cmnFrames, by simp [cmnLive], rfl, by simp, by simp, by omega, by omega⟩
  · obtain ⟨mb, cf, e, hl, h1, h2, h3, h4⟩ := cmnBlock_spec skip n ptr s c hp hfr hm
    refine ⟨mb, cf, ?_, hl, h1, h2, h3, h4⟩
    simp only [cmnLive, hn, if_false, e]
    have : ¬ cf > cmnWinHwm := by omega
    simp [this]

/-! ## `feat_s2mfc2feat_live` -/

/-- window of frame `k` with the left clamp only (valid while `k + win` is below the number of frames seen) -/
def canonL (win k : Nat) : Feat := (List.range (2 * win + 1)).map fun j => some ⟨k + j - win, 1, false⟩

/-- the canonical window of frame `k` of an utterance of `M` frames: ids `clamp (k - win) … clamp (k + win)`,
    each normalised exactly once with the mean fixed at the start of the utterance -/
def canon (win M k : Nat) : Feat := (List.range (2 * win + 1)).map fun j => some ⟨min (k + j - win) (M - 1), 1, false⟩

theorem canonL_eq_canon (win M k : Nat) (h : k + win < M) : canonL win k = canon win M k := by
  unfold canonL canon
  apply List.map_congr_left
  intro j hj
  have : j < 2 * win + 1 := List.mem_range.mp hj
  congr 2
  omega

theorem canon_mono (win M M' k : Nat) (h : k + win < M) (h' : M ≤ M') : canon win M k = canon win M' k := by
  rw [← canonL_eq_canon win M k h, ← canonL_eq_canon win M' k (by omega)]

/-- the live window between two calls after `c ≥ 1` frames have been consumed: the ring holds the frames
    `c - win - win … c - 1` (left-clamped) ending at `bufpos`, `curpos` is the slot of frame `c - win` -/
def LiveInv (win : Nat) (s : St) (c : Nat) : Prop :=
  s.cepbuf.length = livebuf ∧ ∃ V, s.curpos = (V + win) % livebuf ∧ s.bufpos = (V + win + min c win) % livebuf ∧
    Ring s.cepbuf V (fun j => (c - win) + j - win) (win + min c win)

/-- the window over slots `t … t + 2·win` of a stretch with ids `idf` -/
def winOf (win : Nat) (idf : Nat → Nat) (t : Nat) : Feat :=
  (List.range (2 * win + 1)).map fun j => some ⟨idf (t + j), 1, false⟩

theorem winOf_canonL (win f t : Nat) : winOf win (fun j => f + j - win) t = canonL win (f + t) := by
  unfold winOf canonL
  apply List.map_congr_left
  intro j _
  simp only []
  congr 2; omega

theorem winOf_canon (win f N t : Nat) : winOf win (fun j => min (f + j - win) (N - 1)) t = canon win N (f + t) := by
  unfold winOf canon
  apply List.map_congr_left
  intro j _
  simp only []
  congr 3; omega

/-- the trailing-window rule and the feature loop on a ring that holds `win + nb` known slots -/
theorem live_tail (win : Nat) (s2 : St) (V : Nat) (idf : Nat → Nat) (nb o used : Nat) (hl : s2.cepbuf.length = livebuf)
    (hc : s2.curpos = (V + win) % livebuf) (hr : Ring s2.cepbuf V idf (win + nb))
    (ho : o + (nb - win) ≤ s2.featBuf.length) (hw : 2 * win + 1 ≤ livebuf) :
    let R : LiveRes := if nb ≤ win then ⟨s2, used, 0⟩ else ⟨computeFeats win (nb - win) o s2, used, nb - win⟩
    R.used = used ∧ R.nfeat = nb - win ∧
    ∃ fb, R.st = { s2 with featBuf := fb, curpos := (V + (nb - win) + win) % livebuf } ∧ fb.length = s2.featBuf.length ∧
      (∀ t, t < nb - win → fb.getD (o + t) none = some (winOf win idf t)) ∧
      (∀ q, (q < o ∨ q ≥ o + (nb - win)) → fb.getD q none = s2.featBuf.getD q none) := by
  intro R
  by_cases h : nb ≤ win
  · have e : nb - win = 0 := by omega
    simp only [R, h, if_true, e]
    refine ⟨trivial, trivial, s2.featBuf, ?_, rfl, by simp, by simp⟩
    simp [← hc]
  · have hcl : s2.curpos < livebuf := by rw [hc]; exact Nat.mod_lt _ (by decide)
    simp only [R, h, if_false]
    refine ⟨trivial, trivial,
      featWrite s2.featBuf o ((List.range (nb - win)).map fun i => winAt win s2.cepbuf ((s2.curpos + i) % livebuf)),
      ?_, ?_, ?_, ?_⟩
    · rw [computeFeats_eq win _ _ _ ho hcl]
      have : (s2.curpos + (nb - win)) % livebuf = (V + (nb - win) + win) % livebuf := by
        rw [hc]; simp only [livebuf]; omega
      rw [this]
    · rw [featWrite_length]
    · intro t ht
      obtain ⟨g1, _⟩ := featWrite_get ((List.range (nb - win)).map fun i => winAt win s2.cepbuf ((s2.curpos + i) % livebuf))
        s2.featBuf o (by simpa using ho)
      rw [g1 t (by simpa using ht)]
      congr 1
      rw [List.getD_eq_getElem?_getD, List.getElem?_map, List.getElem?_range (by simpa using ht)]
      simp only [Option.map_some, Option.getD_some]
      rw [winAt_ring win t _ hr (by rw [hc]; simp only [livebuf]; omega) (by omega) hw]
      rfl
    · intro q hq
      obtain ⟨_, g2⟩ := featWrite_get ((List.range (nb - win)).map fun i => winAt win s2.cepbuf ((s2.curpos + i) % livebuf))
        s2.featBuf o (by simpa using ho)
      exact g2 q (by simpa using hq)

/-- `m` fresh (not yet normalised) frames `c, c+1, …` at `mfc_buf[ptr ..]` -/
def MfcAt (mb : List (Option Cep)) (ptr m c : Nat) : Prop := ∀ i, i < m → mb.getD (ptr + i) none = some ⟨c + i, 0, false⟩

/-- what `liveIn` (the writes of one `feat_s2mfc2feat_live` call before the feature loop) leaves:
    `win + nb` known slots from virtual address `V`, `curpos` at slot `win`, `bufpos` behind the last one -/
structure InOut (win : Nat) (s s2 : St) (ptr m V : Nat) (idf : Nat → Nat) (nb : Nat) : Prop where
  frame : ∃ cb bp cp mb cf cm, s2 =
    { s with cepbuf := cb, bufpos := bp, curpos := cp, mfcBuf := mb, cmnFrames := cf, cmnMoved := cm }
  cepLen : s2.cepbuf.length = livebuf
  cur : s2.curpos = (V + win) % livebuf
  buf : s2.bufpos = (V + win + nb) % livebuf
  ring : Ring s2.cepbuf V idf (win + nb)
  mbLen : s2.mfcBuf.length = s.mfcBuf.length
  mbOld : ∀ q, (q < ptr ∨ q ≥ ptr + m) → s2.mfcBuf.getD q none = s.mfcBuf.getD q none
  cmnLo : s.cmnFrames ≤ s2.cmnFrames
  cmnHi : s2.cmnFrames ≤ s.cmnFrames + m

/-- what one call of `feat_s2mfc2feat_live` changes -/
structure LiveOut (s : St) (R : LiveRes) (ptr m o nfv : Nat) (feat : Nat → Feat) : Prop where
  used : R.used = m
  nfeat : R.nfeat = nfv
  frame : ∃ cb bp cp fb mb cf cm, R.st =
    { s with cepbuf := cb, bufpos := bp, curpos := cp, featBuf := fb, mfcBuf := mb, cmnFrames := cf, cmnMoved := cm }
  fbLen : R.st.featBuf.length = s.featBuf.length
  fbNew : ∀ t, t < nfv → R.st.featBuf.getD (o + t) none = some (feat t)
  fbOld : ∀ q, (q < o ∨ q ≥ o + nfv) → R.st.featBuf.getD q none = s.featBuf.getD q none
  mbLen : R.st.mfcBuf.length = s.mfcBuf.length
  mbOld : ∀ q, (q < ptr ∨ q ≥ ptr + m) → R.st.mfcBuf.getD q none = s.mfcBuf.getD q none
  cmnLo : s.cmnFrames ≤ R.st.cmnFrames
  cmnHi : R.st.cmnFrames ≤ s.cmnFrames + m

/-- the feature loop on top of `liveIn` -/
theorem featLive_tail (win : Nat) (skip : Nat → Bool) (s : St) (ptr m : Nat) (b e : Bool) (o V : Nat) (idf : Nat → Nat)
    (nb : Nat) (hspecial : (b && e && decide (m > 0)) = false) (hclamp : ¬ liveNbuf win s m b e + m > livebuf)
    (hnb3 : (if b && decide (m > 0) then liveNbuf win s m b e - win else liveNbuf win s m b e) + m = nb)
    (hin : InOut win s (liveIn win skip s ptr m b e) ptr m V idf nb)
    (ho : o + (nb - win) ≤ s.featBuf.length) (hw : 2 * win + 1 ≤ livebuf) :
    let R := featLive win skip s ptr m b e o
    LiveOut s R ptr m o (nb - win) (winOf win idf) ∧ R.st.cepbuf = (liveIn win skip s ptr m b e).cepbuf ∧
      R.st.bufpos = (liveIn win skip s ptr m b e).bufpos ∧ R.st.curpos = (V + (nb - win) + win) % livebuf ∧
      R.st.cmnMoved = (liveIn win skip s ptr m b e).cmnMoved := by
  intro R
  obtain ⟨cb, bp, cp, mb, cf, cm, hfr⟩ := hin.frame
  have hfb : (liveIn win skip s ptr m b e).featBuf = s.featBuf := by rw [hfr]
  obtain ⟨t1, t2, fb, t3, t4, t5, t6⟩ := live_tail win (liveIn win skip s ptr m b e) V idf nb o m hin.cepLen hin.cur hin.ring
    (by rw [hfb]; exact ho) hw
  have hR : R = (if nb ≤ win then ⟨liveIn win skip s ptr m b e, m, 0⟩
      else ⟨computeFeats win (nb - win) o (liveIn win skip s ptr m b e), m, nb - win⟩ : LiveRes) := by
    simp only [R, featLive, hspecial, hclamp, hnb3, if_false, Bool.false_eq_true]
  rw [← hR] at t1 t2 t3
  refine ⟨⟨t1, t2, ?_, ?_, ?_, ?_, ?_, ?_, ?_, ?_⟩, ?_, ?_, ?_, ?_⟩
  · refine ⟨cb, bp, (V + (nb - win) + win) % livebuf, fb, mb, cf, cm, ?_⟩
    rw [t3, hfr]
  · rw [t3]; simp only []; rw [t4, hfb]
  · intro t ht; rw [t3]; exact t5 t ht
  · intro q hq; rw [t3]; simp only []; rw [t6 q hq, hfb]
  · rw [t3]; exact hin.mbLen
  · intro q hq; rw [t3]; exact hin.mbOld q hq
  · rw [t3]; exact hin.cmnLo
  · rw [t3]; exact hin.cmnHi
  · rw [t3]
  · rw [t3]
  · rw [t3]
  · rw [t3]

theorem nbuf_of_inv {win c V bufpos curpos : Nat} (hc : curpos = (V + win) % livebuf)
    (hb : bufpos = (V + win + min c win) % livebuf) (hw : 2 * win + 1 ≤ livebuf) :
    (if bufpos ≥ curpos then bufpos - curpos else bufpos + livebuf - curpos) = min c win := by
  subst hc hb
  simp only [livebuf] at *
  split <;> omega

/-- copying `m` normalised frames behind a known stretch -/
theorem ring_copy {cb V idf cnt} (h : Ring cb V idf cnt) (hl : cb.length = livebuf) (mb : List (Option Cep)) (ptr m c : Nat)
    (hfit : cnt + m ≤ livebuf) (hmb : ∀ i, i < m → mb.getD (ptr + i) none = some ⟨c + i, 1, false⟩)
    (hid : ∀ i, i < m → idf (cnt + i) = c + i) :
    Ring (ringWrite cb ((V + cnt) % livebuf) ((List.range m).map fun i => mb.getD (ptr + i) none)) V idf (cnt + m) := by
  have := h.write hl ((List.range m).map fun i => mb.getD (ptr + i) none)
    (by simpa using hfit)
    (by
      intro i hi
      simp only [List.length_map, List.length_range] at hi
      rw [List.getD_eq_getElem?_getD, List.getElem?_map, List.getElem?_range hi]
      simp only [Option.map_some, Option.getD_some]
      rw [hmb i hi, hid i hi])
  simpa using this

/-- a call in the PROCESSING state: `m ≥ 0` further frames -/
theorem liveIn_mid (win : Nat) (skip : Nat → Bool) (s : St) (ptr m c : Nat) (hinv : LiveInv win s c)
    (hfr : MfcAt s.mfcBuf ptr m c) (hp : ptr + m ≤ s.mfcBuf.length) (hm : s.cmnMoved = false)
    (hcmn : s.cmnFrames + m ≤ cmnWinHwm) (hfit : m + 2 * win + 1 ≤ livebuf) :
    ∃ V, InOut win s (liveIn win skip s ptr m false false) ptr m V (fun j => (c - win) + j - win) (min c win + m) ∧
      (liveIn win skip s ptr m false false).cmnMoved = false := by
  obtain ⟨hl, V, hc, hb, hr⟩ := hinv
  obtain ⟨mb, cf, e1, hmbl, hmb1, hmb2, hcf1, hcf2⟩ := cmnLive_spec skip s ptr m c hp hfr hm hcmn
  have hbl : s.bufpos < livebuf := by rw [hb]; exact Nat.mod_lt _ (by decide)
  have e2 := pushMany_eq ((List.range m).map fun i => mb.getD (ptr + i) none)
    { s with mfcBuf := mb, cmnFrames := cf } hl hbl
  simp only [List.length_map, List.length_range] at e2
  have hI : liveIn win skip s ptr m false false =
      { s with mfcBuf := mb, cmnFrames := cf,
               cepbuf := ringWrite s.cepbuf s.bufpos ((List.range m).map fun i => mb.getD (ptr + i) none),
               bufpos := (s.bufpos + m) % livebuf } := by
    simp only [liveIn, Bool.false_and, if_false, Bool.false_eq_true, e1]
    exact e2
  have hr2 := ring_copy hr hl mb ptr m c (by simp only [livebuf] at *; omega) hmb1 (by intro i _; omega)
  rw [show (V + (win + min c win)) % livebuf = s.bufpos by rw [hb]; congr 1; omega] at hr2
  refine ⟨V, ⟨⟨_, _, _, _, _, _, hI⟩, ?_, ?_, ?_, ?_, ?_, ?_, ?_, ?_⟩, ?_⟩
  · rw [hI]; simp [ringWrite_length, hl]
  · rw [hI]; exact hc
  · rw [hI]; simp only []; rw [hb]; simp only [livebuf]; omega
  · rw [hI]; simp only []; rwa [show win + (min c win + m) = win + min c win + m by omega]
  · rw [hI]; exact hmbl
  · intro q hq; rw [hI]; exact hmb2 q hq
  · rw [hI]; exact hcf1
  · rw [hI]; exact hcf2
  · rw [hI]; exact hm

theorem featLive_mid (win : Nat) (skip : Nat → Bool) (s : St) (ptr m o c : Nat) (hinv : LiveInv win s c)
    (hfr : MfcAt s.mfcBuf ptr m c) (hp : ptr + m ≤ s.mfcBuf.length) (hm : s.cmnMoved = false)
    (hcmn : s.cmnFrames + m ≤ cmnWinHwm) (hfit : m + 2 * win + 1 ≤ livebuf)
    (ho : o + ((c + m - win) - (c - win)) ≤ s.featBuf.length) :
    let R := featLive win skip s ptr m false false o
    LiveOut s R ptr m o ((c + m - win) - (c - win)) (fun t => canonL win (c - win + t)) ∧ LiveInv win R.st (c + m) ∧
      R.st.cmnMoved = false := by
  intro R
  have hw : 2 * win + 1 ≤ livebuf := by omega
  obtain ⟨V, hin, hmv⟩ := liveIn_mid win skip s ptr m c hinv hfr hp hm hcmn hfit
  obtain ⟨_, V0, hc0, hb0, _⟩ := hinv
  have hnb : liveNbuf win s m false false = min c win := by
    simp only [liveNbuf, Bool.false_and, if_false, Bool.false_eq_true, Nat.add_zero]
    exact nbuf_of_inv hc0 hb0 hw
  have hnfv : min c win + m - win = (c + m - win) - (c - win) := by omega
  obtain ⟨lo, h1, h2, h3, h4⟩ := featLive_tail win skip s ptr m false false o V _ (min c win + m) (by simp)
    (by rw [hnb]; simp only [livebuf] at *; omega) (by simp [hnb]) hin (by rw [hnfv]; exact ho) hw
  refine ⟨?_, ?_, by rw [h4]; exact hmv⟩
  · rw [hnfv] at lo
    refine { lo with fbNew := ?_ }
    intro t ht
    rw [lo.fbNew t ht, winOf_canonL]
  · refine ⟨by rw [h1]; exact hin.cepLen, V + (min c win + m - win), h3, ?_, ?_⟩
    · rw [h2, hin.buf]; simp only [livebuf]; omega
    · rw [h1]
      have := (hin.ring.shift (min c win + m - win) (by omega))
      refine (this.mono (by omega)).congr ?_
      intro j _
      omega

/-- a call in the STARTED state that brings no frame: only the input pointer of the ring is reset -/
theorem featLive_begin0 (win : Nat) (skip : Nat → Bool) (s : St) (ptr o : Nat) :
    featLive win skip s ptr 0 true false o = ⟨{ s with bufpos := s.curpos }, 0, 0⟩ := by
  simp [featLive, liveIn, liveNbuf, cmnLive, pushMany]

/-- the first frames of the utterance (STARTED, `m ≥ 1`): start padding, whatever the ring held before -/
theorem liveIn_begin (win : Nat) (skip : Nat → Bool) (s : St) (ptr m : Nat) (hl : s.cepbuf.length = livebuf)
    (hcur : s.curpos < livebuf) (hm1 : 1 ≤ m)
    (hfr : MfcAt s.mfcBuf ptr m 0) (hp : ptr + m ≤ s.mfcBuf.length) (hm : s.cmnMoved = false)
    (hcmn : s.cmnFrames + m ≤ cmnWinHwm) (hfit : m + 2 * win + 1 ≤ livebuf) :
    InOut win s (liveIn win skip s ptr m true false) ptr m s.curpos (fun j => (0 - win) + j - win) m ∧
      (liveIn win skip s ptr m true false).cmnMoved = false := by
  obtain ⟨mb, cf, e1, hmbl, hmb1, hmb2, hcf1, hcf2⟩ := cmnLive_spec skip { s with bufpos := s.curpos } ptr m 0 hp hfr hm hcmn
  have hm0 : decide (m > 0) = true := by simp; omega
  have hx0 : mb.getD ptr none = some ⟨0, 1, false⟩ := by simpa using hmb1 0 (by omega)
  have e2 := pushMany_eq (List.replicate win (mb.getD ptr none))
    { s with bufpos := s.curpos, mfcBuf := mb, cmnFrames := cf } hl hcur
  simp only [List.length_replicate] at e2
  have e3 := pushMany_eq ((List.range m).map fun i => mb.getD (ptr + i) none)
    { s with mfcBuf := mb, cmnFrames := cf,
             cepbuf := ringWrite s.cepbuf s.curpos (List.replicate win (mb.getD ptr none)),
             bufpos := (s.curpos + win) % livebuf, curpos := (s.curpos + win) % livebuf }
    (by simp [ringWrite_length, hl]) (Nat.mod_lt _ (by decide))
  simp only [List.length_map, List.length_range] at e3
  have hI : liveIn win skip s ptr m true false =
      { s with mfcBuf := mb, cmnFrames := cf,
               cepbuf := ringWrite (ringWrite s.cepbuf s.curpos (List.replicate win (mb.getD ptr none)))
                 ((s.curpos + win) % livebuf) ((List.range m).map fun i => mb.getD (ptr + i) none),
               bufpos := ((s.curpos + win) % livebuf + m) % livebuf, curpos := (s.curpos + win) % livebuf } := by
    simp only [liveIn, Bool.true_and, if_true, if_false, Bool.false_eq_true, hm0, e1, e2]
    exact e3
  have hr0 : Ring s.cepbuf s.curpos (fun j => (0 - win) + j - win) 0 := fun j hj => by omega
  have hr1 := hr0.write hl (List.replicate win (mb.getD ptr none))
    (by simp only [List.length_replicate, livebuf] at *; omega)
    (by
      intro i hi
      simp only [List.length_replicate] at hi
      rw [List.getD_eq_getElem?_getD, List.getElem?_replicate]
      simp only [hi, if_true, Option.getD_some, hx0]
      congr 2; omega)
  simp only [List.length_replicate, Nat.add_zero, Nat.zero_add, Nat.mod_eq_of_lt hcur] at hr1
  have hr2 := ring_copy hr1 (by simp [ringWrite_length, hl]) mb ptr m 0 (by simp only [livebuf] at *; omega) hmb1
    (by intro i _; omega)
  refine ⟨⟨⟨_, _, _, _, _, _, hI⟩, ?_, ?_, ?_, ?_, ?_, ?_, ?_, ?_⟩, ?_⟩
  · rw [hI]; simp [ringWrite_length, hl]
  · rw [hI]
  · rw [hI]; simp only [livebuf]; omega
  · rw [hI]; exact hr2
  · rw [hI]; exact hmbl
  · intro q hq; rw [hI]; exact hmb2 q hq
  · rw [hI]; exact hcf1
  · rw [hI]; exact hcf2
  · rw [hI]; exact hm

theorem featLive_begin (win : Nat) (skip : Nat → Bool) (s : St) (ptr m o : Nat) (hl : s.cepbuf.length = livebuf)
    (hcur : s.curpos < livebuf) (hm1 : 1 ≤ m)
    (hfr : MfcAt s.mfcBuf ptr m 0) (hp : ptr + m ≤ s.mfcBuf.length) (hm : s.cmnMoved = false)
    (hcmn : s.cmnFrames + m ≤ cmnWinHwm) (hfit : m + 2 * win + 1 ≤ livebuf)
    (ho : o + (m - win) ≤ s.featBuf.length) :
    let R := featLive win skip s ptr m true false o
    LiveOut s R ptr m o (m - win) (fun t => canonL win t) ∧ LiveInv win R.st m ∧ R.st.cmnMoved = false := by
  intro R
  have hw : 2 * win + 1 ≤ livebuf := by omega
  obtain ⟨hin, hmv⟩ := liveIn_begin win skip s ptr m hl hcur hm1 hfr hp hm hcmn hfit
  have hm0 : decide (m > 0) = true := by simp; omega
  have hnb : liveNbuf win s m true false = win := by
    simp [liveNbuf, hm0]
  obtain ⟨lo, h1, h2, h3, h4⟩ := featLive_tail win skip s ptr m true false o s.curpos _ m (by simp)
    (by rw [hnb]; simp only [livebuf] at *; omega) (by simp [hnb, hm0]) hin ho hw
  refine ⟨?_, ?_, by rw [h4]; exact hmv⟩
  · refine { lo with fbNew := ?_ }
    intro t ht
    rw [lo.fbNew t ht, winOf_canonL, show 0 - win + t = t by omega]
  · refine ⟨by rw [h1]; exact hin.cepLen, s.curpos + (m - win), h3, ?_, ?_⟩
    · rw [h2, hin.buf]; simp only [livebuf]; omega
    · rw [h1]
      have := (hin.ring.shift (m - win) (by omega))
      refine (this.mono (by omega)).congr ?_
      intro j _
      omega

/-- the last call of the utterance (ENDED, `m ≥ 0` frames, at least one frame in total): end padding -/
theorem liveIn_end (win : Nat) (skip : Nat → Bool) (s : St) (ptr m c : Nat) (hinv : LiveInv win s c) (hc1 : 1 ≤ c)
    (hfr : MfcAt s.mfcBuf ptr m c) (hp : ptr + m ≤ s.mfcBuf.length) (hm : s.cmnMoved = false)
    (hcmn : s.cmnFrames + m ≤ cmnWinHwm) (hfit : m + 3 * win + 1 ≤ livebuf) :
    ∃ V, InOut win s (liveIn win skip s ptr m false true) ptr m V
      (fun j => min ((c - win) + j - win) (c + m - 1)) (min c win + m + win) := by
  obtain ⟨hl, V, hc, hb, hr⟩ := hinv
  obtain ⟨mb, cf, e1, hmbl, hmb1, hmb2, hcf1, hcf2⟩ := cmnLive_spec skip s ptr m c hp hfr hm hcmn
  have hbl : s.bufpos < livebuf := by rw [hb]; exact Nat.mod_lt _ (by decide)
  -- cmn_live_update leaves the buffers alone
  obtain ⟨cm', cf', e1u, hcfu⟩ : ∃ cm' cf', cmnUpdate { s with mfcBuf := mb, cmnFrames := cf } =
      { s with mfcBuf := mb, cmnFrames := cf', cmnMoved := cm' } ∧ cf' = cf := by
    unfold cmnUpdate
    by_cases h0 : cf = 0
    · exact ⟨s.cmnMoved, cf, by simp [h0], rfl⟩
    · have : ¬ cf > cmnWinHwm := by omega
      exact ⟨true, cf, by simp [h0, this], rfl⟩
  subst hcfu
  have e2 := pushMany_eq ((List.range m).map fun i => mb.getD (ptr + i) none)
    { s with mfcBuf := mb, cmnFrames := cf', cmnMoved := cm' } hl hbl
  simp only [List.length_map, List.length_range] at e2
  have hr2 := ring_copy hr hl mb ptr m c (by simp only [livebuf] at *; omega) hmb1 (by intro i _; omega)
  rw [show (V + (win + min c win)) % livebuf = s.bufpos by rw [hb]; congr 1; omega] at hr2
  -- the frame that is replicated
  let cb2 := ringWrite s.cepbuf s.bufpos ((List.range m).map fun i => mb.getD (ptr + i) none)
  let bp2 := (s.bufpos + m) % livebuf
  let tpos := if bp2 = 0 then livebuf - 1 else bp2 - 1
  have hbp2 : bp2 = (V + (win + min c win + m)) % livebuf := by
    simp only [bp2]; rw [hb]; simp only [livebuf]; omega
  have htpos : win ≥ 1 → tpos = (V + (win + min c win + m - 1)) % livebuf := by
    intro hw1
    simp only [tpos]; rw [hbp2]; simp only [livebuf]; split <;> omega
  have htl : tpos < livebuf := by
    have : bp2 < livebuf := Nat.mod_lt _ (by decide)
    simp only [tpos, livebuf] at *; split <;> omega
  have hx : win ≥ 1 → cb2.getD tpos none = some ⟨c + m - 1, 1, false⟩ := by
    intro hw1
    rw [htpos hw1, hr2 (win + min c win + m - 1) (by omega)]
    show some (⟨c - win + (win + min c win + m - 1) - win, 1, false⟩ : Cep) = _
    congr 2; omega
  have e3 := repLast_eq win tpos
    { s with mfcBuf := mb, cmnFrames := cf', cmnMoved := cm', cepbuf := cb2, bufpos := bp2 }
    (by simp [cb2, ringWrite_length, hl]) (Nat.mod_lt _ (by decide)) htl
    (by
      intro i hi
      simp only []
      rw [htpos (by omega), hbp2]; simp only [livebuf] at *; omega)
  have e4 := pushMany_eq (List.replicate win (cb2.getD tpos none))
    { s with mfcBuf := mb, cmnFrames := cf', cmnMoved := cm', cepbuf := cb2, bufpos := bp2 }
    (by simp [cb2, ringWrite_length, hl]) (Nat.mod_lt _ (by decide))
  simp only [List.length_replicate] at e4
  have hI : liveIn win skip s ptr m false true =
      { s with mfcBuf := mb, cmnFrames := cf', cmnMoved := cm',
               cepbuf := ringWrite cb2 bp2 (List.replicate win (cb2.getD tpos none)),
               bufpos := (bp2 + win) % livebuf } := by
    simp only [liveIn, Bool.false_and, if_false, if_true, Bool.false_eq_true, e1, e1u, e2]
    rw [e3]
    exact e4
  -- the ring with the clamped ids, then the replicated slots
  have hr3 : Ring cb2 V (fun j => min ((c - win) + j - win) (c + m - 1)) (win + min c win + m) := by
    refine hr2.congr ?_
    intro j hj
    omega
  have hr4 := hr3.write (by simp [cb2, ringWrite_length, hl]) (List.replicate win (cb2.getD tpos none))
    (by simp only [List.length_replicate, livebuf] at *; omega)
    (by
      intro i hi
      simp only [List.length_replicate] at hi
      rw [List.getD_eq_getElem?_getD, List.getElem?_replicate]
      simp only [hi, if_true, Option.getD_some]
      rw [hx (by omega)]
      congr 2; omega)
  simp only [List.length_replicate] at hr4
  rw [← hbp2] at hr4
  refine ⟨V, ⟨⟨_, _, _, _, _, _, hI⟩, ?_, ?_, ?_, ?_, ?_, ?_, ?_, ?_⟩⟩
  · rw [hI]; simp [cb2, ringWrite_length, hl]
  · rw [hI]; exact hc
  · rw [hI]; simp only []; rw [hbp2]; simp only [livebuf]; omega
  · rw [hI]; simp only []
    rwa [show win + (min c win + m + win) = win + min c win + m + win by omega]
  · rw [hI]; exact hmbl
  · intro q hq; rw [hI]; exact hmb2 q hq
  · rw [hI]; exact hcf1
  · rw [hI]; exact hcf2

theorem featLive_end (win : Nat) (skip : Nat → Bool) (s : St) (ptr m o c : Nat) (hinv : LiveInv win s c) (hc1 : 1 ≤ c)
    (hfr : MfcAt s.mfcBuf ptr m c) (hp : ptr + m ≤ s.mfcBuf.length) (hm : s.cmnMoved = false)
    (hcmn : s.cmnFrames + m ≤ cmnWinHwm) (hfit : m + 3 * win + 1 ≤ livebuf)
    (ho : o + ((c + m) - (c - win)) ≤ s.featBuf.length) :
    let R := featLive win skip s ptr m false true o
    LiveOut s R ptr m o ((c + m) - (c - win)) (fun t => canon win (c + m) (c - win + t)) := by
  intro R
  have hw : 2 * win + 1 ≤ livebuf := by omega
  obtain ⟨V, hin⟩ := liveIn_end win skip s ptr m c hinv hc1 hfr hp hm hcmn hfit
  obtain ⟨_, V0, hc0, hb0, _⟩ := hinv
  have hnb : liveNbuf win s m false true = min c win + win := by
    simp only [liveNbuf, Bool.false_and, if_false, if_true, Bool.false_eq_true, Nat.add_zero]
    rw [nbuf_of_inv hc0 hb0 hw]
  have hnfv : min c win + m + win - win = (c + m) - (c - win) := by omega
  obtain ⟨lo, -⟩ := featLive_tail win skip s ptr m false true o V _ (min c win + m + win) (by simp)
    (by rw [hnb]; simp only [livebuf] at *; omega) (by simp [hnb]; omega) hin (by rw [hnfv]; exact ho) hw
  rw [hnfv] at lo
  refine { lo with fbNew := ?_ }
  intro t ht
  rw [lo.fbNew t ht, winOf_canon]

/-! ## growing `feat_buf` -/

/-- `s'` is `s` with a longer feature buffer that keeps the old entries -/
def FbExt (s s' : St) : Prop :=
  ∃ fb a, s' = { s with featBuf := fb, nFeatAlloc := a } ∧ fb.length = a ∧ s.nFeatAlloc ≤ a ∧
    ∀ q, q < s.featBuf.length → fb.getD q none = s.featBuf.getD q none

theorem FbExt.refl (s : St) (h : s.featBuf.length = s.nFeatAlloc) : FbExt s s :=
  ⟨s.featBuf, s.nFeatAlloc, rfl, h, Nat.le_refl _, fun _ _ => rfl⟩

theorem FbExt.trans {s s' s'' : St} (h1 : FbExt s s') (h2 : FbExt s' s'') (hl : s.featBuf.length = s.nFeatAlloc) :
    FbExt s s'' := by
  obtain ⟨fb, a, e, hl1, hle, hg⟩ := h1
  obtain ⟨fb', a', e', hl2, hle', hg'⟩ := h2
  refine ⟨fb', a', ?_, hl2, ?_, ?_⟩
  · rw [e', e]
  · rw [e] at hle'; simp only [] at hle'; omega
  · intro q hq
    rw [e] at hg'; simp only [] at hg'
    rw [hg' q (by omega), hg q hq]

theorem growFeatBuf_ext (s : St) (nfr : Nat) (hl : s.featBuf.length = s.nFeatAlloc) (h : s.nFeatAlloc ≤ nfr) :
    FbExt s (growFeatBuf s nfr) := by
  refine ⟨s.featBuf ++ List.replicate (nfr - s.featBuf.length) none, nfr, rfl, by simp; omega, h, ?_⟩
  intro q hq
  simp [List.getD_eq_getElem?_getD, List.getElem?_append_left hq]

theorem growLoop_ext : ∀ (fuel : Nat) (s : St) (need : Int), s.featBuf.length = s.nFeatAlloc → 1 ≤ s.nFeatAlloc →
    need.toNat < s.nFeatAlloc + fuel →
    FbExt s (growLoop fuel s need) ∧ need < ((growLoop fuel s need).nFeatAlloc : Int) := by
  intro fuel
  induction fuel with
  | zero =>
    intro s need hl h1 hf
    have : ¬ need ≥ (s.nFeatAlloc : Int) := by omega
    simp only [growLoop, this, if_false]
    exact ⟨FbExt.refl s hl, by omega⟩
  | succ fuel ih =>
    intro s need hl h1 hf
    by_cases h : need ≥ (s.nFeatAlloc : Int)
    · simp only [growLoop, h, if_true]
      have hg := growFeatBuf_ext s (s.nFeatAlloc * 2) hl (by omega)
      obtain ⟨fb, a, e, hl1, hle, _⟩ := hg
      have hl' : (growFeatBuf s (s.nFeatAlloc * 2)).featBuf.length = (growFeatBuf s (s.nFeatAlloc * 2)).nFeatAlloc := by
        rw [e]; exact hl1
      have ha : (growFeatBuf s (s.nFeatAlloc * 2)).nFeatAlloc = s.nFeatAlloc * 2 := rfl
      obtain ⟨i1, i2⟩ := ih (growFeatBuf s (s.nFeatAlloc * 2)) need hl' (by rw [ha]; omega) (by rw [ha]; omega)
      exact ⟨(growFeatBuf_ext s (s.nFeatAlloc * 2) hl (by omega)).trans i1 hl, i2⟩
    · simp only [growLoop, h, if_false]
      exact ⟨FbExt.refl s hl, by omega⟩

/-- the two growth steps of `acmod_process_cep` (acmod.c:656-678) leave room for `inptr + nfeat` -/
theorem grow_spec (s : St) (nfeat : Int) (hl : s.featBuf.length = s.nFeatAlloc) (h1 : 1 ≤ s.nFeatAlloc)
    (hff : s.nFeatFrame ≤ s.nFeatAlloc) :
    let s1 := if nfeat > (s.nFeatAlloc : Int) - s.nFeatFrame then growFeatBuf s ((s.nFeatAlloc : Int) + nfeat).toNat else s
    let need : Int := ((s1.featOutidx + s1.nFeatFrame : Nat) : Int) + nfeat
    let s2 := growLoop (need.toNat + 1) s1 need
    FbExt s s2 ∧ ((s.featOutidx + s.nFeatFrame : Nat) : Int) + nfeat < (s2.nFeatAlloc : Int) := by
  intro s1 need s2
  have hs1 : FbExt s s1 := by
    simp only [s1]
    split
    · exact growFeatBuf_ext s _ hl (by omega)
    · exact FbExt.refl s hl
  obtain ⟨fb, a, e, hl1, hle, hg⟩ := hs1
  have hl' : s1.featBuf.length = s1.nFeatAlloc := by rw [e]; exact hl1
  have ha : s1.nFeatAlloc = a := by rw [e]
  have hneed : need = ((s.featOutidx + s.nFeatFrame : Nat) : Int) + nfeat := by
    simp only [need]; rw [e]
  obtain ⟨i1, i2⟩ := growLoop_ext (need.toNat + 1) s1 need hl' (by omega) (by omega)
  refine ⟨FbExt.trans ⟨fb, a, e, hl1, hle, hg⟩ i1 hl, ?_⟩
  rw [← hneed]; exact i2

end SSVerif.AcmodBuf
