import SSVerif.Model.JsgfText
/-!
The scanner reads back every lexable token list from its blank-separated spelling:
`lexable st ts → lexGo st 0 (unlex ts) = ts`.
-/
namespace SSVerif.JsgfText

/-! ### generic list facts -/

theorem takeWhile_append_stop {α : Type} (p : α → Bool) : ∀ (a : List α) (x : α) (b : List α),
    a.all p = true → p x = false → (a ++ x :: b).takeWhile p = a
  | [], x, b, _, hx => by simp [hx]
  | y :: a, x, b, ha, hx => by
    simp only [List.all_cons, Bool.and_eq_true] at ha
    simp only [List.cons_append, List.takeWhile, ha.1]
    rw [takeWhile_append_stop p a x b ha.2 hx]

theorem takeWhile_length_le_stop {α : Type} (p : α → Bool) : ∀ (a : List α) (x : α) (b : List α),
    p x = false → ((a ++ x :: b).takeWhile p).length ≤ a.length
  | [], x, b, hx => by simp [hx]
  | y :: a, x, b, hx => by
    simp only [List.cons_append, List.takeWhile]
    cases p y with
    | true => simp only [List.length_cons]; exact Nat.succ_le_succ (takeWhile_length_le_stop p a x b hx)
    | false => simp

theorem drop_length_append {α : Type} (a b : List α) : (a ++ b).drop a.length = b := by
  induction a with
  | nil => rfl
  | cons x a ih => simpa using ih

theorem take_length_append {α : Type} (a b : List α) : (a ++ b).take a.length = a := by
  induction a with
  | nil => simp
  | cons x a ih => simpa using ih

/-! ### the skip counter -/

theorem lexGo_skip (st : LState) : ∀ (pre rest : List Char), lexGo st pre.length (pre ++ rest) = lexGo st 0 rest
  | [], rest => rfl
  | c :: pre, rest => by
    simp only [List.length_cons, List.cons_append, lexGo]
    exact lexGo_skip st pre rest

theorem lexGo_blank (st : LState) (h : st = .initial ∨ st = .decl) (rest : List Char) :
    lexGo st 0 (' ' :: rest) = lexGo st 0 rest := by
  rcases h with rfl | rfl <;> simp [lexGo, lexAt, isWs]

/-- one token followed by a blank -/
theorem lexGo_token {st st' : LState} {t : Tok} {sp rest : List Char}
    (hat : lexAt st (sp ++ ' ' :: rest) = ⟨sp.length, some t, st'⟩) (hne : sp ≠ [])
    (hst : st' = .initial ∨ st' = .decl) :
    lexGo st 0 (sp ++ ' ' :: rest) = t :: lexGo st' 0 rest := by
  cases sp with
  | nil => exact absurd rfl hne
  | cons c r =>
    simp only [List.cons_append] at hat ⊢
    simp only [lexGo, hat, List.length_cons, Nat.add_sub_cancel]
    rw [lexGo_skip st' r (' ' :: rest), lexGo_blank st' hst]

/-! ### special characters -/

theorem notSpecial_facts {c : Char} (h : isSpecial c = false) :
    isWs c = false ∧ c ≠ '/' ∧ c ≠ '<' ∧ c ≠ '{' ∧ c ≠ ';' := by
  simp only [isSpecial, Bool.or_eq_false_iff, beq_eq_false_iff_ne, ne_eq] at h
  obtain ⟨⟨⟨⟨⟨⟨⟨⟨⟨⟨⟨⟨⟨⟨h1, _⟩, h2⟩, _⟩, _⟩, _⟩, h3⟩, _⟩, _⟩, _⟩, _⟩, _⟩, h4⟩, _⟩, h5⟩ := h
  exact ⟨h1, h5, h3, h4, h2⟩

theorem blank_special : isSpecial ' ' = true := by decide

/-! ### keywords and single characters -/

theorem lexAt_header (rest : List Char) :
    lexAt .initial (spell .header ++ ' ' :: rest) = ⟨(spell .header).length, some .header, .decl⟩ := by
  simp [spell, lexAt, isWs, startsWith, List.isPrefixOf]

theorem lexAt_grammar (rest : List Char) :
    lexAt .initial (spell .grammar ++ ' ' :: rest) = ⟨(spell .grammar).length, some .grammar, .decl⟩ := by
  simp [spell, lexAt, isWs, startsWith, List.isPrefixOf, bom]

theorem lexAt_import (rest : List Char) :
    lexAt .initial (spell .import_ ++ ' ' :: rest) = ⟨(spell .import_).length, some .import_, .decl⟩ := by
  simp [spell, lexAt, isWs, startsWith, List.isPrefixOf, bom]

theorem lexAt_public (rest : List Char) :
    lexAt .initial (spell .public_ ++ ' ' :: rest) = ⟨(spell .public_).length, some .public_, .decl⟩ := by
  simp [spell, lexAt, isWs, startsWith, List.isPrefixOf, bom]

theorem lexAt_ch {c : Char} {st' : LState} (h : lexNext .decl (.ch c) = some st') (rest : List Char) :
    lexAt .decl (spell (.ch c) ++ ' ' :: rest) = ⟨(spell (.ch c)).length, some (.ch c), st'⟩ := by
  simp only [lexNext] at h
  by_cases h1 : c = ';'
  · subst h1
    simp only [if_true, Option.some.injEq] at h
    subst h
    simp [spell, lexAt, isWs]
  · simp only [h1, if_false] at h
    split at h
    · rename_i hc
      simp only [Option.some.injEq] at h
      subst h
      rcases hc with rfl | rfl | rfl | rfl | rfl | rfl | rfl | rfl <;>
        simp [spell, lexAt, isWs, isSpecial]
    · cases h

/-! ### rule names -/

theorem dropLast_append_last {α : Type} : ∀ (l : List α) (a : α), l.getLast? = some a → l.dropLast ++ [a] = l
  | [], a, h => by simp at h
  | [x], a, h => by simp at h; simp [h]
  | x :: y :: l, a, h => by
    have := dropLast_append_last (y :: l) a (by simpa [List.getLast?_cons_cons] using h)
    simp only [List.dropLast_cons₂, List.cons_append]
    rw [this]

theorem split_last {r : List Char} {cl : Char} (h : r.getLast? = some cl) : r = r.dropLast ++ [cl] :=
  (dropLast_append_last r cl h).symm

theorem rulename_shape {s : List Char} (h : rulenameOK s = true) :
    ∃ w, s = '<' :: (w ++ ['>']) ∧ w ≠ [] ∧ w.all (fun x => x != '<' && x != '>') = true := by
  cases s with
  | nil => simp [rulenameOK] at h
  | cons c r =>
    simp only [rulenameOK, Bool.and_eq_true, beq_iff_eq, Bool.not_eq_true', List.isEmpty_eq_false_iff] at h
    obtain ⟨⟨⟨rfl, h2⟩, h3⟩, h4⟩ := h
    refine ⟨r.dropLast, ?_, h3, h4⟩
    rw [← split_last h2]

theorem mRulename_spell {w rest : List Char} (hne : w ≠ [])
    (hall : w.all (fun x => x != '<' && x != '>') = true) :
    mRulename ('<' :: (w ++ '>' :: ' ' :: rest)) = w.length + 2 := by
  simp only [mRulename]
  rw [takeWhile_append_stop _ w '>' (' ' :: rest) hall (by decide), drop_length_append]
  cases w with
  | nil => exact absurd rfl hne
  | cons x w' => simp

theorem lexAt_rulename {st : LState} (hst : st = .initial ∨ st = .decl) {s : List Char}
    (h : rulenameOK s = true) (rest : List Char) :
    lexAt st (s ++ ' ' :: rest) = ⟨s.length, some (.rulename s), .decl⟩ := by
  obtain ⟨w, rfl, hne, hall⟩ := rulename_shape h
  have e : '<' :: (w ++ ['>']) ++ ' ' :: rest = '<' :: (w ++ '>' :: ' ' :: rest) := by simp
  rw [e]
  have hm := mRulename_spell (rest := rest) hne hall
  have hlen : ('<' :: (w ++ ['>'])).length = w.length + 2 := by simp
  have htake : ('<' :: (w ++ '>' :: ' ' :: rest)).take (w.length + 2) = '<' :: (w ++ ['>']) := by
    rw [← e, ← hlen, take_length_append]
  rcases hst with rfl | rfl
  · simp only [lexAt, isWs, hm, htake, hlen]
    simp
  · simp only [lexAt, isWs, hm, htake, hlen]
    simp

/-! ### plain tokens -/

theorem mQstring_not_quote {c : Char} (h : c ≠ '"') (r : List Char) : mQstring (c :: r) = 0 := by
  unfold mQstring
  split
  · rename_i heq
    simp only [List.cons.injEq] at heq
    exact absurd heq.1 h
  · rfl

theorem mToken_spell {s rest : List Char} (hall : s.all (fun c => !isSpecial c) = true) :
    mToken (s ++ ' ' :: rest) = s.length := by
  unfold mToken
  rw [takeWhile_append_stop _ s ' ' rest hall (by decide)]

theorem lexAt_plain {s : List Char} (h : plainTokenOK s = true) (rest : List Char) :
    lexAt .decl (s ++ ' ' :: rest) = ⟨s.length, some (.token s), .decl⟩ := by
  simp only [plainTokenOK, Bool.and_eq_true, Bool.not_eq_true', List.isEmpty_eq_false_iff] at h
  obtain ⟨⟨hne, hall⟩, hq⟩ := h
  cases s with
  | nil => exact absurd rfl hne
  | cons c r =>
    have hc : isSpecial c = false := by
      simp only [List.all_cons, Bool.and_eq_true, Bool.not_eq_true'] at hall
      exact hall.1
    obtain ⟨h1, h2, h3, h4, h5⟩ := notSpecial_facts hc
    have hcq : c ≠ '"' := by
      intro heq; subst heq; simp at hq
    have hm := mToken_spell (rest := rest) hall
    have hqs := mQstring_not_quote hcq (r ++ ' ' :: rest)
    simp only [List.cons_append] at hm ⊢
    simp only [lexAt, h1, hc, hm, hqs, beq_eq_false_iff_ne.mpr h2, beq_eq_false_iff_ne.mpr h3,
      beq_eq_false_iff_ne.mpr h4, beq_eq_false_iff_ne.mpr h5, Bool.false_eq_true, if_false]
    have ht : (c :: (r ++ ' ' :: rest)).take (c :: r).length = c :: r := by
      have := take_length_append (c :: r) (' ' :: rest)
      simpa using this
    simp only [Nat.max_eq_left (Nat.zero_le _), ht]

/-! ### quoted tokens and tags -/

theorem closeIdx_scan (q : Char) : ∀ (w : List Char) (prev : Bool) (i : Nat) (cand : Option Nat) (rest : List Char),
    w.contains q = false → endsBS prev w = false →
    closeIdx q prev i cand (w ++ q :: rest) = some (i + w.length)
  | [], prev, i, cand, rest, _, hl => by
    simp only [endsBS] at hl
    simp [closeIdx, hl]
  | x :: w, prev, i, cand, rest, hc, hl => by
    have hx : (x == q) = false := by
      rw [Bool.eq_false_iff]
      intro h
      have hxq : x = q := by simpa using h
      subst hxq
      simp at hc
    have hc2 : w.contains q = false := by
      rw [Bool.eq_false_iff] at hc ⊢
      intro h
      apply hc
      simp only [List.contains_cons, h, Bool.or_true]
    simp only [List.cons_append, closeIdx, hx, Bool.false_eq_true, if_false]
    simp only [endsBS] at hl
    rw [closeIdx_scan q w (x == '\\') (i + 1) cand rest hc2 hl]
    simp only [List.length_cons]
    congr 1
    omega

theorem delimited_shape {op cl : Char} {s : List Char} (h : delimitedOK op cl s = true) :
    ∃ w, s = op :: (w ++ [cl]) ∧ w.contains cl = false ∧ endsBS false w = false := by
  cases s with
  | nil => simp [delimitedOK] at h
  | cons c r =>
    simp only [delimitedOK, Bool.and_eq_true, beq_iff_eq, Bool.not_eq_true'] at h
    obtain ⟨⟨⟨rfl, h2⟩, h3⟩, h4⟩ := h
    exact ⟨r.dropLast, by rw [← split_last h2], h3, h4⟩

theorem lexAt_quoted {s : List Char} (h : delimitedOK '"' '"' s = true) (rest : List Char) :
    lexAt .decl (s ++ ' ' :: rest) = ⟨s.length, some (.token s), .decl⟩ := by
  obtain ⟨w, rfl, hc, hl⟩ := delimited_shape h
  have hci := closeIdx_scan '"' w false 0 none (' ' :: rest) hc hl
  have e : '"' :: (w ++ ['"']) ++ ' ' :: rest = '"' :: (w ++ '"' :: ' ' :: rest) := by simp
  have hq : mQstring ('"' :: (w ++ '"' :: ' ' :: rest)) = w.length + 2 := by
    simp only [mQstring, hci]; omega
  have hlen : ('"' :: (w ++ ['"'])).length = w.length + 2 := by simp
  have hm : mToken ('"' :: (w ++ '"' :: ' ' :: rest)) ≤ w.length + 2 := by
    rw [← e, ← hlen]
    exact takeWhile_length_le_stop _ _ ' ' rest (by decide)
  have htake : ('"' :: (w ++ '"' :: ' ' :: rest)).take (w.length + 2) = '"' :: (w ++ ['"']) := by
    rw [← e, ← hlen, take_length_append]
  rw [e]
  have hsp : isSpecial '"' = false := by decide
  simp only [lexAt, isWs, hsp, hq, Nat.max_eq_right hm, htake, hlen]
  simp

theorem lexAt_tag {s : List Char} (h : tagOK s = true) (rest : List Char) :
    lexAt .decl (s ++ ' ' :: rest) = ⟨s.length, some (.tag s), .decl⟩ := by
  obtain ⟨w, rfl, hc, hl⟩ := delimited_shape h
  have hci := closeIdx_scan '}' w false 0 none (' ' :: rest) hc hl
  have e : '{' :: (w ++ ['}']) ++ ' ' :: rest = '{' :: (w ++ '}' :: ' ' :: rest) := by simp
  have hq : mTag ('{' :: (w ++ '}' :: ' ' :: rest)) = w.length + 2 := by
    simp only [mTag, hci]; omega
  have hlen : ('{' :: (w ++ ['}'])).length = w.length + 2 := by simp
  have htake : ('{' :: (w ++ '}' :: ' ' :: rest)).take (w.length + 2) = '{' :: (w ++ ['}']) := by
    rw [← e, ← hlen, take_length_append]
  rw [e]
  simp only [lexAt, isWs, hq, htake, hlen]
  simp

/-! ### weights -/

theorem digit_facts : ∀ k, k < 10 → isDigit (Char.ofNat (48 + k)) = true ∧
    (Char.ofNat (48 + k)).toNat - '0'.toNat = k := by decide

theorem digitChar_isDigit (n : Nat) : isDigit (digitChar n) = true :=
  (digit_facts (n % 10) (Nat.mod_lt _ (by decide))).1

theorem digitChar_val (n : Nat) : (digitChar n).toNat - '0'.toNat = n % 10 :=
  (digit_facts (n % 10) (Nat.mod_lt _ (by decide))).2

theorem natDigitsF_all : ∀ fuel n, (natDigitsF fuel n).all isDigit = true
  | 0, _ => by simp only [natDigitsF]; decide
  | fuel + 1, n => by
    simp only [natDigitsF]
    split
    · simp [digitChar_isDigit]
    · simp [natDigitsF_all fuel (n / 10), digitChar_isDigit]

theorem natDigitsF_ne : ∀ fuel n, natDigitsF fuel n ≠ []
  | 0, _ => by simp [natDigitsF]
  | fuel + 1, n => by
    simp only [natDigitsF]
    split <;> simp

theorem digitsVal_snoc (ds : List Char) (c : Char) :
    digitsVal (ds ++ [c]) = 10 * digitsVal ds + (c.toNat - '0'.toNat) := by
  simp [digitsVal, List.foldl_append]

theorem natDigitsF_val : ∀ fuel n, n < fuel → digitsVal (natDigitsF fuel n) = n
  | 0, n, h => by omega
  | fuel + 1, n, h => by
    simp only [natDigitsF]
    split
    · rename_i hlt
      have := digitChar_val n
      simp only [digitsVal, List.foldl_cons, List.foldl_nil, Nat.mul_zero, Nat.zero_add]
      rw [this, Nat.mod_eq_of_lt hlt]
    · rename_i hge
      rw [digitsVal_snoc, natDigitsF_val fuel (n / 10) (by omega), digitChar_val]
      omega

theorem digitsVal_zeros (k : Nat) (ds : List Char) : digitsVal (List.replicate k '0' ++ ds) = digitsVal ds := by
  induction k with
  | zero => simp
  | succ k ih =>
    simp only [List.replicate_succ, List.cons_append]
    simp only [digitsVal, List.foldl_cons] at ih ⊢
    simpa using ih

theorem zeros_all (k : Nat) : (List.replicate k '0').all isDigit = true := by
  induction k with
  | zero => rfl
  | succ k ih => simp only [List.replicate_succ, List.all_cons, ih]; decide

theorem all_take {p : Char → Bool} {l : List Char} (h : l.all p = true) (n : Nat) : (l.take n).all p = true := by
  simp only [List.all_eq_true] at h ⊢
  exact fun x hx => h x (List.mem_of_mem_take hx)

theorem all_drop {p : Char → Bool} {l : List Char} (h : l.all p = true) (n : Nat) : (l.drop n).all p = true := by
  simp only [List.all_eq_true] at h ⊢
  exact fun x hx => h x (List.mem_of_mem_drop hx)

/-- integer part, fraction part of the spelling of a decimal literal -/
theorem spellDec_parts (d : Dec) : ∃ ip fp : List Char, ip ≠ [] ∧ ip.all isDigit = true ∧ fp.all isDigit = true ∧
    digitsVal (ip ++ fp) = d.mant ∧ fp.length = d.exp ∧
    spellDec d = '/' :: (ip ++ (if d.exp = 0 then ['/'] else '.' :: (fp ++ ['/']))) := by
  by_cases h0 : d.exp = 0
  · refine ⟨natDigits d.mant, [], natDigitsF_ne _ _, natDigitsF_all _ _, rfl, ?_, h0.symm, ?_⟩
    · simp only [List.append_nil, natDigits]
      exact natDigitsF_val _ _ (Nat.lt_succ_self _)
    · simp [spellDec, h0]
  · let ds := natDigits d.mant
    let padded := List.replicate (d.exp + 1 - ds.length) '0' ++ ds
    have hL : d.exp + 1 ≤ padded.length := by
      simp only [padded, List.length_append, List.length_replicate]
      omega
    have hall : padded.all isDigit = true := by
      simp only [padded, List.all_append, zeros_all, Bool.true_and]
      exact natDigitsF_all _ _
    refine ⟨padded.take (padded.length - d.exp), padded.drop (padded.length - d.exp), ?_, all_take hall _,
      all_drop hall _, ?_, ?_, ?_⟩
    · intro h
      have := congrArg List.length h
      simp only [List.length_take, List.length_nil] at this
      omega
    · rw [List.take_append_drop]
      simp only [padded, digitsVal_zeros]
      exact natDigitsF_val _ _ (Nat.lt_succ_self _)
    · simp only [List.length_drop]
      omega
    · simp [spellDec, h0, padded, ds]

theorem fracPart_slash (r : List Char) : fracPart ('/' :: r) = ([], false, '/' :: r) := rfl
theorem fracPart_dot (r : List Char) :
    fracPart ('.' :: r) = (r.takeWhile isDigit, true, r.drop (r.takeWhile isDigit).length) := rfl
theorem expPart_slash (r : List Char) : expPart ('/' :: r) = (false, '/' :: r) := rfl
theorem isDigit_slash : isDigit '/' = false := by decide
theorem isDigit_dot : isDigit '.' = false := by decide

theorem mWeight_spell (d : Dec) (rest : List Char) :
    mWeight (spellDec d ++ ' ' :: rest) = ((spellDec d).length, d) := by
  obtain ⟨ip, fp, hne, hip, hfp, hval, hlen, hsp⟩ := spellDec_parts d
  rw [hsp]
  obtain ⟨m, ex⟩ := d
  simp only at hval hlen ⊢
  by_cases h0 : ex = 0
  · subst h0
    have hfp0 : fp = [] := by
      cases fp with
      | nil => rfl
      | cons x y => simp at hlen
    subst hfp0
    simp only [if_true]
    have e : '/' :: (ip ++ ['/']) ++ ' ' :: rest = '/' :: (ip ++ '/' :: ' ' :: rest) := by simp
    rw [e]
    simp only [mWeight]
    rw [takeWhile_append_stop isDigit ip '/' (' ' :: rest) hip isDigit_slash, drop_length_append,
      fracPart_slash, expPart_slash]
    simp only [Bool.false_and, Bool.false_eq_true, if_false, List.takeWhile,
      isDigit_slash, List.length_nil, List.drop_zero, weightVal, List.append_nil]
    simp only [List.append_nil] at hval
    rw [hval]
    simp only [List.length_cons, List.length_append, List.length_nil, Prod.mk.injEq, and_true]
    omega
  · simp only [h0, if_false]
    have e : '/' :: (ip ++ '.' :: (fp ++ ['/'])) ++ ' ' :: rest = '/' :: (ip ++ '.' :: (fp ++ '/' :: ' ' :: rest)) := by
      simp
    rw [e]
    have hfpne : fp.isEmpty = false := by
      cases fp with
      | nil => simp at hlen; omega
      | cons x y => rfl
    simp only [mWeight]
    rw [takeWhile_append_stop isDigit ip '.' _ hip isDigit_dot, drop_length_append, fracPart_dot,
      takeWhile_append_stop isDigit fp '/' (' ' :: rest) hfp isDigit_slash, drop_length_append, expPart_slash]
    simp only [hfpne, Bool.and_false, Bool.false_eq_true, if_false, List.takeWhile,
      isDigit_slash, List.length_nil, List.drop_zero, weightVal, List.append_nil, if_true]
    rw [hval, hlen]
    simp only [List.length_cons, List.length_append, List.length_nil, Prod.mk.injEq, Nat.add_zero, and_true]
    omega

theorem lexAt_weight (d : Dec) (rest : List Char) :
    lexAt .decl (spellDec d ++ ' ' :: rest) = ⟨(spellDec d).length, some (.weight d), .decl⟩ := by
  have hm := mWeight_spell d rest
  obtain ⟨ip, fp, hne, hip, hfp, hval, hlen, hsp⟩ := spellDec_parts d
  cases ip with
  | nil => exact absurd rfl hne
  | cons dg ip' =>
    have hdg : isDigit dg = true := by
      simp only [List.all_cons, Bool.and_eq_true] at hip
      exact hip.1
    have hne1 : dg ≠ '*' := by intro h; subst h; simp [isDigit] at hdg
    have hne2 : dg ≠ '/' := by intro h; subst h; simp [isDigit] at hdg
    rw [hsp] at hm ⊢
    simp only [List.cons_append] at hm ⊢
    have hlc : mLineComment ('/' :: dg :: (ip' ++ (if d.exp = 0 then ['/'] else '.' :: (fp ++ ['/'])) ++ ' ' :: rest)) = 0 := by
      unfold mLineComment
      split
      · rename_i heq
        simp only [List.cons.injEq, true_and] at heq
        exact absurd heq.1 hne2
      · rfl
    have hpos : 0 < (spellDec d).length := by rw [hsp]; simp
    rw [hsp] at hpos
    simp only [List.length_cons] at hpos hm ⊢
    simp only [lexAt, isWs, List.head?_cons, hlc, hm]
    simp [hne1]

/-! ### the scanner on blank-separated spellings -/

theorem lexAt_token {s : List Char} (h : tokenOK s = true) (rest : List Char) :
    lexAt .decl (s ++ ' ' :: rest) = ⟨s.length, some (.token s), .decl⟩ := by
  simp only [tokenOK, Bool.or_eq_true] at h
  rcases h with h | h
  · exact lexAt_plain h rest
  · exact lexAt_quoted h rest

theorem tokenOK_ne {s : List Char} (h : tokenOK s = true) : s ≠ [] := by
  intro h0; subst h0; simp [tokenOK, plainTokenOK, delimitedOK] at h

theorem rulenameOK_ne {s : List Char} (h : rulenameOK s = true) : s ≠ [] := by
  intro h0; subst h0; simp [rulenameOK] at h

theorem tagOK_ne {s : List Char} (h : tagOK s = true) : s ≠ [] := by
  intro h0; subst h0; simp [tagOK, delimitedOK] at h

theorem spellDec_ne (d : Dec) : spellDec d ≠ [] := by
  obtain ⟨ip, fp, _, _, _, _, _, hsp⟩ := spellDec_parts d
  rw [hsp]; simp

theorem lexNext_spec {st st' : LState} {t : Tok} (h : lexNext st t = some st') (rest : List Char) :
    lexAt st (spell t ++ ' ' :: rest) = ⟨(spell t).length, some t, st'⟩ ∧ spell t ≠ [] ∧
      (st' = .initial ∨ st' = .decl) := by
  cases st with
  | comment => cases t <;> simp [lexNext] at h
  | declcomment => cases t <;> simp [lexNext] at h
  | initial =>
    cases t with
    | header => simp only [lexNext, Option.some.injEq] at h; subst h; exact ⟨lexAt_header rest, by simp [spell], Or.inr rfl⟩
    | grammar => simp only [lexNext, Option.some.injEq] at h; subst h; exact ⟨lexAt_grammar rest, by simp [spell], Or.inr rfl⟩
    | import_ => simp only [lexNext, Option.some.injEq] at h; subst h; exact ⟨lexAt_import rest, by simp [spell], Or.inr rfl⟩
    | public_ => simp only [lexNext, Option.some.injEq] at h; subst h; exact ⟨lexAt_public rest, by simp [spell], Or.inr rfl⟩
    | rulename s =>
      simp only [lexNext] at h
      split at h
      · rename_i hok
        simp only [Option.some.injEq] at h; subst h
        exact ⟨lexAt_rulename (Or.inl rfl) hok rest, rulenameOK_ne hok, Or.inr rfl⟩
      · cases h
    | token s => simp [lexNext] at h
    | tag s => simp [lexNext] at h
    | weight d => simp [lexNext] at h
    | ch c => simp [lexNext] at h
  | decl =>
    cases t with
    | header => simp [lexNext] at h
    | grammar => simp [lexNext] at h
    | import_ => simp [lexNext] at h
    | public_ => simp [lexNext] at h
    | rulename s =>
      simp only [lexNext] at h
      split at h
      · rename_i hok
        simp only [Option.some.injEq] at h; subst h
        exact ⟨lexAt_rulename (Or.inr rfl) hok rest, rulenameOK_ne hok, Or.inr rfl⟩
      · cases h
    | token s =>
      simp only [lexNext] at h
      split at h
      · rename_i hok
        simp only [Option.some.injEq] at h; subst h
        exact ⟨lexAt_token hok rest, tokenOK_ne hok, Or.inr rfl⟩
      · cases h
    | tag s =>
      simp only [lexNext] at h
      split at h
      · rename_i hok
        simp only [Option.some.injEq] at h; subst h
        exact ⟨lexAt_tag hok rest, tagOK_ne hok, Or.inr rfl⟩
      · cases h
    | weight d =>
      simp only [lexNext, Option.some.injEq] at h; subst h
      exact ⟨lexAt_weight d rest, spellDec_ne d, Or.inr rfl⟩
    | ch c =>
      refine ⟨lexAt_ch h rest, by simp [spell], ?_⟩
      simp only [lexNext] at h
      split at h
      · simp only [Option.some.injEq] at h; exact Or.inl h.symm
      · split at h
        · simp only [Option.some.injEq] at h; exact Or.inr h.symm
        · cases h

/-- the scanner reads back every lexable token list from its blank-separated spelling -/
theorem lex_unlex : ∀ (ts : List Tok) (st : LState), (st = .initial ∨ st = .decl) → lexable st ts = true →
    lexGo st 0 (unlex ts) = ts
  | [], st, _, _ => by simp [unlex, lexGo]
  | t :: ts, st, hst, h => by
    simp only [lexable] at h
    cases hn : lexNext st t with
    | none => rw [hn] at h; cases h
    | some st' =>
      rw [hn] at h
      obtain ⟨hat, hne, hst'⟩ := lexNext_spec hn (unlex ts)
      simp only [unlex]
      rw [lexGo_token hat hne hst', lex_unlex ts st' hst' h]

end SSVerif.JsgfText
