import SSVerif.Model.NetCover
import SSVerif.Proofs.SearchScoreMax
/-! A network covered by another one (`NetCover.Cover`) has the same Viterbi optimum. Core Lean only. -/
namespace SSVerif.NetCover
open SSVerif.Viterbi SSVerif.SearchScore

section
variable {N1 N2 : Net} {C : Cert}

theorem f_cls (hc : Cover N1 N2 C) {s : Nat} (hs : s < C.n2) : C.f (C.cls s) = C.f s := (hc.2.2.2 s hs).1.2
theorem cls_lt (hc : Cover N1 N2 C) {s : Nat} (hs : s < C.n2) : C.cls s < C.n2 := (hc.2.2.2 s hs).1.1

/-- a state and its representative hold the same DP value -/
theorem sym (hc : Cover N1 N2 C) (em1 em2 : Nat → Nat → Int) (hem : ∀ t s, s < C.n2 → em2 t s = em1 t (C.f s)) :
    ∀ t s, s < C.n2 → vAt N2 em2 t (C.cls s) = vAt N2 em2 t s := by
  intro t
  induction t with
  | zero =>
    intro s hs
    obtain ⟨_, ⟨hi1, hi2⟩, _⟩ := hc.2.2.2 s hs
    show v0 N2 (C.cls s) = v0 N2 s
    refine (isMax_v0 N2 (C.cls s)).unique ((isMax_v0 N2 s).congr fun x => ⟨fun h => hi1 (s, x) h rfl, fun h => hi2 (C.cls s, x) h rfl⟩)
  | succ t ih =>
    intro s hs
    obtain ⟨_, _, ⟨he1, he2⟩⟩ := hc.2.2.2 s hs
    have hwf := hc.1.1
    -- interchangeable sources carry the same value and emission
    have same : ∀ a b, a < C.n2 → b < C.n2 → C.cls a = C.cls b →
        vAt N2 em2 t a = vAt N2 em2 t b ∧ em2 t a = em2 t b := by
      intro a b ha hb hab
      constructor
      · rw [← ih a ha, ← ih b hb, hab]
      · rw [hem t a ha, hem t b hb, ← f_cls hc ha, ← f_cls hc hb, hab]
    show stepV N2 (em2 t) (vAt N2 em2 t) (C.cls s) = stepV N2 (em2 t) (vAt N2 em2 t) s
    refine (isMax_stepV N2 (em2 t) _ (C.cls s)).unique ((isMax_stepV N2 (em2 t) _ s).congr fun x => ?_)
    constructor
    · rintro ⟨i, c, u, hm, hv, rfl⟩
      obtain ⟨e', hm', h1, h2, h3⟩ := he1 (i, s, c) hm rfl
      obtain ⟨g1, g2⟩ := same e'.1 i (hwf e' hm').1 (hwf _ hm).1 h2
      refine ⟨e'.1, c, u, ?_, by rw [g1]; exact hv, by rw [g2]⟩
      have : e' = (e'.1, C.cls s, c) := by
        rcases e' with ⟨a, b, d⟩
        simp only at h1 h3
        rw [h1, h3]
      rw [← this]; exact hm'
    · rintro ⟨i, c, u, hm, hv, rfl⟩
      obtain ⟨e', hm', h1, h2, h3⟩ := he2 (i, C.cls s, c) hm rfl
      obtain ⟨g1, g2⟩ := same e'.1 i (hwf e' hm').1 (hwf _ hm).1 h2
      refine ⟨e'.1, c, u, ?_, by rw [g1]; exact hv, by rw [g2]⟩
      have : e' = (e'.1, s, c) := by
        rcases e' with ⟨a, b, d⟩
        simp only at h1 h3
        rw [h1, h3]
      rw [← this]; exact hm'

theorem same_class (hc : Cover N1 N2 C) (em1 em2 : Nat → Nat → Int) (hem : ∀ t s, s < C.n2 → em2 t s = em1 t (C.f s))
    (t : Nat) {a b : Nat} (ha : a < C.n2) (hb : b < C.n2) (hab : C.cls a = C.cls b) :
    vAt N2 em2 t a = vAt N2 em2 t b ∧ em2 t a = em2 t b := by
  constructor
  · rw [← sym hc em1 em2 hem t a ha, ← sym hc em1 em2 hem t b hb, hab]
  · rw [hem t a ha, hem t b hb, ← f_cls hc ha, ← f_cls hc hb, hab]

/-- the fine network never beats the coarse one -/
theorem up (hc : Cover N1 N2 C) (em1 em2 : Nat → Nat → Int) (hem : ∀ t s, s < C.n2 → em2 t s = em1 t (C.f s)) :
    ∀ t s v, s < C.n2 → vAt N2 em2 t s = some v → ole (some v) (vAt N1 em1 t (C.f s)) := by
  intro t
  induction t with
  | zero =>
    intro s v _ h
    have := (isMax_v0 N2 s).1 v h
    exact (isMax_v0 N1 (C.f s)).2 v (hc.2.1.2.1 (s, v) this)
  | succ t ih =>
    intro s v _ h
    obtain ⟨i, c, u, hm, hv, rfl⟩ := (isMax_stepV N2 (em2 t) (vAt N2 em2 t) s).1 v h
    have hi := (hc.1.1 _ hm).1
    obtain ⟨u1, hu1, hle⟩ := ole_some_elim' (ih i u hi hv)
    have hm1 := hc.2.1.1 (i, s, c) hm
    have := (isMax_stepV N1 (em1 t) (vAt N1 em1 t) (C.f s)).2 (u1 + em1 t (C.f i) + c) ⟨C.f i, c, u1, hm1, hu1, rfl⟩
    refine ole_trans (ole_some_some.mpr ?_) this
    rw [hem t i hi]; omega

/-- every value of the coarse network is attained by a state of the fine one above it -/
theorem att (hc : Cover N1 N2 C) (em1 em2 : Nat → Nat → Int) (hem : ∀ t s, s < C.n2 → em2 t s = em1 t (C.f s)) :
    ∀ t q v, vAt N1 em1 t q = some v → ∃ s, s < C.n2 ∧ C.f s = q ∧ vAt N2 em2 t s = some v := by
  intro t
  induction t with
  | zero =>
    intro q v h
    have hq := (isMax_v0 N1 q).1 v h
    obtain ⟨e2, hm2, h1, h2⟩ := hc.2.2.1.2.1 (q, v) hq
    have hs := hc.1.2.1 e2 hm2
    have hmem : (e2.1, v) ∈ N2.init := by
      rcases e2 with ⟨a, b⟩
      simp only at h2
      rw [← h2]; exact hm2
    obtain ⟨v', hv', hle⟩ := ole_some_elim' ((isMax_v0 N2 e2.1).2 v hmem)
    have hup := up hc em1 em2 hem 0 e2.1 v' hs hv'
    rw [h1] at hup
    have : vAt N1 em1 0 q = some v := h
    rw [this] at hup
    have : v' = v := by have := ole_some_some.mp hup; omega
    exact ⟨e2.1, hs, h1, by rw [← this]; exact hv'⟩
  | succ t ih =>
    intro q v h
    obtain ⟨q0, c, u, hm, hv, rfl⟩ := (isMax_stepV N1 (em1 t) (vAt N1 em1 t) q).1 v h
    obtain ⟨s0, hs0, hf0, hv0⟩ := ih q0 u hv
    obtain ⟨e2, hm2, h1, h2, h3⟩ := hc.2.2.1.1 (q0, q, c) hm s0 hs0 hf0
    have hwf := hc.1.1 e2 hm2
    obtain ⟨g1, g2⟩ := same_class hc em1 em2 hem t hwf.1 hs0 h1
    have hcand : ∃ i c' u', (i, e2.2.1, c') ∈ N2.edges ∧ vAt N2 em2 t i = some u' ∧
        u + em1 t q0 + c = u' + em2 t i + c' := by
      refine ⟨e2.1, c, u, ?_, by rw [g1]; exact hv0, ?_⟩
      · rcases e2 with ⟨a, b, d⟩
        simp only at h3
        rw [← h3]; exact hm2
      · rw [g2, hem t s0 hs0, hf0]
    obtain ⟨v', hv', hle⟩ := ole_some_elim' ((isMax_stepV N2 (em2 t) (vAt N2 em2 t) e2.2.1).2 _ hcand)
    have hup := up hc em1 em2 hem (t + 1) e2.2.1 v' hwf.2 hv'
    rw [h2] at hup
    have hq : vAt N1 em1 (t + 1) q = some (u + em1 t q0 + c) := h
    rw [hq] at hup
    have : v' = u + em1 t q0 + c := by have := ole_some_some.mp hup; omega
    exact ⟨e2.2.1, hwf.2, h2, by rw [← this]; exact hv'⟩

/-- **a covered network has the same optimum**, for all scores that agree along `f` and every length -/
theorem cover_viterbi (hc : Cover N1 N2 C) (em1 em2 : Nat → Nat → Int) (hem : ∀ t s, s < C.n2 → em2 t s = em1 t (C.f s))
    (T : Nat) : viterbi N2 em2 T = viterbi N1 em1 T := by
  refine (isMax_viterbi N2 em2 T).eq_of_cofinal (isMax_viterbi N1 em1 T) ?_ ?_
  · rintro x ⟨i, c, u, hm, hv, rfl⟩
    have hi := hc.1.2.2 _ hm
    obtain ⟨u1, hu1, hle⟩ := ole_some_elim' (up hc em1 em2 hem (T - 1) i u hi hv)
    exact ⟨u1 + em1 (T - 1) (C.f i) + c, ⟨C.f i, c, u1, hc.2.1.2.2 (i, c) hm, hu1, rfl⟩, by rw [hem _ i hi]; omega⟩
  · rintro x ⟨q, c, u, hm, hv, rfl⟩
    obtain ⟨s, hs, hf, hvs⟩ := att hc em1 em2 hem (T - 1) q u hv
    obtain ⟨e2, hm2, h1, h2⟩ := hc.2.2.1.2.2 (q, c) hm s hs hf
    have he2 := hc.1.2.2 e2 hm2
    obtain ⟨g1, g2⟩ := same_class hc em1 em2 hem (T - 1) he2 hs h1
    refine ⟨u + em2 (T - 1) e2.1 + c, ⟨e2.1, c, u, ?_, by rw [g1]; exact hvs, rfl⟩, ?_⟩
    · rcases e2 with ⟨a, b⟩
      simp only at h2
      rw [← h2]; exact hm2
    · rw [g2, hem _ s hs, hf]; omega

end
end SSVerif.NetCover
