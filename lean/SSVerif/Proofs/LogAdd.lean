import SSVerif.Model.LogAdd
/-!
# Generic facts about `logAdd` for any well-formed table (helper lemmas for C19)
-/
namespace SSVerif.LogAdd

/-- what the generic theorems need of a table: it fits the `int` index range, and — read as a
total function `d ↦ tval t d` that is `0` beyond the table — it is non-increasing and drops by at
most one per step (in particular its last entry is `≤ 1`). -/
structure TableOK (t : Array Nat) : Prop where
  size_le : t.size ≤ 2147483648
  anti : ∀ d, tval t (d + 1) ≤ tval t d
  step : ∀ d, tval t d ≤ tval t (d + 1) + 1

theorem tval_beyond {t : Array Nat} {d : Nat} (h : t.size ≤ d) : tval t d = 0 := by
  unfold tval; simp [Array.getD, Nat.not_lt.mpr h]

theorem TableOK.anti_le {t : Array Nat} (ok : TableOK t) {d e : Nat} (h : d ≤ e) : tval t e ≤ tval t d := by
  induction e with
  | zero => have : d = 0 := by omega
            subst this; exact Nat.le_refl _
  | succ n ih =>
    by_cases hd : d = n + 1
    · subst hd; exact Nat.le_refl _
    · exact Nat.le_trans (ok.anti n) (ih (by omega))

theorem TableOK.lip {t : Array Nat} (ok : TableOK t) (d n : Nat) : tval t d ≤ tval t (d + n) + n := by
  induction n with
  | zero => simp
  | succ n ih => have := ok.step (d + n); rw [← Nat.add_assoc]; rw [← Nat.add_assoc]; omega

/-- the general branch as a closed formula: larger argument plus table entry at the distance -/
def G (t : Array Nat) (x y : Int) : Int := max x y + (tval t (x - y).natAbs : Nat)

theorem wrap32_of_lt {z : Int} (h0 : 0 ≤ z) (h : z < 2147483648) : wrap32 z = z := by
  unfold wrap32; omega

theorem wrap32_neg {z : Int} (h0 : 2147483648 ≤ z) (h : z < 4294967296) : wrap32 z < 0 := by
  unfold wrap32; omega

theorem logAdd_eq_G {lm : LogMath} (hs : lm.table.size ≤ 2147483648) {x y : Int}
    (hx : lm.zero < x) (hy : lm.zero < y) (ix : IsInt32 x) (iy : IsInt32 y) :
    logAdd lm x y = G lm.table x y := by
  unfold IsInt32 at ix iy
  unfold logAdd G
  rw [if_neg (by omega), if_neg (by omega)]
  by_cases hxy : x > y
  · simp only [hxy, if_true]
    by_cases hov : x - y < 2147483648
    · rw [wrap32_of_lt (by omega) hov]
      rw [if_neg (by omega)]
      have e1 : (x - y).toNat = (x - y).natAbs := by omega
      have e2 : max x y = x := by omega
      rw [e1, e2]
      split
      · rename_i h; rw [tval_beyond h]; simp
      · rfl
    · have := wrap32_neg (z := x - y) (by omega) (by omega)
      rw [if_pos this]
      have e2 : max x y = x := by omega
      rw [e2, tval_beyond (by omega)]; simp
  · simp only [hxy, if_false]
    by_cases hov : y - x < 2147483648
    · rw [wrap32_of_lt (by omega) hov]
      rw [if_neg (by omega)]
      have e1 : (y - x).toNat = (x - y).natAbs := by omega
      have e2 : max x y = y := by omega
      rw [e1, e2]
      split
      · rename_i h; rw [tval_beyond h]; simp
      · rfl
    · have := wrap32_neg (z := y - x) (by omega) (by omega)
      rw [if_pos this]
      have e2 : max x y = y := by omega
      rw [e2, tval_beyond (by omega)]; simp

theorem G_comm (t : Array Nat) (x y : Int) : G t x y = G t y x := by
  unfold G
  have e1 : (x - y).natAbs = (y - x).natAbs := by omega
  have e2 : max x y = max y x := by omega
  rw [e1, e2]

theorem G_mono_left {t : Array Nat} (ok : TableOK t) {x x' : Int} (y : Int) (h : x ≤ x') :
    G t x y ≤ G t x' y := by
  unfold G
  by_cases h1 : x' ≤ y
  · have := ok.anti_le (d := (x' - y).natAbs) (e := (x - y).natAbs) (by omega)
    omega
  · by_cases h2 : y ≤ x
    · have := ok.lip (x - y).natAbs (x' - x).natAbs
      have e : (x - y).natAbs + (x' - x).natAbs = (x' - y).natAbs := by omega
      rw [e] at this
      omega
    · have a := ok.anti_le (d := 0) (e := (x - y).natAbs) (by omega)
      have l := ok.lip 0 (x' - y).natAbs
      rw [Nat.zero_add] at l
      omega

theorem le_G (t : Array Nat) (x y : Int) : max x y ≤ G t x y := by
  unfold G; omega

theorem G_le {t : Array Nat} (ok : TableOK t) (x y : Int) : G t x y ≤ max x y + (tval t 0 : Nat) := by
  unfold G
  have := ok.anti_le (d := 0) (e := (x - y).natAbs) (by omega)
  omega

/-! ### the theorems about `logAdd` itself -/

theorem logAdd_comm (lm : LogMath) {x y : Int} (hx : lm.zero ≤ x) (hy : lm.zero ≤ y) :
    logAdd lm x y = logAdd lm y x := by
  unfold logAdd
  by_cases h1 : x ≤ lm.zero
  · have : x = lm.zero := by omega
    by_cases h2 : y ≤ lm.zero
    · have : y = lm.zero := by omega
      simp [*]
    · simp [h1, h2]
  · by_cases h2 : y ≤ lm.zero
    · simp [h1, h2]
    · rw [if_neg h1, if_neg h2, if_neg h2, if_neg h1]
      by_cases h3 : x > y
      · have h4 : ¬ y > x := by omega
        simp only [h3, h4, if_true, if_false]
      · by_cases h4 : y > x
        · simp only [h3, h4, if_true, if_false]
        · have : x = y := by omega
          subst this; rfl

theorem logAdd_zero_left (lm : LogMath) {x : Int} (y : Int) (hx : x ≤ lm.zero) : logAdd lm x y = y := by
  unfold logAdd; rw [if_pos hx]

theorem logAdd_zero_right (lm : LogMath) {x y : Int} (hx : lm.zero < x) (hy : y ≤ lm.zero) :
    logAdd lm x y = x := by
  unfold logAdd; rw [if_neg (by omega), if_pos hy]

theorem logAdd_zero_right' (lm : LogMath) {x : Int} (hx : lm.zero ≤ x) : logAdd lm x lm.zero = x := by
  by_cases h : x ≤ lm.zero
  · have : x = lm.zero := by omega
    rw [logAdd_zero_left lm _ h, this]
  · exact logAdd_zero_right lm (by omega) (Int.le_refl _)

theorem max_le_logAdd (lm : LogMath) {x y : Int} (hx : lm.zero ≤ x) (hy : lm.zero ≤ y) :
    max x y ≤ logAdd lm x y := by
  unfold logAdd
  by_cases h1 : x ≤ lm.zero
  · rw [if_pos h1]; omega
  · rw [if_neg h1]
    by_cases h2 : y ≤ lm.zero
    · rw [if_pos h2]; omega
    · rw [if_neg h2]
      by_cases h3 : x > y
      · simp only [h3, if_true]
        split
        · omega
        · split <;> omega
      · simp only [h3, if_false]
        split
        · omega
        · split <;> omega

theorem logAdd_le_max_add_t0 {lm : LogMath} (ok : TableOK lm.table) {x y : Int}
    (hx : lm.zero ≤ x) (hy : lm.zero ≤ y) (ix : IsInt32 x) (iy : IsInt32 y) :
    logAdd lm x y ≤ max x y + (tval lm.table 0 : Nat) := by
  by_cases h1 : x ≤ lm.zero
  · rw [logAdd_zero_left lm _ h1]; omega
  · by_cases h2 : y ≤ lm.zero
    · rw [logAdd_zero_right lm (by omega) h2]; omega
    · rw [logAdd_eq_G ok.size_le (by omega) (by omega) ix iy]
      exact G_le ok x y

theorem logAdd_mono_left {lm : LogMath} (ok : TableOK lm.table) {x x' : Int} (y : Int) (h : x ≤ x')
    (ix : IsInt32 x) (ix' : IsInt32 x') (iy : IsInt32 y) :
    logAdd lm x y ≤ logAdd lm x' y := by
  by_cases h1 : x ≤ lm.zero
  · rw [logAdd_zero_left lm _ h1]
    by_cases h1' : x' ≤ lm.zero
    · rw [logAdd_zero_left lm _ h1']; exact Int.le_refl _
    · by_cases h2 : y ≤ lm.zero
      · rw [logAdd_zero_right lm (by omega) h2]; omega
      · rw [logAdd_eq_G ok.size_le (by omega) (by omega) ix' iy]
        have := le_G lm.table x' y
        omega
  · have h1' : ¬ x' ≤ lm.zero := by omega
    by_cases h2 : y ≤ lm.zero
    · rw [logAdd_zero_right lm (by omega) h2, logAdd_zero_right lm (by omega) h2]; exact h
    · rw [logAdd_eq_G ok.size_le (by omega) (by omega) ix iy,
          logAdd_eq_G ok.size_le (by omega) (by omega) ix' iy]
      exact G_mono_left ok y h

theorem logAdd_mono_right {lm : LogMath} (ok : TableOK lm.table) (x : Int) {y y' : Int} (h : y ≤ y')
    (ix : IsInt32 x) (iy : IsInt32 y) (iy' : IsInt32 y') :
    logAdd lm x y ≤ logAdd lm x y' := by
  by_cases h1 : x ≤ lm.zero
  · rw [logAdd_zero_left lm _ h1, logAdd_zero_left lm _ h1]; exact h
  · by_cases h2 : y ≤ lm.zero
    · rw [logAdd_zero_right lm (by omega) h2]
      by_cases h2' : y' ≤ lm.zero
      · rw [logAdd_zero_right lm (by omega) h2']; exact Int.le_refl _
      · rw [logAdd_eq_G ok.size_le (by omega) (by omega) ix iy']
        have := le_G lm.table x y'
        omega
    · have h2' : ¬ y' ≤ lm.zero := by omega
      rw [logAdd_eq_G ok.size_le (by omega) (by omega) ix iy,
          logAdd_eq_G ok.size_le (by omega) (by omega) ix iy',
          G_comm _ x y, G_comm _ x y']
      exact G_mono_left ok x h

end SSVerif.LogAdd
