import SSVerif.Model.AcmodBuf
/-!
# Shape facts every function of the acmod / live-feature model preserves, unconditionally

`Sh s`: the live cepstrum ring has `LIVEBUFBLOCKSIZE` slots, its read pointer is in range, `mfc_buf` has
`n_mfc_alloc ≥ 1` slots and `grow_feat` is set.  None of the model's functions (streaming, batch, queries,
alignment, either value of `fixD8`, any front-end responses, any order of calls) breaks these facts — no
hypothesis about the utterance is needed.  Together with the content invariants (`Closed`, `BInv`), which carry
`fault = none`, `|feat_buf| = n_feat_alloc ≥ 1`, this gives back `WF0` for the state an utterance leaves behind
(`Props/C07Hist.lean`), so that "any prior decoder state" is closed under utterance-after-utterance.
-/
namespace SSVerif.AcmodBuf
open SSVerif.Generated

/-- the shape facts on explicit components; `b`: additionally the write pointer of the live ring is in range
    (needed only inside `feat_s2mfc2feat_live` at the start of an utterance, where `curpos := bufpos`) -/
def ShP (b : Bool) (s : St) : Prop :=
  s.cepbuf.length = livebuf ∧ s.curpos < livebuf ∧ s.mfcBuf.length = s.nMfcAlloc ∧ 1 ≤ s.nMfcAlloc ∧ s.growFeat = true ∧
    (b = true → s.bufpos < livebuf)

abbrev Sh (s : St) : Prop := ShP false s

theorem shp_of_eq {b : Bool} {s s' : St} (h : ShP b s) (h1 : s'.cepbuf.length = s.cepbuf.length) (h2 : s'.curpos = s.curpos)
    (h3 : s'.mfcBuf.length = s.mfcBuf.length) (h4 : s'.nMfcAlloc = s.nMfcAlloc) (h5 : s'.growFeat = s.growFeat)
    (h6 : s'.bufpos = s.bufpos) : ShP b s' := by
  unfold ShP at *
  rw [h1, h2, h3, h4, h5, h6]; exact h

theorem shp_weaken {b : Bool} {s : St} (h : ShP b s) : Sh s :=
  ⟨h.1, h.2.1, h.2.2.1, h.2.2.2.1, h.2.2.2.2.1, fun hb => absurd hb (by decide)⟩

theorem shp_fail {b : Bool} {s : St} (msg : String) (h : ShP b s) : ShP b (fail msg s) :=
  shp_of_eq h rfl rfl rfl rfl rfl rfl

theorem shp_ite {b : Bool} {c : Prop} [Decidable c] {x y : St} (hx : ShP b x) (hy : ShP b y) : ShP b (if c then x else y) := by
  split <;> assumption

/-! ## feature buffer -/

theorem shp_growFeatBuf {b : Bool} {s : St} (n : Nat) (h : ShP b s) : ShP b (growFeatBuf s n) :=
  shp_of_eq h rfl rfl rfl rfl rfl rfl

theorem sh_setGrow {s : St} (h : Sh s) : Sh (setGrow s true) := by
  obtain ⟨h1, h2, h3, h4, _, h6⟩ := h
  simp only [setGrow]
  split
  · exact ⟨h1, h2, h3, h4, rfl, h6⟩
  · exact ⟨h1, h2, h3, h4, rfl, h6⟩

theorem shp_growLoop {b : Bool} : ∀ (fuel : Nat) (s : St) (need : Int), ShP b s → ShP b (growLoop fuel s need)
  | 0, s, need, h => by
    unfold growLoop
    split
    · exact shp_fail _ h
    · exact h
  | fuel + 1, s, need, h => by
    unfold growLoop
    split
    · exact shp_growLoop fuel _ need (shp_growFeatBuf _ h)
    · exact h

theorem shp_writeFeat {b : Bool} {s : St} (o : Nat) (f : Feat) (h : ShP b s) : ShP b (writeFeat s o f) := by
  unfold writeFeat
  split
  · exact shp_of_eq h rfl rfl rfl rfl rfl rfl
  · exact shp_fail _ h

/-! ## live cepstrum ring -/

theorem shp_pushCep {b : Bool} {s : St} (x : Option Cep) (h : ShP b s) : ShP b (pushCep s x) := by
  unfold pushCep
  split
  · obtain ⟨h1, h2, h3, h4, h5, _⟩ := h
    refine ⟨?_, h2, h3, h4, h5, fun _ => Nat.mod_lt _ (by decide)⟩
    show (s.cepbuf.set s.bufpos x).length = livebuf
    rw [List.length_set]; exact h1
  · exact shp_fail _ h

theorem shp_pushMany {b : Bool} (xs : List (Option Cep)) : ∀ (s : St), ShP b s → ShP b (pushMany s xs) := by
  induction xs with
  | nil => intro s h; exact h
  | cons x xs ih =>
    intro s h
    show ShP b (pushMany (pushCep s x) xs)
    exact ih _ (shp_pushCep x h)

theorem shp_repLast {b : Bool} : ∀ (n tpos : Nat) (s : St), ShP b s → ShP b (repLast n tpos s)
  | 0, _, _, h => h
  | n + 1, tpos, s, h => by
    unfold repLast
    split
    · exact shp_repLast n tpos _ (shp_pushCep _ h)
    · exact shp_fail _ h

theorem shp_computeFeats {b : Bool} (win : Nat) : ∀ (n o : Nat) (s : St), ShP b s → ShP b (computeFeats win n o s)
  | 0, _, _, h => h
  | n + 1, o, s, h => by
    unfold computeFeats
    apply shp_computeFeats win n (o + 1)
    obtain ⟨h1, _, h3, h4, h5, h6⟩ := shp_writeFeat o (readWindow win s) h
    exact ⟨h1, Nat.mod_lt _ (by decide), h3, h4, h5, h6⟩

/-! ## CMN -/

theorem shp_cmnBlock {b : Bool} (skip : Nat → Bool) : ∀ (n ptr : Nat) (s : St), ShP b s → ShP b (cmnBlock skip n ptr s)
  | 0, _, _, h => h
  | n + 1, ptr, s, h => by
    unfold cmnBlock
    split
    · apply shp_cmnBlock skip n (ptr + 1)
      exact shp_ite (shp_of_eq h rfl rfl (List.length_set ..) rfl rfl rfl) (shp_of_eq h rfl rfl (List.length_set ..) rfl rfl rfl)
    · exact shp_fail _ h

theorem shp_cmnLive {b : Bool} (skip : Nat → Bool) (s : St) (ptr n : Nat) (h : ShP b s) : ShP b (cmnLive skip s ptr n) := by
  unfold cmnLive
  split
  · exact h
  · exact shp_cmnBlock skip n ptr s h

theorem shp_cmnUpdate {b : Bool} (s : St) (h : ShP b s) : ShP b (cmnUpdate s) := by
  unfold cmnUpdate
  split
  · exact h
  · exact shp_of_eq h rfl rfl rfl rfl rfl rfl

theorem shp_cmnBatchBlock {b : Bool} (skip : Nat → Bool) : ∀ (n ptr : Nat) (s : St), ShP b s → ShP b (cmnBatchBlock skip n ptr s)
  | 0, _, _, h => h
  | n + 1, ptr, s, h => by
    unfold cmnBatchBlock
    split
    · apply shp_cmnBatchBlock skip n (ptr + 1)
      exact shp_of_eq h rfl rfl (List.length_set ..) rfl rfl rfl
    · exact shp_fail _ h

/-! ## `feat_s2mfc2feat_live` and the block path -/

theorem shp_beginPush (win ptr : Nat) (A : St) (c : Prop) [Decidable c] (h : ShP true A) :
    ShP true (if c then { pushMany A (List.replicate win (A.mfcBuf.getD ptr none)) with
        curpos := (pushMany A (List.replicate win (A.mfcBuf.getD ptr none))).bufpos } else A) := by
  refine shp_ite ?_ h
  obtain ⟨h1, _, h3, h4, h5, h6⟩ := shp_pushMany (List.replicate win (A.mfcBuf.getD ptr none)) A h
  exact ⟨h1, h6 rfl, h3, h4, h5, h6⟩

theorem sh_liveIn (win : Nat) (skip : Nat → Bool) (s : St) (ptr ncep : Nat) (bu eu : Bool) (h : Sh s) :
    Sh (liveIn win skip s ptr ncep bu eu) := by
  cases bu with
  | false =>
    have h1 := shp_cmnLive skip s ptr ncep h
    have h2 := shp_ite (c := eu = true) (shp_cmnUpdate _ h1) h1
    have h3 := shp_pushMany ((List.range ncep).map fun i =>
      (if eu = true then cmnUpdate (cmnLive skip s ptr ncep) else cmnLive skip s ptr ncep).mfcBuf.getD (ptr + i) none) _ h2
    exact shp_ite (shp_repLast win _ _ h3) h3
  | true =>
    have h0 : ShP true { s with bufpos := s.curpos } := ⟨h.1, h.2.1, h.2.2.1, h.2.2.2.1, h.2.2.2.2.1, fun _ => h.2.1⟩
    have h1 := shp_cmnLive skip _ ptr ncep h0
    have h2 := shp_ite (c := eu = true) (shp_cmnUpdate _ h1) h1
    have h3 := shp_beginPush win ptr _ ((true && decide (ncep > 0)) = true) h2
    have h4 := shp_pushMany ((List.range ncep).map fun i => (if (true && decide (ncep > 0)) = true then
      { pushMany (if eu = true then cmnUpdate (cmnLive skip { s with bufpos := s.curpos } ptr ncep) else cmnLive skip { s with bufpos := s.curpos } ptr ncep)
          (List.replicate win ((if eu = true then cmnUpdate (cmnLive skip { s with bufpos := s.curpos } ptr ncep) else cmnLive skip { s with bufpos := s.curpos } ptr ncep).mfcBuf.getD ptr none)) with
        curpos := (pushMany (if eu = true then cmnUpdate (cmnLive skip { s with bufpos := s.curpos } ptr ncep) else cmnLive skip { s with bufpos := s.curpos } ptr ncep)
          (List.replicate win ((if eu = true then cmnUpdate (cmnLive skip { s with bufpos := s.curpos } ptr ncep) else cmnLive skip { s with bufpos := s.curpos } ptr ncep).mfcBuf.getD ptr none))).bufpos }
      else (if eu = true then cmnUpdate (cmnLive skip { s with bufpos := s.curpos } ptr ncep) else cmnLive skip { s with bufpos := s.curpos } ptr ncep)).mfcBuf.getD (ptr + i) none) _ h3
    exact shp_weaken (shp_ite (shp_repLast win _ _ h4) h4)

theorem shp_blockScratch {b : Bool} (win : Nat) (first last : Option Cep) : ∀ (k : Nat) (s : St), ShP b s →
    ShP b (blockScratch k win first last s)
  | 0, _, h => h
  | k + 1, s, h => by
    unfold blockScratch
    refine shp_ite (shp_blockScratch win first last k _ (shp_of_eq h ?_ rfl rfl rfl rfl rfl)) (shp_fail _ h)
    show ((s.cepbuf.set _ _).set _ _).length = _
    rw [List.length_set, List.length_set]

theorem shp_blockFeats {b : Bool} (win : Nat) (padded : List (Option Cep)) : ∀ (k i o : Nat) (s : St), ShP b s →
    ShP b (blockFeats win padded k i o s)
  | 0, _, _, _, h => h
  | k + 1, i, o, s, h => by
    unfold blockFeats
    exact shp_blockFeats win padded k (i + 1) (o + 1) _ (shp_writeFeat _ _ h)

theorem sh_blockUtt (win : Nat) (skip : Nat → Bool) (s : St) (ptr n o : Nat) (h : Sh s) : Sh (blockUtt win skip s ptr n o).st := by
  have h1 : Sh (if s.cmnBatch = true then cmnBatchBlock skip n ptr { s with cmnFrames := 0 } else cmnUpdate (cmnLive skip s ptr n)) :=
    shp_ite (shp_cmnBatchBlock skip n ptr _ (shp_of_eq h rfl rfl rfl rfl rfl rfl)) (shp_cmnUpdate _ (shp_cmnLive skip s ptr n h))
  exact shp_blockFeats win _ n 0 o _ (shp_blockScratch win _ _ win _ h1)

theorem st_ite {c : Prop} [Decidable c] (x y : LiveRes) : (if c then x else y).st = if c then x.st else y.st := by
  split <;> rfl

theorem sh_featLive (win : Nat) (skip : Nat → Bool) (s : St) (ptr ncep : Nat) (bu eu : Bool) (o : Nat) (h : Sh s) :
    Sh (featLive win skip s ptr ncep bu eu o).st := by
  unfold featLive
  split
  · exact sh_blockUtt win skip s ptr ncep o h
  · simp only [st_ite]
    exact shp_ite (sh_liveIn _ _ _ _ _ _ _ h) (shp_computeFeats win _ _ _ (sh_liveIn _ _ _ _ _ _ _ h))

/-! ## `acmod_process_cep`, `acmod_process_mfcbuf` -/

theorem sh_cepGrow (s : St) (nfeat : Int) (h : Sh s) : Sh (cepGrow s nfeat) :=
  shp_growLoop _ _ _ (shp_ite (shp_growFeatBuf _ h) h)

theorem sh_cepFinish (fix : Bool) (r : LiveRes) (h : Sh r.st) : Sh (cepFinish fix r).st := by
  have hA : Sh { r.st with nFeatFrame := r.st.nFeatFrame + r.nfeat } := shp_of_eq h rfl rfl rfl rfl rfl rfl
  have hB := shp_ite (c := ({ r.st with nFeatFrame := r.st.nFeatFrame + r.nfeat } : St).nFeatFrame ≤
    ({ r.st with nFeatFrame := r.st.nFeatFrame + r.nfeat } : St).nFeatAlloc) hA (shp_fail "assert(n_feat_frame <= n_feat_alloc)" hA)
  exact shp_ite (shp_of_eq hB rfl rfl rfl rfl rfl rfl) hB

theorem st_iteC {c : Prop} [Decidable c] (x y : CepRes) : (if c then x else y).st = if c then x.st else y.st := by
  split <;> rfl

theorem sh_processCep (fix : Bool) (win : Nat) (skip : Nat → Bool) (s : St) (ptr n : Nat) (h : Sh s) :
    Sh (processCep fix win skip s ptr n).st := by
  unfold processCep
  simp only [st_iteC]
  have hg := sh_cepGrow s (cepNfeat win s n) h
  exact shp_ite (shp_fail _ h) (shp_ite (shp_fail _ hg) (shp_ite (shp_fail _ hg) (sh_cepFinish _ _ (sh_featLive _ _ _ _ _ _ _ _ hg))))

theorem sh_afterCep (s : St) (used : Nat) (h : Sh s) : Sh (afterCep s used) := by
  unfold afterCep
  exact shp_ite (shp_of_eq h rfl rfl rfl rfl rfl rfl) (shp_fail _ h)

theorem sh_setState {s : St} (st : UState) (h : Sh s) : Sh { s with state := st } := shp_of_eq h rfl rfl rfl rfl rfl rfl

theorem sh_processMfcbufOnce (fix : Bool) (win : Nat) (skip : Nat → Bool) (s : St) (h : Sh s) :
    Sh (processMfcbufOnce fix win skip s).st := by
  unfold processMfcbufOnce
  simp only [st_iteC]
  refine shp_ite ?_ (sh_afterCep _ _ (sh_processCep _ _ _ _ _ _ h))
  have h1 : Sh (if s.state = .ended then { s with state := .processing } else s) := shp_ite (sh_setState _ h) h
  have h2 := sh_setState s.state (sh_afterCep _ (processCep fix win skip (if s.state = .ended then { s with state := .processing } else s)
    (if s.state = .ended then { s with state := .processing } else s).mfcOutidx (s.nMfcAlloc - s.mfcOutidx)).used
    (sh_processCep fix win skip _ (if s.state = .ended then { s with state := .processing } else s).mfcOutidx (s.nMfcAlloc - s.mfcOutidx) h1))
  exact shp_ite h2 (sh_afterCep _ _ (sh_processCep _ _ _ _ _ _ h2))

theorem sh_drainMfc (fix : Bool) (win : Nat) (skip : Nat → Bool) : ∀ (fuel : Nat) (s : St) (ncep total : Nat), Sh s →
    Sh (drainMfc fix win skip fuel s ncep total).st
  | 0, s, _, _, h => shp_fail _ h
  | fuel + 1, s, ncep, total, h => by
    unfold drainMfc
    split
    · exact sh_drainMfc fix win skip fuel _ _ _ (sh_processMfcbufOnce fix win skip s h)
    · exact h

theorem sh_processMfcbuf (fix : Bool) (win : Nat) (skip : Nat → Bool) (s : St) (h : Sh s) :
    Sh (processMfcbuf fix win skip s).st :=
  sh_drainMfc fix win skip _ _ _ _ (sh_processMfcbufOnce fix win skip s h)

/-! ## the front end writing into the cepstrum ring -/

theorem sh_feWrite : ∀ (k p : Nat) (s : St), Sh s → Sh (feWrite k p s)
  | 0, _, _, h => h
  | k + 1, p, s, h => by
    unfold feWrite
    exact shp_ite (sh_feWrite k (p + 1) _ (shp_of_eq h rfl rfl (List.length_set ..) rfl rfl rfl)) (shp_fail _ h)

theorem sh_setMfcFrame {s : St} (a : Nat) (h : Sh s) : Sh { s with nMfcFrame := a } := shp_of_eq h rfl rfl rfl rfl rfl rfl

theorem sh_rawLoop : ∀ (fuel : Nat) (s : St) (inptr ncep : Nat) (rs : List FeResp) (more : Bool), Sh s →
    Sh (rawLoop fuel s inptr ncep rs more).1
  | 0, s, _, _, _, _, h => shp_fail _ h
  | fuel + 1, s, inptr, ncep, rs, more, h => by
    unfold rawLoop
    split
    · have h1 : Sh { feWrite (min (popResp rs).1.nvec (s.nMfcAlloc - inptr)) inptr s with
          nMfcFrame := (feWrite (min (popResp rs).1.nvec (s.nMfcAlloc - inptr)) inptr s).nMfcFrame +
            min (popResp rs).1.nvec (s.nMfcAlloc - inptr) } := sh_setMfcFrame _ (sh_feWrite _ _ _ h)
      simp only []
      split
      · exact h1
      · exact sh_rawLoop fuel _ _ _ _ _ h1
    · exact h

theorem sh_processRaw (fix : Bool) (win : Nat) (skip : Nat → Bool) (s : St) (rs : List FeResp) (h : Sh s) :
    Sh (processRaw fix win skip s rs).st := by
  have hl := sh_rawLoop (s.nMfcAlloc - s.nMfcFrame + 1) s ((s.mfcOutidx + s.nMfcFrame) % s.nMfcAlloc)
    (s.nMfcAlloc - s.nMfcFrame) rs true h
  rcases hrl : rawLoop (s.nMfcAlloc - s.nMfcFrame + 1) s ((s.mfcOutidx + s.nMfcFrame) % s.nMfcAlloc)
      (s.nMfcAlloc - s.nMfcFrame) rs true with ⟨s1, rs1, more1, inptr1, ncep1, done1⟩
  rw [hrl] at hl
  simp only [] at hl
  cases done1 with
  | true =>
    simp only [processRaw, hrl, if_true]
    exact sh_processMfcbuf fix win skip _ hl
  | false =>
    simp only [processRaw, hrl, Bool.false_eq_true, if_false]
    exact sh_processMfcbuf fix win skip _ (sh_setMfcFrame _ (sh_feWrite _ _ _ hl))

/-! ## the batch path -/

theorem sh_fullFe (s : St) (r : FullResp) (h : Sh s) : Sh (fullFe s r) := by
  have h1 : Sh (if s.nMfcAlloc < r.est then { s with mfcBuf := List.replicate r.est none, nMfcAlloc := r.est } else s) := by
    by_cases hlt : s.nMfcAlloc < r.est
    · rw [if_pos hlt]
      exact ⟨h.1, h.2.1, List.length_replicate .., by have := h.2.2.2.1; show 1 ≤ r.est; omega, h.2.2.2.2.1, h.2.2.2.2.2⟩
    · rw [if_neg hlt]; exact h
  have h2 : Sh { (if s.nMfcAlloc < r.est then { s with mfcBuf := List.replicate r.est none, nMfcAlloc := r.est } else s) with
      nMfcFrame := 0, mfcOutidx := 0, nextId := 0 } := shp_of_eq h1 rfl rfl rfl rfl rfl rfl
  exact sh_feWrite _ _ _ (sh_feWrite _ _ _ h2)

theorem sh_fullFeatBuf (s : St) (n : Nat) (h : Sh s) : Sh (fullFeatBuf s n) := by
  unfold fullFeatBuf
  exact shp_ite (shp_of_eq h rfl rfl rfl rfl rfl rfl) h

theorem sh_fullCep (win : Nat) (skip : Nat → Bool) (s : St) (n : Nat) (h : Sh s) : Sh (fullCep win skip s n) := by
  have h1 := sh_featLive win skip (fullFeatBuf s n) 0 n true true 0 (sh_fullFeatBuf s n h)
  have h2 : Sh { (featLive win skip (fullFeatBuf s n) 0 n true true 0).st with
      nFeatFrame := (featLive win skip (fullFeatBuf s n) 0 n true true 0).nfeat } := shp_of_eq h1 rfl rfl rfl rfl rfl rfl
  exact shp_ite h2 (shp_fail _ h2)

theorem sh_fullRaw (win : Nat) (skip : Nat → Bool) (s : St) (r : FullResp) (h : Sh s) : Sh (fullRaw win skip s r) :=
  sh_setMfcFrame 0 (sh_fullCep win skip _ _ (sh_fullFe s r h))

/-! ## search side -/

theorem sh_advance (s : St) (h : Sh s) : Sh (advance s) := by
  unfold advance
  exact shp_ite (shp_fail _ h) (shp_of_eq h rfl rfl rfl rfl rfl rfl)

theorem sh_searchN : ∀ (n : Nat) (s : St), Sh s → Sh (searchN n s)
  | 0, _, h => h
  | n + 1, s, h => by
    unfold searchN
    split
    · exact sh_searchN n _ (sh_advance _ (shp_of_eq h rfl rfl rfl rfl rfl rfl))
    · exact shp_fail _ h

theorem sh_searchForward (s : St) (h : Sh s) : Sh (searchForward s) := sh_searchN _ s h

theorem sh_alignN (upto : Nat) : ∀ (n : Nat) (s : St) (acc : List (Nat × Option Feat)), Sh s → Sh (alignN n upto s acc).1
  | 0, _, _, h => h
  | n + 1, s, acc, h => by
    unfold alignN
    split
    · split
      · exact sh_alignN upto n _ _ (sh_advance _ h)
      · exact shp_fail _ h
    · exact sh_alignN upto n _ _ (sh_advance _ h)

theorem sh_alignPass (s : St) (upto : Nat) (h : Sh s) : Sh (alignPass s upto) := by
  unfold alignPass
  refine shp_ite (shp_fail _ h) ?_
  have h1 : Sh { s with nFeatFrame := s.outputFrame + s.nFeatFrame, featOutidx := 0, outputFrame := 0 } :=
    shp_of_eq h rfl rfl rfl rfl rfl rfl
  exact shp_of_eq (sh_alignN upto s.outputFrame _ [] h1) rfl rfl rfl rfl rfl rfl

/-! ## decoder level -/

theorem sh_startUtt (s : St) (h : Sh s) : Sh (startUtt s) := shp_of_eq h rfl rfl rfl rfl rfl rfl

theorem sh_decLoop (fix : Bool) (win : Nat) (skip : Nat → Bool) (ns : Bool) : ∀ (fuel : Nat) (s : St) (rs : List FeResp), Sh s →
    Sh (decLoop fix win skip ns fuel s rs)
  | 0, _, _, h => shp_fail _ h
  | fuel + 1, s, rs, h => by
    unfold decLoop
    have h1 := sh_processRaw fix win skip s rs h
    have h2 : Sh (if ns = true then (processRaw fix win skip s rs).st else searchForward (processRaw fix win skip s rs).st) :=
      shp_ite h1 (sh_searchForward _ h1)
    exact shp_ite (sh_decLoop fix win skip ns fuel _ _ h2) h2

theorem sh_decProcess (fix : Bool) (win : Nat) (skip : Nat → Bool) (s : St) (ns : Bool) (rs : List FeResp) (h : Sh s) :
    Sh (decProcess fix win skip s ns rs) := by
  unfold decProcess
  have h1 : Sh (if ns = true then setGrow s true else s) := shp_ite (sh_setGrow h) h
  exact shp_ite h (shp_ite h1 (sh_decLoop fix win skip ns _ _ _ h1))

theorem sh_endFe (s : St) (tail : Bool) (h : Sh s) : Sh (endFe s tail).1 := by
  unfold endFe
  split
  · exact sh_setMfcFrame _ (sh_feWrite _ _ _ h)
  · exact h

theorem sh_endHead (fix : Bool) (win : Nat) (skip : Nat → Bool) (s : St) (h : Sh s) : Sh (endHead fix win skip s) :=
  sh_setState _ (sh_processMfcbuf fix win skip _ (sh_setState _ h))

theorem sh_decFull (win : Nat) (skip : Nat → Bool) (ns : Bool) : ∀ (rs : List FullResp) (s : St), Sh s → Sh (decFull win skip ns s rs)
  | [], _, h => h
  | r :: rs, s, h => by
    unfold decFull
    have h1 := sh_fullRaw win skip s r h
    have h2 : Sh (if ns = true then fullRaw win skip s r else searchForward (fullRaw win skip s r)) :=
      shp_ite h1 (sh_searchForward _ h1)
    exact shp_ite (sh_decFull win skip ns rs _ h2) h2

theorem sh_decProcessFull (win : Nat) (skip : Nat → Bool) (s : St) (ns : Bool) (rs : List FullResp) (h : Sh s) :
    Sh (decProcessFull win skip s ns rs) := by
  unfold decProcessFull
  have h1 : Sh (if ns = true then setGrow s true else s) := shp_ite (sh_setGrow h) h
  exact shp_ite h (sh_decFull win skip ns rs _ h1)

theorem sh_acmodEndUtt (fix : Bool) (win : Nat) (skip : Nat → Bool) (s : St) (tail : Bool) (h : Sh s) :
    Sh (acmodEndUtt fix win skip s tail) := by
  unfold acmodEndUtt
  have h1 := sh_endFe { s with state := .ended } tail (sh_setState _ h)
  have h2 : Sh (if (fix && decide (s.state = .started)) = true then endHead fix win skip (endFe { s with state := .ended } tail).1
      else (endFe { s with state := .ended } tail).1) := shp_ite (sh_endHead fix win skip _ h1) h1
  exact shp_ite (sh_processMfcbuf fix win skip _ h2) h1

theorem sh_decEnd (fix : Bool) (win : Nat) (skip : Nat → Bool) (s : St) (tail : Bool) (h : Sh s) : Sh (decEnd fix win skip s tail) := by
  unfold decEnd
  exact shp_ite h (sh_searchForward _ (sh_acmodEndUtt fix win skip s tail h))

theorem sh_step (fix : Bool) (win : Nat) (skip : Nat → Bool) (s : St) (op : Op) (h : Sh s) : Sh (step fix win skip s op) := by
  cases op with
  | process ns rs => exact shp_ite (shp_fail _ h) (sh_decProcess fix win skip s ns rs h)
  | processFull ns rs => exact shp_ite (shp_fail _ h) (sh_decProcessFull win skip s ns rs h)
  | query => exact h
  | align steps =>
    cases steps with
    | none => exact h
    | some upto => exact sh_alignPass s upto h

theorem sh_runOps (fix : Bool) (win : Nat) (skip : Nat → Bool) : ∀ (ops : List Op) (s : St), Sh s → Sh (runOps fix win skip s ops)
  | [], _, h => h
  | op :: ops, s, h => sh_runOps fix win skip ops _ (sh_step fix win skip s op h)

/-- the shape facts survive a whole utterance: any calls (streaming, batch, queries, alignment), any front-end responses -/
theorem sh_runUtt (fix : Bool) (win : Nat) (skip : Nat → Bool) (s0 : St) (ops post : List Op) (tail : Bool) (h : Sh s0) :
    Sh (runUtt fix win skip s0 ops tail post) :=
  sh_runOps fix win skip post _ (sh_decEnd fix win skip _ tail (sh_runOps fix win skip ops _ (sh_startUtt s0 h)))

end SSVerif.AcmodBuf
