import SSVerif.Model.Hist
import SSVerif.Proofs.Nfa
/-! helper lemmas about the history-table model (M8) used by `Props/C01.lean`, `Props/C03.lean` -/
namespace SSVerif.Hist
open SSVerif.Nfa

/-! ### the Boolean well-formedness check is the invariant -/

theorem wfStepB_iff (g : Fsg) (h : Hist) (i : Nat) :
    wfStepB g h i = true ↔ ∃ lid, (ent h i).link = some lid ∧ lid < g.links.size ∧
      0 ≤ (ent h i).pred ∧ (ent h i).pred.toNat < i ∧
      (g.link lid).src = dest g (ent h (ent h i).pred.toNat) ∧
      (if (g.link lid).wid < 0 then (ent h i).frame = (ent h (ent h i).pred.toNat).frame
       else (ent h (ent h i).pred.toNat).frame < (ent h i).frame) := by
  unfold wfStepB
  cases hl : (ent h i).link with
  | none => simp
  | some lid =>
    simp only [Option.some.injEq, exists_eq_left', Bool.and_eq_true, decide_eq_true_eq]
    by_cases hw : (g.link lid).wid < 0
    · simp only [hw, if_true, decide_eq_true_eq, and_assoc]
    · simp only [hw, if_false, decide_eq_true_eq, and_assoc]

theorem wfHistB_iff (g : Fsg) (h : Hist) (cur : Int) : wfHistB g h cur = true ↔ WFHist g h cur := by
  unfold wfHistB
  simp only [Bool.and_eq_true, decide_eq_true_eq, List.all_eq_true, List.mem_range, Bool.or_eq_true,
    beq_iff_eq, Bool.not_eq_true', decide_eq_false_iff_not, Option.isNone_iff_eq_none]
  constructor
  · rintro ⟨⟨⟨⟨h0, hr⟩, hs⟩, hm⟩, hb⟩
    refine ⟨h0, ⟨hr.1.1.1, hr.1.1.2, hr.1.2, hr.2⟩, ?_, ?_, hb⟩
    · intro i hi hlt
      rcases hs i hlt with h0' | h1
      · omega
      · exact (wfStepB_iff g h i).1 h1
    · intro i hi
      rcases hm i (by omega) with h1 | h1
      · exact absurd hi h1
      · exact h1
  · intro wf
    refine ⟨⟨⟨⟨wf.nonempty, ⟨⟨⟨wf.root.1, wf.root.2.1⟩, wf.root.2.2.1⟩, wf.root.2.2.2⟩⟩, ?_⟩, ?_⟩, wf.below⟩
    · intro i hlt
      by_cases hi : i = 0
      · exact Or.inl hi
      · exact Or.inr ((wfStepB_iff g h i).2 (wf.step i (by omega) hlt))
    · intro i _
      by_cases hi : i + 1 < h.size
      · exact Or.inr (wf.mono i hi)
      · exact Or.inl hi

/-! ### the backtrace as a relation -/

/-- `IsChain h i l`: `l` lists, in forward order, the entries visited by `while (bp > 0) bp = pred`
started at `i` -/
inductive IsChain (h : Hist) : Nat → List Nat → Prop
  | zero : IsChain h 0 []
  | step {i l} : 0 < i → IsChain h (ent h i).pred.toNat l → IsChain h i (l ++ [i])

theorem chainGo_isChain (h : Hist) (hdesc : ∀ j, 0 < j → j < h.size → (ent h j).pred.toNat < j) :
    ∀ (f : Nat) (bp : Int) (acc : List Nat), bp.toNat ≤ f → bp.toNat < h.size →
      ∃ l, IsChain h bp.toNat l ∧ chainGo h f bp acc = l ++ acc := by
  intro f
  induction f with
  | zero =>
    intro bp acc hf _
    have h0 : bp.toNat = 0 := by omega
    exact ⟨[], h0 ▸ IsChain.zero, by simp [chainGo]⟩
  | succ f ih =>
    intro bp acc hf hs
    unfold chainGo
    by_cases hb : bp > 0
    · simp only [hb, if_true]
      have hpos : 0 < bp.toNat := by omega
      have hd := hdesc bp.toNat hpos hs
      obtain ⟨l, hl, he⟩ := ih (ent h bp.toNat).pred (bp.toNat :: acc) (by omega) (by omega)
      exact ⟨l ++ [bp.toNat], IsChain.step hpos hl, by rw [he]; simp⟩
    · simp only [hb, if_false]
      have h0 : bp.toNat = 0 := by omega
      exact ⟨[], h0 ▸ IsChain.zero, by simp⟩

theorem WFHist.desc {g : Fsg} {h : Hist} {cur : Int} (wf : WFHist g h cur) :
    ∀ j, 0 < j → j < h.size → (ent h j).pred.toNat < j := by
  intro j hj hlt
  obtain ⟨_, _, _, _, hp, _⟩ := wf.step j hj hlt
  exact hp

theorem chain_isChain {g : Fsg} {h : Hist} {cur : Int} (wf : WFHist g h cur) {i : Nat} (hi : i < h.size) :
    IsChain h i (chain h (i : Int)) := by
  obtain ⟨l, hl, he⟩ := chainGo_isChain h wf.desc h.size (i : Int) [] (by simp; omega) (by simpa using hi)
  unfold chain
  rw [he]
  simpa using hl

theorem IsChain.mem_pos {h : Hist} {i : Nat} {l : List Nat} (hc : IsChain h i l) : ∀ j ∈ l, 0 < j := by
  induction hc with
  | zero => simp
  | step hpos _ ih =>
    intro j hj
    rcases List.mem_append.1 hj with h1 | h1
    · exact ih j h1
    · simp at h1; omega

/-! ### the backtrace is a path of the search grammar -/

/-- word labels (ε dropped) along a list of entries -/
def labelsOf (g : Fsg) (h : Hist) (l : List Nat) : List Nat :=
  l.filterMap fun j => (linkOf g (ent h j)).label

theorem labelsOf_append (g : Fsg) (h : Hist) (l1 l2 : List Nat) :
    labelsOf g h (l1 ++ l2) = labelsOf g h l1 ++ labelsOf g h l2 := by
  simp [labelsOf, List.filterMap_append]

theorem link_mem_arcs (g : Fsg) {lid : Nat} (hl : lid < g.links.size) :
    ((g.link lid).src, (g.link lid).label, (g.link lid).dst) ∈ g.toNfa.arcs := by
  unfold Fsg.toNfa Fsg.link
  simp only [List.mem_map]
  refine ⟨g.links[lid], ?_, ?_⟩
  · exact Array.getElem_mem_toList hl
  · simp [Array.getD, hl]

theorem reach_arc {A : Nfa} {p r : Nat} {lab : Option Nat} (ha : (p, lab, r) ∈ A.arcs) :
    Reach A p lab.toList r := by
  cases lab with
  | none => exact .eps ha .refl
  | some w => exact .sym ha .refl

theorem isChain_path {g : Fsg} {h : Hist} {cur : Int} (wf : WFHist g h cur) {i : Nat} {l : List Nat}
    (hc : IsChain h i l) (hi : i < h.size) :
    Reach g.toNfa g.start (labelsOf g h l) (dest g (ent h i)) := by
  induction hc with
  | zero =>
    have : dest g (ent h 0) = g.start := by unfold dest; rw [wf.root.1]
    rw [this]
    exact .refl
  | @step i l hpos _ ih =>
    obtain ⟨lid, hlk, hlid, _, hp, hsrc, _⟩ := wf.step i hpos hi
    have ih' := ih (by omega)
    rw [labelsOf_append]
    have hlo : linkOf g (ent h i) = g.link lid := by unfold linkOf; rw [hlk]
    have hd : dest g (ent h i) = (g.link lid).dst := by unfold dest; rw [hlk]
    have harc := link_mem_arcs g hlid
    rw [hsrc] at harc
    have h1 := reach_arc harc
    rw [hd]
    have hlab : labelsOf g h [i] = (g.link lid).label.toList := by
      simp only [labelsOf, List.filterMap_cons, List.filterMap_nil, hlo]
      cases (g.link lid).label <;> rfl
    rw [hlab]
    exact Reach.trans ih' h1

/-! ### `fsg_search_find_exit` -/

theorem scanBack_le (h : Hist) (f : Int) : ∀ k, scanBack h f k ≤ k := by
  intro k
  induction k with
  | zero => simp [scanBack]
  | succ k ih =>
    unfold scanBack
    split
    · exact Nat.le_refl _
    · omega

theorem scanBack_hit (h : Hist) (f : Int) {k : Nat} (hk : (ent h (k + 1)).frame ≤ f) : scanBack h f (k + 1) = k + 1 := by
  simp [scanBack, hk]

/-- what the second loop maintains: nothing chosen yet, or the chosen entry lies at or below the
starting index, carries a link, has the frame scanned, its score is the recorded best score and —
for a final result — its link ends in the final state -/
def GoodBest (g : Fsg) (h : Hist) (final : Bool) (lastFrm : Int) (top : Nat) (b : Best) : Prop :=
  b.hist = -1 ∨ ∃ j : Nat, b.hist = (j : Int) ∧ j ≤ top ∧ (ent h j).frame = lastFrm ∧ b.score = (ent h j).score ∧
    ∃ lid, (ent h j).link = some lid ∧ (final = true → (g.link lid).dst = g.final)

theorem exitStep_good {g : Fsg} {h : Hist} {final : Bool} {lastFrm : Int} {top k lid : Nat} {b : Best}
    (hb : GoodBest g h final lastFrm top b) (hk : k ≤ top) (hf : (ent h k).frame = lastFrm)
    (hl : (ent h k).link = some lid) :
    GoodBest g h final lastFrm top (exitStep g final b k (g.link lid) (ent h k).score) := by
  unfold exitStep
  split
  · rename_i hc
    exact Or.inr ⟨k, rfl, hk, hf, hc.1.symm, lid, hl, fun _ => hc.2⟩
  · split
    · split
      · rename_i hc
        refine Or.inr ⟨k, rfl, hk, hf, rfl, lid, hl, fun hfin => ?_⟩
        rcases hc with hc | hc
        · simp [hfin] at hc
        · exact hc
      · exact hb
    · exact hb

theorem exitLoop_good {g : Fsg} {h : Hist} {final : Bool} {lastFrm : Int} {top : Nat} :
    ∀ (k : Nat) (b : Best), k ≤ top → GoodBest g h final lastFrm top b →
      GoodBest g h final lastFrm top (exitLoop g h final lastFrm k b) := by
  intro k
  induction k with
  | zero =>
    intro b hk hb
    unfold exitLoop exitIter
    simp only
    split
    · exact hb
    · rename_i b' heq
      split at heq
      · cases heq
      · rename_i hfr
        split at heq
        · cases heq
        · rename_i lid hl
          cases heq
          exact exitStep_good hb hk (by simpa using hfr) hl
  | succ k ih =>
    intro b hk hb
    unfold exitLoop exitIter
    simp only
    split
    · exact hb
    · rename_i b' heq
      split at heq
      · cases heq
      · rename_i hfr
        split at heq
        · cases heq
        · rename_i lid hl
          cases heq
          exact ih _ (by omega) (exitStep_good hb hk (by simpa using hfr) hl)

theorem findExit_eq (g : Fsg) (h : Hist) (cur frm : Int) (final : Bool) :
    findExit g h cur frm final =
      if h.size = 0 then ⟨-1, 0⟩ else
      if scanBack h (if frm = -1 then cur - 1 else frm) (h.size - 1) = 0 then ⟨0, 0⟩ else
      if (exitLoop g h final (ent h (scanBack h (if frm = -1 then cur - 1 else frm) (h.size - 1))).frame
            (scanBack h (if frm = -1 then cur - 1 else frm) (h.size - 1)) ⟨intMin, -1⟩).hist = -1 then ⟨-1, 0⟩
      else ⟨(exitLoop g h final (ent h (scanBack h (if frm = -1 then cur - 1 else frm) (h.size - 1))).frame
            (scanBack h (if frm = -1 then cur - 1 else frm) (h.size - 1)) ⟨intMin, -1⟩).hist,
            (exitLoop g h final (ent h (scanBack h (if frm = -1 then cur - 1 else frm) (h.size - 1))).frame
            (scanBack h (if frm = -1 then cur - 1 else frm) (h.size - 1)) ⟨intMin, -1⟩).score⟩ := rfl

/-- what a positive return value of `find_exit` guarantees -/
theorem findExit_pos {g : Fsg} {h : Hist} {cur frm : Int} {final : Bool}
    (hpos : 0 < (findExit g h cur frm final).bp) :
    ∃ j : Nat, (findExit g h cur frm final).bp = (j : Int) ∧ 0 < j ∧ j < h.size ∧
      (findExit g h cur frm final).score = (ent h j).score ∧
      ∃ lid, (ent h j).link = some lid ∧ (final = true → (g.link lid).dst = g.final) := by
  rw [findExit_eq] at hpos ⊢
  generalize hk : scanBack h (if frm = -1 then cur - 1 else frm) (h.size - 1) = k at hpos ⊢
  have hle : k ≤ h.size - 1 := hk ▸ scanBack_le h _ _
  have hg := exitLoop_good (g := g) (h := h) (final := final) (lastFrm := (ent h k).frame) (top := k)
    k ⟨intMin, -1⟩ (Nat.le_refl _) (Or.inl rfl)
  generalize exitLoop g h final (ent h k).frame k ⟨intMin, -1⟩ = b at hpos hg ⊢
  by_cases h1 : h.size = 0
  · simp [h1] at hpos
  · by_cases h2 : k = 0
    · simp [h1, h2] at hpos
    · by_cases h3 : b.hist = -1
      · simp [h1, h2, h3] at hpos
      · simp only [h1, h2, h3, if_false] at hpos ⊢
        rcases hg with hg | ⟨j, hj, hjle, _, hsc, lid, hl, hfin⟩
        · exact absurd hg h3
        · refine ⟨j, hj, ?_, by omega, hsc, lid, hl, hfin⟩
          rw [hj] at hpos
          omega

/-- with the final-state constraint on, nothing is chosen when no linked entry of the scanned frame
ends in the final state -/
theorem exitLoop_none {g : Fsg} {h : Hist} {lastFrm : Int}
    (hno : ∀ j lid, (ent h j).frame = lastFrm → (ent h j).link = some lid → (g.link lid).dst ≠ g.final) :
    ∀ (k : Nat) (b : Best), b.hist = -1 → (exitLoop g h true lastFrm k b).hist = -1 := by
  have hstep : ∀ (k : Nat) (b : Best) (lid : Nat), b.hist = -1 → (ent h k).frame = lastFrm →
      (ent h k).link = some lid → (exitStep g true b k (g.link lid) (ent h k).score).hist = -1 := by
    intro k b lid hb hf hl
    have hne := hno k lid hf hl
    unfold exitStep
    simp [hne, hb]
  intro k
  induction k with
  | zero =>
    intro b hb
    unfold exitLoop exitIter
    simp only
    split
    · exact hb
    · rename_i b' heq
      split at heq
      · cases heq
      · rename_i hfr
        split at heq
        · cases heq
        · rename_i lid hl
          cases heq
          exact hstep 0 b lid hb (by simpa using hfr) hl
  | succ k ih =>
    intro b hb
    unfold exitLoop exitIter
    simp only
    split
    · exact hb
    · rename_i b' heq
      split at heq
      · cases heq
      · rename_i hfr
        split at heq
        · cases heq
        · rename_i lid hl
          cases heq
          exact ih _ (hstep (k + 1) b lid hb (by simpa using hfr) hl)

theorem findExit_none {g : Fsg} {h : Hist} {cur frm : Int}
    (hno : ∀ j lid, (ent h j).frame = (ent h (scanBack h (if frm = -1 then cur - 1 else frm) (h.size - 1))).frame →
      (ent h j).link = some lid → (g.link lid).dst ≠ g.final) :
    (findExit g h cur frm true).bp ≤ 0 := by
  rw [findExit_eq]
  have := exitLoop_none (g := g) hno (scanBack h (if frm = -1 then cur - 1 else frm) (h.size - 1)) ⟨intMin, -1⟩ rfl
  generalize scanBack h (if frm = -1 then cur - 1 else frm) (h.size - 1) = k at this ⊢
  by_cases h1 : h.size = 0
  · simp [h1]
  · by_cases h2 : k = 0
    · simp [h1, h2]
    · simp [h1, h2, this]

/-! ### projection of the search grammar onto the loaded grammar -/

theorem proj_reach {S G : Nfa} {π : Nat → Option Nat} (hp : projB S G π = true) {p r : Nat} {ws : List Nat}
    (hr : Reach S p ws r) : Reach G p (ws.filterMap π) r := by
  unfold projB at hp
  simp only [Bool.and_eq_true, beq_iff_eq, List.all_eq_true] at hp
  obtain ⟨_, harcs⟩ := hp
  induction hr with
  | refl => exact .refl
  | @eps q q' ws r ha _ ih =>
    have := harcs _ ha
    simp only [List.contains_iff_mem] at this
    exact .eps this ih
  | @sym q q' w ws r ha _ ih =>
    have := harcs _ ha
    simp only at this
    rw [List.filterMap_cons]
    cases hπ : π w with
    | none =>
      simp only [hπ, Bool.or_eq_true, beq_iff_eq, List.contains_iff_mem] at this
      rcases this with h1 | h1
      · subst h1; exact ih
      · exact .eps h1 ih
    | some b =>
      simp only [hπ, List.contains_iff_mem] at this
      exact .sym this ih

theorem proj_accepts {S G : Nfa} {π : Nat → Option Nat} (hp : projB S G π = true) {ws : List Nat}
    (ha : Accepts S ws) : Accepts G (ws.filterMap π) := by
  have h2 := hp
  unfold projB at h2
  simp only [Bool.and_eq_true, beq_iff_eq] at h2
  unfold Accepts at ha ⊢
  rw [← h2.1.1, ← h2.1.2]
  exact proj_reach hp ha

theorem decidePrefix_sound {A : Nfa} {w : List Nat} {b : Bool} (h : decidePrefix A w = some b) :
    (∃ q, Reach A A.start w q) ↔ b = true := by
  unfold decidePrefix at h
  simp only at h
  split at h
  · rename_i hc
    have hx := checkRun_exact hc
    simp only [Option.some.injEq] at h
    rw [← h]
    constructor
    · rintro ⟨q, hq⟩
      have := (hx q).2 hq
      cases hs : (runSets A w).getLastD [] with
      | nil => rw [hs] at this; simp at this
      | cons _ _ => simp
    · intro hne
      cases hs : (runSets A w).getLastD [] with
      | nil => rw [hs] at hne; simp at hne
      | cons x xs => exact ⟨x, (hx x).1 (by rw [hs]; simp)⟩
  · cases h

/-! ### C03: tiling and score telescoping -/

/-- end frame of the last word/filler segment after a list (the `prev` the next segment sees) -/
def tileEnd : Int → List Seg → Int
  | p, [] => p
  | p, s :: rest => if s.wid < 0 then tileEnd p rest else tileEnd s.ef rest

theorem tileFrom_append (F : Int) : ∀ (l1 l2 : List Seg) (p : Int),
    tileFrom F p (l1 ++ l2) ↔ tileFrom F p l1 ∧ tileFrom F (tileEnd p l1) l2 := by
  intro l1
  induction l1 with
  | nil => intro l2 p; simp [tileFrom, tileEnd]
  | cons s rest ih =>
    intro l2 p
    simp only [List.cons_append, tileFrom, tileEnd]
    by_cases hw : s.wid < 0
    · simp only [hw, if_true, ih, and_assoc]
    · simp only [hw, if_false, ih, and_assoc]

theorem tileEnd_append : ∀ (l1 l2 : List Seg) (p : Int), tileEnd p (l1 ++ l2) = tileEnd (tileEnd p l1) l2 := by
  intro l1
  induction l1 with
  | nil => intro l2 p; rfl
  | cons s rest ih =>
    intro l2 p
    simp only [List.cons_append, tileEnd]
    split <;> exact ih _ _

theorem tileFromB_iff (F : Int) : ∀ (l : List Seg) (p : Int), tileFromB F p l = true ↔ tileFrom F p l := by
  intro l
  induction l with
  | nil => intro p; simp [tileFromB, tileFrom]
  | cons s rest ih =>
    intro p
    simp only [tileFromB, tileFrom]
    by_cases hw : s.wid < 0
    · simp only [hw, if_true, Bool.and_eq_true, decide_eq_true_eq, ih]
    · simp only [hw, if_false, Bool.and_eq_true, decide_eq_true_eq, ih, and_assoc]

theorem segsTileB_iff (F : Int) (l : List Seg) : segsTileB F l = true ↔ SegsTile F l := tileFromB_iff F l (-1)

theorem scoresSumB_iff (l : List Seg) (t : Int) : scoresSumB l t = true ↔ ScoresSum l t := by
  unfold scoresSumB ScoresSum
  simp only [Bool.and_eq_true, List.all_eq_true, decide_eq_true_eq]

theorem WFHist.frame_ge {g : Fsg} {h : Hist} {cur : Int} (wf : WFHist g h cur) :
    ∀ i, i < h.size → -1 ≤ (ent h i).frame := by
  intro i
  induction i with
  | zero => intro _; rw [wf.root.2.1]; omega
  | succ i ih =>
    intro hi
    have := wf.mono i hi
    have := ih (by omega)
    omega

theorem get?_nat (h : Hist) {p : Int} (h0 : 0 ≤ p) (hlt : p.toNat < h.size) : get? h p = some (ent h p.toNat) := by
  unfold get? ent
  have : ¬ p < 0 := by omega
  simp [this, Array.getD, hlt]

/-- the fields of the segment of a well-formed entry `i > 0` -/
theorem bp2itor_wf {g : Fsg} {h : Hist} {cur : Int} (wf : WFHist g h cur) (shift : Nat) {i : Nat}
    (hpos : 0 < i) (hi : i < h.size) (s : Seg) (hs : s = bp2itor shift g h (ent h i)) :
    s.wid = (linkOf g (ent h i)).wid ∧ s.prob = s.ascr + s.lscr ∧
    s.ascr + s.lscr = (ent h i).score - (ent h (ent h i).pred.toNat).score ∧
    (if s.wid < 0 then s.sf = max (ent h (ent h i).pred.toNat).frame 0 ∧ s.ef = max (ent h (ent h i).pred.toNat).frame 0 ∧
        (ent h i).frame = (ent h (ent h i).pred.toNat).frame
     else s.sf = (ent h (ent h i).pred.toNat).frame + 1 ∧ s.ef = (ent h i).frame ∧
        (ent h (ent h i).pred.toNat).frame < (ent h i).frame) := by
  obtain ⟨lid, hlk, _, hp0, hplt, _, hfr⟩ := wf.step i hpos hi
  have hge := wf.frame_ge (ent h i).pred.toNat (by omega)
  have hget : get? h (ent h i).pred = some (ent h (ent h i).pred.toNat) := get?_nat h hp0 (by omega)
  have hlo : linkOf g (ent h i) = g.link lid := by unfold linkOf; rw [hlk]
  unfold bp2itor at hs
  simp only [hp0, if_true, hget, hlo] at hs
  rw [hlo]
  subst hs
  by_cases hw : (g.link lid).wid < 0
  · simp only [hw, if_true] at hfr
    simp only [hw, if_true]
    refine ⟨trivial, by omega, by omega, ?_, ?_, hfr⟩
    · split <;> (try split) <;> omega
    · split <;> omega
  · simp only [hw, if_false] at hfr
    simp only [hw, if_false]
    refine ⟨trivial, by omega, by omega, ?_, ?_, hfr⟩
    · split <;> (try split) <;> omega
    · split <;> omega

theorem isChain_tile {g : Fsg} {h : Hist} {cur : Int} (wf : WFHist g h cur) (shift : Nat) {i : Nat} {l : List Nat}
    (hc : IsChain h i l) (hi : i < h.size) :
    tileFrom cur (-1) (l.map fun j => bp2itor shift g h (ent h j)) ∧
    tileEnd (-1) (l.map fun j => bp2itor shift g h (ent h j)) = (ent h i).frame := by
  induction hc with
  | zero => exact ⟨trivial, by simp [tileEnd, wf.root.2.1]⟩
  | @step i l hpos _ ih =>
    obtain ⟨_, _, _, hplt, _⟩ := wf.step i hpos hi
    obtain ⟨ih1, ih2⟩ := ih (by omega)
    obtain ⟨_, _, _, hsf⟩ := bp2itor_wf wf shift hpos hi _ rfl
    have hb := wf.below i hi
    rw [List.map_append, tileFrom_append, tileEnd_append, ih2]
    simp only [List.map_cons, List.map_nil, tileFrom, tileEnd]
    by_cases hw : (bp2itor shift g h (ent h i)).wid < 0
    · simp only [hw, if_true] at hsf ⊢
      exact ⟨⟨ih1, ⟨hsf.1, hsf.2.1⟩, trivial⟩, hsf.2.2.symm⟩
    · simp only [hw, if_false] at hsf ⊢
      exact ⟨⟨ih1, ⟨hsf.1, by omega, by omega⟩, trivial⟩, hsf.2.1⟩

theorem isChain_sum {g : Fsg} {h : Hist} {cur : Int} (wf : WFHist g h cur) (shift : Nat) {i : Nat} {l : List Nat}
    (hc : IsChain h i l) (hi : i < h.size) :
    ((l.map fun j => bp2itor shift g h (ent h j)).map fun s => s.ascr + s.lscr).sum = (ent h i).score ∧
    ∀ s ∈ (l.map fun j => bp2itor shift g h (ent h j)), s.prob = s.ascr + s.lscr := by
  induction hc with
  | zero => exact ⟨by simp [wf.root.2.2.2], by simp⟩
  | @step i l hpos _ ih =>
    obtain ⟨_, _, _, hplt, _⟩ := wf.step i hpos hi
    obtain ⟨ih1, ih2⟩ := ih (by omega)
    obtain ⟨_, hprob, hsum, _⟩ := bp2itor_wf wf shift hpos hi _ rfl
    constructor
    · rw [List.map_append, List.map_append, List.sum_append, ih1]
      simp only [List.map_cons, List.map_nil, List.sum_cons, List.sum_nil]
      omega
    · intro s hs
      rw [List.map_append] at hs
      rcases List.mem_append.1 hs with h1 | h1
      · exact ih2 s h1
      · simp only [List.map_cons, List.map_nil, List.mem_singleton] at h1
        rw [h1]; exact hprob

/-! ### consequences of the tiling predicate -/

theorem tile_first {F : Int} {s : Seg} {l : List Seg} (h : SegsTile F (s :: l)) : s.sf = 0 := by
  unfold SegsTile tileFrom at h
  split at h
  · have := h.1.1; omega
  · have := h.1.1; omega

/-- bounds of every segment of a tiled list that starts after `p ≥ −1` -/
theorem tile_bounds {F : Int} : ∀ (l : List Seg) (p : Int), -1 ≤ p → tileFrom F p l →
    ∀ s ∈ l, max p 0 ≤ s.sf ∧ s.sf ≤ s.ef ∧ (s.wid < 0 ∨ s.ef < F) := by
  intro l
  induction l with
  | nil => intro p _ _ s hs; cases hs
  | cons a rest ih =>
    intro p hp ht s hs
    unfold tileFrom at ht
    by_cases hw : a.wid < 0
    · simp only [hw, if_true] at ht
      rcases List.mem_cons.1 hs with h1 | h1
      · subst h1; exact ⟨by omega, by omega, Or.inl hw⟩
      · exact ih p hp ht.2 s h1
    · simp only [hw, if_false] at ht
      rcases List.mem_cons.1 hs with h1 | h1
      · subst h1; exact ⟨by omega, by omega, Or.inr ht.1.2.2⟩
      · have := ih a.ef (by omega) ht.2 s h1
        exact ⟨by omega, this.2.1, this.2.2⟩

/-- segments come in time order -/
theorem tile_sorted {F : Int} : ∀ (l : List Seg) (p : Int), -1 ≤ p → tileFrom F p l →
    l.Pairwise fun a b => a.sf ≤ b.sf ∧ a.ef ≤ b.ef := by
  intro l
  induction l with
  | nil => intro _ _ _; exact List.Pairwise.nil
  | cons a rest ih =>
    intro p hp ht
    have hall := tile_bounds (a :: rest) p hp ht
    unfold tileFrom at ht
    by_cases hw : a.wid < 0
    · simp only [hw, if_true] at ht
      refine List.Pairwise.cons ?_ (ih p hp ht.2)
      intro b hb
      have := tile_bounds rest p hp ht.2 b hb
      omega
    · simp only [hw, if_false] at ht
      refine List.Pairwise.cons ?_ (ih a.ef (by omega) ht.2)
      intro b hb
      have := tile_bounds rest a.ef (by omega) ht.2 b hb
      omega

def wordCount (l : List Seg) : Nat := (l.filter fun s => !decide (s.wid < 0)).length

/-- word/filler segments each take at least one of the `F` frames -/
theorem tile_wordCount {F : Int} : ∀ (l : List Seg) (p : Int), p < F → tileFrom F p l →
    p + (wordCount l : Int) < F := by
  intro l
  induction l with
  | nil => intro p hp _; simpa [wordCount] using hp
  | cons a rest ih =>
    intro p hp ht
    unfold tileFrom at ht
    by_cases hw : a.wid < 0
    · simp only [hw, if_true] at ht
      have := ih p hp ht.2
      simpa [wordCount, hw] using this
    · simp only [hw, if_false] at ht
      have := ih a.ef ht.1.2.2 ht.2
      have hc : wordCount (a :: rest) = wordCount rest + 1 := by simp [wordCount, hw]
      rw [hc]
      push_cast
      omega

/-! ### growth of the table: what every `fsg_history_entry_add` has to respect -/

/-- local condition on an entry appended to `h` (`fsg_history_end_frame` moves the surviving entries
of the frame to the end of the table) -/
def EntryOK (g : Fsg) (h : Hist) (cur : Int) (e : Entry) : Prop :=
  ∃ lid, e.link = some lid ∧ lid < g.links.size ∧ 0 ≤ e.pred ∧ e.pred.toNat < h.size ∧
    (g.link lid).src = dest g (ent h e.pred.toNat) ∧
    (if (g.link lid).wid < 0 then e.frame = (ent h e.pred.toNat).frame else (ent h e.pred.toNat).frame < e.frame) ∧
    (ent h (h.size - 1)).frame ≤ e.frame ∧ e.frame < cur

theorem ent_push_lt (h : Hist) (e : Entry) {i : Nat} (hi : i < h.size) : ent (h.push e) i = ent h i := by
  unfold ent
  simp [Array.getD, hi, Array.getElem_push, Nat.lt_succ_of_lt hi]

theorem ent_push_eq (h : Hist) (e : Entry) : ent (h.push e) h.size = e := by
  unfold ent
  simp [Array.getD, Array.getElem_push]

theorem WFHist.push {g : Fsg} {h : Hist} {cur : Int} {e : Entry} (wf : WFHist g h cur) (he : EntryOK g h cur e) :
    WFHist g (h.push e) cur := by
  obtain ⟨lid, hl, hlid, hp0, hplt, hsrc, hfr, hlast, hcur⟩ := he
  have hsz : (h.push e).size = h.size + 1 := Array.size_push ..
  have hne := wf.nonempty
  refine ⟨by omega, ?_, ?_, ?_, ?_⟩
  · rw [ent_push_lt h e hne]; exact wf.root
  · intro i hi hlt
    rw [hsz] at hlt
    by_cases hi2 : i < h.size
    · obtain ⟨lid', h1, h2, h3, h4, h5, h6⟩ := wf.step i hi hi2
      rw [ent_push_lt h e hi2, ent_push_lt h e (by omega : (ent h i).pred.toNat < h.size)]
      exact ⟨lid', h1, h2, h3, h4, h5, h6⟩
    · have : i = h.size := by omega
      subst this
      rw [ent_push_eq, ent_push_lt h e hplt]
      exact ⟨lid, hl, hlid, hp0, hplt, hsrc, hfr⟩
  · intro i hi
    rw [hsz] at hi
    by_cases hi2 : i + 1 < h.size
    · rw [ent_push_lt h e (by omega), ent_push_lt h e hi2]; exact wf.mono i hi2
    · have : i + 1 = h.size := by omega
      rw [this, ent_push_eq, ent_push_lt h e (by omega)]
      have : i = h.size - 1 := by omega
      rw [this]; exact hlast
  · intro i hi
    rw [hsz] at hi
    by_cases hi2 : i < h.size
    · rw [ent_push_lt h e hi2]; exact wf.below i hi2
    · have : i = h.size := by omega
      subst this
      rw [ent_push_eq]; exact hcur

theorem WFHist.advance {g : Fsg} {h : Hist} {cur cur' : Int} (wf : WFHist g h cur) (hc : cur ≤ cur') :
    WFHist g h cur' :=
  { wf with below := fun i hi => by have := wf.below i hi; omega }

/-- the table right after `fsg_history_entry_add(NULL, -1, 0, -1, …)` in `fsg_search_start` -/
theorem wf_start (g : Fsg) : WFHist g #[dummy] 0 := by
  refine ⟨by simp, ⟨rfl, rfl, rfl, rfl⟩, ?_, ?_, ?_⟩
  · intro i hi hlt; simp at hlt; omega
  · intro i hi; simp at hi
  · intro i hi
    have : i = 0 := by simp at hi; omega
    subst this
    show (-1 : Int) < 0
    omega

/-- appending null-arc entries that hang off entries `< n` of the last frame `f`, in any order
and any selection, keeps the table well-formed -/
theorem wf_append_nulls {g : Fsg} {cur : Int} : ∀ (es : List Entry) (h : Hist) (n : Nat) (f : Int),
    WFHist g h cur → n ≤ h.size → (ent h (h.size - 1)).frame = f →
    (∀ e ∈ es, ∃ lid, e.link = some lid ∧ lid < g.links.size ∧ (g.link lid).wid < 0 ∧ 0 ≤ e.pred ∧ e.pred.toNat < n ∧
      (g.link lid).src = dest g (ent h e.pred.toNat) ∧ e.frame = (ent h e.pred.toNat).frame ∧
      (ent h e.pred.toNat).frame = f) →
    WFHist g (es.foldl Array.push h) cur := by
  intro es
  induction es with
  | nil => intro h n f wf _ _ _; exact wf
  | cons e rest ih =>
    intro h n f wf hn hf hall
    obtain ⟨lid, hl, hlid, hw, hp0, hpn, hsrc, hfr, hpf⟩ := hall e (List.mem_cons_self ..)
    have hb := wf.below e.pred.toNat (by omega)
    have wf' : WFHist g (h.push e) cur := wf.push ⟨lid, hl, hlid, hp0, by omega, hsrc, by simp only [hw, if_true]; exact hfr,
      by rw [hf, hfr, hpf]; exact Int.le_refl _, by rw [hfr]; exact hb⟩
    simp only [List.foldl_cons]
    have hsz : (h.push e).size = h.size + 1 := Array.size_push ..
    refine ih (h.push e) n f wf' (by omega) ?_ ?_
    · rw [hsz]
      have : h.size + 1 - 1 = h.size := by omega
      rw [this, ent_push_eq, hfr, hpf]
    · intro e' he'
      obtain ⟨lid', h1, h2, h3, h4, h5, h6, h7, h8⟩ := hall e' (List.mem_cons_of_mem _ he')
      have hlt : e'.pred.toNat < h.size := by omega
      rw [ent_push_lt h e hlt]
      exact ⟨lid', h1, h2, h3, h4, h5, h6, h7, h8⟩

end SSVerif.Hist
