import SSVerif.Model.FeSwap
import SSVerif.Proofs.FeBufNat
/-!
# The byte-order model refines the index model

From a state `tag m fe` (overflow buffer in input order, `spch`/prior/windows in host order) on a
buffer handed over in input order, every function of `Model/FeSwap.lean` performs no wrong-order
read and ends in `tag m fe'`, where `fe'` is what the index model `FeBuf` computes — for every mode
(swap on/off, dither on/off, both encodings).  Purely equational, function by function.
-/
namespace SSVerif.FeSwap
open SSVerif.FeBuf List

theorem cellToOvf_in (m : Mode) (i : Nat) : cellToOvf m (inC m i) = some (ovfC m i) := by
  obtain ⟨sw, d, e⟩ := m
  cases sw <;> cases e <;> simp [cellToOvf, inC, ovfC, swapIf, scaleDown]

/-- a caller's sample read by the reader of the call's encoding -/
theorem cellToSpch_in (m : Mode) (i : Nat) : cellToSpch m m.enc (inC m i) = some (hostC m i) := by
  obtain ⟨sw, d, e⟩ := m
  cases sw <;> cases d <;> cases e <;> simp [cellToSpch, inC, hostC, swapIf, arith, scaleUp, addDither]

/-- an overflow-buffer sample read by `fe_read_frame_float32` -/
theorem cellToSpch_ovf (m : Mode) (i : Nat) : cellToSpch m .float32 (ovfC m i) = some (hostC m i) := by
  obtain ⟨sw, d, e⟩ := m
  cases sw <;> cases d <;> simp [cellToSpch, ovfC, hostC, swapIf, scaleUp, addDither]

theorem toOvf_in (m : Mode) (xs : List Nat) : toOvf m (xs.map (inC m)) = some (xs.map (ovfC m)) := by
  induction xs with
  | nil => rfl
  | cons x xs ih =>
    simp only [toOvf] at ih
    simp [toOvf, mapO, cellToOvf_in, ih]

theorem toSpch_in (m : Mode) (xs : List Nat) :
    toSpch m m.enc (xs.map (inC m)) = some (xs.map (hostC m)) := by
  induction xs with
  | nil => rfl
  | cons x xs ih =>
    simp only [toSpch] at ih
    simp [toSpch, mapO, cellToSpch_in, ih]

theorem toSpch_ovf (m : Mode) (xs : List Nat) :
    toSpch m .float32 (xs.map (ovfC m)) = some (xs.map (hostC m)) := by
  induction xs with
  | nil => rfl
  | cons x xs ih =>
    simp only [toSpch] at ih
    simp [toSpch, mapO, cellToSpch_ovf, ih]

theorem hostAll_map (m : Mode) (xs : List Nat) : hostAll (xs.map (hostC m)) = true := by
  induction xs with
  | nil => rfl
  | cons x xs ih =>
    simp only [hostAll, List.map_cons, List.all_cons] at ih ⊢
    rw [ih]; rfl

theorem hostAll_opt (m : Mode) (p : Option Nat) : hostAll (p.map (hostC m)).toList = true := by
  cases p <;> rfl

/-- the frame function's argument, tagged -/
def tagFrame (m : Mode) (fr : Frame Nat) : Frame Cell :=
  { win := fr.win.map (hostC m), prior := fr.prior.map (hostC m) }

theorem spchToFrame_tag (m : Mode) (c : Cfg) (fe : Fe Nat) (len : Nat) :
    spchToFrameS c (tag m fe) len = some (tag m (FeBuf.spchToFrame c fe len)) := by
  have h1 : hostAll ((tag m fe).spch.take len) = true := by
    show hostAll ((fe.spch.map (hostC m)).take len) = true
    rw [← List.map_take]; exact hostAll_map m _
  have h2 : hostAll (tag m fe).prior.toList = true := hostAll_opt m fe.prior
  simp only [spchToFrameS, h1, h2, Bool.and_self, if_true]
  congr 1
  simp only [FeBuf.spchToFrame, tag, List.map_append, List.map_take, List.map_cons, List.map_nil]
  congr 1
  split <;> simp

theorem readFrame_tag (m : Mode) (c : Cfg) (fe : Fe Nat) (xs : List Nat) :
    readFrameS m m.enc c (tag m fe) (xs.map (inC m)) = some (tag m (FeBuf.readFrame c fe xs)) := by
  simp only [readFrameS, toSpch_in, Option.bind_some, length_map]
  exact spchToFrame_tag m c { fe with spch := xs } xs.length

theorem readFrame_ovf_tag (m : Mode) (c : Cfg) (fe : Fe Nat) (xs : List Nat) :
    readFrameS m .float32 c (tag m fe) (xs.map (ovfC m)) = some (tag m (FeBuf.readFrame c fe xs)) := by
  simp only [readFrameS, toSpch_ovf, Option.bind_some, length_map]
  exact spchToFrame_tag m c { fe with spch := xs } xs.length

theorem shiftFrame_tag (m : Mode) (c : Cfg) (fe : Fe Nat) (xs : List Nat) :
    shiftFrameS m c (tag m fe) (xs.map (inC m)) = some (tag m (FeBuf.shiftFrame c fe xs)) := by
  simp only [shiftFrameS, toSpch_in, Option.bind_some, length_map]
  have e : ({ tag m fe with
        spch := ((tag m fe).spch.drop c.shift).take (c.size - c.shift) ++ xs.map (hostC m) } : Fe Cell)
      = tag m { fe with spch := (fe.spch.drop c.shift).take (c.size - c.shift) ++ xs } := by
    simp [tag, List.map_take, List.map_drop]
  rw [e, spchToFrame_tag]; rfl

@[simp] theorem tag_nOvf (m : Mode) (fe : Fe Nat) : (tag m fe).nOvf = fe.nOvf := rfl
@[simp] theorem tag_ovf (m : Mode) (fe : Fe Nat) : (tag m fe).ovf = fe.ovf.map (ovfC m) := rfl

theorem overflowAppend_tag (m : Mode) (fe : Fe Nat) (buf : List Nat) :
    overflowAppendS m (tag m fe) (buf.map (inC m)) = some (tag m (FeBuf.overflowAppend fe buf)) := by
  simp only [overflowAppendS, toOvf_in, Option.map_some]
  congr 1
  unfold FeBuf.overflowAppend
  rw [length_map]
  split
  · rfl
  · simp [tag, List.map_take]

/-- lift `tag` over the result of the helpers that return a state and a count -/
def tagFst (m : Mode) (x : Fe Nat × Nat) : Fe Cell × Nat := (tag m x.1, x.2)

theorem readOverflowFrame_tag (m : Mode) (c : Cfg) (fe : Fe Nat) (buf : List Nat) :
    readOverflowFrameS m c (tag m fe) (buf.map (inC m)) = (FeBuf.readOverflowFrame c fe buf).map (tagFst m) := by
  simp only [readOverflowFrameS, FeBuf.readOverflowFrame, tag_nOvf, tag_ovf, rd_map]
  split
  · rfl
  · cases h1 : rd fe.ovf 0 fe.nOvf.toNat with
    | none => rfl
    | some old =>
      cases h2 : rd buf 0 ((c.size : Int) - fe.nOvf).toNat with
      | none => rfl
      | some xs =>
        simp only [Option.map_some, Option.bind_some, toOvf_in, ← List.map_append, rd_map]
        cases h3 : rd (old ++ xs) 0 c.size with
        | none => rfl
        | some w =>
          simp only [Option.map_some, Option.bind_some, tagFst]
          have key := readFrame_ovf_tag m c { fe with ovf := old ++ xs } w
          change Option.map _ (readFrameS m .float32 c (tag m { fe with ovf := old ++ xs }) (w.map (ovfC m))) = _
          rw [key]; rfl

theorem shiftLoop_tag (m : Mode) (c : Cfg) (buf : List Nat) :
    ∀ (n : Nat) (fe : Fe Nat) (p : Nat),
      shiftLoopS m c (buf.map (inC m)) n (tag m fe) p = (FeBuf.shiftLoop c buf n fe p).map (tagFst m) := by
  intro n
  induction n with
  | zero => intro fe p; rfl
  | succ n ih =>
    intro fe p
    simp only [shiftLoopS, FeBuf.shiftLoop, rd_map]
    cases h : rd buf p c.shift with
    | none => rfl
    | some xs =>
      simp only [Option.map_some, Option.bind_some, shiftFrame_tag]
      rw [← ih]
      rfl

theorem createOverflowFrame_tag (m : Mode) (c : Cfg) (fe : Fe Nat) (buf : List Nat) (p : Nat) :
    createOverflowFrameS m c (tag m fe) (buf.map (inC m)) p
      = (FeBuf.createOverflowFrame c fe buf p).map (tagFst m) := by
  simp only [createOverflowFrameS, FeBuf.createOverflowFrame, length_map, rd_map]
  split
  · split
    · rfl
    · cases rd buf (p - (c.size - c.shift)) (c.size - c.shift + min (c.shift - c.slack) (buf.length - p)) with
      | none => rfl
      | some xs => simp only [Option.map_some, Option.bind_some, toOvf_in]; rfl
  · rfl

theorem appendOverflowFrame_tag (m : Mode) (c : Cfg) (fe : Fe Nat) (buf : List Nat) (p : Nat) (origN : Int) :
    appendOverflowFrameS m c (tag m fe) (buf.map (inC m)) p origN
      = (FeBuf.appendOverflowFrame c fe buf p origN).map (tagFst m) := by
  simp only [appendOverflowFrameS, FeBuf.appendOverflowFrame, length_map, rd_map, tag_nOvf, tag_ovf]
  split
  · rfl
  · cases rd fe.ovf (origN - fe.nOvf).toNat fe.nOvf.toNat with
    | none => rfl
    | some moved =>
      simp only [Option.map_some, Option.bind_some]
      cases rd buf 0 (min buf.length ((c.size : Int) - fe.nOvf - c.slack).toNat) with
      | none => rfl
      | some xs => simp [tagFst, tag, toOvf_in]

/-- lift `tag` over the result of `process` -/
def tagProc (m : Mode) (x : Fe Nat × Nat × Nat) : Fe Cell × Nat × Nat := (tag m x.1, x.2)

theorem process_tail_tag (m : Mode) (c : Cfg) (buf : List Nat) (t fc : Nat) (origN : Int)
    (r1 : Option (Fe Nat × Nat)) :
    ((r1.map (tagFst m)).bind fun x => (shiftLoopS m c (buf.map (inC m)) t x.fst x.snd).bind fun x =>
        Option.map (fun x => (x.fst, x.snd, fc))
          (if x.fst.nOvf ≤ 0 then createOverflowFrameS m c x.fst (buf.map (inC m)) x.snd
           else appendOverflowFrameS m c x.fst (buf.map (inC m)) x.snd origN))
    = Option.map (tagProc m) (r1.bind fun x => (FeBuf.shiftLoop c buf t x.fst x.snd).bind fun x =>
        Option.map (fun x => (x.fst, x.snd, fc))
          (if x.fst.nOvf ≤ 0 then FeBuf.createOverflowFrame c x.fst buf x.snd
           else FeBuf.appendOverflowFrame c x.fst buf x.snd origN)) := by
  cases r1 with
  | none => rfl
  | some x1 =>
    simp only [Option.map_some, Option.bind_some, tagFst, shiftLoop_tag]
    generalize FeBuf.shiftLoop c buf t x1.fst x1.snd = r2
    cases r2 with
    | none => rfl
    | some x2 =>
      simp only [Option.map_some, Option.bind_some, tagFst, tag_nOvf,
        createOverflowFrame_tag, appendOverflowFrame_tag]
      split
      · cases FeBuf.createOverflowFrame c x2.fst buf x2.snd with
        | none => rfl
        | some x3 => rfl
      · cases FeBuf.appendOverflowFrame c x2.fst buf x2.snd origN with
        | none => rfl
        | some x3 => rfl

/-- **one call.** From a tagged state, on a buffer in input order, `fe_process` fails (wrong-order or
out-of-bounds read) exactly when the index model does, and otherwise ends in the tagged image of
the index model's state, with the same consumed / frame counts. -/
theorem process_tag (m : Mode) (c : Cfg) (fe : Fe Nat) (buf : List Nat) (nframes : Nat) :
    processS m c (tag m fe) (buf.map (inC m)) nframes = (FeBuf.process c fe buf nframes).map (tagProc m) := by
  by_cases hA : (buf.length : Int) + fe.nOvf < c.size
  · simp only [processS, FeBuf.process, length_map, tag_nOvf, hA, if_true]
    simp [tagProc, overflowAppend_tag]
  · by_cases hL : nframes < 1
    · simp only [processS, FeBuf.process, length_map, tag_nOvf, hA, hL, if_true, if_false]
      rfl
    · have hfirst : ∃ r1, (if fe.nOvf ≠ 0 then FeBuf.readOverflowFrame c fe buf
             else Option.map (fun w => (FeBuf.readFrame c fe w, c.size)) (rd buf 0 c.size)) = r1 ∧
          (if fe.nOvf ≠ 0 then readOverflowFrameS m c (tag m fe) (map (inC m) buf)
          else (rd (map (inC m) buf) 0 c.size).bind fun w =>
            (readFrameS m m.enc c (tag m fe) w).map fun fe' => (fe', c.size))
          = r1.map (tagFst m) := by
        refine ⟨_, rfl, ?_⟩
        by_cases h0 : fe.nOvf ≠ 0
        · rw [if_pos h0, if_pos h0]; exact readOverflowFrame_tag m c fe buf
        · rw [if_neg h0, if_neg h0, rd_map]
          cases rd buf 0 c.size with
          | none => rfl
          | some w => simp [tagFst, readFrame_tag]
      obtain ⟨r1, h1, h2⟩ := hfirst
      by_cases h0 : fe.nOvf ≠ 0
      · rw [if_pos h0] at h1 h2
        simp only [processS, FeBuf.process, length_map, tag_nOvf, hA, hL, h0, if_true, if_false,
          not_false_eq_true, ne_eq]
        rw [h1, h2]
        exact process_tail_tag m c buf _ _ _ r1
      · rw [if_neg h0] at h1 h2
        simp only [processS, FeBuf.process, length_map, tag_nOvf, hA, hL, if_false]
        simp only [ne_eq, Decidable.not_not] at h0
        simp only [h0, ne_eq, not_true_eq_false, if_false]
        rw [h1, h2]
        exact process_tail_tag m c buf _ _ _ r1

theorem finish_tag (m : Mode) (c : Cfg) (fe : Fe Nat) (nframes : Nat) :
    finishS m c (tag m fe) nframes = (FeBuf.finish c fe nframes).map (tagFst m) := by
  simp only [finishS, FeBuf.finish, tag_nOvf, tag_ovf, rd_map]
  split
  · cases rd fe.ovf 0 (min fe.nOvf.toNat c.size) with
    | none => rfl
    | some w =>
      simp only [Option.map_some, Option.bind_some, tagFst, readFrame_ovf_tag]
      rfl
  · rfl

/-- lift `tag` over the result of `feedChunk` -/
def tagChunk (m : Mode) (x : Fe Nat × List CallLog × List Nat) : Fe Cell × List CallLog × List Cell :=
  (tag m x.1, x.2.1, x.2.2.map (inC m))

theorem feedChunk_tag (m : Mode) (c : Cfg) :
    ∀ (ls : List Nat) (fe : Fe Nat) (buf : List Nat),
      feedChunkS m c (tag m fe) (buf.map (inC m)) ls = (FeBuf.feedChunk c fe buf ls).map (tagChunk m) := by
  intro ls
  induction ls with
  | nil =>
    intro fe buf
    have ho : ∀ n, outputFrameCount c (tag m fe) n = outputFrameCount c fe n := fun _ => rfl
    simp only [feedChunkS, FeBuf.feedChunk, length_map, ho, process_tag]
    split
    · rfl
    · cases FeBuf.process c fe buf (outputFrameCount c fe buf.length) with
      | none => rfl
      | some x => simp [tagChunk, tagProc, List.map_drop]
  | cons l ls ih =>
    intro fe buf
    have ho : ∀ n, outputFrameCount c (tag m fe) n = outputFrameCount c fe n := fun _ => rfl
    simp only [feedChunkS, FeBuf.feedChunk, length_map, ho, process_tag]
    cases FeBuf.process c fe buf l with
    | none => rfl
    | some x =>
      simp only [Option.map_some, Option.bind_some, tagProc, ← List.map_drop, ih]
      cases FeBuf.feedChunk c x.fst (drop x.snd.fst buf) ls with
      | none => rfl
      | some y => rfl

def tagRun (m : Mode) (r : RunResult Nat) : RunResult Cell :=
  { fe := tag m r.fe, calls := r.calls, left := r.left }

theorem feedAll_tag (m : Mode) (c : Cfg) :
    ∀ (chunks : List (List Nat × List Nat)) (fe : Fe Nat),
      feedAllS m c (tag m fe) (inChunks m chunks) = (FeBuf.feedAll c fe chunks).map (tagRun m) := by
  intro chunks
  induction chunks with
  | nil => intro fe; rfl
  | cons ch rest ih =>
    intro fe
    obtain ⟨buf, ls⟩ := ch
    simp only [inChunks, List.map_cons, feedAllS, FeBuf.feedAll, feedChunk_tag]
    cases FeBuf.feedChunk c fe buf ls with
    | none => rfl
    | some x =>
      simp only [Option.map_some, Option.bind_some, tagChunk]
      have := ih x.fst
      simp only [inChunks] at this
      rw [this]
      cases FeBuf.feedAll c x.fst rest with
      | none => rfl
      | some r => simp [tagRun]

/-- **a whole utterance**: the byte-order model of `fe_start`, any schedule of calls, `fe_end`
fails exactly when the index model does and otherwise yields its tagged image -/
theorem run_tag (m : Mode) (c : Cfg) (chunks : List (List Nat × List Nat)) (endRoom : Nat) :
    runS m c (inChunks m chunks) endRoom
      = (FeBuf.run c chunks endRoom).map (fun x => (tagRun m x.1, x.2)) := by
  simp only [runS, FeBuf.run]
  have h := feedAll_tag m c chunks start
  rw [show (tag m (start : Fe Nat)) = (start : Fe Cell) from rfl] at h
  rw [h]
  cases FeBuf.feedAll c start chunks with
  | none => rfl
  | some r =>
    simp only [Option.map_some, Option.bind_some, tagRun, finish_tag]
    cases FeBuf.finish c r.fe endRoom with
    | none => rfl
    | some y => rfl

theorem tag_withEnc (m : Mode) (e : Enc) (fe : Fe Nat) : tag (m.withEnc e) fe = tag m fe := rfl

theorem feedAllX_tag (m : Mode) (c : Cfg) :
    ∀ (chunks : List (Enc × List Nat × List Nat)) (fe : Fe Nat),
      feedAllX m c (tag m fe) chunks = (FeBuf.feedAll c fe (chunks.map (·.2))).map (tagRun m) := by
  intro chunks
  induction chunks with
  | nil => intro fe; rfl
  | cons ch rest ih =>
    intro fe
    obtain ⟨e, buf, ls⟩ := ch
    simp only [List.map_cons, feedAllX, FeBuf.feedAll]
    rw [← tag_withEnc m e fe, feedChunk_tag]
    cases FeBuf.feedChunk c fe buf ls with
    | none => rfl
    | some x =>
      simp only [Option.map_some, Option.bind_some, tagChunk, tag_withEnc]
      rw [ih x.fst]
      cases FeBuf.feedAll c x.fst (rest.map (·.2)) with
      | none => rfl
      | some r => simp [tagRun]

/-- a whole utterance whose chunks go through `fe_process_int16` or `fe_process_float32` as the
caller likes: same result as the index model on the chunks without their encodings -/
theorem runX_tag (m : Mode) (c : Cfg) (chunks : List (Enc × List Nat × List Nat)) (endRoom : Nat) :
    runX m c chunks endRoom
      = (FeBuf.run c (chunks.map (·.2)) endRoom).map (fun x => (tagRun m x.1, x.2)) := by
  simp only [runX, FeBuf.run]
  have h := feedAllX_tag m c chunks start
  rw [show (tag m (start : Fe Nat)) = (start : Fe Cell) from rfl] at h
  rw [h]
  cases FeBuf.feedAll c start (chunks.map (·.2)) with
  | none => rfl
  | some r =>
    simp only [Option.map_some, Option.bind_some, tagRun, finish_tag]
    cases FeBuf.finish c r.fe endRoom with
    | none => rfl
    | some y => rfl

end SSVerif.FeSwap
