import SSVerif.Proofs.LatticePostBwd
import SSVerif.Props.C19
/-!
# The log-add laws for the real tables, and the passage from `B^z ≤ ρ^K` to integers (helper lemmas for C12)

For a checked configuration `c` (C19: the table dumped from `logmath_init`, every entry accurate),
`laddLaw_of_checked` discharges `LaddLaw` for `logmath_add` from `C19_logAdd_is_rounded_log_of_sum`, with
`B = base^(2^shift)` and `ρ = B^η`, `η = 1/2 + log_B(2^20/(2^20−1))`.  `zpow_le_rho_pow` turns
`B^z ≤ ρ^K` into `z ≤ η·K`, `eta_le` bounds `η ≤ 51/100` when `(2^20/(2^20−1))^100 ≤ B` (true for the
decoder's base 1.0001, `cfgDec_eta`), so that the final bounds are integer inequalities `100·z ≤ 51·K`.
-/
namespace SSVerif.Lattice
open SSVerif.LogAdd

noncomputable section

/-- base of the (shifted) log domain of a configuration -/
def cfgBase (c : Config) : ℝ := ((c.baseNum : ℝ) / c.baseDen) ^ (2 ^ c.shift)
/-- accuracy of one table addition in log units: half a unit plus the tolerance of the table check -/
def cfgEta (c : Config) : ℝ := 1 / 2 + Real.logb (cfgBase c) ((2 ^ 20 : ℝ) / (2 ^ 20 - 1))
/-- the same as a factor -/
def cfgRho (c : Config) : ℝ := (cfgBase c) ^ (cfgEta c)

theorem cfgBase_gt {c : Config} (h : c.Checked) : 1 < cfgBase c := by
  unfold cfgBase
  have hd : (0 : ℝ) < c.baseDen := by exact_mod_cast h.den_pos
  have : (1 : ℝ) < (c.baseNum : ℝ) / c.baseDen := by
    rw [one_lt_div hd]; exact_mod_cast h.base_gt
  exact one_lt_pow₀ this (by positivity)

theorem cfgEta_ge {c : Config} (h : c.Checked) : 1 / 2 ≤ cfgEta c := by
  unfold cfgEta
  have : 0 ≤ Real.logb (cfgBase c) ((2 ^ 20 : ℝ) / (2 ^ 20 - 1)) :=
    Real.logb_nonneg (cfgBase_gt h) (by norm_num)
  linarith

theorem cfgRho_ge {c : Config} (h : c.Checked) : 1 ≤ cfgRho c := by
  unfold cfgRho
  exact Real.one_le_rpow (cfgBase_gt h).le (by linarith [cfgEta_ge h])

/-- `logmath_add` with a checked table satisfies the laws of `LaddLaw` on `(zero, 2^31)` -/
theorem laddLaw_of_checked {c : Config} (h : c.Checked) (hz : -2147483648 ≤ c.lm.zero) (hz' : c.lm.zero < 2147483648)
    (sc : Link → Int) :
    LaddLaw { ladd := logAdd c.lm, lz := c.lm.zero, sc := sc } (cfgBase c) (cfgRho c) 2147483648 where
  B_gt := cfgBase_gt h
  rho_ge := cfgRho_ge h
  lz_lt_hi := hz'
  zeroL := fun x y hx => logAdd_zero_left c.lm y hx
  acc := by
    intro x y hx hy hx' hy'
    simp only at hx hy
    have ix : IsInt32 x := ⟨by omega, hx'⟩
    have iy : IsInt32 y := ⟨by omega, hy'⟩
    have hB1 := cfgBase_gt h
    have hB0 : 0 < cfgBase c := by linarith
    have key : |((logAdd c.lm x y : Int) : ℝ) - Real.logb (cfgBase c) (cfgBase c ^ x + cfgBase c ^ y)| ≤ cfgEta c :=
      C19_logAdd_is_rounded_log_of_sum h hx hy ix iy
    obtain ⟨k1, k2⟩ := abs_le.1 key
    set S : ℝ := cfgBase c ^ x + cfgBase c ^ y with hS
    have hSpos : 0 < S := by
      have := zpow_pos hB0 x
      have := zpow_pos hB0 y
      linarith
    have hSlog : cfgBase c ^ Real.logb (cfgBase c) S = S := Real.rpow_logb hB0 hB1.ne' hSpos
    have hz : cfgBase c ^ (logAdd c.lm x y) = cfgBase c ^ ((logAdd c.lm x y : Int) : ℝ) :=
      (Real.rpow_intCast _ _).symm
    show cfgBase c ^ (logAdd c.lm x y) ≤ S * cfgRho c ∧ S ≤ cfgBase c ^ (logAdd c.lm x y) * cfgRho c
    rw [hz]
    unfold cfgRho
    constructor
    · calc cfgBase c ^ ((logAdd c.lm x y : Int) : ℝ)
          ≤ cfgBase c ^ (Real.logb (cfgBase c) S + cfgEta c) :=
            Real.rpow_le_rpow_of_exponent_le hB1.le (by linarith)
        _ = S * cfgBase c ^ cfgEta c := by rw [Real.rpow_add hB0, hSlog]
    · calc S = cfgBase c ^ Real.logb (cfgBase c) S := hSlog.symm
        _ ≤ cfgBase c ^ (((logAdd c.lm x y : Int) : ℝ) + cfgEta c) :=
            Real.rpow_le_rpow_of_exponent_le hB1.le (by linarith)
        _ = cfgBase c ^ ((logAdd c.lm x y : Int) : ℝ) * cfgBase c ^ cfgEta c := Real.rpow_add hB0 _ _

/-- `B^z ≤ ρ^K` means `z ≤ η·K` -/
theorem zpow_le_rho_pow {c : Config} (h : c.Checked) {z : Int} {K : Nat} (hle : cfgBase c ^ z ≤ cfgRho c ^ K) :
    (z : ℝ) ≤ cfgEta c * K := by
  have hB1 := cfgBase_gt h
  have hB0 : 0 < cfgBase c := by linarith
  have e1 : cfgBase c ^ z = cfgBase c ^ ((z : Int) : ℝ) := (Real.rpow_intCast _ _).symm
  have e2 : cfgRho c ^ K = cfgBase c ^ (cfgEta c * K) := by
    unfold cfgRho
    rw [← Real.rpow_natCast, ← Real.rpow_mul hB0.le]
  rw [e1, e2] at hle
  exact (Real.rpow_le_rpow_left_iff hB1).1 hle

/-- `η ≤ 51/100` when a hundred tolerances fit into one unit -/
theorem eta_le {c : Config} (h : c.Checked) (hr : ((2 ^ 20 : ℝ) / (2 ^ 20 - 1)) ^ 100 ≤ cfgBase c) :
    cfgEta c ≤ 51 / 100 := by
  have hB1 := cfgBase_gt h
  unfold cfgEta
  have h1 : Real.logb (cfgBase c) (((2 ^ 20 : ℝ) / (2 ^ 20 - 1)) ^ 100) ≤ Real.logb (cfgBase c) (cfgBase c) :=
    Real.logb_le_logb_of_le hB1 (by positivity) hr
  rw [Real.logb_pow, Real.logb_self_eq_one hB1] at h1
  push_cast at h1
  linarith

/-- the integer form: `B^z ≤ ρ^K` and `η ≤ 51/100` give `100·z ≤ 51·K` -/
theorem int_bound_of_zpow_le {c : Config} (h : c.Checked) (hr : ((2 ^ 20 : ℝ) / (2 ^ 20 - 1)) ^ 100 ≤ cfgBase c)
    {z : Int} {K : Nat} (hle : cfgBase c ^ z ≤ cfgRho c ^ K) : 100 * z ≤ 51 * (K : Int) := by
  have h1 := zpow_le_rho_pow h hle
  have h2 := eta_le h hr
  have hK : (0 : ℝ) ≤ K := Nat.cast_nonneg K
  have : (100 : ℝ) * z ≤ 51 * K := by nlinarith
  exact_mod_cast this

/-- `Close` for a checked configuration, read with real logarithms: `|a − log_B X| ≤ η·e` -/
theorem close_abs_logb {c : Config} (h : c.Checked) {a : Int} {X : ℝ} {e : Nat}
    (hcl : Close (cfgBase c) (cfgRho c) a X e) : |(a : ℝ) - Real.logb (cfgBase c) X| ≤ cfgEta c * e := by
  have hB1 := cfgBase_gt h
  have hB0 : 0 < cfgBase c := by linarith
  have hX := hcl.pos hB0 (cfgRho_ge h)
  have e1 : cfgBase c ^ a = cfgBase c ^ ((a : Int) : ℝ) := (Real.rpow_intCast _ _).symm
  have e2 : cfgRho c ^ e = cfgBase c ^ (cfgEta c * e) := by
    unfold cfgRho
    rw [← Real.rpow_natCast, ← Real.rpow_mul hB0.le]
  have e3 : cfgBase c ^ Real.logb (cfgBase c) X = X := Real.rpow_logb hB0 hB1.ne' hX
  obtain ⟨h1, h2⟩ := hcl
  rw [e1, e2] at h1 h2
  rw [abs_le]
  constructor
  · -- X ≤ B^a ρ^e
    rw [← e3, ← Real.rpow_add hB0] at h2
    have := (Real.rpow_le_rpow_left_iff hB1).1 h2
    linarith
  · nth_rewrite 1 [← e3] at h1
    rw [← Real.rpow_add hB0] at h1
    have := (Real.rpow_le_rpow_left_iff hB1).1 h1
    linarith

end

/-- the decoder's base 1.0001: a hundred tolerances `2^20/(2^20−1)` fit into one unit -/
theorem cfgDec_base : ((2 ^ 20 : ℝ) / (2 ^ 20 - 1)) ^ 100 ≤ cfgBase cfgDec := by
  have e : cfgBase cfgDec = (10001 : ℝ) / 10000 := by
    unfold cfgBase
    have h1 : cfgDec.baseNum = 10001 := rfl
    have h2 : cfgDec.baseDen = 10000 := rfl
    have h3 : cfgDec.shift = 0 := rfl
    rw [h1, h2, h3]; norm_num
  rw [e]
  norm_num

theorem cfgDec_zero : cfgDec.lm.zero = -536870912 := rfl

end SSVerif.Lattice
