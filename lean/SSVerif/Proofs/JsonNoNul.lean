import SSVerif.Proofs.JsonRoundTrip
set_option linter.unusedSimpArgs false
/-! C14 helper lemmas: the compact print of a well-formed value contains no NUL byte -/
namespace SSVerif.Json

/-- no NUL byte -/
def NZ (l : List UInt8) : Prop := ∀ x ∈ l, x ≠ 0

theorem NZ.nil : NZ [] := by intro x hx; simp at hx
theorem NZ.cons {b : UInt8} {t : List UInt8} (hb : b ≠ 0) (ht : NZ t) : NZ (b :: t) := by
  intro x hx
  rcases List.mem_cons.mp hx with h | h
  · rw [h]; exact hb
  · exact ht x h
theorem NZ.append {a b : List UInt8} (ha : NZ a) (hb : NZ b) : NZ (a ++ b) := by
  intro x hx
  rcases List.mem_append.mp hx with h | h
  · exact ha x h
  · exact hb x h

theorem hexDigit_ne_zero : ∀ k : Nat, k < 32 →
    hexDigit (UInt8.ofNat k >>> 4) ≠ 0 ∧ hexDigit (UInt8.ofNat k &&& 15) ≠ 0 := by decide

theorem escByte_nz (b : UInt8) : NZ (escByte b) := by
  unfold escByte
  by_cases h1 : b = 34 ∨ b = 92
  · rw [if_pos h1]
    rcases h1 with h | h <;> subst h <;> exact NZ.cons (by decide) (NZ.cons (by decide) NZ.nil)
  · rw [if_neg h1]
    by_cases h2 : b < 32
    · rw [if_pos h2]
      have hn : b.toNat < 32 := by simpa using (UInt8.lt_iff_toNat_lt.mp h2)
      have hd := hexDigit_ne_zero b.toNat hn
      rw [UInt8.ofNat_toNat] at hd
      exact NZ.cons (by decide) (NZ.cons (by decide) (NZ.cons (by decide) (NZ.cons (by decide)
        (NZ.cons hd.1 (NZ.cons hd.2 NZ.nil)))))
    · rw [if_neg h2]
      exact NZ.cons (fun h0 => h2 (by rw [h0]; decide)) NZ.nil

theorem flatMap_escByte_nz (s : List UInt8) : NZ (s.flatMap escByte) := by
  induction s with
  | nil => exact NZ.nil
  | cons b t ih => rw [List.flatMap_cons]; exact NZ.append (escByte_nz b) ih

theorem printStr_nz (s : List UInt8) : NZ (printStr s) := by
  unfold printStr
  exact NZ.append (NZ.cons (by decide) (flatMap_escByte_nz s)) (NZ.cons (by decide) NZ.nil)

theorem num_nz {raw : List UInt8} (h : isJsonNumber raw = true) : NZ raw := by
  intro x hx h0
  subst h0
  unfold isJsonNumber at h
  simp only [Bool.and_eq_true, List.all_eq_true] at h
  have := h.1 0 hx
  revert this; decide

mutual
theorem noNulV : ∀ (v : JV), wfV v = true → NZ (printV v)
  | .null, _ => by rw [printV]; exact NZ.cons (by decide) (NZ.cons (by decide) (NZ.cons (by decide) (NZ.cons (by decide) NZ.nil)))
  | .bool true, _ => by rw [printV]; exact NZ.cons (by decide) (NZ.cons (by decide) (NZ.cons (by decide) (NZ.cons (by decide) NZ.nil)))
  | .bool false, _ => by
    rw [printV]; exact NZ.cons (by decide) (NZ.cons (by decide) (NZ.cons (by decide) (NZ.cons (by decide) (NZ.cons (by decide) NZ.nil))))
  | .num raw, h => by simp only [wfV] at h; rw [printV]; exact num_nz h
  | .str s, _ => by rw [printV]; exact printStr_nz s
  | .arr l, h => by
    simp only [wfV] at h
    rw [printV]
    exact NZ.append (NZ.cons (by decide) (noNulL l h)) (NZ.cons (by decide) NZ.nil)
  | .obj kvs, h => by
    simp only [wfV] at h
    rw [printV]
    exact NZ.append (NZ.cons (by decide) (noNulM kvs h)) (NZ.cons (by decide) NZ.nil)
theorem noNulL : ∀ (l : List JV), wfL l = true → NZ (printL l)
  | [], _ => by rw [printL]; exact NZ.nil
  | [v], h => by
    have hv : wfV v = true := by simp only [wfL, Bool.and_eq_true] at h; exact h.1
    rw [printL_single]; exact noNulV v hv
  | v :: v' :: t, h => by
    have hv : wfV v = true := by simp only [wfL, Bool.and_eq_true] at h; exact h.1
    have ht : wfL (v' :: t) = true := by rw [wfL] at h; simp only [Bool.and_eq_true] at h; exact h.2
    rw [printL_cons_cons]
    exact NZ.append (noNulV v hv) (NZ.cons (by decide) (noNulL (v' :: t) ht))
theorem noNulM : ∀ (kvs : List (List UInt8 × JV)), wfM kvs = true → NZ (printM kvs)
  | [], _ => by rw [printM]; exact NZ.nil
  | [(k, v)], h => by
    have hv : wfV v = true := by simp only [wfM, Bool.and_eq_true] at h; exact h.1
    rw [printM_single]
    exact NZ.append (printStr_nz k) (NZ.cons (by decide) (noNulV v hv))
  | (k, v) :: kv' :: t, h => by
    have hv : wfV v = true := by simp only [wfM, Bool.and_eq_true] at h; exact h.1
    have ht : wfM (kv' :: t) = true := by rw [wfM] at h; simp only [Bool.and_eq_true] at h; exact h.2
    rw [printM_cons_cons]
    exact NZ.append (NZ.append (printStr_nz k) (NZ.cons (by decide) (noNulV v hv))) (NZ.cons (by decide) (noNulM (kv' :: t) ht))
end

theorem takeWhile_nz (line : List UInt8) (h : NZ line) : (line ++ [0]).takeWhile (· ≠ 0) = line := by
  induction line with
  | nil => simp [List.takeWhile]
  | cons b t ih =>
    have hb : b ≠ 0 := h b (by simp)
    have ht : NZ t := fun x hx => h x (by simp [hx])
    rw [List.cons_append, List.takeWhile_cons]
    simp only [hb, ne_eq, not_false_eq_true, decide_true, if_true]
    rw [ih ht]

end SSVerif.Json
