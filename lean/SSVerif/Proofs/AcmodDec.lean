import SSVerif.Proofs.AcmodBuf
/-!
Decoder-level invariants for C07: what holds between API calls while an utterance is open, and what
holds after `decoder_end_utt`.  Core Lean only.
-/
namespace SSVerif.AcmodBuf
open SSVerif.Generated

/-! ## transfer lemmas -/

theorem FCore.setFe {win c} {s : St} (h : FCore win s c) (mb : List (Option Cep)) (a b : Nat) :
    FCore win { s with mfcBuf := mb, nextId := a, nMfcFrame := b } c :=
  ⟨h.nofault, h.grow, h.cepLen, h.cur, h.fbLen, h.outIdx, h.cnt, h.room, h.feats, h.moved⟩

theorem FCore.setState {win c} {s : St} (h : FCore win s c) (st : UState) : FCore win { s with state := st } c :=
  ⟨h.nofault, h.grow, h.cepLen, h.cur, h.fbLen, h.outIdx, h.cnt, h.room, h.feats, h.moved⟩

theorem MfcInv.setState {c} {s : St} (h : MfcInv s c) (st : UState) : MfcInv { s with state := st } c :=
  ⟨h.len, h.out, h.cnt, h.next, h.frames⟩

theorem FCore.qinv {win c} {s : St} (h : FCore win s c) : QInv s :=
  ⟨h.nofault, h.fbLen, h.outIdx, by have := h.cnt; have := h.room; omega⟩

theorem SearchedOK.keep {s s' : St} {k : Nat} (hk : Keep s s' k) (ho : s.featOutidx = s.outputFrame) (h : SearchedOK s) :
    SearchedOK s' := by
  unfold SearchedOK at *
  rw [hk.searched, hk.outFrame, h]
  apply List.map_congr_left
  intro q hq
  have : q < s.outputFrame := List.mem_range.mp hq
  rw [hk.fbOld q (by omega)]

theorem AlignedOK.keep {s s' : St} {k : Nat} (hk : Keep s s' k) (ho : s.featOutidx = s.outputFrame) (h : AlignedOK s) :
    AlignedOK s' := by
  intro l hl
  rw [hk.aligned] at hl
  obtain ⟨p, hp, e⟩ := h l hl
  refine ⟨p, by rw [hk.outFrame]; exact hp, ?_⟩
  rw [e]
  apply List.map_congr_left
  intro q hq
  have : q < p := List.mem_range.mp hq
  rw [hk.fbOld q (by omega)]

/-! ## the invariant between API calls while the utterance is open -/

structure Open (win : Nat) (s : St) : Prop where
  mfc0 : s.nMfcFrame = 0
  inv : SInv win s ∨ ∃ c, PInv win s c
  srch : SearchedOK s
  algn : AlignedOK s

theorem Open.core {win} {s : St} (h : Open win s) : ∃ c, FCore win s c ∧ MfcInv s c := by
  rcases h.inv with hs | ⟨c, hp⟩
  · exact ⟨0, hs.core, hs.mfc⟩
  · exact ⟨c, hp.core, hp.mfc⟩

/-- `acmod_process_raw` on an open utterance -/
theorem processRaw_open (win : Nat) (skip : Nat → Bool) (s : St) (rs : List FeResp) (h : Open win s)
    (hb : s.cmnFrames + offered rs ≤ cmnWinHwm) (hw : 3 * win + 1 ≤ livebuf) :
    let r := processRaw true win skip s rs
    Open win r.st ∧ r.st.cmnFrames + offered r.rest ≤ s.cmnFrames + offered rs ∧
      (r.rest.length < rs.length ∨ (rs = [] ∧ r.more = false)) := by
  intro r
  rcases h.inv with hs | ⟨c, hp⟩
  · obtain ⟨mb, a, rest, more, e, hm, ha, hlen⟩ := processRaw_fe true win skip s 0 rs hs.mfc h.mfc0
    have hr : r = _ := e
    have hsfe : SInv win { s with mfcBuf := mb, nextId := 0 + a, nMfcFrame := a } :=
      ⟨hs.core.setFe _ _ _, hs.st, hm, hs.out0⟩
    by_cases ha0 : a = 0
    · obtain ⟨p1, p2, p3⟩ := processMfcbuf_start0 win skip _ hsfe (by simp only []; exact ha0)
      rw [hr]
      refine ⟨⟨p2, Or.inl p1, ?_, ?_⟩, ?_, hlen⟩
      · exact SearchedOK.keep p3 hs.core.outIdx h.srch
      · exact AlignedOK.keep p3 hs.core.outIdx h.algn
      · have := p3.cmnHi; simp only [] at this ⊢; omega
    · obtain ⟨p1, p2, p3⟩ := processMfcbuf_start win skip _ hsfe (by simp only []; omega) (by simp only []; omega) hw
      rw [hr]
      refine ⟨⟨p2, Or.inr ⟨_, p1⟩, ?_, ?_⟩, ?_, hlen⟩
      · exact SearchedOK.keep p3 hs.core.outIdx h.srch
      · exact AlignedOK.keep p3 hs.core.outIdx h.algn
      · have := p3.cmnHi; simp only [] at this ⊢; omega
  · obtain ⟨mb, a, rest, more, e, hm, ha, hlen⟩ := processRaw_fe true win skip s c rs hp.mfc h.mfc0
    have hr : r = _ := e
    have hsfe : PInv win { s with mfcBuf := mb, nextId := c + a, nMfcFrame := a } c :=
      ⟨hp.core.setFe _ _ _, hp.live.of_eq rfl rfl rfl, hp.st, hp.c1, hm⟩
    obtain ⟨p1, p2, p3⟩ := processMfcbuf_mid win skip _ c hsfe (by simp only []; omega) hw
    rw [hr]
    refine ⟨⟨p2, Or.inr ⟨_, p1⟩, ?_, ?_⟩, ?_, hlen⟩
    · exact SearchedOK.keep p3 hp.core.outIdx h.srch
    · exact AlignedOK.keep p3 hp.core.outIdx h.algn
    · have := p3.cmnHi; simp only [] at this ⊢; omega

/-- `search_module_forward` on an open utterance -/
theorem search_open (win : Nat) (s : St) (h : Open win s) :
    Open win (searchForward s) ∧ (searchForward s).cmnFrames = s.cmnFrames := by
  obtain ⟨c, hc, _⟩ := h.core
  have e := searchForward_spec s hc.qinv h.srch
  have hcnt := hc.cnt
  have hsrch : SearchedOK (searchForward s) := by
    rw [e]; unfold SearchedOK; rfl
  have halgn : AlignedOK (searchForward s) := by
    rw [e]
    intro l hl
    obtain ⟨p, hp, el⟩ := h.algn l hl
    exact ⟨p, by simp only []; omega, el⟩
  have hcore : ∀ c', FCore win s c' → FCore win (searchForward s) c' := by
    intro c' hc'
    rw [e]
    exact ⟨hc'.nofault, hc'.grow, hc'.cepLen, hc'.cur, hc'.fbLen, by simp only []; rw [hc'.outIdx],
      by have := hc'.cnt; simp only []; omega, hc'.room, hc'.feats, hc'.moved⟩
  have hmfc : ∀ c', MfcInv s c' → MfcInv (searchForward s) c' := by
    intro c' hm; rw [e]; exact ⟨hm.len, hm.out, hm.cnt, hm.next, hm.frames⟩
  refine ⟨⟨by rw [e]; exact h.mfc0, ?_, hsrch, halgn⟩, by rw [e]⟩
  rcases h.inv with hs | ⟨c1, hp⟩
  · exact Or.inl ⟨hcore 0 hs.core, by rw [e]; exact hs.st, hmfc 0 hs.mfc, by rw [e]; exact hs.out0⟩
  · exact Or.inr ⟨c1, hcore c1 hp.core, (hp.live.of_eq (by rw [e]) (by rw [e]) (by rw [e])), by rw [e]; exact hp.st,
      hp.c1, hmfc c1 hp.mfc⟩

theorem decLoop_open (win : Nat) (skip : Nat → Bool) (ns : Bool) (hw : 3 * win + 1 ≤ livebuf) :
    ∀ (fuel : Nat) (s : St) (rs : List FeResp), Open win s → s.cmnFrames + offered rs ≤ cmnWinHwm → rs.length < fuel →
    Open win (decLoop true win skip ns fuel s rs) ∧
      (decLoop true win skip ns fuel s rs).cmnFrames ≤ s.cmnFrames + offered rs := by
  intro fuel
  induction fuel with
  | zero => intro s rs _ _ hf; omega
  | succ fuel ih =>
    intro s rs h hb hf
    obtain ⟨p1, p2, p3⟩ := processRaw_open win skip s rs h hb hw
    -- the state after the optional search
    have hs' : Open win (if ns then (processRaw true win skip s rs).st else searchForward (processRaw true win skip s rs).st) ∧
        (if ns then (processRaw true win skip s rs).st else searchForward (processRaw true win skip s rs).st).cmnFrames =
          (processRaw true win skip s rs).st.cmnFrames := by
      cases ns with
      | true => exact ⟨p1, rfl⟩
      | false => exact search_open win _ p1
    simp only [decLoop]
    by_cases hmore : (processRaw true win skip s rs).more = true
    · rw [if_pos hmore]
      have hlen : (processRaw true win skip s rs).rest.length < fuel := by
        rcases p3 with h1 | ⟨_, h2⟩
        · omega
        · rw [h2] at hmore; exact absurd hmore (by decide)
      obtain ⟨i1, i2⟩ := ih _ (processRaw true win skip s rs).rest hs'.1 (by rw [hs'.2]; omega) hlen
      exact ⟨i1, by rw [hs'.2] at i2; omega⟩
    · rw [if_neg hmore]
      exact ⟨hs'.1, by rw [hs'.2]; omega⟩

/-! ## extending `feat_buf` (`acmod_set_grow`) -/

theorem St.setGrow_self (x : St) (h : x.growFeat = true) : { x with growFeat := true } = x := by
  cases x; simp_all

theorem Open.ext {win} {s s' : St} (h : Open win s) (hext : FbExt s s') : Open win s' := by
  obtain ⟨fb, a, e, hl, hle, hg⟩ := hext
  have hcore : ∀ c, FCore win s c → FCore win s' c := by
    intro c hc
    rw [e]
    refine ⟨hc.nofault, hc.grow, hc.cepLen, hc.cur, hl, hc.outIdx, hc.cnt, by have := hc.room; simp only []; omega, ?_, hc.moved⟩
    intro k hk
    simp only []
    rw [hg k (by have := hc.room; have := hc.fbLen; omega)]
    exact hc.feats k hk
  have hmfc : ∀ c, MfcInv s c → MfcInv s' c := by
    intro c hm; rw [e]; exact ⟨hm.len, hm.out, hm.cnt, hm.next, hm.frames⟩
  obtain ⟨c0, hc0, _⟩ := h.core
  have hlen : s.outputFrame < s.featBuf.length := by have := hc0.room; have := hc0.fbLen; have := hc0.cnt; omega
  refine ⟨by rw [e]; exact h.mfc0, ?_, ?_, ?_⟩
  · rcases h.inv with hs | ⟨c1, hp⟩
    · exact Or.inl ⟨hcore 0 hs.core, by rw [e]; exact hs.st, hmfc 0 hs.mfc, by rw [e]; exact hs.out0⟩
    · exact Or.inr ⟨c1, hcore c1 hp.core, hp.live.of_eq (by rw [e]) (by rw [e]) (by rw [e]), by rw [e]; exact hp.st,
        hp.c1, hmfc c1 hp.mfc⟩
  · have := h.srch
    unfold SearchedOK at *
    rw [e]; simp only []
    rw [this]
    apply List.map_congr_left
    intro q hq
    have : q < s.outputFrame := List.mem_range.mp hq
    rw [hg q (by omega)]
  · intro l hl'
    rw [e] at hl'
    obtain ⟨p, hp, el⟩ := h.algn l hl'
    refine ⟨p, by rw [e]; exact hp, ?_⟩
    rw [el, e]
    apply List.map_congr_left
    intro q hq
    have : q < p := List.mem_range.mp hq
    simp only []
    rw [hg q (by omega)]

theorem setGrow_open {win} {s : St} (h : Open win s) : Open win (setGrow s true) ∧ (setGrow s true).cmnFrames = s.cmnFrames := by
  obtain ⟨c, hc, _⟩ := h.core
  have hself := St.setGrow_self s hc.grow
  by_cases hlt : s.nFeatAlloc < growMin
  · have e : setGrow s true = growFeatBuf s growMin := by
      unfold setGrow; simp only [Bool.true_and, hself, hlt, decide_true, if_true]
    rw [e]
    exact ⟨h.ext (growFeatBuf_ext s growMin hc.fbLen (by omega)), rfl⟩
  · have e : setGrow s true = s := by
      unfold setGrow; simp only [Bool.true_and, hself, hlt, decide_false, if_false, Bool.false_eq_true]
    rw [e]
    exact ⟨h, rfl⟩

theorem Open.state {win} {s : St} (h : Open win s) : s.state = .started ∨ s.state = .processing := by
  rcases h.inv with hs | ⟨_, hp⟩
  · exact Or.inl hs.st
  · exact Or.inr hp.st

/-- `decoder_process_int16/float32` on an open utterance -/
theorem decProcess_open (win : Nat) (skip : Nat → Bool) (s : St) (ns : Bool) (rs : List FeResp) (h : Open win s)
    (hb : s.cmnFrames + offered rs ≤ cmnWinHwm) (hw : 3 * win + 1 ≤ livebuf) :
    Open win (decProcess true win skip s ns rs) ∧ (decProcess true win skip s ns rs).cmnFrames ≤ s.cmnFrames + offered rs := by
  have hst : ¬ s.state = .idle := by
    rcases h.state with e | e <;> rw [e] <;> decide
  have hg : Open win (if ns then setGrow s true else s) ∧ (if ns then setGrow s true else s).cmnFrames = s.cmnFrames := by
    cases ns with
    | true => exact setGrow_open h
    | false => exact ⟨h, rfl⟩
  unfold decProcess
  rw [if_neg hst]
  simp only []
  by_cases he : rs.isEmpty = true
  · rw [if_pos he]
    exact ⟨hg.1, by rw [hg.2]; omega⟩
  · rw [if_neg he]
    obtain ⟨i1, i2⟩ := decLoop_open win skip ns hw (rs.length + 1) _ rs hg.1 (by rw [hg.2]; exact hb) (by omega)
    exact ⟨i1, by rw [hg.2] at i2; exact i2⟩

/-- frames offered by the processing calls of an op list -/
def offeredOps : List Op → Nat
  | [] => 0
  | .process _ rs :: ops => offered rs + offeredOps ops
  | _ :: ops => offeredOps ops

theorem align_open {win} {s : St} (h : Open win s) (upto : Nat) :
    Open win (alignPass s upto) ∧ (alignPass s upto).cmnFrames = s.cmnFrames := by
  obtain ⟨c, hc, _⟩ := h.core
  have e := alignPass_spec s upto hc.qinv
  have hcore : ∀ c', FCore win s c' → FCore win (alignPass s upto) c' := by
    intro c' hc'; rw [e]
    exact ⟨hc'.nofault, hc'.grow, hc'.cepLen, hc'.cur, hc'.fbLen, hc'.outIdx, hc'.cnt, hc'.room, hc'.feats, hc'.moved⟩
  have hmfc : ∀ c', MfcInv s c' → MfcInv (alignPass s upto) c' := by
    intro c' hm; rw [e]; exact ⟨hm.len, hm.out, hm.cnt, hm.next, hm.frames⟩
  refine ⟨⟨by rw [e]; exact h.mfc0, ?_, ?_, ?_⟩, by rw [e]⟩
  · rcases h.inv with hs | ⟨c1, hp⟩
    · exact Or.inl ⟨hcore 0 hs.core, by rw [e]; exact hs.st, hmfc 0 hs.mfc, by rw [e]; exact hs.out0⟩
    · exact Or.inr ⟨c1, hcore c1 hp.core, hp.live.of_eq (by rw [e]) (by rw [e]) (by rw [e]), by rw [e]; exact hp.st,
        hp.c1, hmfc c1 hp.mfc⟩
  · have := h.srch; unfold SearchedOK at *; rw [e]; exact this
  · intro l hl
    rw [e] at hl
    simp only [List.mem_append, List.mem_singleton] at hl
    rcases hl with hl | hl
    · obtain ⟨p, hp, el⟩ := h.algn l hl
      exact ⟨p, by rw [e]; exact hp, by rw [el, e]⟩
    · exact ⟨min upto s.outputFrame, by rw [e]; exact Nat.min_le_right _ _, by rw [hl, e]⟩

theorem step_open (win : Nat) (skip : Nat → Bool) (s : St) (op : Op) (h : Open win s) (hnf : op.isFull = false)
    (hb : s.cmnFrames + offeredOps [op] ≤ cmnWinHwm) (hw : 3 * win + 1 ≤ livebuf) :
    Open win (step true win skip s op) ∧ (step true win skip s op).cmnFrames ≤ s.cmnFrames + offeredOps [op] := by
  cases op with
  | process ns rs =>
    have hst : ¬ s.state = .ended := by
      rcases h.state with e | e <;> rw [e] <;> decide
    simp only [step, hst, if_false]
    simp only [offeredOps, Nat.add_zero] at hb ⊢
    exact decProcess_open win skip s ns rs h hb hw
  | processFull ns rs => simp [Op.isFull] at hnf
  | query => exact ⟨h, by simp [step]⟩
  | align steps =>
    cases steps with
    | none => exact ⟨h, by simp [step]⟩
    | some upto =>
      obtain ⟨a1, a2⟩ := align_open h upto
      exact ⟨a1, by simp only [step]; rw [a2]; omega⟩

theorem offeredOps_cons (op : Op) (ops : List Op) : offeredOps (op :: ops) = offeredOps [op] + offeredOps ops := by
  cases op <;> simp [offeredOps]

theorem runOps_open (win : Nat) (skip : Nat → Bool) (hw : 3 * win + 1 ≤ livebuf) :
    ∀ (ops : List Op) (s : St), Open win s → (∀ op, op ∈ ops → op.isFull = false) →
    s.cmnFrames + offeredOps ops ≤ cmnWinHwm →
    Open win (runOps true win skip s ops) ∧ (runOps true win skip s ops).cmnFrames ≤ s.cmnFrames + offeredOps ops := by
  intro ops
  induction ops with
  | nil => intro s h _ _; exact ⟨h, by simp [runOps, offeredOps]⟩
  | cons op ops ih =>
    intro s h hnf hb
    rw [offeredOps_cons] at hb ⊢
    obtain ⟨s1, s2⟩ := step_open win skip s op h (hnf op (List.mem_cons_self ..)) (by omega) hw
    obtain ⟨i1, i2⟩ := ih _ s1 (fun op' hm => hnf op' (List.mem_cons_of_mem _ hm)) (by omega)
    simp only [runOps, List.foldl_cons] at i1 i2 ⊢
    exact ⟨i1, by omega⟩

/-! ## `decoder_end_utt` -/

/-- the invariant after `decoder_end_utt`: `M = nextId` frames, all searched -/
structure Closed (win : Nat) (s : St) : Prop where
  core : EndCore win s s.nextId
  nff : s.nFeatFrame = 0
  st : s.state = .ended
  srch : SearchedOK s
  algn : AlignedOK s

/-- `fe_end` on an empty ring -/
theorem endFe_spec (s : St) (c : Nat) (tail : Bool) (hm : MfcInv s c) (h0 : s.nMfcFrame = 0) :
    ∃ mb, endFe s tail = ({ s with mfcBuf := mb, nextId := c + (if tail then 1 else 0), nMfcFrame := if tail then 1 else 0 },
        if tail then 1 else 0) ∧
      MfcInv { s with mfcBuf := mb, nextId := c + (if tail then 1 else 0), nMfcFrame := if tail then 1 else 0 } c := by
  have ho := hm.out
  have hnext := hm.next
  have hk : min (if tail then 1 else 0) (s.nMfcAlloc - (s.mfcOutidx + 0) % s.nMfcAlloc) = if tail then 1 else 0 := by
    rw [Nat.add_zero, Nat.mod_eq_of_lt ho]; cases tail <;> simp <;> omega
  obtain ⟨mb, e, hm'⟩ := hm.feWrite (if tail then 1 else 0) ((s.mfcOutidx + 0) % s.nMfcAlloc) (by rw [h0])
    (by rw [Nat.add_zero, Nat.mod_eq_of_lt ho]; cases tail <;> simp <;> omega)
    (by rw [h0]; cases tail <;> simp <;> omega)
  rw [h0, Nat.zero_add] at e hm'
  rw [h0, Nat.add_zero] at hnext
  rw [hnext] at e hm'
  refine ⟨mb, ?_, hm'⟩
  have hlt : (0 : Nat) < s.nMfcAlloc := by omega
  simp only [endFe, h0, hlt, if_true, hk]
  rw [e]

/-- the search of the remaining frames after the flush -/
theorem closed_of_end {win} {s : St} (hc : EndCore win s s.nextId) (hst : s.state = .ended) (hs : SearchedOK s)
    (ha : AlignedOK s) : Closed win (searchForward s) := by
  have hq : QInv s := ⟨hc.nofault, hc.fbLen, hc.outIdx, by have := hc.cnt; have := hc.room; omega⟩
  have e := searchForward_spec s hq hs
  have hcnt := hc.cnt
  rw [e]
  refine ⟨⟨hc.nofault, hc.grow, hc.fbLen, by simp only []; rw [hc.outIdx], by simp only []; omega, hc.room, hc.feats⟩,
    rfl, hst, ?_, ?_⟩
  · unfold SearchedOK; rfl
  · intro l hl
    obtain ⟨p, hp, el⟩ := ha l hl
    exact ⟨p, by simp only []; omega, el⟩

theorem acmodEndUtt_closed (win : Nat) (skip : Nat → Bool) (s : St) (tail : Bool) (h : Open win s)
    (hfe : tail = true ∨ s.nextId = 0) (hb : s.cmnFrames + (if tail then 1 else 0) ≤ cmnWinHwm)
    (hw : 3 * win + 2 ≤ livebuf) :
    let s' := acmodEndUtt true win skip s tail
    EndCore win s' s'.nextId ∧ s'.state = .ended ∧ SearchedOK s' ∧ AlignedOK s' ∧
      s'.nextId = s.nextId + (if tail then 1 else 0) := by
  intro s'
  rcases h.inv with hs | ⟨c, hp⟩
  · -- no frame consumed so far
    have hws : decide (s.state = UState.started) = true := by simp [hs.st]
    obtain ⟨mb, e, hm⟩ := endFe_spec { s with state := .ended } 0 tail (hs.mfc.setState _) h.mfc0
    cases tail with
    | false =>
      have hs' : s' = { s with state := .ended, mfcBuf := mb, nextId := 0, nMfcFrame := 0 } := by
        simp only [s', acmodEndUtt, e]
        simp
      have hc := hs.core
      have hcnt := hc.cnt
      have hroom := hc.room
      rw [hs']
      refine ⟨⟨hc.nofault, hc.grow, hc.fbLen, hc.outIdx, by simp only []; omega, by simp only []; omega, ?_⟩, rfl, ?_, ?_, ?_⟩
      · intro k hk; simp only [] at hk; omega
      · have := h.srch; unfold SearchedOK at *; exact this
      · exact h.algn
      · have := hs.mfc.next; have := h.mfc0
        simp only [Bool.false_eq_true, if_false]; omega
    | true =>
      simp only [if_true] at e hm hb
      -- the frame is first consumed as the start of the utterance …
      have hsi : SInv win { s with state := .started, mfcBuf := mb, nextId := 0 + 1, nMfcFrame := 1 } :=
        ⟨(hs.core.setFe mb (0 + 1) 1).setState _, rfl, ⟨hm.len, hm.out, hm.cnt, hm.next, hm.frames⟩, hs.out0⟩
      obtain ⟨p1, p2, p3⟩ := processMfcbuf_start win skip _ hsi (by simp) (by simp only []; omega) (by omega)
      generalize hA : processMfcbuf true win skip { s with state := .started, mfcBuf := mb, nextId := 0 + 1, nMfcFrame := 1 } = A
        at p1 p2 p3
      -- … then the end padding is flushed
      obtain ⟨B, hB⟩ : ∃ B : St, B = { A.st with state := .ended } := ⟨_, rfl⟩
      have hBn : B.nMfcFrame = 0 := by rw [hB]; exact p2
      have hBc : FCore win B 1 := by rw [hB]; exact p1.core.setState _
      have hBl : LiveInv win B 1 := by rw [hB]; exact p1.live.of_eq rfl rfl rfl
      have hBm : MfcInv B 1 := by rw [hB]; exact p1.mfc.setState _
      have hBs : B.state = .ended := by rw [hB]
      have hBk := p3.cmnHi
      have hBcf : B.cmnFrames = A.st.cmnFrames := by rw [hB]
      simp only [] at hBk
      obtain ⟨q1, q2, q3, q4, q5⟩ := processMfcbuf_end win skip B 1 hBc hBl (Nat.le_refl _) hBs hBm
        (by rw [hBn]; have := hBm.out; omega) (by rw [hBn, hBcf]; omega) (by rw [hBn]; omega)
      rw [hBn] at q1 q5
      have hs' : s' = (processMfcbuf true win skip B).st := by
        simp only [s', acmodEndUtt, e, hws, Bool.true_and, if_true, endHead]
        rw [if_pos (by decide), hB, ← hA]
      rw [hs']
      have hsrA : SearchedOK A.st := SearchedOK.keep p3 hs.core.outIdx h.srch
      have halA : AlignedOK A.st := AlignedOK.keep p3 hs.core.outIdx h.algn
      have hsrB : SearchedOK B := by rw [hB]; exact hsrA
      have halB : AlignedOK B := by rw [hB]; exact halA
      refine ⟨by rw [q5]; exact q1, q4, ?_, ?_, ?_⟩
      · exact SearchedOK.keep q3 hBc.outIdx hsrB
      · exact AlignedOK.keep q3 hBc.outIdx halB
      · have := hs.mfc.next; have := h.mfc0
        rw [q5]; simp only [if_true]; omega
  · -- at least one frame consumed: the front end has a pending frame
    have hc1 := hp.c1
    have hnext := hp.mfc.next
    have htail : tail = true := by
      rcases hfe with h1 | h1
      · exact h1
      · have := h.mfc0; omega
    subst htail
    have hws : decide (s.state = UState.started) = false := by simp [hp.st]
    obtain ⟨mb, e, hm⟩ := endFe_spec { s with state := .ended } c true (hp.mfc.setState _) h.mfc0
    simp only [if_true] at e hm hb
    obtain ⟨q1, q2, q3, q4, q5⟩ := processMfcbuf_end win skip
      { s with state := .ended, mfcBuf := mb, nextId := c + 1, nMfcFrame := 1 } c
      ((hp.core.setFe mb (c + 1) 1).setState _) (hp.live.of_eq rfl rfl rfl) hc1 rfl
      ⟨hm.len, hm.out, hm.cnt, hm.next, hm.frames⟩ (by have := hm.out; simp only [] at this ⊢; omega)
      (by simp only []; omega) (by simp only []; omega)
    simp only [] at q1 q2 q3 q4 q5
    have hs' : s' = (processMfcbuf true win skip { s with state := .ended, mfcBuf := mb, nextId := c + 1, nMfcFrame := 1 }).st := by
      simp only [s', acmodEndUtt, e, hws, Bool.and_false, if_false, Bool.false_eq_true]
      rw [if_pos (by decide)]
    rw [hs']
    refine ⟨by rw [q5]; exact q1, q4, ?_, ?_, ?_⟩
    · exact SearchedOK.keep q3 hp.core.outIdx h.srch
    · exact AlignedOK.keep q3 hp.core.outIdx h.algn
    · have := h.mfc0
      rw [q5]; simp only [if_true]; omega

theorem decEnd_closed (win : Nat) (skip : Nat → Bool) (s : St) (tail : Bool) (h : Open win s)
    (hfe : tail = true ∨ s.nextId = 0) (hb : s.cmnFrames + (if tail then 1 else 0) ≤ cmnWinHwm)
    (hw : 3 * win + 2 ≤ livebuf) : Closed win (decEnd true win skip s tail) := by
  have hst : ¬ (s.state = .ended ∨ s.state = .idle) := by
    rcases h.state with e | e <;> rw [e] <;> decide
  obtain ⟨a1, a2, a3, a4, _⟩ := acmodEndUtt_closed win skip s tail h hfe hb hw
  unfold decEnd
  rw [if_neg hst]
  exact closed_of_end a1 a2 a3 a4

/-- `decoder_end_utt` numbers exactly the frame `fe_end` returns -/
theorem decEnd_nextId (win : Nat) (skip : Nat → Bool) (s : St) (tail : Bool) (h : Open win s)
    (hfe : tail = true ∨ s.nextId = 0) (hb : s.cmnFrames + (if tail then 1 else 0) ≤ cmnWinHwm)
    (hw : 3 * win + 2 ≤ livebuf) : (decEnd true win skip s tail).nextId = s.nextId + (if tail then 1 else 0) := by
  have hst : ¬ (s.state = .ended ∨ s.state = .idle) := by
    rcases h.state with e | e <;> rw [e] <;> decide
  obtain ⟨a1, a2, a3, a4, a5⟩ := acmodEndUtt_closed win skip s tail h hfe hb hw
  have hq : QInv (acmodEndUtt true win skip s tail) :=
    ⟨a1.nofault, a1.fbLen, a1.outIdx, by have := a1.cnt; have := a1.room; omega⟩
  unfold decEnd
  rw [if_neg hst, searchForward_spec _ hq a3]
  exact a5

theorem Closed.qinv {win} {s : St} (h : Closed win s) : QInv s :=
  ⟨h.core.nofault, h.core.fbLen, h.core.outIdx, by have := h.core.cnt; have := h.core.room; omega⟩

theorem Closed.align {win} {s : St} (h : Closed win s) (upto : Nat) : Closed win (alignPass s upto) := by
  have e := alignPass_spec s upto h.qinv
  have hc := h.core
  rw [e]
  refine ⟨⟨hc.nofault, hc.grow, hc.fbLen, hc.outIdx, hc.cnt, hc.room, hc.feats⟩, h.nff, h.st, ?_, ?_⟩
  · have := h.srch; unfold SearchedOK at *; exact this
  · intro l hl
    simp only [List.mem_append, List.mem_singleton] at hl
    rcases hl with hl | hl
    · exact h.algn l hl
    · exact ⟨min upto s.outputFrame, Nat.min_le_right _ _, hl⟩

theorem runOps_closed (win : Nat) (skip : Nat → Bool) : ∀ (post : List Op) (s : St), Closed win s →
    (∀ op, op ∈ post → op.isProcess = false) → Closed win (runOps true win skip s post) := by
  intro post
  induction post with
  | nil => intro s h _; exact h
  | cons op post ih =>
    intro s h hp
    have hop := hp op (List.mem_cons_self ..)
    have hs : Closed win (step true win skip s op) := by
      cases op with
      | process ns rs => simp [Op.isProcess] at hop
      | processFull ns rs => simp [Op.isProcess] at hop
      | query => exact h
      | align steps =>
        cases steps with
        | none => exact h
        | some upto => exact h.align upto
    simp only [runOps, List.foldl_cons]
    exact ih _ hs (fun op' hm => hp op' (List.mem_cons_of_mem _ hm))

/-- what the canonical-content facts give for the observation logs of a closed utterance -/
theorem Closed.searched_eq {win} {s : St} (h : Closed win s) :
    s.searched = (List.range s.nextId).map fun k => (k, some (canon win s.nextId k)) := by
  have hcnt := h.core.cnt
  have hn := h.nff
  have : s.outputFrame = s.nextId := by omega
  rw [h.srch, this]
  apply List.map_congr_left
  intro k hk
  rw [h.core.feats k (List.mem_range.mp hk)]

theorem Closed.aligned_eq {win} {s : St} (h : Closed win s) :
    ∀ l, l ∈ s.aligned → ∃ p, p ≤ s.nextId ∧ l = (List.range p).map fun k => (k, some (canon win s.nextId k)) := by
  intro l hl
  have hcnt := h.core.cnt
  have hn := h.nff
  obtain ⟨p, hp, e⟩ := h.algn l hl
  refine ⟨p, by omega, ?_⟩
  rw [e]
  apply List.map_congr_left
  intro k hk
  have : k < p := List.mem_range.mp hk
  rw [h.core.feats k (by omega)]

/-! ## monotonicity of the search log (exported for the composed frame-accounting theorem of C03) -/

/-- on an open utterance the search log has one entry per output frame -/
theorem Open.searched_len {win} {s : St} (h : Open win s) : s.searched.length = s.outputFrame := by
  rw [h.srch]; simp

theorem Closed.searched_len {win} {s : St} (h : Closed win s) : s.searched.length = s.outputFrame := by
  rw [h.srch]; simp

/-- `acmod_process_raw` does not move the output frame -/
theorem processRaw_outFrame (win : Nat) (skip : Nat → Bool) (s : St) (rs : List FeResp) (h : Open win s)
    (hb : s.cmnFrames + offered rs ≤ cmnWinHwm) (hw : 3 * win + 1 ≤ livebuf) :
    (processRaw true win skip s rs).st.outputFrame = s.outputFrame := by
  rcases h.inv with hs | ⟨c, hp⟩
  · obtain ⟨mb, a, rest, more, e, hm, ha, hlen⟩ := processRaw_fe true win skip s 0 rs hs.mfc h.mfc0
    have hsfe : SInv win { s with mfcBuf := mb, nextId := 0 + a, nMfcFrame := a } :=
      ⟨hs.core.setFe _ _ _, hs.st, hm, hs.out0⟩
    rw [e]
    by_cases ha0 : a = 0
    · exact (processMfcbuf_start0 win skip _ hsfe (by simp only []; exact ha0)).2.2.outFrame
    · exact (processMfcbuf_start win skip _ hsfe (by simp only []; omega) (by simp only []; omega) hw).2.2.outFrame
  · obtain ⟨mb, a, rest, more, e, hm, ha, hlen⟩ := processRaw_fe true win skip s c rs hp.mfc h.mfc0
    have hsfe : PInv win { s with mfcBuf := mb, nextId := c + a, nMfcFrame := a } c :=
      ⟨hp.core.setFe _ _ _, hp.live.of_eq rfl rfl rfl, hp.st, hp.c1, hm⟩
    rw [e]
    exact (processMfcbuf_mid win skip _ c hsfe (by simp only []; omega) hw).2.2.outFrame

theorem searchForward_outFrame (win : Nat) (s : St) (h : Open win s) : s.outputFrame ≤ (searchForward s).outputFrame := by
  obtain ⟨c, hc, _⟩ := h.core
  rw [searchForward_spec s hc.qinv h.srch]
  exact Nat.le_add_right _ _

theorem decLoop_outFrame (win : Nat) (skip : Nat → Bool) (ns : Bool) (hw : 3 * win + 1 ≤ livebuf) :
    ∀ (fuel : Nat) (s : St) (rs : List FeResp), Open win s → s.cmnFrames + offered rs ≤ cmnWinHwm → rs.length < fuel →
    s.outputFrame ≤ (decLoop true win skip ns fuel s rs).outputFrame := by
  intro fuel
  induction fuel with
  | zero => intro s rs _ _ hf; omega
  | succ fuel ih =>
    intro s rs h hb hf
    obtain ⟨p1, p2, p3⟩ := processRaw_open win skip s rs h hb hw
    have p4 := processRaw_outFrame win skip s rs h hb hw
    have hs' : Open win (if ns then (processRaw true win skip s rs).st else searchForward (processRaw true win skip s rs).st) ∧
        (if ns then (processRaw true win skip s rs).st else searchForward (processRaw true win skip s rs).st).cmnFrames =
          (processRaw true win skip s rs).st.cmnFrames ∧
        s.outputFrame ≤ (if ns then (processRaw true win skip s rs).st else searchForward (processRaw true win skip s rs).st).outputFrame := by
      cases ns with
      | true => exact ⟨p1, rfl, by simp only [if_true]; omega⟩
      | false =>
        have := search_open win _ p1
        have hmono := searchForward_outFrame win _ p1
        exact ⟨this.1, this.2, by simp only [Bool.false_eq_true, if_false]; omega⟩
    simp only [decLoop]
    by_cases hmore : (processRaw true win skip s rs).more = true
    · rw [if_pos hmore]
      have hlen : (processRaw true win skip s rs).rest.length < fuel := by
        rcases p3 with h1 | ⟨_, h2⟩
        · omega
        · rw [h2] at hmore; exact absurd hmore (by decide)
      have := ih _ (processRaw true win skip s rs).rest hs'.1 (by rw [hs'.2.1]; omega) hlen
      omega
    · rw [if_neg hmore]
      exact hs'.2.2

/-- the output frame (= number of search steps so far) never decreases across an API call on an open utterance -/
theorem step_outFrame_mono (win : Nat) (skip : Nat → Bool) (s : St) (op : Op) (h : Open win s) (hnf : op.isFull = false)
    (hb : s.cmnFrames + offeredOps [op] ≤ cmnWinHwm) (hw : 3 * win + 1 ≤ livebuf) :
    s.outputFrame ≤ (step true win skip s op).outputFrame := by
  cases op with
  | process ns rs =>
    have hst : ¬ s.state = .ended := by
      rcases h.state with e | e <;> rw [e] <;> decide
    have hni : ¬ s.state = .idle := by
      rcases h.state with e | e <;> rw [e] <;> decide
    simp only [offeredOps, Nat.add_zero] at hb
    simp only [step, hst, if_false, decProcess, hni]
    have hg : Open win (if ns then setGrow s true else s) ∧ (if ns then setGrow s true else s).cmnFrames = s.cmnFrames ∧
        (if ns then setGrow s true else s).outputFrame = s.outputFrame := by
      cases ns with
      | true =>
        have := setGrow_open h
        refine ⟨this.1, this.2, ?_⟩
        simp only [if_true, setGrow, Bool.true_and]
        split <;> rfl
      | false => exact ⟨h, rfl, rfl⟩
    by_cases he : rs.isEmpty = true
    · rw [if_pos he, hg.2.2]; exact Nat.le_refl _
    · rw [if_neg he]
      have := decLoop_outFrame win skip ns hw (rs.length + 1) _ rs hg.1 (by rw [hg.2.1]; exact hb) (by omega)
      omega
  | processFull ns rs => simp [Op.isFull] at hnf
  | query => exact Nat.le_refl _
  | align steps =>
    cases steps with
    | none => exact Nat.le_refl _
    | some upto =>
      obtain ⟨c, hc, _⟩ := h.core
      simp only [step]
      rw [alignPass_spec s upto hc.qinv]
      exact Nat.le_refl _

/-- the number of first-pass search steps logged never decreases across an API call: the return value of
    `decoder_process_*` can be read off as the difference of the log lengths -/
theorem step_searched_mono (win : Nat) (skip : Nat → Bool) (s : St) (op : Op) (h : Open win s) (hnf : op.isFull = false)
    (hb : s.cmnFrames + offeredOps [op] ≤ cmnWinHwm) (hw : 3 * win + 1 ≤ livebuf) :
    s.searched.length ≤ (step true win skip s op).searched.length := by
  rw [h.searched_len, (step_open win skip s op h hnf hb hw).1.searched_len]
  exact step_outFrame_mono win skip s op h hnf hb hw

theorem decEnd_outFrame_mono (win : Nat) (skip : Nat → Bool) (s : St) (tail : Bool) (h : Open win s)
    (hfe : tail = true ∨ s.nextId = 0) (hb : s.cmnFrames + (if tail then 1 else 0) ≤ cmnWinHwm)
    (hw : 3 * win + 2 ≤ livebuf) : s.outputFrame ≤ (decEnd true win skip s tail).outputFrame := by
  have hcl := decEnd_closed win skip s tail h hfe hb hw
  -- after the end every delivered frame has been searched; before it at most `nextId - win` of them
  have h1 := hcl.core.cnt
  have h2 := hcl.nff
  obtain ⟨c, hc, hm⟩ := h.core
  have h3 := hc.cnt
  have h4 := hm.next
  have h5 := h.mfc0
  -- `nextId` does not decrease across `decoder_end_utt`
  have hnext : s.nextId ≤ (decEnd true win skip s tail).nextId := by
    have hst : ¬ (s.state = .ended ∨ s.state = .idle) := by
      rcases h.state with e | e <;> rw [e] <;> decide
    obtain ⟨a1, a2, a3, a4, _⟩ := acmodEndUtt_closed win skip s tail h hfe hb hw
    have hq : QInv (acmodEndUtt true win skip s tail) :=
      ⟨a1.nofault, a1.fbLen, a1.outIdx, by have := a1.cnt; have := a1.room; omega⟩
    have e := searchForward_spec _ hq a3
    have hN : (decEnd true win skip s tail).nextId = (acmodEndUtt true win skip s tail).nextId := by
      unfold decEnd; rw [if_neg hst, e]
    rw [hN]
    rcases h.inv with hs | ⟨c', hp⟩
    · have := hs.mfc.next; omega
    · -- PROCESSING: the tail frame is added
      have hc1 := hp.c1
      have hn' := hp.mfc.next
      have htail : tail = true := by
        rcases hfe with h1 | h1
        · exact h1
        · omega
      subst htail
      have hb1 : s.cmnFrames + 1 ≤ cmnWinHwm := by simpa using hb
      obtain ⟨mb, ee, hmm⟩ := endFe_spec { s with state := .ended } c' true (hp.mfc.setState _) h.mfc0
      simp only [if_true] at ee hmm
      obtain ⟨q1, q2, q3, q4, q5⟩ := processMfcbuf_end win skip
        { s with state := .ended, mfcBuf := mb, nextId := c' + 1, nMfcFrame := 1 } c'
        ((hp.core.setFe mb (c' + 1) 1).setState _) (hp.live.of_eq rfl rfl rfl) hc1 rfl
        ⟨hmm.len, hmm.out, hmm.cnt, hmm.next, hmm.frames⟩ (by have := hmm.out; simp only [] at this ⊢; omega)
        (by simp only []; omega) (by simp only []; omega)
      simp only [] at q5
      have hws : decide (s.state = UState.started) = false := by simp [hp.st]
      have hs' : acmodEndUtt true win skip s true =
          (processMfcbuf true win skip { s with state := .ended, mfcBuf := mb, nextId := c' + 1, nMfcFrame := 1 }).st := by
        simp only [acmodEndUtt, ee, hws, Bool.and_false, if_false, Bool.false_eq_true]
        rw [if_pos (by decide)]
      rw [hs', q5]; omega
  omega

theorem decEnd_searched_mono (win : Nat) (skip : Nat → Bool) (s : St) (tail : Bool) (h : Open win s)
    (hfe : tail = true ∨ s.nextId = 0) (hb : s.cmnFrames + (if tail then 1 else 0) ≤ cmnWinHwm)
    (hw : 3 * win + 2 ≤ livebuf) : s.searched.length ≤ (decEnd true win skip s tail).searched.length := by
  rw [h.searched_len, (decEnd_closed win skip s tail h hfe hb hw).searched_len]
  exact decEnd_outFrame_mono win skip s tail h hfe hb hw

end SSVerif.AcmodBuf
