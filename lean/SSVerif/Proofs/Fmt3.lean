import SSVerif.Model.Fmt3
set_option linter.unusedSimpArgs false
/-! # Lemmas about `%.3f` rendering (`Model/Fmt3.lean`): digits, round-half-even, recogniser acceptance -/
namespace SSVerif.Fmt3
open SSVerif.Json

/-! ## digits -/

theorem digit_facts : ∀ d, d < 10 → isDigit (digit d) = true ∧ (digit d).toNat = 48 + d ∧ isNumChar (digit d) = true ∧
    (d = 0 → digit d = 48) ∧ (0 < d → 49 ≤ digit d ∧ digit d ≤ 57 ∧ digit d ≠ 48) ∧ digit d ≠ 45 := by decide

theorem decF_indep : ∀ n f, n ≤ f → decF f n = decF n n := by
  intro n
  induction n using Nat.strongRecOn with
  | _ n ih =>
    intro f hf
    cases f with
    | zero => have : n = 0 := by omega
              subst this; rfl
    | succ f' =>
      cases n with
      | zero => rfl
      | succ n' =>
        simp only [decF]
        by_cases h : n' + 1 < 10
        · simp [h]
        · simp only [h, if_false]
          rw [ih ((n' + 1) / 10) (by omega) f' (by omega), ih ((n' + 1) / 10) (by omega) n' (by omega)]

theorem dec_lt {n : Nat} (h : n < 10) : dec n = [digit n] := by
  unfold dec
  cases n with
  | zero => rfl
  | succ n' => simp [decF, h]

theorem dec_ge {n : Nat} (h : 10 ≤ n) : dec n = dec (n / 10) ++ [digit (n % 10)] := by
  unfold dec
  cases n with
  | zero => omega
  | succ n' =>
    have : ¬ n' + 1 < 10 := by omega
    simp only [decF, this, if_false]
    rw [decF_indep ((n' + 1) / 10) n' (by omega)]

theorem length_decF : ∀ f n, (decF f n).length = ndigF f n := by
  intro f
  induction f with
  | zero => intro n; rfl
  | succ f ih =>
    intro n
    simp only [decF, ndigF]
    by_cases h : n < 10
    · simp [h]
    · simp [h, ih]

theorem length_dec (n : Nat) : (dec n).length = ndig n := length_decF n n

/-- shape of `dec n`: a first digit that is `0` only for `n = 0`, then digits -/
theorem dec_shape (n : Nat) : ∃ c rest, dec n = c :: rest ∧ rest.all isDigit = true ∧ isDigit c = true ∧
    (n = 0 → c = 48 ∧ rest = []) ∧ (0 < n → 49 ≤ c ∧ c ≤ 57 ∧ c ≠ 48) := by
  induction n using Nat.strongRecOn with
  | _ n ih =>
    by_cases h : n < 10
    · have hd := digit_facts n h
      refine ⟨digit n, [], dec_lt h, rfl, hd.1, ?_, ?_⟩
      · intro h0; exact ⟨hd.2.2.2.1 h0, rfl⟩
      · intro h0; exact hd.2.2.2.2.1 h0
    · obtain ⟨c, rest, hc, hr, hcd, _, hpos⟩ := ih (n / 10) (by omega)
      have hd := digit_facts (n % 10) (by omega)
      refine ⟨c, rest ++ [digit (n % 10)], ?_, ?_, hcd, ?_, ?_⟩
      · rw [dec_ge (by omega), hc]; rfl
      · simp [List.all_append, hr, hd.1]
      · intro h0; omega
      · intro _; exact hpos (by omega)

theorem decVal_append (l : Bytes) (c : UInt8) : decVal (l ++ [c]) = 10 * decVal l + (c.toNat - 48) := by
  simp [decVal, List.foldl_append]

theorem decVal_dec (n : Nat) : decVal (dec n) = n := by
  induction n using Nat.strongRecOn with
  | _ n ih =>
    by_cases h : n < 10
    · rw [dec_lt h]
      have := (digit_facts n h).2.1
      simp [decVal, this]
    · rw [dec_ge (by omega), decVal_append, ih (n / 10) (by omega), (digit_facts (n % 10) (by omega)).2.1]
      omega

theorem decVal_pad3 (k : Nat) (h : k < 1000) : decVal (pad3 k) = k := by
  have h1 := (digit_facts (k / 100 % 10) (by omega)).2.1
  have h2 := (digit_facts (k / 10 % 10) (by omega)).2.1
  have h3 := (digit_facts (k % 10) (by omega)).2.1
  simp only [pad3, decVal, List.foldl, h1, h2, h3]
  omega

theorem dec_all_digit (n : Nat) : (dec n).all isDigit = true := by
  obtain ⟨c, rest, hc, hr, hcd, _, _⟩ := dec_shape n
  rw [hc]; simp [hr, hcd]

theorem dec_ne_nil (n : Nat) : dec n ≠ [] := by
  obtain ⟨c, rest, hc, _⟩ := dec_shape n
  rw [hc]; simp


/-! ## splitting a rendering at the point -/

theorem takeWhile_digits (l r : Bytes) (x : UInt8) (hl : l.all isDigit = true) (hx : isDigit x = false) :
    (l ++ x :: r).takeWhile isDigit = l ∧ (l ++ x :: r).dropWhile isDigit = x :: r := by
  induction l with
  | nil => simp [List.takeWhile, List.dropWhile, hx]
  | cons a t ih =>
    simp only [List.all_cons, Bool.and_eq_true] at hl
    obtain ⟨h1, h2⟩ := ih hl.2
    simp [List.takeWhile, List.dropWhile, hl.1, h1, h2]

theorem pad3_digits (k : Nat) : ∃ a b c, pad3 k = [a, b, c] ∧ isDigit a = true ∧ isDigit b = true ∧ isDigit c = true ∧
    isNumChar a = true ∧ isNumChar b = true ∧ isNumChar c = true := by
  have h1 := digit_facts (k / 100 % 10) (by omega)
  have h2 := digit_facts (k / 10 % 10) (by omega)
  have h3 := digit_facts (k % 10) (by omega)
  exact ⟨_, _, _, rfl, h1.1, h2.1, h3.1, h1.2.2.1, h2.2.2.1, h3.2.2.1⟩

theorem isNumChar_of_isDigit {c : UInt8} (h : isDigit c = true) : isNumChar c = true := by
  simp [isNumChar, h]

theorem all_numChar_of_digits {l : Bytes} (h : l.all isDigit = true) : l.all isNumChar = true := by
  rw [List.all_eq_true] at *
  intro x hx; exact isNumChar_of_isDigit (h x hx)

/-- the unsigned part `digits.ddd` is what `intOk` accepts -/
theorem body_intOk (ip fp : Nat) : intOk (dec ip ++ 46 :: pad3 fp) = true ∧ (dec ip ++ 46 :: pad3 fp).all isNumChar = true ∧
    (dec ip ++ 46 :: pad3 fp).head? ≠ some 45 := by
  obtain ⟨c, rest, hc, hr, hcd, h0, hpos⟩ := dec_shape ip
  obtain ⟨a, b, d, hp, ha, hb, hd, na, nb, nd⟩ := pad3_digits fp
  have hfrac : fracOk (46 :: [a, b, d]) = true := by
    simp [fracOk, List.takeWhile, List.dropWhile, ha, hb, hd, expOk]
  refine ⟨?_, ?_, ?_⟩
  · rw [hc, hp]
    by_cases hz : ip = 0
    · obtain ⟨rfl, rfl⟩ := h0 hz
      simp only [List.cons_append, List.nil_append, intOk, if_true]
      exact hfrac
    · obtain ⟨h1, h2, h3⟩ := hpos (by omega)
      simp only [List.cons_append, intOk, h3, if_false, h1, h2, and_self, if_true]
      rw [(takeWhile_digits rest [a, b, d] 46 hr (by decide)).2]
      exact hfrac
  · rw [List.all_append, all_numChar_of_digits (dec_all_digit ip), hp]
    simp [na, nb, nd]; decide
  · rw [hc]; simp
    intro h; subst h; revert hcd; decide

theorem isJsonNumber_of_body (neg : Bool) (t : Bytes) (h1 : intOk t = true) (h2 : t.all isNumChar = true)
    (h3 : t.head? ≠ some 45) : isJsonNumber ((if neg then [45] else []) ++ t) = true := by
  cases neg with
  | true =>
    simp only [if_true, List.singleton_append, isJsonNumber, List.all_cons, h2, h1]
    decide
  | false =>
    simp only [Bool.false_eq_true, if_false, List.nil_append, isJsonNumber, h2, Bool.true_and]
    split
    · rename_i t' ; simp at h3
    · exact h1

theorem fmt3_json (neg : Bool) (m : Nat) (e : Int) : isJsonNumber (fmt3 neg m e) = true := by
  obtain ⟨h1, h2, h3⟩ := body_intOk (milli m e / 1000) (milli m e % 1000)
  exact isJsonNumber_of_body neg _ h1 h2 h3

theorem readMilli_fmt3 (neg : Bool) (m : Nat) (e : Int) : readMilli (fmt3 neg m e) = some (neg, milli m e) := by
  obtain ⟨_, _, h3⟩ := body_intOk (milli m e / 1000) (milli m e % 1000)
  obtain ⟨a, b, d, hp, ha, hb, hd, _⟩ := pad3_digits (milli m e % 1000)
  have hs := takeWhile_digits (dec (milli m e / 1000)) (pad3 (milli m e % 1000)) 46 (dec_all_digit _) (by decide)
  have hv : decVal (dec (milli m e / 1000)) * 1000 + decVal [a, b, d] = milli m e := by
    rw [decVal_dec, ← hp, decVal_pad3 _ (by omega)]; omega
  have hne : (dec (milli m e / 1000)).isEmpty = false := by
    have := dec_ne_nil (milli m e / 1000)
    cases hh : dec (milli m e / 1000) with
    | nil => exact absurd hh this
    | cons _ _ => rfl
  rw [hp] at hs h3
  unfold readMilli fmt3
  rw [hp]
  cases neg with
  | true =>
    simp only [if_true, List.singleton_append, List.head?_cons, beq_self_eq_true, List.tail_cons, hs.1, hs.2, hne,
      ha, hb, hd, Bool.not_false, Bool.and_self, hv]
  | false =>
    have : ((dec (milli m e / 1000) ++ [46, a, b, d]).head? == some 45) = false := by
      simpa using h3
    simp only [Bool.false_eq_true, if_false, List.nil_append, this, hs.1, hs.2, hne,
      ha, hb, hd, Bool.not_false, Bool.and_self, hv, if_true]

theorem length_fmt3 (neg : Bool) (m : Nat) (e : Int) : (fmt3 neg m e).length = fmt3Len neg m e := by
  unfold fmt3 fmt3Len
  cases neg <;> simp [length_dec, pad3] <;> omega


/-! ## round to nearest, ties to even -/

/-- `n` is `num/den` rounded to the nearest integer, ties to even (cross-multiplied: `|n − num/den| ≤ 1/2`, and an
exact half only with `n` even) -/
def IsRNE (num den n : Nat) : Prop :=
  2 * (n * den) ≤ 2 * num + den ∧ 2 * num ≤ 2 * (n * den) + den ∧
  (2 * (n * den) = 2 * num + den → n % 2 = 0) ∧ (2 * num = 2 * (n * den) + den → n % 2 = 0)

theorem rne_spec (num den : Nat) (hd : 0 < den) : IsRNE num den (rne num den) := by
  have hq := Nat.div_add_mod num den
  have hr := Nat.mod_lt num hd
  unfold IsRNE rne
  generalize num / den = q at *
  generalize num % den = r at *
  rw [Nat.mul_comm den q] at hq
  subst hq
  have hs : (q + 1) * den = q * den + den := by rw [Nat.add_mul, Nat.one_mul]
  dsimp only
  split
  · exact ⟨by omega, by omega, by omega, by omega⟩
  · split
    · rw [hs]; exact ⟨by omega, by omega, by omega, by omega⟩
    · split
      · exact ⟨by omega, by omega, by omega, by omega⟩
      · rw [hs]; exact ⟨by omega, by omega, by omega, by omega⟩

theorem IsRNE_unique {num den a b : Nat} (hd : 0 < den) (ha : IsRNE num den a) (hb : IsRNE num den b) : a = b := by
  have aux : ∀ a b, IsRNE num den a → IsRNE num den b → a < b → False := by
    intro a b ha hb hlt
    have h1 : (a + 1) * den ≤ b * den := Nat.mul_le_mul_right den hlt
    rw [Nat.add_mul, Nat.one_mul] at h1
    obtain ⟨a1, a2, a3, a4⟩ := ha
    obtain ⟨b1, b2, b3, b4⟩ := hb
    have e1 : b * den = (a + 1) * den := by rw [Nat.add_mul, Nat.one_mul]; omega
    have e2 : b = a + 1 := Nat.eq_of_mul_eq_mul_right hd e1
    have := a4 (by omega)
    have := b3 (by omega)
    omega
  rcases Nat.lt_trichotomy a b with h | h | h
  · exact (aux a b ha hb h).elim
  · exact h
  · exact (aux b a hb ha h).elim

theorem rne_mono_den {a b d : Nat} (hd : 0 < d) (h : a ≤ b) : rne a d ≤ rne b d := by
  obtain ⟨a1, a2, a3, a4⟩ := rne_spec a d hd
  obtain ⟨b1, b2, b3, b4⟩ := rne_spec b d hd
  generalize rne a d = x at *
  generalize rne b d = y at *
  by_cases hxy : x ≤ y
  · exact hxy
  · exfalso
    have hlt : y + 1 ≤ x := by omega
    have h1 : (y + 1) * d ≤ x * d := Nat.mul_le_mul_right d hlt
    rw [Nat.add_mul, Nat.one_mul] at h1
    have e1 : x * d = (y + 1) * d := by rw [Nat.add_mul, Nat.one_mul]; omega
    have e2 : x = y + 1 := Nat.eq_of_mul_eq_mul_right hd e1
    have := a3 (by omega)
    have := b4 (by omega)
    omega

theorem rne_scale (a d c : Nat) (hc : 0 < c) : rne (a * c) (d * c) = rne a d := by
  unfold rne
  rw [Nat.mul_div_mul_right _ _ hc, Nat.mul_mod_mul_right]
  have e : 2 * (a % d * c) = (2 * (a % d)) * c := by rw [Nat.mul_assoc]
  dsimp only
  rw [e]
  simp only [Nat.mul_lt_mul_right hc]

/-- rounding is monotone on fractions compared by cross-multiplication -/
theorem rne_mono {a d1 b d2 : Nat} (h1 : 0 < d1) (h2 : 0 < d2) (h : a * d2 ≤ b * d1) : rne a d1 ≤ rne b d2 := by
  rw [← rne_scale a d1 d2 h2, ← rne_scale b d2 d1 h1, Nat.mul_comm d2 d1]
  exact rne_mono_den (Nat.mul_pos h1 h2) h

theorem rne_one (n : Nat) : rne n 1 = n := by
  unfold rne; simp [Nat.mod_one]

instance (x y : Bool × Nat × Int) : Decidable (dle x y) := by
  unfold dle; dsimp only; split <;> infer_instance

theorem rne_zero (d : Nat) (hd : 0 < d) : rne 0 d = 0 := by
  unfold rne; simp [hd]

theorem scaled_eq (m : Nat) (e : Int) : scaled m e = (1000 * (absFrac m e).1, (absFrac m e).2) := by
  cases e with
  | ofNat k => simp [scaled, absFrac, Nat.mul_assoc]
  | negSucc k => simp [scaled, absFrac]

theorem absFrac_den_pos (m : Nat) (e : Int) : 0 < (absFrac m e).2 := by
  cases e with
  | ofNat k => simp [absFrac]
  | negSucc k => simp only [absFrac]; exact Nat.pos_of_ne_zero (by simp)

theorem scaled_den_pos (m : Nat) (e : Int) : 0 < (scaled m e).2 := by
  rw [scaled_eq]; exact absFrac_den_pos m e

theorem milli_mono {m1 m2 : Nat} {e1 e2 : Int}
    (h : (absFrac m1 e1).1 * (absFrac m2 e2).2 ≤ (absFrac m2 e2).1 * (absFrac m1 e1).2) : milli m1 e1 ≤ milli m2 e2 := by
  unfold milli
  rw [scaled_eq, scaled_eq]
  apply rne_mono (absFrac_den_pos _ _) (absFrac_den_pos _ _)
  dsimp only
  rw [Nat.mul_assoc, Nat.mul_assoc]
  exact Nat.mul_le_mul_left 1000 h

theorem milli_zero {m : Nat} {e : Int} (h : (absFrac m e).1 = 0) : milli m e = 0 := by
  unfold milli
  rw [scaled_eq, h]
  exact rne_zero _ (absFrac_den_pos m e)

theorem smilli_mono (x y : Bool × Nat × Int) (h : dle x y) : smilli x ≤ smilli y := by
  obtain ⟨n1, m1, e1⟩ := x
  obtain ⟨n2, m2, e2⟩ := y
  unfold dle at h
  unfold smilli
  cases n1 <;> cases n2 <;> simp only [Bool.false_eq_true, if_false, if_true] at h ⊢
  · have := milli_mono h; omega
  · rw [milli_zero h.1, milli_zero h.2]; omega
  · omega
  · have := milli_mono h; omega

end SSVerif.Fmt3
