import SSVerif.Model.Hist
import SSVerif.Model.LatticeHist
/-! `HistWF` (the hypothesis of `C11_build_latticeOK`, on the table as `fsg_search_lattice` reads it) follows from
`WFHist` (the invariant of the history table that C01 proves for every reachable state of the modelled search)
plus two facts `WFHist` does not record: word exits are not in frame 0, and null entries do not chain. -/
namespace SSVerif.Lattice
open SSVerif.Nfa
namespace HistBridge
open SSVerif.Hist

/-- the table of M8 (`Hist.Entry`, arcs by index into the FSG) as the lattice construction reads it -/
def toH (g : Fsg) (h : Hist) : Array HEntry :=
  h.map fun e => ⟨e.link.map fun lid => ((g.link lid).src, (g.link lid).label, (g.link lid).dst), e.frame, e.score, e.pred⟩

/-- entry `i` records a word arc -/
def isWord (g : Fsg) (h : Hist) (i : Nat) : Prop :=
  ∃ lid, (ent h i).link = some lid ∧ ¬ (g.link lid).wid < 0

/-- what `WFHist` does not say: word exits are not recorded in frame 0 (a word HMM has at least three emitting
states), and the predecessor of a null entry is the root or a word entry (`fsg_search_null_prop` makes one pass) -/
structure Extra (g : Fsg) (h : Hist) : Prop where
  wordFrame : ∀ i lid, 0 < i → i < h.size → (ent h i).link = some lid → ¬ (g.link lid).wid < 0 → 1 ≤ (ent h i).frame
  noNullChain : ∀ i lid, 0 < i → i < h.size → (ent h i).link = some lid → (g.link lid).wid < 0 →
    (ent h i).pred ≠ 0 → isWord g h (ent h i).pred.toNat

theorem hent_toH (g : Fsg) (h : Hist) (i : Nat) (hi : i < h.size) :
    hent (toH g h) i = ⟨(ent h i).link.map fun lid => ((g.link lid).src, (g.link lid).label, (g.link lid).dst),
      (ent h i).frame, (ent h i).score, (ent h i).pred⟩ := by
  unfold hent toH ent
  simp [Array.getD, hi]

theorem arc_mem (g : Fsg) (lid : Nat) (hl : lid < g.links.size) :
    ((g.link lid).src, (g.link lid).label, (g.link lid).dst) ∈ (g.toNfa).arcs := by
  unfold Fsg.toNfa
  simp only [List.mem_map]
  refine ⟨g.links[lid], Array.getElem_mem_toList hl, ?_⟩
  unfold Fsg.link
  simp [Array.getD, hl]

theorem label_some {l : Hist.Link} (h : ¬ l.wid < 0) : l.label = some l.wid.toNat := by
  unfold Link.label; rw [if_neg h]

theorem label_none {l : Hist.Link} (h : l.wid < 0) : l.label = none := by
  unfold Link.label; rw [if_pos h]

theorem extra_of_extraB (g : Fsg) (h : Hist) (hx : extraB (toH g h) = true) : Extra g h := by
  have hsize : (toH g h).size = h.size := by unfold toH; simp
  unfold extraB at hx
  simp only [List.all_eq_true, List.mem_range, hsize] at hx
  constructor
  · intro i lid _ hi hlid hw
    have := hx i hi
    rw [hent_toH g h i hi, hlid] at this
    simp only [Option.map_some, label_some hw, decide_eq_true_eq] at this
    exact this
  · intro i lid _ hi hlid hw hp
    have := hx i hi
    rw [hent_toH g h i hi, hlid] at this
    simp only [Option.map_some, label_none hw, Bool.or_eq_true, beq_iff_eq] at this
    rcases this with h0 | h1
    · exact absurd h0 hp
    · unfold isWordEntry wordOf at h1
      by_cases hpl : (ent h i).pred.toNat < h.size
      · rw [hent_toH g h _ hpl] at h1
        cases hl : (ent h (ent h i).pred.toNat).link with
        | none => rw [hl] at h1; simp at h1
        | some lid' =>
          refine ⟨lid', hl, ?_⟩
          intro hw'
          rw [hl] at h1
          simp [label_none hw'] at h1
      · exfalso
        have : hent (toH g h) (ent h i).pred.toNat = default := by
          unfold hent
          simp [Array.getD, hsize, hpl]
        rw [this] at h1
        simp [default, instInhabitedHEntry.default] at h1

theorem wordFrame_of_wordFrameB (g : Fsg) (h : Hist) (hx : wordFrameB (toH g h) = true) :
    ∀ i lid, 0 < i → i < h.size → (ent h i).link = some lid → ¬ (g.link lid).wid < 0 → 1 ≤ (ent h i).frame := by
  have hsize : (toH g h).size = h.size := by unfold toH; simp
  unfold wordFrameB at hx
  simp only [List.all_eq_true, List.mem_range, hsize] at hx
  intro i lid _ hi hlid hw
  have := hx i hi
  rw [hent_toH g h i hi, hlid] at this
  simp only [Option.map_some, label_some hw, decide_eq_true_eq] at this
  exact this

/-- conversely, on a well-formed table the two facts give the Boolean -/
theorem extraB_of_extra (g : Fsg) (h : Hist) (cur : Int) (wf : WFHist g h cur) (ex : Extra g h) :
    extraB (toH g h) = true := by
  have hsize : (toH g h).size = h.size := by unfold toH; simp
  unfold extraB
  simp only [List.all_eq_true, List.mem_range, hsize]
  intro i hi
  rw [hent_toH g h i hi]
  by_cases hi0 : i = 0
  · subst hi0; rw [wf.root.1]; rfl
  have hipos : 0 < i := by omega
  obtain ⟨lid, hlid, _, hp0, hpi, _, _⟩ := wf.step i hipos hi
  rw [hlid]
  simp only [Option.map_some]
  by_cases hw : (g.link lid).wid < 0
  · rw [label_none hw]
    simp only [Bool.or_eq_true, beq_iff_eq]
    by_cases hp : (ent h i).pred = 0
    · exact Or.inl hp
    · right
      obtain ⟨lid', hlid', hnw⟩ := ex.noNullChain i lid hipos hi hlid hw hp
      have hpl : (ent h i).pred.toNat < h.size := by omega
      unfold isWordEntry wordOf
      rw [hent_toH g h _ hpl, hlid']
      simp [label_some hnw]
  · rw [label_some hw]
    simp only [decide_eq_true_eq]
    exact ex.wordFrame i lid hipos hi hlid hw

end HistBridge

open HistBridge SSVerif.Hist in
/-- `WFHist` (proved by C01 for every reachable search state) and the two extra facts give `HistWF` -/
theorem histWF_of_WFHist (g : Fsg) (h : Hist) (cur : Int) (wf : WFHist g h cur) (ex : Extra g h) :
    HistWF g.toNfa (toH g h) cur.toNat := by
  have hsize : (toH g h).size = h.size := by unfold toH; simp
  intro i hi
  rw [hsize] at hi
  unfold EntryWF
  rw [hent_toH g h i hi]
  by_cases hi0 : i = 0
  · subst hi0; rw [wf.root.1]; trivial
  have hipos : 0 < i := by omega
  obtain ⟨lid, hlid, hlt, hp0, hpi, hsrc, hfr⟩ := wf.step i hipos hi
  rw [hlid]
  simp only [Option.map_some]
  by_cases hw : (g.link lid).wid < 0
  · rw [label_none hw]; trivial
  rw [label_some hw]
  simp only
  rw [if_neg hw] at hfr
  have hbelow := wf.below i hi
  have hwfr := ex.wordFrame i lid hipos hi hlid hw
  refine ⟨by rw [← label_some hw]; exact arc_mem g lid hlt, hwfr, by omega, ?_⟩
  -- the predecessor
  unfold PredOK
  simp only
  by_cases hp : (ent h i).pred = 0
  · rw [if_pos hp, hsrc, hp]
    simp only [Int.toNat_zero]
    unfold dest; rw [wf.root.1]; rfl
  rw [if_neg hp]
  have hpp : 0 < (ent h i).pred.toNat := by omega
  have hpl : (ent h i).pred.toNat < h.size := by omega
  rw [hent_toH g h _ hpl]
  obtain ⟨lid', hlid', hlt', hp0', hpi', hsrc', hfr'⟩ := wf.step _ hpp hpl
  refine ⟨by omega, hpi, hfr, ?_⟩
  simp only [hlid', Option.map_some]
  have hdest : dest g (ent h (ent h i).pred.toNat) = (g.link lid').dst := by unfold dest; rw [hlid']
  by_cases hw' : (g.link lid').wid < 0
  · -- null predecessor
    rw [label_none hw']
    simp only
    refine ⟨by rw [hsrc, hdest], by rw [← label_none hw']; exact arc_mem g lid' hlt', ?_⟩
    rw [if_pos hw'] at hfr'
    unfold NullPredOK
    simp only
    by_cases hq : (ent h (ent h i).pred.toNat).pred = 0
    · rw [if_pos hq]
      rw [hq] at hsrc' hfr'
      simp only [Int.toNat_zero] at hsrc' hfr'
      refine ⟨?_, by rw [hfr', wf.root.2.1]⟩
      rw [hsrc']; unfold dest; rw [wf.root.1]; rfl
    · rw [if_neg hq]
      have hqq : 0 < (ent h (ent h i).pred.toNat).pred.toNat := by omega
      have hql : (ent h (ent h i).pred.toNat).pred.toNat < h.size := by omega
      obtain ⟨lid'', hlid'', hnw⟩ := ex.noNullChain _ lid' hpp hpl hlid' hw' hq
      have hf2 := ex.wordFrame _ lid'' hqq hql hlid'' hnw
      rw [hent_toH g h _ hql]
      simp only [hlid'', Option.map_some, label_some hnw]
      refine ⟨by omega, hpi', hfr'.symm, by omega, ?_⟩
      rw [hsrc']; unfold dest; rw [hlid'']
  · -- word predecessor
    rw [label_some hw']
    simp only
    exact ⟨by rw [hsrc, hdest], by have := ex.wordFrame _ lid' hpp hpl hlid' hw'; omega⟩

end SSVerif.Lattice
