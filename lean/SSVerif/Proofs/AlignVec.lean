import SSVerif.Model.AlignVec
/-! the counters of an alignment vector stay inside their allocation and their 16 bits -/
namespace SSVerif.AlignVec
open SSVerif.Generated.AlignVec

/-- one granted entry: the count goes up by exactly one (no wrap-around), the entry handed out
(`seq + n_ent - 1`) lies inside the allocation, the allocation never exceeds the limit -/
theorem growOneP_ok {grow limit bits : Nat} (hl : limit < 2 ^ bits) (hg : 0 < grow) {v v' : Vec} (hv : v.Ok limit)
    (h : growOneP grow limit bits v = some v') :
    v'.Ok limit ∧ v'.n = v.n + 1 ∧ v'.n - 1 < v'.alloc ∧ v'.n ≤ limit := by
  obtain ⟨h1, h2⟩ := hv
  unfold growOneP at h
  by_cases c1 : v.n + 1 < v.alloc
  · simp only [c1, if_true, Option.some.injEq] at h
    have hm : (v.n + 1) % 2 ^ bits = v.n + 1 := Nat.mod_eq_of_lt (by omega)
    rw [hm] at h
    subst h
    refine ⟨⟨.inl ?_, ?_⟩, ?_, ?_, ?_⟩ <;> dsimp only <;> omega
  · by_cases c2 : v.n + 1 + grow > limit
    · simp [c1, c2] at h
    · simp only [c1, c2, if_false, Option.some.injEq] at h
      have hm1 : (v.n + 1) % 2 ^ bits = v.n + 1 := Nat.mod_eq_of_lt (by omega)
      have hm2 : (v.n + 1 + grow) % 2 ^ bits = v.n + 1 + grow := Nat.mod_eq_of_lt (by omega)
      rw [hm1, hm2] at h
      subst h
      -- `c1` fails only when the vector is full (`n + 1 ≥ alloc`); the new allocation has `n + 1 + grow` entries
      refine ⟨⟨?_, ?_⟩, ?_, ?_, ?_⟩
      · dsimp only; exact .inl (by omega)
      · dsimp only; omega
      · rfl
      · dsimp only; omega
      · dsimp only; omega

theorem limit_fits : vectorLimit < 2 ^ counterBits := by decide
theorem grow_pos : 0 < vectorGrow := by decide

theorem growOne_ok {v v' : Vec} (hv : v.Ok vectorLimit) (h : growOne v = some v') :
    v'.Ok vectorLimit ∧ v'.n = v.n + 1 ∧ v'.n - 1 < v'.alloc ∧ v'.n ≤ vectorLimit :=
  growOneP_ok limit_fits grow_pos hv h

theorem empty_ok {limit : Nat} {v : Vec} (hv : v.Ok limit) : v.empty.Ok limit := by
  obtain ⟨h1, h2⟩ := hv
  refine ⟨?_, h2⟩
  simp only [Vec.empty]
  by_cases ha : v.alloc = 0
  · exact .inr ⟨by simp, ha⟩
  · exact .inl (by omega)

theorem growMany_ok : ∀ (k : Nat) (v : Vec) (d : Nat), v.Ok vectorLimit →
    (growMany k v d).1.Ok vectorLimit ∧ (growMany k v d).1.n = v.n + ((growMany k v d).2 - d)
    ∧ d ≤ (growMany k v d).2 ∧ (growMany k v d).2 ≤ d + k := by
  intro k
  induction k with
  | zero => intro v d hv; simp [growMany, hv]
  | succ k ih =>
    intro v d hv
    simp only [growMany]
    cases hg : growOne v with
    | none => simp [hv]
    | some v' =>
      obtain ⟨hv', hn, _, _⟩ := growOne_ok hv hg
      obtain ⟨i1, i2, i3, i4⟩ := ih v' (d + 1) hv'
      simp only
      refine ⟨i1, ?_, by omega, by omega⟩
      rw [i2, hn]; omega

theorem vec0_ok : ({} : Vec).Ok vectorLimit := ⟨.inr ⟨rfl, rfl⟩, Nat.zero_le _⟩

/-- all three levels of a user-built alignment -/
def UAlign.Ok (u : UAlign) : Prop := u.word.Ok vectorLimit ∧ u.sseq.Ok vectorLimit ∧ u.state.Ok vectorLimit

theorem ualign0_ok : ({} : UAlign).Ok := ⟨vec0_ok, vec0_ok, vec0_ok⟩

theorem addWords_ok {u : UAlign} (h : u.Ok) (n plen : Nat) : (u.addWords n plen).1.Ok := by
  obtain ⟨h1, h2, h3⟩ := h
  exact ⟨(growMany_ok n u.word 0 h1).1, h2, h3⟩

theorem populate_ok {u : UAlign} (h : u.Ok) (emit : Nat) : (u.populate emit).1.Ok := by
  obtain ⟨h1, h2, h3⟩ := h
  unfold UAlign.populate
  simp only
  split
  · exact ⟨h1, (growMany_ok _ _ 0 (empty_ok h2)).1, empty_ok h3⟩
  · exact ⟨h1, (growMany_ok _ _ 0 (empty_ok h2)).1, (growMany_ok _ _ 0 (empty_ok h3)).1⟩

end SSVerif.AlignVec
