import SSVerif.Proofs.LexFlat
/-!
# Every path of the flat network is a root-to-leaf path of the lextree the code builds

For every word arc of the FSG, every left context `lc` of its source state and every right context `rc` of its
target state, the lextree `buildLexTree` constructs contains a root-to-leaf path of pnodes — a root of `root[src]`
whose context set contains `lc`, the chain of word-internal pnodes, a leaf carrying the arc whose context set contains
`rc` — with exactly the senone-sequence ids, transition-matrix ids and entry penalties of the flat network's HMM
instances (single-phone words and fillers: a root that is a leaf).

The proof follows the construction with monotone facts only: what is reachable along `sibling` / is a child stays so
(`Grow`), the fields a path key is made of never change after allocation, context bits are only added.
-/
namespace SSVerif.LexFlat
open SSVerif.Search SSVerif.Hist

/-- `x` is on the `sibling` chain that starts at `o` -/
inductive Reach (a : Array PNode) : Option Nat → Nat → Prop
  | here {x : Nat} : Reach a (some x) x
  | next {p x : Nat} : Reach a (ndOf a p).sibling x → Reach a (some p) x

/-- `x` is one of the pnodes `fsg_search_pnode_trans` enters from `p` -/
def Child (a : Array PNode) (p x : Nat) : Prop := Reach a (ndOf a p).succ x

/-- the fields a path key is made of (and the owner) -/
def core (n : PNode) : Nat × Bool × Nat × Nat × Nat × Int × Nat := (n.owner, n.leaf, n.link, n.ssid, n.tmatid, n.logs2prob, n.ciExt)

/-- nothing is lost: old pnodes keep their key fields, their context bits and what their `sibling` chain reaches -/
structure Grow (a a' : Array PNode) : Prop where
  size : a.size ≤ a'.size
  stable : ∀ p, p < a.size → core (ndOf a' p) = core (ndOf a p)
  ctxt : ∀ p, p < a.size → ∀ c, (ndOf a p).ctxt.testBit c = true → (ndOf a' p).ctxt.testBit c = true
  reach : ∀ p, p < a.size → ∀ x, Reach a (some p) x → Reach a' (some p) x

theorem Grow.refl (a : Array PNode) : Grow a a :=
  ⟨Nat.le_refl _, fun _ _ => rfl, fun _ _ _ h => h, fun _ _ _ h => h⟩

theorem Grow.trans {a b c : Array PNode} (h1 : Grow a b) (h2 : Grow b c) : Grow a c :=
  ⟨Nat.le_trans h1.size h2.size,
   fun p hp => by rw [h2.stable p (Nat.lt_of_lt_of_le hp h1.size), h1.stable p hp],
   fun p hp c hc => h2.ctxt p (Nat.lt_of_lt_of_le hp h1.size) c (h1.ctxt p hp c hc),
   fun p hp x hx => h2.reach p (Nat.lt_of_lt_of_le hp h1.size) x (h1.reach p hp x hx)⟩

/-- children are not lost either -/
def ChildMono (a a' : Array PNode) : Prop := ∀ p, p < a.size → ∀ x, Child a p x → Child a' p x

theorem Grow.reachO {a a' : Array PNode} (h : Grow a a') {o : Option Nat} (ho : ∀ y, o = some y → y < a.size) {x : Nat}
    (hr : Reach a o x) : Reach a' o x := by
  cases o with
  | none => cases hr
  | some p => exact h.reach p (ho p rfl) x hr

/-- a chain that starts at an old pnode only visits old pnodes -/
theorem reach_lt {g : Fsg} {a : Array PNode} (inv : GInv g a) : ∀ {o : Option Nat} {x : Nat}, Reach a o x →
    (∀ y, o = some y → y < a.size) → x < a.size := by
  intro o x h
  induction h with
  | here => intro ho; exact ho _ rfl
  | @next p x _ ih =>
    intro ho
    exact ih (fun y hy => inv.sibClosed (ho p rfl) hy)

theorem reach_push {g : Fsg} {a : Array PNode} (inv : GInv g a) (n : PNode) : ∀ {o : Option Nat} {x : Nat}, Reach a o x →
    (∀ y, o = some y → y < a.size) → Reach (a.push n) o x := by
  intro o x h
  induction h with
  | here => intro _; exact Reach.here
  | @next p x _ ih =>
    intro ho
    have hp := ho p rfl
    refine Reach.next ?_
    rw [ndOf_push_lt a n hp]
    exact ih (fun y hy => inv.sibClosed hp hy)

theorem grow_push {g : Fsg} {a : Array PNode} (inv : GInv g a) (n : PNode) : Grow a (a.push n) := by
  exact ⟨by rw [Array.size_push]; omega, fun p hp => by rw [ndOf_push_lt a n hp],
    fun p hp c hc => by rw [ndOf_push_lt a n hp]; exact hc, fun p hp x hx => reach_push inv n hx (fun y hy => by cases hy; exact hp)⟩

theorem childMono_push {g : Fsg} {a : Array PNode} (inv : GInv g a) (n : PNode) : ChildMono a (a.push n) := by
  intro p hp x hx
  unfold Child at hx ⊢
  rw [ndOf_push_lt a n hp]
  exact reach_push inv n hx (fun y hy => inv.succClosed hp hy)

/-- beyond the size an array reads the default pnode -/
theorem ndOf_ge (a : Array PNode) {q : Nat} (hq : a.size ≤ q) : ndOf a q = { owner := 0, leaf := false } := by
  unfold ndOf
  simp [Array.getD, Nat.not_lt.2 hq]

theorem ndOf_amod_sibling (a : Array PNode) (p : Nat) (f : PNode → PNode) (hf : ∀ n, (f n).sibling = n.sibling) (q : Nat) :
    (ndOf (amod a p f) q).sibling = (ndOf a q).sibling := by
  by_cases hq : q < a.size
  · exact sibling_amod a p f hf hq
  · rw [ndOf_ge _ (by rw [size_amod]; omega), ndOf_ge _ (by omega)]

/-- pointers along `sibling` unchanged: same reachability -/
theorem reach_congr {a a' : Array PNode} (hs : ∀ q, (ndOf a' q).sibling = (ndOf a q).sibling) :
    ∀ {o : Option Nat} {x : Nat}, Reach a o x → Reach a' o x := by
  intro o x h
  induction h with
  | here => exact Reach.here
  | @next p x _ ih => exact Reach.next (by rw [hs]; exact ih)

/-- a modification of one pnode that keeps `sibling` and the key fields and only adds context bits -/
theorem grow_amod {a : Array PNode} {p : Nat} {f : PNode → PNode} (hsib : ∀ n, (f n).sibling = n.sibling)
    (hcore : ∀ n, core (f n) = core n) (hctxt : ∀ n c, n.ctxt.testBit c = true → (f n).ctxt.testBit c = true) :
    Grow a (amod a p f) := by
  have hs := ndOf_amod_sibling a p f hsib
  refine ⟨by rw [size_amod]; exact Nat.le_refl _, ?_, ?_, fun q _ x hx => reach_congr hs hx⟩
  · intro q hq
    rw [ndOf_modify a p f hq]
    split
    · exact hcore _
    · rfl
  · intro q hq c hc
    rw [ndOf_modify a p f hq]
    split
    · exact hctxt _ c hc
    · exact hc

/-- `succ` may change to a pointer whose chain covers the old children -/
theorem childMono_amod {a : Array PNode} {p : Nat} {f : PNode → PNode} (hsib : ∀ n, (f n).sibling = n.sibling)
    (hsucc : p < a.size → ∀ x, Reach a (ndOf a p).succ x → Reach a (f (ndOf a p)).succ x) : ChildMono a (amod a p f) := by
  have hs := ndOf_amod_sibling a p f hsib
  intro q hq x hx
  unfold Child at hx ⊢
  rw [ndOf_modify a p f hq]
  by_cases hpq : p = q
  · subst hpq
    simp only [if_true]
    exact reach_congr hs (hsucc hq x hx)
  · simp only [hpq, if_false]
    exact reach_congr hs hx

theorem grow_addCtxt (a : Array PNode) (p c : Nat) : Grow a (addCtxt a p c) := by
  unfold addCtxt
  apply grow_amod
  · intro n; rfl
  · intro n; rfl
  · intro n c' h
    show (n.ctxt ||| (1 <<< c)).testBit c' = true
    rw [Nat.testBit_or, h]; rfl

theorem childMono_addCtxt (a : Array PNode) (p c : Nat) : ChildMono a (addCtxt a p c) := by
  unfold addCtxt
  apply childMono_amod
  · intro n; rfl
  · intro _ x hx; exact hx

theorem ctxt_addCtxt (a : Array PNode) {p : Nat} (hp : p < a.size) (c : Nat) : (ndOf (addCtxt a p c) p).ctxt.testBit c = true := by
  unfold addCtxt
  rw [ndOf_modify a p _ hp]
  simp only [if_true, Nat.testBit_or, testBit_bit, decide_true, Bool.or_true]

theorem grow_setSucc (a : Array PNode) (p : Nat) (q : Option Nat) : Grow a (setSucc a p q) := by
  unfold setSucc
  apply grow_amod
  · intro n; rfl
  · intro n; rfl
  · intro n c' h; exact h

theorem childMono_setSucc {a : Array PNode} {p : Nat} {q : Option Nat} (h : p < a.size → ∀ x, Child a p x → Reach a q x) :
    ChildMono a (setSucc a p q) := by
  unfold setSucc
  apply childMono_amod
  · intro n; rfl
  · intro hp x hx; exact h hp x hx

theorem succ_setSucc (a : Array PNode) {p : Nat} (hp : p < a.size) (q : Option Nat) : (ndOf (setSucc a p q) p).succ = q := by
  unfold setSucc
  rw [ndOf_modify a p _ hp]
  simp

/-- a link added at the end of a chain loses nothing -/
theorem grow_setSibling {a : Array PNode} {t : Nat} {h : Option Nat} (ht : (ndOf a t).sibling = none) :
    Grow a (setSibling a t h) ∧ ChildMono a (setSibling a t h) := by
  have hreach : ∀ {o : Option Nat} {x : Nat}, Reach a o x → Reach (setSibling a t h) o x := by
    intro o x hr
    induction hr with
    | here => exact Reach.here
    | @next p x hpx ih =>
      by_cases hpt : p = t
      · subst hpt
        rw [ht] at hpx; cases hpx
      · refine Reach.next ?_
        have : (ndOf (setSibling a t h) p).sibling = (ndOf a p).sibling := by
          by_cases hp : p < a.size
          · unfold setSibling
            rw [ndOf_modify a t _ hp]
            simp [Ne.symm hpt]
          · unfold setSibling
            rw [ndOf_ge _ (by rw [size_amod]; omega), ndOf_ge _ (by omega)]
        rw [this]; exact ih
  have hsucc : ∀ q, (ndOf (setSibling a t h) q).succ = (ndOf a q).succ := by
    intro q
    by_cases hq : q < a.size
    · unfold setSibling
      rw [ndOf_modify a t _ hq]
      split <;> rfl
    · unfold setSibling
      rw [ndOf_ge _ (by rw [size_amod]; omega), ndOf_ge _ (by omega)]
  refine ⟨⟨by unfold setSibling; rw [size_amod]; exact Nat.le_refl _, ?_, ?_, fun _ _ _ hx => hreach hx⟩, ?_⟩
  · intro q hq
    unfold setSibling
    rw [ndOf_modify a t _ hq]
    split <;> rfl
  · intro q hq c hc
    unfold setSibling
    rw [ndOf_modify a t _ hq]
    split <;> exact hc
  · intro q _ x hx
    unfold Child at hx ⊢
    rw [hsucc]; exact hreach hx

theorem sibling_setSibling (a : Array PNode) {t : Nat} (ht : t < a.size) (h : Option Nat) :
    (ndOf (setSibling a t h) t).sibling = h := by
  unfold setSibling
  rw [ndOf_modify a t _ ht]
  simp

/-! ### what a path key reads of a pnode, monotone under `Grow` -/

/-- pnode `n` belongs to state `s`, has the given key fields, and its context set contains `c` (if given) -/
def Has (n : PNode) (s : Nat) (leaf : Bool) (link ssid tmat : Nat) (lp : Int) (ci : Nat) (c : Option Nat) : Prop :=
  core n = (s, leaf, link, ssid, tmat, lp, ci) ∧ ∀ x, c = some x → n.ctxt.testBit x = true

theorem Has.grow {a a' : Array PNode} (h : Grow a a') {r s : Nat} {leaf : Bool} {link ssid tmat : Nat} {lp : Int} {ci : Nat}
    {c : Option Nat} (hr : r < a.size) (hh : Has (ndOf a r) s leaf link ssid tmat lp ci c) :
    Has (ndOf a' r) s leaf link ssid tmat lp ci c :=
  ⟨by rw [h.stable r hr]; exact hh.1, fun x hx => h.ctxt r hr x (hh.2 x hx)⟩

theorem Has.fields {n : PNode} {s : Nat} {leaf : Bool} {link ssid tmat : Nat} {lp : Int} {ci : Nat} {c : Option Nat}
    (h : Has n s leaf link ssid tmat lp ci c) :
    n.owner = s ∧ n.leaf = leaf ∧ n.link = link ∧ n.ssid = ssid ∧ n.tmatid = tmat ∧ n.logs2prob = lp ∧ n.ciExt = ci := by
  have := h.1
  unfold core at this
  simp only [Prod.mk.injEq] at this
  exact this

/-- every context bit is set (`fsg_pnode_add_all_ctxt`) -/
def AllCtx (n : PNode) : Prop := ∀ c, c < 32 * SSVerif.Generated.Search.ctxtBvsz → n.ctxt.testBit c = true

theorem AllCtx.grow {a a' : Array PNode} (h : Grow a a') {r : Nat} (hr : r < a.size) (hh : AllCtx (ndOf a r)) : AllCtx (ndOf a' r) :=
  fun c hc => h.ctxt r hr c (hh c hc)

theorem allCtx_ctxtAll {n : PNode} (h : n.ctxt = ctxtAll) : AllCtx n := by
  intro c hc
  rw [h]
  unfold ctxtAll
  rw [Nat.testBit_two_pow_sub_one]
  simpa using hc

/-- a fold whose invariant mentions the prefix processed so far -/
theorem foldl_inv_prefix {σ α : Type} (P : List α → σ → Prop) (f : σ → α → σ) : ∀ (l done : List α) (st : σ),
    P done st → (∀ d st x, x ∈ l → P d st → P (d ++ [x]) (f st x)) → P (done ++ l) (l.foldl f st) := by
  intro l
  induction l with
  | nil => intro done st h _; simpa using h
  | cons x rest ih =>
    intro done st h hstep
    simp only [List.foldl_cons]
    have := ih (done ++ [x]) (f st x) (hstep done st x (List.mem_cons_self ..) h)
      (fun d st' y hy hp => hstep d st' y (List.mem_cons_of_mem _ hy) hp)
    simpa using this

/-! ### single-phone words -/

/-- what the loop over the left contexts of a single-phone word has established after the contexts `done` -/
structure LcG (li : LexIn) (s lid ci : Nat) (logp : Int) (a0 : Array PNode) (root0 : Option Nat) (done : List Nat)
    (st : LcSt) : Prop where
  grow : Grow a0 st.nodes
  rootReach : ∀ x, Reach a0 root0 x → Reach st.nodes st.root x
  lclReach : ∀ r ∈ st.lcl, Reach st.nodes st.root r
  data : ∀ r ∈ st.lcl, core (ndOf st.nodes r) =
    (s, true, lid, (ndOf st.nodes r).ssid, li.tmat ci, (logp >>> li.shift) + li.wip + li.pip, ci)
  cover : ∀ lc ∈ done, ∃ r ∈ st.lcl, Has (ndOf st.nodes r) s true lid (li.lrdiph ci lc) (li.tmat ci)
    ((logp >>> li.shift) + li.wip + li.pip) ci (some lc)

theorem find?_spec {l : List Nat} {q : Nat → Bool} {p : Nat} (h : l.find? q = some p) : p ∈ l ∧ q p = true :=
  ⟨List.mem_of_find?_eq_some h, List.find?_some h⟩

theorem core_ssid {n n' : PNode} (h : core n' = core n) : n'.ssid = n.ssid := by
  unfold core at h
  simp only [Prod.mk.injEq] at h
  exact h.2.2.2.1

theorem singleStep_grow {g : Fsg} {li : LexIn} {s lid ci : Nat} {logp : Int} {a0 a1 : Array PNode} {root0 : Option Nat}
    {done : List Nat} (st : LcSt) (lc : Nat) (h : LcInv g s a1 st) (hg : LcG li s lid ci logp a0 root0 done st) :
    LcG li s lid ci logp a0 root0 (done ++ [lc]) (singleStep li s lid ci logp st lc) := by
  unfold singleStep
  simp only
  have hrootv : ∀ y, st.root = some y → y < st.nodes.size := fun y hy => (h.root y hy).1
  split
  · rename_i p hf
    obtain ⟨hpm, hq⟩ := find?_spec hf
    have hp := (h.lcl p hpm).1
    have hgr := grow_addCtxt st.nodes p lc
    have hssid : (ndOf st.nodes p).ssid = li.lrdiph ci lc := by simpa using hq
    refine ⟨hg.grow.trans hgr, fun x hx => hgr.reachO hrootv (hg.rootReach x hx),
      fun r hr => hgr.reachO hrootv (hg.lclReach r hr), ?_, ?_⟩
    · intro r hr
      have hst := hgr.stable r (h.lcl r hr).1
      rw [hst, core_ssid hst]; exact hg.data r hr
    · intro l hl
      rcases List.mem_append.1 hl with h1 | h1
      · obtain ⟨r, hrm, hr⟩ := hg.cover l h1
        exact ⟨r, hrm, hr.grow hgr (h.lcl r hrm).1⟩
      · simp only [List.mem_singleton] at h1
        subst h1
        refine ⟨p, hpm, ?_, ?_⟩
        · rw [hgr.stable p hp, hg.data p hpm, hssid]
        · intro x hx; cases hx; exact ctxt_addCtxt st.nodes hp l
  · have hgr := grow_push h.inv (singleNode li s lid ci logp st.root lc)
    have hnew : ndOf (st.nodes.push (singleNode li s lid ci logp st.root lc)) st.nodes.size = singleNode li s lid ci logp st.root lc :=
      ndOf_push_eq _ _
    have hroot' : ∀ x, Reach st.nodes st.root x → Reach (st.nodes.push (singleNode li s lid ci logp st.root lc)) (some st.nodes.size) x := by
      intro x hx
      refine Reach.next ?_
      rw [hnew]
      exact hgr.reachO hrootv hx
    refine ⟨hg.grow.trans hgr, fun x hx => hroot' x (hg.rootReach x hx), ?_, ?_, ?_⟩
    · intro r hr
      rcases List.mem_cons.1 hr with h1 | h1
      · rw [h1]; exact Reach.here
      · exact hroot' r (hg.lclReach r h1)
    · intro r hr
      rcases List.mem_cons.1 hr with h1 | h1
      · rw [h1, hnew]; rfl
      · have hst := hgr.stable r (h.lcl r h1).1
        rw [hst, core_ssid hst]; exact hg.data r h1
    · intro l hl
      rcases List.mem_append.1 hl with h1 | h1
      · obtain ⟨r, hrm, hr⟩ := hg.cover l h1
        exact ⟨r, List.mem_cons_of_mem _ hrm, hr.grow hgr (h.lcl r hrm).1⟩
      · simp only [List.mem_singleton] at h1
        subst h1
        refine ⟨st.nodes.size, List.mem_cons_self .., ?_, ?_⟩
        · rw [hnew]; rfl
        · intro x hx; cases hx
          rw [hnew]
          show (1 <<< l).testBit l = true
          rw [testBit_bit]; simp

/-! ### every step of the construction only grows the array (`Grow`), and the root chain of the state -/

def RootMono (a : Array PNode) (root : Option Nat) (a' : Array PNode) (root' : Option Nat) : Prop :=
  ∀ x, Reach a root x → Reach a' root' x

theorem RootMono.trans {a b c : Array PNode} {r1 r2 r3 : Option Nat} (h1 : RootMono a r1 b r2) (h2 : RootMono b r2 c r3) :
    RootMono a r1 c r3 := fun x hx => h2 x (h1 x hx)

theorem rootMono_same {a a' : Array PNode} {root : Option Nat} (h : Grow a a') (hv : ∀ y, root = some y → y < a.size) :
    RootMono a root a' root := fun _ hx => h.reachO hv hx

/-- a new root pnode whose `sibling` is the old root -/
theorem rootMono_push {g : Fsg} {a : Array PNode} (inv : GInv g a) {root : Option Nat} (hv : ∀ y, root = some y → y < a.size)
    {n : PNode} (hn : n.sibling = root) : RootMono a root (a.push n) (some a.size) := by
  intro x hx
  refine Reach.next ?_
  rw [ndOf_push_eq, hn]
  exact (grow_push inv n).reachO hv hx

theorem singleStep_grow0 {g : Fsg} {li : LexIn} {s lid ci : Nat} {logp : Int} {a1 : Array PNode} (st : LcSt) (lc : Nat)
    (h : LcInv g s a1 st) :
    Grow st.nodes (singleStep li s lid ci logp st lc).nodes ∧
    RootMono st.nodes st.root (singleStep li s lid ci logp st lc).nodes (singleStep li s lid ci logp st lc).root := by
  have hv : ∀ y, st.root = some y → y < st.nodes.size := fun y hy => (h.root y hy).1
  unfold singleStep
  simp only
  split
  · exact ⟨grow_addCtxt _ _ _, rootMono_same (grow_addCtxt _ _ _) hv⟩
  · exact ⟨grow_push h.inv _, rootMono_push h.inv hv rfl⟩

theorem rootStep_grow0 {g : Fsg} {li : LexIn} {s ci rc : Nat} {a1 : Array PNode} (st : LcSt) (lc : Nat)
    (h : LcInv g s a1 st) :
    Grow st.nodes (rootStep li s ci rc st lc).nodes ∧
    RootMono st.nodes st.root (rootStep li s ci rc st lc).nodes (rootStep li s ci rc st lc).root := by
  have hv : ∀ y, st.root = some y → y < st.nodes.size := fun y hy => (h.root y hy).1
  unfold rootStep
  simp only
  split
  · exact ⟨grow_addCtxt _ _ _, rootMono_same (grow_addCtxt _ _ _) hv⟩
  · refine ⟨(grow_push h.inv _).trans (grow_addCtxt _ _ _), ?_⟩
    have h1 := rootMono_push h.inv hv (n := rootNode li s ci rc st.root lc) rfl
    exact h1.trans (rootMono_same (grow_addCtxt _ _ _) (fun y hy => by cases hy; rw [Array.size_push]; omega))

theorem leafStep_grow0 {g : Fsg} {li : LexIn} {s lid ci lc p : Nat} {logp : Int} {a0 : Array PNode} (st : RcSt) (rc : Nat)
    (h : RcInv g s a0 st) : Grow st.nodes (leafStep li s lid ci lc p logp st rc).nodes := by
  unfold leafStep
  split
  · exact grow_addCtxt _ _ _
  · exact (grow_push h.inv _).trans (grow_addCtxt _ _ _)

theorem grow_setSuccAll (id : Nat) : ∀ (l : List Nat) (a : Array PNode), Grow a (l.foldl (fun a r => setSucc a r (some id)) a) := by
  intro l
  induction l with
  | nil => intro a; exact Grow.refl a
  | cons r rest ih => intro a; exact (grow_setSucc a r _).trans (ih _)

/-- the end of a chain of a ranked, closed array has no sibling -/
theorem lastOf_none {g : Fsg} {a : Array PNode} (inv : GInv g a) (hr : Ranked a) {c : Nat} (hc : c < a.size) :
    (ndOf a (lastOf a a.size c)).sibling = none :=
  lastOf_end a a.size c (ranked_ends inv hr hc)

theorem attachOne_grow0 {g : Fsg} {a : Array PNode} (inv : GInv g a) (hr : Ranked a) {pred : Nat} (hp : pred < a.size)
    (head : Option Nat) : Grow a (attachOne a pred head) := by
  unfold attachOne
  split
  · exact grow_setSucc _ _ _
  · rename_i c hc
    exact (grow_setSibling (lastOf_none inv hr (inv.succClosed hp hc))).1

theorem attachRoots_grow0 {g : Fsg} {s : Nat} {head : Option Nat} : ∀ (l : List Nat) (a : Array PNode), GInv g a → Ranked a →
    (∀ x ∈ l, Valid a s x) → OValid a s head → Grow a (attachRoots a head l) := by
  intro l
  induction l with
  | nil => intro a _ _ _ _; exact Grow.refl a
  | cons r rest ih =>
    intro a inv hr hl hh
    have hrv := hl r (List.mem_cons_self ..)
    simp only [attachRoots]
    split
    · obtain ⟨hi, he⟩ := ginv_setSucc inv hrv hh
      exact (grow_setSucc a r head).trans (ih _ hi (ranked_setSucc hr _ _)
        (fun x hx => (hl x (List.mem_cons_of_mem _ hx)).ext he) (hh.ext he))
    · rename_i c hc
      exact (grow_setSibling (lastOf_none inv hr (inv.succClosed hrv.1 hc))).1

theorem phoneStep_grow0 {g : Fsg} {li : LexIn} {s lid : Nat} {w : WordInfo} {logp : Int} {rclist lcl : List Nat}
    {a0 : Array PNode} (hl : lid < g.links.size ∧ (g.link lid).src = s ∧ 0 ≤ (g.link lid).wid)
    (hlcl : ∀ x ∈ lcl, Valid a0 s x) (st : PhSt) (p : Nat) (h : PhInv g s a0 st) (hr : Ranked st.nodes) :
    Grow st.nodes (phoneStep li s lid w logp rclist lcl st p).nodes := by
  have hlcl' : ∀ x ∈ lcl, Valid st.nodes s x := fun x hx => (hlcl x hx).ext h.ext
  unfold phoneStep
  simp only
  split
  · split
    · exact Grow.refl _
    · split
      · exact (grow_push h.inv _).trans (grow_setSuccAll _ lcl _)
      · exact (grow_push h.inv _).trans (grow_setSucc _ _ _)
  · have hrr := foldl_inv (fun st' => (RcInv g s st.nodes st' ∧ RcR st.nodes st') ∧ Grow st.nodes st'.nodes)
        (leafStep li s lid (w.pron.getD p 0) (w.pron.getD (p - 1) 0) p logp) rclist { nodes := st.nodes }
        ⟨⟨⟨h.inv, Ext.refl _, nil_all, nil_all⟩,
          ⟨hr, Nat.le_refl _, fun _ _ => rfl, fun _ _ => rfl, fun x h1 h2 => absurd h2 (Nat.not_lt.2 h1), nil_all⟩⟩, Grow.refl _⟩
        (fun st' rc _ h' => ⟨⟨leafStep_inv hl st' rc h'.1.1, leafStep_ranked st' rc h'.1.1 h'.1.2⟩,
          h'.2.trans (leafStep_grow0 st' rc h'.1.1)⟩)
    obtain ⟨⟨hI, hR⟩, hG⟩ := hrr
    have hhd : OValid _ s (rclist.foldl (leafStep li s lid (w.pron.getD p 0) (w.pron.getD (p - 1) 0) p logp)
        { nodes := st.nodes }).rcl.head? := fun x hx => hI.rcl x (head?_mem hx)
    split
    · exact hG.trans (attachRoots_grow0 lcl _ hI.inv hR.ranked (fun x hx => (hlcl' x hx).ext hI.ext) hhd)
    · exact hG.trans (attachOne_grow0 hI.inv hR.ranked (h.pred.ext hI.ext).1 _)

/-- **`psubtree_add_trans` only grows the array and the root chain** -/
theorem addTrans_grow0 {g : Fsg} {li : LexIn} {s : Nat} {lclist rclist : List Nat} {a0 : Array PNode} (hlc : lclist ≠ [])
    (w0 : Bld) (lid : Nat) (hl : lid < g.links.size ∧ (g.link lid).src = s ∧ 0 ≤ (g.link lid).wid)
    (h : WInv g s a0 w0) (hr : WR w0) :
    Grow w0.nodes (addTrans li g s lclist rclist w0 lid).nodes ∧
    RootMono w0.nodes w0.root (addTrans li g s lclist rclist w0 lid).nodes (addTrans li g s lclist rclist w0 lid).root := by
  have hv : ∀ y, w0.root = some y → y < w0.nodes.size := fun y hy => (h.root y hy).1
  unfold addTrans
  simp only
  split
  · split
    · have hf := foldl_inv (fun st => LcInv g s w0.nodes st ∧ Grow w0.nodes st.nodes ∧ RootMono w0.nodes w0.root st.nodes st.root)
          (singleStep li s lid ((li.word (g.link lid).wid.toNat).pron.headD 0) (g.link lid).logp) lclist
          { nodes := w0.nodes, root := w0.root, lcl := [] }
          ⟨⟨h.inv, Ext.refl _, h.root, nil_all, nil_all⟩, Grow.refl _, fun _ hx => hx⟩
          (fun st lc _ h' => ⟨singleStep_inv hl st lc h'.1, h'.2.1.trans (singleStep_grow0 st lc h'.1).1,
            h'.2.2.trans (singleStep_grow0 st lc h'.1).2⟩)
      exact ⟨hf.2.1, hf.2.2⟩
    · exact ⟨grow_push h.inv _, rootMono_push h.inv hv rfl⟩
  · have hfresh : ∀ ci rc, ((LcInv g s w0.nodes (lclist.foldl (rootStep li s ci rc) { nodes := w0.nodes, root := w0.root, lcl := [] }) ∧
        LcR (lclist.foldl (rootStep li s ci rc) { nodes := w0.nodes, root := w0.root, lcl := [] })) ∧
        Grow w0.nodes (lclist.foldl (rootStep li s ci rc) { nodes := w0.nodes, root := w0.root, lcl := [] }).nodes ∧
        RootMono w0.nodes w0.root (lclist.foldl (rootStep li s ci rc) { nodes := w0.nodes, root := w0.root, lcl := [] }).nodes
          (lclist.foldl (rootStep li s ci rc) { nodes := w0.nodes, root := w0.root, lcl := [] }).root) ∧
        (lclist.foldl (rootStep li s ci rc) { nodes := w0.nodes, root := w0.root, lcl := [] }).root.isSome = true := by
      intro ci rc
      refine ⟨foldl_inv (fun st => (LcInv g s w0.nodes st ∧ LcR st) ∧ Grow w0.nodes st.nodes ∧ RootMono w0.nodes w0.root st.nodes st.root)
        _ lclist _ ⟨⟨⟨h.inv, Ext.refl _, h.root, nil_all, nil_all⟩, ⟨hr.ranked, List.nodup_nil⟩⟩, Grow.refl _, fun _ hx => hx⟩
        (fun st lc _ h' => ⟨⟨rootStep_inv st lc h'.1.1, rootStep_ranked st lc h'.1.1 h'.1.2⟩,
          h'.2.1.trans (rootStep_grow0 st lc h'.1.1).1, h'.2.2.trans (rootStep_grow0 st lc h'.1.1).2⟩), ?_⟩
      cases lclist with
      | nil => exact absurd rfl hlc
      | cons x rest =>
        simp only [List.foldl_cons]
        exact (rootFold_root li s ci rc rest _ (rootStep_root li s ci rc _ x (Or.inl rfl))).2
    have key : ∀ (a1 : Array PNode) (lcl : List Nat) (pred : Nat), GInv g a1 → (∀ x ∈ lcl, Valid a1 s x) → lcl.Nodup →
        Valid a1 s pred → Ranked a1 →
        Grow a1 (((List.range (li.word (g.link lid).wid.toNat).pron.length).drop 1).foldl
          (phoneStep li s lid (li.word (g.link lid).wid.toNat) (g.link lid).logp rclist lcl) { nodes := a1, pred }).nodes := by
      intro a1 lcl pred h1 hlcl hnd hpred hrk
      exact (foldl_inv (fun st => (PhInv g s a1 st ∧ Ranked st.nodes) ∧ Grow a1 st.nodes) _ _ _
        ⟨⟨⟨h1, Ext.refl _, hpred⟩, hrk⟩, Grow.refl _⟩
        (fun st p _ h' => ⟨⟨phoneStep_inv hl hlcl st p h'.1.1, phoneStep_ranked hl hlcl hnd st p h'.1.1 h'.1.2⟩,
          h'.2.trans (phoneStep_grow0 hl hlcl st p h'.1.1 h'.1.2)⟩)).2
    split
    · rename_i i e hf
      have hmem := findG_mem _ _ _ _ _ _ hf
      split
      · rename_i hne
        have hpred : Valid w0.nodes s (e.list.headD 0) := by
          cases hel : e.list with
          | nil => rw [hel] at hne; simp at hne
          | cons y ys => exact h.glists e hmem y (by rw [hel]; exact List.mem_cons_self ..)
        have hG := key w0.nodes e.list (e.list.headD 0) h.inv (fun x hx => h.glists e hmem x hx) (hr.nodup e hmem) hpred hr.ranked
        exact ⟨hG, rootMono_same hG hv⟩
      · obtain ⟨⟨⟨hI, hR⟩, hG, hM⟩, hsome⟩ := hfresh ((li.word (g.link lid).wid.toNat).pron.headD 0) ((li.word (g.link lid).wid.toNat).pron.getD 1 0)
        have hG2 := key _ _ ((lclist.foldl (rootStep li s ((li.word (g.link lid).wid.toNat).pron.headD 0)
            ((li.word (g.link lid).wid.toNat).pron.getD 1 0)) { nodes := w0.nodes, root := w0.root, lcl := [] }).root.getD 0)
          hI.inv hI.lcl hR.nodup (by
            cases hroot : (lclist.foldl (rootStep li s ((li.word (g.link lid).wid.toNat).pron.headD 0)
                ((li.word (g.link lid).wid.toNat).pron.getD 1 0)) { nodes := w0.nodes, root := w0.root, lcl := [] }).root with
            | none => rw [hroot] at hsome; cases hsome
            | some r => exact hI.root r hroot) hR.ranked
        exact ⟨hG.trans hG2, hM.trans (rootMono_same hG2 (fun y hy => (hI.root y hy).1))⟩
    · obtain ⟨⟨⟨hI, hR⟩, hG, hM⟩, hsome⟩ := hfresh ((li.word (g.link lid).wid.toNat).pron.headD 0) ((li.word (g.link lid).wid.toNat).pron.getD 1 0)
      have hG2 := key _ _ ((lclist.foldl (rootStep li s ((li.word (g.link lid).wid.toNat).pron.headD 0)
            ((li.word (g.link lid).wid.toNat).pron.getD 1 0)) { nodes := w0.nodes, root := w0.root, lcl := [] }).root.getD 0)
          hI.inv hI.lcl hR.nodup (by
          cases hroot : (lclist.foldl (rootStep li s ((li.word (g.link lid).wid.toNat).pron.headD 0)
              ((li.word (g.link lid).wid.toNat).pron.getD 1 0)) { nodes := w0.nodes, root := w0.root, lcl := [] }).root with
          | none => rw [hroot] at hsome; cases hsome
          | some r => exact hI.root r hroot) hR.ranked
      exact ⟨hG.trans hG2, hM.trans (rootMono_same hG2 (fun y hy => (hI.root y hy).1))⟩

/-! ### single-phone words and fillers: a root that is a leaf, for every left context -/

/-- arc `lid` (a single-phone word) is in the root chain `root` of state `s`: a filler as one leaf that accepts every
context and presents silence; any other word as, for every left context, a leaf with the ssid of that context -/
def SingleOK (li : LexIn) (g : Fsg) (s : Nat) (lclist : List Nat) (a : Array PNode) (root : Option Nat) (lid : Nat) : Prop :=
  if (li.word (g.link lid).wid.toNat).dictFiller then
    ∃ r, r < a.size ∧ Reach a root r ∧
      Has (ndOf a r) s true lid (li.ciSsid ((li.word (g.link lid).wid.toNat).pron.headD 0))
        (li.tmat ((li.word (g.link lid).wid.toNat).pron.headD 0))
        (((g.link lid).logp >>> li.shift) + li.wip + li.pip) li.sil none ∧ AllCtx (ndOf a r)
  else
    ∀ lc ∈ lclist, ∃ r, r < a.size ∧ Reach a root r ∧
      Has (ndOf a r) s true lid (li.lrdiph ((li.word (g.link lid).wid.toNat).pron.headD 0) lc)
        (li.tmat ((li.word (g.link lid).wid.toNat).pron.headD 0))
        (((g.link lid).logp >>> li.shift) + li.wip + li.pip) ((li.word (g.link lid).wid.toNat).pron.headD 0) (some lc)

theorem SingleOK.mono {li : LexIn} {g : Fsg} {s : Nat} {lclist : List Nat} {a a' : Array PNode} {root root' : Option Nat} {lid : Nat}
    (h : SingleOK li g s lclist a root lid) (hg : Grow a a') (hm : RootMono a root a' root') :
    SingleOK li g s lclist a' root' lid := by
  unfold SingleOK at h ⊢
  split
  · rename_i hf
    simp only [hf, if_true] at h
    obtain ⟨r, h1, h2, h3, h4⟩ := h
    exact ⟨r, Nat.lt_of_lt_of_le h1 hg.size, hm r h2, h3.grow hg h1, h4.grow hg h1⟩
  · rename_i hf
    simp only [hf] at h
    intro lc hlc
    obtain ⟨r, h1, h2, h3⟩ := h lc hlc
    exact ⟨r, Nat.lt_of_lt_of_le h1 hg.size, hm r h2, h3.grow hg h1⟩

theorem addTrans_single {g : Fsg} {li : LexIn} {s : Nat} {lclist rclist : List Nat} {a0 : Array PNode}
    (w0 : Bld) (lid : Nat) (hl : lid < g.links.size ∧ (g.link lid).src = s ∧ 0 ≤ (g.link lid).wid)
    (h : WInv g s a0 w0) (h1 : (li.word (g.link lid).wid.toNat).pron.length = 1) :
    SingleOK li g s lclist (addTrans li g s lclist rclist w0 lid).nodes (addTrans li g s lclist rclist w0 lid).root lid := by
  unfold addTrans SingleOK
  simp only [h1, if_true]
  by_cases hf : (li.word (g.link lid).wid.toNat).dictFiller = true
  · simp only [hf, Bool.not_true, Bool.false_eq_true, if_false, if_true]
    refine ⟨w0.nodes.size, by rw [Array.size_push]; omega, Reach.here, ?_, ?_⟩
    · rw [ndOf_push_eq]; exact ⟨rfl, fun x hx => by cases hx⟩
    · rw [ndOf_push_eq]; exact allCtx_ctxtAll rfl
  · have hf' : (li.word (g.link lid).wid.toNat).dictFiller = false := by simpa using hf
    simp only [hf', Bool.not_false, if_true, Bool.false_eq_true, if_false]
    have hfold := foldl_inv_prefix
      (fun done st => LcInv g s w0.nodes st ∧ LcG li s lid ((li.word (g.link lid).wid.toNat).pron.headD 0) (g.link lid).logp
        w0.nodes w0.root done st)
      (singleStep li s lid ((li.word (g.link lid).wid.toNat).pron.headD 0) (g.link lid).logp) lclist []
      { nodes := w0.nodes, root := w0.root, lcl := [] }
      ⟨⟨h.inv, Ext.refl _, h.root, nil_all, nil_all⟩, ⟨Grow.refl _, fun _ hx => hx, nil_all, nil_all, nil_all⟩⟩
      (fun d st lc _ h' => ⟨singleStep_inv hl st lc h'.1, singleStep_grow st lc h'.1 h'.2⟩)
    simp only [List.nil_append] at hfold
    obtain ⟨hI, hG⟩ := hfold
    intro lc hlc
    obtain ⟨r, hrm, hr⟩ := hG.cover lc hlc
    exact ⟨r, (hI.lcl r hrm).1, hG.lclReach r hrm, hr⟩

/-! ### one state, all states -/

/-- the word arcs leaving `s`, in the order `fsg_psubtree_init` processes them -/
def stateArcs (g : Fsg) (s : Nat) : List Nat := (arcsOf g s).filter fun lid => 0 ≤ (g.link lid).wid

theorem mem_stateArcs {g : Fsg} {s lid : Nat} (h : lid ∈ stateArcs g s) :
    lid < g.links.size ∧ (g.link lid).src = s ∧ 0 ≤ (g.link lid).wid := by
  have h1 := List.mem_filter.1 h
  have h2 := List.mem_filter.1 h1.1
  exact ⟨List.mem_range.1 h2.1, by simpa using h2.2, by simpa using h1.2⟩

theorem buildState_single {g : Fsg} {li : LexIn} {lcs rcs : Array Nat} {nodes : Array PNode} {s : Nat}
    (hlc : ctxList li (lcs.getD s 0) ≠ []) (inv : GInv g nodes) (hr : Ranked nodes) :
    Grow nodes (buildState li g lcs rcs nodes s).1 ∧
    ∀ lid ∈ stateArcs g s, (li.word (g.link lid).wid.toNat).pron.length = 1 →
      SingleOK li g s (ctxList li (lcs.getD s 0)) (buildState li g lcs rcs nodes s).1 (buildState li g lcs rcs nodes s).2 lid := by
  have h := foldl_inv_prefix
    (fun done w => (WInv g s nodes w ∧ WR w) ∧ Grow nodes w.nodes ∧
      ∀ lid ∈ done, (li.word (g.link lid).wid.toNat).pron.length = 1 →
        SingleOK li g s (ctxList li (lcs.getD s 0)) w.nodes w.root lid)
    (fun w lid => addTrans li g s (ctxList li (lcs.getD s 0)) (ctxList li (rcs.getD (g.link lid).dst 0)) w lid)
    (stateArcs g s) [] { nodes := nodes }
    ⟨⟨⟨inv, Ext.refl _, ovalid_none _ _, nil_all⟩, ⟨hr, nil_all⟩⟩, Grow.refl _, nil_all⟩
    (fun d w lid hm hw => by
      have hl := mem_stateArcs hm
      obtain ⟨hG, hM⟩ := addTrans_grow0 (li := li) (rclist := ctxList li (rcs.getD (g.link lid).dst 0)) hlc w lid hl hw.1.1 hw.1.2
      refine ⟨⟨addTrans_inv hlc w lid hl hw.1.1, addTrans_ranked hlc w lid hl hw.1.1 hw.1.2⟩, hw.2.1.trans hG, ?_⟩
      intro x hx h1
      rcases List.mem_append.1 hx with h2 | h2
      · exact (hw.2.2 x h2 h1).mono hG hM
      · simp only [List.mem_singleton] at h2
        subst h2
        exact addTrans_single w x hl hw.1.1 h1)
  simp only [List.nil_append] at h
  exact ⟨h.2.1, h.2.2⟩

/-- from the arcs of one state to the arcs of all states: a per-arc fact `Q s a root lid` that `fsg_psubtree_init`
establishes for the arcs of its state and that is kept by everything built later -/
theorem buildFold_arcs (li : LexIn) (g : Fsg) (hsil : li.sil < li.nCi) (R : Array PNode → Array PNode → Prop)
    (_hRG : ∀ a a', R a a' → Grow a a') (Q : Nat → Array PNode → Option Nat → Nat → Prop)
    (hmono : ∀ s a a' root lid, Q s a root lid → R a a' → (∀ y, root = some y → y < a.size) → Q s a' root lid)
    (hstate : ∀ s nodes, s < li.nState → GInv g nodes → Ranked nodes →
      R nodes (buildState li g (ctxFlags li g).1 (ctxFlags li g).2 nodes s).1 ∧
      ∀ lid ∈ stateArcs g s, Q s (buildState li g (ctxFlags li g).1 (ctxFlags li g).2 nodes s).1
        (buildState li g (ctxFlags li g).1 (ctxFlags li g).2 nodes s).2 lid) :
    ∀ n, n ≤ li.nState → ∀ s, s < n → ∀ lid ∈ stateArcs g s,
      Q s ((List.range n).foldl (buildStep li g) (#[], #[])).1 (((List.range n).foldl (buildStep li g) (#[], #[])).2.getD s none) lid := by
  intro n
  induction n with
  | zero => intro _ s hs; omega
  | succ n ih =>
    intro hn s hs lid hlid
    obtain ⟨hi, hsz, hroots⟩ := buildFold_inv li g hsil n (by omega)
    have hr := buildFold_ranked li g hsil n (by omega)
    have ih' := ih (by omega)
    rw [List.range_succ, List.foldl_append]
    simp only [List.foldl_cons, List.foldl_nil]
    generalize (List.range n).foldl (buildStep li g) (#[], #[]) = acc at hi hsz hroots hr ih'
    obtain ⟨hR, hQ⟩ := hstate n acc.1 (by omega) hi hr
    show Q s (buildState li g (ctxFlags li g).1 (ctxFlags li g).2 acc.1 n).1
      ((acc.2.push (buildState li g (ctxFlags li g).1 (ctxFlags li g).2 acc.1 n).2).getD s none) lid
    by_cases hsn : s < n
    · have : (acc.2.push (buildState li g (ctxFlags li g).1 (ctxFlags li g).2 acc.1 n).2).getD s none = acc.2.getD s none := by
        simp [Array.getD, hsz, hsn, Array.getElem_push, Nat.lt_succ_of_lt hsn]
      rw [this]
      exact hmono s _ _ _ lid (ih' s hsn lid hlid) hR (fun y hy => (hroots s hsn y hy).1)
    · have hs' : s = n := by omega
      subst hs'
      have : (acc.2.push (buildState li g (ctxFlags li g).1 (ctxFlags li g).2 acc.1 s).2).getD s none =
          (buildState li g (ctxFlags li g).1 (ctxFlags li g).2 acc.1 s).2 := by
        simp [Array.getD, hsz, Array.getElem_push]
      rw [this]
      exact hQ lid hlid

/-! ### from reachability to the lists `roots` / `children` of the lextree -/

theorem chain_eq (lt : LexTree) : ∀ (k : Nat) (o : Option Nat), lt.chain k o = chainA lt.nodes k o := by
  intro k
  induction k with
  | zero => intro o; cases o <;> rfl
  | succ k ih =>
    intro o
    cases o with
    | none => rfl
    | some p => simp only [LexTree.chain, chainA]; rw [ih]; rfl

/-- a chain that ends within the fuel lists everything it reaches -/
theorem reach_mem_chainA (a : Array PNode) : ∀ (k : Nat) {o : Option Nat} {x : Nat}, Reach a o x →
    chainEndsA a k o = true → x ∈ chainA a k o := by
  intro k
  induction k with
  | zero =>
    intro o x h he
    cases h <;> simp [chainEndsA] at he
  | succ k ih =>
    intro o x h he
    cases h with
    | here => simp [chainA]
    | next hn =>
      simp only [chainEndsA] at he
      simp only [chainA]
      exact List.mem_cons_of_mem _ (ih hn he)

/-- **single-phone words and fillers of the flat network are in the lextree the code builds**: for every word arc
`lid` leaving a state `s` whose word has one phone — a filler: one root/leaf pnode of `root[s]` that carries the arc,
presents silence, accepts every context and has the context-independent ssid; any other word: for every left context
`lc` of `s` a root/leaf pnode of `root[s]` that carries the arc, presents the phone, has `lc` in its context set and the
ssid of `(phone, lc, SIL)` -/
theorem build_single (li : LexIn) (g : Fsg) (hsil : li.sil < li.nCi) {s : Nat} (hs : s < li.nState) {lid : Nat}
    (hlid : lid ∈ stateArcs g s) (h1 : (li.word (g.link lid).wid.toNat).pron.length = 1) :
    if (li.word (g.link lid).wid.toNat).dictFiller then
      ∃ r ∈ (buildLexTree li g).roots s,
        Has ((buildLexTree li g).node r) s true lid (li.ciSsid ((li.word (g.link lid).wid.toNat).pron.headD 0))
          (li.tmat ((li.word (g.link lid).wid.toNat).pron.headD 0))
          (((g.link lid).logp >>> li.shift) + li.wip + li.pip) li.sil none ∧ AllCtx ((buildLexTree li g).node r)
    else
      ∀ lc ∈ ctxList li ((ctxFlags li g).1.getD s 0), ∃ r ∈ (buildLexTree li g).roots s,
        Has ((buildLexTree li g).node r) s true lid (li.lrdiph ((li.word (g.link lid).wid.toNat).pron.headD 0) lc)
          (li.tmat ((li.word (g.link lid).wid.toNat).pron.headD 0))
          (((g.link lid).logp >>> li.shift) + li.wip + li.pip) ((li.word (g.link lid).wid.toNat).pron.headD 0) (some lc) := by
  have hQ := buildFold_arcs li g hsil Grow (fun _ _ h => h)
    (fun s a root lid => (li.word (g.link lid).wid.toNat).pron.length = 1 →
      SingleOK li g s (ctxList li ((ctxFlags li g).1.getD s 0)) a root lid)
    (fun s a a' root lid hq hR hv h1 => (hq h1).mono hR (rootMono_same hR hv))
    (fun s nodes hs hi hr => buildState_single (ctxList_ne_nil li g hsil hs) hi hr)
    li.nState (Nat.le_refl _) s hs lid hlid h1
  obtain ⟨hi, hsz, hroots⟩ := buildFold_inv li g hsil li.nState (Nat.le_refl _)
  have hrk := buildFold_ranked li g hsil li.nState (Nat.le_refl _)
  have hmem : ∀ r, Reach (buildLexTree li g).nodes ((buildLexTree li g).root.getD s none) r → r ∈ (buildLexTree li g).roots s := by
    intro r hr
    unfold LexTree.roots
    rw [chain_eq]
    refine reach_mem_chainA _ _ hr ?_
    cases hroot : (buildLexTree li g).root.getD s none with
    | none => exact chainEndsA_none _ _
    | some y => exact ranked_ends (g := g) hi hrk (hroots s hs y hroot).1
  unfold SingleOK at hQ
  split
  · rename_i hf
    simp only [hf, if_true] at hQ
    obtain ⟨r, _, h2, h3, h4⟩ := hQ
    exact ⟨r, hmem r h2, h3, h4⟩
  · rename_i hf
    simp only [hf] at hQ
    intro lc hlc
    obtain ⟨r, _, h2, h3⟩ := hQ lc hlc
    exact ⟨r, hmem r h2, h3⟩

/-! ### multi-phone words: the exact facts about the shared root sets

The roots of one `(ci, rc)` set share ONE child chain ("all entries of lc_pnodelist point to the same array").  That they
keep doing so needs exact facts: a root pnode never becomes a child (`NoPar`), so the predecessor the construction
descends to from position 2 on is never a root of a shared set. -/

/-- `r` is nobody's child -/
def NoPar (a : Array PNode) (r : Nat) : Prop := ∀ p, ¬ Child a p r

theorem reach_push_rev {g : Fsg} {a : Array PNode} (inv : GInv g a) (n : PNode) : ∀ {o : Option Nat} {x : Nat},
    Reach (a.push n) o x → (∀ y, o = some y → y < a.size) → Reach a o x := by
  intro o x h
  induction h with
  | here => intro _; exact Reach.here
  | @next p x hpx ih =>
    intro ho
    have hp := ho p rfl
    refine Reach.next ?_
    rw [ndOf_push_lt a n hp] at hpx ih
    exact ih (fun y hy => inv.sibClosed hp hy)

theorem noPar_push {g : Fsg} {a : Array PNode} (inv : GInv g a) {n : PNode} (hn : n.succ = none) {r : Nat}
    (h : NoPar a r) : NoPar (a.push n) r := by
  intro p hc
  unfold Child at hc
  by_cases hp : p < a.size
  · rw [ndOf_push_lt a n hp] at hc
    exact h p (reach_push_rev inv n hc (fun y hy => inv.succClosed hp hy))
  · by_cases hp2 : p = a.size
    · subst hp2
      rw [ndOf_push_eq, hn] at hc; cases hc
    · rw [ndOf_ge _ (by rw [Array.size_push]; omega)] at hc; cases hc

/-- a freshly pushed pnode is nobody's child -/
theorem noPar_new {g : Fsg} {a : Array PNode} (inv : GInv g a) {n : PNode} (hn : n.succ = none) : NoPar (a.push n) a.size := by
  intro p hc
  unfold Child at hc
  by_cases hp : p < a.size
  · rw [ndOf_push_lt a n hp] at hc
    have := reach_lt inv (reach_push_rev inv n hc (fun y hy => inv.succClosed hp hy)) (fun y hy => inv.succClosed hp hy)
    omega
  · by_cases hp2 : p = a.size
    · subst hp2
      rw [ndOf_push_eq, hn] at hc; cases hc
    · rw [ndOf_ge _ (by rw [Array.size_push]; omega)] at hc; cases hc

theorem ndOf_amod_succ (a : Array PNode) (p : Nat) (f : PNode → PNode) (hf : ∀ n, (f n).succ = n.succ) (q : Nat) :
    (ndOf (amod a p f) q).succ = (ndOf a q).succ := by
  by_cases hq : q < a.size
  · exact succ_amod a p f hf hq
  · rw [ndOf_ge _ (by rw [size_amod]; omega), ndOf_ge _ (by omega)]

theorem succ_addCtxt' (a : Array PNode) (p c q : Nat) : (ndOf (addCtxt a p c) q).succ = (ndOf a q).succ := by
  unfold addCtxt
  apply ndOf_amod_succ
  intro n; rfl

theorem sibling_addCtxt' (a : Array PNode) (p c q : Nat) : (ndOf (addCtxt a p c) q).sibling = (ndOf a q).sibling := by
  unfold addCtxt
  apply ndOf_amod_sibling
  intro n; rfl

theorem noPar_addCtxt {a : Array PNode} (p c : Nat) {r : Nat} (h : NoPar a r) : NoPar (addCtxt a p c) r := by
  intro q hc
  unfold Child at hc
  rw [succ_addCtxt'] at hc
  exact h q (reach_congr (a := addCtxt a p c) (a' := a) (fun q' => (sibling_addCtxt' a p c q').symm) hc)

theorem sibling_setSucc' (a : Array PNode) (p : Nat) (o : Option Nat) (q : Nat) :
    (ndOf (setSucc a p o) q).sibling = (ndOf a q).sibling := by
  unfold setSucc
  apply ndOf_amod_sibling
  intro n; rfl

theorem succ_setSucc_ne (a : Array PNode) {p q : Nat} (o : Option Nat) (h : p ≠ q) :
    (ndOf (setSucc a p o) q).succ = (ndOf a q).succ := by
  by_cases hq : q < a.size
  · unfold setSucc
    rw [ndOf_modify a p _ hq]
    simp [h]
  · unfold setSucc
    rw [ndOf_ge _ (by rw [size_amod]; omega), ndOf_ge _ (by omega)]

theorem noPar_setSucc {a : Array PNode} {t : Nat} {q : Option Nat} {r : Nat} (h : NoPar a r) (hq : ¬ Reach a q r) :
    NoPar (setSucc a t q) r := by
  intro p hc
  unfold Child at hc
  have hc' := reach_congr (a := setSucc a t q) (a' := a) (fun q' => (sibling_setSucc' a t q q').symm) hc
  by_cases hpt : t = p
  · subst hpt
    by_cases ht : t < a.size
    · rw [succ_setSucc a ht] at hc'
      exact hq hc'
    · rw [ndOf_ge _ (by rw [size_setSucc]; omega)] at hc'; cases hc'
  · rw [succ_setSucc_ne a q hpt] at hc'
    exact h p hc'

theorem reach_setSibling_rev {a : Array PNode} {t : Nat} {h : Option Nat} : ∀ {o : Option Nat} {x : Nat},
    Reach (setSibling a t h) o x → Reach a o x ∨ Reach a h x := by
  intro o x hr
  induction hr with
  | here => exact Or.inl Reach.here
  | @next p x hpx ih =>
    by_cases hpt : p = t
    · subst hpt
      by_cases hp : p < a.size
      · rw [sibling_setSibling a hp] at ih
        rcases ih with h1 | h1 <;> exact Or.inr h1
      · rw [ndOf_ge _ (by unfold setSibling; rw [size_amod]; omega)] at hpx; cases hpx
    · have : (ndOf (setSibling a t h) p).sibling = (ndOf a p).sibling := by
        by_cases hp : p < a.size
        · unfold setSibling
          rw [ndOf_modify a t _ hp]
          simp [Ne.symm hpt]
        · unfold setSibling
          rw [ndOf_ge _ (by rw [size_amod]; omega), ndOf_ge _ (by omega)]
      rw [this] at ih
      rcases ih with h1 | h1
      · exact Or.inl (Reach.next h1)
      · exact Or.inr h1

theorem succ_setSibling' (a : Array PNode) (t : Nat) (h : Option Nat) (q : Nat) :
    (ndOf (setSibling a t h) q).succ = (ndOf a q).succ := by
  unfold setSibling
  apply ndOf_amod_succ
  intro n; rfl

theorem noPar_setSibling {a : Array PNode} {t : Nat} {h : Option Nat} {r : Nat} (hn : NoPar a r) (hh : ¬ Reach a h r) :
    NoPar (setSibling a t h) r := by
  intro p hc
  unfold Child at hc
  rw [succ_setSibling'] at hc
  rcases reach_setSibling_rev hc with h1 | h1
  · exact hn p h1
  · exact hh h1

/-- a chain that starts among the new pnodes `≥ g0`, whose siblings are new, stays among them -/
theorem reach_new {a : Array PNode} {g0 : Nat}
    (hnew : ∀ x, g0 ≤ x → x < a.size → ∀ y, (ndOf a x).sibling = some y → g0 ≤ y) (hcl : ∀ x, x < a.size → ∀ y, (ndOf a x).sibling = some y → y < a.size) :
    ∀ {o : Option Nat} {x : Nat}, Reach a o x → (∀ y, o = some y → g0 ≤ y ∧ y < a.size) → g0 ≤ x := by
  intro o x h
  induction h with
  | here => intro ho; exact (ho _ rfl).1
  | @next p x _ ih =>
    intro ho
    obtain ⟨h1, h2⟩ := ho p rfl
    exact ih (fun y hy => ⟨hnew p h1 h2 y hy, hcl p h2 y hy⟩)

/-- steps that change no `succ` and give no old pnode a new parent (allocation, context bits) -/
structure Quiet (a a' : Array PNode) : Prop where
  size : a.size ≤ a'.size
  noPar : ∀ r, r < a.size → NoPar a r → NoPar a' r
  succ : ∀ r, r < a.size → (ndOf a' r).succ = (ndOf a r).succ
  child : ChildMono a a'

theorem Quiet.refl (a : Array PNode) : Quiet a a := ⟨Nat.le_refl _, fun _ _ h => h, fun _ _ => rfl, fun _ _ _ h => h⟩

theorem Quiet.trans {a b c : Array PNode} (h1 : Quiet a b) (h2 : Quiet b c) : Quiet a c :=
  ⟨Nat.le_trans h1.size h2.size, fun r hr h => h2.noPar r (Nat.lt_of_lt_of_le hr h1.size) (h1.noPar r hr h),
   fun r hr => by rw [h2.succ r (Nat.lt_of_lt_of_le hr h1.size), h1.succ r hr],
   fun p hp x hx => h2.child p (Nat.lt_of_lt_of_le hp h1.size) x (h1.child p hp x hx)⟩

theorem quiet_push {g : Fsg} {a : Array PNode} (inv : GInv g a) {n : PNode} (hn : n.succ = none) : Quiet a (a.push n) :=
  ⟨by rw [Array.size_push]; omega, fun _ _ h => noPar_push inv hn h, fun r hr => by rw [ndOf_push_lt a n hr], childMono_push inv n⟩

theorem quiet_addCtxt (a : Array PNode) (p c : Nat) : Quiet a (addCtxt a p c) :=
  ⟨by rw [size_addCtxt]; exact Nat.le_refl _, fun _ _ h => noPar_addCtxt p c h, fun r _ => succ_addCtxt' a p c r, childMono_addCtxt a p c⟩

theorem singleStep_quiet {g : Fsg} {li : LexIn} {s lid ci : Nat} {logp : Int} {a1 : Array PNode} (st : LcSt) (lc : Nat)
    (h : LcInv g s a1 st) : Quiet st.nodes (singleStep li s lid ci logp st lc).nodes := by
  unfold singleStep
  simp only
  split
  · exact quiet_addCtxt _ _ _
  · exact quiet_push h.inv rfl

theorem rootStep_quiet {g : Fsg} {li : LexIn} {s ci rc : Nat} {a1 : Array PNode} (st : LcSt) (lc : Nat)
    (h : LcInv g s a1 st) : Quiet st.nodes (rootStep li s ci rc st lc).nodes := by
  unfold rootStep
  simp only
  split
  · exact quiet_addCtxt _ _ _
  · exact (quiet_push h.inv rfl).trans (quiet_addCtxt _ _ _)

theorem leafStep_quiet {g : Fsg} {li : LexIn} {s lid ci lc p : Nat} {logp : Int} {a0 : Array PNode} (st : RcSt) (rc : Nat)
    (h : RcInv g s a0 st) : Quiet st.nodes (leafStep li s lid ci lc p logp st rc).nodes := by
  unfold leafStep
  split
  · exact quiet_addCtxt _ _ _
  · exact (quiet_push h.inv rfl).trans (quiet_addCtxt _ _ _)

/-- the exact facts about the root sets `gl` of the state under construction -/
structure GX (gl : List GEntry) (a : Array PNode) : Prop where
  lt : ∀ e ∈ gl, ∀ r ∈ e.list, r < a.size
  noPar : ∀ e ∈ gl, ∀ r ∈ e.list, NoPar a r
  same : ∀ e ∈ gl, ∀ r ∈ e.list, ∀ r' ∈ e.list, (ndOf a r).succ = (ndOf a r').succ
  disj : ∀ e ∈ gl, ∀ e' ∈ gl, ∀ x, x ∈ e.list → x ∈ e'.list → e.list = e'.list

theorem GX.quiet {gl : List GEntry} {a a' : Array PNode} (h : GX gl a) (q : Quiet a a') : GX gl a' :=
  ⟨fun e he r hr => Nat.lt_of_lt_of_le (h.lt e he r hr) q.size,
   fun e he r hr => q.noPar r (h.lt e he r hr) (h.noPar e he r hr),
   fun e he r hr r' hr' => by rw [q.succ r (h.lt e he r hr), q.succ r' (h.lt e he r' hr')]; exact h.same e he r hr r' hr',
   h.disj⟩

/-- a pnode that is somebody's child is not a root of a shared set -/
theorem GX.child_not_root {gl : List GEntry} {a : Array PNode} (h : GX gl a) {p q : Nat} (hc : Child a p q) :
    ∀ e ∈ gl, q ∉ e.list := fun e he hq => h.noPar e he q hq p hc

/-- `setSucc` over all roots of a set: every one of them gets the new child in front of the shared chain -/
theorem setSuccAll_spec (id : Nat) (sv : Option Nat) : ∀ (l : List Nat) (a : Array PNode), l.Nodup → (∀ r ∈ l, r < a.size) →
    (∀ r ∈ l, (ndOf a r).succ = sv) → (ndOf a id).sibling = sv →
    ChildMono a (l.foldl (fun a r => setSucc a r (some id)) a) ∧
    (∀ q, (ndOf (l.foldl (fun a r => setSucc a r (some id)) a) q).sibling = (ndOf a q).sibling) ∧
    (∀ r ∈ l, (ndOf (l.foldl (fun a r => setSucc a r (some id)) a) r).succ = some id) ∧
    (∀ r, r ∉ l → (ndOf (l.foldl (fun a r => setSucc a r (some id)) a) r).succ = (ndOf a r).succ) := by
  intro l
  induction l with
  | nil => intro a _ _ _ _; exact ⟨fun _ _ _ h => h, fun _ => rfl, nil_all, fun _ _ => rfl⟩
  | cons r rest ih =>
    intro a hnd hlt hsv hid
    simp only [List.foldl_cons]
    obtain ⟨hr_notin, hnd'⟩ := List.nodup_cons.1 hnd
    have hr := hlt r (List.mem_cons_self ..)
    have hsib := sibling_setSucc' a r (some id)
    obtain ⟨c1, c2, c3, c4⟩ := ih (setSucc a r (some id)) hnd' (fun x hx => by rw [size_setSucc]; exact hlt x (List.mem_cons_of_mem _ hx))
      (fun x hx => by
        have hne : r ≠ x := fun h0 => hr_notin (by rw [h0]; exact hx)
        rw [succ_setSucc_ne a _ hne]
        exact hsv x (List.mem_cons_of_mem _ hx)) (by rw [hsib]; exact hid)
    have hcm : ChildMono a (setSucc a r (some id)) := childMono_setSucc (fun _ x hx => by
      unfold Child at hx
      rw [hsv r (List.mem_cons_self ..)] at hx
      exact Reach.next (by rw [hid]; exact hx))
    refine ⟨fun p hp x hx => c1 p (by rw [size_setSucc]; exact hp) x (hcm p hp x hx), fun q => by rw [c2, hsib], ?_, ?_⟩
    · intro x hx
      rcases List.mem_cons.1 hx with h1 | h1
      · subst h1
        rw [c4 x hr_notin, succ_setSucc a hr]
      · exact c3 x h1
    · intro x hx
      have h1 : x ≠ r := fun h0 => hx (h0 ▸ List.mem_cons_self ..)
      have h2 : x ∉ rest := fun h0 => hx (List.mem_cons_of_mem _ h0)
      rw [c4 x h2, succ_setSucc_ne a _ (Ne.symm h1)]

theorem noPar_setSuccAll (id : Nat) {x : Nat} : ∀ (l : List Nat) (a : Array PNode), NoPar a x → ¬ Reach a (some id) x →
    NoPar (l.foldl (fun a r => setSucc a r (some id)) a) x := by
  intro l
  induction l with
  | nil => intro a h _; exact h
  | cons r rest ih =>
    intro a h hn
    simp only [List.foldl_cons]
    refine ih _ (noPar_setSucc h hn) ?_
    intro hr
    exact hn (reach_congr (a := setSucc a r (some id)) (a' := a) (fun q => (sibling_setSucc' a r (some id) q).symm) hr)

theorem reach_lastOf (a : Array PNode) : ∀ (k c : Nat), Reach a (some c) (lastOf a k c) := by
  intro k
  induction k with
  | zero => intro c; exact Reach.here
  | succ k ih =>
    intro c
    simp only [lastOf]
    split
    · exact Reach.here
    · rename_i q hq
      exact Reach.next (by rw [hq]; exact ih q)

theorem reach_via {a : Array PNode} : ∀ {o : Option Nat} {t x : Nat}, Reach a o t → Reach a (ndOf a t).sibling x → Reach a o x := by
  intro o t x h
  induction h with
  | here => intro hx; exact Reach.next hx
  | next _ ih => intro hx; exact Reach.next (ih hx)

/-- what hooking the new leaf group `head` (all of it `≥ g0`) under pnodes that share the child pointer `sv` gives -/
structure Attached (a a' : Array PNode) (l : List Nat) (head : Option Nat) (g0 : Nat) (v : Option Nat) : Prop where
  grow : Grow a a'
  child : ChildMono a a'
  kids : ∀ r ∈ l, ∀ x, Reach a head x → Child a' r x
  val : ∀ r ∈ l, (ndOf a' r).succ = v
  other : ∀ q, q ∉ l → (ndOf a' q).succ = (ndOf a q).succ
  noPar : ∀ x, x < g0 → NoPar a x → NoPar a' x

/-- the common part: everything the group reaches is new -/
theorem head_new {a : Array PNode} {g0 : Nat} {head : Option Nat} {g : Fsg} (inv : GInv g a)
    (hnew : ∀ x, g0 ≤ x → x < a.size → ∀ y, (ndOf a x).sibling = some y → g0 ≤ y)
    (hh : ∀ y, head = some y → g0 ≤ y ∧ y < a.size) {x : Nat} (hx : x < g0) : ¬ Reach a head x := by
  intro hr
  have := reach_new hnew (fun x hx y hy => inv.sibClosed hx hy) hr hh
  omega

theorem attach_none {g : Fsg} {s : Nat} {head : Option Nat} {g0 : Nat} : ∀ (l : List Nat) (a : Array PNode), GInv g a → Ranked a →
    l.Nodup → (∀ x ∈ l, Valid a s x) → (∀ r ∈ l, (ndOf a r).succ = none) → OValid a s head →
    (∀ x, g0 ≤ x → x < a.size → ∀ y, (ndOf a x).sibling = some y → g0 ≤ y) → (∀ y, head = some y → g0 ≤ y ∧ y < a.size) →
    Attached a (attachRoots a head l) l head g0 head := by
  intro l
  induction l with
  | nil =>
    intro a _ _ _ _ _ _ _ _
    exact ⟨Grow.refl a, fun _ _ _ h => h, nil_all, nil_all, fun _ _ => rfl, fun _ _ h => h⟩
  | cons r rest ih =>
    intro a inv hr hnd hl hnone hh hnew hhd
    obtain ⟨hr_notin, hnd'⟩ := List.nodup_cons.1 hnd
    have hrv := hl r (List.mem_cons_self ..)
    have hrn := hnone r (List.mem_cons_self ..)
    simp only [attachRoots, hrn]
    obtain ⟨hi, he⟩ := ginv_setSucc inv hrv hh
    have hsib := sibling_setSucc' a r head
    have hreach : ∀ {o : Option Nat} {x : Nat}, Reach a o x → Reach (setSucc a r head) o x :=
      fun h => reach_congr (fun q => hsib q) h
    have hA := ih (setSucc a r head) hi (ranked_setSucc hr _ _) hnd' (fun x hx => (hl x (List.mem_cons_of_mem _ hx)).ext he)
      (fun x hx => by
        have hne : r ≠ x := fun h0 => hr_notin (by rw [h0]; exact hx)
        rw [succ_setSucc_ne a _ hne]; exact hnone x (List.mem_cons_of_mem _ hx))
      (hh.ext he)
      (fun x hx hlt y hy => by
        rw [size_setSucc] at hlt
        rw [hsib] at hy
        exact hnew x hx hlt y hy)
      (fun y hy => by rw [size_setSucc]; exact hhd y hy)
    have hcm : ChildMono a (setSucc a r head) := childMono_setSucc (fun _ x hx => by
      unfold Child at hx
      rw [hrn] at hx; cases hx)
    refine ⟨(grow_setSucc a r head).trans hA.grow,
      fun p hp x hx => hA.child p (by rw [size_setSucc]; exact hp) x (hcm p hp x hx), ?_, ?_, ?_, ?_⟩
    · intro x hx y hy
      rcases List.mem_cons.1 hx with h1 | h1
      · subst h1
        -- `x`'s pointer is `head` and is not touched again
        unfold Child
        rw [hA.other x hr_notin, succ_setSucc a hrv.1]
        exact hA.grow.reachO (fun z hz => by rw [size_setSucc]; exact (hhd z hz).2) (hreach hy)
      · exact hA.kids x h1 y (hreach hy)
    · intro x hx
      rcases List.mem_cons.1 hx with h1 | h1
      · subst h1
        rw [hA.other x hr_notin, succ_setSucc a hrv.1]
      · exact hA.val x h1
    · intro q hq
      have h1 : q ≠ r := fun h0 => hq (h0 ▸ List.mem_cons_self ..)
      have h2 : q ∉ rest := fun h0 => hq (List.mem_cons_of_mem _ h0)
      rw [hA.other q h2, succ_setSucc_ne a _ (Ne.symm h1)]
    · intro x hx hn
      exact hA.noPar x hx (noPar_setSucc hn (head_new inv hnew hhd hx))

theorem attach_some {g : Fsg} {s : Nat} {head : Option Nat} {g0 c : Nat} (r : Nat) (rest : List Nat) (a : Array PNode)
    (inv : GInv g a) (hr : Ranked a) (hl : ∀ x ∈ r :: rest, Valid a s x) (hsome : ∀ x ∈ r :: rest, (ndOf a x).succ = some c)
    (hnew : ∀ x, g0 ≤ x → x < a.size → ∀ y, (ndOf a x).sibling = some y → g0 ≤ y) (hhd : ∀ y, head = some y → g0 ≤ y ∧ y < a.size) :
    Attached a (attachRoots a head (r :: rest)) (r :: rest) head g0 (some c) := by
  have hrs := hsome r (List.mem_cons_self ..)
  have hrv := hl r (List.mem_cons_self ..)
  have hc : c < a.size := inv.succClosed hrv.1 hrs
  simp only [attachRoots, hrs]
  obtain ⟨hG, hC⟩ := grow_setSibling (h := head) (lastOf_none inv hr hc)
  have ht : lastOf a a.size c < a.size := reach_lt inv (reach_lastOf a a.size c) (fun y hy => by cases hy; exact hc)
  refine ⟨hG, hC, ?_, ?_, fun q _ => succ_setSibling' a _ head q, ?_⟩
  · intro x hx y hy
    unfold Child
    rw [succ_setSibling', hsome x hx]
    refine reach_via (hG.reach c hc _ (reach_lastOf a a.size c)) ?_
    rw [sibling_setSibling a ht]
    exact hG.reachO (fun z hz => (hhd z hz).2) hy
  · intro x hx
    rw [succ_setSibling', hsome x hx]
  · intro x hx hn
    exact noPar_setSibling hn (head_new inv hnew hhd hx)

theorem attachOne_eq (a : Array PNode) (pred : Nat) (head : Option Nat) : attachOne a pred head = attachRoots a head [pred] := by
  unfold attachOne
  simp only [attachRoots]

/-- hooking the leaf group under a set of pnodes that share one child pointer -/
theorem attachRoots_attached {g : Fsg} {s : Nat} {head : Option Nat} {g0 : Nat} (l : List Nat) (a : Array PNode) (inv : GInv g a)
    (hr : Ranked a) (hnd : l.Nodup) (hl : ∀ x ∈ l, Valid a s x) (sv : Option Nat) (hsv : ∀ r ∈ l, (ndOf a r).succ = sv)
    (hh : OValid a s head) (hnew : ∀ x, g0 ≤ x → x < a.size → ∀ y, (ndOf a x).sibling = some y → g0 ≤ y)
    (hhd : ∀ y, head = some y → g0 ≤ y ∧ y < a.size) : ∃ v, Attached a (attachRoots a head l) l head g0 v := by
  cases sv with
  | none => exact ⟨head, attach_none l a inv hr hnd hl hsv hh hnew hhd⟩
  | some c =>
    cases l with
    | nil => exact ⟨none, Grow.refl a, fun _ _ _ h => h, nil_all, nil_all, fun _ _ => rfl, fun _ _ h => h⟩
    | cons r rest => exact ⟨some c, attach_some r rest a inv hr hl hsv hnew hhd⟩

/-! ### the word-final leaves: one per distinct right-context ssid, covering every right context -/

structure RcG (li : LexIn) (s lid ci lc p : Nat) (logp : Int) (done : List Nat) (st : RcSt) : Prop where
  headReach : ∀ l ∈ st.rcl, Reach st.nodes st.rcl.head? l
  rmap : ∀ pr ∈ st.rmap, pr.2 ∈ st.rcl ∧ (ndOf st.nodes pr.2).ssid = li.rcSsid ci lc pr.1
  data : ∀ l ∈ st.rcl, core (ndOf st.nodes l) =
    (s, true, lid, (ndOf st.nodes l).ssid, li.tmat ci, (logp >>> li.shift) + li.pip, ci)
  cover : ∀ rc ∈ done, ∃ l ∈ st.rcl, Has (ndOf st.nodes l) s true lid (li.rcSsid ci lc (li.rcMap ci lc rc)) (li.tmat ci)
    ((logp >>> li.shift) + li.pip) ci (some rc)

theorem leafStep_g {g : Fsg} {li : LexIn} {s lid ci lc p : Nat} {logp : Int} {a0 : Array PNode} {done : List Nat} (st : RcSt) (rc : Nat)
    (h : RcInv g s a0 st) (hg : RcG li s lid ci lc p logp done st) :
    RcG li s lid ci lc p logp (done ++ [rc]) (leafStep li s lid ci lc p logp st rc) := by
  unfold leafStep
  split
  · rename_i q hq
    have hmem := lookup_mem hq
    obtain ⟨hqr, hqs⟩ := hg.rmap _ hmem
    have hqlt := (h.rcl q hqr).1
    have hgr := grow_addCtxt st.nodes q rc
    have hsib := sibling_addCtxt' st.nodes q rc
    refine ⟨fun l hl => reach_congr (fun x => hsib x) (hg.headReach l hl), ?_, ?_, ?_⟩
    · intro pr hpr
      obtain ⟨h1, h2⟩ := hg.rmap pr hpr
      exact ⟨h1, by rw [core_ssid (hgr.stable pr.2 (h.rcl pr.2 h1).1)]; exact h2⟩
    · intro l hl
      have hst := hgr.stable l (h.rcl l hl).1
      rw [hst, core_ssid hst]; exact hg.data l hl
    · intro r hr
      rcases List.mem_append.1 hr with h1 | h1
      · obtain ⟨l, hlm, hl⟩ := hg.cover r h1
        exact ⟨l, hlm, hl.grow hgr (h.rcl l hlm).1⟩
      · simp only [List.mem_singleton] at h1
        subst h1
        refine ⟨q, hqr, ?_, ?_⟩
        · rw [hgr.stable q hqlt, hg.data q hqr, hqs]
        · intro x hx; cases hx; exact ctxt_addCtxt st.nodes hqlt r
  · have hgr0 := grow_push h.inv (leafNode li s lid ci lc p logp st.rcl.head? rc)
    have hgr1 := grow_addCtxt (st.nodes.push (leafNode li s lid ci lc p logp st.rcl.head? rc)) st.nodes.size rc
    have hgr := hgr0.trans hgr1
    have hN : st.nodes.size < (st.nodes.push (leafNode li s lid ci lc p logp st.rcl.head? rc)).size := by
      rw [Array.size_push]; omega
    have hnew : core (ndOf (addCtxt (st.nodes.push (leafNode li s lid ci lc p logp st.rcl.head? rc)) st.nodes.size rc) st.nodes.size) =
        core (leafNode li s lid ci lc p logp st.rcl.head? rc) := by
      rw [hgr1.stable _ hN, ndOf_push_eq]
    have hsibN : (ndOf (addCtxt (st.nodes.push (leafNode li s lid ci lc p logp st.rcl.head? rc)) st.nodes.size rc) st.nodes.size).sibling =
        st.rcl.head? := by
      rw [sibling_addCtxt', ndOf_push_eq]; rfl
    have hold : ∀ l ∈ st.rcl, Reach (addCtxt (st.nodes.push (leafNode li s lid ci lc p logp st.rcl.head? rc)) st.nodes.size rc)
        st.rcl.head? l := fun l hl => hgr.reachO (fun y hy => (h.rcl y (head?_mem hy)).1) (hg.headReach l hl)
    refine ⟨?_, ?_, ?_, ?_⟩
    · intro l hl
      show Reach _ (some st.nodes.size) l
      rcases List.mem_cons.1 hl with h1 | h1
      · rw [h1]; exact Reach.here
      · exact Reach.next (by rw [hsibN]; exact hold l h1)
    · intro pr hpr
      rcases List.mem_cons.1 hpr with h1 | h1
      · rw [h1]
        exact ⟨List.mem_cons_self .., by rw [core_ssid hnew]; rfl⟩
      · obtain ⟨h2, h3⟩ := hg.rmap pr h1
        exact ⟨List.mem_cons_of_mem _ h2, by rw [core_ssid (hgr.stable pr.2 (h.rcl pr.2 h2).1)]; exact h3⟩
    · intro l hl
      rcases List.mem_cons.1 hl with h1 | h1
      · rw [h1, hnew, core_ssid hnew]; rfl
      · have hst := hgr.stable l (h.rcl l h1).1
        rw [hst, core_ssid hst]; exact hg.data l h1
    · intro r hr
      rcases List.mem_append.1 hr with h1 | h1
      · obtain ⟨l, hlm, hl⟩ := hg.cover r h1
        exact ⟨l, List.mem_cons_of_mem _ hlm, hl.grow hgr (h.rcl l hlm).1⟩
      · simp only [List.mem_singleton] at h1
        subst h1
        refine ⟨st.nodes.size, List.mem_cons_self .., ?_, ?_⟩
        · rw [hnew]; rfl
        · intro x hx; cases hx; exact ctxt_addCtxt _ hN r

/-! ### the word-initial roots: one per distinct left-context ssid, covering every left context -/

structure RtG (li : LexIn) (s ci rc : Nat) (a0 : Array PNode) (done : List Nat) (st : LcSt) : Prop where
  lclReach : ∀ r ∈ st.lcl, Reach st.nodes st.root r
  lmapSub : ∀ x ∈ st.lmap, x ∈ st.lcl
  data : ∀ r ∈ st.lcl, core (ndOf st.nodes r) = (s, false, 0, (ndOf st.nodes r).ssid, li.tmat ci, li.wip + li.pip, ci)
  cover : ∀ lc ∈ done, ∃ r ∈ st.lcl, Has (ndOf st.nodes r) s false 0 (li.ldiph ci rc lc) (li.tmat ci) (li.wip + li.pip) ci (some lc)
  fresh : ∀ r ∈ st.lcl, a0.size ≤ r
  noPar : ∀ r ∈ st.lcl, NoPar st.nodes r
  succNone : ∀ r ∈ st.lcl, (ndOf st.nodes r).succ = none
  rootHead : st.lcl ≠ [] → st.root = st.lcl.head?

theorem rootStep_g {g : Fsg} {li : LexIn} {s ci rc : Nat} {a0 : Array PNode} {done : List Nat} (st : LcSt) (lc : Nat)
    (h : LcInv g s a0 st) (hg : RtG li s ci rc a0 done st) : RtG li s ci rc a0 (done ++ [lc]) (rootStep li s ci rc st lc) := by
  unfold rootStep
  simp only
  have hrootv : ∀ y, st.root = some y → y < st.nodes.size := fun y hy => (h.root y hy).1
  split
  · rename_i p hf
    obtain ⟨hpm, hq⟩ := find?_spec hf
    have hpl := hg.lmapSub p hpm
    have hp := (h.lcl p hpl).1
    have hgr := grow_addCtxt st.nodes p lc
    have hssid : (ndOf st.nodes p).ssid = li.ldiph ci rc lc := by simpa using hq
    refine ⟨fun r hr => hgr.reachO hrootv (hg.lclReach r hr), hg.lmapSub, ?_, ?_, hg.fresh,
      fun r hr => noPar_addCtxt p lc (hg.noPar r hr), fun r hr => by rw [succ_addCtxt']; exact hg.succNone r hr, hg.rootHead⟩
    · intro r hr
      have hst := hgr.stable r (h.lcl r hr).1
      rw [hst, core_ssid hst]; exact hg.data r hr
    · intro l hl
      rcases List.mem_append.1 hl with h1 | h1
      · obtain ⟨r, hrm, hr⟩ := hg.cover l h1
        exact ⟨r, hrm, hr.grow hgr (h.lcl r hrm).1⟩
      · simp only [List.mem_singleton] at h1
        subst h1
        refine ⟨p, hpl, ?_, ?_⟩
        · rw [hgr.stable p hp, hg.data p hpl, hssid]
        · intro x hx; cases hx; exact ctxt_addCtxt st.nodes hp l
  · have hgr0 := grow_push h.inv (rootNode li s ci rc st.root lc)
    have hgr1 := grow_addCtxt (st.nodes.push (rootNode li s ci rc st.root lc)) st.nodes.size lc
    have hgr := hgr0.trans hgr1
    have hN : st.nodes.size < (st.nodes.push (rootNode li s ci rc st.root lc)).size := by rw [Array.size_push]; omega
    have hnew : core (ndOf (addCtxt (st.nodes.push (rootNode li s ci rc st.root lc)) st.nodes.size lc) st.nodes.size) =
        core (rootNode li s ci rc st.root lc) := by rw [hgr1.stable _ hN, ndOf_push_eq]
    have hsibN : (ndOf (addCtxt (st.nodes.push (rootNode li s ci rc st.root lc)) st.nodes.size lc) st.nodes.size).sibling = st.root := by
      rw [sibling_addCtxt', ndOf_push_eq]; rfl
    have hold : ∀ x, Reach st.nodes st.root x → Reach (addCtxt (st.nodes.push (rootNode li s ci rc st.root lc)) st.nodes.size lc)
        (some st.nodes.size) x := fun x hx => Reach.next (by rw [hsibN]; exact hgr.reachO hrootv hx)
    refine ⟨?_, ?_, ?_, ?_, ?_, ?_, ?_, fun _ => rfl⟩
    · intro r hr
      rcases List.mem_cons.1 hr with h1 | h1
      · rw [h1]; exact Reach.here
      · exact hold r (hg.lclReach r h1)
    · intro x hx
      rcases List.mem_append.1 hx with h1 | h1
      · exact List.mem_cons_of_mem _ (hg.lmapSub x h1)
      · simp only [List.mem_singleton] at h1; rw [h1]; exact List.mem_cons_self ..
    · intro r hr
      rcases List.mem_cons.1 hr with h1 | h1
      · rw [h1, hnew, core_ssid hnew]; rfl
      · have hst := hgr.stable r (h.lcl r h1).1
        rw [hst, core_ssid hst]; exact hg.data r h1
    · intro l hl
      rcases List.mem_append.1 hl with h1 | h1
      · obtain ⟨r, hrm, hr⟩ := hg.cover l h1
        exact ⟨r, List.mem_cons_of_mem _ hrm, hr.grow hgr (h.lcl r hrm).1⟩
      · simp only [List.mem_singleton] at h1
        subst h1
        refine ⟨st.nodes.size, List.mem_cons_self .., ?_, ?_⟩
        · rw [hnew]; rfl
        · intro x hx; cases hx; exact ctxt_addCtxt _ hN l
    · intro r hr
      rcases List.mem_cons.1 hr with h1 | h1
      · rw [h1]; exact h.ext.1
      · exact hg.fresh r h1
    · intro r hr
      rcases List.mem_cons.1 hr with h1 | h1
      · rw [h1]; exact noPar_addCtxt _ _ (noPar_new h.inv rfl)
      · exact noPar_addCtxt _ _ (noPar_push h.inv rfl (hg.noPar r h1))
    · intro r hr
      rw [succ_addCtxt']
      rcases List.mem_cons.1 hr with h1 | h1
      · rw [h1, ndOf_push_eq]; rfl
      · rw [ndOf_push_lt _ _ (h.lcl r h1).1]; exact hg.succNone r h1

/-! ### the word-internal pnodes -/

theorem fold_range' {σ : Type} (I : Nat → σ → Prop) (f : σ → Nat → σ) (M : Nat) (st0 : σ) (h0 : I 0 st0)
    (hstep : ∀ m st, m < M → I m st → I (m + 1) (f st (1 + m))) : I M ((List.range' 1 M).foldl f st0) := by
  induction M with
  | zero => simpa using h0
  | succ M ih =>
    rw [List.range'_concat, List.foldl_append]
    simp only [List.foldl_cons, List.foldl_nil, Nat.one_mul]
    exact hstep M _ (by omega) (ih (fun m st hm h => hstep m st (by omega) h))

theorem drop1_range (n : Nat) : (List.range n).drop 1 = List.range' 1 (n - 1) := by
  rw [List.range_eq_range', List.drop_range']

theorem findChild_spec (a : Array PNode) (ssid : Nat) : ∀ (fuel : Nat) (start : Option Nat) (q : Nat),
    findChild a ssid fuel start = some q → Reach a start q ∧ (ndOf a q).ssid = ssid ∧ (ndOf a q).leaf = false := by
  intro fuel
  induction fuel with
  | zero => intro start q h; simp [findChild] at h
  | succ fuel ih =>
    intro start q h
    cases start with
    | none => simp [findChild] at h
    | some p =>
      simp only [findChild] at h
      split at h
      · rename_i hc
        cases h
        simp only [Bool.and_eq_true, beq_iff_eq, Bool.not_eq_true'] at hc
        exact ⟨Reach.here, hc.1, hc.2⟩
      · obtain ⟨h1, h2⟩ := ih _ q h
        exact ⟨Reach.next h1, h2⟩

/-- the transition matrix of a word-internal phone is a function of its senone-sequence id (pnodes are shared between
words by ssid alone) — over the word-internal positions of the words on the arcs of `g`, which is all the construction reads -/
def SsidTmat (li : LexIn) (g : Fsg) (tm : Nat → Nat) : Prop :=
  ∀ lid, lid < g.links.size → 0 ≤ (g.link lid).wid → ∀ p, 1 ≤ p → p + 1 < (li.word (g.link lid).wid.toNat).pron.length →
    li.tmat ((li.word (g.link lid).wid.toNat).pron.getD p 0) = tm (li.internal (li.word (g.link lid).wid.toNat).dictWid p)

/-- every non-leaf pnode of state `s` is a root of one of the sets `gl` / of `extra`, or a word-internal pnode -/
def IntKind (li : LexIn) (tm : Nat → Nat) (s : Nat) (gl : List GEntry) (extra : List Nat) (a : Array PNode) : Prop :=
  ∀ x, x < a.size → (ndOf a x).owner = s → (ndOf a x).leaf = false →
    (∃ e ∈ gl, x ∈ e.list) ∨ x ∈ extra ∨
    ((ndOf a x).logs2prob = li.pip ∧ (ndOf a x).link = 0 ∧ (ndOf a x).tmatid = tm (ndOf a x).ssid)

theorem core_fields {n n' : PNode} (h : core n' = core n) :
    n'.owner = n.owner ∧ n'.leaf = n.leaf ∧ n'.link = n.link ∧ n'.ssid = n.ssid ∧ n'.tmatid = n.tmatid ∧
    n'.logs2prob = n.logs2prob ∧ n'.ciExt = n.ciExt := by
  unfold core at h
  simp only [Prod.mk.injEq] at h
  exact h

/-- steps that keep the size and the key fields keep the kinds -/
theorem IntKind.same {li : LexIn} {tm : Nat → Nat} {s : Nat} {gl : List GEntry} {extra : List Nat} {a a' : Array PNode}
    (h : IntKind li tm s gl extra a) (hg : Grow a a') (hs : a'.size = a.size) : IntKind li tm s gl extra a' := by
  intro x hx ho hl
  rw [hs] at hx
  obtain ⟨f1, f2, f3, f4, f5, f6, _⟩ := core_fields (hg.stable x hx)
  rw [f1] at ho; rw [f2] at hl
  rcases h x hx ho hl with h1 | h1 | h1
  · exact Or.inl h1
  · exact Or.inr (Or.inl h1)
  · exact Or.inr (Or.inr (by rw [f6, f3, f5, f4]; exact h1))

theorem IntKind.push {g : Fsg} {li : LexIn} {tm : Nat → Nat} {s : Nat} {gl : List GEntry} {extra extra' : List Nat} {a : Array PNode}
    (h : IntKind li tm s gl extra a) (_inv : GInv g a) (n : PNode) (hsub : ∀ x ∈ extra, x ∈ extra')
    (hn : n.leaf = false → n.owner = s → a.size ∈ extra' ∨ (n.logs2prob = li.pip ∧ n.link = 0 ∧ n.tmatid = tm n.ssid)) :
    IntKind li tm s gl extra' (a.push n) := by
  intro x hx ho hl
  rw [Array.size_push] at hx
  by_cases hlt : x < a.size
  · rw [ndOf_push_lt a n hlt] at ho hl ⊢
    rcases h x hlt ho hl with h1 | h1 | h1
    · exact Or.inl h1
    · exact Or.inr (Or.inl (hsub x h1))
    · exact Or.inr (Or.inr h1)
  · have : x = a.size := by omega
    subst this
    rw [ndOf_push_eq] at ho hl ⊢
    rcases hn hl ho with h1 | h1
    · exact Or.inr (Or.inl h1)
    · exact Or.inr (Or.inr h1)

theorem IntKind.addCtxt {li : LexIn} {tm : Nat → Nat} {s : Nat} {gl : List GEntry} {extra : List Nat} {a : Array PNode}
    (h : IntKind li tm s gl extra a) (p c : Nat) : IntKind li tm s gl extra (addCtxt a p c) :=
  h.same (grow_addCtxt a p c) (size_addCtxt a p c)

theorem IntKind.setSucc {li : LexIn} {tm : Nat → Nat} {s : Nat} {gl : List GEntry} {extra : List Nat} {a : Array PNode}
    (h : IntKind li tm s gl extra a) (p : Nat) (q : Option Nat) : IntKind li tm s gl extra (setSucc a p q) :=
  h.same (grow_setSucc a p q) (size_setSucc a p q)

theorem singleStep_kind {g : Fsg} {li : LexIn} {tm : Nat → Nat} {gl : List GEntry} {s lid ci : Nat} {logp : Int} {a1 : Array PNode}
    (st : LcSt) (lc : Nat) (h : LcInv g s a1 st) (hk : IntKind li tm s gl [] st.nodes) :
    IntKind li tm s gl [] (singleStep li s lid ci logp st lc).nodes := by
  unfold singleStep
  simp only
  split
  · exact hk.addCtxt _ _
  · exact hk.push h.inv _ (fun _ hx => hx) (fun hl => by cases hl)

theorem rootStep_kind {g : Fsg} {li : LexIn} {tm : Nat → Nat} {gl : List GEntry} {s ci rc : Nat} {a1 : Array PNode}
    (st : LcSt) (lc : Nat) (h : LcInv g s a1 st) (hk : IntKind li tm s gl st.lcl st.nodes) :
    IntKind li tm s gl (rootStep li s ci rc st lc).lcl (rootStep li s ci rc st lc).nodes := by
  unfold rootStep
  simp only
  split
  · exact hk.addCtxt _ _
  · exact (hk.push h.inv _ (fun x hx => List.mem_cons_of_mem _ hx) (fun _ _ => Or.inl (List.mem_cons_self ..))).addCtxt _ _

theorem leafStep_kind {g : Fsg} {li : LexIn} {tm : Nat → Nat} {gl : List GEntry} {s lid ci lc p : Nat} {logp : Int} {a0 : Array PNode}
    (st : RcSt) (rc : Nat) (h : RcInv g s a0 st) (hk : IntKind li tm s gl [] st.nodes) :
    IntKind li tm s gl [] (leafStep li s lid ci lc p logp st rc).nodes := by
  unfold leafStep
  split
  · exact hk.addCtxt _ _
  · exact (hk.push h.inv _ (fun _ hx => hx) (fun hl => by cases hl)).addCtxt _ _

theorem IntKind.setSuccAll {li : LexIn} {tm : Nat → Nat} {s : Nat} {gl : List GEntry} {extra : List Nat} (id : Nat) :
    ∀ (l : List Nat) (a : Array PNode), IntKind li tm s gl extra a → IntKind li tm s gl extra (l.foldl (fun a r => SSVerif.Search.setSucc a r (some id)) a) := by
  intro l
  induction l with
  | nil => intro a h; exact h
  | cons r rest ih => intro a h; exact ih _ (h.setSucc r _)

/-- the word-internal pnodes chosen for the positions `1..k` of word `w`: data, and the links from the roots down -/
structure PathK (li : LexIn) (w : WordInfo) (lcl : List Nat) (a : Array PNode) (qf : Nat → Nat) (k : Nat) : Prop where
  data : ∀ j, 1 ≤ j → j ≤ k → qf j < a.size ∧ (ndOf a (qf j)).leaf = false ∧ (ndOf a (qf j)).ssid = li.internal w.dictWid j ∧
    (ndOf a (qf j)).tmatid = li.tmat (w.pron.getD j 0) ∧ (ndOf a (qf j)).logs2prob = li.pip
  first : 1 ≤ k → ∀ r ∈ lcl, Child a r (qf 1)
  link : ∀ j, 1 ≤ j → j < k → Child a (qf j) (qf (j + 1))

theorem PathK.mono {li : LexIn} {w : WordInfo} {lcl : List Nat} {a a' : Array PNode} {qf : Nat → Nat} {k : Nat}
    (h : PathK li w lcl a qf k) (hg : Grow a a') (hc : ChildMono a a') (hl : ∀ r ∈ lcl, r < a.size) : PathK li w lcl a' qf k := by
  refine ⟨?_, fun hk r hr => hc r (hl r hr) _ (h.first hk r hr), fun j h1 h2 => hc _ (h.data j h1 (by omega)).1 _ (h.link j h1 h2)⟩
  intro j h1 h2
  obtain ⟨d0, d1, d2, d3, d4⟩ := h.data j h1 h2
  obtain ⟨_, f2, _, f4, f5, f6, _⟩ := core_fields (hg.stable (qf j) d0)
  exact ⟨Nat.lt_of_lt_of_le d0 hg.size, by rw [f2]; exact d1, by rw [f4]; exact d2, by rw [f5]; exact d3, by rw [f6]; exact d4⟩

/-- the word-final leaves of arc `lid` hang under the last internal pnode (or under every root, for a two-phone word), one
for every right context -/
def LeafK (li : LexIn) (s lid : Nat) (w : WordInfo) (logp : Int) (rclist lcl : List Nat) (a : Array PNode) (qf : Nat → Nat) (k : Nat) : Prop :=
  ∀ rc ∈ rclist, ∃ l, l < a.size ∧
    Has (ndOf a l) s true lid (li.rcSsid (w.pron.getD (k + 1) 0) (w.pron.getD k 0) (li.rcMap (w.pron.getD (k + 1) 0) (w.pron.getD k 0) rc))
      (li.tmat (w.pron.getD (k + 1) 0)) ((logp >>> li.shift) + li.pip) (w.pron.getD (k + 1) 0) (some rc) ∧
    (k = 0 → ∀ r ∈ lcl, Child a r l) ∧ (1 ≤ k → Child a (qf k) l)

theorem LeafK.mono {li : LexIn} {s lid : Nat} {w : WordInfo} {logp : Int} {rclist lcl : List Nat} {a a' : Array PNode} {qf : Nat → Nat} {k : Nat}
    (h : LeafK li s lid w logp rclist lcl a qf k) (hg : Grow a a') (hc : ChildMono a a') (hl : ∀ r ∈ lcl, r < a.size)
    (hq : 1 ≤ k → qf k < a.size) : LeafK li s lid w logp rclist lcl a' qf k := by
  intro rc hrc
  obtain ⟨l, h1, h2, h3, h4⟩ := h rc hrc
  exact ⟨l, Nat.lt_of_lt_of_le h1 hg.size, h2.grow hg h1, fun hk r hr => hc r (hl r hr) l (h3 hk r hr), fun hk => hc _ (hq hk) l (h4 hk)⟩

/-- the fixed data of the loop over the phones `p ≥ 1` of one multi-phone word -/
structure PhCtx (g : Fsg) (li : LexIn) (tm : Nat → Nat) (s lid : Nat) (w : WordInfo) (lcl : List Nat) (gl : List GEntry)
    (a1 : Array PNode) : Prop where
  hl : lid < g.links.size ∧ (g.link lid).src = s ∧ 0 ≤ (g.link lid).wid
  hw : w = li.word (g.link lid).wid.toNat
  hlcl : ∀ x ∈ lcl, Valid a1 s x
  hnd : lcl.Nodup
  hcur : ∃ e ∈ gl, e.list = lcl
  htm : ∀ p, 1 ≤ p → p + 1 < w.pron.length → li.tmat (w.pron.getD p 0) = tm (li.internal w.dictWid p)
  n2 : 2 ≤ w.pron.length

/-- what holds after the positions `1..m` -/
structure PhP (g : Fsg) (li : LexIn) (tm : Nat → Nat) (s lid : Nat) (w : WordInfo) (logp : Int) (rclist lcl : List Nat) (gl : List GEntry)
    (a1 : Array PNode) (m : Nat) (st : PhSt) : Prop where
  gx : GX gl st.nodes
  child : ChildMono a1 st.nodes
  kind : IntKind li tm s gl [] st.nodes
  predFirst : m = 0 → st.pred ∈ lcl
  predLater : 1 ≤ m → m < w.pron.length - 1 → ∀ e ∈ gl, st.pred ∉ e.list
  path : ∃ qf, PathK li w lcl st.nodes qf (min m (w.pron.length - 2)) ∧
    (1 ≤ min m (w.pron.length - 2) → st.pred = qf (min m (w.pron.length - 2))) ∧
    (m = w.pron.length - 1 → LeafK li s lid w logp rclist lcl st.nodes qf (w.pron.length - 2))

/-! the five shapes of one step -/

theorem phoneStep_found {li : LexIn} {s lid : Nat} {w : WordInfo} {logp : Int} {rclist lcl : List Nat} {st : PhSt} {p q : Nat}
    (hi : p + 1 ≠ w.pron.length)
    (hf : findChild st.nodes (li.internal w.dictWid p) st.nodes.size (ndOf st.nodes st.pred).succ = some q) :
    phoneStep li s lid w logp rclist lcl st p = { st with pred := q } := by
  unfold phoneStep
  simp only [hi, ne_eq, not_false_eq_true, if_true, hf]

theorem phoneStep_allocF {li : LexIn} {s lid : Nat} {w : WordInfo} {logp : Int} {rclist lcl : List Nat} {st : PhSt} {p : Nat}
    (hi : p + 1 ≠ w.pron.length)
    (hf : findChild st.nodes (li.internal w.dictWid p) st.nodes.size (ndOf st.nodes st.pred).succ = none) (hp : p = 1) :
    phoneStep li s lid w logp rclist lcl st p =
      { nodes := lcl.foldl (fun a r => setSucc a r (some st.nodes.size))
          (st.nodes.push (internalNode li s (w.pron.getD p 0) p w.dictWid (ndOf st.nodes st.pred).succ)),
        pred := st.nodes.size } := by
  subst hp
  unfold phoneStep
  simp only [hi, ne_eq, not_false_eq_true, if_true, hf]

theorem phoneStep_allocL {li : LexIn} {s lid : Nat} {w : WordInfo} {logp : Int} {rclist lcl : List Nat} {st : PhSt} {p : Nat}
    (hi : p + 1 ≠ w.pron.length)
    (hf : findChild st.nodes (li.internal w.dictWid p) st.nodes.size (ndOf st.nodes st.pred).succ = none) (hp : p ≠ 1) :
    phoneStep li s lid w logp rclist lcl st p =
      { nodes := setSucc (st.nodes.push (internalNode li s (w.pron.getD p 0) p w.dictWid (ndOf st.nodes st.pred).succ))
          st.pred (some st.nodes.size),
        pred := st.nodes.size } := by
  unfold phoneStep
  simp only [hi, ne_eq, not_false_eq_true, if_true, hf, hp, if_false]

theorem phoneStep_leafF {li : LexIn} {s lid : Nat} {w : WordInfo} {logp : Int} {rclist lcl : List Nat} {st : PhSt} {p : Nat}
    (hi : p + 1 = w.pron.length) (hp : p = 1) :
    phoneStep li s lid w logp rclist lcl st p =
      { nodes := attachRoots (rclist.foldl (leafStep li s lid (w.pron.getD p 0) (w.pron.getD (p - 1) 0) p logp) { nodes := st.nodes }).nodes
          (rclist.foldl (leafStep li s lid (w.pron.getD p 0) (w.pron.getD (p - 1) 0) p logp) { nodes := st.nodes }).rcl.head? lcl,
        pred := st.pred } := by
  subst hp
  unfold phoneStep
  simp only [hi, ne_eq, not_true_eq_false, if_false, if_true]

theorem phoneStep_leafL {li : LexIn} {s lid : Nat} {w : WordInfo} {logp : Int} {rclist lcl : List Nat} {st : PhSt} {p : Nat}
    (hi : p + 1 = w.pron.length) (hp : p ≠ 1) :
    phoneStep li s lid w logp rclist lcl st p =
      { nodes := attachOne (rclist.foldl (leafStep li s lid (w.pron.getD p 0) (w.pron.getD (p - 1) 0) p logp) { nodes := st.nodes }).nodes
          st.pred (rclist.foldl (leafStep li s lid (w.pron.getD p 0) (w.pron.getD (p - 1) 0) p logp) { nodes := st.nodes }).rcl.head?,
        pred := st.pred } := by
  unfold phoneStep
  simp only [hi, ne_eq, not_true_eq_false, if_false, hp]

theorem size_attachRoots (head : Option Nat) : ∀ (l : List Nat) (a : Array PNode), (attachRoots a head l).size = a.size := by
  intro l
  induction l with
  | nil => intro a; rfl
  | cons r rest ih =>
    intro a
    simp only [attachRoots]
    split
    · rw [ih, size_setSucc]
    · unfold setSibling; rw [size_amod]

/-- everything the loop over the right contexts establishes -/
theorem leafFold_all {g : Fsg} {li : LexIn} {tm : Nat → Nat} {gl : List GEntry} {s lid ci lc p : Nat} {logp : Int} (a : Array PNode)
    (hl : lid < g.links.size ∧ (g.link lid).src = s ∧ 0 ≤ (g.link lid).wid) (inv : GInv g a) (hr : Ranked a)
    (hk : IntKind li tm s gl [] a) (rclist : List Nat) :
    (RcInv g s a (rclist.foldl (leafStep li s lid ci lc p logp) { nodes := a }) ∧
      RcR a (rclist.foldl (leafStep li s lid ci lc p logp) { nodes := a })) ∧
    Quiet a (rclist.foldl (leafStep li s lid ci lc p logp) { nodes := a }).nodes ∧
    Grow a (rclist.foldl (leafStep li s lid ci lc p logp) { nodes := a }).nodes ∧
    IntKind li tm s gl [] (rclist.foldl (leafStep li s lid ci lc p logp) { nodes := a }).nodes ∧
    RcG li s lid ci lc p logp rclist (rclist.foldl (leafStep li s lid ci lc p logp) { nodes := a }) := by
  have h := foldl_inv_prefix
    (fun done st' => (RcInv g s a st' ∧ RcR a st') ∧ Quiet a st'.nodes ∧ Grow a st'.nodes ∧ IntKind li tm s gl [] st'.nodes ∧
      RcG li s lid ci lc p logp done st')
    (leafStep li s lid ci lc p logp) rclist [] { nodes := a }
    ⟨⟨⟨inv, Ext.refl _, nil_all, nil_all⟩,
      ⟨hr, Nat.le_refl _, fun _ _ => rfl, fun _ _ => rfl, fun x h1 h2 => absurd h2 (Nat.not_lt.2 h1), nil_all⟩⟩,
     Quiet.refl _, Grow.refl _, hk, ⟨nil_all, nil_all, nil_all, nil_all⟩⟩
    (fun d st' rc _ h' => ⟨⟨leafStep_inv hl st' rc h'.1.1, leafStep_ranked st' rc h'.1.1 h'.1.2⟩,
      h'.2.1.trans (leafStep_quiet st' rc h'.1.1), h'.2.2.1.trans (leafStep_grow0 st' rc h'.1.1),
      leafStep_kind st' rc h'.1.1 h'.2.2.2.1, leafStep_g st' rc h'.1.1 h'.2.2.2.2⟩)
  simpa using h

section Step
variable {g : Fsg} {li : LexIn} {tm : Nat → Nat} {s lid : Nat} {w : WordInfo} {logp : Int} {rclist lcl : List Nat} {gl : List GEntry}
  {a1 : Array PNode} {m : Nat} {st : PhSt}

/-- all roots of the current set have the predecessor's child pointer -/
theorem PhCtx.sameSucc (ctx : PhCtx g li tm s lid w lcl gl a1) {a : Array PNode} (gx : GX gl a) {r r' : Nat} (hr : r ∈ lcl) (hr' : r' ∈ lcl) :
    (ndOf a r).succ = (ndOf a r').succ := by
  obtain ⟨e, he, hel⟩ := ctx.hcur
  exact gx.same e he r (by rw [hel]; exact hr) r' (by rw [hel]; exact hr')

theorem PhCtx.lcl_lt (ctx : PhCtx g li tm s lid w lcl gl a1) {a : Array PNode} (gx : GX gl a) {r : Nat} (hr : r ∈ lcl) : r < a.size := by
  obtain ⟨e, he, hel⟩ := ctx.hcur
  exact gx.lt e he r (by rw [hel]; exact hr)

/-- a root set of the state either is the current one or is disjoint from it -/
theorem PhCtx.cur_or_disj (ctx : PhCtx g li tm s lid w lcl gl a1) {a : Array PNode} (gx : GX gl a) {e : GEntry} (he : e ∈ gl) :
    (∀ x, x ∈ e.list ↔ x ∈ lcl) ∨ (∀ x ∈ e.list, x ∉ lcl) := by
  obtain ⟨ec, hec, hel⟩ := ctx.hcur
  by_cases h : ∃ x ∈ e.list, x ∈ lcl
  · obtain ⟨x, hx1, hx2⟩ := h
    have := gx.disj e he ec hec x hx1 (by rw [hel]; exact hx2)
    exact Or.inl (fun y => by rw [this, hel])
  · exact Or.inr (fun x hx hx2 => h ⟨x, hx, hx2⟩)

theorem step_found (ctx : PhCtx g li tm s lid w lcl gl a1) (hb : PhInv g s a1 st)
    (hp : PhP g li tm s lid w logp rclist lcl gl a1 m st) (hm : m < w.pron.length - 1) (hi : 1 + m + 1 ≠ w.pron.length) {q : Nat}
    (hf : findChild st.nodes (li.internal w.dictWid (1 + m)) st.nodes.size (ndOf st.nodes st.pred).succ = some q) :
    PhP g li tm s lid w logp rclist lcl gl a1 (m + 1) { st with pred := q } := by
  obtain ⟨hreach, hssid, hleaf⟩ := findChild_spec _ _ _ _ _ hf
  have hchild : Child st.nodes st.pred q := hreach
  have hsucc : OValid st.nodes s (ndOf st.nodes st.pred).succ := by
    have := (hb.inv st.pred hb.pred.1).1
    rw [hb.pred.2] at this; exact this
  have hqv : Valid st.nodes s q := findChild_valid hb.inv _ _ _ q hsucc hf
  have hnotroot := hp.gx.child_not_root hchild
  have hmin : min m (w.pron.length - 2) = m := by omega
  have hmin' : min (m + 1) (w.pron.length - 2) = m + 1 := by omega
  obtain ⟨qf, hpath, hpred, _⟩ := hp.path
  rw [hmin] at hpath hpred
  -- the found pnode is a word-internal pnode
  have hkind : (ndOf st.nodes q).logs2prob = li.pip ∧ (ndOf st.nodes q).link = 0 ∧ (ndOf st.nodes q).tmatid = tm (ndOf st.nodes q).ssid := by
    rcases hp.kind q hqv.1 hqv.2 hleaf with ⟨e, he, hq⟩ | h1 | h1
    · exact absurd hq (hnotroot e he)
    · cases h1
    · exact h1
  have htmat : (ndOf st.nodes q).tmatid = li.tmat (w.pron.getD (1 + m) 0) := by
    rw [hkind.2.2, hssid]; exact (ctx.htm (1 + m) (by omega) (by omega)).symm
  refine ⟨hp.gx, hp.child, hp.kind, fun h => by omega, fun _ _ => hnotroot, ?_⟩
  refine ⟨fun j => if j = m + 1 then q else qf j, ?_, ?_, fun h => by omega⟩
  · rw [hmin']
    refine ⟨?_, ?_, ?_⟩
    · intro j h1 h2
      by_cases hj : j = m + 1
      · simp only [hj, if_true]
        exact ⟨hqv.1, hleaf, by rw [hssid, Nat.add_comm], by rw [htmat, Nat.add_comm], hkind.1⟩
      · simp only [hj, if_false]
        exact hpath.data j h1 (by omega)
    · intro _ r hr
      by_cases hm0 : m = 0
      · subst hm0
        simp only [Nat.zero_add, if_true]
        unfold Child
        rw [ctx.sameSucc hp.gx hr (hp.predFirst rfl)]
        exact hchild
      · have : ¬ (1 = m + 1) := by omega
        simp only [this, if_false]
        exact hpath.first (by omega) r hr
    · intro j h1 h2
      have hj : ¬ (j = m + 1) := by omega
      simp only [hj, if_false]
      by_cases hjm : j = m
      · subst hjm
        simp only [if_true]
        rw [← hpred (by omega)]
        exact hchild
      · have : ¬ (j + 1 = m + 1) := by omega
        simp only [this, if_false]
        exact hpath.link j h1 (by omega)
  · intro _
    rw [hmin']
    simp

/-- the new word-internal pnode: fields, and that no root of a shared set is reached from it -/
theorem new_internal (ctx : PhCtx g li tm s lid w lcl gl a1) (hb : PhInv g s a1 st) (hp : PhP g li tm s lid w logp rclist lcl gl a1 m st)
    (p : Nat) (hp1 : 1 ≤ p) (hp2 : p + 1 < w.pron.length) :
    Quiet st.nodes (st.nodes.push (internalNode li s (w.pron.getD p 0) p w.dictWid (ndOf st.nodes st.pred).succ)) ∧
    IntKind li tm s gl [] (st.nodes.push (internalNode li s (w.pron.getD p 0) p w.dictWid (ndOf st.nodes st.pred).succ)) ∧
    (∀ e ∈ gl, ∀ r ∈ e.list, ¬ Reach (st.nodes.push (internalNode li s (w.pron.getD p 0) p w.dictWid (ndOf st.nodes st.pred).succ))
      (some st.nodes.size) r) := by
  refine ⟨quiet_push hb.inv rfl, hp.kind.push hb.inv _ (fun _ hx => hx) (fun _ _ => Or.inr ⟨rfl, rfl, ?_⟩), ?_⟩
  · show li.tmat (w.pron.getD p 0) = tm (li.internal w.dictWid p)
    exact ctx.htm p hp1 hp2
  · intro e he r hr hreach
    have hrlt := hp.gx.lt e he r hr
    cases hreach with
    | here => omega
    | next hn =>
      rw [ndOf_push_eq] at hn
      have hsuccv : ∀ y, (ndOf st.nodes st.pred).succ = some y → y < st.nodes.size := fun y hy => hb.inv.succClosed hb.pred.1 hy
      exact hp.gx.noPar e he r hr st.pred (reach_push_rev hb.inv _ hn hsuccv)

theorem internal_fields (li : LexIn) (s ci p dw : Nat) (head : Option Nat) :
    (internalNode li s ci p dw head).leaf = false ∧ (internalNode li s ci p dw head).ssid = li.internal dw p ∧
    (internalNode li s ci p dw head).tmatid = li.tmat ci ∧ (internalNode li s ci p dw head).logs2prob = li.pip :=
  ⟨rfl, rfl, rfl, rfl⟩

/-- data of a pnode from the data of the pnode it was pushed as, through a growth -/
theorem data_of_grow {a a' : Array PNode} (hg : Grow a a') {x : Nat} (hx : x < a.size) {lf : Bool} {ss tmv : Nat} {lp : Int}
    (h : (ndOf a x).leaf = lf ∧ (ndOf a x).ssid = ss ∧ (ndOf a x).tmatid = tmv ∧ (ndOf a x).logs2prob = lp) :
    x < a'.size ∧ (ndOf a' x).leaf = lf ∧ (ndOf a' x).ssid = ss ∧ (ndOf a' x).tmatid = tmv ∧ (ndOf a' x).logs2prob = lp := by
  obtain ⟨_, f2, _, f4, f5, f6, _⟩ := core_fields (hg.stable x hx)
  exact ⟨Nat.lt_of_lt_of_le hx hg.size, by rw [f2]; exact h.1, by rw [f4]; exact h.2.1, by rw [f5]; exact h.2.2.1, by rw [f6]; exact h.2.2.2⟩

theorem step_allocF (ctx : PhCtx g li tm s lid w lcl gl a1) (hb : PhInv g s a1 st)
    (hp : PhP g li tm s lid w logp rclist lcl gl a1 0 st) (hi : 1 + 0 + 1 ≠ w.pron.length) (hm : 0 < w.pron.length - 1) :
    PhP g li tm s lid w logp rclist lcl gl a1 1
      { nodes := lcl.foldl (fun a r => setSucc a r (some st.nodes.size))
          (st.nodes.push (internalNode li s (w.pron.getD 1 0) 1 w.dictWid (ndOf st.nodes st.pred).succ)),
        pred := st.nodes.size } := by
  obtain ⟨hq, hk, hnr⟩ := new_internal ctx hb hp 1 (Nat.le_refl _) (by omega)
  have hpredl := hp.predFirst rfl
  have hsz : (st.nodes.push (internalNode li s (w.pron.getD 1 0) 1 w.dictWid (ndOf st.nodes st.pred).succ)).size = st.nodes.size + 1 :=
    Array.size_push ..
  have gx1 := hp.gx.quiet hq
  have hspec := setSuccAll_spec st.nodes.size (ndOf st.nodes st.pred).succ lcl
    (st.nodes.push (internalNode li s (w.pron.getD 1 0) 1 w.dictWid (ndOf st.nodes st.pred).succ)) ctx.hnd
    (fun r hr => ctx.lcl_lt gx1 hr)
    (fun r hr => by rw [hq.succ r (ctx.lcl_lt hp.gx hr)]; exact ctx.sameSucc hp.gx hr hpredl)
    (by rw [ndOf_push_eq]; rfl)
  obtain ⟨cm, _, succAll, succOther⟩ := hspec
  have hG := grow_setSuccAll st.nodes.size lcl (st.nodes.push (internalNode li s (w.pron.getD 1 0) 1 w.dictWid (ndOf st.nodes st.pred).succ))
  have hGall : Grow st.nodes (lcl.foldl (fun a r => setSucc a r (some st.nodes.size))
      (st.nodes.push (internalNode li s (w.pron.getD 1 0) 1 w.dictWid (ndOf st.nodes st.pred).succ))) := (grow_push hb.inv _).trans hG
  have hCall : ChildMono st.nodes (lcl.foldl (fun a r => setSucc a r (some st.nodes.size))
      (st.nodes.push (internalNode li s (w.pron.getD 1 0) 1 w.dictWid (ndOf st.nodes st.pred).succ))) :=
    fun p hp' x hx => cm p (by rw [hsz]; omega) x (hq.child p hp' x hx)
  have hmin : min 1 (w.pron.length - 2) = 1 := by omega
  refine ⟨⟨?_, ?_, ?_, gx1.disj⟩, fun p hp' x hx => hCall p (Nat.lt_of_lt_of_le hp' hb.ext.1) x (hp.child p hp' x hx), IntKind.setSuccAll _ lcl _ hk,
    fun h => by omega, ?_, ?_⟩
  · intro e he r hr; exact Nat.lt_of_lt_of_le (gx1.lt e he r hr) hG.size
  · intro e he r hr
    exact noPar_setSuccAll st.nodes.size lcl _ (gx1.noPar e he r hr) (hnr e he r hr)
  · intro e he r hr r' hr'
    rcases ctx.cur_or_disj hp.gx he with h1 | h1
    · rw [succAll r ((h1 r).1 hr), succAll r' ((h1 r').1 hr')]
    · rw [succOther r (h1 r hr), succOther r' (h1 r' hr')]
      exact gx1.same e he r hr r' hr'
  · intro _ _ e he hmem
    have hmem' : st.nodes.size ∈ e.list := hmem
    have := hp.gx.lt e he _ hmem'
    omega
  · refine ⟨fun _ => st.nodes.size, ?_, fun _ => by rw [hmin], fun h => by omega⟩
    rw [hmin]
    refine ⟨?_, ?_, fun j h1 h2 => by omega⟩
    · intro j _ h2
      have hj : j = 1 := by omega
      subst hj
      exact data_of_grow hG (by rw [hsz]; omega) (by rw [ndOf_push_eq]; exact internal_fields li s _ 1 _ _)
    · intro _ r hr
      unfold Child
      rw [succAll r hr]
      exact Reach.here

theorem step_allocL (ctx : PhCtx g li tm s lid w lcl gl a1) (hb : PhInv g s a1 st)
    (hp : PhP g li tm s lid w logp rclist lcl gl a1 m st) (hm1 : 1 ≤ m) (hm : m < w.pron.length - 1) (hi : 1 + m + 1 ≠ w.pron.length) :
    PhP g li tm s lid w logp rclist lcl gl a1 (m + 1)
      { nodes := setSucc (st.nodes.push (internalNode li s (w.pron.getD (1 + m) 0) (1 + m) w.dictWid (ndOf st.nodes st.pred).succ))
          st.pred (some st.nodes.size),
        pred := st.nodes.size } := by
  obtain ⟨hq, hk, hnr⟩ := new_internal ctx hb hp (1 + m) (by omega) (by omega)
  have hpnr := hp.predLater hm1 hm
  have hsz : (st.nodes.push (internalNode li s (w.pron.getD (1 + m) 0) (1 + m) w.dictWid (ndOf st.nodes st.pred).succ)).size = st.nodes.size + 1 :=
    Array.size_push ..
  have gx1 := hp.gx.quiet hq
  have hpredlt : st.pred < (st.nodes.push (internalNode li s (w.pron.getD (1 + m) 0) (1 + m) w.dictWid (ndOf st.nodes st.pred).succ)).size := by
    rw [hsz]; have := hb.pred.1; omega
  have cm : ChildMono (st.nodes.push (internalNode li s (w.pron.getD (1 + m) 0) (1 + m) w.dictWid (ndOf st.nodes st.pred).succ))
      (setSucc (st.nodes.push (internalNode li s (w.pron.getD (1 + m) 0) (1 + m) w.dictWid (ndOf st.nodes st.pred).succ)) st.pred (some st.nodes.size)) :=
    childMono_setSucc (fun _ x hx => by
      unfold Child at hx
      rw [hq.succ st.pred hb.pred.1] at hx
      exact Reach.next (by rw [ndOf_push_eq]; exact hx))
  have hG1 := grow_setSucc (st.nodes.push (internalNode li s (w.pron.getD (1 + m) 0) (1 + m) w.dictWid (ndOf st.nodes st.pred).succ))
    st.pred (some st.nodes.size)
  have hGall := (grow_push hb.inv (internalNode li s (w.pron.getD (1 + m) 0) (1 + m) w.dictWid (ndOf st.nodes st.pred).succ)).trans hG1
  have hCall : ChildMono st.nodes (setSucc (st.nodes.push (internalNode li s (w.pron.getD (1 + m) 0) (1 + m) w.dictWid (ndOf st.nodes st.pred).succ))
      st.pred (some st.nodes.size)) := fun p hp' x hx => cm p (by rw [hsz]; omega) x (hq.child p hp' x hx)
  have hmin : min m (w.pron.length - 2) = m := by omega
  have hmin' : min (m + 1) (w.pron.length - 2) = m + 1 := by omega
  obtain ⟨qf, hpath, hpred, _⟩ := hp.path
  rw [hmin] at hpath hpred
  have hpath' := hpath.mono hGall hCall (fun r hr => ctx.lcl_lt hp.gx hr)
  refine ⟨⟨?_, ?_, ?_, gx1.disj⟩, fun p hp' x hx => hCall p (Nat.lt_of_lt_of_le hp' hb.ext.1) x (hp.child p hp' x hx), hk.setSucc _ _,
    fun h => by omega, ?_, ?_⟩
  · intro e he r hr; rw [size_setSucc]; exact gx1.lt e he r hr
  · intro e he r hr
    exact noPar_setSucc (gx1.noPar e he r hr) (hnr e he r hr)
  · intro e he r hr r' hr'
    have h1 : st.pred ≠ r := fun h0 => hpnr e he (h0 ▸ hr)
    have h2 : st.pred ≠ r' := fun h0 => hpnr e he (h0 ▸ hr')
    rw [succ_setSucc_ne _ _ h1, succ_setSucc_ne _ _ h2]
    exact gx1.same e he r hr r' hr'
  · intro _ _ e he hmem
    have hmem' : st.nodes.size ∈ e.list := hmem
    have := hp.gx.lt e he _ hmem'
    omega
  · refine ⟨fun j => if j = m + 1 then st.nodes.size else qf j, ?_, fun _ => by rw [hmin']; simp, fun h => by omega⟩
    rw [hmin']
    refine ⟨?_, ?_, ?_⟩
    · intro j h1 h2
      by_cases hj : j = m + 1
      · simp only [hj, if_true]
        have := data_of_grow hG1 (x := st.nodes.size) (by rw [hsz]; omega)
          (by rw [ndOf_push_eq]; exact internal_fields li s _ (1 + m) _ _)
        rw [Nat.add_comm m 1]; exact this
      · simp only [hj, if_false]
        exact hpath'.data j h1 (by omega)
    · intro _ r hr
      have : ¬ (1 = m + 1) := by omega
      simp only [this, if_false]
      exact hpath'.first hm1 r hr
    · intro j h1 h2
      have hj : ¬ (j = m + 1) := by omega
      simp only [hj, if_false]
      by_cases hjm : j = m
      · subst hjm
        simp only [if_true]
        rw [← hpred hm1]
        unfold Child
        rw [succ_setSucc _ hpredlt]
        exact Reach.here
      · have : ¬ (j + 1 = m + 1) := by omega
        simp only [this, if_false]
        exact hpath'.link j h1 (by omega)

/-- the word-final step, for either way of hooking the leaves (`l` = the roots, or the one predecessor) -/
theorem step_leaf_core (ctx : PhCtx g li tm s lid w lcl gl a1) (hb : PhInv g s a1 st) (hr : Ranked st.nodes)
    (hp : PhP g li tm s lid w logp rclist lcl gl a1 m st) (hm : m + 2 = w.pron.length) (l : List Nat) (hnd : l.Nodup)
    (hlv : ∀ x ∈ l, Valid st.nodes s x) (hsame : ∀ r ∈ l, ∀ r' ∈ l, (ndOf st.nodes r).succ = (ndOf st.nodes r').succ)
    (hsplit : ∀ e ∈ gl, (∀ x ∈ e.list, x ∈ l) ∨ (∀ x ∈ e.list, x ∉ l))
    (hlinks : ∀ qf : Nat → Nat, (1 ≤ m → st.pred = qf m) → (m = 0 → ∀ r ∈ lcl, r ∈ l) ∧ (1 ≤ m → qf m ∈ l)) :
    PhP g li tm s lid w logp rclist lcl gl a1 (m + 1)
      { nodes := attachRoots (rclist.foldl (leafStep li s lid (w.pron.getD (1 + m) 0) (w.pron.getD (1 + m - 1) 0) (1 + m) logp) { nodes := st.nodes }).nodes
          (rclist.foldl (leafStep li s lid (w.pron.getD (1 + m) 0) (w.pron.getD (1 + m - 1) 0) (1 + m) logp) { nodes := st.nodes }).rcl.head? l,
        pred := st.pred } := by
  obtain ⟨⟨hI, hR⟩, hQ, hG, hK, hRG⟩ := leafFold_all (li := li) (tm := tm) (gl := gl) (ci := w.pron.getD (1 + m) 0)
    (lc := w.pron.getD (1 + m - 1) 0) (p := 1 + m) (logp := logp) st.nodes ctx.hl hb.inv hr hp.kind rclist
  have gxR := hp.gx.quiet hQ
  have hhd : ∀ y, (rclist.foldl (leafStep li s lid (w.pron.getD (1 + m) 0) (w.pron.getD (1 + m - 1) 0) (1 + m) logp) { nodes := st.nodes }).rcl.head? = some y →
      st.nodes.size ≤ y ∧ y < (rclist.foldl (leafStep li s lid (w.pron.getD (1 + m) 0) (w.pron.getD (1 + m - 1) 0) (1 + m) logp) { nodes := st.nodes }).nodes.size :=
    fun y hy => ⟨hR.rclNew y (head?_mem hy), (hI.rcl y (head?_mem hy)).1⟩
  -- all of `l` share a child pointer, also after the loop
  have hsv : ∃ sv, ∀ r ∈ l, (ndOf (rclist.foldl (leafStep li s lid (w.pron.getD (1 + m) 0) (w.pron.getD (1 + m - 1) 0) (1 + m) logp)
      { nodes := st.nodes }).nodes r).succ = sv := by
    cases l with
    | nil => exact ⟨none, nil_all⟩
    | cons r0 rest =>
      refine ⟨(ndOf st.nodes r0).succ, fun r hr' => ?_⟩
      rw [hQ.succ r (hlv r hr').1]
      exact hsame r hr' r0 (List.mem_cons_self ..)
  obtain ⟨sv, hsv⟩ := hsv
  obtain ⟨v, hA⟩ := attachRoots_attached (s := s) (g0 := st.nodes.size) l _ hI.inv hR.ranked hnd (fun x hx => (hlv x hx).ext hI.ext) sv hsv
    (fun x hx => hI.rcl x (head?_mem hx)) hR.sibNew hhd
  have hGall := hG.trans hA.grow
  have hCall : ChildMono st.nodes _ := fun p hp' x hx => hA.child p (Nat.lt_of_lt_of_le hp' hQ.size) x (hQ.child p hp' x hx)
  have hmin : min m (w.pron.length - 2) = m := by omega
  have hmin' : min (m + 1) (w.pron.length - 2) = m := by omega
  obtain ⟨qf, hpath, hpred, _⟩ := hp.path
  rw [hmin] at hpath hpred
  have hpath' := hpath.mono hGall hCall (fun r hr => ctx.lcl_lt hp.gx hr)
  obtain ⟨hl0, hl1⟩ := hlinks qf hpred
  refine ⟨⟨?_, ?_, ?_, gxR.disj⟩, fun p hp' x hx => hCall p (Nat.lt_of_lt_of_le hp' hb.ext.1) x (hp.child p hp' x hx),
    hK.same hA.grow (size_attachRoots _ _ _), fun h => by omega, fun _ h => by omega, ?_⟩
  · intro e he r hr'; exact Nat.lt_of_lt_of_le (gxR.lt e he r hr') hA.grow.size
  · intro e he r hr'
    exact hA.noPar r (hp.gx.lt e he r hr') (gxR.noPar e he r hr')
  · intro e he r hr' r' hr''
    rcases hsplit e he with h1 | h1
    · rw [hA.val r (h1 r hr'), hA.val r' (h1 r' hr'')]
    · rw [hA.other r (h1 r hr'), hA.other r' (h1 r' hr'')]
      exact gxR.same e he r hr' r' hr''
  · refine ⟨qf, by rw [hmin']; exact hpath', fun h => by rw [hmin'] at h ⊢; exact hpred h, fun _ => ?_⟩
    have hk2 : w.pron.length - 2 = m := by omega
    rw [hk2]
    intro rc hrc
    obtain ⟨lf, hlm, hlf⟩ := hRG.cover rc hrc
    have hllt := (hI.rcl lf hlm).1
    have hkids := fun r hr' => hA.kids r hr' lf (hRG.headReach lf hlm)
    refine ⟨lf, Nat.lt_of_lt_of_le hllt hA.grow.size, ?_, fun h0 r hr' => hkids r (hl0 h0 r hr'), fun h1 => hkids _ (hl1 h1)⟩
    have := hlf.grow hA.grow hllt
    have e1 : 1 + m = m + 1 := Nat.add_comm 1 m
    simpa only [e1, Nat.add_sub_cancel] using this

/-- **one step of the loop over the phones keeps the path record** -/
theorem phoneStep_p (ctx : PhCtx g li tm s lid w lcl gl a1) (hb : PhInv g s a1 st) (hr : Ranked st.nodes)
    (hp : PhP g li tm s lid w logp rclist lcl gl a1 m st) (hm : m < w.pron.length - 1) :
    PhP g li tm s lid w logp rclist lcl gl a1 (m + 1) (phoneStep li s lid w logp rclist lcl st (1 + m)) := by
  by_cases hi : 1 + m + 1 ≠ w.pron.length
  · cases hf : findChild st.nodes (li.internal w.dictWid (1 + m)) st.nodes.size (ndOf st.nodes st.pred).succ with
    | some q =>
      rw [phoneStep_found hi hf]
      exact step_found ctx hb hp hm hi hf
    | none =>
      by_cases hm0 : m = 0
      · subst hm0
        rw [phoneStep_allocF hi hf rfl]
        exact step_allocF ctx hb hp hi hm
      · rw [phoneStep_allocL hi hf (by omega)]
        exact step_allocL ctx hb hp (by omega) hm hi
  · have hi' : 1 + m + 1 = w.pron.length := by omega
    have hlv : ∀ x ∈ lcl, Valid st.nodes s x := fun x hx => (ctx.hlcl x hx).ext hb.ext
    by_cases hm0 : m = 0
    · subst hm0
      rw [phoneStep_leafF hi' rfl]
      refine step_leaf_core ctx hb hr hp (by omega) lcl ctx.hnd hlv (fun r hr' r' hr'' => ctx.sameSucc hp.gx hr' hr'') ?_
        (fun _ _ => ⟨fun _ r hr' => hr', fun h => by omega⟩)
      intro e he
      rcases ctx.cur_or_disj hp.gx he with h1 | h1
      · exact Or.inl (fun x hx => (h1 x).1 hx)
      · exact Or.inr h1
    · rw [phoneStep_leafL hi' (by omega), attachOne_eq]
      have hpnr := hp.predLater (by omega) hm
      refine step_leaf_core ctx hb hr hp (by omega) [st.pred] (by simp) ?_ ?_ ?_ ?_
      · intro x hx
        simp only [List.mem_singleton] at hx
        rw [hx]; exact hb.pred
      · intro r hr' r' hr''
        simp only [List.mem_singleton] at hr' hr''
        rw [hr', hr'']
      · intro e he
        refine Or.inr (fun x hx hx2 => ?_)
        simp only [List.mem_singleton] at hx2
        exact hpnr e he (hx2 ▸ hx)
      · intro qf hq
        exact ⟨fun h => by omega, fun h => by rw [← hq h]; exact List.mem_singleton.2 rfl⟩

end Step

/-! ### one multi-phone arc -/

/-- the loop over the phones `1..n-1` of a multi-phone word -/
theorem phones_fold {g : Fsg} {li : LexIn} {tm : Nat → Nat} {s lid : Nat} {w : WordInfo} {logp : Int} {rclist lcl : List Nat}
    {gl : List GEntry} {a1 : Array PNode} (ctx : PhCtx g li tm s lid w lcl gl a1) (inv : GInv g a1) (hr : Ranked a1) (gx : GX gl a1)
    (hk : IntKind li tm s gl [] a1) {pred : Nat} (hpred : pred ∈ lcl) :
    Grow a1 (((List.range w.pron.length).drop 1).foldl (phoneStep li s lid w logp rclist lcl) { nodes := a1, pred }).nodes ∧
    PhP g li tm s lid w logp rclist lcl gl a1 (w.pron.length - 1)
      (((List.range w.pron.length).drop 1).foldl (phoneStep li s lid w logp rclist lcl) { nodes := a1, pred }) := by
  rw [drop1_range]
  have h := fold_range'
    (fun m st => (PhInv g s a1 st ∧ Ranked st.nodes ∧ Grow a1 st.nodes) ∧ PhP g li tm s lid w logp rclist lcl gl a1 m st)
    (phoneStep li s lid w logp rclist lcl) (w.pron.length - 1) { nodes := a1, pred }
    ⟨⟨⟨inv, Ext.refl _, ctx.hlcl pred hpred⟩, hr, Grow.refl _⟩,
     ⟨gx, fun _ _ _ h => h, hk, fun _ => hpred, fun h => by omega,
      ⟨fun _ => 0, ⟨fun j h1 h2 => by omega, fun h => by omega, fun j h1 h2 => by omega⟩, fun h => by omega,
        fun h => by have := ctx.n2; omega⟩⟩⟩
    (fun m st hm h' => ⟨⟨phoneStep_inv ctx.hl ctx.hlcl st (1 + m) h'.1.1,
        phoneStep_ranked ctx.hl ctx.hlcl ctx.hnd st (1 + m) h'.1.1 h'.1.2.1,
        h'.1.2.2.trans (phoneStep_grow0 ctx.hl ctx.hlcl st (1 + m) h'.1.1 h'.1.2.1)⟩,
      phoneStep_p ctx h'.1.1 h'.1.2.1 h'.2 hm⟩)
  exact ⟨h.1.2.2, h.2⟩

theorem findG_spec (ci rc : Nat) : ∀ (l : List GEntry) (i j : Nat) (e : GEntry), findG ci rc l i = some (j, e) →
    e ∈ l ∧ (e.list.isEmpty = true ∨ (e.ci = ci ∧ e.rc = rc)) := by
  intro l
  induction l with
  | nil => intro i j e h; simp [findG] at h
  | cons a rest ih =>
    intro i j e h
    simp only [findG] at h
    split at h
    · rename_i hc
      cases h
      refine ⟨List.mem_cons_self .., ?_⟩
      simp only [Bool.or_eq_true, Bool.and_eq_true, beq_iff_eq] at hc
      exact hc
    · obtain ⟨h1, h2⟩ := ih _ _ _ h
      exact ⟨List.mem_cons_of_mem _ h1, h2⟩

/-- arc `lid` (a word of `n ≥ 2` phones) is in the lextree of state `s`: a set of roots of the state covering every left
context, the chain of word-internal pnodes under ALL of them, and under its end leaves covering every right context -/
def MultiOK (li : LexIn) (g : Fsg) (s : Nat) (lclist rclist : List Nat) (a : Array PNode) (root : Option Nat) (lid : Nat) : Prop :=
  ∃ (lcl : List Nat) (qf : Nat → Nat),
    (∀ r ∈ lcl, r < a.size ∧ Reach a root r) ∧
    (∀ lc ∈ lclist, ∃ r ∈ lcl, Has (ndOf a r) s false 0
      (li.ldiph ((li.word (g.link lid).wid.toNat).pron.headD 0) ((li.word (g.link lid).wid.toNat).pron.getD 1 0) lc)
      (li.tmat ((li.word (g.link lid).wid.toNat).pron.headD 0)) (li.wip + li.pip) ((li.word (g.link lid).wid.toNat).pron.headD 0) (some lc)) ∧
    PathK li (li.word (g.link lid).wid.toNat) lcl a qf ((li.word (g.link lid).wid.toNat).pron.length - 2) ∧
    LeafK li s lid (li.word (g.link lid).wid.toNat) (g.link lid).logp rclist lcl a qf ((li.word (g.link lid).wid.toNat).pron.length - 2)

theorem MultiOK.mono {li : LexIn} {g : Fsg} {s : Nat} {lclist rclist : List Nat} {a a' : Array PNode} {root root' : Option Nat} {lid : Nat}
    (h : MultiOK li g s lclist rclist a root lid) (hg : Grow a a') (hc : ChildMono a a') (hm : RootMono a root a' root') :
    MultiOK li g s lclist rclist a' root' lid := by
  obtain ⟨lcl, qf, h1, h2, h3, h4⟩ := h
  have hl : ∀ r ∈ lcl, r < a.size := fun r hr => (h1 r hr).1
  refine ⟨lcl, qf, fun r hr => ⟨Nat.lt_of_lt_of_le (hl r hr) hg.size, hm r (h1 r hr).2⟩, ?_, h3.mono hg hc hl,
    h4.mono hg hc hl (fun hk => (h3.data _ hk (Nat.le_refl _)).1)⟩
  intro lc hlc
  obtain ⟨r, hr, hh⟩ := h2 lc hlc
  exact ⟨r, hr, hh.grow hg (hl r hr)⟩

/-- the exact and the covering facts about the root sets of the state under construction -/
structure WX (li : LexIn) (tm : Nat → Nat) (s : Nat) (lclist : List Nat) (w : Bld) : Prop where
  gx : GX w.glists w.nodes
  kind : IntKind li tm s w.glists [] w.nodes
  nonempty : ∀ e ∈ w.glists, e.list ≠ []
  sets : ∀ e ∈ w.glists, (∀ r ∈ e.list, Reach w.nodes w.root r) ∧
    ∀ lc ∈ lclist, ∃ r ∈ e.list, Has (ndOf w.nodes r) s false 0 (li.ldiph e.ci e.rc lc) (li.tmat e.ci) (li.wip + li.pip) e.ci (some lc)

/-- arcs that only allocate and set context bits -/
theorem WX.quiet {li : LexIn} {tm : Nat → Nat} {s : Nat} {lclist : List Nat} {w : Bld} (h : WX li tm s lclist w) {a' : Array PNode}
    {root' : Option Nat} (hq : Quiet w.nodes a') (hg : Grow w.nodes a') (hm : RootMono w.nodes w.root a' root')
    (hk : IntKind li tm s w.glists [] a') : WX li tm s lclist { w with nodes := a', root := root' } := by
  refine ⟨h.gx.quiet hq, hk, h.nonempty, ?_⟩
  intro e he
  obtain ⟨h1, h2⟩ := h.sets e he
  refine ⟨fun r hr => hm r (h1 r hr), fun lc hlc => ?_⟩
  obtain ⟨r, hr, hh⟩ := h2 lc hlc
  exact ⟨r, hr, hh.grow hg (h.gx.lt e he r hr)⟩

/-- the word-initial loop, everything at once -/
theorem rootFold_all {g : Fsg} {li : LexIn} {tm : Nat → Nat} {s ci rc : Nat} {a0 : Array PNode} (w0 : Bld) (h : WInv g s a0 w0)
    (hr : WR w0) (hk : IntKind li tm s w0.glists [] w0.nodes) (lclist : List Nat) :
    (LcInv g s w0.nodes (lclist.foldl (rootStep li s ci rc) { nodes := w0.nodes, root := w0.root, lcl := [] }) ∧
      LcR (lclist.foldl (rootStep li s ci rc) { nodes := w0.nodes, root := w0.root, lcl := [] })) ∧
    Quiet w0.nodes (lclist.foldl (rootStep li s ci rc) { nodes := w0.nodes, root := w0.root, lcl := [] }).nodes ∧
    Grow w0.nodes (lclist.foldl (rootStep li s ci rc) { nodes := w0.nodes, root := w0.root, lcl := [] }).nodes ∧
    RootMono w0.nodes w0.root (lclist.foldl (rootStep li s ci rc) { nodes := w0.nodes, root := w0.root, lcl := [] }).nodes
      (lclist.foldl (rootStep li s ci rc) { nodes := w0.nodes, root := w0.root, lcl := [] }).root ∧
    IntKind li tm s w0.glists (lclist.foldl (rootStep li s ci rc) { nodes := w0.nodes, root := w0.root, lcl := [] }).lcl
      (lclist.foldl (rootStep li s ci rc) { nodes := w0.nodes, root := w0.root, lcl := [] }).nodes ∧
    RtG li s ci rc w0.nodes lclist (lclist.foldl (rootStep li s ci rc) { nodes := w0.nodes, root := w0.root, lcl := [] }) := by
  have hf := foldl_inv_prefix
    (fun done st => (LcInv g s w0.nodes st ∧ LcR st) ∧ Quiet w0.nodes st.nodes ∧ Grow w0.nodes st.nodes ∧
      RootMono w0.nodes w0.root st.nodes st.root ∧ IntKind li tm s w0.glists st.lcl st.nodes ∧ RtG li s ci rc w0.nodes done st)
    (rootStep li s ci rc) lclist [] { nodes := w0.nodes, root := w0.root, lcl := [] }
    ⟨⟨⟨h.inv, Ext.refl _, h.root, nil_all, nil_all⟩, ⟨hr.ranked, List.nodup_nil⟩⟩, Quiet.refl _, Grow.refl _, fun _ hx => hx, hk,
      ⟨nil_all, nil_all, nil_all, nil_all, nil_all, nil_all, nil_all, fun h0 => absurd rfl h0⟩⟩
    (fun d st lc _ h' => ⟨⟨rootStep_inv st lc h'.1.1, rootStep_ranked st lc h'.1.1 h'.1.2⟩,
      h'.2.1.trans (rootStep_quiet st lc h'.1.1), h'.2.2.1.trans (rootStep_grow0 st lc h'.1.1).1,
      h'.2.2.2.1.trans (rootStep_grow0 st lc h'.1.1).2, rootStep_kind st lc h'.1.1 h'.2.2.2.2.1,
      rootStep_g st lc h'.1.1 h'.2.2.2.2.2⟩)
  simpa using hf

/-- the roots of a set move from `extra` into the list of sets -/
theorem IntKind.intoSets {li : LexIn} {tm : Nat → Nat} {s : Nat} {gl : List GEntry} {extra : List Nat} {a : Array PNode}
    (h : IntKind li tm s gl extra a) (e : GEntry) (he : e.list = extra) : IntKind li tm s (e :: gl) [] a := by
  intro x hx ho hl
  rcases h x hx ho hl with ⟨e', he', hx'⟩ | h1 | h1
  · exact Or.inl ⟨e', List.mem_cons_of_mem _ he', hx'⟩
  · exact Or.inl ⟨e, List.mem_cons_self .., by rw [he]; exact h1⟩
  · exact Or.inr (Or.inr h1)

/-- a multi-phone word over a root set `lcl` that is among the sets `gl` -/
theorem multi_core {g : Fsg} {li : LexIn} {tm : Nat → Nat} {s lid : Nat} {rclist lclist lcl : List Nat} {gl : List GEntry}
    {a1 : Array PNode} {root : Option Nat} (ctx : PhCtx g li tm s lid (li.word (g.link lid).wid.toNat) lcl gl a1) (inv : GInv g a1)
    (hr : Ranked a1) (gx : GX gl a1) (hk : IntKind li tm s gl [] a1) {pred : Nat} (hpred : pred ∈ lcl)
    (hroots : ∀ r ∈ lcl, Reach a1 root r)
    (hcover : ∀ lc ∈ lclist, ∃ r ∈ lcl, Has (ndOf a1 r) s false 0
      (li.ldiph ((li.word (g.link lid).wid.toNat).pron.headD 0) ((li.word (g.link lid).wid.toNat).pron.getD 1 0) lc)
      (li.tmat ((li.word (g.link lid).wid.toNat).pron.headD 0)) (li.wip + li.pip) ((li.word (g.link lid).wid.toNat).pron.headD 0) (some lc))
    (hrootv : ∀ y, root = some y → y < a1.size) :
    let a' := (((List.range (li.word (g.link lid).wid.toNat).pron.length).drop 1).foldl
      (phoneStep li s lid (li.word (g.link lid).wid.toNat) (g.link lid).logp rclist lcl) { nodes := a1, pred }).nodes
    Grow a1 a' ∧ ChildMono a1 a' ∧ GX gl a' ∧ IntKind li tm s gl [] a' ∧ MultiOK li g s lclist rclist a' root lid := by
  intro a'
  obtain ⟨hG, hP⟩ := phones_fold (logp := (g.link lid).logp) (rclist := rclist) ctx inv hr gx hk hpred
  refine ⟨hG, hP.child, hP.gx, hP.kind, ?_⟩
  obtain ⟨qf, hpath, _, hleaf⟩ := hP.path
  have hmin : min ((li.word (g.link lid).wid.toNat).pron.length - 1) ((li.word (g.link lid).wid.toNat).pron.length - 2) =
      (li.word (g.link lid).wid.toNat).pron.length - 2 := by omega
  rw [hmin] at hpath
  refine ⟨lcl, qf, fun r hr' => ⟨Nat.lt_of_lt_of_le (ctx.lcl_lt gx hr') hG.size, hG.reachO hrootv (hroots r hr')⟩, ?_, hpath, hleaf rfl⟩
  intro lc hlc
  obtain ⟨r, hr', hh⟩ := hcover lc hlc
  exact ⟨r, hr', hh.grow hG (ctx.lcl_lt gx hr')⟩

theorem headD_mem {l : List Nat} (h : l ≠ []) : l.headD 0 ∈ l := by
  cases l with
  | nil => exact absurd rfl h
  | cons x xs => exact List.mem_cons_self ..

/-- **`psubtree_add_trans` keeps the facts about the root sets, loses no child, and represents a multi-phone arc** -/
theorem addTrans_x {g : Fsg} {li : LexIn} {tm : Nat → Nat} {s : Nat} {lclist rclist : List Nat} {a0 : Array PNode} (hlc : lclist ≠ [])
    (w0 : Bld) (lid : Nat) (hl : lid < g.links.size ∧ (g.link lid).src = s ∧ 0 ≤ (g.link lid).wid)
    (h : WInv g s a0 w0) (hr : WR w0) (hx : WX li tm s lclist w0) (htm : SsidTmat li g tm)
    (hn : 1 ≤ (li.word (g.link lid).wid.toNat).pron.length) :
    WX li tm s lclist (addTrans li g s lclist rclist w0 lid) ∧
    ChildMono w0.nodes (addTrans li g s lclist rclist w0 lid).nodes ∧
    (2 ≤ (li.word (g.link lid).wid.toNat).pron.length →
      MultiOK li g s lclist rclist (addTrans li g s lclist rclist w0 lid).nodes (addTrans li g s lclist rclist w0 lid).root lid) := by
  have hv : ∀ y, w0.root = some y → y < w0.nodes.size := fun y hy => (h.root y hy).1
  unfold addTrans
  simp only
  split
  · rename_i h1
    split
    · have hf := foldl_inv (fun st => LcInv g s w0.nodes st ∧ Quiet w0.nodes st.nodes ∧ Grow w0.nodes st.nodes ∧
            RootMono w0.nodes w0.root st.nodes st.root ∧ IntKind li tm s w0.glists [] st.nodes)
          (singleStep li s lid ((li.word (g.link lid).wid.toNat).pron.headD 0) (g.link lid).logp) lclist
          { nodes := w0.nodes, root := w0.root, lcl := [] }
          ⟨⟨h.inv, Ext.refl _, h.root, nil_all, nil_all⟩, Quiet.refl _, Grow.refl _, fun _ hx' => hx', hx.kind⟩
          (fun st lc _ h' => ⟨singleStep_inv hl st lc h'.1, h'.2.1.trans (singleStep_quiet st lc h'.1),
            h'.2.2.1.trans (singleStep_grow0 st lc h'.1).1, h'.2.2.2.1.trans (singleStep_grow0 st lc h'.1).2,
            singleStep_kind st lc h'.1 h'.2.2.2.2⟩)
      exact ⟨hx.quiet hf.2.1 hf.2.2.1 hf.2.2.2.1 hf.2.2.2.2, hf.2.1.child, fun h2 => by omega⟩
    · exact ⟨hx.quiet (quiet_push h.inv rfl) (grow_push h.inv _) (rootMono_push h.inv hv rfl)
        (hx.kind.push h.inv _ (fun _ hx' => hx') (fun hl' => by cases hl')), (quiet_push h.inv rfl).child, fun h2 => by omega⟩
  · rename_i h1
    have hn2 : 2 ≤ (li.word (g.link lid).wid.toNat).pron.length := by omega
    split
    · rename_i i e hf
      obtain ⟨he, hspec⟩ := findG_spec _ _ _ _ _ _ hf
      have hne := hx.nonempty e he
      have hemp : e.list.isEmpty = false := by
        cases hel : e.list with
        | nil => exact absurd hel hne
        | cons _ _ => rfl
      have hcirc : e.ci = (li.word (g.link lid).wid.toNat).pron.headD 0 ∧ e.rc = (li.word (g.link lid).wid.toNat).pron.getD 1 0 := by
        rcases hspec with h2 | h2
        · rw [hemp] at h2; cases h2
        · exact h2
      simp only [hemp, Bool.not_false, if_true]
      have ctx : PhCtx g li tm s lid (li.word (g.link lid).wid.toNat) e.list w0.glists w0.nodes :=
        ⟨hl, rfl, h.glists e he, hr.nodup e he, ⟨e, he, rfl⟩, fun p h1 h2 => htm lid hl.1 hl.2.2 p h1 h2, hn2⟩
      obtain ⟨hG, hC, hgx, hkd, hM⟩ := multi_core (rclist := rclist) (lclist := lclist) (root := w0.root) ctx h.inv hr.ranked hx.gx hx.kind
        (headD_mem hne) (hx.sets e he).1 (by rw [← hcirc.1, ← hcirc.2]; exact (hx.sets e he).2) hv
      refine ⟨⟨hgx, hkd, hx.nonempty, ?_⟩, hC, fun _ => hM⟩
      intro e' he'
      obtain ⟨s1, s2⟩ := hx.sets e' he'
      refine ⟨fun r hr' => hG.reachO hv (s1 r hr'), fun lc hlc' => ?_⟩
      obtain ⟨r, hr', hh⟩ := s2 lc hlc'
      exact ⟨r, hr', hh.grow hG (hx.gx.lt e' he' r hr')⟩
    · -- a new set of roots
      obtain ⟨⟨hI, hR⟩, hQ, hG, hM, hK, hT⟩ := rootFold_all (li := li) (tm := tm) (ci := (li.word (g.link lid).wid.toNat).pron.headD 0)
        (rc := (li.word (g.link lid).wid.toNat).pron.getD 1 0) w0 h hr hx.kind lclist
      have hlclne : (lclist.foldl (rootStep li s ((li.word (g.link lid).wid.toNat).pron.headD 0)
          ((li.word (g.link lid).wid.toNat).pron.getD 1 0)) { nodes := w0.nodes, root := w0.root, lcl := [] }).lcl ≠ [] := by
        have hlm : (lclist.foldl (rootStep li s ((li.word (g.link lid).wid.toNat).pron.headD 0)
            ((li.word (g.link lid).wid.toNat).pron.getD 1 0)) { nodes := w0.nodes, root := w0.root, lcl := [] }).lmap ≠ [] := by
          cases lclist with
          | nil => exact absurd rfl hlc
          | cons x rest =>
            simp only [List.foldl_cons]
            exact (rootFold_root li s _ _ rest _ (rootStep_root li s _ _ _ x (Or.inl rfl))).1
        intro h0
        cases hlmap : (lclist.foldl (rootStep li s ((li.word (g.link lid).wid.toNat).pron.headD 0)
            ((li.word (g.link lid).wid.toNat).pron.getD 1 0)) { nodes := w0.nodes, root := w0.root, lcl := [] }).lmap with
        | nil => exact hlm hlmap
        | cons y ys =>
          have := hT.lmapSub y (by rw [hlmap]; exact List.mem_cons_self ..)
          rw [h0] at this; cases this
      generalize hRdef : lclist.foldl (rootStep li s ((li.word (g.link lid).wid.toNat).pron.headD 0)
          ((li.word (g.link lid).wid.toNat).pron.getD 1 0)) { nodes := w0.nodes, root := w0.root, lcl := [] } = R at *
      have gxQ := hx.gx.quiet hQ
      have hgx' : GX (GEntry.mk ((li.word (g.link lid).wid.toNat).pron.headD 0) ((li.word (g.link lid).wid.toNat).pron.getD 1 0) R.lcl :: w0.glists) R.nodes := by
        refine ⟨?_, ?_, ?_, ?_⟩
        · intro e' he' r hr'
          rcases List.mem_cons.1 he' with h2 | h2
          · rw [h2] at hr'; exact (hI.lcl r hr').1
          · exact gxQ.lt e' h2 r hr'
        · intro e' he' r hr'
          rcases List.mem_cons.1 he' with h2 | h2
          · rw [h2] at hr'; exact hT.noPar r hr'
          · exact gxQ.noPar e' h2 r hr'
        · intro e' he' r hr' r' hr''
          rcases List.mem_cons.1 he' with h2 | h2
          · rw [h2] at hr' hr''; rw [hT.succNone r hr', hT.succNone r' hr'']
          · exact gxQ.same e' h2 r hr' r' hr''
        · intro e1 he1 e2 he2 x hx1 hx2
          rcases List.mem_cons.1 he1 with h2 | h2 <;> rcases List.mem_cons.1 he2 with h3 | h3
          · rw [h2, h3]
          · rw [h2] at hx1
            have := hT.fresh x hx1
            have := hx.gx.lt e2 h3 x hx2
            omega
          · rw [h3] at hx2
            have := hT.fresh x hx2
            have := hx.gx.lt e1 h2 x hx1
            omega
          · exact gxQ.disj e1 h2 e2 h3 x hx1 hx2
      have hpredm : R.root.getD 0 ∈ R.lcl := by
        rw [hT.rootHead hlclne]
        cases hl' : R.lcl with
        | nil => exact absurd hl' hlclne
        | cons y ys => exact List.mem_cons_self ..
      have ctx : PhCtx g li tm s lid (li.word (g.link lid).wid.toNat) R.lcl
          (GEntry.mk ((li.word (g.link lid).wid.toNat).pron.headD 0) ((li.word (g.link lid).wid.toNat).pron.getD 1 0) R.lcl :: w0.glists) R.nodes :=
        ⟨hl, rfl, hI.lcl, hR.nodup, ⟨_, List.mem_cons_self .., rfl⟩, fun p h1 h2 => htm lid hl.1 hl.2.2 p h1 h2, hn2⟩
      obtain ⟨hG2, hC2, hgx2, hkd2, hM2⟩ := multi_core (rclist := rclist) (lclist := lclist) (root := R.root) ctx hI.inv hR.ranked hgx'
        (hK.intoSets _ rfl) hpredm hT.lclReach hT.cover (fun y hy => (hI.root y hy).1)
      refine ⟨⟨hgx2, hkd2, ?_, ?_⟩, fun p hp x hx' => hC2 p (Nat.lt_of_lt_of_le hp hQ.size) x (hQ.child p hp x hx'), fun _ => hM2⟩
      · intro e' he'
        rcases List.mem_cons.1 he' with h2 | h2
        · rw [h2]; exact hlclne
        · exact hx.nonempty e' h2
      · intro e' he'
        rcases List.mem_cons.1 he' with h2 | h2
        · rw [h2]
          refine ⟨fun r hr' => hG2.reachO (fun y hy => (hI.root y hy).1) (hT.lclReach r hr'), fun lc hlc' => ?_⟩
          obtain ⟨r, hr', hh⟩ := hT.cover lc hlc'
          exact ⟨r, hr', hh.grow hG2 (hI.lcl r hr').1⟩
        · obtain ⟨s1, s2⟩ := hx.sets e' h2
          refine ⟨fun r hr' => hG2.reachO (fun y hy => (hI.root y hy).1) (hM r (s1 r hr')), fun lc hlc' => ?_⟩
          obtain ⟨r, hr', hh⟩ := s2 lc hlc'
          exact ⟨r, hr', hh.grow (hG.trans hG2) (hx.gx.lt e' h2 r hr')⟩

/-! ### every pnode allocated for state `s` has owner `s` -/

def OwnSince (base s : Nat) (a : Array PNode) : Prop := ∀ x, base ≤ x → x < a.size → (ndOf a x).owner = s

theorem OwnSince.push {base s : Nat} {a : Array PNode} (h : OwnSince base s a) {n : PNode} (hn : n.owner = s) : OwnSince base s (a.push n) := by
  intro x hb hx
  rw [Array.size_push] at hx
  by_cases hlt : x < a.size
  · rw [ndOf_push_lt a n hlt]; exact h x hb hlt
  · have : x = a.size := by omega
    subst this
    rw [ndOf_push_eq]; exact hn

theorem OwnSince.same {base s : Nat} {a a' : Array PNode} (h : OwnSince base s a) (hg : Grow a a') (hs : a'.size = a.size) :
    OwnSince base s a' := by
  intro x hb hx
  rw [hs] at hx
  rw [(core_fields (hg.stable x hx)).1]; exact h x hb hx

theorem singleStep_own {li : LexIn} {base s lid ci : Nat} {logp : Int} (st : LcSt) (lc : Nat) (h : OwnSince base s st.nodes) :
    OwnSince base s (singleStep li s lid ci logp st lc).nodes := by
  unfold singleStep
  simp only
  split
  · exact h.same (grow_addCtxt _ _ _) (size_addCtxt _ _ _)
  · exact h.push rfl

theorem rootStep_own {li : LexIn} {base s ci rc : Nat} (st : LcSt) (lc : Nat) (h : OwnSince base s st.nodes) :
    OwnSince base s (rootStep li s ci rc st lc).nodes := by
  unfold rootStep
  simp only
  split
  · exact h.same (grow_addCtxt _ _ _) (size_addCtxt _ _ _)
  · exact (h.push rfl).same (grow_addCtxt _ _ _) (size_addCtxt _ _ _)

theorem leafStep_own {li : LexIn} {base s lid ci lc p : Nat} {logp : Int} (st : RcSt) (rc : Nat) (h : OwnSince base s st.nodes) :
    OwnSince base s (leafStep li s lid ci lc p logp st rc).nodes := by
  unfold leafStep
  split
  · exact h.same (grow_addCtxt _ _ _) (size_addCtxt _ _ _)
  · exact (h.push rfl).same (grow_addCtxt _ _ _) (size_addCtxt _ _ _)

theorem size_setSuccAll (id : Nat) : ∀ (l : List Nat) (a : Array PNode), (l.foldl (fun a r => setSucc a r (some id)) a).size = a.size := by
  intro l
  induction l with
  | nil => intro a; rfl
  | cons r rest ih => intro a; simp only [List.foldl_cons]; rw [ih, size_setSucc]

theorem phoneStep_own {g : Fsg} {li : LexIn} {base s lid : Nat} {w : WordInfo} {logp : Int} {rclist lcl : List Nat} {a0 : Array PNode}
    (hl : lid < g.links.size ∧ (g.link lid).src = s ∧ 0 ≤ (g.link lid).wid) (hlcl : ∀ x ∈ lcl, Valid a0 s x)
    (st : PhSt) (p : Nat) (hb : PhInv g s a0 st) (hr : Ranked st.nodes) (h : OwnSince base s st.nodes) :
    OwnSince base s (phoneStep li s lid w logp rclist lcl st p).nodes := by
  have hlcl' : ∀ x ∈ lcl, Valid st.nodes s x := fun x hx => (hlcl x hx).ext hb.ext
  unfold phoneStep
  simp only
  split
  · split
    · exact h
    · split
      · exact (h.push rfl).same (grow_setSuccAll _ lcl _) (size_setSuccAll _ lcl _)
      · exact (h.push rfl).same (grow_setSucc _ _ _) (size_setSucc _ _ _)
  · have hrr := foldl_inv (fun st' => (RcInv g s st.nodes st' ∧ RcR st.nodes st') ∧ OwnSince base s st'.nodes)
        (leafStep li s lid (w.pron.getD p 0) (w.pron.getD (p - 1) 0) p logp) rclist { nodes := st.nodes }
        ⟨⟨⟨hb.inv, Ext.refl _, nil_all, nil_all⟩,
          ⟨hr, Nat.le_refl _, fun _ _ => rfl, fun _ _ => rfl, fun x h1 h2 => absurd h2 (Nat.not_lt.2 h1), nil_all⟩⟩, h⟩
        (fun st' rc _ h' => ⟨⟨leafStep_inv hl st' rc h'.1.1, leafStep_ranked st' rc h'.1.1 h'.1.2⟩, leafStep_own st' rc h'.2⟩)
    obtain ⟨⟨hI, hR⟩, hO⟩ := hrr
    have hhd : OValid _ s (rclist.foldl (leafStep li s lid (w.pron.getD p 0) (w.pron.getD (p - 1) 0) p logp)
        { nodes := st.nodes }).rcl.head? := fun x hx => hI.rcl x (head?_mem hx)
    split
    · exact hO.same (attachRoots_grow0 lcl _ hI.inv hR.ranked (fun x hx => (hlcl' x hx).ext hI.ext) hhd) (size_attachRoots _ _ _)
    · rw [attachOne_eq]
      exact hO.same (attachRoots_grow0 [st.pred] _ hI.inv hR.ranked (fun x hx => by
        simp only [List.mem_singleton] at hx; rw [hx]; exact hb.pred.ext hI.ext) hhd) (size_attachRoots _ _ _)

theorem addTrans_own {g : Fsg} {li : LexIn} {base s : Nat} {lclist rclist : List Nat} {a0 : Array PNode} (hlc : lclist ≠ [])
    (w0 : Bld) (lid : Nat) (hl : lid < g.links.size ∧ (g.link lid).src = s ∧ 0 ≤ (g.link lid).wid)
    (h : WInv g s a0 w0) (hr : WR w0) (ho : OwnSince base s w0.nodes) :
    OwnSince base s (addTrans li g s lclist rclist w0 lid).nodes := by
  unfold addTrans
  simp only
  split
  · split
    · exact (foldl_inv (fun st => OwnSince base s st.nodes)
          (singleStep li s lid ((li.word (g.link lid).wid.toNat).pron.headD 0) (g.link lid).logp) lclist
          { nodes := w0.nodes, root := w0.root, lcl := [] } ho (fun st lc _ h' => singleStep_own st lc h'))
    · exact ho.push rfl
  · have hfresh : ∀ ci rc, ((LcInv g s w0.nodes (lclist.foldl (rootStep li s ci rc) { nodes := w0.nodes, root := w0.root, lcl := [] }) ∧
        LcR (lclist.foldl (rootStep li s ci rc) { nodes := w0.nodes, root := w0.root, lcl := [] })) ∧
        OwnSince base s (lclist.foldl (rootStep li s ci rc) { nodes := w0.nodes, root := w0.root, lcl := [] }).nodes) ∧
        (lclist.foldl (rootStep li s ci rc) { nodes := w0.nodes, root := w0.root, lcl := [] }).root.isSome = true := by
      intro ci rc
      refine ⟨foldl_inv (fun st => (LcInv g s w0.nodes st ∧ LcR st) ∧ OwnSince base s st.nodes)
        _ lclist _ ⟨⟨⟨h.inv, Ext.refl _, h.root, nil_all, nil_all⟩, ⟨hr.ranked, List.nodup_nil⟩⟩, ho⟩
        (fun st lc _ h' => ⟨⟨rootStep_inv st lc h'.1.1, rootStep_ranked st lc h'.1.1 h'.1.2⟩, rootStep_own st lc h'.2⟩), ?_⟩
      cases lclist with
      | nil => exact absurd rfl hlc
      | cons x rest =>
        simp only [List.foldl_cons]
        exact (rootFold_root li s ci rc rest _ (rootStep_root li s ci rc _ x (Or.inl rfl))).2
    have key : ∀ (a1 : Array PNode) (lcl : List Nat) (pred : Nat), GInv g a1 → (∀ x ∈ lcl, Valid a1 s x) → lcl.Nodup →
        Valid a1 s pred → Ranked a1 → OwnSince base s a1 →
        OwnSince base s (((List.range (li.word (g.link lid).wid.toNat).pron.length).drop 1).foldl
          (phoneStep li s lid (li.word (g.link lid).wid.toNat) (g.link lid).logp rclist lcl) { nodes := a1, pred }).nodes := by
      intro a1 lcl pred h1 hlcl hnd hpred hrk ho1
      exact (foldl_inv (fun st => (PhInv g s a1 st ∧ Ranked st.nodes) ∧ OwnSince base s st.nodes) _ _ _
        ⟨⟨⟨h1, Ext.refl _, hpred⟩, hrk⟩, ho1⟩
        (fun st p _ h' => ⟨⟨phoneStep_inv hl hlcl st p h'.1.1, phoneStep_ranked hl hlcl hnd st p h'.1.1 h'.1.2⟩,
          phoneStep_own hl hlcl st p h'.1.1 h'.1.2 h'.2⟩)).2
    split
    · rename_i i e hf
      have hmem := findG_mem _ _ _ _ _ _ hf
      split
      · rename_i hne
        have hpred : Valid w0.nodes s (e.list.headD 0) := by
          cases hel : e.list with
          | nil => rw [hel] at hne; simp at hne
          | cons y ys => exact h.glists e hmem y (by rw [hel]; exact List.mem_cons_self ..)
        exact key w0.nodes e.list (e.list.headD 0) h.inv (fun x hx => h.glists e hmem x hx) (hr.nodup e hmem) hpred hr.ranked ho
      · obtain ⟨⟨⟨hI, hR⟩, hO⟩, hsome⟩ := hfresh ((li.word (g.link lid).wid.toNat).pron.headD 0) ((li.word (g.link lid).wid.toNat).pron.getD 1 0)
        exact key _ _ ((lclist.foldl (rootStep li s ((li.word (g.link lid).wid.toNat).pron.headD 0)
            ((li.word (g.link lid).wid.toNat).pron.getD 1 0)) { nodes := w0.nodes, root := w0.root, lcl := [] }).root.getD 0)
          hI.inv hI.lcl hR.nodup (by
            cases hroot : (lclist.foldl (rootStep li s ((li.word (g.link lid).wid.toNat).pron.headD 0)
                ((li.word (g.link lid).wid.toNat).pron.getD 1 0)) { nodes := w0.nodes, root := w0.root, lcl := [] }).root with
            | none => rw [hroot] at hsome; cases hsome
            | some r => exact hI.root r hroot) hR.ranked hO
    · obtain ⟨⟨⟨hI, hR⟩, hO⟩, hsome⟩ := hfresh ((li.word (g.link lid).wid.toNat).pron.headD 0) ((li.word (g.link lid).wid.toNat).pron.getD 1 0)
      exact key _ _ ((lclist.foldl (rootStep li s ((li.word (g.link lid).wid.toNat).pron.headD 0)
          ((li.word (g.link lid).wid.toNat).pron.getD 1 0)) { nodes := w0.nodes, root := w0.root, lcl := [] }).root.getD 0)
        hI.inv hI.lcl hR.nodup (by
          cases hroot : (lclist.foldl (rootStep li s ((li.word (g.link lid).wid.toNat).pron.headD 0)
              ((li.word (g.link lid).wid.toNat).pron.getD 1 0)) { nodes := w0.nodes, root := w0.root, lcl := [] }).root with
          | none => rw [hroot] at hsome; cases hsome
          | some r => exact hI.root r hroot) hR.ranked hO

/-- **one state**: every multi-phone arc leaving `s` is represented, no child of an earlier pnode is lost, all new pnodes
belong to `s` -/
theorem buildState_multi {g : Fsg} {li : LexIn} {tm : Nat → Nat} {lcs rcs : Array Nat} {nodes : Array PNode} {s : Nat}
    (hlc : ctxList li (lcs.getD s 0) ≠ []) (inv : GInv g nodes) (hr : Ranked nodes) (htm : SsidTmat li g tm)
    (hpron : ∀ lid ∈ stateArcs g s, 1 ≤ (li.word (g.link lid).wid.toNat).pron.length)
    (hown : ∀ x, x < nodes.size → (ndOf nodes x).owner ≠ s) :
    (Grow nodes (buildState li g lcs rcs nodes s).1 ∧ ChildMono nodes (buildState li g lcs rcs nodes s).1 ∧
      OwnSince nodes.size s (buildState li g lcs rcs nodes s).1) ∧
    ∀ lid ∈ stateArcs g s, 2 ≤ (li.word (g.link lid).wid.toNat).pron.length →
      MultiOK li g s (ctxList li (lcs.getD s 0)) (ctxList li (rcs.getD (g.link lid).dst 0))
        (buildState li g lcs rcs nodes s).1 (buildState li g lcs rcs nodes s).2 lid := by
  have h := foldl_inv_prefix
    (fun done w => ((WInv g s nodes w ∧ WR w) ∧ WX li tm s (ctxList li (lcs.getD s 0)) w) ∧
      (Grow nodes w.nodes ∧ ChildMono nodes w.nodes ∧ OwnSince nodes.size s w.nodes) ∧
      ∀ lid ∈ done, 2 ≤ (li.word (g.link lid).wid.toNat).pron.length →
        MultiOK li g s (ctxList li (lcs.getD s 0)) (ctxList li (rcs.getD (g.link lid).dst 0)) w.nodes w.root lid)
    (fun w lid => addTrans li g s (ctxList li (lcs.getD s 0)) (ctxList li (rcs.getD (g.link lid).dst 0)) w lid)
    (stateArcs g s) [] { nodes := nodes }
    ⟨⟨⟨⟨inv, Ext.refl _, ovalid_none _ _, nil_all⟩, ⟨hr, nil_all⟩⟩,
      ⟨⟨nil_all, nil_all, nil_all, nil_all⟩, fun x hx ho _ => absurd ho (hown x hx), nil_all, nil_all⟩⟩,
     ⟨Grow.refl _, fun _ _ _ h => h, fun x h1 h2 => by
        have h2' : x < nodes.size := h2
        omega⟩, nil_all⟩
    (fun d w lid hm hw => by
      have hl := mem_stateArcs hm
      obtain ⟨hG, hM⟩ := addTrans_grow0 (li := li) (rclist := ctxList li (rcs.getD (g.link lid).dst 0)) hlc w lid hl hw.1.1.1 hw.1.1.2
      obtain ⟨hX, hC, hMu⟩ := addTrans_x (li := li) (tm := tm) (rclist := ctxList li (rcs.getD (g.link lid).dst 0)) hlc w lid hl
        hw.1.1.1 hw.1.1.2 hw.1.2 htm (hpron lid hm)
      refine ⟨⟨⟨addTrans_inv hlc w lid hl hw.1.1.1, addTrans_ranked hlc w lid hl hw.1.1.1 hw.1.1.2⟩, hX⟩,
        ⟨hw.2.1.1.trans hG, fun p hp x hx => hC p (Nat.lt_of_lt_of_le hp hw.2.1.1.size) x (hw.2.1.2.1 p hp x hx),
          addTrans_own hlc w lid hl hw.1.1.1 hw.1.1.2 hw.2.1.2.2⟩, ?_⟩
      intro x hx h2
      rcases List.mem_append.1 hx with h3 | h3
      · exact (hw.2.2 x h3 h2).mono hG hC hM
      · simp only [List.mem_singleton] at h3
        subst h3
        exact hMu h2)
  simp only [List.nil_append] at h
  exact ⟨h.2.1, h.2.2⟩

/-- all states: every multi-phone arc is represented in the final array, under the final `root[s]` -/
theorem buildFold_multi (li : LexIn) (g : Fsg) (tm : Nat → Nat) (hsil : li.sil < li.nCi) (htm : SsidTmat li g tm)
    (hpron : ∀ s, s < li.nState → ∀ lid ∈ stateArcs g s, 1 ≤ (li.word (g.link lid).wid.toNat).pron.length) :
    ∀ n, n ≤ li.nState →
      (∀ x, x < ((List.range n).foldl (buildStep li g) (#[], #[])).1.size →
        (ndOf ((List.range n).foldl (buildStep li g) (#[], #[])).1 x).owner < n) ∧
      ∀ s, s < n → ∀ lid ∈ stateArcs g s, 2 ≤ (li.word (g.link lid).wid.toNat).pron.length →
        MultiOK li g s (ctxList li ((ctxFlags li g).1.getD s 0)) (ctxList li ((ctxFlags li g).2.getD (g.link lid).dst 0))
          ((List.range n).foldl (buildStep li g) (#[], #[])).1 (((List.range n).foldl (buildStep li g) (#[], #[])).2.getD s none) lid := by
  intro n
  induction n with
  | zero => intro _; exact ⟨fun x hx => by simp at hx, fun s hs => by omega⟩
  | succ n ih =>
    intro hn
    obtain ⟨hi, hsz, hroots⟩ := buildFold_inv li g hsil n (by omega)
    have hr := buildFold_ranked li g hsil n (by omega)
    obtain ⟨hown, ih'⟩ := ih (by omega)
    rw [List.range_succ, List.foldl_append]
    simp only [List.foldl_cons, List.foldl_nil]
    generalize (List.range n).foldl (buildStep li g) (#[], #[]) = acc at hi hsz hroots hr hown ih'
    obtain ⟨⟨hG, hC, hO⟩, hQ⟩ := buildState_multi (li := li) (tm := tm) (lcs := (ctxFlags li g).1) (rcs := (ctxFlags li g).2)
      (ctxList_ne_nil li g hsil (by omega : n < li.nState)) hi hr htm (hpron n (by omega))
      (fun x hx h0 => by have := hown x hx; omega)
    refine ⟨?_, ?_⟩
    · intro x hx
      show (ndOf (buildState li g (ctxFlags li g).1 (ctxFlags li g).2 acc.1 n).1 x).owner < n + 1
      by_cases hlt : x < acc.1.size
      · rw [(core_fields (hG.stable x hlt)).1]
        have := hown x hlt; omega
      · rw [hO x (by omega) hx]; omega
    · intro s hs lid hlid h2
      show MultiOK li g s _ _ (buildState li g (ctxFlags li g).1 (ctxFlags li g).2 acc.1 n).1
        ((acc.2.push (buildState li g (ctxFlags li g).1 (ctxFlags li g).2 acc.1 n).2).getD s none) lid
      by_cases hsn : s < n
      · have : (acc.2.push (buildState li g (ctxFlags li g).1 (ctxFlags li g).2 acc.1 n).2).getD s none = acc.2.getD s none := by
          simp [Array.getD, hsz, hsn, Array.getElem_push, Nat.lt_succ_of_lt hsn]
        rw [this]
        exact (ih' s hsn lid hlid h2).mono hG hC (rootMono_same hG (fun y hy => (hroots s hsn y hy).1))
      · have hs' : s = n := by omega
        subst hs'
        have : (acc.2.push (buildState li g (ctxFlags li g).1 (ctxFlags li g).2 acc.1 s).2).getD s none =
            (buildState li g (ctxFlags li g).1 (ctxFlags li g).2 acc.1 s).2 := by
          simp [Array.getD, hsz, Array.getElem_push]
        rw [this]
        exact hQ lid hlid h2

/-- **multi-phone words of the flat network are in the lextree the code builds**: for every word arc `lid` leaving a state `s`
whose word has `n ≥ 2` phones, every left context `lc` of `s` and every right context `rc` of the arc's target state there is a
root-to-leaf path `r → qf 1 → … → qf (n−2) → l` of pnodes — `r` a root of `root[s]` with `lc` in its context set and the ssid of
`(p₀, lc, p₁)`, `qf j` word-internal pnodes with the ssid, transition matrix and entry penalty of position `j`, `l` a leaf
carrying the arc with `rc` in its context set and the ssid of `(p_{n−1}, p_{n−2}, rc)` — every pnode a child (in the sense of
`fsg_search_pnode_trans`) of the one before. -/
theorem build_multi (li : LexIn) (g : Fsg) (tm : Nat → Nat) (hsil : li.sil < li.nCi) (htm : SsidTmat li g tm)
    (hpron : ∀ s, s < li.nState → ∀ lid ∈ stateArcs g s, 1 ≤ (li.word (g.link lid).wid.toNat).pron.length)
    {s : Nat} (hs : s < li.nState) {lid : Nat} (hlid : lid ∈ stateArcs g s)
    (h2 : 2 ≤ (li.word (g.link lid).wid.toNat).pron.length) {lc : Nat} (hlc : lc ∈ ctxList li ((ctxFlags li g).1.getD s 0)) {rc : Nat}
    (hrc : rc ∈ ctxList li ((ctxFlags li g).2.getD (g.link lid).dst 0)) :
    ∃ r ∈ (buildLexTree li g).roots s, ∃ (qf : Nat → Nat) (l : Nat),
      Has ((buildLexTree li g).node r) s false 0
        (li.ldiph ((li.word (g.link lid).wid.toNat).pron.headD 0) ((li.word (g.link lid).wid.toNat).pron.getD 1 0) lc)
        (li.tmat ((li.word (g.link lid).wid.toNat).pron.headD 0)) (li.wip + li.pip) ((li.word (g.link lid).wid.toNat).pron.headD 0) (some lc) ∧
      (∀ j, 1 ≤ j → j ≤ (li.word (g.link lid).wid.toNat).pron.length - 2 →
        ((buildLexTree li g).node (qf j)).leaf = false ∧
        ((buildLexTree li g).node (qf j)).ssid = li.internal (li.word (g.link lid).wid.toNat).dictWid j ∧
        ((buildLexTree li g).node (qf j)).tmatid = li.tmat ((li.word (g.link lid).wid.toNat).pron.getD j 0) ∧
        ((buildLexTree li g).node (qf j)).logs2prob = li.pip) ∧
      Has ((buildLexTree li g).node l) s true lid
        (li.rcSsid ((li.word (g.link lid).wid.toNat).pron.getD ((li.word (g.link lid).wid.toNat).pron.length - 2 + 1) 0)
          ((li.word (g.link lid).wid.toNat).pron.getD ((li.word (g.link lid).wid.toNat).pron.length - 2) 0)
          (li.rcMap ((li.word (g.link lid).wid.toNat).pron.getD ((li.word (g.link lid).wid.toNat).pron.length - 2 + 1) 0)
            ((li.word (g.link lid).wid.toNat).pron.getD ((li.word (g.link lid).wid.toNat).pron.length - 2) 0) rc))
        (li.tmat ((li.word (g.link lid).wid.toNat).pron.getD ((li.word (g.link lid).wid.toNat).pron.length - 2 + 1) 0))
        (((g.link lid).logp >>> li.shift) + li.pip)
        ((li.word (g.link lid).wid.toNat).pron.getD ((li.word (g.link lid).wid.toNat).pron.length - 2 + 1) 0) (some rc) ∧
      ((li.word (g.link lid).wid.toNat).pron.length - 2 = 0 → l ∈ (buildLexTree li g).children r) ∧
      (1 ≤ (li.word (g.link lid).wid.toNat).pron.length - 2 →
        qf 1 ∈ (buildLexTree li g).children r ∧
        (∀ j, 1 ≤ j → j < (li.word (g.link lid).wid.toNat).pron.length - 2 → qf (j + 1) ∈ (buildLexTree li g).children (qf j)) ∧
        l ∈ (buildLexTree li g).children (qf ((li.word (g.link lid).wid.toNat).pron.length - 2))) := by
  obtain ⟨lcl, qf, hroots, hcover, hpath, hleaf⟩ := (buildFold_multi li g tm hsil htm hpron li.nState (Nat.le_refl _)).2 s hs lid hlid h2
  obtain ⟨hi, hsz, hrootsv⟩ := buildFold_inv li g hsil li.nState (Nat.le_refl _)
  have hrk := buildFold_ranked li g hsil li.nState (Nat.le_refl _)
  -- reachability in the final array is membership in the lists of the lextree
  have hmemroot : ∀ r, Reach (buildLexTree li g).nodes ((buildLexTree li g).root.getD s none) r → r ∈ (buildLexTree li g).roots s := by
    intro r hr
    unfold LexTree.roots
    rw [chain_eq]
    refine reach_mem_chainA _ _ hr ?_
    cases hroot : (buildLexTree li g).root.getD s none with
    | none => exact chainEndsA_none _ _
    | some y => exact ranked_ends (g := g) hi hrk (hrootsv s hs y hroot).1
  have hmemchild : ∀ p x, p < (buildLexTree li g).nodes.size → ((buildLexTree li g).node p).leaf = false →
      Child (buildLexTree li g).nodes p x → x ∈ (buildLexTree li g).children p := by
    intro p x hp hlf hc
    unfold LexTree.children
    rw [hlf]
    simp only [Bool.false_eq_true, if_false]
    rw [chain_eq]
    refine reach_mem_chainA _ _ hc ?_
    cases hsucc : ((buildLexTree li g).node p).succ with
    | none => exact chainEndsA_none _ _
    | some y => exact ranked_ends (g := g) hi hrk (hi.succClosed hp hsucc)
  obtain ⟨r, hrm, hrh⟩ := hcover lc hlc
  obtain ⟨l, hl1, hl2, hl3, hl4⟩ := hleaf rc hrc
  have hrlf : ((buildLexTree li g).node r).leaf = false := hrh.fields.2.1
  refine ⟨r, hmemroot r (hroots r hrm).2, qf, l, hrh, fun j h1 h2' => (hpath.data j h1 h2').2, hl2,
    fun h0 => hmemchild r l (hroots r hrm).1 hrlf (hl3 h0 r hrm), fun h1 => ⟨?_, ?_, ?_⟩⟩
  · exact hmemchild r _ (hroots r hrm).1 hrlf (hpath.first h1 r hrm)
  · intro j hj1 hj2
    obtain ⟨d0, d1, _⟩ := hpath.data j hj1 (by omega)
    exact hmemchild _ _ d0 d1 (hpath.link j hj1 hj2)
  · obtain ⟨d0, d1, _⟩ := hpath.data _ h1 (Nat.le_refl _)
    exact hmemchild _ _ d0 d1 (hl4 h1)

end SSVerif.LexFlat
