import SSVerif.Proofs.LexFlat
/-!
# Every path of the flat network is a root-to-leaf path of the lextree the code builds

For every word arc of the FSG, every left context `lc` of its source state and every right context `rc` of its
target state, the lextree `buildLexTree` constructs contains a root-to-leaf path of pnodes — a root of `root[src]`
whose context set contains `lc`, the chain of word-internal pnodes, a leaf carrying the arc whose context set contains
`rc` — with exactly the senone-sequence ids, transition-matrix ids and entry penalties of the flat network's HMM
instances (single-phone words and fillers: a root that is a leaf).

The proof follows the construction with monotone facts only: what is reachable along `sibling` / is a child stays so
(`Grow`), the fields a path key is made of never change after allocation, context bits are only added.
-/
namespace SSVerif.LexFlat
open SSVerif.Search SSVerif.Hist

/-- `x` is on the `sibling` chain that starts at `o` -/
inductive Reach (a : Array PNode) : Option Nat → Nat → Prop
  | here {x : Nat} : Reach a (some x) x
  | next {p x : Nat} : Reach a (ndOf a p).sibling x → Reach a (some p) x

/-- `x` is one of the pnodes `fsg_search_pnode_trans` enters from `p` -/
def Child (a : Array PNode) (p x : Nat) : Prop := Reach a (ndOf a p).succ x

/-- the fields a path key is made of (and the owner) -/
def core (n : PNode) : Nat × Bool × Nat × Nat × Nat × Int × Nat := (n.owner, n.leaf, n.link, n.ssid, n.tmatid, n.logs2prob, n.ciExt)

/-- nothing is lost: old pnodes keep their key fields, their context bits and what their `sibling` chain reaches -/
structure Grow (a a' : Array PNode) : Prop where
  size : a.size ≤ a'.size
  stable : ∀ p, p < a.size → core (ndOf a' p) = core (ndOf a p)
  ctxt : ∀ p, p < a.size → ∀ c, (ndOf a p).ctxt.testBit c = true → (ndOf a' p).ctxt.testBit c = true
  reach : ∀ p, p < a.size → ∀ x, Reach a (some p) x → Reach a' (some p) x

theorem Grow.refl (a : Array PNode) : Grow a a :=
  ⟨Nat.le_refl _, fun _ _ => rfl, fun _ _ _ h => h, fun _ _ _ h => h⟩

theorem Grow.trans {a b c : Array PNode} (h1 : Grow a b) (h2 : Grow b c) : Grow a c :=
  ⟨Nat.le_trans h1.size h2.size,
   fun p hp => by rw [h2.stable p (Nat.lt_of_lt_of_le hp h1.size), h1.stable p hp],
   fun p hp c hc => h2.ctxt p (Nat.lt_of_lt_of_le hp h1.size) c (h1.ctxt p hp c hc),
   fun p hp x hx => h2.reach p (Nat.lt_of_lt_of_le hp h1.size) x (h1.reach p hp x hx)⟩

/-- children are not lost either -/
def ChildMono (a a' : Array PNode) : Prop := ∀ p, p < a.size → ∀ x, Child a p x → Child a' p x

theorem Grow.reachO {a a' : Array PNode} (h : Grow a a') {o : Option Nat} (ho : ∀ y, o = some y → y < a.size) {x : Nat}
    (hr : Reach a o x) : Reach a' o x := by
  cases o with
  | none => cases hr
  | some p => exact h.reach p (ho p rfl) x hr

/-- a chain that starts at an old pnode only visits old pnodes -/
theorem reach_lt {g : Fsg} {a : Array PNode} (inv : GInv g a) : ∀ {o : Option Nat} {x : Nat}, Reach a o x →
    (∀ y, o = some y → y < a.size) → x < a.size := by
  intro o x h
  induction h with
  | here => intro ho; exact ho _ rfl
  | @next p x _ ih =>
    intro ho
    exact ih (fun y hy => inv.sibClosed (ho p rfl) hy)

theorem reach_push {g : Fsg} {a : Array PNode} (inv : GInv g a) (n : PNode) : ∀ {o : Option Nat} {x : Nat}, Reach a o x →
    (∀ y, o = some y → y < a.size) → Reach (a.push n) o x := by
  intro o x h
  induction h with
  | here => intro _; exact Reach.here
  | @next p x _ ih =>
    intro ho
    have hp := ho p rfl
    refine Reach.next ?_
    rw [ndOf_push_lt a n hp]
    exact ih (fun y hy => inv.sibClosed hp hy)

theorem grow_push {g : Fsg} {a : Array PNode} (inv : GInv g a) (n : PNode) : Grow a (a.push n) := by
  exact ⟨by rw [Array.size_push]; omega, fun p hp => by rw [ndOf_push_lt a n hp],
    fun p hp c hc => by rw [ndOf_push_lt a n hp]; exact hc, fun p hp x hx => reach_push inv n hx (fun y hy => by cases hy; exact hp)⟩

theorem childMono_push {g : Fsg} {a : Array PNode} (inv : GInv g a) (n : PNode) : ChildMono a (a.push n) := by
  intro p hp x hx
  unfold Child at hx ⊢
  rw [ndOf_push_lt a n hp]
  exact reach_push inv n hx (fun y hy => inv.succClosed hp hy)

/-- beyond the size an array reads the default pnode -/
theorem ndOf_ge (a : Array PNode) {q : Nat} (hq : a.size ≤ q) : ndOf a q = { owner := 0, leaf := false } := by
  unfold ndOf
  simp [Array.getD, Nat.not_lt.2 hq]

theorem ndOf_amod_sibling (a : Array PNode) (p : Nat) (f : PNode → PNode) (hf : ∀ n, (f n).sibling = n.sibling) (q : Nat) :
    (ndOf (amod a p f) q).sibling = (ndOf a q).sibling := by
  by_cases hq : q < a.size
  · exact sibling_amod a p f hf hq
  · rw [ndOf_ge _ (by rw [size_amod]; omega), ndOf_ge _ (by omega)]

/-- pointers along `sibling` unchanged: same reachability -/
theorem reach_congr {a a' : Array PNode} (hs : ∀ q, (ndOf a' q).sibling = (ndOf a q).sibling) :
    ∀ {o : Option Nat} {x : Nat}, Reach a o x → Reach a' o x := by
  intro o x h
  induction h with
  | here => exact Reach.here
  | @next p x _ ih => exact Reach.next (by rw [hs]; exact ih)

/-- a modification of one pnode that keeps `sibling` and the key fields and only adds context bits -/
theorem grow_amod {a : Array PNode} {p : Nat} {f : PNode → PNode} (hsib : ∀ n, (f n).sibling = n.sibling)
    (hcore : ∀ n, core (f n) = core n) (hctxt : ∀ n c, n.ctxt.testBit c = true → (f n).ctxt.testBit c = true) :
    Grow a (amod a p f) := by
  have hs := ndOf_amod_sibling a p f hsib
  refine ⟨by rw [size_amod]; exact Nat.le_refl _, ?_, ?_, fun q _ x hx => reach_congr hs hx⟩
  · intro q hq
    rw [ndOf_modify a p f hq]
    split
    · exact hcore _
    · rfl
  · intro q hq c hc
    rw [ndOf_modify a p f hq]
    split
    · exact hctxt _ c hc
    · exact hc

/-- `succ` may change to a pointer whose chain covers the old children -/
theorem childMono_amod {a : Array PNode} {p : Nat} {f : PNode → PNode} (hsib : ∀ n, (f n).sibling = n.sibling)
    (hsucc : p < a.size → ∀ x, Reach a (ndOf a p).succ x → Reach a (f (ndOf a p)).succ x) : ChildMono a (amod a p f) := by
  have hs := ndOf_amod_sibling a p f hsib
  intro q hq x hx
  unfold Child at hx ⊢
  rw [ndOf_modify a p f hq]
  by_cases hpq : p = q
  · subst hpq
    simp only [if_true]
    exact reach_congr hs (hsucc hq x hx)
  · simp only [hpq, if_false]
    exact reach_congr hs hx

theorem grow_addCtxt (a : Array PNode) (p c : Nat) : Grow a (addCtxt a p c) := by
  unfold addCtxt
  apply grow_amod
  · intro n; rfl
  · intro n; rfl
  · intro n c' h
    show (n.ctxt ||| (1 <<< c)).testBit c' = true
    rw [Nat.testBit_or, h]; rfl

theorem childMono_addCtxt (a : Array PNode) (p c : Nat) : ChildMono a (addCtxt a p c) := by
  unfold addCtxt
  apply childMono_amod
  · intro n; rfl
  · intro _ x hx; exact hx

theorem ctxt_addCtxt (a : Array PNode) {p : Nat} (hp : p < a.size) (c : Nat) : (ndOf (addCtxt a p c) p).ctxt.testBit c = true := by
  unfold addCtxt
  rw [ndOf_modify a p _ hp]
  simp only [if_true, Nat.testBit_or, testBit_bit, decide_true, Bool.or_true]

theorem grow_setSucc (a : Array PNode) (p : Nat) (q : Option Nat) : Grow a (setSucc a p q) := by
  unfold setSucc
  apply grow_amod
  · intro n; rfl
  · intro n; rfl
  · intro n c' h; exact h

theorem childMono_setSucc {a : Array PNode} {p : Nat} {q : Option Nat} (h : p < a.size → ∀ x, Child a p x → Reach a q x) :
    ChildMono a (setSucc a p q) := by
  unfold setSucc
  apply childMono_amod
  · intro n; rfl
  · intro hp x hx; exact h hp x hx

theorem succ_setSucc (a : Array PNode) {p : Nat} (hp : p < a.size) (q : Option Nat) : (ndOf (setSucc a p q) p).succ = q := by
  unfold setSucc
  rw [ndOf_modify a p _ hp]
  simp

/-- a link added at the end of a chain loses nothing -/
theorem grow_setSibling {a : Array PNode} {t : Nat} {h : Option Nat} (ht : (ndOf a t).sibling = none) :
    Grow a (setSibling a t h) ∧ ChildMono a (setSibling a t h) := by
  have hreach : ∀ {o : Option Nat} {x : Nat}, Reach a o x → Reach (setSibling a t h) o x := by
    intro o x hr
    induction hr with
    | here => exact Reach.here
    | @next p x hpx ih =>
      by_cases hpt : p = t
      · subst hpt
        rw [ht] at hpx; cases hpx
      · refine Reach.next ?_
        have : (ndOf (setSibling a t h) p).sibling = (ndOf a p).sibling := by
          by_cases hp : p < a.size
          · unfold setSibling
            rw [ndOf_modify a t _ hp]
            simp [Ne.symm hpt]
          · unfold setSibling
            rw [ndOf_ge _ (by rw [size_amod]; omega), ndOf_ge _ (by omega)]
        rw [this]; exact ih
  have hsucc : ∀ q, (ndOf (setSibling a t h) q).succ = (ndOf a q).succ := by
    intro q
    by_cases hq : q < a.size
    · unfold setSibling
      rw [ndOf_modify a t _ hq]
      split <;> rfl
    · unfold setSibling
      rw [ndOf_ge _ (by rw [size_amod]; omega), ndOf_ge _ (by omega)]
  refine ⟨⟨by unfold setSibling; rw [size_amod]; exact Nat.le_refl _, ?_, ?_, fun _ _ _ hx => hreach hx⟩, ?_⟩
  · intro q hq
    unfold setSibling
    rw [ndOf_modify a t _ hq]
    split <;> rfl
  · intro q hq c hc
    unfold setSibling
    rw [ndOf_modify a t _ hq]
    split <;> exact hc
  · intro q _ x hx
    unfold Child at hx ⊢
    rw [hsucc]; exact hreach hx

theorem sibling_setSibling (a : Array PNode) {t : Nat} (ht : t < a.size) (h : Option Nat) :
    (ndOf (setSibling a t h) t).sibling = h := by
  unfold setSibling
  rw [ndOf_modify a t _ ht]
  simp

/-! ### what a path key reads of a pnode, monotone under `Grow` -/

/-- pnode `n` belongs to state `s`, has the given key fields, and its context set contains `c` (if given) -/
def Has (n : PNode) (s : Nat) (leaf : Bool) (link ssid tmat : Nat) (lp : Int) (ci : Nat) (c : Option Nat) : Prop :=
  core n = (s, leaf, link, ssid, tmat, lp, ci) ∧ ∀ x, c = some x → n.ctxt.testBit x = true

theorem Has.grow {a a' : Array PNode} (h : Grow a a') {r s : Nat} {leaf : Bool} {link ssid tmat : Nat} {lp : Int} {ci : Nat}
    {c : Option Nat} (hr : r < a.size) (hh : Has (ndOf a r) s leaf link ssid tmat lp ci c) :
    Has (ndOf a' r) s leaf link ssid tmat lp ci c :=
  ⟨by rw [h.stable r hr]; exact hh.1, fun x hx => h.ctxt r hr x (hh.2 x hx)⟩

/-- every context bit is set (`fsg_pnode_add_all_ctxt`) -/
def AllCtx (n : PNode) : Prop := ∀ c, c < 32 * SSVerif.Generated.Search.ctxtBvsz → n.ctxt.testBit c = true

theorem AllCtx.grow {a a' : Array PNode} (h : Grow a a') {r : Nat} (hr : r < a.size) (hh : AllCtx (ndOf a r)) : AllCtx (ndOf a' r) :=
  fun c hc => h.ctxt r hr c (hh c hc)

theorem allCtx_ctxtAll {n : PNode} (h : n.ctxt = ctxtAll) : AllCtx n := by
  intro c hc
  rw [h]
  unfold ctxtAll
  rw [Nat.testBit_two_pow_sub_one]
  simpa using hc

/-- a fold whose invariant mentions the prefix processed so far -/
theorem foldl_inv_prefix {σ α : Type} (P : List α → σ → Prop) (f : σ → α → σ) : ∀ (l done : List α) (st : σ),
    P done st → (∀ d st x, x ∈ l → P d st → P (d ++ [x]) (f st x)) → P (done ++ l) (l.foldl f st) := by
  intro l
  induction l with
  | nil => intro done st h _; simpa using h
  | cons x rest ih =>
    intro done st h hstep
    simp only [List.foldl_cons]
    have := ih (done ++ [x]) (f st x) (hstep done st x (List.mem_cons_self ..) h)
      (fun d st' y hy hp => hstep d st' y (List.mem_cons_of_mem _ hy) hp)
    simpa using this

/-! ### single-phone words -/

/-- what the loop over the left contexts of a single-phone word has established after the contexts `done` -/
structure LcG (li : LexIn) (s lid ci : Nat) (logp : Int) (a0 : Array PNode) (root0 : Option Nat) (done : List Nat)
    (st : LcSt) : Prop where
  grow : Grow a0 st.nodes
  rootReach : ∀ x, Reach a0 root0 x → Reach st.nodes st.root x
  lclReach : ∀ r ∈ st.lcl, Reach st.nodes st.root r
  data : ∀ r ∈ st.lcl, core (ndOf st.nodes r) =
    (s, true, lid, (ndOf st.nodes r).ssid, li.tmat ci, (logp >>> li.shift) + li.wip + li.pip, ci)
  cover : ∀ lc ∈ done, ∃ r ∈ st.lcl, Has (ndOf st.nodes r) s true lid (li.lrdiph ci lc) (li.tmat ci)
    ((logp >>> li.shift) + li.wip + li.pip) ci (some lc)

theorem find?_spec {l : List Nat} {q : Nat → Bool} {p : Nat} (h : l.find? q = some p) : p ∈ l ∧ q p = true :=
  ⟨List.mem_of_find?_eq_some h, List.find?_some h⟩

theorem core_ssid {n n' : PNode} (h : core n' = core n) : n'.ssid = n.ssid := by
  unfold core at h
  simp only [Prod.mk.injEq] at h
  exact h.2.2.2.1

theorem singleStep_grow {g : Fsg} {li : LexIn} {s lid ci : Nat} {logp : Int} {a0 a1 : Array PNode} {root0 : Option Nat}
    {done : List Nat} (st : LcSt) (lc : Nat) (h : LcInv g s a1 st) (hg : LcG li s lid ci logp a0 root0 done st) :
    LcG li s lid ci logp a0 root0 (done ++ [lc]) (singleStep li s lid ci logp st lc) := by
  unfold singleStep
  simp only
  have hrootv : ∀ y, st.root = some y → y < st.nodes.size := fun y hy => (h.root y hy).1
  split
  · rename_i p hf
    obtain ⟨hpm, hq⟩ := find?_spec hf
    have hp := (h.lcl p hpm).1
    have hgr := grow_addCtxt st.nodes p lc
    have hssid : (ndOf st.nodes p).ssid = li.lrdiph ci lc := by simpa using hq
    refine ⟨hg.grow.trans hgr, fun x hx => hgr.reachO hrootv (hg.rootReach x hx),
      fun r hr => hgr.reachO hrootv (hg.lclReach r hr), ?_, ?_⟩
    · intro r hr
      have hst := hgr.stable r (h.lcl r hr).1
      rw [hst, core_ssid hst]; exact hg.data r hr
    · intro l hl
      rcases List.mem_append.1 hl with h1 | h1
      · obtain ⟨r, hrm, hr⟩ := hg.cover l h1
        exact ⟨r, hrm, hr.grow hgr (h.lcl r hrm).1⟩
      · simp only [List.mem_singleton] at h1
        subst h1
        refine ⟨p, hpm, ?_, ?_⟩
        · rw [hgr.stable p hp, hg.data p hpm, hssid]
        · intro x hx; cases hx; exact ctxt_addCtxt st.nodes hp l
  · have hgr := grow_push h.inv (singleNode li s lid ci logp st.root lc)
    have hnew : ndOf (st.nodes.push (singleNode li s lid ci logp st.root lc)) st.nodes.size = singleNode li s lid ci logp st.root lc :=
      ndOf_push_eq _ _
    have hroot' : ∀ x, Reach st.nodes st.root x → Reach (st.nodes.push (singleNode li s lid ci logp st.root lc)) (some st.nodes.size) x := by
      intro x hx
      refine Reach.next ?_
      rw [hnew]
      exact hgr.reachO hrootv hx
    refine ⟨hg.grow.trans hgr, fun x hx => hroot' x (hg.rootReach x hx), ?_, ?_, ?_⟩
    · intro r hr
      rcases List.mem_cons.1 hr with h1 | h1
      · rw [h1]; exact Reach.here
      · exact hroot' r (hg.lclReach r h1)
    · intro r hr
      rcases List.mem_cons.1 hr with h1 | h1
      · rw [h1, hnew]; rfl
      · have hst := hgr.stable r (h.lcl r h1).1
        rw [hst, core_ssid hst]; exact hg.data r h1
    · intro l hl
      rcases List.mem_append.1 hl with h1 | h1
      · obtain ⟨r, hrm, hr⟩ := hg.cover l h1
        exact ⟨r, List.mem_cons_of_mem _ hrm, hr.grow hgr (h.lcl r hrm).1⟩
      · simp only [List.mem_singleton] at h1
        subst h1
        refine ⟨st.nodes.size, List.mem_cons_self .., ?_, ?_⟩
        · rw [hnew]; rfl
        · intro x hx; cases hx
          rw [hnew]
          show (1 <<< l).testBit l = true
          rw [testBit_bit]; simp

end SSVerif.LexFlat
