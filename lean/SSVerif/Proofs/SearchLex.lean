import SSVerif.Model.SearchLex
/-! the lextree `buildLexTree` constructs (the mirror of `fsg_lextree_init`) satisfies `LexTreeOK`:
every `succ`/`sibling` pointer stays inside the pnodes of one FSG state, `root[d]` is a pnode of state `d`,
and a leaf carries a word arc leaving the state it was allocated for -/
namespace SSVerif.Search
open SSVerif.Hist

/-! ### the invariant of the pnode array -/

/-- `x` is a pnode allocated for state `s` -/
def Valid (a : Array PNode) (s x : Nat) : Prop := x < a.size ∧ (ndOf a x).owner = s

def OValid (a : Array PNode) (s : Nat) (o : Option Nat) : Prop := ∀ x, o = some x → Valid a s x

/-- pointers stay within the owner's pnodes; leaves carry a word arc leaving their owner -/
def GInv (g : Fsg) (a : Array PNode) : Prop :=
  ∀ p, p < a.size →
    OValid a (ndOf a p).owner (ndOf a p).succ ∧ OValid a (ndOf a p).owner (ndOf a p).sibling ∧
    ((ndOf a p).leaf = true → (ndOf a p).link < g.links.size ∧ (g.link (ndOf a p).link).src = (ndOf a p).owner ∧
      0 ≤ (g.link (ndOf a p).link).wid)

/-- the array grew and old pnodes kept their owner -/
def Ext (a a' : Array PNode) : Prop := a.size ≤ a'.size ∧ ∀ p, p < a.size → (ndOf a' p).owner = (ndOf a p).owner

theorem Ext.refl (a : Array PNode) : Ext a a := ⟨Nat.le_refl _, fun _ _ => rfl⟩

theorem Ext.trans {a b c : Array PNode} (h1 : Ext a b) (h2 : Ext b c) : Ext a c :=
  ⟨Nat.le_trans h1.1 h2.1, fun p hp => by rw [h2.2 p (Nat.lt_of_lt_of_le hp h1.1), h1.2 p hp]⟩

theorem Valid.ext {a a' : Array PNode} {s x : Nat} (h : Valid a s x) (e : Ext a a') : Valid a' s x :=
  ⟨Nat.lt_of_lt_of_le h.1 e.1, by rw [e.2 x h.1]; exact h.2⟩

theorem OValid.ext {a a' : Array PNode} {s : Nat} {o : Option Nat} (h : OValid a s o) (e : Ext a a') : OValid a' s o :=
  fun x hx => (h x hx).ext e

theorem ovalid_none (a : Array PNode) (s : Nat) : OValid a s none := fun _ h => by cases h

theorem ovalid_some {a : Array PNode} {s x : Nat} (h : Valid a s x) : OValid a s (some x) :=
  fun y hy => by cases hy; exact h

/-! ### the primitive operations -/

theorem ndOf_push_lt (a : Array PNode) (n : PNode) {p : Nat} (hp : p < a.size) : ndOf (a.push n) p = ndOf a p := by
  unfold ndOf
  simp [Array.getD, hp, Array.getElem_push, Nat.lt_succ_of_lt hp]

theorem ndOf_push_eq (a : Array PNode) (n : PNode) : ndOf (a.push n) a.size = n := by
  unfold ndOf
  simp [Array.getD, Array.getElem_push]

theorem size_amod {α : Type} (a : Array α) (i : Nat) (f : α → α) : (amod a i f).size = a.size := by
  unfold amod
  split <;> simp

theorem ndOf_modify (a : Array PNode) (p : Nat) (f : PNode → PNode) {q : Nat} (hq : q < a.size) :
    ndOf (amod a p f) q = if p = q then f (ndOf a q) else ndOf a q := by
  unfold ndOf amod
  by_cases hp : p < a.size
  · by_cases hpq : p = q
    · subst hpq; simp [Array.getD, hq]
    · simp [Array.getD, hq, hp, hpq]
  · have hpq : p ≠ q := by omega
    simp [hp, hpq]

theorem ext_push (a : Array PNode) (n : PNode) : Ext a (a.push n) :=
  ⟨by rw [Array.size_push]; omega, fun p hp => by rw [ndOf_push_lt a n hp]⟩

/-- allocating a pnode for state `s` whose pointers go to pnodes of `s` -/
theorem ginv_push {g : Fsg} {a : Array PNode} {s : Nat} {n : PNode} (inv : GInv g a) (ho : n.owner = s)
    (hs : OValid a s n.succ) (hb : OValid a s n.sibling)
    (hl : n.leaf = true → n.link < g.links.size ∧ (g.link n.link).src = s ∧ 0 ≤ (g.link n.link).wid) :
    GInv g (a.push n) ∧ Valid (a.push n) s a.size := by
  have he := ext_push a n
  refine ⟨?_, ?_⟩
  · intro p hp
    rw [Array.size_push] at hp
    by_cases hlt : p < a.size
    · rw [ndOf_push_lt a n hlt]
      obtain ⟨h1, h2, h3⟩ := inv p hlt
      exact ⟨h1.ext he, h2.ext he, h3⟩
    · have : p = a.size := by omega
      subst this
      rw [ndOf_push_eq, ho]
      exact ⟨hs.ext he, hb.ext he, fun h => hl h⟩
  · exact ⟨by rw [Array.size_push]; omega, by rw [ndOf_push_eq]; exact ho⟩

/-- changing fields of pnode `p` other than owner / leaf / link, with new pointers inside the owner's pnodes -/
theorem ginv_modify {g : Fsg} {a : Array PNode} {p : Nat} {f : PNode → PNode} (inv : GInv g a)
    (ho : ∀ n, (f n).owner = n.owner) (hlf : ∀ n, (f n).leaf = n.leaf) (hlk : ∀ n, (f n).link = n.link)
    (hs : p < a.size → OValid a (ndOf a p).owner (f (ndOf a p)).succ)
    (hb : p < a.size → OValid a (ndOf a p).owner (f (ndOf a p)).sibling) :
    GInv g (amod a p f) ∧ Ext a (amod a p f) := by
  have he : Ext a (amod a p f) := by
    refine ⟨by rw [size_amod]; exact Nat.le_refl _, fun q hq => ?_⟩
    rw [ndOf_modify a p f hq]
    split
    · exact ho _
    · rfl
  refine ⟨?_, he⟩
  intro q hq
  rw [size_amod] at hq
  rw [ndOf_modify a p f hq]
  obtain ⟨h1, h2, h3⟩ := inv q hq
  by_cases hpq : p = q
  · subst hpq
    simp only [if_true]
    rw [ho, hlf, hlk]
    exact ⟨(hs hq).ext he, (hb hq).ext he, h3⟩
  · simp only [hpq, if_false]
    exact ⟨h1.ext he, h2.ext he, h3⟩

theorem ginv_addCtxt {g : Fsg} {a : Array PNode} (inv : GInv g a) (p c : Nat) :
    GInv g (addCtxt a p c) ∧ Ext a (addCtxt a p c) :=
  ginv_modify inv (fun _ => rfl) (fun _ => rfl) (fun _ => rfl) (fun hp => (inv p hp).1) (fun hp => (inv p hp).2.1)

theorem ginv_setSucc {g : Fsg} {a : Array PNode} {s p : Nat} {q : Option Nat} (inv : GInv g a) (hp : Valid a s p)
    (hq : OValid a s q) : GInv g (setSucc a p q) ∧ Ext a (setSucc a p q) :=
  ginv_modify inv (fun _ => rfl) (fun _ => rfl) (fun _ => rfl) (fun _ => by rw [hp.2]; exact hq)
    (fun h => (inv p h).2.1)

theorem ginv_setSibling {g : Fsg} {a : Array PNode} {s p : Nat} {q : Option Nat} (inv : GInv g a) (hp : Valid a s p)
    (hq : OValid a s q) : GInv g (setSibling a p q) ∧ Ext a (setSibling a p q) :=
  ginv_modify inv (fun _ => rfl) (fun _ => rfl) (fun _ => rfl) (fun h => (inv p h).1) (fun _ => by rw [hp.2]; exact hq)

/-! ### pointer walks -/

theorem findChild_valid {g : Fsg} {a : Array PNode} {s : Nat} (inv : GInv g a) (ssid : Nat) :
    ∀ (fuel : Nat) (start : Option Nat) (q : Nat), OValid a s start → findChild a ssid fuel start = some q → Valid a s q := by
  intro fuel
  induction fuel with
  | zero => intro start q _ h; simp [findChild] at h
  | succ fuel ih =>
    intro start q hv h
    cases start with
    | none => simp [findChild] at h
    | some p =>
      have hp := hv p rfl
      simp only [findChild] at h
      split at h
      · cases h; exact hp
      · refine ih _ q ?_ h
        have := (inv p hp.1).2.1
        rw [hp.2] at this
        exact this

theorem lastOf_valid {g : Fsg} {a : Array PNode} {s : Nat} (inv : GInv g a) :
    ∀ (fuel p : Nat), Valid a s p → Valid a s (lastOf a fuel p) := by
  intro fuel
  induction fuel with
  | zero => intro p hp; exact hp
  | succ fuel ih =>
    intro p hp
    simp only [lastOf]
    split
    · exact hp
    · rename_i q hq
      have := (inv p hp.1).2.1 q hq
      rw [hp.2] at this
      exact ih q this

/-! ### folds -/

theorem foldl_inv {σ α : Type} (P : σ → Prop) (f : σ → α → σ) (l : List α) (init : σ) (h0 : P init)
    (hstep : ∀ st x, x ∈ l → P st → P (f st x)) : P (l.foldl f init) := by
  induction l generalizing init with
  | nil => exact h0
  | cons x rest ih =>
    simp only [List.foldl_cons]
    exact ih (f init x) (hstep init x (List.mem_cons_self ..) h0) (fun st y hy => hstep st y (List.mem_cons_of_mem _ hy))

theorem nil_all {α : Type} {P : α → Prop} : ∀ x ∈ ([] : List α), P x := fun _ hx => by cases hx

/-! ### the loops over the context phones -/

/-- what the loops over `lclist` maintain (relative to the array `a0` they started from) -/
structure LcInv (g : Fsg) (s : Nat) (a0 : Array PNode) (st : LcSt) : Prop where
  inv : GInv g st.nodes
  ext : Ext a0 st.nodes
  root : OValid st.nodes s st.root
  lcl : ∀ x ∈ st.lcl, Valid st.nodes s x
  lmap : ∀ x ∈ st.lmap, Valid st.nodes s x

theorem LcInv.move {g : Fsg} {s : Nat} {a0 a' : Array PNode} {st : LcSt} (h : LcInv g s a0 st) (hi : GInv g a')
    (he : Ext st.nodes a') : LcInv g s a0 { st with nodes := a' } :=
  ⟨hi, h.ext.trans he, h.root.ext he, fun x hx => (h.lcl x hx).ext he, fun x hx => (h.lmap x hx).ext he⟩

theorem singleStep_inv {g : Fsg} {li : LexIn} {s lid ci : Nat} {logp : Int} {a0 : Array PNode}
    (hl : lid < g.links.size ∧ (g.link lid).src = s ∧ 0 ≤ (g.link lid).wid) (st : LcSt) (lc : Nat)
    (h : LcInv g s a0 st) : LcInv g s a0 (singleStep li s lid ci logp st lc) := by
  unfold singleStep
  simp only
  split
  · obtain ⟨hi, he⟩ := ginv_addCtxt h.inv _ lc
    exact h.move hi he
  · obtain ⟨hi, hv⟩ := ginv_push (s := s) (n := singleNode li s lid ci logp st.root lc) h.inv rfl (ovalid_none _ _)
      h.root (fun _ => hl)
    have he := ext_push st.nodes (singleNode li s lid ci logp st.root lc)
    refine ⟨hi, h.ext.trans he, ovalid_some hv, ?_, fun x hx => (h.lmap x hx).ext he⟩
    intro x hx
    rcases List.mem_cons.1 hx with h1 | h1
    · rw [h1]; exact hv
    · exact (h.lcl x h1).ext he

theorem rootStep_inv {g : Fsg} {li : LexIn} {s ci rc : Nat} {a0 : Array PNode} (st : LcSt) (lc : Nat)
    (h : LcInv g s a0 st) : LcInv g s a0 (rootStep li s ci rc st lc) := by
  unfold rootStep
  simp only
  split
  · obtain ⟨hi, he⟩ := ginv_addCtxt h.inv _ lc
    exact h.move hi he
  · obtain ⟨hi, hv⟩ := ginv_push (s := s) (n := rootNode li s ci rc st.root lc) h.inv rfl (ovalid_none _ _) h.root
      (fun hf => by cases hf)
    have he := ext_push st.nodes (rootNode li s ci rc st.root lc)
    obtain ⟨hi2, he2⟩ := ginv_addCtxt hi st.nodes.size lc
    have he' := he.trans he2
    refine ⟨hi2, h.ext.trans he', ovalid_some (hv.ext he2), ?_, ?_⟩
    · intro x hx
      rcases List.mem_cons.1 hx with h1 | h1
      · rw [h1]; exact hv.ext he2
      · exact (h.lcl x h1).ext he'
    · intro x hx
      rcases List.mem_append.1 hx with h1 | h1
      · exact (h.lmap x h1).ext he'
      · simp only [List.mem_singleton] at h1
        rw [h1]; exact hv.ext he2

/-- after at least one left context the word-initial loop has allocated a root -/
theorem rootStep_root (li : LexIn) (s ci rc : Nat) (st : LcSt) (lc : Nat)
    (h : st.lmap = [] ∨ st.root.isSome = true) :
    (rootStep li s ci rc st lc).lmap ≠ [] ∧ (rootStep li s ci rc st lc).root.isSome = true := by
  unfold rootStep
  simp only
  split
  · rename_i p hf
    have hm := List.mem_of_find?_eq_some hf
    have hne : st.lmap ≠ [] := fun h0 => by rw [h0] at hm; cases hm
    rcases h with h | h
    · exact absurd h hne
    · exact ⟨hne, h⟩
  · exact ⟨by simp, rfl⟩

theorem rootFold_root (li : LexIn) (s ci rc : Nat) : ∀ (l : List Nat) (st : LcSt),
    st.lmap ≠ [] ∧ st.root.isSome = true →
    (l.foldl (rootStep li s ci rc) st).lmap ≠ [] ∧ (l.foldl (rootStep li s ci rc) st).root.isSome = true := by
  intro l
  induction l with
  | nil => intro st h; exact h
  | cons x rest ih => intro st h; exact ih _ (rootStep_root li s ci rc st x (Or.inr h.2))

/-- what the loop over `rclist` maintains -/
structure RcInv (g : Fsg) (s : Nat) (a0 : Array PNode) (st : RcSt) : Prop where
  inv : GInv g st.nodes
  ext : Ext a0 st.nodes
  rcl : ∀ x ∈ st.rcl, Valid st.nodes s x
  rmap : ∀ pr ∈ st.rmap, Valid st.nodes s pr.2

theorem lookup_mem {l : List (Nat × Nat)} {j q : Nat} (h : l.lookup j = some q) : (j, q) ∈ l := by
  induction l with
  | nil => simp at h
  | cons a rest ih =>
    obtain ⟨k, v⟩ := a
    simp only [List.lookup] at h
    split at h
    · rename_i hk
      cases h
      have : j = k := by simpa using hk
      rw [this]; exact List.mem_cons_self ..
    · exact List.mem_cons_of_mem _ (ih h)

theorem head?_mem {l : List Nat} {x : Nat} (h : l.head? = some x) : x ∈ l := by
  obtain ⟨ys, hy⟩ := List.head?_eq_some_iff.1 h
  rw [hy]; exact List.mem_cons_self ..

theorem leafStep_inv {g : Fsg} {li : LexIn} {s lid ci lc p : Nat} {logp : Int} {a0 : Array PNode}
    (hl : lid < g.links.size ∧ (g.link lid).src = s ∧ 0 ≤ (g.link lid).wid) (st : RcSt) (rc : Nat)
    (h : RcInv g s a0 st) : RcInv g s a0 (leafStep li s lid ci lc p logp st rc) := by
  unfold leafStep
  split
  · obtain ⟨hi, he⟩ := ginv_addCtxt h.inv _ rc
    exact ⟨hi, h.ext.trans he, fun x hx => (h.rcl x hx).ext he, fun pr hp => (h.rmap pr hp).ext he⟩
  · have hsib : OValid st.nodes s st.rcl.head? := fun x hx => h.rcl x (head?_mem hx)
    obtain ⟨hi, hv⟩ := ginv_push (s := s) (n := leafNode li s lid ci lc p logp st.rcl.head? rc) h.inv rfl (ovalid_none _ _)
      hsib (fun _ => hl)
    have he := ext_push st.nodes (leafNode li s lid ci lc p logp st.rcl.head? rc)
    obtain ⟨hi2, he2⟩ := ginv_addCtxt hi st.nodes.size rc
    have he' := he.trans he2
    refine ⟨hi2, h.ext.trans he', ?_, ?_⟩
    · intro x hx
      rcases List.mem_cons.1 hx with h1 | h1
      · rw [h1]; exact hv.ext he2
      · exact (h.rcl x h1).ext he'
    · intro pr hp
      rcases List.mem_cons.1 hp with h1 | h1
      · rw [h1]; exact hv.ext he2
      · exact (h.rmap pr h1).ext he'

/-! ### hooking the new leaves under their predecessors -/

theorem attachOne_inv {g : Fsg} {a : Array PNode} {s pred : Nat} {head : Option Nat} (inv : GInv g a)
    (hp : Valid a s pred) (hh : OValid a s head) :
    GInv g (attachOne a pred head) ∧ Ext a (attachOne a pred head) := by
  unfold attachOne
  split
  · exact ginv_setSucc inv hp hh
  · rename_i c hc
    have hcv : Valid a s c := by
      have := (inv pred hp.1).1 c hc
      rw [hp.2] at this
      exact this
    exact ginv_setSibling inv (lastOf_valid inv a.size c hcv) hh

theorem attachRoots_inv {g : Fsg} {s : Nat} {head : Option Nat} : ∀ (l : List Nat) (a : Array PNode), GInv g a →
    (∀ x ∈ l, Valid a s x) → OValid a s head →
    GInv g (attachRoots a head l) ∧ Ext a (attachRoots a head l) := by
  intro l
  induction l with
  | nil => intro a inv _ _; exact ⟨inv, Ext.refl a⟩
  | cons r rest ih =>
    intro a inv hl hh
    have hr := hl r (List.mem_cons_self ..)
    simp only [attachRoots]
    split
    · obtain ⟨hi, he⟩ := ginv_setSucc inv hr hh
      obtain ⟨hi2, he2⟩ := ih _ hi (fun x hx => (hl x (List.mem_cons_of_mem _ hx)).ext he) (hh.ext he)
      exact ⟨hi2, he.trans he2⟩
    · rename_i c hc
      have hcv : Valid a s c := by
        have := (inv r hr.1).1 c hc
        rw [hr.2] at this
        exact this
      exact ginv_setSibling inv (lastOf_valid inv a.size c hcv) hh

theorem setSuccAll_inv {g : Fsg} {s id : Nat} : ∀ (l : List Nat) (a : Array PNode), GInv g a →
    (∀ x ∈ l, Valid a s x) → Valid a s id →
    GInv g (l.foldl (fun a r => setSucc a r (some id)) a) ∧ Ext a (l.foldl (fun a r => setSucc a r (some id)) a) := by
  intro l
  induction l with
  | nil => intro a inv _ _; exact ⟨inv, Ext.refl a⟩
  | cons r rest ih =>
    intro a inv hl hid
    simp only [List.foldl_cons]
    obtain ⟨hi, he⟩ := ginv_setSucc inv (hl r (List.mem_cons_self ..)) (ovalid_some hid)
    obtain ⟨hi2, he2⟩ := ih _ hi (fun x hx => (hl x (List.mem_cons_of_mem _ hx)).ext he) (hid.ext he)
    exact ⟨hi2, he.trans he2⟩

/-! ### the phones `p ≥ 1` of a multi-phone word -/

structure PhInv (g : Fsg) (s : Nat) (a0 : Array PNode) (st : PhSt) : Prop where
  inv : GInv g st.nodes
  ext : Ext a0 st.nodes
  pred : Valid st.nodes s st.pred

theorem phoneStep_inv {g : Fsg} {li : LexIn} {s lid : Nat} {w : WordInfo} {logp : Int} {rclist lcl : List Nat}
    {a0 : Array PNode} (hl : lid < g.links.size ∧ (g.link lid).src = s ∧ 0 ≤ (g.link lid).wid)
    (hlcl : ∀ x ∈ lcl, Valid a0 s x) (st : PhSt) (p : Nat) (h : PhInv g s a0 st) :
    PhInv g s a0 (phoneStep li s lid w logp rclist lcl st p) := by
  have hlcl' : ∀ x ∈ lcl, Valid st.nodes s x := fun x hx => (hlcl x hx).ext h.ext
  unfold phoneStep
  simp only
  split
  · -- word-internal phone
    have hhead : OValid st.nodes s (ndOf st.nodes st.pred).succ := by
      have := (h.inv st.pred h.pred.1).1
      rw [h.pred.2] at this
      exact this
    split
    · rename_i q hq
      exact ⟨h.inv, h.ext, findChild_valid h.inv _ _ _ q hhead hq⟩
    · obtain ⟨hi, hv⟩ := ginv_push (s := s)
          (n := internalNode li s (w.pron.getD p 0) p w.dictWid (ndOf st.nodes st.pred).succ) h.inv rfl (ovalid_none _ _) hhead
          (fun hf => by cases hf)
      have he := ext_push st.nodes (internalNode li s (w.pron.getD p 0) p w.dictWid (ndOf st.nodes st.pred).succ)
      split
      · obtain ⟨hi2, he2⟩ := setSuccAll_inv lcl _ hi (fun x hx => (hlcl' x hx).ext he) hv
        exact ⟨hi2, h.ext.trans (he.trans he2), hv.ext he2⟩
      · obtain ⟨hi2, he2⟩ := ginv_setSucc hi (h.pred.ext he) (ovalid_some hv)
        exact ⟨hi2, h.ext.trans (he.trans he2), hv.ext he2⟩
  · -- word-final phone
    have hr : RcInv g s st.nodes (rclist.foldl (leafStep li s lid (w.pron.getD p 0) (w.pron.getD (p - 1) 0) p logp)
        { nodes := st.nodes }) :=
      foldl_inv (RcInv g s st.nodes) _ rclist _ ⟨h.inv, Ext.refl _, nil_all, nil_all⟩
        (fun st' rc _ h' => leafStep_inv hl st' rc h')
    have hhd : OValid _ s (rclist.foldl (leafStep li s lid (w.pron.getD p 0) (w.pron.getD (p - 1) 0) p logp)
        { nodes := st.nodes }).rcl.head? := fun x hx => hr.rcl x (head?_mem hx)
    split
    · obtain ⟨hi2, he2⟩ := attachRoots_inv lcl _ hr.inv (fun x hx => (hlcl' x hx).ext hr.ext) hhd
      exact ⟨hi2, h.ext.trans (hr.ext.trans he2), h.pred.ext (hr.ext.trans he2)⟩
    · obtain ⟨hi2, he2⟩ := attachOne_inv hr.inv (h.pred.ext hr.ext) hhd
      exact ⟨hi2, h.ext.trans (hr.ext.trans he2), h.pred.ext (hr.ext.trans he2)⟩

/-! ### one arc, one state, the whole lextree -/

/-- what `psubtree_add_trans` maintains from arc to arc within state `s` -/
structure WInv (g : Fsg) (s : Nat) (a0 : Array PNode) (w : Bld) : Prop where
  inv : GInv g w.nodes
  ext : Ext a0 w.nodes
  root : OValid w.nodes s w.root
  glists : ∀ e ∈ w.glists, ∀ x ∈ e.list, Valid w.nodes s x

theorem findG_mem (ci rc : Nat) : ∀ (l : List GEntry) (i j : Nat) (e : GEntry), findG ci rc l i = some (j, e) → e ∈ l := by
  intro l
  induction l with
  | nil => intro i j e h; simp [findG] at h
  | cons a rest ih =>
    intro i j e h
    simp only [findG] at h
    split at h
    · cases h; exact List.mem_cons_self ..
    · exact List.mem_cons_of_mem _ (ih _ _ _ h)

theorem addTrans_inv {g : Fsg} {li : LexIn} {s : Nat} {lclist rclist : List Nat} {a0 : Array PNode} (hlc : lclist ≠ [])
    (w0 : Bld) (lid : Nat) (hl : lid < g.links.size ∧ (g.link lid).src = s ∧ 0 ≤ (g.link lid).wid)
    (h : WInv g s a0 w0) : WInv g s a0 (addTrans li g s lclist rclist w0 lid) := by
  unfold addTrans
  simp only
  split
  · -- single-phone word
    split
    · have hr : LcInv g s w0.nodes (lclist.foldl (singleStep li s lid ((li.word (g.link lid).wid.toNat).pron.headD 0)
          (g.link lid).logp) { nodes := w0.nodes, root := w0.root, lcl := [] }) :=
        foldl_inv (LcInv g s w0.nodes) _ lclist _
          ⟨h.inv, Ext.refl _, h.root, nil_all, nil_all⟩
          (fun st lc _ h' => singleStep_inv hl st lc h')
      exact ⟨hr.inv, h.ext.trans hr.ext, hr.root, fun e he x hx => (h.glists e he x hx).ext hr.ext⟩
    · obtain ⟨hi, hv⟩ := ginv_push (s := s)
          (n := fillerNode li s lid ((li.word (g.link lid).wid.toNat).pron.headD 0) (g.link lid).logp w0.root) h.inv rfl
          (ovalid_none _ _) h.root (fun _ => hl)
      have he := ext_push w0.nodes (fillerNode li s lid ((li.word (g.link lid).wid.toNat).pron.headD 0) (g.link lid).logp w0.root)
      exact ⟨hi, h.ext.trans he, ovalid_some hv, fun e he' x hx => (h.glists e he' x hx).ext he⟩
  · -- multi-phone word
    -- the fresh word-initial loop
    have hfresh : ∀ ci rc, LcInv g s w0.nodes (lclist.foldl (rootStep li s ci rc) { nodes := w0.nodes, root := w0.root, lcl := [] }) ∧
        (lclist.foldl (rootStep li s ci rc) { nodes := w0.nodes, root := w0.root, lcl := [] }).root.isSome = true := by
      intro ci rc
      refine ⟨foldl_inv (LcInv g s w0.nodes) _ lclist _
        ⟨h.inv, Ext.refl _, h.root, nil_all, nil_all⟩
        (fun st lc _ h' => rootStep_inv st lc h'), ?_⟩
      cases lclist with
      | nil => exact absurd rfl hlc
      | cons x rest =>
        simp only [List.foldl_cons]
        exact (rootFold_root li s ci rc rest _ (rootStep_root li s ci rc _ x (Or.inl rfl))).2
    -- whatever phone 0 did, the phones ≥ 1 start from a good state
    have key : ∀ (w1 : Bld) (lcl : List Nat) (pred : Nat), WInv g s a0 w1 → (∀ x ∈ lcl, Valid w1.nodes s x) →
        Valid w1.nodes s pred →
        WInv g s a0 { w1 with nodes := (((List.range (li.word (g.link lid).wid.toNat).pron.length).drop 1).foldl
          (phoneStep li s lid (li.word (g.link lid).wid.toNat) (g.link lid).logp rclist lcl) { nodes := w1.nodes, pred }).nodes } := by
      intro w1 lcl pred h1 hlcl hpred
      have hr : PhInv g s w1.nodes (((List.range (li.word (g.link lid).wid.toNat).pron.length).drop 1).foldl
          (phoneStep li s lid (li.word (g.link lid).wid.toNat) (g.link lid).logp rclist lcl) { nodes := w1.nodes, pred }) :=
        foldl_inv (PhInv g s w1.nodes) _ _ _ ⟨h1.inv, Ext.refl _, hpred⟩
          (fun st p _ h' => phoneStep_inv hl hlcl st p h')
      exact ⟨hr.inv, h1.ext.trans hr.ext, h1.root.ext hr.ext, fun e he x hx => (h1.glists e he x hx).ext hr.ext⟩
    split
    · rename_i i e hf
      have hmem := findG_mem _ _ _ _ _ _ hf
      split
      · -- an existing set of roots
        rename_i hne
        refine key w0 e.list (e.list.headD 0) h (fun x hx => h.glists e hmem x hx) ?_
        cases hel : e.list with
        | nil => rw [hel] at hne; simp at hne
        | cons y ys => exact h.glists e hmem y (by rw [hel]; exact List.mem_cons_self ..)
      · obtain ⟨hr, hsome⟩ := hfresh ((li.word (g.link lid).wid.toNat).pron.headD 0) ((li.word (g.link lid).wid.toNat).pron.getD 1 0)
        refine key _ _ _ ⟨hr.inv, h.ext.trans hr.ext, hr.root, ?_⟩ hr.lcl ?_
        · intro e' he' x hx
          rcases List.mem_or_eq_of_mem_set he' with h1 | h1
          · exact (h.glists e' h1 x hx).ext hr.ext
          · rw [h1] at hx; exact hr.lcl x hx
        · cases hroot : (lclist.foldl (rootStep li s ((li.word (g.link lid).wid.toNat).pron.headD 0)
              ((li.word (g.link lid).wid.toNat).pron.getD 1 0)) { nodes := w0.nodes, root := w0.root, lcl := [] }).root with
          | none => rw [hroot] at hsome; cases hsome
          | some r => exact hr.root r hroot
    · obtain ⟨hr, hsome⟩ := hfresh ((li.word (g.link lid).wid.toNat).pron.headD 0) ((li.word (g.link lid).wid.toNat).pron.getD 1 0)
      refine key _ _ _ ⟨hr.inv, h.ext.trans hr.ext, hr.root, ?_⟩ hr.lcl ?_
      · intro e' he' x hx
        rcases List.mem_cons.1 he' with h1 | h1
        · rw [h1] at hx; exact hr.lcl x hx
        · exact (h.glists e' h1 x hx).ext hr.ext
      · cases hroot : (lclist.foldl (rootStep li s ((li.word (g.link lid).wid.toNat).pron.headD 0)
            ((li.word (g.link lid).wid.toNat).pron.getD 1 0)) { nodes := w0.nodes, root := w0.root, lcl := [] }).root with
        | none => rw [hroot] at hsome; cases hsome
        | some r => exact hr.root r hroot

/-! ### every state has a left context: the silence phone -/

theorem getD_modify (a : Array Nat) (i : Nat) (f : Nat → Nat) {j : Nat} (hj : j < a.size) :
    (amod a i f).getD j 0 = if i = j then f (a.getD j 0) else a.getD j 0 := by
  unfold amod
  by_cases hi : i < a.size
  · by_cases hij : i = j
    · subst hij; simp [Array.getD, hj]
    · simp [Array.getD, hj, hi, hij]
  · have hij : i ≠ j := by omega
    simp [hi, hij]

theorem getD_map (b : Array Nat) (f : Nat → Nat) {t : Nat} (ht : t < b.size) :
    (b.toList.map f).toArray.getD t 0 = f (b.getD t 0) := by
  simp [Array.getD, ht]

/-- both flag vectors keep their size and the silence bit of every state -/
def CtxOK (n sil : Nat) (acc : Array Nat × Array Nat) : Prop :=
  acc.1.size = n ∧ ∀ s, s < n → (acc.1.getD s 0).testBit sil = true

theorem ctxPass1_size (li : LexIn) (g : Fsg) (acc : Array Nat × Array Nat) (lid : Nat) :
    (ctxPass1 li g acc lid).1.size = acc.1.size := by
  unfold ctxPass1
  simp only
  split
  · rfl
  · split <;> simp [orBit, size_amod]

theorem ctxPass3_ok (li : LexIn) (g : Fsg) {n : Nat} (acc : Array Nat × Array Nat) (lid : Nat)
    (h : CtxOK n li.sil acc) : CtxOK n li.sil (ctxPass3 li g acc lid) := by
  unfold ctxPass3
  simp only
  split
  · refine ⟨by simp [size_amod, h.1], fun s hs => ?_⟩
    rw [getD_modify _ _ _ (by rw [h.1]; exact hs)]
    split
    · rw [Nat.testBit_or, h.2 s hs]; rfl
    · exact h.2 s hs
  · exact h

theorem ctxFlags_sil (li : LexIn) (g : Fsg) {s : Nat} (hs : s < li.nState) :
    ((ctxFlags li g).1.getD s 0).testBit li.sil = true := by
  have h1 : ∀ (l : List Nat) (acc : Array Nat × Array Nat), (l.foldl (ctxPass1 li g) acc).1.size = acc.1.size := by
    intro l
    induction l with
    | nil => intro acc; rfl
    | cons x rest ih => intro acc; simp only [List.foldl_cons]; rw [ih, ctxPass1_size]
  have h3 : ∀ (l : List Nat) (acc : Array Nat × Array Nat), CtxOK li.nState li.sil acc →
      CtxOK li.nState li.sil (l.foldl (ctxPass3 li g) acc) :=
    fun l acc h => foldl_inv (CtxOK li.nState li.sil) _ l acc h (fun st x _ hst => ctxPass3_ok li g st x hst)
  unfold ctxFlags
  simp only
  refine (h3 _ _ ⟨?_, ?_⟩).2 s hs
  · simp [h1]
  · intro t ht
    have hsz : t < ((List.range li.nState).flatMap (arcsOf g) |>.foldl (ctxPass1 li g)
        (Array.replicate li.nState 0, Array.replicate li.nState 0)).1.size := by rw [h1]; simpa using ht
    rw [getD_map _ _ hsz, Nat.testBit_or, Nat.one_shiftLeft, Nat.testBit_two_pow]
    simp

theorem ctxList_ne_nil (li : LexIn) (g : Fsg) (hsil : li.sil < li.nCi) {s : Nat} (hs : s < li.nState) :
    ctxList li ((ctxFlags li g).1.getD s 0) ≠ [] := by
  have hm : li.sil ∈ ctxList li ((ctxFlags li g).1.getD s 0) := by
    unfold ctxList
    exact List.mem_filter.2 ⟨List.mem_range.2 hsil, ctxFlags_sil li g hs⟩
  intro h0
  rw [h0] at hm
  cases hm

/-! ### one state, all states -/

theorem buildState_inv {g : Fsg} {li : LexIn} {lcs rcs : Array Nat} {nodes : Array PNode} {s : Nat}
    (hlc : ctxList li (lcs.getD s 0) ≠ []) (inv : GInv g nodes) :
    GInv g (buildState li g lcs rcs nodes s).1 ∧ Ext nodes (buildState li g lcs rcs nodes s).1 ∧
    OValid (buildState li g lcs rcs nodes s).1 s (buildState li g lcs rcs nodes s).2 := by
  have hr : WInv g s nodes (((arcsOf g s).filter fun lid => 0 ≤ (g.link lid).wid).foldl
      (fun w lid => addTrans li g s (ctxList li (lcs.getD s 0)) (ctxList li (rcs.getD (g.link lid).dst 0)) w lid)
      { nodes := nodes }) := by
    refine foldl_inv (WInv g s nodes) _ _ _ ⟨inv, Ext.refl _, ovalid_none _ _, nil_all⟩ ?_
    intro w lid hm hw
    have h1 := List.mem_filter.1 hm
    have h2 := List.mem_filter.1 h1.1
    exact addTrans_inv hlc w lid ⟨List.mem_range.1 h2.1, by simpa using h2.2, by simpa using h1.2⟩ hw
  exact ⟨hr.inv, hr.ext, hr.root⟩

/-- after the states `0..n-1`: pointers stay within a state's pnodes and `root[d]` is a pnode of state `d` -/
theorem buildFold_inv (li : LexIn) (g : Fsg) (hsil : li.sil < li.nCi) : ∀ n, n ≤ li.nState →
    GInv g ((List.range n).foldl (buildStep li g) (#[], #[])).1 ∧
    ((List.range n).foldl (buildStep li g) (#[], #[])).2.size = n ∧
    ∀ d, d < n → OValid ((List.range n).foldl (buildStep li g) (#[], #[])).1 d
      (((List.range n).foldl (buildStep li g) (#[], #[])).2.getD d none) := by
  intro n
  induction n with
  | zero =>
    intro _
    refine ⟨fun p hp => by simp at hp, rfl, fun d hd => by omega⟩
  | succ n ih =>
    intro hn
    obtain ⟨hi, hsz, hroots⟩ := ih (by omega)
    rw [List.range_succ, List.foldl_append]
    simp only [List.foldl_cons, List.foldl_nil]
    generalize (List.range n).foldl (buildStep li g) (#[], #[]) = acc at hi hsz hroots
    obtain ⟨b1, b2, b3⟩ := buildState_inv (li := li) (rcs := (ctxFlags li g).2) (ctxList_ne_nil li g hsil (by omega : n < li.nState)) hi
    refine ⟨b1, by simp [buildStep, hsz], ?_⟩
    intro d hd
    show OValid _ d ((acc.2.push _).getD d none)
    by_cases hdn : d < n
    · have : (acc.2.push (buildState li g (ctxFlags li g).1 (ctxFlags li g).2 acc.1 n).2).getD d none = acc.2.getD d none := by
        simp [Array.getD, hsz, hdn, Array.getElem_push, Nat.lt_succ_of_lt hdn]
      rw [this]
      exact (hroots d hdn).ext b2
    · have hd' : d = n := by omega
      subst hd'
      have : (acc.2.push (buildState li g (ctxFlags li g).1 (ctxFlags li g).2 acc.1 d).2).getD d none =
          (buildState li g (ctxFlags li g).1 (ctxFlags li g).2 acc.1 d).2 := by
        simp [Array.getD, hsz, Array.getElem_push]
      rw [this]
      exact b3

/-! ### `LexTreeOK` -/

theorem chain_valid {g : Fsg} {lt : LexTree} (inv : GInv g lt.nodes) {s : Nat} :
    ∀ (fuel : Nat) (start : Option Nat), OValid lt.nodes s start → ∀ x ∈ lt.chain fuel start, Valid lt.nodes s x := by
  intro fuel
  induction fuel with
  | zero => intro start _ x hx; simp [LexTree.chain] at hx
  | succ fuel ih =>
    intro start hv x hx
    cases start with
    | none => simp [LexTree.chain] at hx
    | some p =>
      have hp := hv p rfl
      simp only [LexTree.chain] at hx
      rcases List.mem_cons.1 hx with h1 | h1
      · rw [h1]; exact hp
      · refine ih _ ?_ x h1
        have := (inv p hp.1).2.1
        rw [hp.2] at this
        exact this

theorem lexTreeOK_of_inv {g : Fsg} {lt : LexTree} (inv : GInv g lt.nodes)
    (hroots : ∀ d, d < lt.root.size → OValid lt.nodes d (lt.root.getD d none)) : LexTreeOK lt g := by
  refine ⟨?_, ?_, ?_⟩
  · intro d hd r hr
    exact chain_valid inv _ _ (hroots d hd) r hr
  · intro p hp c hc
    unfold LexTree.children at hc
    split at hc
    · cases hc
    · exact chain_valid inv _ _ (inv p hp).1 c hc
  · intro p hp hl
    exact (inv p hp).2.2 hl

/-- **the lextree the construction builds satisfies `LexTreeOK`** -/
theorem build_lexTreeOK (li : LexIn) (g : Fsg) (hsil : li.sil < li.nCi) : LexTreeOK (buildLexTree li g) g := by
  obtain ⟨hi, hsz, hroots⟩ := buildFold_inv li g hsil li.nState (Nat.le_refl _)
  exact lexTreeOK_of_inv (lt := buildLexTree li g) hi (fun d hd => hroots d (by
    have : (buildLexTree li g).root.size = li.nState := hsz
    omega))

end SSVerif.Search
