import SSVerif.Proofs.LatticeBuildNodes
/-!
# Second pass of `fsg_search_lattice`: `buildLinks` turns `NodesOK` into `MidOK`
-/
namespace SSVerif.Lattice
open SSVerif.Nfa
namespace BuildLinks
open BuildNodes

/-- the ordered node pair a link joins -/
def pr (l : BLink) : Nat × Nat := (l.src, l.dst)

/-- the node pairs of the links, in creation order -/
def pairs (b : Build) : List (Nat × Nat) := b.links.toList.map pr

theorem latticeLink_nodes (b : Build) (src dst : Nat) (a : Int) (e : Nat) :
    (latticeLink b src dst a e).nodes = b.nodes := by
  unfold latticeLink; split <;> rfl

/-- what `latticeLink` does, without array operations: the list of node pairs either gets the new pair
appended (it was not there) or is unchanged (it was there); every link of the result is an old link or a
link `(src, dst)` with the end frame passed in -/
theorem latticeLink_spec (b : Build) (src dst : Nat) (a : Int) (e : Nat) :
    ((pairs (latticeLink b src dst a e) = pairs b ++ [(src, dst)] ∧ (src, dst) ∉ pairs b) ∨
     (pairs (latticeLink b src dst a e) = pairs b ∧ (src, dst) ∈ pairs b)) ∧
    ∀ l ∈ (latticeLink b src dst a e).links.toList,
      l ∈ b.links.toList ∨ (l.src = src ∧ l.dst = dst ∧ l.ef = e) := by
  unfold latticeLink
  cases hf : b.links.findIdx? (fun l => l.src = src ∧ l.dst = dst) with
  | none =>
    simp only
    rw [Array.findIdx?_eq_none_iff] at hf
    refine ⟨Or.inl ⟨?_, ?_⟩, ?_⟩
    · simp only [pairs, Array.toList_push, List.map_append, List.map_cons, List.map_nil, pr]
    · intro hmem
      simp only [pairs, List.mem_map] at hmem
      obtain ⟨l, hl, hp⟩ := hmem
      have := hf l (Array.mem_toList_iff.mp hl)
      simp only [pr, Prod.mk.injEq] at hp
      simp [hp.1, hp.2] at this
    · intro l hl
      simp only [Array.toList_push, List.mem_append, List.mem_singleton] at hl
      rcases hl with hl | hl
      · exact Or.inl hl
      · subst hl; exact Or.inr ⟨rfl, rfl, rfl⟩
  | some i =>
    simp only
    rw [Array.findIdx?_eq_some_iff_getElem] at hf
    obtain ⟨hi, hp, _⟩ := hf
    simp only [decide_eq_true_eq] at hp
    have hfpr : ∀ x : BLink, pr (if a > x.ascr then { x with ascr := a, ef := e } else x) = pr x := by
      intro x; split <;> rfl
    refine ⟨Or.inr ⟨?_, ?_⟩, ?_⟩
    · simp only [pairs]
      apply List.ext_getElem
      · simp
      · intro j h1 h2
        simp only [List.getElem_map, Array.getElem_toList, Array.getElem_modify]
        split
        · exact hfpr _
        · rfl
    · simp only [pairs, List.mem_map]
      exact ⟨b.links[i], Array.mem_toList_iff.mpr (Array.getElem_mem hi), by simp only [pr, hp.1, hp.2]⟩
    · intro l hl
      rw [Array.mem_toList_iff, Array.mem_iff_getElem] at hl
      obtain ⟨j, hj, hl⟩ := hl
      rw [Array.getElem_modify] at hl
      have hj' : j < b.links.size := by simpa using hj
      split at hl
      · rename_i hij
        subst hij
        split at hl
        · right; subst hl; exact ⟨hp.1, hp.2, rfl⟩
        · left; subst hl; exact Array.mem_toList_iff.mpr (Array.getElem_mem hj')
      · left; subst hl; exact Array.mem_toList_iff.mpr (Array.getElem_mem hj')

/-! ### the invariant of the folds, over the fixed node array of `b0` -/

/-- the conjunction of `MidOK.link` for a link `(src, dst)` with end frame `ef` (it does not mention `ascr`) -/
def GoodT (G : Nfa) (b0 : Build) (src dst ef : Nat) : Prop :=
  src < b0.nodes.size ∧ dst < b0.nodes.size ∧
    (b0.node src).sf ≤ ef ∧ (b0.node src).fef ≤ ef ∧ ef ≤ (b0.node src).lef ∧
    ef + 1 = (b0.node dst).sf ∧
    ∀ q r, (b0.node src).state = some q → (b0.node dst).state = some r → stepOK G q (b0.node dst).word r

structure LInv (G : Nfa) (b0 b : Build) : Prop where
  nodes : b.nodes = b0.nodes
  good : ∀ l ∈ b.links.toList, GoodT G b0 l.src l.dst l.ef
  nodup : (pairs b).Nodup

/-- the set of linked node pairs only grows -/
def Grow (b b' : Build) : Prop := ∀ p ∈ pairs b, p ∈ pairs b'

theorem Grow.refl (b : Build) : Grow b b := fun _ hp => hp
theorem Grow.trans {b1 b2 b3 : Build} (h12 : Grow b1 b2) (h23 : Grow b2 b3) : Grow b1 b3 :=
  fun p hp => h23 p (h12 p hp)

theorem link_inv {G : Nfa} {b0 b : Build} (hinv : LInv G b0 b) {src dst ef : Nat} (a : Int)
    (hg : GoodT G b0 src dst ef) :
    LInv G b0 (latticeLink b src dst a ef) ∧ Grow b (latticeLink b src dst a ef) ∧
      (src, dst) ∈ pairs (latticeLink b src dst a ef) := by
  have hnodes := latticeLink_nodes b src dst a ef
  obtain ⟨hcase, hmem⟩ := latticeLink_spec b src dst a ef
  generalize latticeLink b src dst a ef = b' at *
  have hgood : ∀ l ∈ b'.links.toList, GoodT G b0 l.src l.dst l.ef := by
    intro l hl
    rcases hmem l hl with h | ⟨h1, h2, h3⟩
    · exact hinv.good l h
    · rw [h1, h2, h3]; exact hg
  rcases hcase with ⟨hp, hnew⟩ | ⟨hp, hold⟩
  · refine ⟨⟨hnodes.trans hinv.nodes, hgood, ?_⟩, ?_, ?_⟩
    · rw [hp, List.nodup_append]
      refine ⟨hinv.nodup, by simp, ?_⟩
      intro x hx y hy hxy
      simp only [List.mem_singleton] at hy
      subst hy; subst hxy; exact hnew hx
    · intro p hpm; rw [hp]; exact List.mem_append_left _ hpm
    · rw [hp]; simp
  · refine ⟨⟨hnodes.trans hinv.nodes, hgood, by rw [hp]; exact hinv.nodup⟩, ?_, ?_⟩
    · intro p hpm; rw [hp]; exact hpm
    · rw [hp]; exact hold

/-- `new_node` keeps one node per key -/
def Keys (b0 : Build) : Prop :=
  ∀ u v, u < b0.nodes.size → v < b0.nodes.size → (b0.node u).sf = (b0.node v).sf →
    (b0.node u).word = (b0.node v).word → (b0.node u).state = (b0.node v).state → u = v

/-- what the outer step knows of the source node `src` of the links it makes with end frame `ef` -/
structure Src (b0 : Build) (src ef t : Nat) : Prop where
  lt : src < b0.nodes.size
  state : (b0.node src).state = some t
  sf : (b0.node src).sf ≤ ef
  fef : (b0.node src).fef ≤ ef
  lef : ef ≤ (b0.node src).lef

/-- the node with key `(sf', w2, some r)`, if there is one, is linked from `src` -/
def Has (b0 : Build) (src sf' w2 r : Nat) (b' : Build) : Prop :=
  ∀ dst, dst < b0.nodes.size → (b0.node dst).sf = sf' → (b0.node dst).word = w2 →
    (b0.node dst).state = some r → (src, dst) ∈ pairs b'

theorem Has.mono {b0 : Build} {src sf' w2 r : Nat} {b b' : Build} (hh : Has b0 src sf' w2 r b)
    (hg : Grow b b') : Has b0 src sf' w2 r b' :=
  fun dst h1 h2 h3 h4 => hg _ (hh dst h1 h2 h3 h4)

theorem findNode_congr {b b0 : Build} (hnodes : b.nodes = b0.nodes) (sf w : Nat) (st : Option Nat) :
    findNode b sf w st = findNode b0 sf w st := by
  unfold findNode; rw [hnodes]

/-- link `src` to the node with key `(sf', w2, some r)` if it exists -/
def tryLink (src sf' : Nat) (ascr : Int) (ef : Nat) (b : Build) (w2 r : Nat) : Build :=
  match findNode b sf' w2 (some r) with
  | some dst => latticeLink b src dst ascr ef
  | none => b

theorem tryLink_inv {G : Nfa} {b0 b : Build} (hkeys : Keys b0) (hinv : LInv G b0 b) {src ef t : Nat}
    (hs : Src b0 src ef t) (ascr : Int) {w2 r : Nat} (hstep : stepOK G t w2 r) :
    LInv G b0 (tryLink src (ef + 1) ascr ef b w2 r) ∧ Grow b (tryLink src (ef + 1) ascr ef b w2 r) ∧
      Has b0 src (ef + 1) w2 r (tryLink src (ef + 1) ascr ef b w2 r) := by
  unfold tryLink
  rw [findNode_congr hinv.nodes]
  cases hf : findNode b0 (ef + 1) w2 (some r) with
  | none =>
    simp only
    refine ⟨hinv, Grow.refl b, ?_⟩
    intro dst h1 h2 h3 h4
    exact absurd ⟨h2, h3, h4⟩ (findNode_none hf dst h1)
  | some d =>
    simp only
    obtain ⟨hd, hd1, hd2, hd3⟩ := findNode_some hf
    have hg : GoodT G b0 src d ef := by
      refine ⟨hs.lt, hd, hs.sf, hs.fef, hs.lef, hd1.symm, ?_⟩
      intro q r' hq hr'
      rw [hs.state] at hq; rw [hd3] at hr'
      simp only [Option.some.injEq] at hq hr'
      subst hq; subst hr'; rw [hd2]; exact hstep
    obtain ⟨h1, h2, h3⟩ := link_inv hinv ascr hg
    refine ⟨h1, h2, ?_⟩
    intro dst k1 k2 k3 k4
    have : dst = d := hkeys dst d k1 hd (by rw [k2, hd1]) (by rw [k3, hd2]) (by rw [k4, hd3])
    subst this; exact h3

/-- the innermost step: a word arc leaving the state reached by a null arc -/
def wstep (src sf' : Nat) (ascr : Int) (ef : Nat) (b : Build) (a : Nat × Option Nat × Nat) : Build :=
  match a.2.1 with
  | some w2 => tryLink src sf' ascr ef b w2 a.2.2
  | none => b

theorem wfold_inv {G : Nfa} {b0 : Build} (hkeys : Keys b0) {src ef t : Nat} (hs : Src b0 src ef t)
    (ascr : Int) (as : List (Nat × Option Nat × Nat)) :
    ∀ b : Build, LInv G b0 b → (∀ a ∈ as, ∀ w2, a.2.1 = some w2 → stepOK G t w2 a.2.2) →
      LInv G b0 (as.foldl (wstep src (ef + 1) ascr ef) b) ∧ Grow b (as.foldl (wstep src (ef + 1) ascr ef) b) ∧
      ∀ a ∈ as, ∀ w2, a.2.1 = some w2 → Has b0 src (ef + 1) w2 a.2.2 (as.foldl (wstep src (ef + 1) ascr ef) b) := by
  induction as with
  | nil => intro b hinv _; exact ⟨hinv, Grow.refl b, fun a ha => absurd ha (by simp)⟩
  | cons a as ih =>
    intro b hinv hq
    rw [List.foldl_cons]
    have h1 : LInv G b0 (wstep src (ef + 1) ascr ef b a) ∧ Grow b (wstep src (ef + 1) ascr ef b a) ∧
        ∀ w2, a.2.1 = some w2 → Has b0 src (ef + 1) w2 a.2.2 (wstep src (ef + 1) ascr ef b a) := by
      unfold wstep
      cases hw : a.2.1 with
      | none => exact ⟨hinv, Grow.refl b, fun w2 hw2 => absurd hw2 (by simp)⟩
      | some w =>
        simp only
        obtain ⟨k1, k2, k3⟩ := tryLink_inv hkeys hinv hs ascr (hq a (List.mem_cons_self ..) w hw)
        refine ⟨k1, k2, ?_⟩
        intro w2 hw2
        simp only [Option.some.injEq] at hw2
        subst hw2; exact k3
    obtain ⟨i1, g1, c1⟩ := h1
    obtain ⟨i2, g2, c2⟩ := ih _ i1 (fun a' ha' => hq a' (List.mem_cons_of_mem _ ha'))
    refine ⟨i2, g1.trans g2, ?_⟩
    intro a' ha' w2 hw2
    rcases List.mem_cons.mp ha' with he | hm
    · subst he; exact (c1 w2 hw2).mono g2
    · exact c2 a' hm w2 hw2

theorem mem_arcsFrom {G : Nfa} {q : Nat} {a : Nat × Option Nat × Nat} :
    a ∈ arcsFrom G q ↔ a ∈ G.arcs ∧ a.1 = q := by
  unfold arcsFrom
  simp only [List.mem_filter, beq_iff_eq]

/-- the step over the arcs leaving the target state of the word entry: a word arc, or a null arc followed
by the word arcs leaving its target -/
def astep (G : Nfa) (src sf' : Nat) (ascr : Int) (ef : Nat) (b : Build) (a : Nat × Option Nat × Nat) : Build :=
  match a.2.1 with
  | some w2 => tryLink src sf' ascr ef b w2 a.2.2
  | none => (arcsFrom G a.2.2).foldl (wstep src sf' ascr ef) b

/-- what one arc `a` leaving `t` contributes -/
def ArcDone (G : Nfa) (b0 : Build) (src sf' : Nat) (a : Nat × Option Nat × Nat) (b' : Build) : Prop :=
  (∀ w2, a.2.1 = some w2 → Has b0 src sf' w2 a.2.2 b') ∧
  (a.2.1 = none → ∀ a2 ∈ arcsFrom G a.2.2, ∀ w2, a2.2.1 = some w2 → Has b0 src sf' w2 a2.2.2 b')

theorem ArcDone.mono {G : Nfa} {b0 : Build} {src sf' : Nat} {a : Nat × Option Nat × Nat} {b b' : Build}
    (hd : ArcDone G b0 src sf' a b) (hg : Grow b b') : ArcDone G b0 src sf' a b' :=
  ⟨fun w2 hw2 => (hd.1 w2 hw2).mono hg, fun hn a2 ha2 w2 hw2 => (hd.2 hn a2 ha2 w2 hw2).mono hg⟩

theorem astep_inv {G : Nfa} {b0 b : Build} (hkeys : Keys b0) (hinv : LInv G b0 b) {src ef t : Nat}
    (hs : Src b0 src ef t) (ascr : Int) (a : Nat × Option Nat × Nat) (haG : a ∈ G.arcs) (hat : a.1 = t) :
    LInv G b0 (astep G src (ef + 1) ascr ef b a) ∧ Grow b (astep G src (ef + 1) ascr ef b a) ∧
      ArcDone G b0 src (ef + 1) a (astep G src (ef + 1) ascr ef b a) := by
  obtain ⟨a1, a2, a3⟩ := a
  simp only at hat
  subst hat
  unfold astep ArcDone
  cases a2 with
  | some w =>
    simp only
    obtain ⟨k1, k2, k3⟩ := tryLink_inv (r := a3) hkeys hinv hs ascr (Or.inl haG)
    refine ⟨k1, k2, ?_, fun hc => absurd hc (by simp)⟩
    intro w2 hw2
    simp only [Option.some.injEq] at hw2
    subst hw2; exact k3
  | none =>
    simp only
    obtain ⟨k1, k2, k3⟩ := wfold_inv hkeys hs ascr (arcsFrom G a3) b hinv (by
      intro a' ha' w2 hw2
      obtain ⟨x, y, z⟩ := a'
      rw [mem_arcsFrom] at ha'
      simp only at ha' hw2
      obtain ⟨hG', hx⟩ := ha'
      subst hx; subst hw2
      exact Or.inr ⟨(a1, none, x), haG, rfl, rfl, hG'⟩)
    exact ⟨k1, k2, fun w2 hw2 => absurd hw2 (by simp), fun _ => k3⟩

theorem afold_inv {G : Nfa} {b0 : Build} (hkeys : Keys b0) {src ef t : Nat} (hs : Src b0 src ef t)
    (ascr : Int) (as : List (Nat × Option Nat × Nat)) :
    ∀ b : Build, LInv G b0 b → (∀ a ∈ as, a ∈ G.arcs ∧ a.1 = t) →
      LInv G b0 (as.foldl (astep G src (ef + 1) ascr ef) b) ∧
      Grow b (as.foldl (astep G src (ef + 1) ascr ef) b) ∧
      ∀ a ∈ as, ArcDone G b0 src (ef + 1) a (as.foldl (astep G src (ef + 1) ascr ef) b) := by
  induction as with
  | nil => intro b hinv _; exact ⟨hinv, Grow.refl b, fun a ha => absurd ha (by simp)⟩
  | cons a as ih =>
    intro b hinv hq
    rw [List.foldl_cons]
    obtain ⟨haG, hat⟩ := hq a (List.mem_cons_self ..)
    obtain ⟨i1, g1, c1⟩ := astep_inv hkeys hinv hs ascr a haG hat
    obtain ⟨i2, g2, c2⟩ := ih _ i1 (fun a' ha' => hq a' (List.mem_cons_of_mem _ ha'))
    refine ⟨i2, g1.trans g2, ?_⟩
    intro a' ha'
    rcases List.mem_cons.mp ha' with he | hm
    · subst he; exact c1.mono g2
    · exact c2 a' hm

/-- all links leaving the word instance `src` with end frame `ef`: every node starting at `ef + 1` that is one
grammar step away is linked -/
theorem arcs_inv {G : Nfa} {b0 b : Build} (hkeys : Keys b0) (hinv : LInv G b0 b) {src ef t : Nat}
    (hs : Src b0 src ef t) (ascr : Int) :
    LInv G b0 ((arcsFrom G t).foldl (astep G src (ef + 1) ascr ef) b) ∧
    Grow b ((arcsFrom G t).foldl (astep G src (ef + 1) ascr ef) b) ∧
    ∀ w2 r, stepOK G t w2 r → Has b0 src (ef + 1) w2 r ((arcsFrom G t).foldl (astep G src (ef + 1) ascr ef) b) := by
  obtain ⟨k1, k2, k3⟩ := afold_inv hkeys hs ascr (arcsFrom G t) b hinv (fun a ha => mem_arcsFrom.mp ha)
  refine ⟨k1, k2, ?_⟩
  intro w2 r hstep
  rcases hstep with h1 | ⟨a, haG, hat, han, ha2⟩
  · exact (k3 (t, some w2, r) (mem_arcsFrom.mpr ⟨h1, rfl⟩)).1 w2 rfl
  · exact (k3 a (mem_arcsFrom.mpr ⟨haG, hat⟩)).2 han (a.2.2, some w2, r) (mem_arcsFrom.mpr ⟨ha2, rfl⟩) w2 rfl

/-! ### the outer fold over the history table -/

theorem toNat_succ (x : Int) (hx : 1 ≤ x) : (x + 1).toNat = x.toNat + 1 := by omega

/-- one step of the fold in `buildLinks` -/
def estep (G : Nfa) (h : Array HEntry) (b : Build) (e : HEntry) : Build :=
  match e.arc with
  | some (_, some w, to) =>
    let (sf, ascr) := entrySfAscr h e
    match findNode b sf w (some to) with
    | none => b
    | some src => (arcsFrom G to).foldl (astep G src (e.frame + 1).toNat ascr e.frame.toNat) b
  | _ => b

theorem buildLinks_eq (G : Nfa) (h : Array HEntry) (b0 : Build) :
    buildLinks G h b0 = h.toList.foldl (estep G h) b0 := by
  unfold buildLinks
  rw [Array.foldl_toList]
  rfl

/-- prefix invariant: `LInv`, and every node one grammar step after a word entry `j < k`, starting in the frame
after it, is entered from the node `u` of that word entry -/
structure OInv (G : Nfa) (h : Array HEntry) (b0 : Build) (k : Nat) (b : Build) : Prop where
  inv : LInv G b0 b
  compl : ∀ j f' w' t', j < k → j < h.size → (hent h j).arc = some (f', some w', t') →
    ∀ u, u < b0.nodes.size → (b0.node u).sf = (entrySfAscr h (hent h j)).1 → (b0.node u).word = w' →
      (b0.node u).state = some t' →
    ∀ v r, v < b0.nodes.size → (b0.node v).sf = ((hent h j).frame + 1).toNat → (b0.node v).state = some r →
      stepOK G t' (b0.node v).word r → (u, v) ∈ pairs b

theorem oinv_init {G : Nfa} {h : Array HEntry} {frame : Nat} {b0 : Build} (hn : NodesOK G h frame b0) :
    OInv G h b0 0 b0 where
  inv := by
    refine ⟨rfl, ?_, ?_⟩
    · intro l hl; rw [hn.nolinks] at hl; simp at hl
    · simp [pairs, hn.nolinks]
  compl := by intro j f' w' t' hj; omega

theorem oinv_skip {G : Nfa} {h : Array HEntry} {b0 : Build} {k : Nat} {b : Build} (hinv : OInv G h b0 k b)
    (hna : ∀ f w t, (hent h k).arc ≠ some (f, some w, t)) : OInv G h b0 (k + 1) b where
  inv := hinv.inv
  compl := by
    intro j f' w' t' hj hjs harc
    by_cases hjk : j = k
    · subst hjk; exact absurd harc (hna f' w' t')
    · exact hinv.compl j f' w' t' (by omega) hjs harc

theorem oinv_word {G : Nfa} {h : Array HEntry} {frame : Nat} {b0 : Build} (hwf : HistWF G h frame)
    (hn : NodesOK G h frame b0) {k : Nat} {b : Build} (hinv : OInv G h b0 k b) (hk : k < h.size)
    (f w t : Nat) (harc : (hent h k).arc = some (f, some w, t)) (sf : Nat) (ascr : Int)
    (hsf : (entrySfAscr h (hent h k)).1 = sf) :
    OInv G h b0 (k + 1)
      (match findNode b sf w (some t) with
       | none => b
       | some src => (arcsFrom G t).foldl
          (astep G src ((hent h k).frame + 1).toNat ascr (hent h k).frame.toNat) b) := by
  obtain ⟨hf1, hf2, _, _, _⟩ := entry_facts G h frame hwf k hk f w t harc
  obtain ⟨v, hv, c1, c2, c3, c4, c5⟩ := hn.covered k f w t hk harc
  rw [hsf] at c1
  have hfr : ((hent h k).frame + 1).toNat = (hent h k).frame.toNat + 1 := toNat_succ _ hf1
  rw [hfr]
  generalize hefdef : (hent h k).frame.toNat = ef at *
  rw [findNode_congr hinv.inv.nodes]
  cases hfn : findNode b0 sf w (some t) with
  | none => exact absurd ⟨c1, c2, c3⟩ (findNode_none hfn v hv)
  | some src =>
    simp only
    obtain ⟨hs0, hs1, hs2, hs3⟩ := findNode_some hfn
    have hsv : src = v := hn.keys src v hs0 hv (by rw [hs1, c1]) (by rw [hs2, c2]) (by rw [hs3, c3])
    subst hsv
    obtain ⟨_, _, n1, _, _⟩ := hn.node src hv
    have hs : Src b0 src ef t := ⟨hv, c3, by omega, c4, c5⟩
    obtain ⟨k1, k2, k3⟩ := arcs_inv hn.keys hinv.inv hs ascr
    refine ⟨k1, ?_⟩
    intro j f' w' t' hj hjs harc' s hs0' hs1' hs2' hs3' u r hu hu1 hu2 hu3
    by_cases hjk : j = k
    · subst hjk
      rw [harc] at harc'
      simp only [Option.some.injEq, Prod.mk.injEq] at harc'
      obtain ⟨_, hw', ht'⟩ := harc'
      subst hw'; subst ht'
      rw [hfr] at hu1
      have hss : s = src := hn.keys s src hs0' hv (by rw [hs1', hsf, c1]) (by rw [hs2', c2]) (by rw [hs3', c3])
      subst hss
      exact k3 _ r hu3 u hu hu1 rfl hu2
    · exact k2 _ (hinv.compl j f' w' t' (by omega) hjs harc' s hs0' hs1' hs2' hs3' u r hu hu1 hu2 hu3)

theorem oinv_step {G : Nfa} {h : Array HEntry} {frame : Nat} {b0 : Build} (hwf : HistWF G h frame)
    (hn : NodesOK G h frame b0) {k : Nat} {b : Build} (hinv : OInv G h b0 k b) (hk : k < h.size) :
    OInv G h b0 (k + 1) (estep G h b (hent h k)) := by
  unfold estep
  split
  · rename_i f w t harc
    exact oinv_word hwf hn hinv hk f w t harc _ _ rfl
  · rename_i hna
    exact oinv_skip hinv (fun f w t harc => hna f w t harc)

theorem oinv_fold {G : Nfa} {h : Array HEntry} {frame : Nat} {b0 : Build} (hwf : HistWF G h frame)
    (hn : NodesOK G h frame b0) (post : List HEntry) :
    ∀ (pre : List HEntry) (b : Build), pre ++ post = h.toList →
      OInv G h b0 pre.length b → OInv G h b0 h.size (post.foldl (estep G h) b) := by
  induction post with
  | nil =>
    intro pre b hs hinv
    have : pre.length = h.size := by
      have := congrArg List.length hs
      simpa using this
    rw [← this]; exact hinv
  | cons e post ih =>
    intro pre b hs hinv
    obtain ⟨he, hk⟩ := hent_toList h pre post e hs
    rw [List.foldl_cons]
    have := oinv_step hwf hn hinv hk
    rw [he] at this
    refine ih (pre ++ [e]) _ (by rw [← hs]; simp) ?_
    simpa using this

end BuildLinks

/-- the second pass of `fsg_search_lattice`: links join a word instance ending at `t` to the word nodes starting
at `t + 1` that are one grammar step away, one link per node pair, and every node with `sf > 0` is entered -/
theorem buildLinks_midOK (G : Nfa) (h : Array HEntry) (frame : Nat) (b0 : Build)
    (hwf : HistWF G h frame) (hn : NodesOK G h frame b0) : MidOK G frame (buildLinks G h b0) := by
  have hinv := BuildLinks.oinv_fold hwf hn h.toList [] b0 rfl (BuildLinks.oinv_init hn)
  rw [← BuildLinks.buildLinks_eq] at hinv
  generalize buildLinks G h b0 = b at *
  have hnodes := hinv.inv.nodes
  have hnode : ∀ v, b.node v = b0.node v := by
    intro v; unfold Build.node; rw [hnodes]
  refine ⟨?_, ?_, ?_, ?_⟩
  · intro v hv
    rw [hnodes] at hv
    rw [hnode v]
    obtain ⟨t, h1, h2, h3, h4, h5, h6, _⟩ := hn.node v hv
    exact ⟨t, h1, h2, h3, h4, h5, h6⟩
  · intro l hl
    rw [hnodes, hnode, hnode]
    exact hinv.inv.good l hl
  · have hnd := hinv.inv.nodup
    unfold BuildLinks.pairs List.Nodup at hnd
    rw [List.pairwise_map] at hnd
    refine hnd.imp ?_
    intro a c hac hc
    apply hac
    unfold BuildLinks.pr
    rw [hc.1, hc.2]
  · intro v hv hpos
    rw [hnodes] at hv
    rw [hnode v] at hpos
    obtain ⟨t, h1, _, _, _, _, _, h7⟩ := hn.node v hv
    obtain ⟨j, f', w', t', hj, harc, hfr, hstep⟩ := h7 hpos
    obtain ⟨u, hu, c1, c2, c3, _, _⟩ := hn.covered j f' w' t' hj harc
    have hp := hinv.compl j f' w' t' hj hj harc u hu c1 c2 c3 v t hv hfr.symm h1 hstep
    unfold BuildLinks.pairs at hp
    rw [List.mem_map] at hp
    obtain ⟨l, hl, hlp⟩ := hp
    refine ⟨l, hl, ?_⟩
    have := congrArg Prod.snd hlp
    exact this
end SSVerif.Lattice
