import SSVerif.Proofs.JsonResult
import SSVerif.Proofs.JsonNoNul
set_option linter.unusedSimpArgs false
/-! C14 helper lemmas: the closed form of `resultJson`, and well-formedness of the prescribed tree -/
namespace SSVerif.Json

theorem wf_entryFields (fmt : Fmt) (hn : NumOK fmt) (st dur prob : Num) (text : Option Bytes) (extra : List (Bytes × JV))
    (he : wfM extra = true) : wfM (entryFields fmt st dur prob text ++ extra) = true := by
  simp [entryFields, wfM, wfV, hn st, hn dur, hn prob, he]

theorem wf_tree (fmt : Fmt) (hn : NumOK fmt) (r : Result) (level : Int) : wfV (tree fmt r level) = true := by
  have hstate : ∀ e, wfV (stateTree fmt r.frate e) = true := fun e => by
    have := wf_entryFields fmt hn (.time e.start r.frate) (.ratio e.dur r.frate) (.prob e.score) e.name [] rfl
    simpa [stateTree, aentFields, wfV] using this
  have hphone : ∀ sa p, wfV (phoneTree fmt r.frate sa p) = true := fun sa p => by
    rw [phoneTree, wfV]
    apply wf_entryFields fmt hn
    cases sa with
    | true => simp [wfM, wfV, wfL_map _ _ hstate]
    | false => rfl
  have hword : ∀ sa w, wfV (wordTree fmt r.frate sa w) = true := fun sa w => by
    rw [wordTree, wfV]
    apply wf_entryFields fmt hn
    simp [wfM, wfV, wfL_map _ _ (hphone sa)]
  have hseg : ∀ s, wfV (segTree fmt r.frate s) = true := fun s => by
    have := wf_entryFields fmt hn (.time s.sf r.frate) (.ratio (s.ef + 1 - s.sf) r.frate) (.prob s.prob) s.word [] rfl
    simpa [segTree, wfV] using this
  rw [tree, wfV]
  apply wf_entryFields fmt hn
  simp only [wfM, wfV, Bool.and_true]
  unfold items
  split
  · exact wfL_map _ _ (hword _)
  · exact wfL_map _ _ hseg

/-- what the function computes, in closed form: it returns `NULL` exactly when an alignment is requested and there
is none; otherwise the allocation is the length of the line plus one, the block is the line followed by its NUL,
and no flag was raised (no store outside the block, every `assert` held, no `snprintf(NULL, n ≠ 0)`) -/
theorem resultJson_exact (fmt : Fmt) (r : Result) (level : Int) :
    resultJson fmt r level =
      if level ≠ 0 ∧ r.align = none then none
      else some { alloc := (((printV (tree fmt r level)).length + 2 : Nat) : Int),
                  mem := ⟨printV (tree fmt r level) ++ [10, 0], true⟩, dryOk := true } := by
  unfold resultJson
  by_cases h : level ≠ 0 ∧ r.align = none
  · simp only [if_pos h]
  · simp only [if_neg h]
    have hitems : itemsOf fmt r (if level ≠ 0 then r.align else none) (decide (level > 1)) = items fmt r level := by
      unfold itemsOf items
      by_cases hl : level ≠ 0
      · simp only [if_pos hl]
        cases ha : r.align with
        | none => exact absurd ⟨hl, ha⟩ h
        | some ws => rfl
      · simp only [if_neg hl]
    have htree : printV (tree fmt r level) = hypText fmt r ++ wOpen ++ printL (items fmt r level) ++ [93, 125] := by
      rw [tree, printV_obj_entry_w, hypText]
    rw [sizingPass_spec]
    simp only
    rw [writingPass_spec, hitems, htree]
    simp [wOpen_length]
    omega

end SSVerif.Json
