import SSVerif.Model.LatticeHist
/-!
# `buildLattice` yields `LatticeOK`: the staging invariants

`buildLattice` = `buildNodes` → `buildLinks` → `findStartEnd` → pruning (`markReachable`, renumbering).
The proof is staged through two invariants on the construction state `Build`:

* `MidOK G frame b` — after `buildLinks G h (buildNodes h)` (proved from `HistWF` in `LatticeBuildHist`),
* `PreOK G frame b s f` — after `findStartEnd` (proved from `MidOK` in `LatticeBuildEnds`),

and `pruneLat` (the tail of `buildLattice`) turns `PreOK` into `LatticeOK` (`LatticeBuildPrune`).
-/
namespace SSVerif.Lattice
open SSVerif.Nfa

/-- total read of a node under construction (the same expression `buildLattice` uses) -/
def Build.node (b : Build) (v : Nat) : BNode := b.nodes.getD v default

/-- invariant after the two passes over the history table: only word nodes, no markers yet -/
structure MidOK (G : Nfa) (frame : Nat) (b : Build) : Prop where
  node : ∀ v, v < b.nodes.size → ∃ t, (b.node v).state = some t ∧
    (b.node v).sf ≤ (b.node v).fef ∧ (b.node v).fef ≤ (b.node v).lef ∧ 1 ≤ (b.node v).lef ∧
    (b.node v).lef < frame ∧ ((b.node v).sf = 0 → stepOK G G.start (b.node v).word t)
  link : ∀ l ∈ b.links.toList, l.src < b.nodes.size ∧ l.dst < b.nodes.size ∧
    (b.node l.src).sf ≤ l.ef ∧ (b.node l.src).fef ≤ l.ef ∧ l.ef ≤ (b.node l.src).lef ∧
    l.ef + 1 = (b.node l.dst).sf ∧
    ∀ q r, (b.node l.src).state = some q → (b.node l.dst).state = some r → stepOK G q (b.node l.dst).word r
  distinct : b.links.toList.Pairwise (fun a c => ¬(a.src = c.src ∧ a.dst = c.dst))
  entry : ∀ v, v < b.nodes.size → 0 < (b.node v).sf → ∃ l ∈ b.links.toList, l.dst = v

/-- invariant after `findStartEnd`, before the deletion of the nodes that do not reach the end: the
clauses of `LatticeOK` in the form in which they hold *before* pruning.  `real v` is
`(b.node v).state.isSome`. -/
structure PreOK (G : Nfa) (frame : Nat) (b : Build) (s f : Nat) : Prop where
  sLt : s < b.nodes.size
  fLt : f < b.nodes.size
  linkLt : ∀ l ∈ b.links.toList, l.src < b.nodes.size ∧ l.dst < b.nodes.size
  distinct : b.links.toList.Pairwise (fun a c => ¬(a.src = c.src ∧ a.dst = c.dst))
  noEnterStart : ∀ l ∈ b.links.toList, l.dst ≠ s
  /-- acyclic: some rank strictly increases along every link -/
  rank : ∃ r : Nat → Nat, ∀ l ∈ b.links.toList, r l.src < r l.dst
  /-- every node other than the start that is the end or has an exit has an entry -/
  entry : ∀ v, v < b.nodes.size → v ≠ s → (v = f ∨ ∃ l ∈ b.links.toList, l.src = v) →
    ∃ l ∈ b.links.toList, l.dst = v
  markers : ∀ v, v < b.nodes.size → (b.node v).state.isSome = false → v = s ∨ v = f
  nodeReal : ∀ v, v < b.nodes.size → (b.node v).state.isSome = true →
    (b.node v).sf ≤ (b.node v).fef ∧ (b.node v).fef ≤ (b.node v).lef ∧ (b.node v).lef < frame
  nodeSyn : ∀ v, v < b.nodes.size → (b.node v).state.isSome = false →
    (v = s → (b.node v).sf = 0) ∧ (v ≠ s → (b.node v).sf = frame) ∧
    (b.node v).fef = (b.node v).sf ∧ (b.node v).lef = (b.node v).sf
  linkRR : ∀ l ∈ b.links.toList, (b.node l.src).state.isSome = true → (b.node l.dst).state.isSome = true →
    (b.node l.src).sf ≤ l.ef ∧ (b.node l.src).fef ≤ l.ef ∧ l.ef ≤ (b.node l.src).lef ∧
    l.ef + 1 = (b.node l.dst).sf
  /-- links into a marker: into the end, with `ef = frame`, from a word node with the largest `lef` -/
  linkRS : ∀ l ∈ b.links.toList, (b.node l.src).state.isSome = true → (b.node l.dst).state.isSome = false →
    l.dst = f ∧ l.ef = frame ∧
    ∀ u, u < b.nodes.size → (b.node u).state.isSome = true → (b.node u).lef ≤ (b.node l.src).lef
  linkSR : ∀ l ∈ b.links.toList, (b.node l.src).state.isSome = false →
    l.src = s ∧ l.ef = 0 ∧ (b.node l.dst).state.isSome = true ∧ (b.node l.dst).sf = 0
  realStart : (b.node s).state.isSome = true → (b.node s).sf = 0 ∧
    ∀ v, v < b.nodes.size → v ≠ s → (v = f ∨ ∃ l ∈ b.links.toList, l.src = v) → (b.node v).sf ≠ 0
  startMark : (b.node s).state.isSome = false →
    ∀ v, v < b.nodes.size → (b.node v).state.isSome = true → (b.node v).sf = 0 →
      (v = f ∨ ∃ l ∈ b.links.toList, l.src = v) → ∃ l ∈ b.links.toList, l.src = s ∧ l.dst = v
  endMark : (b.node f).state.isSome = false →
    ∀ v, v < b.nodes.size → (b.node v).state.isSome = true →
      (∀ u, u < b.nodes.size → (b.node u).state.isSome = true → (b.node u).lef ≤ (b.node v).lef) →
      ∃ l ∈ b.links.toList, l.src = v ∧ l.dst = f
  finalEntry : (b.node f).state.isSome = false → ∃ l ∈ b.links.toList, l.dst = f
  linkGrammar : ∀ l ∈ b.links.toList, ∀ r, (b.node l.dst).state = some r →
    stepOK G ((b.node l.src).state.getD G.start) (b.node l.dst).word r
  startGrammar : ∀ r, (b.node s).state = some r → stepOK G G.start (b.node s).word r

/-- invariant after `buildNodes h` (first pass over the history table) -/
structure NodesOK (G : Nfa) (h : Array HEntry) (frame : Nat) (b : Build) : Prop where
  nolinks : b.links = #[]
  /-- `new_node` keeps one node per key `(sf, word, grammar state)` -/
  keys : ∀ u v, u < b.nodes.size → v < b.nodes.size → (b.node u).sf = (b.node v).sf →
    (b.node u).word = (b.node v).word → (b.node u).state = (b.node v).state → u = v
  node : ∀ v, v < b.nodes.size → ∃ t, (b.node v).state = some t ∧
    (b.node v).sf ≤ (b.node v).fef ∧ (b.node v).fef ≤ (b.node v).lef ∧ 1 ≤ (b.node v).lef ∧
    (b.node v).lef < frame ∧ ((b.node v).sf = 0 → stepOK G G.start (b.node v).word t) ∧
    (0 < (b.node v).sf → ∃ j f' w' t', j < h.size ∧ (hent h j).arc = some (f', some w', t') ∧
      ((hent h j).frame + 1).toNat = (b.node v).sf ∧ stepOK G t' (b.node v).word t)
  /-- every word entry has its node, and its frame is one of the node's end frames -/
  covered : ∀ i f w t, i < h.size → (hent h i).arc = some (f, some w, t) →
    ∃ v, v < b.nodes.size ∧ (b.node v).sf = (entrySfAscr h (hent h i)).1 ∧ (b.node v).word = w ∧
      (b.node v).state = some t ∧ (b.node v).fef ≤ (hent h i).frame.toNat ∧
      (hent h i).frame.toNat ≤ (b.node v).lef

/-- what `findStartEnd b0 frame wS wE = some R` computes, without folds: `lastEf` = frame of the last word
exit, `sc`/`ec` = the start / end candidates, `b1` = the state after the start node has been chosen -/
structure EndsShape (b0 : Build) (frame wS wE : Nat) (R : BuildResult) (lastEf : Int) (sc ec : List Nat)
    (b1 : Build) : Prop where
  lastUb : ∀ v, v < b0.nodes.size → ((b0.node v).lef : Int) ≤ lastEf
  lastAtt : (b0.nodes.size = 0 ∧ lastEf = -1) ∨ ∃ v, v < b0.nodes.size ∧ ((b0.node v).lef : Int) = lastEf
  scNodup : sc.Nodup
  scMem : ∀ v, v ∈ sc ↔ v < b0.nodes.size ∧ (b0.node v).sf = 0 ∧
    ((∃ l ∈ b0.links.toList, l.src = v) ∨ ((b0.node v).lef : Int) = lastEf)
  /-- one candidate: it is the start; otherwise a synthetic `<s>` node linked to every candidate -/
  start : (sc = [R.start] ∧ b1 = b0) ∨
    ((∀ v, sc ≠ [v]) ∧ R.start = b0.nodes.size ∧ b1.nodes = b0.nodes.push ⟨wS, 0, 0, 0, none, 0⟩ ∧
      b1.links.toList = b0.links.toList ++ sc.map fun v => (⟨b0.nodes.size, v, 0, 0⟩ : BLink))
  ecNodup : ec.Nodup
  ecMem : ∀ v, v ∈ ec ↔ v < b1.nodes.size ∧ ((b1.node v).lef : Int) = lastEf ∧
    ((∃ l ∈ b1.links.toList, l.dst = v) ∨ v = R.start)
  /-- one candidate: it is the end; none: some node with an entry; several: a synthetic `</s>` node entered
  from every candidate with `ef = frame` -/
  final : (ec = [R.final] ∧ R.b = b1) ∨
    (ec = [] ∧ R.b = b1 ∧ R.final < b1.nodes.size ∧ ∃ l ∈ b1.links.toList, l.dst = R.final) ∨
    (2 ≤ ec.length ∧ R.final = b1.nodes.size ∧ R.b.nodes = b1.nodes.push ⟨wE, frame, frame, frame, none, 0⟩ ∧
      ∃ sc' : Nat → Int, R.b.links.toList =
        b1.links.toList ++ ec.map fun v => (⟨v, b1.nodes.size, frame, sc' v⟩ : BLink))

/-- what the proof needs of `markReachable b f`: the least set containing `f` and closed under
predecessors along links -/
structure KeepSpec (b : Build) (f : Nat) (keep : List Nat) : Prop where
  final : f ∈ keep
  closed : ∀ l ∈ b.links.toList, l.dst ∈ keep → l.src ∈ keep
  induct : ∀ P : Nat → Prop, P f → (∀ l ∈ b.links.toList, P l.dst → P l.src) → ∀ v ∈ keep, P v

/-- the tail of `buildLattice` after `findStartEnd`: `mark_reachable`, `lattice_delete_unreachable`
(renumbering in C list order), filler penalties -/
def pruneLat (b : Build) (start final : Nat) (frame : Nat)
    (isFiller : Nat → Bool) (silWord : Nat) (silpen fillpen : Int) : Lat :=
  let keep := markReachable b final
  let order := ((List.range b.nodes.size).reverse).filter fun v => keep.contains v
  let idx := fun v => (order.idxOf v)
  let pen := fun (l : BLink) =>
    let a := b.nodes.getD l.dst default
    if l.dst ≠ start ∧ l.dst ≠ final ∧ isFiller a.word then (if a.word = silWord then silpen else fillpen) else 0
  let links := order.flatMap fun v =>
    (b.links.toList.reverse.filter fun l => l.src = v ∧ keep.contains l.dst).map fun l =>
      ({ src := idx l.src, dst := idx l.dst, ef := l.ef, ascr := l.ascr + pen l } : Link)
  { nframes := frame,
    nodes := order.map fun v => let a := b.nodes.getD v default; ⟨a.word, a.sf, a.fef, a.lef, a.state⟩,
    links := links, start := idx start, final := idx final }

theorem buildLattice_eq (G : Nfa) (h : Array HEntry) (frame wS wE : Nat)
    (isFiller : Nat → Bool) (silWord : Nat) (silpen fillpen : Int) :
    buildLattice G h frame wS wE isFiller silWord silpen fillpen =
      (findStartEnd (buildLinks G h (buildNodes h)) frame wS wE).map fun R =>
        pruneLat R.b R.start R.final frame isFiller silWord silpen fillpen := by
  unfold buildLattice
  dsimp only
  split
  · rename_i heq; rw [heq]; rfl
  · rename_i heq; rw [heq]; rfl

end SSVerif.Lattice
