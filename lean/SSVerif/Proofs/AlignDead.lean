import SSVerif.Proofs.AlignNoRenorm
/-!
Audit item B6(a): **a dead final state gives no alignment.**  The token stack of the constrained Viterbi (`Step.run`),
read backwards by `state_align_search_finish` (`btLoop`) from a dead exit score, runs into a `-1` history.

Invariant (on top of `K`/`M` of `AlignStepWF`): in an active HMM a dead score (`≤ WORST_SCORE`) carries a *dead label*
(`DeadH`): at frame 0 the label is `-1`; later, the backtrace that reads the label's token in the previous row and goes
on downwards returns `none` (`BadAt`).  The exit history is `-1` as long as state 1 is dead, and a dead exit score
carries `-1` or a dead label of the previous frame boundary.
-/
namespace SSVerif.Align.Step

/-! ### the backtrace loop from a label -/

/-- the backtrace that holds label `k` and reads row `f`, then the rows below, fails -/
def BadAt (rows : List (List Tok)) (f : Nat) (k : Int) : Prop :=
  ∀ s : BT, s.last.id = k → btLoop rows (f + 1) s = none

/-- label `l` held at frame boundary `F` (its token is in row `F-1`) is dead -/
def DeadH (rows : List (List Tok)) : Nat → Int → Prop
  | 0, l => l = -1
  | F + 1, l => BadAt rows F l

theorem btStep_some (rows : List (List Tok)) (f : Nat) (s s' : BT) (h : btStep rows f s = some s') :
    ∃ c, tokAt rows f s.last.id.toNat = some c ∧ c.id ≠ -1 ∧ s'.last.id = c.id := by
  unfold btStep at h
  by_cases h0 : s.last.id < 0
  · rw [if_pos h0] at h; cases h
  · rw [if_neg h0] at h
    cases hc : tokAt rows f s.last.id.toNat with
    | none => rw [hc] at h; cases h
    | some c =>
      rw [hc] at h
      simp only at h
      by_cases h1 : c.id = -1
      · rw [if_pos h1] at h; cases h
      · rw [if_neg h1] at h
        by_cases h2 : c.id ≠ s.last.id
        · rw [if_pos h2] at h
          by_cases h3 : s.last.id.toNat < s.states.length
          · rw [if_pos h3] at h
            cases h
            exact ⟨c, rfl, h1, rfl⟩
          · rw [if_neg h3] at h; cases h
        · rw [if_neg h2] at h
          cases h
          exact ⟨c, rfl, h1, by omega⟩

theorem badAt_of (rows : List (List Tok)) (f : Nat) (k : Int)
    (h : ∀ c, tokAt rows f k.toNat = some c → c.id ≠ -1 → ∀ s' : BT, s'.last.id = c.id → btLoop rows f s' = none) :
    BadAt rows f k := by
  intro s hs
  show (match btStep rows f s with
    | none => none
    | some s' => btLoop rows f s') = none
  cases hst : btStep rows f s with
  | none => rfl
  | some s' =>
    obtain ⟨c, hc, hne, hid⟩ := btStep_some rows f s s' hst
    rw [hs] at hc
    exact h c hc hne s' hid

theorem badAt_neg (rows : List (List Tok)) (f : Nat) (k : Int) (hk : k < 0) : BadAt rows f k := by
  intro s hs
  show (match btStep rows f s with
    | none => none
    | some s' => btLoop rows f s') = none
  have : btStep rows f s = none := by unfold btStep; rw [if_pos (by omega)]
  rw [this]

theorem deadH_m1 (rows : List (List Tok)) : ∀ F, DeadH rows F (-1)
  | 0 => rfl
  | F + 1 => badAt_neg rows F (-1) (by omega)

/-- the token of label `k` in row `f` carries a dead label: `k` is dead at the next boundary -/
theorem badAt_of_deadH (rows : List (List Tok)) (f : Nat) (k : Int) (c : Tok)
    (hc : tokAt rows f k.toNat = some c) (hd : DeadH rows f c.id) : BadAt rows f k := by
  apply badAt_of
  intro c' hc' hne s' hid
  rw [hc] at hc'
  cases hc'
  cases f with
  | zero => exact absurd hd hne
  | succ f => exact hd s' hid

theorem btStep_append (rows more : List (List Tok)) (f : Nat) (s : BT) (h : f < rows.length) :
    btStep (rows ++ more) f s = btStep rows f s := by
  unfold btStep; rw [tokAt_append_left rows more f _ h]

theorem btLoop_append (rows more : List (List Tok)) :
    ∀ (n : Nat) (s : BT), n ≤ rows.length → btLoop (rows ++ more) n s = btLoop rows n s
  | 0, _, _ => rfl
  | n + 1, s, h => by
    show (match btStep (rows ++ more) n s with
      | none => none
      | some s' => btLoop (rows ++ more) n s') =
      (match btStep rows n s with
      | none => none
      | some s' => btLoop rows n s')
    rw [btStep_append rows more n s (by omega)]
    cases btStep rows n s with
    | none => rfl
    | some s' => exact btLoop_append rows more n s' (by omega)

theorem deadH_append (rows more : List (List Tok)) (F : Nat) (l : Int) (h : F ≤ rows.length)
    (hd : DeadH rows F l) : DeadH (rows ++ more) F l := by
  cases F with
  | zero => exact hd
  | succ F =>
    intro s hs
    rw [btLoop_append rows more (F + 1) s h]
    exact hd s hs

/-! ### the invariant -/

/-- dead-label invariant of HMM `i` at the start of frame `f` (`rows` = the `f` rows pushed so far) -/
structure KD (ef : Array Int) (rows : List (List Tok)) (f : Nat) (i : Nat) (h : Hmm) : Prop where
  d0 : h.frame = (f : Int) → h.s0 ≤ worst → DeadH rows f h.h0
  d1 : h.frame = (f : Int) → h.s1 ≤ worst → DeadH rows f h.h1
  d2 : h.frame = (f : Int) → h.s2 ≤ worst → DeadH rows f h.h2
  o1 : h.s1 ≤ worst → h.outH = -1
  o2 : h.frame = (f : Int) → h.out ≤ worst → h.outH = -1 ∨ ∃ f', f = f' + 1 ∧ DeadH rows f' h.outH
  lbl : h.frame < (f : Int) → (h.h1 = -1 ∧ h.h2 = -1) ∨ ef.getD i 0 < (f : Int)

/-- the same during frame `f`, after evaluation, pruning and phone transitions -/
structure MD (ef : Array Int) (rows : List (List Tok)) (f : Nat) (i : Nat) (h : Hmm) : Prop where
  d0 : h.frame = (f : Int) + 1 → h.s0 ≤ worst → DeadH rows f h.h0
  d1 : h.frame = (f : Int) + 1 → h.s1 ≤ worst → DeadH rows f h.h1
  d2 : h.frame = (f : Int) + 1 → h.s2 ≤ worst → DeadH rows f h.h2
  o1 : h.s1 ≤ worst → h.outH = -1
  o2 : h.frame = (f : Int) + 1 → h.out ≤ worst → h.outH = -1 ∨ DeadH rows f h.outH
  lbl : h.frame < (f : Int) → (h.h1 = -1 ∧ h.h2 = -1) ∨ ef.getD i 0 < (f : Int)

theorem clampW_dead (x : Int) (h : clampW x ≤ worst) : x ≤ worst := by
  unfold clampW at h; split at h <;> omega

theorem pr_fields (ef : Array Int) (F : Int) (i : Nat) (h : Hmm) :
    (pr ef F i h).s0 = h.s0 ∧ (pr ef F i h).s1 = h.s1 ∧ (pr ef F i h).s2 = h.s2 ∧ (pr ef F i h).h0 = h.h0 ∧
    (pr ef F i h).h1 = h.h1 ∧ (pr ef F i h).h2 = h.h2 ∧ (pr ef F i h).out = h.out ∧ (pr ef F i h).outH = h.outH ∧
    (¬ h.frame < F → ¬ (pr ef F i h).frame < F) := by
  unfold pr
  by_cases c1 : h.frame < F
  · rw [if_pos c1]; exact ⟨rfl, rfl, rfl, rfl, rfl, rfl, rfl, rfl, fun h1 => absurd c1 h1⟩
  · rw [if_neg c1]
    by_cases c2 : F + 1 > ef.getD i 0
    · rw [if_pos c2]; exact ⟨rfl, rfl, rfl, rfl, rfl, rfl, rfl, rfl, fun h1 => h1⟩
    · rw [if_neg c2]
      refine ⟨rfl, rfl, rfl, rfl, rfl, rfl, rfl, rfl, fun _ => ?_⟩
      show ¬ F + 1 < F
      omega

/-- evaluation and pruning of one HMM -/
theorem md_of_kd (tps : Array (Array Int)) (sf ef : Array Int) (sen : Array Int) (rows : List (List Tok)) (f : Nat)
    (best : Int) (i : Nat) (h : Hmm) (hK : K sf ef rows f best i h) (hD : KD ef rows f i h) (hok : FrameOK tps sen)
    (hB : ((f : Int) + 1) * 33022 ≤ 533000000) :
    MD ef rows f i (pr ef f i (ev tps sen f i h).1) := by
  have hw : worst = -536870912 := rfl
  by_cases hf : h.frame < (f : Int)
  · have e1 : (ev tps sen f i h).1 = h := by unfold ev; rw [if_pos hf]
    have e2 : pr ef f i h = h := by unfold pr; rw [if_pos hf]
    rw [e1, e2]
    exact ⟨fun h1 => by omega, fun h1 => by omega, fun h1 => by omega, hD.o1, fun h1 => by omega, hD.lbl⟩
  · have hfe : h.frame = (f : Int) := by have := hK.frameLe; omega
    obtain ⟨l0, l1, l2, lo', _⟩ := hK.lo hfe
    have hr : InRange (tps.getD i #[]) (sen.getD (3 * i) 0) (sen.getD (3 * i + 1) 0) (sen.getD (3 * i + 2) 0) h :=
      ⟨l0, l1, l2, lo', hok.sen _, hok.sen _, hok.sen _, hok.tp i⟩
    cases hev : eval3 (tps.getD i #[]) (sen.getD (3 * i) 0) (sen.getD (3 * i + 1) 0) (sen.getD (3 * i + 2) 0) h with
    | mk h' bb =>
    obtain ⟨es0, es1, eh1, es2, eh2, eout, eoutH, eh0, efr, _, _, _, _⟩ :=
      eval3_fields _ _ _ _ h hr (hok.noskip i) h' bb hev
    have e1 : ev tps sen f i h = (h', bb) := by unfold ev; rw [if_neg hf]; exact hev
    rw [e1]
    have ha := hok.sen (3 * i); have hb := hok.sen (3 * i + 1); have hc := hok.sen (3 * i + 2)
    have t00 := hok.tp i 0 0; have t01 := hok.tp i 0 1; have t11 := hok.tp i 1 1
    have t12 := hok.tp i 1 2; have t22 := hok.tp i 2 2; have t23 := hok.tp i 2 3
    have L0 : h.s0 > worst → h.s0 ≥ -((f : Int) * 33022) := fun a => (hK.a0 hfe a).2.2.1
    have L1 : h.s1 > worst → h.s1 ≥ -((f : Int) * 33022) := fun a => (hK.a1 hfe a).2.2.1
    have L2 : h.s2 > worst → h.s2 ≥ -((f : Int) * 33022) := fun a => (hK.a2 hfe a).2.2.1
    have hf' : ¬ h'.frame < (f : Int) := by rw [efr]; exact hf
    obtain ⟨p0, p1, p2, q0, q1, q2, po, poH, pfr⟩ := pr_fields ef (f : Int) i h'
    have pfr' := pfr hf'
    -- dead results come from dead sources
    have S0 : h'.s0 ≤ worst → h.s0 ≤ worst := by
      intro hd; rw [es0] at hd; have := clampW_dead _ hd
      by_cases c : h.s0 > worst
      · have := L0 c; omega
      · omega
    have S1 : h'.s1 ≤ worst → h.s1 ≤ worst ∧ h.s0 ≤ worst := by
      intro hd; rw [es1] at hd; have hx := clampW_dead _ hd
      have hA : h.s1 - sen.getD (3 * i + 1) 0 - tpAt (tps.getD i #[]) 1 1 ≤ worst ∧
          h.s0 - sen.getD (3 * i) 0 - tpAt (tps.getD i #[]) 0 1 ≤ worst := by
        split at hx <;> omega
      refine ⟨?_, ?_⟩
      · by_cases c : h.s1 > worst
        · have := L1 c; omega
        · omega
      · by_cases c : h.s0 > worst
        · have := L0 c; omega
        · omega
    have S2 : h'.s2 ≤ worst → h.s2 ≤ worst ∧ h.s1 ≤ worst := by
      intro hd; rw [es2] at hd; have hx := clampW_dead _ hd
      have hA : h.s2 - sen.getD (3 * i + 2) 0 - tpAt (tps.getD i #[]) 2 2 ≤ worst ∧
          h.s1 - sen.getD (3 * i + 1) 0 - tpAt (tps.getD i #[]) 1 2 ≤ worst := by
        split at hx <;> omega
      refine ⟨?_, ?_⟩
      · by_cases c : h.s2 > worst
        · have := L2 c; omega
        · omega
      · by_cases c : h.s1 > worst
        · have := L1 c; omega
        · omega
    refine ⟨fun _ hd => ?_, fun _ hd => ?_, fun _ hd => ?_, fun hd => ?_, fun _ hd => ?_, fun h1 => absurd h1 pfr'⟩
    · rw [p0] at hd; rw [q0, eh0]; exact hD.d0 hfe (S0 hd)
    · rw [p1] at hd; rw [q1, eh1]
      obtain ⟨a1, a0⟩ := S1 hd
      split
      · exact hD.d1 hfe a1
      · exact hD.d0 hfe a0
    · rw [p2] at hd; rw [q2, eh2]
      obtain ⟨a2, a1⟩ := S2 hd
      split
      · exact hD.d2 hfe a2
      · exact hD.d1 hfe a1
    · rw [p1] at hd; rw [poH, eoutH]
      obtain ⟨a1, _⟩ := S1 hd
      rw [if_neg (by omega)]
      exact hD.o1 a1
    · rw [po, eout] at hd; rw [poH, eoutH]
      by_cases c : h.s1 - sen.getD (3 * i + 1) 0 > worst
      · rw [if_pos c] at hd ⊢
        have hx := clampW_dead _ hd
        right
        apply hD.d2 hfe
        by_cases c2 : h.s2 > worst
        · have := L2 c2; omega
        · omega
      · rw [if_neg c]
        left
        apply hD.o1
        by_cases c1 : h.s1 > worst
        · have := L1 c1; omega
        · omega

/-- `hmm_enter` from an active predecessor -/
theorem md_enter (sf ef : Array Int) (rows : List (List Tok)) (f : Nat) (bst : Int) (i : Nat) (nh p : Hmm)
    (hmono : ef.getD (i - 1) 0 ≤ ef.getD i 0)
    (hn : M sf ef rows f bst i nh) (hp : M sf ef rows f bst (i - 1) p)
    (dn : MD ef rows f i nh) (dp : MD ef rows f (i - 1) p)
    (c1 : p.frame = (f : Int) + 1) :
    MD ef rows f i { nh with s0 := p.out, h0 := p.outH, frame := (f : Int) + 1 } := by
  obtain ⟨_, _, _, _, pef, _⟩ := hp.lo c1
  have hle := hn.frameLe
  have hnof : ¬ nh.frame = (f : Int) := fun e => by have := hn.exp e; omega
  refine ⟨fun _ hd => ?_, fun _ hd => ?_, fun _ hd => ?_, dn.o1, fun _ hd => ?_, fun h1 => ?_⟩
  · show DeadH rows f p.outH
    rcases dp.o2 c1 hd with e | e
    · rw [e]; exact deadH_m1 rows f
    · exact e
  · show DeadH rows f nh.h1
    by_cases a : nh.frame = (f : Int) + 1
    · exact dn.d1 a hd
    · rcases dn.lbl (by omega) with ⟨e, _⟩ | e
      · rw [e]; exact deadH_m1 rows f
      · omega
  · show DeadH rows f nh.h2
    by_cases a : nh.frame = (f : Int) + 1
    · exact dn.d2 a hd
    · rcases dn.lbl (by omega) with ⟨_, e⟩ | e
      · rw [e]; exact deadH_m1 rows f
      · omega
  · show nh.outH = -1 ∨ DeadH rows f nh.outH
    by_cases a : nh.frame = (f : Int) + 1
    · exact dn.o2 a hd
    · rcases hn.inact (by omega) with ⟨_, fr1, _, _⟩ | e
      · exact Or.inl (dn.o1 (by rw [fr1]; exact Int.le_refl _))
      · omega
  · have : (f : Int) + 1 < (f : Int) := h1
    omega

theorem md_trans (sf ef : Array Int) (rows : List (List Tok)) (f : Nat) (bst : Int) (N : Nat)
    (hmono : ∀ i, i + 1 < N → ef.getD i 0 ≤ ef.getD (i + 1) 0) :
    ∀ (l : List Hmm) (i : Nat) (prev : Option Hmm), i + l.length ≤ N →
    (∀ j h, l[j]? = some h → M sf ef rows f bst (i + j) h ∧ MD ef rows f (i + j) h) →
    (∀ p, prev = some p → 1 ≤ i ∧ M sf ef rows f bst (i - 1) p ∧ MD ef rows f (i - 1) p) →
    ∀ j h', (transPhase sf f i prev l)[j]? = some h' → M sf ef rows f bst (i + j) h' ∧ MD ef rows f (i + j) h'
  | [], _, _, _, _, _, j, h', he => by simp [transPhase] at he
  | h :: rest, i, none, hN, hl, _, j, h', he => by
    simp only [transPhase] at he
    have hq0 := hl 0 h (by simp)
    cases j with
    | zero => simp at he; rw [← he]; exact hq0
    | succ j =>
      simp only [List.getElem?_cons_succ] at he
      have := md_trans sf ef rows f bst N hmono rest (i + 1) (some h) (by simp at hN; omega)
        (fun k x hx => by
          have := hl (k + 1) x (by simpa using hx)
          have e : i + (k + 1) = i + 1 + k := by omega
          rw [e] at this; exact this)
        (fun p hp => by cases hp; exact ⟨by omega, by simpa using hq0⟩) j h' he
      have e : i + (j + 1) = i + 1 + j := by omega
      rw [e]; exact this
  | nh :: rest, i, some p, hN, hl, hp, j, h', he => by
    obtain ⟨hi1, hpM, hpD⟩ := hp p rfl
    have hq0 : M sf ef rows f bst i nh ∧ MD ef rows f i nh := by simpa using hl 0 nh (by simp)
    have hmi : ef.getD (i - 1) 0 ≤ ef.getD i 0 := by
      have := hmono (i - 1) (by simp at hN; omega)
      have e : i - 1 + 1 = i := by omega
      rw [e] at this; exact this
    have hq0' : (M sf ef rows f bst i (if p.frame ≠ (f : Int) + 1 then nh else if (f : Int) + 1 < sf.getD i 0 then nh
        else if nh.frame < (f : Int) ∨ p.out > nh.s0 then { nh with s0 := p.out, h0 := p.outH, frame := (f : Int) + 1 }
        else nh)) ∧ MD ef rows f i (if p.frame ≠ (f : Int) + 1 then nh else if (f : Int) + 1 < sf.getD i 0 then nh
        else if nh.frame < (f : Int) ∨ p.out > nh.s0 then { nh with s0 := p.out, h0 := p.outH, frame := (f : Int) + 1 }
        else nh) := by
      split
      · exact hq0
      · rename_i c1
        split
        · exact hq0
        · rename_i c2
          split
          · exact ⟨m_enter sf ef rows f bst i nh p hi1 hmi hq0.1 hpM (by omega) c2,
              md_enter sf ef rows f bst i nh p hmi hq0.1 hpM hq0.2 hpD (by omega)⟩
          · exact hq0
    simp only [transPhase] at he
    cases j with
    | zero => simp at he; rw [← he]; simpa using hq0'
    | succ j =>
      simp only [List.getElem?_cons_succ] at he
      have := md_trans sf ef rows f bst N hmono rest (i + 1) _ (by simp at hN; omega)
        (fun k x hx => by
          have := hl (k + 1) x (by simpa using hx)
          have e : i + (k + 1) = i + 1 + k := by omega
          rw [e] at this; exact this)
        (fun q hq => by cases hq; exact ⟨by omega, by simpa using hq0'⟩) j h' he
      have e : i + (j + 1) = i + 1 + j := by omega
      rw [e]; exact this

/-- `record_transitions`: the pushed row and the relabelling -/
theorem kd_of_md (sf ef : Array Int) (rows : List (List Tok)) (row : List Tok) (f : Nat) (bst : Int) (i : Nat) (h : Hmm)
    (hM : M sf ef rows f bst i h) (hD : MD ef rows f i h) (hlen : rows.length = f)
    (hrow : ∀ j, j < 3 → tokAt (rows ++ [row]) f (3 * i + j) = (rowOf (f : Int) h)[j]?) :
    KD ef (rows ++ [row]) (f + 1) i (relabelElem (f : Int) i h) := by
  have hle := hM.frameLe
  by_cases c1 : h.frame < (f : Int)
  · have e : relabelElem (f : Int) i h = h := by unfold relabelElem; rw [if_pos c1]
    rw [e]
    refine ⟨fun h1 => ?_, fun h1 => ?_, fun h1 => ?_, hD.o1, fun h1 => ?_, fun _ => ?_⟩
    · push_cast at h1; omega
    · push_cast at h1; omega
    · push_cast at h1; omega
    · push_cast at h1; omega
    · rcases hD.lbl c1 with e | e
      · exact Or.inl e
      · right; push_cast; omega
  · have e : relabelElem (f : Int) i h =
        { h with h0 := (3 * i : Nat), h1 := (3 * i + 1 : Nat), h2 := (3 * i + 2 : Nat) } := by
      unfold relabelElem; rw [if_neg c1]
    rw [e]
    have hr : rowOf (f : Int) h = [⟨h.h0, h.s0⟩, ⟨h.h1, h.s1⟩, ⟨h.h2, h.s2⟩] := by unfold rowOf; rw [if_neg c1]
    have tk : ∀ j, j < 3 → ∀ c, [(⟨h.h0, h.s0⟩ : Tok), ⟨h.h1, h.s1⟩, ⟨h.h2, h.s2⟩][j]? = some c →
        DeadH rows f c.id → BadAt (rows ++ [row]) f ((3 * i + j : Nat) : Int) := by
      intro j hj c hc hd
      apply badAt_of_deadH (rows ++ [row]) f _ c
      · rw [Int.toNat_natCast, hrow j hj, hr]; exact hc
      · exact deadH_append rows [row] f c.id (by omega) hd
    by_cases c2 : h.frame = (f : Int) + 1
    · refine ⟨fun _ hd => ?_, fun _ hd => ?_, fun _ hd => ?_, hD.o1, fun _ hd => ?_, fun h1 => ?_⟩
      · exact tk 0 (by omega) ⟨h.h0, h.s0⟩ rfl (hD.d0 c2 hd)
      · exact tk 1 (by omega) ⟨h.h1, h.s1⟩ rfl (hD.d1 c2 hd)
      · exact tk 2 (by omega) ⟨h.h2, h.s2⟩ rfl (hD.d2 c2 hd)
      · rcases hD.o2 c2 hd with e | e
        · exact Or.inl e
        · exact Or.inr ⟨f, rfl, deadH_append rows [row] f _ (by omega) e⟩
      · have : h.frame < ((f + 1 : Nat) : Int) := h1
        push_cast at this; omega
    · have c3 : h.frame = (f : Int) := by omega
      refine ⟨fun h1 => ?_, fun h1 => ?_, fun h1 => ?_, hD.o1, fun h1 => ?_, fun _ => ?_⟩
      · have : h.frame = ((f + 1 : Nat) : Int) := h1
        push_cast at this; omega
      · have : h.frame = ((f + 1 : Nat) : Int) := h1
        push_cast at this; omega
      · have : h.frame = ((f + 1 : Nat) : Int) := h1
        push_cast at this; omega
      · have : h.frame = ((f + 1 : Nat) : Int) := h1
        push_cast at this; omega
      · right
        have := hM.exp c3
        push_cast; omega

/-- **one frame preserves the dead-label invariant** (when the renormalisation test is false) -/
theorem step_KD (tps : Array (Array Int)) (sf ef : Array Int) (sen : Array Int) (rows : List (List Tok)) (f : Nat)
    (s : Search) (N : Nat) (hN : s.hmms.length ≤ N) (hmono : ∀ i, i + 1 < N → ef.getD i 0 ≤ ef.getD (i + 1) 0)
    (hlen : rows.length = f) (hok : FrameOK tps sen) (hB : ((f : Int) + 1) * 33022 ≤ 533000000)
    (hnr : ¬ renormDue s.best)
    (hK : ∀ i h, s.hmms[i]? = some h → K sf ef rows f s.best i h)
    (hD : ∀ i h, s.hmms[i]? = some h → KD ef rows f i h) :
    ∀ i h, (step tps sf ef sen (f : Int) s).1.hmms[i]? = some h →
      KD ef (rows ++ [(step tps sf ef sen (f : Int) s).2]) (f + 1) i h := by
  let bst := ((evalPhase tps sen (f : Int) s.hmms).map (·.2)).foldl (fun b x => if x > b then x else b) worst
  let hm1 := advance tps sf ef sen (f : Int) s.hmms
  have hstep : step tps sf ef sen (f : Int) s =
      ({ hmms := relabel (f : Int) hm1, best := bst }, hm1.flatMap (rowOf (f : Int))) := by
    unfold step
    simp only [if_neg hnr]
    rfl
  have hL : ∀ i h', (prunePhase ef (f : Int) ((evalPhase tps sen (f : Int) s.hmms).map (·.1)))[i]? = some h' →
      M sf ef rows f bst i h' ∧ MD ef rows f i h' := by
    intro i h' he
    unfold prunePhase at he
    rw [List.getElem?_mapIdx, List.getElem?_map] at he
    unfold evalPhase at he
    rw [List.getElem?_mapIdx] at he
    cases hl : s.hmms[i]? with
    | none => rw [hl] at he; simp at he
    | some a =>
      rw [hl] at he
      simp only [Option.map_some, Option.some.injEq] at he
      rw [← he]
      have hb : ¬ a.frame < (f : Int) → (ev tps sen f i a).2 ≤ bst := by
        intro _
        apply (foldl_max_ge _ worst).2
        apply List.mem_map.2
        refine ⟨ev tps sen f i a, ?_, rfl⟩
        unfold evalPhase
        apply List.mem_iff_getElem?.2
        refine ⟨i, ?_⟩
        rw [List.getElem?_mapIdx, hl]
        rfl
      exact ⟨m_of_k tps sf ef sen rows f s.best bst i a (hK i a hl) hok hB hb,
        md_of_kd tps sf ef sen rows f s.best i a (hK i a hl) (hD i a hl) hok hB⟩
  have hA : ∀ i h', hm1[i]? = some h' → M sf ef rows f bst i h' ∧ MD ef rows f i h' := by
    intro i h' he
    have := md_trans sf ef rows f bst N hmono _ 0 none
      (by simp [prunePhase, evalPhase]; omega)
      (fun j h hj => by simpa using hL j h hj) (fun p hp => by cases hp) i h' he
    simpa using this
  rw [hstep]
  intro i h he
  simp only at he ⊢
  unfold relabel at he
  rw [List.getElem?_mapIdx] at he
  cases hl : hm1[i]? with
  | none => rw [hl] at he; simp at he
  | some a =>
    rw [hl] at he
    simp only [Option.map_some, Option.some.injEq] at he
    rw [← he]
    apply kd_of_md sf ef rows _ f bst i a (hA i a hl).1 (hA i a hl).2 hlen
    intro j hj
    rw [← hlen, tokAt_last, row_get _ _ _ _ hj, hl]
    rfl

/-! ### the whole second pass -/

theorem runAux_KD (tps : Array (Array Int)) (sf ef : Array Int) (N : Nat)
    (hmono : ∀ i, i + 1 < N → ef.getD i 0 ≤ ef.getD (i + 1) 0) (frames : List (Array Int)) :
    ∀ (s : Search) (f : Nat) (rows : List (List Tok)) (rn : Bool),
    s.hmms.length ≤ N → rows.length = f → (∀ sen ∈ frames, FrameOK tps sen) →
    ((f + frames.length : Nat) : Int) * 33022 ≤ 533000000 →
    (∀ i h, s.hmms[i]? = some h → K sf ef rows f s.best i h) → LB f s.best →
    (∀ i h, s.hmms[i]? = some h → KD ef rows f i h) →
    (∀ i h, (runAux tps sf ef frames s f rows rn).1.hmms[i]? = some h →
      KD ef (runAux tps sf ef frames s f rows rn).2.1 (f + frames.length) i h) := by
  induction frames with
  | nil =>
    intro s f rows rn _ _ _ _ _ _ hD
    exact hD
  | cons sen rest ih =>
    intro s f rows rn hN hl hok hB hK hLB hD
    have hB1 : ((f : Int) + 1) * 33022 ≤ 533000000 := by
      simp only [List.length_cons] at hB; push_cast at hB; omega
    have hB0 : (f : Int) * 33022 ≤ 533000000 := by omega
    have hokf := hok sen (List.mem_cons_self ..)
    obtain ⟨k1, k2⟩ := step_K tps sf ef sen rows f s N hN hmono hl hokf hB1 hK
    have hnr := not_renormDue f s.best hLB hB0
    have d1 := step_KD tps sf ef sen rows f s N hN hmono hl hokf hB1 hnr hK hD
    have e : f + (sen :: rest).length = f + 1 + rest.length := by simp only [List.length_cons]; omega
    have h := ih (step tps sf ef sen (f : Int) s).1 (f + 1)
      (rows ++ [(step tps sf ef sen (f : Int) s).2]) (rn || decide (renormDue s.best))
      (by rw [k2]; exact hN) (by simp [hl]) (fun x hx => hok x (List.mem_cons_of_mem _ hx))
      (by rw [← e]; exact hB) k1 (step_LB tps sf ef sen rows f s hokf hB1 hK) d1
    rw [e]
    exact h

theorem kd_start (ef : Array Int) (n : Nat) :
    ∀ i h, (start n).hmms[i]? = some h → KD ef [] 0 i h := by
  intro i h he
  have hw : worst = -536870912 := rfl
  unfold start at he
  simp only [List.getElem?_map] at he
  cases hr : (List.range n)[i]? with
  | none => rw [hr] at he; simp at he
  | some k =>
    rw [hr] at he
    simp only [Option.map_some, Option.some.injEq] at he
    rw [← he]
    by_cases h0 : k = 0
    · subst h0
      simp only [if_true]
      refine ⟨fun _ hd => ?_, fun _ _ => rfl, fun _ _ => rfl, fun _ => rfl, fun _ _ => Or.inl rfl, fun h1 => ?_⟩
      · simp [hw] at hd
      · simp at h1
    · simp only [h0, if_false]
      refine ⟨fun h1 => ?_, fun _ _ => rfl, fun _ _ => rfl, fun _ => rfl, fun _ _ => Or.inl rfl,
        fun _ => Or.inl ⟨rfl, rfl⟩⟩
      simp at h1

/-- **a dead exit score is not backtraceable.**  After the constrained Viterbi over `T` frames (`T·33022 ≤
533 000 000`, in-range data, skip-free matrices, monotone `ef`, the last phone's window open to the end), if the final
out-score is not alive the exit history is `-1` or the backtrace loop of `state_align_search_finish` fails. -/
theorem run_dead (tps : Array (Array Int)) (sf ef : Array Int) (frames : List (Array Int))
    (hok : ∀ sen ∈ frames, FrameOK tps sen) (hsf : sf.getD 0 0 ≤ 0)
    (hmono : ∀ i, i + 1 < sf.size → ef.getD i 0 ≤ ef.getD (i + 1) 0)
    (hT : (frames.length : Int) * 33022 ≤ 533000000)
    (hend : (frames.length : Int) ≤ ef.getD (sf.size - 1) 0)
    (hdead : (run tps sf ef frames).2.1.score ≤ worst) :
    (run tps sf ef frames).2.1.id = -1 ∨
    ∀ s : BT, s.last.id = (run tps sf ef frames).2.1.id →
      btLoop (run tps sf ef frames).1 (frames.length - 1) s = none := by
  have hw : worst = -536870912 := rfl
  have hlenS : (start sf.size).hmms.length = sf.size := by simp [start]
  have hLB0 : LB 0 (start sf.size).best := by
    intro _; show (0 : Int) ≥ -(((0 : Nat) : Int) * 33022); simp
  obtain ⟨k1, k2, k3⟩ := runAux_K tps sf ef sf.size hmono frames (start sf.size) 0 [] false
    (by rw [hlenS]; exact Nat.le_refl _) rfl hok (by simpa using hT) (k_start sf ef sf.size hsf)
  have d1 := runAux_KD tps sf ef sf.size hmono frames (start sf.size) 0 [] false
    (by rw [hlenS]; exact Nat.le_refl _) rfl hok (by simpa using hT) (k_start sf ef sf.size hsf) hLB0
    (kd_start ef sf.size)
  simp only [Nat.zero_add] at k1 k2 d1
  have hrun : run tps sf ef frames =
      ((runAux tps sf ef frames (start sf.size) 0 [] false).2.1,
       ⟨((runAux tps sf ef frames (start sf.size) 0 [] false).1.hmms.getD (sf.size - 1) {}).outH,
        ((runAux tps sf ef frames (start sf.size) 0 [] false).1.hmms.getD (sf.size - 1) {}).out⟩,
       (runAux tps sf ef frames (start sf.size) 0 [] false).2.2) := rfl
  rw [hrun] at hdead ⊢
  simp only at hdead ⊢
  generalize hR : runAux tps sf ef frames (start sf.size) 0 [] false = R at *
  have hlen : R.1.hmms.length = sf.size := by rw [k3, hlenS]
  by_cases hn : sf.size = 0
  · left
    have : R.1.hmms.getD (sf.size - 1) {} = ({} : Hmm) := by
      rw [List.getD_eq_getElem?_getD, List.getElem?_eq_none (by omega)]; rfl
    rw [this]
  · have hidx : sf.size - 1 < R.1.hmms.length := by omega
    have hget : R.1.hmms[sf.size - 1]? = some (R.1.hmms.getD (sf.size - 1) {}) := by
      rw [List.getD_eq_getElem?_getD, List.getElem?_eq_getElem hidx]; rfl
    generalize R.1.hmms.getD (sf.size - 1) {} = last at *
    have hK := k1 (sf.size - 1) last hget
    have hD := d1 (sf.size - 1) last hget
    by_cases a : last.frame < (frames.length : Int)
    · left
      rcases hK.inact a with ⟨_, fr1, _, _⟩ | hexp
      · exact hD.o1 (by rw [fr1]; exact Int.le_refl _)
      · omega
    · have hfr : last.frame = (frames.length : Int) := by have := hK.frameLe; omega
      rcases hD.o2 hfr hdead with e | ⟨f', hf', e⟩
      · exact Or.inl e
      · cases f' with
        | zero => exact Or.inl e
        | succ f'' =>
          right
          intro s hs
          have e1 : frames.length - 1 = f'' + 1 := by omega
          rw [e1]
          exact e s hs

end SSVerif.Align.Step
