import SSVerif.Model.BinMdef
import SSVerif.Proofs.S3file
/-!
# Bounds of `bin_mdef_read_s3file` (helper lemmas for `Props/C17`)
-/
namespace SSVerif.S3file

theorem rd_val {f : File} {i : Nat} (h : i < f.size) : (rd f i).Sat fun b => b = f.byte i := by
  unfold rd; rw [if_pos h]; exact rfl

theorem rd16_sat {f : File} {off : Nat} (sw : Bool) (h : off + 2 ≤ f.size) :
    (rd16 f off sw).Sat fun v => v = valAt f off 2 sw := by
  unfold rd16; rw [if_pos h]; exact rfl

theorem rd32_sat {f : File} {off : Nat} (sw : Bool) (h : off + 4 ≤ f.size) :
    (rd32 f off sw).Sat fun v => v = valAt f off 4 sw := by
  unfold rd32; rw [if_pos h]; exact rfl

theorem findNul_sat (f : File) (lim : Nat) (hl : lim ≤ f.size) :
    ∀ fuel p, (findNul f lim fuel p).Sat fun o => ∀ z, o = some z → p ≤ z ∧ z < lim ∧ f.byte z = 0
  | 0, _ => by intro z hz; cases hz
  | fuel + 1, p => by
    unfold findNul
    by_cases h : p < lim
    · rw [if_pos h]
      refine Sat.bind (rd_val (by omega)) ?_
      intro b hb
      by_cases h0 : b = 0
      · rw [if_pos h0]
        intro z hz
        injection hz with hz
        subst hz
        exact ⟨Nat.le_refl _, h, by rw [← hb]; exact h0⟩
      · rw [if_neg h0]
        exact Sat.mono (findNul_sat f lim hl fuel (p + 1)) fun o ho z hz => by
          obtain ⟨a, b', c⟩ := ho z hz
          exact ⟨by omega, b', c⟩
    · rw [if_neg h]; intro z hz; cases hz

/-- a phone name that is terminated inside the file -/
def NameOk (f : File) (x : Nat) : Prop := ∃ z, x ≤ z ∧ z < f.size ∧ f.byte z = 0

theorem walkNames_sat (f : File) (lim nAlloc : Nat) (hl : lim ≤ f.size) :
    ∀ n p acc, acc.length + n = nAlloc → (∀ x ∈ acc, NameOk f x) →
      (walkNames f lim nAlloc n p acc).Sat fun r => r.1.length = nAlloc ∧ ∀ x ∈ r.1, NameOk f x
  | 0, p, acc, hn, hacc => by
    refine ⟨?_, ?_⟩
    · show acc.reverse.length = nAlloc
      rw [List.length_reverse]; omega
    · intro x hx
      exact hacc x (List.mem_reverse.mp hx)
  | n + 1, p, acc, hn, hacc => by
    unfold walkNames
    rw [if_neg (by omega)]
    by_cases hp : p ≥ lim
    · rw [if_pos hp]; trivial
    · rw [if_neg hp]
      refine Sat.bind (findNul_sat f lim hl _ p) ?_
      intro o ho
      cases o with
      | none => trivial
      | some z =>
        obtain ⟨h1, h2, h3⟩ := ho z rfl
        refine walkNames_sat f lim nAlloc hl n (z + 1) (p :: acc) (by simp; omega) ?_
        intro x hx
        rcases List.mem_cons.mp hx with rfl | hx
        · exact ⟨z, h1, by omega, h3⟩
        · exact hacc x hx

/-- what `mdefHeader` has established about the counts -/
def MdefHdr.Ok (f : File) (h : MdefHdr) : Prop :=
  h.dataOff ≤ f.size ∧ 0 < h.nCiphone ∧ h.nCiphone ≤ 255 ∧ h.nCiphone ≤ h.nPhone ∧ h.nEmit ≤ 255 ∧
  0 < h.nSen ∧ h.nSen ≤ 65535 ∧ h.nCiSen ≤ h.nSen ∧ 0 < h.nTmat ∧ 0 < h.nSseq ∧ h.nSseq ≤ 65535 ∧
  (h.nEmit ≠ 0 → h.nCiSen = h.nCiphone * h.nEmit)

theorem toNat_mul_of_pos {a b c : Int} (ha : 0 < a) (hb : 0 ≤ b) (hc : c = a * b) : c.toNat = a.toNat * b.toNat := by
  obtain ⟨a', rfl⟩ := Int.eq_ofNat_of_zero_le (Int.le_of_lt ha)
  obtain ⟨b', rfl⟩ := Int.eq_ofNat_of_zero_le hb
  subst hc
  have : ((a' * b' : Nat) : Int) = (a' : Int) * (b' : Int) := Int.natCast_mul a' b'
  simp only [Int.toNat_natCast]
  omega

theorem mdefHeader_sat (f : File) : (mdefHeader f).Sat (MdefHdr.Ok f) := by
  unfold mdefHeader
  refine Sat.bind (get32_sat _ (good_init f)) ?_
  rintro ⟨s0, magic⟩ ⟨g0, _⟩
  simp only
  split
  · trivial
  refine Sat.bind (get32_sat (s := { s0 with swap := decide (magic = mdefOther) }) _ ⟨g0.1, g0.2⟩) ?_
  rintro ⟨s1, ver⟩ ⟨g1, _⟩
  simp only
  split
  · trivial
  refine Sat.bind (get32_sat _ g1) ?_
  rintro ⟨s2, dl⟩ ⟨g2, _⟩
  simp only
  split
  · trivial
  refine Sat.bind (skip_sat _ _ g2) ?_
  intro s3 ⟨g3, _⟩
  refine Sat.bind (get32_sat _ g3) ?_
  rintro ⟨t0, c0⟩ ⟨k0, _⟩
  refine Sat.bind (get32_sat _ k0) ?_
  rintro ⟨t1, c1⟩ ⟨k1, _⟩
  refine Sat.bind (get32_sat _ k1) ?_
  rintro ⟨t2, c2⟩ ⟨k2, _⟩
  refine Sat.bind (get32_sat _ k2) ?_
  rintro ⟨t3, c3⟩ ⟨k3, _⟩
  refine Sat.bind (get32_sat _ k3) ?_
  rintro ⟨t4, c4⟩ ⟨k4, _⟩
  refine Sat.bind (get32_sat _ k4) ?_
  rintro ⟨t5, c5⟩ ⟨k5, _⟩
  refine Sat.bind (get32_sat _ k5) ?_
  rintro ⟨t6, c6⟩ ⟨k6, _⟩
  refine Sat.bind (get32_sat _ k6) ?_
  rintro ⟨t7, c7⟩ ⟨k7, _⟩
  refine Sat.bind (get32_sat _ k7) ?_
  rintro ⟨t8, c8⟩ ⟨k8, _⟩
  refine Sat.bind (get32_sat _ k8) ?_
  rintro ⟨t9, c9⟩ ⟨k9, _⟩
  simp only
  split
  · trivial
  rename_i hc
  simp only [not_or, not_and, Int.not_le, Int.not_lt, Decidable.not_not, ne_eq] at hc
  obtain ⟨a1, a2, a3, a4, a5, a6, a7, a8, a9, a10, a11, a12, a13, a14, a15⟩ := hc
  refine ⟨k9.2, by show 0 < (toI32 c0).toNat; omega, by show (toI32 c0).toNat ≤ 255; omega,
    by show (toI32 c0).toNat ≤ (toI32 c1).toNat; omega, by show (toI32 c2).toNat ≤ 255; omega,
    by show 0 < (toI32 c4).toNat; omega, by show (toI32 c4).toNat ≤ 65535; omega,
    by show (toI32 c3).toNat ≤ (toI32 c4).toNat; omega, by show 0 < (toI32 c5).toNat; omega,
    by show 0 < (toI32 c6).toNat; omega, by show (toI32 c6).toNat ≤ 65535; omega, ?_⟩
  intro hne
  show (toI32 c3).toNat = (toI32 c0).toNat * (toI32 c2).toNat
  have hne' : toI32 c2 ≠ 0 := by
    intro h0
    apply hne
    show (toI32 c2).toNat = 0
    rw [h0]; rfl
  exact toNat_mul_of_pos (by omega) (by omega) (a10 hne')

/-! ### the sequence layout -/

def Topo.Valid (t : Topo) (nSseq sseqSize : Nat) : Prop :=
  match t with
  | .homo e => e ≠ 0 ∧ sseqSize = nSseq * e
  | .hetero lens => lens.length = nSseq ∧ sumN lens = sseqSize

theorem sumN_take_add_le : ∀ (l : List Nat) (a : Nat), a < l.length → sumN (l.take a) + l.getD a 0 ≤ sumN l
  | [], a, h => by simp at h
  | x :: r, 0, _ => by simp [sumN]
  | x :: r, a + 1, h => by
    have := sumN_take_add_le r a (by simpa using h)
    simp only [List.take_succ_cons, sumN, List.getD_cons_succ]
    omega

/-- every sequence lies inside the `sseq_size` cells of the sequence area -/
theorem Topo.inside {t : Topo} {nSseq sseqSize : Nat} (hv : t.Valid nSseq sseqSize) {a : Nat} (ha : a < nSseq) :
    t.start a + t.len a ≤ sseqSize := by
  cases t with
  | homo e =>
    obtain ⟨_, hs⟩ := hv
    show a * e + e ≤ sseqSize
    rw [hs, ← Nat.succ_mul]
    exact Nat.mul_le_mul_right _ ha
  | hetero lens =>
    obtain ⟨hl, hs⟩ := hv
    show sumN (lens.take a) + lens.getD a 0 ≤ sseqSize
    rw [← hs]
    exact sumN_take_add_le lens a (by omega)

/-- what `mdefLayout` has established -/
def MdefLayout.Ok (f : File) (h : MdefHdr) (l : MdefLayout) : Prop :=
  l.names.length = h.nCiphone ∧ (∀ x ∈ l.names, NameOk f x) ∧
  l.phoneOff + 12 * h.nPhone ≤ f.size ∧ l.sseqOff + 2 * l.sseqSize ≤ f.size ∧
  l.topo.Valid h.nSseq l.sseqSize ∧
  (∀ lens, l.topo = .hetero lens → l.sseqOff + 2 * l.sseqSize + h.nSseq ≤ f.size)

theorem mdefTopo_sat (f : File) (h : MdefHdr) (names : List Nat) (treeOff phoneOff sseqOff sseqSize : Nat)
    (hn1 : names.length = h.nCiphone) (hn2 : ∀ x ∈ names, NameOk f x)
    (hphone : phoneOff + 12 * h.nPhone ≤ f.size) (hseq : sseqOff + 2 * sseqSize ≤ f.size) :
    (mdefTopo f h names treeOff phoneOff sseqOff sseqSize).Sat fun l => MdefLayout.Ok f h l ∧
      l.treeOff = treeOff ∧ l.phoneOff = phoneOff ∧ l.sseqOff = sseqOff := by
  unfold mdefTopo
  by_cases he : h.nEmit ≠ 0
  · rw [if_pos he]
    by_cases hs : sseqSize ≠ h.nSseq * h.nEmit
    · rw [if_pos hs]; trivial
    · rw [if_neg hs]
      refine ⟨⟨hn1, hn2, hphone, hseq, ⟨he, Classical.byContradiction fun hx => hs hx⟩, ?_⟩, rfl, rfl, rfl⟩
      intro lens hl
      cases hl
  · rw [if_neg he]
    by_cases ht : h.nSseq > f.size - (sseqOff + 2 * sseqSize)
    · rw [if_pos ht]; trivial
    · rw [if_neg ht]
      refine Sat.bind (rdN_sat (by omega)) ?_
      intro raw hraw
      by_cases hsum : sumN (raw.map UInt8.toNat) ≠ sseqSize
      · rw [if_pos hsum]; trivial
      · rw [if_neg hsum]
        refine ⟨⟨hn1, hn2, hphone, hseq, ⟨by simp [hraw], Classical.byContradiction fun hx => hsum hx⟩, ?_⟩, rfl, rfl, rfl⟩
        intro lens _
        show sseqOff + 2 * sseqSize + h.nSseq ≤ f.size
        omega

theorem mdefSseq_sat (f : File) (h : MdefHdr) (names : List Nat) (treeOff phoneOff : Nat)
    (hn1 : names.length = h.nCiphone) (hn2 : ∀ x ∈ names, NameOk f x)
    (hphone : phoneOff + 12 * h.nPhone ≤ f.size) :
    (mdefSseq f h names treeOff phoneOff (phoneOff + 12 * h.nPhone)).Sat fun l => MdefLayout.Ok f h l ∧
      l.treeOff = treeOff ∧ l.phoneOff = phoneOff ∧ l.sseqOff = phoneOff + 12 * h.nPhone + 4 := by
  unfold mdefSseq
  by_cases h4 : f.size - (phoneOff + 12 * h.nPhone) < 4
  · rw [if_pos h4]; trivial
  rw [if_neg h4]
  refine Sat.bind (rd32_sat _ (by omega)) ?_
  intro ssz _
  by_cases hb : toI32 ssz < 0 ∨ (toI32 ssz).toNat > (f.size - (phoneOff + 12 * h.nPhone + 4)) / 2
  · rw [if_pos hb]; trivial
  rw [if_neg hb]
  have hdiv := Nat.mul_div_le (f.size - (phoneOff + 12 * h.nPhone + 4)) 2
  have hseq : phoneOff + 12 * h.nPhone + 4 + 2 * (toI32 ssz).toNat ≤ f.size := by omega
  rw [if_neg (by intro hx; exact absurd hx.2 (by omega))]
  exact mdefTopo_sat f h names treeOff phoneOff _ _ hn1 hn2 hphone hseq

theorem mdefPhones_sat (f : File) (h : MdefHdr) (names : List Nat) (treeOff phoneOff : Nat)
    (hn1 : names.length = h.nCiphone) (hn2 : ∀ x ∈ names, NameOk f x) (hp : phoneOff ≤ f.size) :
    (mdefPhones f h names treeOff phoneOff).Sat fun l => MdefLayout.Ok f h l ∧
      l.treeOff = treeOff ∧ l.phoneOff = phoneOff ∧ l.sseqOff = phoneOff + 12 * h.nPhone + 4 := by
  unfold mdefPhones
  by_cases hb : h.nPhone > (f.size - phoneOff) / 12
  · rw [if_pos hb]; trivial
  rw [if_neg hb]
  have hdiv := Nat.mul_div_le (f.size - phoneOff) 12
  have hphone : phoneOff + 12 * h.nPhone ≤ f.size := by omega
  rw [if_neg (by intro hx; exact absurd hx.2 (by omega))]
  exact mdefSseq_sat f h names treeOff phoneOff hn1 hn2 hphone

theorem mdefTree_sat (f : File) (h : MdefHdr) (names : List Nat) (treeRel : Nat)
    (hn1 : names.length = h.nCiphone) (hn2 : ∀ x ∈ names, NameOk f x) (hd : h.dataOff ≤ f.size) :
    (mdefTree f h names treeRel).Sat fun l => MdefLayout.Ok f h l ∧ l.treeOff = h.dataOff + treeRel ∧
      l.phoneOff = h.dataOff + treeRel + 8 * h.nCdTree ∧
      l.sseqOff = h.dataOff + treeRel + 8 * h.nCdTree + 12 * h.nPhone + 4 := by
  unfold mdefTree
  by_cases hb : treeRel > f.size - h.dataOff ∨ h.nCdTree > (f.size - h.dataOff - treeRel) / 8
  · rw [if_pos hb]; trivial
  rw [if_neg hb]
  have hdiv := Nat.mul_div_le (f.size - h.dataOff - treeRel) 8
  have hp : h.dataOff + treeRel + 8 * h.nCdTree ≤ f.size := by omega
  rw [if_neg (by intro hx; exact absurd hx.2 (by omega))]
  exact mdefPhones_sat f h names _ _ hn1 hn2 hp

/-- the table pointers keep the alignment of `ciname[0]`: with D19j (`dataOff % 4 = 0`) every
`cd_tree_t`/`int32` table starts at a multiple of 4 and the `uint16` sequences at a multiple of 2 -/
def MdefLayout.Aligned (l : MdefLayout) : Prop :=
  l.treeOff % 4 = 0 ∧ l.phoneOff % 4 = 0 ∧ l.sseqOff % 4 = 0

theorem mdefLayout_sat' (f : File) (h : MdefHdr) (hh : h.Ok f) :
    (mdefLayout f h).Sat fun l => MdefLayout.Ok f h l ∧ (h.dataOff % 4 = 0 → l.Aligned) := by
  unfold mdefLayout
  refine Sat.bind (walkNames_sat f f.size h.nCiphone (Nat.le_refl _) h.nCiphone h.dataOff [] (by simp) (by simp)) ?_
  intro r ⟨hn1, hn2⟩
  refine Sat.mono (mdefTree_sat f h r.1 _ hn1 hn2 hh.1) ?_
  intro l ⟨hok, e1, e2, e3⟩
  refine ⟨hok, fun hd => ?_⟩
  unfold MdefLayout.Aligned
  rw [e1, e2, e3]
  omega

theorem mdefLayout_sat (f : File) (h : MdefHdr) (hh : h.Ok f) : (mdefLayout f h).Sat (MdefLayout.Ok f h) :=
  Sat.mono (mdefLayout_sat' f h hh) fun _ hl => hl.1

/-- D19j: `ciname[0]` is at a multiple of 4 from the start of the file -/
theorem mdefHeader_aligned (f : File) : (mdefHeader f).Sat fun h => h.dataOff % 4 = 0 := by
  unfold mdefHeader
  refine Sat.bind (get32_sat _ (good_init f)) ?_
  rintro ⟨s0, magic⟩ ⟨g0, p0, _⟩
  simp only at p0 ⊢
  split
  · trivial
  refine Sat.bind (get32_sat (s := { s0 with swap := decide (magic = mdefOther) }) _ ⟨g0.1, g0.2⟩) ?_
  rintro ⟨s1, ver⟩ ⟨g1, p1, _⟩
  simp only at p1 ⊢
  split
  · trivial
  refine Sat.bind (get32_sat _ g1) ?_
  rintro ⟨s2, dl⟩ ⟨g2, p2, _⟩
  simp only at p2 ⊢
  split
  · trivial
  rename_i hdl
  refine Sat.bind (skip_sat _ _ g2) ?_
  intro s3 ⟨g3, p3, _⟩
  refine Sat.bind (get32_sat _ g3) ?_
  rintro ⟨t0, c0⟩ ⟨k0, q0, _⟩
  refine Sat.bind (get32_sat _ k0) ?_
  rintro ⟨t1, c1⟩ ⟨k1, q1, _⟩
  refine Sat.bind (get32_sat _ k1) ?_
  rintro ⟨t2, c2⟩ ⟨k2, q2, _⟩
  refine Sat.bind (get32_sat _ k2) ?_
  rintro ⟨t3, c3⟩ ⟨k3, q3, _⟩
  refine Sat.bind (get32_sat _ k3) ?_
  rintro ⟨t4, c4⟩ ⟨k4, q4, _⟩
  refine Sat.bind (get32_sat _ k4) ?_
  rintro ⟨t5, c5⟩ ⟨k5, q5, _⟩
  refine Sat.bind (get32_sat _ k5) ?_
  rintro ⟨t6, c6⟩ ⟨k6, q6, _⟩
  refine Sat.bind (get32_sat _ k6) ?_
  rintro ⟨t7, c7⟩ ⟨k7, q7, _⟩
  refine Sat.bind (get32_sat _ k7) ?_
  rintro ⟨t8, c8⟩ ⟨k8, q8, _⟩
  refine Sat.bind (get32_sat _ k8) ?_
  rintro ⟨t9, c9⟩ ⟨k9, q9, _⟩
  simp only at q0 q1 q2 q3 q4 q5 q6 q7 q8 q9 ⊢
  split
  · trivial
  show t9.ptr % 4 = 0
  have hs : (S.init f).ptr = 0 := rfl
  have hdl' : (toI32 dl).toNat % 4 = 0 := Classical.byContradiction fun hx => hdl (Or.inr hx)
  omega

/-! ### the mapping loops -/

theorem store_sat {arr : Array Nat} {i v : Nat} (h : i < arr.size) :
    (store arr i v).Sat fun a => a.size = arr.size := by
  unfold store; rw [if_pos h]; simp [Res.Sat]

theorem load_sat {arr : Array Nat} {i : Nat} (h : i < arr.size) : (load arr i).Sat fun _ => True := by
  unfold load; rw [if_pos h]; trivial

/-- the `ssid` word of phone record `k` names an existing sequence -/
def PhoneOk (f : File) (h : MdefHdr) (l : MdefLayout) (k : Nat) : Prop :=
  0 ≤ toI32 (valAt f (l.phoneOff + 12 * k) 4 h.swap) ∧ (toI32 (valAt f (l.phoneOff + 12 * k) 4 h.swap)).toNat < h.nSseq

theorem ciLen_sat {t : Topo} {nSseq sseqSize w : Nat} (hv : t.Valid nSseq sseqSize)
    (h0 : 0 ≤ toI32 w) (h1 : (toI32 w).toNat < nSseq) :
    (ciLen t w).Sat fun n => n = t.len (toI32 w).toNat := by
  unfold ciLen
  cases t with
  | homo e => exact rfl
  | hetero lens =>
    simp only
    have : lens.length = nSseq := hv.1
    rw [if_pos ⟨h0, by omega⟩]
    exact rfl

theorem mapStates_sat (f : File) (h : MdefHdr) (l : MdefLayout) (hh : h.Ok f) (hl : l.Ok f h)
    (ssid ci : Nat) (hs : ssid < h.nSseq) (hci : ci < h.nCiphone) (hpk : PhoneOk f h l ci) :
    ∀ fuel j c2c s2c, c2c.size = h.nSen → s2c.size = h.nSen →
      (mapStates f h l ssid ci fuel j c2c s2c).Sat fun r => r.1.size = h.nSen ∧ r.2.size = h.nSen
  | 0, _, _, _, h1, h2 => ⟨h1, h2⟩
  | fuel + 1, j, c2c, s2c, h1, h2 => by
    obtain ⟨_, _, _, hcp, _, _, _, _, _, _, _, _⟩ := hh
    obtain ⟨_, _, hphone, hseq, htopo, hlen⟩ := hl
    unfold mapStates
    by_cases hj : j ≥ l.topo.len ssid
    · rw [if_pos hj]; exact ⟨h1, h2⟩
    rw [if_neg hj]
    have hin := Topo.inside htopo hs
    refine Sat.bind (rd16_sat _ (by omega)) ?_
    intro s _
    by_cases hsn : s ≥ h.nSen
    · rw [if_pos hsn]; trivial
    rw [if_neg hsn]
    refine Sat.bind (load_sat (by omega)) ?_
    intro cur _
    have hs2 : (s2cUpdate s2c cur s ci).Sat fun a => a.size = h.nSen := by
      unfold s2cUpdate
      by_cases hc : cur = 65535
      · rw [if_pos hc]; exact Sat.mono (store_sat (by omega)) fun a ha => by omega
      · rw [if_neg hc]; exact h2
    refine Sat.bind hs2 ?_
    intro s2c' h2'
    refine Sat.bind (rd32_sat _ (by omega)) ?_
    intro cissid hcv
    subst hcv
    obtain ⟨p0, p1⟩ := hpk
    refine Sat.bind (ciLen_sat htopo p0 p1) ?_
    intro cilen hcl
    have hin2 := Topo.inside htopo p1
    have hc2 : (cd2ciStore f h l s j (valAt f (l.phoneOff + 12 * ci) 4 h.swap) cilen c2c).Sat fun a => a.size = h.nSen := by
      unfold cd2ciStore
      by_cases hjc : j > cilen
      · rw [if_pos hjc]; exact h1
      rw [if_neg hjc]
      have hread : l.sseqOff + 2 * (l.topo.start (toI32 (valAt f (l.phoneOff + 12 * ci) 4 h.swap)).toNat + j) + 2 ≤ f.size := by
        cases htp : l.topo with
        | homo e =>
          rw [htp] at hin2 hj hcl
          simp only [Topo.len] at hin2 hj hcl
          simp only [Topo.start]
          simp only [Topo.start] at hin2
          omega
        | hetero lens =>
          have hle := hlen lens htp
          rw [htp] at hin2 hj hcl hin
          by_cases h2s : 2 ≤ h.nSseq
          · omega
          · have e1 : ssid = 0 := by omega
            have e2 : (toI32 (valAt f (l.phoneOff + 12 * ci) 4 h.swap)).toNat = 0 := by omega
            rw [e2] at hin2 hcl ⊢
            rw [e1] at hj
            omega
      refine Sat.bind (rd16_sat _ hread) ?_
      intro v _
      exact Sat.mono (store_sat (by omega)) fun a ha => by omega
    refine Sat.bind hc2 ?_
    intro c2c' h1'
    exact mapStates_sat f h l ⟨by assumption, by assumption, by assumption, hcp, by assumption, by assumption,
      by assumption, by assumption, by assumption, by assumption, by assumption, by assumption⟩
      ⟨by assumption, by assumption, hphone, hseq, htopo, hlen⟩ ssid ci hs hci ⟨p0, p1⟩ fuel (j + 1) c2c' s2c' h1' h2'

theorem mapPhones_sat (f : File) (h : MdefHdr) (l : MdefLayout) (hh : h.Ok f) (hl : l.Ok f h) :
    ∀ fuel i c2c s2c, c2c.size = h.nSen → s2c.size = h.nSen → (∀ k, k < i → PhoneOk f h l k) →
      (mapPhones f h l fuel i c2c s2c).Sat fun r => r.1.size = h.nSen ∧ r.2.size = h.nSen
  | 0, _, _, _, h1, h2, _ => ⟨h1, h2⟩
  | fuel + 1, i, c2c, s2c, h1, h2, hinv => by
    have hcp : h.nCiphone ≤ h.nPhone := hh.2.2.2.1
    have hphone : l.phoneOff + 12 * h.nPhone ≤ f.size := hl.2.2.1
    unfold mapPhones
    by_cases hi : i ≥ h.nPhone
    · rw [if_pos hi]; exact ⟨h1, h2⟩
    rw [if_neg hi]
    simp only
    refine Sat.bind (rd32_sat _ (by omega)) ?_
    intro ssidW hsv
    refine Sat.bind (rd32_sat _ (by omega)) ?_
    intro tmatW _
    refine Sat.bind (rd_val (by omega)) ?_
    intro c0 _
    refine Sat.bind (rd_val (by omega)) ?_
    intro c1 _
    refine Sat.bind (rd_val (by omega)) ?_
    intro c2 _
    split
    · trivial
    rename_i hc
    simp only [not_or, not_and, Int.not_le, Int.not_lt, Nat.not_le] at hc
    obtain ⟨a1, a2, _, _, a5⟩ := hc
    have hok : PhoneOk f h l i := by
      subst hsv
      exact ⟨by omega, by omega⟩
    have hinv' : ∀ k, k < i + 1 → PhoneOk f h l k := by
      intro k hk
      by_cases hki : k < i
      · exact hinv k hki
      · have : k = i := by omega
        subst this; exact hok
    have hcilt : (if i < h.nCiphone then i else c0.toNat) < h.nCiphone := by
      by_cases hlt : i < h.nCiphone
      · rw [if_pos hlt]; exact hlt
      · rw [if_neg hlt]
        exact (a5 (by omega)).1
    have hcile : (if i < h.nCiphone then i else c0.toNat) < i + 1 := by
      by_cases hlt : i < h.nCiphone
      · rw [if_pos hlt]; omega
      · rw [if_neg hlt]; rw [if_neg hlt] at hcilt; omega
    refine Sat.bind (mapStates_sat f h l hh hl (toI32 ssidW).toNat _ (by omega) hcilt (hinv' _ hcile) _ 0 c2c s2c h1 h2) ?_
    intro r ⟨r1, r2⟩
    exact mapPhones_sat f h l hh hl fuel (i + 1) r.1 r.2 r1 r2 hinv'

/-! ### the silence phone -/

theorem strcmpLit_sat (f : File) (off : Nat) (hn : NameOk f off) :
    ∀ (cs : List UInt8) (i : Nat), (∀ c ∈ cs, c ≠ 0) → (∀ k, k < i → f.byte (off + k) ≠ 0) →
      (strcmpLit f off cs i).Sat fun _ => True := by
  obtain ⟨z, hz1, hz2, hz3⟩ := hn
  have hbound : ∀ i, (∀ k, k < i → f.byte (off + k) ≠ 0) → off + i < f.size := by
    intro i hi
    by_cases hlt : off + i ≤ z
    · omega
    · exfalso
      have := hi (z - off) (by omega)
      rw [show off + (z - off) = z by omega] at this
      exact this hz3
  intro cs
  induction cs with
  | nil =>
    intro i _ hi
    unfold strcmpLit
    exact Sat.bind (rd_sat (hbound i hi)) fun _ _ => trivial
  | cons c cs ih =>
    intro i hc hi
    unfold strcmpLit
    refine Sat.bind (rd_val (hbound i hi)) ?_
    intro b hb
    by_cases hcb : c = b
    · rw [if_pos hcb]
      refine ih (i + 1) (fun c' hc' => hc c' (List.mem_cons_of_mem _ hc')) ?_
      intro k hk
      by_cases hki : k < i
      · exact hi k hki
      · have : k = i := by omega
        subst this
        rw [← hb, ← hcb]
        exact hc c (List.mem_cons_self ..)
    · rw [if_neg hcb]; trivial

theorem findCiphone_sat (f : File) (names : List Nat) (hn : ∀ x ∈ names, NameOk f x) (name : List UInt8)
    (hname : ∀ c ∈ name, c ≠ 0) :
    ∀ fuel low high, high ≤ names.length → (findCiphone f names name fuel low high).Sat fun _ => True
  | 0, _, _, _ => trivial
  | fuel + 1, low, high, hh => by
    unfold findCiphone
    by_cases hlh : low ≥ high
    · rw [if_pos hlh]; trivial
    rw [if_neg hlh]
    simp only
    have hm : ¬ (low + high) / 2 ≥ names.length := by omega
    rw [if_neg hm]
    have hmem : names.getD ((low + high) / 2) 0 ∈ names := by
      rw [List.getD_eq_getElem?_getD, List.getElem?_eq_getElem (by omega)]
      exact List.getElem_mem ..
    refine Sat.bind (strcmpLit_sat f _ (hn _ hmem) name 0 hname (by intro k hk; omega)) ?_
    intro o _
    cases o with
    | eq => trivial
    | gt => exact findCiphone_sat f names hn name hname fuel _ _ hh
    | lt => exact findCiphone_sat f names hn name hname fuel _ _ (by omega)

/-- what a completed `mdefPlan` has established -/
def MdefOut.Consistent (f : File) (o : MdefOut) : Prop :=
  o.hdr.Ok f ∧ o.lay.Ok f o.hdr ∧ o.cd2cisen.size = o.hdr.nSen ∧ o.sen2cimap.size = o.hdr.nSen

theorem mdefPlan_sat (f : File) : (mdefPlan f).Sat (MdefOut.Consistent f) := by
  unfold mdefPlan
  refine Sat.bind (mdefHeader_sat f) ?_
  intro h hh
  refine Sat.bind (mdefLayout_sat f h hh) ?_
  intro l hl
  simp only
  refine Sat.bind (mapPhones_sat f h l hh hl h.nPhone 0 _ _ (by simp) (by simp) (by intro k hk; omega)) ?_
  intro m ⟨m1, m2⟩
  refine Sat.bind (findCiphone_sat f l.names hl.2.1 litSIL (by decide) _ 0 h.nCiphone (by rw [hl.1]; exact Nat.le_refl _)) ?_
  intro sil _
  exact ⟨hh, hl, m1, m2⟩

/-- D19j: in every accepted file the in-place tables are aligned relative to the start of the file -/
theorem Sat.and {α : Type} {x : Res α} {P Q : α → Prop} (h1 : x.Sat P) (h2 : x.Sat Q) : x.Sat fun a => P a ∧ Q a := by
  cases x with
  | ok a => exact ⟨h1, h2⟩
  | reject s => trivial
  | oob i => exact h1
  | idx i n => exact h1

theorem mdefPlan_aligned (f : File) : (mdefPlan f).Sat fun o => o.hdr.dataOff % 4 = 0 ∧ o.lay.Aligned := by
  unfold mdefPlan
  refine Sat.bind (Sat.and (mdefHeader_sat f) (mdefHeader_aligned f)) ?_
  intro h ⟨hsat, hal⟩
  refine Sat.bind (mdefLayout_sat' f h hsat) ?_
  intro l ⟨hl, hal2⟩
  simp only
  refine Sat.bind (mapPhones_sat f h l hsat hl h.nPhone 0 _ _ (by simp) (by simp) (by intro k hk; omega)) ?_
  intro m _
  refine Sat.bind (findCiphone_sat f l.names hl.2.1 litSIL (by decide) _ 0 h.nCiphone (by rw [hl.1]; exact Nat.le_refl _)) ?_
  intro sil _
  exact ⟨hal, hal2 hal⟩

end SSVerif.S3file
