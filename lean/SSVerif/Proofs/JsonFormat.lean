import SSVerif.Proofs.JsonMem
set_option linter.unusedSimpArgs false
/-! C14 helper lemmas: each formatting function, in the dry run and in the writing run, produces exactly the
compact print of the corresponding tree -/
namespace SSVerif.Json

/-- the generated `HYP_FORMAT` is the format the model's tree assumes (re-checked against the source on every run) -/
theorem hypPieces_eq : hypPieces =
    [.lit 123, .lit 34, .lit 98, .lit 34, .lit 58, .f3, .lit 44, .lit 34, .lit 100, .lit 34, .lit 58, .f3,
     .lit 44, .lit 34, .lit 112, .lit 34, .lit 58, .f3, .lit 44, .lit 34, .lit 116, .lit 34, .lit 58, .lit 34, .s,
     .lit 34] := by decide

theorem jsonEscape_eq (w : Bytes) : jsonEscape w = w.flatMap escByte := by
  induction w with
  | nil => rfl
  | cons c t ih => simp [jsonEscape, ih]

theorem count_eq_length (fmt : Fmt) (ps : List Piece) (ns : List Num) (ss : List Bytes) :
    count fmt ps ns ss = (render fmt ps ns ss).length := by
  induction ps generalizing ns ss with
  | nil => simp [count, render]
  | cons p ps ih =>
    cases p with
    | lit c => simp [count, render, ih]; omega
    | f3 =>
      cases ns with
      | nil => simp [count, render, ih]
      | cons n ns => simp [count, render, ih, fmt.numLen_eq]
    | s =>
      cases ss with
      | nil => simp [count, render, ih]
      | cons s ss => simp [count, render, ih]

/-- `{"b":…,"d":…,"p":…,"t":"…"` — an object's text without the closing brace -/
def entryText (fmt : Fmt) (st dur prob : Num) (text : Option Bytes) : Bytes :=
  123 :: printM (entryFields fmt st dur prob text)

theorem render_hyp (fmt : Fmt) (st dur prob : Num) (text : Option Bytes) :
    render fmt hypPieces [st, dur, prob] [jsonEscape (text.getD [])] = entryText fmt st dur prob text := by
  rw [hypPieces_eq, jsonEscape_eq]
  have e1 : escByte 98 = [98] := by decide
  have e2 : escByte 100 = [100] := by decide
  have e3 : escByte 112 = [112] := by decide
  have e4 : escByte 116 = [116] := by decide
  simp [render, entryText, entryFields, printM, printV, printStr, e1, e2, e3, e4]

theorem formatEntry_dry (fmt : Fmt) (m : Mem) (st dur prob : Num) (text : Option Bytes) :
    formatEntry fmt m none 0 st dur prob text = (((entryText fmt st dur prob text).length : Int), m) := by
  simp only [formatEntry, snprintf_dry, count_eq_length, render_hyp]

theorem formatEntry_write (fmt : Fmt) {m : Mem} {pre : Bytes} {k : Nat} {p n : Int} (st dur prob : Num) (text : Option Bytes)
    (h : At m pre k) (hp : p = pre.length) (hn : ((entryText fmt st dur prob text).length : Int) < n)
    (hk : (entryText fmt st dur prob text).length < k) :
    (formatEntry fmt m (some p) n st dur prob text).1 = ((entryText fmt st dur prob text).length : Int) ∧
    At (formatEntry fmt m (some p) n st dur prob text).2 (pre ++ entryText fmt st dur prob text)
      (k - (entryText fmt st dur prob text).length) := by
  simp only [formatEntry, count_eq_length, render_hyp]
  exact snprintf_write _ _ h hp hn hk

theorem printV_obj_entry (fmt : Fmt) (st dur prob : Num) (text : Option Bytes) :
    printV (.obj (entryFields fmt st dur prob text)) = entryText fmt st dur prob text ++ [125] := by
  simp [printV, entryText]

/-! ### `format_seg` -/

theorem formatSeg_dry (fmt : Fmt) (m : Mem) (s : Seg) (frate : Int) :
    formatSeg fmt m none 0 s frate = (((printV (segTree fmt frate s)).length : Int), m) := by
  simp [formatSeg, formatEntry_dry, segTree, printV_obj_entry]

theorem formatSeg_write (fmt : Fmt) {m : Mem} {pre : Bytes} {k : Nat} {p n : Int} (s : Seg) (frate : Int)
    (h : At m pre k) (hp : p = pre.length) (hn : ((printV (segTree fmt frate s)).length : Int) ≤ n)
    (hk : (printV (segTree fmt frate s)).length < k) :
    (formatSeg fmt m (some p) n s frate).1 = ((printV (segTree fmt frate s)).length : Int) ∧
    At (formatSeg fmt m (some p) n s frate).2 (pre ++ printV (segTree fmt frate s))
      (k - (printV (segTree fmt frate s)).length) := by
  simp only [segTree, printV_obj_entry, List.length_append, List.length_cons, List.length_nil] at hn hk ⊢
  generalize hT : entryText fmt (.time s.sf frate) (.ratio (s.ef + 1 - s.sf) frate) (.prob s.prob) s.word = T at *
  have he := formatEntry_write fmt (n := n) (.time s.sf frate) (.ratio (s.ef + 1 - s.sf) frate) (.prob s.prob) s.word h hp
    (by rw [hT]; omega) (by rw [hT]; omega)
  rw [hT] at he
  obtain ⟨h1, h2⟩ := he
  simp only [formatSeg]
  generalize formatEntry fmt m (some p) n (.time s.sf frate) (.ratio (s.ef + 1 - s.sf) frate) (.prob s.prob) s.word = res at *
  obtain ⟨len, m'⟩ := res
  simp only at h1 h2 ⊢
  subst h1
  have h3 := store_spec 125 h2 (p := p + T.length) (by simp [hp]) (by omega)
  have h4 := store_nul h3 (p := p + T.length + 1) (by simp [hp]; omega) (by omega)
  rw [h4]
  constructor
  · omega
  · have : k - T.length - 1 = k - (T.length + 0 + 1) := by omega
    rw [← List.append_assoc, ← this]
    exact h3

end SSVerif.Json
