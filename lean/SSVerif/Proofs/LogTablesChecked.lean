import SSVerif.Model.LogConfigs
import SSVerif.Proofs.LogTable
/-!
# Kernel-checked obligations of the generated log-add tables (C19)

For every generated configuration: the shape check and the fixed-point accuracy check evaluate
to `true` in the kernel (`decide +kernel`; re-run by `lake build` whenever the dumped table
changes), and the verified checkers lift that to `TableOK` and to the exact accuracy statement
`AccAt` at every distance.
-/
namespace SSVerif.LogAdd

/-- last run value (`0` for an empty list) -/
def lastVal : List (Nat × Nat) → Nat
  | [] => 0
  | [(v, _)] => v
  | _ :: r :: rest => lastVal (r :: rest)

/-- accuracy parameters of a configuration: effective base `B = (num/den)^(2^shift)` (a table
built with shift `s` is indexed and valued in units of `2^s`), tolerance `δ = 2^-20`,
fixed-point scale `2^128` in the check -/
def Config.acc (c : Config) : AccParams :=
  { P := c.effNum, Q := c.effDen, D := 1048576, E := 340282366920938463463374607431768211456 }

/-- everything that is decided by computation for one configuration -/
def Config.checks (c : Config) : Bool :=
  runsOK c.runs && decide (runsLen c.runs = c.size) && decide (c.size ≤ 2147483648) &&
  decide (lastVal c.runs = 0) && decide (c.zero = zeroOf c.shift) &&
  decide (c.width = widthOf (headVal c.runs)) &&
  decide (0 < c.baseDen) && decide (c.baseDen < c.baseNum) &&
  decide (c.effNum = c.baseNum ^ 2 ^ c.shift) && decide (c.effDen = c.baseDen ^ 2 ^ c.shift) &&
  c.acc.checkRuns c.runs

structure Config.Checked (c : Config) : Prop where
  ok : TableOK c.lm.table
  size_eq : c.lm.table.size = c.size
  last_zero : lastVal c.runs = 0
  zero_eq : c.lm.zero = zeroOf c.lm.shift
  width_eq : c.width = widthOf (tval c.lm.table 0)
  den_pos : 0 < c.baseDen
  base_gt : c.baseDen < c.baseNum
  good : c.acc.Good
  acc : ∀ d, AccAt (c.baseNum ^ 2 ^ c.shift) (c.baseDen ^ 2 ^ c.shift) (2 ^ 20) d (tval c.lm.table d)

theorem Config.checked_of_checks {c : Config} (h : c.checks = true) : c.Checked := by
  simp only [Config.checks, Bool.and_eq_true, decide_eq_true_eq] at h
  obtain ⟨⟨⟨⟨⟨⟨⟨⟨⟨⟨h1, h2⟩, h3⟩, h4⟩, h5⟩, h6⟩, h7⟩, h8⟩, hP⟩, hQ⟩, h9⟩ := h
  have g : c.acc.Good := by
    refine ⟨?_, ?_, (by decide : 0 < 340282366920938463463374607431768211456)⟩
    · show 0 < c.effDen
      rw [hQ]; exact Nat.pow_pos h7
    · show c.effDen ≤ c.effNum
      rw [hP, hQ]; exact Nat.pow_le_pow_left (Nat.le_of_lt h8) _
  refine ⟨tableOK_of_runs h1 (by omega), ?_, h4, h5, ?_, h7, h8, g, ?_⟩
  · show (tableOfRuns c.runs).size = c.size
    rw [size_tableOfRuns, h2]
  · show c.width = widthOf (tval (tableOfRuns c.runs) 0)
    rw [tval_tableOfRuns, head_expand h1]; exact h6
  · intro d
    show AccAt _ _ _ d (tval (tableOfRuns c.runs) d)
    rw [tval_tableOfRuns]
    have := AccParams.checkRuns_sound g h9 d
    rw [← hP, ← hQ]
    exact this

set_option maxRecDepth 100000 in
theorem checks_dec : cfgDec.checks = true := by decide +kernel
set_option maxRecDepth 100000 in
theorem checks_s8b : cfgS8b.checks = true := by decide +kernel
set_option maxRecDepth 100000 in
theorem checks_tst : cfgTst.checks = true := by decide +kernel
set_option maxRecDepth 100000 in
theorem checks_w1 : cfgW1.checks = true := by decide +kernel
set_option maxRecDepth 100000 in
theorem checks_wb : cfgWb.checks = true := by decide +kernel

theorem checked_dec : cfgDec.Checked := Config.checked_of_checks checks_dec
theorem checked_s8b : cfgS8b.Checked := Config.checked_of_checks checks_s8b
theorem checked_tst : cfgTst.Checked := Config.checked_of_checks checks_tst
theorem checked_w1 : cfgW1.Checked := Config.checked_of_checks checks_w1
theorem checked_wb : cfgWb.Checked := Config.checked_of_checks checks_wb

end SSVerif.LogAdd
