import SSVerif.Proofs.SearchScoreRun
/-! Soundness of the token-passing search WITH beams (`searchFrameBeam`): whatever the beams are, every finite HMM state
score is the score of a path of the lextree network, every history entry is the score of a path that leaves a word
into the entry's state, and what `find_exit` reports for frame `f ≥ 0` is the score of a complete alignment of the frames
`0..f`, hence at most the optimum over them. Core Lean only. -/
namespace SSVerif.SearchScore
open SSVerif.Viterbi SSVerif.Hmm SSVerif.Search SSVerif.Hist
open SSVerif.FlatNet (hmmEdges hmmExits st shiftS)

/-- `w` is the score with which some path leaves pnode `q` after frame `t` -/
def OutPath (E : Env) (e : Nat → Nat → Nat → Int) (t q : Nat) (w : Int) : Prop :=
  ∃ k cx u, (k, cx) ∈ hmmExits (E.tp q) ∧ PathTo (treeNet E) (treeEm E e) t (st q k) u ∧
    w = u + treeEm E e t (st q k) + cx

/-- the entry is the score of a path that leaves a leaf after the entry's frame and reaches the entry's state over at most
one null arc, with the leaf's contexts -/
def TokPath (E : Env) (e : Nat → Nat → Nat → Int) (tk : Tok) : Prop :=
  ∃ q, q < E.n ∧ (E.node q).leaf = true ∧ ∃ w d hop, OutPath E e tk.frame.toNat q w ∧ (d, hop) ∈ reach E.g (dstOf E q) ∧
    tk.dst = d ∧ tk.score = w + hop ∧ tk.lc = (E.node q).ciExt ∧ (∀ r ∈ tk.rc, r ∈ rcOf E q)

structure BInv (E : Env) (e : Nat → Nat → Nat → Int) (t : Nat) (sb : SSB) : Prop where
  hs : ∀ p, p < E.n → ∀ k, k < 3 → ∀ v, comp (hget sb.s.hmm p) k = some v → PathTo (treeNet E) (treeEm E e) t (st p k) v
  frame : sb.s.frame = (t : Int)
  toks : ∀ tk ∈ sb.s.table, tk.frame < (t : Int) ∧ (0 ≤ tk.frame → TokPath E e tk)

theorem isMax_self (x : Option Int) : IsMax (fun v => x = some v) x :=
  ⟨fun _ h => h, fun v h => by rw [h]; exact ole_refl _⟩

theorem hmmEdges_source {tp : List Nat} {q i j : Nat} {c : Int} (h : (i, j, c) ∈ hmmEdges tp q) : i / 3 = q ∧ i % 3 < 3 := by
  rw [hmmEdges_shift] at h
  obtain ⟨x, hx, heq⟩ := List.mem_map.mp h
  have := (hmmEdges0_lt tp x hx).1
  simp only [Prod.mk.injEq] at heq
  omega

theorem hget_mapRange (n : Nat) (f : Nat → ISt) (p : Nat) (hp : p < n) :
    hget (((List.range n).map f).toArray) p = f p := by
  simp [hget, hp]

theorem foldl_enter_size' (l : List (Nat × Int)) : ∀ a : Array ISt, (l.foldl enter a).size = a.size := by
  induction l with
  | nil => intro a; rfl
  | cons x xs ih => intro a; rw [List.foldl_cons, ih, enter_size]

section step
variable (E : Env) (e : Nat → Nat → Nat → Int) (beam pbeam wbeam : Int) (t : Nat) (sb : SSB)

/-- the pruned vector as a function on network states -/
def wvec : Nat → Option Int := fun i => comp (hget sb.s.hmm (i / 3)) (i % 3)

theorem wvec_st (p i : Nat) (hi : i < 3) : wvec sb (3 * p + i) = comp (hget sb.s.hmm p) i := by
  unfold wvec
  have h1 : (3 * p + i) / 3 = p := by omega
  have h2 : (3 * p + i) % 3 = i := by omega
  rw [h1, h2]

theorem out_path (hI : BInv E e t sb) (q : Nat) (hq : q < E.n) (w : Int)
    (ho : (evget (evalAll E (e t) sb.s.hmm) q).2 = some w) : OutPath E e t q w := by
  rw [evget_evalAll E (e t) sb.s.hmm q hq] at ho
  obtain ⟨k, cx, u, hx, hv, rfl⟩ := (isMax_hmm_out (E.tp q) (e t (E.node q).ssid) (hget sb.s.hmm q) q (wvec sb) (treeEm E e t)
    (fun i hi => wvec_st sb q i hi) (fun i hi => treeEm_st E e t q i hi)).1 w ho
  have hk := hmmExits_lt _ _ hx
  rw [wvec_st sb q k hk] at hv
  exact ⟨k, cx, u, hx, hI.hs q hq k hk u hv, rfl⟩

theorem state_path (hI : BInv E e t sb) (p : Nat) (hp : p < E.n) (k : Nat) (hk : k < 3) (v : Int)
    (hv : comp (evget (evalAll E (e t) sb.s.hmm) p).1 k = some v) :
    PathTo (treeNet E) (treeEm E e) (t + 1) (st p k) v := by
  rw [evget_evalAll E (e t) sb.s.hmm p hp] at hv
  obtain ⟨i, c, u, hm, hu, rfl⟩ := (isMax_hmm_state (E.tp p) (e t (E.node p).ssid) (hget sb.s.hmm p) p k hk (wvec sb) (treeEm E e t)
    (fun i hi => wvec_st sb p i hi) (fun i hi => treeEm_st E e t p i hi)).1 v hv
  obtain ⟨hi1, hi2⟩ := hmmEdges_source hm
  have hii : i = 3 * p + i % 3 := by omega
  have hu' : comp (hget sb.s.hmm p) (i % 3) = some u := by
    rw [← wvec_st sb p (i % 3) hi2, ← hii]; exact hu
  have hpath := hI.hs p hp (i % 3) hi2 u hu'
  have hst : st p (i % 3) = i := by show 3 * p + i % 3 = i; omega
  rw [hst] at hpath
  exact PathTo.step hpath (mem_edges.mpr (Or.inl ⟨p, hp, hm⟩))

end step

/-- entries made from sound exit scores are sound (word exits and their propagation over null arcs), for any
selection of candidates -/
theorem toks_path (E : Env) (e : Nat → Nat → Nat → Int) (t : Nat) (out : Nat → Option Int)
    (hout : ∀ q, q < E.n → ∀ w, out q = some w → OutPath E e t q w)
    (sel : Cand → Bool) (tk : Tok)
    (h : tk ∈ flush (exitCands E out) (t : Int) ++
      flush ((nullCands E (flush (exitCands E out) (t : Int))).filter sel) (t : Int)) :
    tk.frame = (t : Int) ∧ tk.link.isSome = true ∧ TokPath E e tk := by
  rcases List.mem_append.mp h with h | h
  · obtain ⟨q, hq, hl, w, ho, h1, h2, h3, h4, h5, h6⟩ := tok1_sound h
    refine ⟨h5, h6, q, hq, hl, w, dstOf E q, 0, ?_, mem_reach.mpr (Or.inl ⟨rfl, rfl⟩), h1, by omega, h3, h4⟩
    rw [h5]; exact hout q hq w ho
  · obtain ⟨x, hx, g1, g2, g3, g4, g5, g6⟩ := flush_sound h
    obtain ⟨tk1, htk1, lid, l, hm, rfl⟩ := mem_nullCands.mp (List.mem_filter.mp hx).1
    obtain ⟨q, hq, hl, w, ho, h1, h2, h3, h4, _, _⟩ := tok1_sound htk1
    rw [h1] at hm
    refine ⟨g5, by simp [g6], q, hq, hl, w, l.dst, shiftS l.logp, ?_, mem_reach.mpr (Or.inr ⟨lid, l, hm, rfl, rfl⟩), g1.symm, ?_, ?_, ?_⟩
    · rw [g5]; exact hout q hq w ho
    · simp only at g3; omega
    · simp only at g2; omega
    · intro r hr
      exact h4 r (g4 r hr)

/-- a root entered from a sound entry holds the score of a path -/
theorem word_path (E : Env) (e : Nat → Nat → Nat → Int) (t : Nat) (cur : List Tok)
    (hcur : ∀ tk ∈ cur, tk.frame = (t : Int) ∧ TokPath E e tk) (p : Nat) (v : Int) (h : (p, v) ∈ wordRelax E cur) :
    PathTo (treeNet E) (treeEm E e) (t + 1) (st p 0) v := by
  obtain ⟨tk, htk, hroot, hadm, rfl⟩ := mem_wordRelax.mp h
  obtain ⟨hf, q, hq, hl, w, d, hop, ⟨k, cx, u, hx, hpath, rfl⟩, hr, h1, h2, h3, h4⟩ := hcur tk htk
  rw [hf] at hpath
  simp only [Int.toNat_natCast] at hpath
  have hadm' : admits E (E.node q).ciExt (rcOf E q) p = true := by
    unfold admits at hadm ⊢
    simp only [Bool.and_eq_true, List.contains_iff_mem] at hadm ⊢
    exact ⟨by rw [← h3]; exact hadm.1, h4 _ hadm.2⟩
  have hedge : (st q k, st p 0, cx + hop + (E.node p).logs2prob) ∈ (treeNet E).edges :=
    mem_edges.mpr (Or.inr (Or.inr ⟨q, hq, hl, d, hop, hr, p, by rw [← h1]; exact hroot, hadm', k, cx, hx, rfl, rfl, rfl⟩))
  have := PathTo.step hpath hedge
  have heq : tk.score + (E.node p).logs2prob = u + treeEm E e t (st q k) + (cx + hop + (E.node p).logs2prob) := by
    rw [h2, hf]; simp only [Int.toNat_natCast]; omega
  rw [heq]; exact this

theorem searchFrameBeam_inv (E : Env) (e : Nat → Nat → Nat → Int) (beam pbeam wbeam : Int) (t : Nat) (sb : SSB)
    (hI : BInv E e t sb) : BInv E e (t + 1) (searchFrameBeam E beam pbeam wbeam (e t) sb) := by
  unfold searchFrameBeam
  simp only
  split
  · -- no active HMM: everything cleared
    refine ⟨?_, ?_, ?_⟩
    · intro p hp k hk v hv
      simp only [hget_replicate, comp_inact] at hv
      cases hv
    · simp only [hI.frame]; omega
    · intro tk htk
      simp only [SS.table, List.append_nil] at htk
      have := hI.toks tk htk
      exact ⟨by omega, this.2⟩
  · rename_i bb _
    -- names for the pieces
    let ev := evalAll E (e t) sb.s.hmm
    let out : Nat → Option Int := fun p => (evget ev p).2
    have hout : ∀ (c : Nat → Bool) q, q < E.n → ∀ w, (if c q then out q else none) = some w → OutPath E e t q w := by
      intro c q hq w hw
      split at hw
      · exact out_path E e t sb hI q hq w hw
      · cases hw
    refine ⟨?_, ?_, ?_⟩
    · intro p hp k hk v hv
      simp only at hv
      rw [hget_mapRange E.n _ p hp] at hv
      split at hv
      · -- still (or newly) active: the evaluated HMM plus the entries of this frame
        rename_i hact
        have hsz : ((ev.toList.map (·.1)).toArray).size = E.n := by simp [ev, evalAll_size]
        rw [hI.frame] at hv
        obtain ⟨_, a1, a2, a0⟩ := foldl_enter _ ((ev.toList.map (·.1)).toArray) p (by omega)
        rcases Nat.lt_or_ge 0 k with hk0 | hk0
        · have : comp (hget ((ev.toList.map (·.1)).toArray) p) k = some v := by
            rcases k with _ | _ | _ | k
            · omega
            · rw [← a1]; exact hv
            · rw [← a2]; exact hv
            · omega
          rw [hget_fst] at this
          exact state_path E e t sb hI p hp k hk v this
        · have hk00 : k = 0 := by omega
          subst hk00
          rcases (a0 _ (isMax_self _)).1 v hv with h0 | hc
          · rw [hget_fst] at h0
            exact state_path E e t sb hI p hp 0 (by omega) v h0
          · rcases List.mem_append.mp hc with hph | hwd
            · obtain ⟨q, hq, hl, w, ho, hch, rfl⟩ := mem_phoneRelax.mp (List.mem_filter.mp hph).1
              obtain ⟨k', cx, u, hx, hpath, rfl⟩ := hout (fun q => sb.act.getD q false && ogeI (hmmBest (evget ev q)) (bb + beam) && ogeI (out q) (bb + pbeam)) q hq w ho
              have hedge : (st q k', st p 0, cx + (E.node p).logs2prob) ∈ (treeNet E).edges :=
                mem_edges.mpr (Or.inr (Or.inl ⟨q, hq, hl, p, hch, k', cx, hx, rfl, rfl, rfl⟩))
              have := PathTo.step hpath hedge
              have heq : u + treeEm E e t (st q k') + cx + (E.node p).logs2prob =
                  u + treeEm E e t (st q k') + (cx + (E.node p).logs2prob) := by omega
              rw [heq]; exact this
            · refine word_path E e t _ ?_ p v (List.mem_filter.mp hwd).1
              intro tk htk
              obtain ⟨g1, _, g3⟩ := toks_path E e t _ (hout _) _ tk htk
              exact ⟨g1, g3⟩
      · rw [comp_inact] at hv; cases hv
    · simp only [hI.frame]; omega
    · intro tk htk
      simp only [SS.table] at htk
      rcases List.mem_append.mp htk with h | h
      · have := hI.toks tk h
        exact ⟨by omega, this.2⟩
      · rw [hI.frame] at h
        obtain ⟨g1, _, g3⟩ := toks_path E e t _ (hout _) _ tk h
        exact ⟨by omega, fun _ => g3⟩

/-! ### start, run, result -/

theorem searchStartBeam_inv (E : Env) (e : Nat → Nat → Nat → Int) (beam wbeam : Int) :
    BInv E e 0 (searchStartBeam E beam wbeam) := by
  have hsub : ∀ tk ∈ (searchStartBeam E beam wbeam).s.cur, tk ∈ startToks E := by
    intro tk htk
    simp only [searchStartBeam, List.mem_cons] at htk
    unfold startToks
    rcases htk with h | h
    · exact List.mem_cons.mpr (Or.inl h)
    · exact List.mem_cons_of_mem _ (List.mem_filter.mp h).1
  refine ⟨?_, rfl, ?_⟩
  · intro p hp k hk v hv
    have hsz : ((List.replicate E.n inact).toArray).size = E.n := by simp
    simp only [searchStartBeam] at hv
    obtain ⟨_, b1, b2, b0⟩ := foldl_enter
      ((wordRelax E (dummyTok E :: ((nullFrom E.g (dummyTok E).dst).map fun (x : Nat × Link) =>
        (⟨some x.1, x.2.dst, -1, (dummyTok E).score + shiftS x.2.logp, (dummyTok E).lc, (dummyTok E).rc⟩ : Tok)).filter
          fun tk => decide (tk.score ≥ wbeam))).filter fun x => decide (x.2 > beam))
      ((List.replicate E.n inact).toArray) p (by omega)
    rcases Nat.lt_or_ge 0 k with hk0 | hk0
    · exfalso
      rcases k with _ | _ | _ | k
      · omega
      · rw [b1, hget_replicate, comp_inact] at hv; cases hv
      · rw [b2, hget_replicate, comp_inact] at hv; cases hv
      · omega
    · have hk00 : k = 0 := by omega
      subst hk00
      have h0 : IsMax (fun _ => False) (comp (hget ((List.replicate E.n inact).toArray) p) 0) := by
        rw [hget_replicate, comp_inact]; exact isMax_none
      rcases (b0 _ h0).1 v hv with h | h
      · exact h.elim
      · obtain ⟨tk, htk, hroot, hadm, rfl⟩ := mem_wordRelax.mp (List.mem_filter.mp h).1
        have htk' : tk ∈ startToks E := hsub tk htk
        obtain ⟨d, hop, hr, g1, g2, g3, g4, _⟩ := startToks_sound htk'
        exact PathTo.start (mem_init.mpr ⟨d, hop, hr, p, by rw [← g1]; exact hroot, by rw [← g3, ← g4]; exact hadm, rfl, by rw [g2]⟩)
  · intro tk htk
    have htk' : tk ∈ startToks E := hsub tk (by simpa [SS.table, searchStartBeam] using htk)
    obtain ⟨_, _, _, _, _, _, _, hf⟩ := startToks_sound htk'
    constructor
    · rw [hf]; decide
    · intro h; rw [hf] at h; exact absurd h (by decide)

theorem runSearchBeam_succ (E : Env) (beam pbeam wbeam : Int) (e : Nat → Nat → Nat → Int) (T : Nat) :
    runSearchBeam E beam pbeam wbeam e (T + 1) =
      searchFrameBeam E beam pbeam wbeam (e T) (runSearchBeam E beam pbeam wbeam e T) := by
  unfold runSearchBeam
  rw [List.range_succ, List.foldl_append]
  rfl

theorem runSearchBeam_inv (E : Env) (beam pbeam wbeam : Int) (e : Nat → Nat → Nat → Int) :
    ∀ T, BInv E e T (runSearchBeam E beam pbeam wbeam e T) := by
  intro T
  induction T with
  | zero => exact searchStartBeam_inv E e beam wbeam
  | succ T ih =>
    rw [runSearchBeam_succ]
    exact searchFrameBeam_inv E e beam pbeam wbeam T _ ih

theorem mem_takeWhile' {α : Type} (p : α → Bool) : ∀ (l : List α) (x : α), x ∈ l.takeWhile p → x ∈ l ∧ p x = true := by
  intro l
  induction l with
  | nil => intro x h; cases h
  | cons y ys ih =>
    intro x h
    rw [List.takeWhile_cons] at h
    split at h
    · rename_i hy
      rcases List.mem_cons.mp h with rfl | h'
      · exact ⟨List.mem_cons_self, hy⟩
      · exact ⟨List.mem_cons_of_mem _ (ih x h').1, (ih x h').2⟩
    · cases h

/-- a score `find_exit` reports is the score of an entry of the reported frame that ends in the final state -/
theorem findExit_mem {final : Nat} {tbl : List Tok} {f v : Int} (h : findExit final tbl = some (f, some v)) :
    ∃ tk ∈ tbl, tk.frame = f ∧ tk.dst = final ∧ tk.score = v := by
  unfold findExit at h
  split at h
  · cases h
  · cases hl : tbl.getLast? with
    | none => rw [hl] at h; cases h
    | some last =>
      rw [hl] at h
      simp only [Option.some.injEq, Prod.mk.injEq] at h
      obtain ⟨hf, hb⟩ := h
      have := (isMax_best _).1 v hb
      obtain ⟨tk, htk, he⟩ := List.mem_map.mp this
      obtain ⟨hmem, hp⟩ := mem_takeWhile' _ _ tk htk
      simp only [Bool.and_eq_true, beq_iff_eq] at hp
      split at he
      · rename_i hd
        cases he
        exact ⟨tk, List.mem_reverse.mp hmem, by rw [hp.1, hf], hd, rfl⟩
      · cases he

/-- **the pruned search is sound**: for ANY beams, a score `find_exit` reports for a frame `f ≥ 0` is the score of a
complete alignment of the frames `0..f` in the lextree network (and `f < T`) -/
theorem pruned_search_sound (E : Env) (beam pbeam wbeam : Int) (e : Nat → Nat → Nat → Int) (T : Nat) (f v : Int)
    (h : findExit E.g.final (runSearchBeam E beam pbeam wbeam e T).s.table = some (f, some v)) (hf : 0 ≤ f) :
    Alignment (treeNet E) (treeEm E e) (f.toNat + 1) v ∧ f < (T : Int) := by
  obtain ⟨tk, htk, h1, h2, h3⟩ := findExit_mem h
  obtain ⟨hlt, hp⟩ := (runSearchBeam_inv E beam pbeam wbeam e T).toks tk htk
  obtain ⟨q, hq, hl, w, d, hop, ⟨k, cx, u, hx, hpath, rfl⟩, hr, g1, g2, _, _⟩ := hp (by omega)
  rw [h1] at hpath g2 hlt
  refine ⟨?_, hlt⟩
  have hd : d = E.g.final := by rw [← g1]; exact h2
  subst hd
  have hexit : (st q k, cx + hop) ∈ (treeNet E).exits := mem_exits.mpr ⟨q, hq, hl, hop, hr, k, cx, hx, rfl, rfl⟩
  have hal := Alignment.mk (T := f.toNat + 1) (by simpa using hpath) hexit
  have heq : v = u + treeEm E e (f.toNat + 1 - 1) (st q k) + (cx + hop) := by
    simp only [Nat.add_sub_cancel]; omega
  rw [heq]; exact hal

theorem findExitPartial_mem {tbl : List Tok} {f v : Int} (h : findExitPartial tbl = some (f, some v)) :
    ∃ tk ∈ tbl, tk.frame = f ∧ tk.score = v := by
  unfold findExitPartial at h
  split at h
  · cases h
  · cases hl : tbl.getLast? with
    | none => rw [hl] at h; cases h
    | some last =>
      rw [hl] at h
      simp only [Option.some.injEq, Prod.mk.injEq] at h
      obtain ⟨hf, hb⟩ := h
      have := (isMax_best _).1 v hb
      obtain ⟨tk, htk, he⟩ := List.mem_map.mp this
      obtain ⟨hmem, hp⟩ := mem_takeWhile' _ _ tk htk
      simp only [Bool.and_eq_true, beq_iff_eq] at hp
      cases he
      exact ⟨tk, List.mem_reverse.mp hmem, by rw [hp.1, hf], rfl⟩

/-- a partial result (asked for while the utterance is being searched) for a frame `f ≥ 0` is the score of a path over the
frames `0..f` that leaves a word after frame `f` (into the state the entry ends in, over at most one null arc) -/
theorem partial_result_sound (E : Env) (beam pbeam wbeam : Int) (e : Nat → Nat → Nat → Int) (T : Nat) (f v : Int)
    (h : findExitPartial (runSearchBeam E beam pbeam wbeam e T).s.table = some (f, some v)) (hf : 0 ≤ f) :
    f < (T : Int) ∧ ∃ q k cx u d hop, q < E.n ∧ (E.node q).leaf = true ∧ (k, cx) ∈ hmmExits (E.tp q) ∧
      PathTo (treeNet E) (treeEm E e) f.toNat (st q k) u ∧ (d, hop) ∈ reach E.g (dstOf E q) ∧
      v = u + treeEm E e f.toNat (st q k) + cx + hop := by
  obtain ⟨tk, htk, h1, h3⟩ := findExitPartial_mem h
  obtain ⟨hlt, hp⟩ := (runSearchBeam_inv E beam pbeam wbeam e T).toks tk htk
  obtain ⟨q, hq, hl, w, d, hop, ⟨k, cx, u, hx, hpath, rfl⟩, hr, _, g2, _, _⟩ := hp (by omega)
  rw [h1] at hpath g2 hlt
  exact ⟨hlt, q, k, cx, u, d, hop, hq, hl, hx, hpath, hr, by omega⟩

end SSVerif.SearchScore
