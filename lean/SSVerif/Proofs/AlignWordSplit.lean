import SSVerif.Proofs.AlignSeg
import SSVerif.Proofs.AlignRun
/-!
Per-word split of the aligned scores, part 2: sums of state scores over blocks (`ScoreChain`), the two levels of
`Parts` flattened, windows at block boundaries.
-/
namespace SSVerif.Align

/-- the state scores of a leading block of a score chain telescope -/
theorem scoreChain_append (tokens : List (List Tok)) (final : Tok) : ∀ (l1 l2 : List Entry) (j : Nat),
    ScoreChain tokens final j (l1 ++ l2) →
    ScoreChain tokens final (j + l1.length) l2 ∧
    ∀ e r, l1 = e :: r → sumScore l1 = outCum tokens final (j + l1.length) l2 - cumIn tokens j e
  | [], l2, j, h => ⟨by simpa using h, fun e r he => by cases he⟩
  | e :: r, l2, j, h => by
    rw [List.cons_append, scoreChain_cons] at h
    obtain ⟨h1, h2⟩ := h
    obtain ⟨i1, i2⟩ := scoreChain_append tokens final r l2 (j + 1) h2
    have el : j + (e :: r).length = j + 1 + r.length := by simp only [List.length_cons]; omega
    refine ⟨by rw [el]; exact i1, ?_⟩
    intro e' r' he
    obtain ⟨rfl, rfl⟩ := List.cons.inj he
    rw [el]
    cases hr : r with
    | nil =>
      subst hr
      simp only [List.nil_append, List.length_nil, Nat.add_zero] at h1 ⊢
      simp [sumScore, h1]
    | cons e2 r2 =>
      have := i2 e2 r2 hr
      rw [hr] at h1
      simp only [List.cons_append, outCum] at h1
      rw [← hr]
      simp only [sumScore, List.map_cons, List.sum_cons] at this ⊢
      rw [hr] at this ⊢
      simp only [List.map_cons, List.sum_cons] at this ⊢
      omega

/-- the score sum of a block in the middle of a score chain -/
theorem scoreChain_block (tokens : List (List Tok)) (final : Tok) (pre blk post : List Entry) (e : Entry) (r : List Entry)
    (hb : blk = e :: r) (h : ScoreChain tokens final 0 (pre ++ (blk ++ post))) :
    sumScore blk = outCum tokens final (pre.length + blk.length) post - cumIn tokens pre.length e := by
  obtain ⟨h1, _⟩ := scoreChain_append tokens final pre (blk ++ post) 0 h
  simp only [Nat.zero_add] at h1
  exact (scoreChain_append tokens final blk post pre.length h1).2 e r hb

/-! ### blocks by index -/

/-- number of children before block `i` -/
def pre (lens : List Nat) (i : Nat) : Nat := (lens.take i).sum

theorem pre_succ : ∀ (lens : List Nat) (i : Nat) (h : i < lens.length), pre lens (i + 1) = pre lens i + lens[i]
  | [], i, h => by simp at h
  | n :: ns, 0, _ => by simp [pre]
  | n :: ns, i + 1, h => by
    have := pre_succ ns i (by simpa using h)
    simp only [pre, List.take_succ_cons, List.sum_cons, List.getElem_cons_succ] at this ⊢
    omega

theorem pre_cons_succ (n : Nat) (ns : List Nat) (i : Nat) : pre (n :: ns) (i + 1) = n + pre ns i := by
  simp [pre]

/-- one level of `Parts`, by index: parent `i` sums the children `pre i .. pre i + lens[i]`, starts where the first of
them starts, and they tile it -/
theorem parts_get : ∀ (lens : List Nat) (ps ch : List Entry) (i : Nat) (hi : i < lens.length),
    Parts ps (splitLens lens ch) → ∃ (p e : Entry) (r : List Entry), ps[i]? = some p ∧
      (ch.drop (pre lens i)).take lens[i] = e :: r ∧ p.score = sumScore (e :: r) ∧ e.start = p.start ∧
      Contig (e :: r) p.start (p.start + p.duration)
  | [], _, _, i, hi, _ => by simp at hi
  | n :: ns, [], ch, i, hi, h => by simp [splitLens, Parts] at h
  | n :: ns, p :: ps, ch, 0, _, h => by
    simp only [splitLens, Parts] at h
    obtain ⟨h1, h2, h3, _⟩ := h
    cases hb : ch.take n with
    | nil => exact absurd hb h3
    | cons e r =>
      rw [hb] at h1 h2
      refine ⟨p, e, r, rfl, by simpa [pre] using hb, h2, h1.1, h1⟩
  | n :: ns, p :: ps, ch, i + 1, hi, h => by
    simp only [splitLens, Parts] at h
    obtain ⟨_, _, _, h4⟩ := h
    obtain ⟨p', e, r, a, b, c, d, e'⟩ := parts_get ns ps (ch.drop n) i (by simpa using hi) h4
    refine ⟨p', e, r, by simpa using a, ?_, c, d, e'⟩
    rw [pre_cons_succ, ← List.drop_drop]
    simpa using b

/-- `Parts` with three children per parent survives dropping parents -/
theorem parts3_drop : ∀ (a : Nat) (ps st : List Entry), a ≤ ps.length →
    Parts ps (splitLens (List.replicate ps.length 3) st) →
    Parts (ps.drop a) (splitLens (List.replicate (ps.drop a).length 3) (st.drop (3 * a)))
  | 0, ps, st, _, h => by simpa using h
  | a + 1, [], st, ha, _ => by simp at ha
  | a + 1, p :: ps, st, ha, h => by
    simp only [List.length_cons, List.replicate_succ, splitLens, Parts] at h
    obtain ⟨_, _, _, h4⟩ := h
    have := parts3_drop a ps (st.drop 3) (by simpa using ha) h4
    simp only [List.drop_succ_cons]
    rw [List.drop_drop] at this
    have e : 3 + 3 * a = 3 * (a + 1) := by omega
    rw [e] at this; exact this

/-- the first `m` parents sum the first `3m` children, and start where they start -/
theorem parts3_take : ∀ (m : Nat) (ps st : List Entry), m ≤ ps.length →
    Parts ps (splitLens (List.replicate ps.length 3) st) →
    sumScore (ps.take m) = sumScore (st.take (3 * m)) ∧
    (0 < m → ∃ p e, ps.head? = some p ∧ st.head? = some e ∧ e.start = p.start)
  | 0, ps, st, _, _ => by simp [sumScore]
  | m + 1, [], st, hm, _ => by simp at hm
  | m + 1, p :: ps, st, hm, h => by
    simp only [List.length_cons, List.replicate_succ, splitLens, Parts] at h
    obtain ⟨h1, h2, h3, h4⟩ := h
    obtain ⟨i1, _⟩ := parts3_take m ps (st.drop 3) (by simpa using hm) h4
    refine ⟨?_, fun _ => ?_⟩
    · have e : st.take (3 * (m + 1)) = st.take 3 ++ (st.drop 3).take (3 * m) := by
        have : 3 * (m + 1) = 3 + 3 * m := by omega
        rw [this, List.take_add]
      rw [List.take_succ_cons, e]
      simp only [sumScore, List.map_cons, List.sum_cons, List.map_append, List.sum_append] at *
      omega
    · cases hb : st.take 3 with
      | nil => exact absurd hb h3
      | cons e r =>
        rw [hb] at h1
        refine ⟨p, e, rfl, ?_, h1.1⟩
        cases st with
        | nil => simp at hb
        | cons x xs => simp at hb; simp [hb.1]

theorem pre_le_sum : ∀ (lens : List Nat) (i : Nat), pre lens i ≤ lens.sum
  | [], i => by simp [pre]
  | n :: ns, 0 => by simp [pre]
  | n :: ns, i + 1 => by
    have := pre_le_sum ns i
    rw [pre_cons_succ]; simp only [List.sum_cons]; omega

theorem pre_length (lens : List Nat) : pre lens lens.length = lens.sum := by simp [pre]

/-- window of child `pre i + k` of a block-structured vector = window of parent `i` -/
theorem blockWins_get : ∀ (lens : List Nat) (ws : List (Int × Int)) (i k : Nat) (hi : i < lens.length),
    lens.length = ws.length → k < lens[i] → (blockWins lens ws)[pre lens i + k]? = ws[i]?
  | [], _, i, _, hi, _, _ => by simp at hi
  | n :: ns, [], i, k, _, hl, _ => by simp at hl
  | n :: ns, w :: ws, 0, k, _, _, hk => by
    simp only [List.getElem_cons_zero] at hk
    simp only [blockWins, pre, List.take_zero, List.sum_nil, Nat.zero_add, List.getElem?_cons_zero]
    rw [List.getElem?_append_left (by simpa using hk), List.getElem?_replicate]
    simp [hk]
  | n :: ns, w :: ws, i + 1, k, hi, hl, hk => by
    simp only [List.getElem_cons_succ] at hk
    simp only [blockWins, pre_cons_succ, List.getElem?_cons_succ]
    rw [List.getElem?_append_right (by simp; omega)]
    simp only [List.length_replicate]
    have e : n + pre ns i + k - n = pre ns i + k := by omega
    rw [e]
    exact blockWins_get ns ws i k (by simpa using hi) (by simpa using hl) hk

/-- **the score of word `i` as a difference of two token scores**: the word sums the scores of its states, its first
state starts where the word starts, and the state scores telescope (`ScoreChain`) -/
theorem word_block (tokens : List (List Tok)) (final : Tok) (ws ps st : List Entry) (lens : List Nat)
    (hW : Parts ws (splitLens lens ps)) (hP : Parts ps (splitLens (List.replicate ps.length 3) st))
    (hlp : ps.length = lens.sum) (hls : st.length = 3 * ps.length) (hpos : ∀ n ∈ lens, 0 < n)
    (hsc : ScoreChain tokens final 0 st) (i : Nat) (hi : i < lens.length) :
    ∃ w e, ws[i]? = some w ∧ st[3 * pre lens i]? = some e ∧ e.start = w.start ∧
      w.score = outCum tokens final (3 * pre lens (i + 1)) (st.drop (3 * pre lens (i + 1))) -
        cumIn tokens (3 * pre lens i) e := by
  obtain ⟨w, pe, pr, hw, hblk, hsum, hst, _⟩ := parts_get lens ws ps i hi hW
  have hli : 0 < lens[i] := hpos _ (List.getElem_mem hi)
  have hpre1 := pre_succ lens i hi
  have hle1 : pre lens (i + 1) ≤ ps.length := by rw [hlp]; exact pre_le_sum lens (i + 1)
  have hle : pre lens i ≤ ps.length := by omega
  -- the state level
  have hPd := parts3_drop (pre lens i) ps st hle hP
  have hlen_d : (ps.drop (pre lens i)).length = ps.length - pre lens i := by simp
  obtain ⟨t1, t2⟩ := parts3_take lens[i] (ps.drop (pre lens i)) (st.drop (3 * pre lens i)) (by rw [hlen_d]; omega) hPd
  obtain ⟨p0, e, hp0, he, hes⟩ := t2 hli
  rw [hblk] at t1
  have hp0' : p0 = pe := by
    have : ((ps.drop (pre lens i)).take lens[i]).head? = some pe := by rw [hblk]; rfl
    rw [List.head?_take, if_neg (by omega)] at this
    rw [hp0] at this; exact Option.some.inj this
  subst hp0'
  -- the block of states
  have hsplit : st = st.take (3 * pre lens i) ++
      ((st.drop (3 * pre lens i)).take (3 * lens[i]) ++ st.drop (3 * pre lens (i + 1))) := by
    have e1 : st.drop (3 * pre lens (i + 1)) = (st.drop (3 * pre lens i)).drop (3 * lens[i]) := by
      rw [List.drop_drop, hpre1]; congr 1; omega
    rw [e1, List.take_append_drop, List.take_append_drop]
  have hhead : (st.drop (3 * pre lens i)).take (3 * lens[i]) = e :: ((st.drop (3 * pre lens i)).take (3 * lens[i])).tail := by
    have : ((st.drop (3 * pre lens i)).take (3 * lens[i])).head? = some e := by
      rw [List.head?_take, if_neg (by omega)]; exact he
    cases hb : (st.drop (3 * pre lens i)).take (3 * lens[i]) with
    | nil => rw [hb] at this; simp at this
    | cons x xs => rw [hb] at this; simp at this; simp [this]
  have hchain : ScoreChain tokens final 0 (st.take (3 * pre lens i) ++
      ((st.drop (3 * pre lens i)).take (3 * lens[i]) ++ st.drop (3 * pre lens (i + 1)))) := by
    rw [← hsplit]; exact hsc
  have hbs := scoreChain_block tokens final _ _ _ e _ hhead hchain
  have hl1 : (st.take (3 * pre lens i)).length = 3 * pre lens i := by simp; omega
  have hl2 : ((st.drop (3 * pre lens i)).take (3 * lens[i])).length = 3 * lens[i] := by simp; omega
  rw [hl1, hl2] at hbs
  have e3 : 3 * pre lens i + 3 * lens[i] = 3 * pre lens (i + 1) := by omega
  rw [e3] at hbs
  refine ⟨w, e, hw, ?_, by rw [hes, hst], ?_⟩
  · have := he
    rw [List.head?_drop] at this; exact this
  · rw [hsum, t1, hbs]

/-- tilings by index -/
theorem contig_get : ∀ (l : List Entry) (a b : Int) (m : Nat) (x : Entry), Contig l a b → l[m]? = some x →
    a ≤ x.start ∧ 0 < x.duration ∧ x.start + x.duration ≤ b ∧ (m = 0 → x.start = a) ∧
    (∀ y, l[m + 1]? = some y → y.start = x.start + x.duration) ∧ (l[m + 1]? = none → x.start + x.duration = b)
  | [], _, _, _, _, _, h => by simp at h
  | e :: r, a, b, 0, x, hc, h => by
    simp only [List.getElem?_cons_zero, Option.some.injEq] at h
    subst h
    obtain ⟨h1, h2, h3⟩ := hc
    have := contig_le r _ b h3
    refine ⟨by omega, h2, by omega, fun _ => h1, ?_, ?_⟩
    · intro y hy
      cases r with
      | nil => simp at hy
      | cons y' r' =>
        simp at hy; subst hy
        rw [h3.1, h1]
    · intro hn
      cases r with
      | nil => have : a + e.duration = b := h3
               omega
      | cons y' r' => simp at hn
  | e :: r, a, b, m + 1, x, hc, h => by
    obtain ⟨h1, h2, h3⟩ := hc
    simp only [List.getElem?_cons_succ] at h
    obtain ⟨i1, i2, i3, _, i5, i6⟩ := contig_get r _ b m x h3 h
    exact ⟨by omega, i2, i3, fun hm => by omega, by simpa using i5, by simpa using i6⟩

open Step in
theorem allOK_of_frames (tps : Array (Array Int)) (frames : List (Array Int)) (hok : ∀ sen ∈ frames, FrameOK tps sen)
    (hne : frames ≠ []) : AllOK tps (fun g => frames.getD g #[]) := by
  obtain ⟨sen0, hsen0⟩ : ∃ x, x ∈ frames := by
    cases frames with
    | nil => exact absurd rfl hne
    | cons x _ => exact ⟨x, List.mem_cons_self ..⟩
  intro g
  by_cases hg : g < frames.length
  · have : frames.getD g #[] = frames[g] := by simp [List.getD_eq_getElem?_getD, hg]
    simp only [this]
    exact hok _ (List.getElem_mem hg)
  · have : frames.getD g #[] = #[] := by
      rw [List.getD_eq_getElem?_getD, List.getElem?_eq_none (by omega)]; rfl
    simp only [this]
    exact ⟨(hok sen0 hsen0).noskip, (hok sen0 hsen0).tp, fun k => by simp⟩

open Step in
theorem run_rows_eq (tps : Array (Array Int)) (sf ef : Array Int) (frames : List (Array Int)) :
    (run tps sf ef frames).1 = (stAt tps sf ef frames frames.length).2.1 := by
  simp [run, stAt]

open Step in
/-- a pinned entry `(p, A)` of a run whose final score is alive: all paths pass through it, and the token of its first
state in row `A-1` carries the best score of a path to it -/
theorem boundary_point (tps : Array (Array Int)) (sf ef : Array Int) (frames : List (Array Int))
    (hok : ∀ sen ∈ frames, FrameOK tps sen) (hsf0 : sf.getD 0 0 ≤ 0)
    (hmono : ∀ i, i + 1 < sf.size → ef.getD i 0 ≤ ef.getD (i + 1) 0)
    (hT : (frames.length : Int) * 33022 ≤ 533000000) (hend : (frames.length : Int) ≤ ef.getD (sf.size - 1) 0)
    (halive : (run tps sf ef frames).2.1.score > worst)
    (p A : Nat) (hp : 1 ≤ p) (hpn : p < sf.size) (hA1 : 1 ≤ A) (hAT : A ≤ frames.length)
    (hsfp : sf.getD p 0 = (A : Int)) (hefp : ef.getD (p - 1) 0 = (A : Int)) :
    ∃ v t, Src tps sf ef (fun g => frames.getD g #[]) sf.size (3 * p) A v ∧
      tokAt (run tps sf ef frames).1 (A - 1) (3 * p) = some t ∧ t.score = v := by
  have hne : frames ≠ [] := by intro h; subst h; simp at hAT; omega
  have hall := allOK_of_frames tps frames hok hne
  have hn : 1 ≤ sf.size := by omega
  -- some path reaches the entry: the optimal complete path passes through it
  obtain ⟨f, sc0, hTf, _, hpath, _, _⟩ := (run_optimal tps sf ef frames hok hsf0 hmono hT hend).2 halive
  obtain ⟨sc1, _, hreach, _, _⟩ := path_decompose tps sf ef (fun g => frames.getD g #[]) sf.size p A hp hsfp hefp
    f _ sc0 hpath (by omega)
  obtain ⟨_, hrl, _, hV⟩ := stAt_inv tps sf ef frames hok hsf0 hmono hT hn hall A hAT
  have hBA : (A : Int) * 33022 ≤ 533000000 := by
    have : (A : Int) ≤ frames.length := by exact_mod_cast hAT
    omega
  obtain ⟨h, hl, hfr, _, hsrc⟩ := src_pinned tps sf ef _ sf.size p A hall _ hV hBA hp hsfp hefp ⟨sc1, hreach⟩
  obtain ⟨_, hrl1, _, _⟩ := stAt_inv tps sf ef frames hok hsf0 hmono hT hn hall (A - 1) (by omega)
  have hA' : A - 1 + 1 = A := by omega
  have := token_link tps sf ef frames (A - 1) (by omega) hrl1 p h (by rw [hA']; exact hl)
    (by rw [hfr]; push_cast; omega) 0 (by omega)
  obtain ⟨t, ht, hts⟩ := this
  refine ⟨h.s0, t, hsrc, ?_, by simpa [sel] using hts⟩
  rw [run_rows_eq]; simpa using ht

/-! ### the per-word split -/

open Step in
/-- **Each aligned word score is the best score of a path segment over the word's frames.**  `words` = first-pass
words tiling `[0,T)`, `lens` = phones per word, `phones0` = populated phone entries (their windows are the words'),
`ws/ps/st` = the word, phone and state vectors after the second pass. -/
theorem word_split (tps : Array (Array Int)) (frames : List (Array Int)) (words phones0 ws ps st : List Entry)
    (lens : List Nat)
    (hwin : phones0.map winE = blockWins lens (words.map winE)) (hfp : Contig words 0 frames.length)
    (hll : lens.length = words.length) (hpos : ∀ n ∈ lens, 0 < n) (hlp0 : phones0.length = lens.sum)
    (hok : ∀ sen ∈ frames, FrameOK tps sen) (hT : (frames.length : Int) * 33022 ≤ 533000000)
    (halive : (run tps (phones0.map sfOf).toArray (phones0.map efOf).toArray frames).2.1.score > worst)
    (hW : Parts ws (splitLens lens ps)) (hP : Parts ps (splitLens (List.replicate ps.length 3) st))
    (hlp : ps.length = lens.sum) (hls : st.length = 3 * ps.length)
    (hsc : ScoreChain (run tps (phones0.map sfOf).toArray (phones0.map efOf).toArray frames).1
      (run tps (phones0.map sfOf).toArray (phones0.map efOf).toArray frames).2.1 0 st)
    (hbd : ws.map (·.start) = words.map (·.start))
    (i : Nat) (hi : i < words.length) :
    ∃ w x, ws[i]? = some w ∧ words[i]? = some x ∧
      (∀ y, words[i + 1]? = some y →
        (∀ sc, SegTo tps (phones0.map sfOf).toArray (phones0.map efOf).toArray (fun g => frames.getD g #[]) phones0.length
            (3 * pre lens i) x.start.toNat y.start.toNat (3 * pre lens (i + 1)) sc → sc ≤ w.score) ∧
        SegTo tps (phones0.map sfOf).toArray (phones0.map efOf).toArray (fun g => frames.getD g #[]) phones0.length
            (3 * pre lens i) x.start.toNat y.start.toNat (3 * pre lens (i + 1)) w.score) ∧
      (words[i + 1]? = none →
        (∀ sc, FullSeg tps (phones0.map sfOf).toArray (phones0.map efOf).toArray (fun g => frames.getD g #[]) phones0.length
            (3 * pre lens i) x.start.toNat frames.length sc → sc ≤ w.score) ∧
        FullSeg tps (phones0.map sfOf).toArray (phones0.map efOf).toArray (fun g => frames.getD g #[]) phones0.length
            (3 * pre lens i) x.start.toNat frames.length w.score) := by
  have hw' : worst = -536870912 := rfl
  obtain ⟨w1, w2, w3⟩ := populated_windows_ok words lens phones0 frames.length hfp hll hpos hwin
  have hsz : (phones0.map sfOf).toArray.size = phones0.length := by simp
  rw [← hsz]
  rw [← hsz] at w2 w3
  -- window arrays by index
  have hsfg : ∀ q (hq : q < phones0.length), (phones0.map sfOf).toArray.getD q 0 = sfOf phones0[q] := by
    intro q hq; simp [Array.getD, hq]
  have hefg : ∀ q (hq : q < phones0.length), (phones0.map efOf).toArray.getD q 0 = efOf phones0[q] := by
    intro q hq; simp [Array.getD, hq]
  have hwing : ∀ m k (hm : m < lens.length) (hk : k < lens[m]) (hq : pre lens m + k < phones0.length),
      winE phones0[pre lens m + k] = winE (words[m]'(by omega)) := by
    intro m k hm hk hq
    have h1 := blockWins_get lens (words.map winE) m k hm (by simpa using hll) hk
    rw [← hwin, List.getElem?_map, List.getElem?_map, List.getElem?_eq_getElem hq,
      List.getElem?_eq_getElem (by omega : m < words.length)] at h1
    simpa using h1
  have hpre_lt : ∀ m (hm : m < lens.length), pre lens m + lens[m] ≤ phones0.length := by
    intro m hm
    rw [hlp0, ← pre_succ lens m hm]; exact pre_le_sum lens (m + 1)
  -- pinned entries of the words m >= 1
  have BP : ∀ m x, words[m]? = some x → 1 ≤ m →
      ∃ v t, Src tps (phones0.map sfOf).toArray (phones0.map efOf).toArray (fun g => frames.getD g #[])
          (phones0.map sfOf).toArray.size (3 * pre lens m) x.start.toNat v ∧
        tokAt (run tps (phones0.map sfOf).toArray (phones0.map efOf).toArray frames).1 (x.start.toNat - 1) (3 * pre lens m) = some t ∧
        t.score = v ∧ 1 ≤ pre lens m := by
    intro m x hx hm
    have hmw : m < words.length := (List.getElem?_eq_some_iff.1 hx).1
    have hml : m < lens.length := by omega
    obtain ⟨m', rfl⟩ : ∃ m', m = m' + 1 := ⟨m - 1, by omega⟩
    have hm'l : m' < lens.length := by omega
    have hx0 : words[m']? = some (words[m']'(by omega)) := List.getElem?_eq_getElem (by omega)
    obtain ⟨c1, c2, c3, _, c5, _⟩ := contig_get words 0 frames.length m' _ hfp hx0
    have hxs : x.start = (words[m']'(by omega)).start + (words[m']'(by omega)).duration := c5 x hx
    obtain ⟨d1, d2, d3, _, _, _⟩ := contig_get words 0 frames.length (m' + 1) x hfp hx
    have hps := pre_succ lens m' hm'l
    have hl0 : 0 < lens[m'] := hpos _ (List.getElem_mem hm'l)
    have hl1 : 0 < lens[m' + 1] := hpos _ (List.getElem_mem hml)
    have hq1 := hpre_lt (m' + 1) hml
    have hq0 := hpre_lt m' hm'l
    have hA : ((x.start.toNat : Nat) : Int) = x.start := Int.toNat_of_nonneg (by omega)
    have hxe : words[m' + 1]'hmw = x := by
      have := List.getElem?_eq_getElem hmw; rw [this] at hx; exact Option.some.inj hx
    obtain ⟨v, t, a, b, c⟩ := boundary_point tps _ _ frames hok w1 w2 hT w3 halive (pre lens (m' + 1)) x.start.toNat
      (by omega) (by rw [hsz]; omega) (by omega) (by omega)
      (by
        rw [hsfg _ (by omega), hA]
        have := hwing (m' + 1) 0 hml hl1 (by omega)
        simp only [Nat.add_zero, winE, Prod.mk.injEq] at this
        rw [this.1, hxe]
        simp only [sfOf]; rw [if_pos (by omega)])
      (by
        have e : pre lens (m' + 1) - 1 = pre lens m' + (lens[m'] - 1) := by omega
        rw [e, hefg _ (by omega), hA]
        have := hwing m' (lens[m'] - 1) hm'l (by omega) (by omega)
        simp only [winE, Prod.mk.injEq] at this
        rw [this.2]
        simp only [efOf]; rw [if_pos c2]; omega)
    exact ⟨v, t, a, b, c, by omega⟩
  -- the word itself
  have hil : i < lens.length := by omega
  have hxi : words[i]? = some (words[i]'hi) := List.getElem?_eq_getElem hi
  obtain ⟨w, e, hwi, hei, hes, hscore⟩ := word_block _ _ ws ps st lens hW hP hlp hls hpos hsc i hil
  have hwx : w.start = (words[i]'hi).start := by
    have := congrArg (fun l => l[i]?) hbd
    simp only [List.getElem?_map, hwi, hxi, Option.map_some, Option.some.injEq] at this
    exact this
  obtain ⟨x1, x2, x3, x4, x5, x6⟩ := contig_get words 0 frames.length i _ hfp hxi
  have hAi : ((words[i]'hi).start.toNat : Int) = (words[i]'hi).start := Int.toNat_of_nonneg (by omega)
  -- the source
  have SRC : ∃ v, Src tps (phones0.map sfOf).toArray (phones0.map efOf).toArray (fun g => frames.getD g #[])
      (phones0.map sfOf).toArray.size (3 * pre lens i) (words[i]'hi).start.toNat v ∧
      cumIn (run tps (phones0.map sfOf).toArray (phones0.map efOf).toArray frames).1 (3 * pre lens i) e = v := by
    by_cases h0 : i = 0
    · subst h0
      have hs0 : (words[0]'hi).start = 0 := x4 rfl
      refine ⟨0, ?_, by simp [cumIn, pre]⟩
      have : 3 * pre lens 0 = 0 := by simp [pre]
      rw [this, hs0]
      exact src_origin _ _ _ _ _
    · obtain ⟨v, t, a, b, c, d⟩ := BP i _ hxi (by omega)
      refine ⟨v, a, ?_⟩
      have hne : 3 * pre lens i ≠ 0 := by omega
      have hst : (e.start - 1).toNat = (words[i]'hi).start.toNat - 1 := by rw [hes, hwx]; omega
      simp only [cumIn, hne, if_false, hst, b, Option.map_some, Option.getD_some]
      exact c
  obtain ⟨v, hsrc, hcum⟩ := SRC
  have hps := pre_succ lens i hil
  have hli : 0 < lens[i] := hpos _ (List.getElem_mem hil)
  refine ⟨w, _, hwi, hxi, ?_, ?_⟩
  · -- a next word: the target is its pinned entry
    intro y hy
    have hi1 : i + 1 < words.length := (List.getElem?_eq_some_iff.1 hy).1
    obtain ⟨v', t', a', b', c', d'⟩ := BP (i + 1) y hy (by omega)
    obtain ⟨w2', e', hw2, he2, hes2, _⟩ := word_block _ _ ws ps st lens hW hP hlp hls hpos hsc (i + 1) (by omega)
    have hwy : w2'.start = y.start := by
      have := congrArg (fun l => l[i + 1]?) hbd
      simp only [List.getElem?_map, hw2, hy, Option.map_some, Option.some.injEq] at this
      exact this
    obtain ⟨y1, _, _, _, _, _⟩ := contig_get words 0 frames.length (i + 1) y hfp hy
    have hout : outCum (run tps (phones0.map sfOf).toArray (phones0.map efOf).toArray frames).1
        (run tps (phones0.map sfOf).toArray (phones0.map efOf).toArray frames).2.1 (3 * pre lens (i + 1))
        (st.drop (3 * pre lens (i + 1))) = v' := by
      have hd : st.drop (3 * pre lens (i + 1)) = e' :: st.drop (3 * pre lens (i + 1) + 1) := by
        have hlt := (List.getElem?_eq_some_iff.1 he2).1
        rw [List.drop_eq_getElem_cons hlt]
        have := List.getElem?_eq_getElem hlt
        rw [this] at he2; rw [Option.some.inj he2]
      rw [hd]
      have hne : 3 * pre lens (i + 1) ≠ 0 := by omega
      have hst : (e'.start - 1).toNat = y.start.toNat - 1 := by rw [hes2, hwy]; omega
      simp only [outCum, cumIn, hne, if_false, hst, b', Option.map_some, Option.getD_some]
      exact c'
    have hws : w.score = v' - v := by rw [hscore, hout, hcum]
    rw [hws]
    exact seg_opt tps _ _ _ _ _ _ v hsrc y.start.toNat (3 * pre lens (i + 1)) v' (by omega) a'.ub a'.att
  · -- the last word: the target is the exit after the last frame
    intro hnone
    have hlast : i + 1 = words.length := by
      have := List.getElem?_eq_none_iff.1 hnone; omega
    have hpl : pre lens (i + 1) = lens.sum := by
      have : i + 1 = lens.length := by omega
      rw [this]; exact pre_length lens
    have hout : outCum (run tps (phones0.map sfOf).toArray (phones0.map efOf).toArray frames).1
        (run tps (phones0.map sfOf).toArray (phones0.map efOf).toArray frames).2.1 (3 * pre lens (i + 1))
        (st.drop (3 * pre lens (i + 1))) =
        (run tps (phones0.map sfOf).toArray (phones0.map efOf).toArray frames).2.1.score := by
      have : st.drop (3 * pre lens (i + 1)) = [] := by
        apply List.drop_eq_nil_of_le; rw [hpl, hls, hlp]; exact Nat.le_refl _
      rw [this]; rfl
    have hws : w.score = (run tps (phones0.map sfOf).toArray (phones0.map efOf).toArray frames).2.1.score - v := by
      rw [hscore, hout, hcum]
    rw [hws]
    obtain ⟨o1, o2⟩ := run_optimal tps _ _ frames hok w1 w2 hT w3
    have hq := hpre_lt i hil
    exact seg_opt_end tps _ _ _ _ _ _ v hsrc frames.length _ (by rw [hsz]; omega) o1 (o2 halive)

end SSVerif.Align
