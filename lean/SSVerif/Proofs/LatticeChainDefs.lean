import SSVerif.Proofs.LatticeBuildDefs
/-! Staging invariant for `C11_build_first_best`: a complete backtrace of the history table as a chain of word
nodes of the construction state. -/
namespace SSVerif.Lattice
open SSVerif.Nfa

/-- the word nodes `vs` of `b` carry the segmentation `segs` along links of `b`: node `v` has the word and start
frame of its segment, is linked to the next node, which starts in the frame after the segment's end frame; the
last node's last end frame is the segment's end frame and no node of `b` ends later -/
def ChainMid (b : Build) : List Nat → List Seg → Prop
  | [v], [s] => v < b.nodes.size ∧ (b.node v).word = s.word ∧ (b.node v).sf = s.sf ∧ (b.node v).lef = s.ef ∧
      ∀ u, u < b.nodes.size → (b.node u).lef ≤ (b.node v).lef
  | v :: v' :: vs, s :: ss => v < b.nodes.size ∧ (b.node v).word = s.word ∧ (b.node v).sf = s.sf ∧
      (∃ l ∈ b.links.toList, l.src = v ∧ l.dst = v') ∧ (b.node v').sf = s.ef + 1 ∧ ChainMid b (v' :: vs) ss
  | _, _ => False

end SSVerif.Lattice
