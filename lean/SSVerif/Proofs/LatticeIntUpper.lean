import SSVerif.Proofs.LatticeInt
/-! integer forward/backward passes, upper side: with a log-add that never returns more than the larger
argument plus `c`, every alpha is at most the scaled score of *some* path from the start ending in its
link plus `c` per visited link, every beta at most the score of *some* path from its target to the end
plus `c` per log-addition of the backward pass.  Together with the lower side (`alphaInt_ge`,
`normInt_ge`): `alpha + beta − norm ≤ c · (number of additions)` for every link. -/
namespace SSVerif.Lattice

variable {L : Lat} {P : IntParams}

/-! ### forward pass -/

/-- closed form of one visit of the forward pass -/
theorem alphaVisit_vals {rank : Nat → Nat} (ok : DagOK L rank) {l : Link} (hl : l ∈ L.links) (al : Link → Int) :
    alphaVisit P L al l l = al l + P.sc l ∧
    (∀ y, y ∈ exits L l.dst → alphaVisit P L al l y = P.ladd (al y) (al l + P.sc l)) ∧
    (∀ y, y ≠ l → y ∉ exits L l.dst → alphaVisit P L al l y = al y) := by
  have hself : l ∉ exits L l.dst := by
    intro h
    have := ok.rank_lt l hl
    rw [(mem_exits.1 h).2] at this
    omega
  have hfold := visit_fold (P := P) (al l + P.sc l) (exits L l.dst) (exits_nodup ok _) (upd al l (al l + P.sc l))
  refine ⟨?_, ?_, ?_⟩
  · unfold alphaVisit
    rw [(hfold l).2 hself]; simp [upd]
  · intro y hy
    unfold alphaVisit
    rw [(hfold y).1 hy]
    have : y ≠ l := fun h => hself (h ▸ hy)
    simp [upd, this]
  · intro y h1 h2
    unfold alphaVisit
    rw [(hfold y).2 h2]; simp [upd, h1]

/-- upper invariant of the forward pass after the links `pre` have been visited -/
structure AUp (L : Lat) (P : IntParams) (c : Int) (pre : List Link) (al : Link → Int) : Prop where
  done : ∀ y ∈ pre, ∃ p, Walk L p y ∧ al y ≤ jointInt P p + c * pre.length
  pend : ∀ y ∈ L.links, y ∉ pre →
    (y.src = L.start ∧ al y ≤ 0) ∨
    (∃ p l', Walk L p l' ∧ l'.dst = y.src ∧ al y ≤ jointInt P p + c * pre.length) ∨
    (y.src ≠ L.start ∧ al y = P.lz ∧ ∀ l' ∈ pre, l'.dst ≠ y.src)

theorem aup_init (c : Int) : AUp L P c [] (alphaInit P L) where
  done := fun y hy => by cases hy
  pend := by
    intro y hy _
    by_cases hs : y.src = L.start
    · left
      refine ⟨hs, ?_⟩
      unfold alphaInit
      rw [if_pos ⟨hy, hs⟩]; exact Int.le_refl _
    · right; right
      refine ⟨hs, ?_, fun _ h => by cases h⟩
      unfold alphaInit
      rw [if_neg (fun h => hs h.2)]

theorem aup_step {rank : Nat → Nat} (ok : DagOK L rank) {c : Int} (hc : 0 ≤ c)
    (hub : ∀ x y, P.ladd x y ≤ max x y + c)
    {pre : List Link} {l : Link} {post : List Link}
    (hnd : (pre ++ l :: post).Nodup) (hsub : ∀ y ∈ pre ++ l :: post, y ∈ L.links)
    (htopo : Topo L (pre ++ l :: post)) {al : Link → Int}
    (hlb : P.lz ≤ al l + P.sc l) (up : AUp L P c pre al) :
    AUp L P c (pre ++ [l]) (alphaVisit P L al l) := by
  have hl : l ∈ L.links := hsub l (by simp)
  have hlpre : l ∉ pre := fun h => (List.nodup_append.1 hnd).2.2 l h l (by simp) rfl
  obtain ⟨hv_l, hv_exit, hv_other⟩ := alphaVisit_vals (P := P) ok hl al
  have hlen : ((pre ++ [l]).length : Int) = pre.length + 1 := by simp
  have hstep : c * ((pre ++ [l]).length : Int) = c * (pre.length : Int) + c := by
    rw [hlen, Int.mul_add]; omega
  have hcn : 0 ≤ c * (pre.length : Int) := Int.mul_nonneg hc (Int.natCast_nonneg _)
  -- the walk that bounds the value of l
  have hwl : ∃ p, Walk L p l ∧ al l + P.sc l ≤ jointInt P p + c * pre.length := by
    rcases up.pend l hl hlpre with ⟨hs, h0⟩ | ⟨p, l', hp, hd, hle⟩ | ⟨hs, _, hno⟩
    · refine ⟨[l], .single hl hs, ?_⟩
      simp only [jointInt, List.map_cons, List.map_nil, List.sum_cons, List.sum_nil]
      omega
    · exact ⟨p ++ [l], .snoc hp hl hd.symm, by rw [jointInt_snoc]; omega⟩
    · exfalso
      obtain ⟨l', hl', hd⟩ := ok.has_entry l hl hs
      exact hno l' (htopo pre l post rfl l' hl' hd) hd
  obtain ⟨pl, hpl, hple⟩ := hwl
  -- a visited link is no exit of l's target
  have hnex : ∀ y ∈ pre, y ∉ exits L l.dst := by
    intro y hy h
    obtain ⟨pre', post', hsplit⟩ := List.append_of_mem hy
    have : l ∈ pre' := htopo pre' y (post' ++ l :: post) (by rw [hsplit]; simp) l hl (mem_exits.1 h).2.symm
    exact hlpre (by rw [hsplit]; exact List.mem_append_left _ this)
  constructor
  · intro y hy
    rcases List.mem_append.1 hy with hy | hy
    · have hne : y ≠ l := fun h => hlpre (h ▸ hy)
      rw [hv_other y hne (hnex y hy)]
      obtain ⟨p, hp, hle⟩ := up.done y hy
      exact ⟨p, hp, by rw [hstep]; omega⟩
    · simp at hy; subst hy
      rw [hv_l]
      exact ⟨pl, hpl, by rw [hstep]; omega⟩
  · intro y hy hyn
    have hy1 : y ∉ pre := fun h => hyn (List.mem_append_left _ h)
    have hy2 : y ≠ l := fun h => hyn (by rw [h]; simp)
    by_cases hex : y ∈ exits L l.dst
    · -- y receives the contribution of l
      right; left
      rw [hv_exit y hex]
      have hsrc : y.src = l.dst := (mem_exits.1 hex).2
      have h1 := hub (al y) (al l + P.sc l)
      rcases up.pend y hy hy1 with ⟨hs, _⟩ | ⟨p, l', hp, hd, hle⟩ | ⟨_, hz, _⟩
      · exact absurd (hsrc.symm.trans hs) (ok.no_entry_start l hl)
      · by_cases hmx : al y ≤ al l + P.sc l
        · exact ⟨pl, l, hpl, hsrc.symm, by rw [hstep]; omega⟩
        · exact ⟨p, l', hp, hd, by rw [hstep]; omega⟩
      · exact ⟨pl, l, hpl, hsrc.symm, by rw [hstep]; omega⟩
    · rw [hv_other y hy2 hex]
      rcases up.pend y hy hy1 with ⟨hs, h0⟩ | ⟨p, l', hp, hd, hle⟩ | ⟨hs, hz, hno⟩
      · exact Or.inl ⟨hs, h0⟩
      · exact Or.inr (Or.inl ⟨p, l', hp, hd, by rw [hstep]; omega⟩)
      · refine Or.inr (Or.inr ⟨hs, hz, ?_⟩)
        intro l' hl'
        rcases List.mem_append.1 hl' with h | h
        · exact hno l' h
        · simp at h; subst h
          intro hd
          exact hex (mem_exits.2 ⟨hy, hd.symm⟩)

/-- both invariants along the traversal order -/
theorem aboth_fold {rank : Nat → Nat} (ok : DagOK L rank) {c : Int} (hc : 0 ≤ c)
    (hge : ∀ x y, P.lz ≤ x → P.lz ≤ y → max x y ≤ P.ladd x y)
    (hub : ∀ x y, P.ladd x y ≤ max x y + c)
    (hnu : ∀ p x, Walk L p x → P.lz ≤ jointInt P p) :
    ∀ (post pre : List Link) (al : Link → Int), (pre ++ post).Nodup → (∀ y ∈ pre ++ post, y ∈ L.links) →
      Topo L (pre ++ post) → AInv L P pre al → AUp L P c pre al →
      AInv L P (pre ++ post) (post.foldl (alphaVisit P L) al) ∧ AUp L P c (pre ++ post) (post.foldl (alphaVisit P L) al) := by
  intro post
  induction post with
  | nil => intro pre al _ _ _ inv up; simpa using ⟨inv, up⟩
  | cons l post ih =>
    intro pre al hnd hsub htopo inv up
    simp only [List.foldl_cons]
    have h1 := ainv_step ok hge hnu hnd hsub htopo inv
    -- the lower bound of the value of l (from the lower invariant after the visit)
    have hl : l ∈ L.links := hsub l (by simp)
    have hlb : P.lz ≤ al l + P.sc l := by
      have := h1.lb l hl
      rwa [(alphaVisit_vals (P := P) ok hl al).1] at this
    have h2 := aup_step ok hc hub hnd hsub htopo hlb up
    have := ih (pre ++ [l]) _ (by simpa using hnd) (by simpa using hsub) (by simpa using htopo) h1 h2
    simpa using this

/-- every alpha is at most the scaled score of some path from the start ending in its link, plus `c`
per link of the lattice -/
theorem alphaInt_le {rank : Nat → Nat} (ok : DagOK L rank) {c : Int} (hc : 0 ≤ c) (hlz : P.lz ≤ 0)
    (hge : ∀ x y, P.lz ≤ x → P.lz ≤ y → max x y ≤ P.ladd x y)
    (hub : ∀ x y, P.ladd x y ≤ max x y + c)
    (hnu : ∀ p x, Walk L p x → P.lz ≤ jointInt P p) :
    ∀ y ∈ L.links, ∃ p, Walk L p y ∧ alphaInt P L y ≤ jointInt P p + c * L.links.length := by
  obtain ⟨hperm, htopo⟩ := traverse_topological ok
  have hnd : (traverseEdges L).Nodup := (hperm.nodup_iff).2 ok.nodup
  obtain ⟨_, up⟩ := aboth_fold ok hc hge hub hnu (traverseEdges L) [] (alphaInit P L) (by simpa using hnd)
    (by intro y hy; exact hperm.mem_iff.1 (by simpa using hy)) (by simpa using htopo) (ainv_init hlz) (aup_init c)
  simp only [List.nil_append] at up
  intro y hy
  obtain ⟨p, hp, hle⟩ := up.done y (hperm.mem_iff.2 hy)
  exact ⟨p, hp, by rw [hperm.length_eq] at hle; exact hle⟩

/-! ### backward pass -/

theorem jointInt_cons (x : Link) (q : List Link) : jointInt P (x :: q) = P.sc x + jointInt P q := by
  simp [jointInt]

/-- number of log-additions of the backward pass over the links `rest` -/
def addsB (L : Lat) (rest : List Link) : Nat := (rest.map fun l => (exits L l.dst).length).sum

theorem addsB_cons (l : Link) (rest : List Link) : addsB L (l :: rest) = (exits L l.dst).length + addsB L rest := by
  simp [addsB]

/-- the accumulation over the exits of one node: the result is bounded by log-zero or by the score of
a path through one of the exits, plus `c` per addition -/
theorem beta_fold_le {c : Int} (hc : 0 ≤ c) (hub : ∀ x y, P.ladd x y ≤ max x y + c)
    (be : Link → Int) (v : Nat) (K : Int)
    (hx : ∀ x ∈ exits L v, ∃ q, Path L x.dst q L.final ∧ be x ≤ jointInt P q + K) :
    ∀ (xs : List Link) (b : Int) (k : Int), 0 ≤ k → (∀ x ∈ xs, x ∈ exits L v) →
      (b ≤ P.lz + k ∨ ∃ x q, x ∈ exits L v ∧ Path L x.dst q L.final ∧ b ≤ jointInt P (x :: q) + K + k) →
      (xs.foldl (fun b x => P.ladd b (be x + P.sc x)) b ≤ P.lz + (k + c * xs.length) ∨
       ∃ x q, x ∈ exits L v ∧ Path L x.dst q L.final ∧
         xs.foldl (fun b x => P.ladd b (be x + P.sc x)) b ≤ jointInt P (x :: q) + K + (k + c * xs.length)) := by
  intro xs
  induction xs with
  | nil => intro b k _ _ h; simpa using h
  | cons x xs ih =>
    intro b k hk hsub h
    simp only [List.foldl_cons]
    have hxm := hsub x List.mem_cons_self
    obtain ⟨q, hq, hbe⟩ := hx x hxm
    have h1 := hub b (be x + P.sc x)
    have hlen : c * ((x :: xs).length : Int) = c + c * (xs.length : Int) := by
      simp only [List.length_cons, Int.natCast_succ, Int.mul_add]; omega
    have hnext : (P.ladd b (be x + P.sc x) ≤ P.lz + (k + c) ∨
        ∃ x' q', x' ∈ exits L v ∧ Path L x'.dst q' L.final ∧
          P.ladd b (be x + P.sc x) ≤ jointInt P (x' :: q') + K + (k + c)) := by
      by_cases hmx : b ≤ be x + P.sc x
      · right
        refine ⟨x, q, hxm, hq, ?_⟩
        rw [jointInt_cons]; omega
      · rcases h with h | ⟨x', q', h2, h3, h4⟩
        · left; omega
        · right; exact ⟨x', q', h2, h3, by omega⟩
    have := ih (P.ladd b (be x + P.sc x)) (k + c) (by omega) (fun y hy => hsub y (List.mem_cons_of_mem _ hy)) hnext
    rw [hlen]
    rcases this with h | ⟨x', q', h2, h3, h4⟩
    · left; omega
    · right; exact ⟨x', q', h2, h3, by omega⟩

theorem path_first_exit {v w : Nat} {p : List Link} (hp : Path L v p w) (hne : v ≠ w) : ∃ x, x ∈ exits L v := by
  cases hp with
  | nil => exact absurd rfl hne
  | cons hm hs _ => exact ⟨_, mem_exits.2 ⟨hm, hs⟩⟩

/-- upper invariant of the backward pass after the links `rest` (a suffix of the forward order) have been visited -/
def BUp (L : Lat) (P : IntParams) (c : Int) (rest : List Link) (be : Link → Int) : Prop :=
  ∀ y ∈ rest, ∃ q, Path L y.dst q L.final ∧ be y ≤ jointInt P q + c * addsB L rest

theorem bup_foldr {rank : Nat → Nat} (ok : DagOK L rank) {c : Int} (hc : 0 ≤ c)
    (hub : ∀ x y, P.ladd x y ≤ max x y + c)
    (hnuB : ∀ v q, Path L v q L.final → P.lz ≤ jointInt P q)
    {ord : List Link} (hnd : ord.Nodup) (hsub : ∀ y ∈ ord, y ∈ L.links) (hall : ∀ y ∈ L.links, y ∈ ord)
    (htopo : Topo L ord) :
    ∀ (rest done : List Link), ord = done ++ rest →
      BUp L P c rest (rest.foldr (fun l be => betaVisit P L be l) (fun _ => P.lz)) := by
  intro rest
  induction rest with
  | nil => intro _ _ y hy; cases hy
  | cons l rest ih =>
    intro done hord
    have ihr := ih (done ++ [l]) (by rw [hord]; simp)
    simp only [List.foldr_cons]
    generalize hbe : rest.foldr (fun l be => betaVisit P L be l) (fun _ => P.lz) = be at ihr ⊢
    have hl : l ∈ L.links := hsub l (by rw [hord]; simp)
    have hnd' : (done ++ l :: rest).Nodup := hord ▸ hnd
    have hlrest : l ∉ rest := (List.nodup_cons.1 (List.nodup_append.1 hnd').2.1).1
    have hN : 0 ≤ c * (addsB L rest : Int) := Int.mul_nonneg hc (Int.natCast_nonneg _)
    have hNcons : c * (addsB L (l :: rest) : Int) = c * (addsB L rest : Int) + c * ((exits L l.dst).length : Int) := by
      rw [addsB_cons]; simp only [Int.natCast_add, Int.mul_add]; omega
    have hNn : 0 ≤ c * ((exits L l.dst).length : Int) := Int.mul_nonneg hc (Int.natCast_nonneg _)
    intro y hy
    rcases List.mem_cons.1 hy with rfl | hy
    · -- the link just visited
      unfold betaVisit
      by_cases hfin : y.dst = L.final
      · rw [if_pos hfin]
        refine ⟨[], hfin ▸ .nil _, ?_⟩
        simp only [upd, if_pos, jointInt, List.map_nil, List.sum_nil]
        omega
      · rw [if_neg hfin]
        simp only [upd, if_pos]
        -- every exit of the target has been visited already
        have hexits : ∀ x ∈ exits L y.dst, ∃ q, Path L x.dst q L.final ∧ be x ≤ jointInt P q + c * (addsB L rest : Int) := by
          intro x hx
          have hxm := mem_exits.1 hx
          have hxo : x ∈ done ++ y :: rest := hord ▸ hall x hxm.1
          have hxrest : x ∈ rest := by
            rcases List.mem_append.1 hxo with h | h
            · exfalso
              obtain ⟨A1, A2, rfl⟩ := List.append_of_mem h
              have hy1 : y ∈ A1 := htopo A1 x (A2 ++ y :: rest) (by rw [hord]; simp) y hl hxm.2.symm
              have := (List.nodup_append.1 hnd').2.2 y (by simp [hy1]) y (by simp)
              exact this rfl
            · rcases List.mem_cons.1 h with h | h
              · exfalso
                subst h
                have := ok.rank_lt x hl
                rw [hxm.2] at this
                omega
              · exact h
          exact ihr x hxrest
        -- there is at least one exit
        obtain ⟨p0, hp0⟩ := ok.reach_final y hl
        have hne : ∃ x0, x0 ∈ exits L y.dst := path_first_exit hp0 hfin
        obtain ⟨x0, hx0⟩ := hne
        have hfold := beta_fold_le (P := P) hc hub be y.dst (c * (addsB L rest : Int)) hexits
          (exits L y.dst) P.lz 0 (Int.le_refl _) (fun x hx => hx) (Or.inl (by omega))
        rcases hfold with h | ⟨x, q, hx, hq, hle⟩
        · -- only log-zero so far is impossible to be the final form: use any exit and the no-underflow hypothesis
          obtain ⟨q0, hq0, _⟩ := hexits x0 hx0
          have hxm := mem_exits.1 hx0
          have hpath : Path L y.dst (x0 :: q0) L.final := .cons hxm.1 hxm.2 hq0
          have := hnuB _ _ hpath
          exact ⟨x0 :: q0, hpath, by rw [hNcons]; omega⟩
        · have hxm := mem_exits.1 hx
          exact ⟨x :: q, .cons hxm.1 hxm.2 hq, by rw [hNcons]; omega⟩
    · -- an earlier visited link keeps its value
      have hne : y ≠ l := fun h => hlrest (h ▸ hy)
      obtain ⟨q, hq, hle⟩ := ihr y hy
      refine ⟨q, hq, ?_⟩
      have hval : betaVisit P L be l y = be y := by
        unfold betaVisit
        split <;> simp [upd, hne]
      rw [hval, hNcons]; omega

/-- every beta is at most the scaled score of some path from its link's target to the end node, plus `c`
per log-addition of the backward pass -/
theorem betaInt_le {rank : Nat → Nat} (ok : DagOK L rank) {c : Int} (hc : 0 ≤ c)
    (hub : ∀ x y, P.ladd x y ≤ max x y + c)
    (hnuB : ∀ v q, Path L v q L.final → P.lz ≤ jointInt P q) :
    ∀ y ∈ L.links, ∃ q, Path L y.dst q L.final ∧ betaInt P L y ≤ jointInt P q + c * addsB L (traverseEdges L) := by
  obtain ⟨hperm, htopo⟩ := traverse_topological ok
  have hnd : (traverseEdges L).Nodup := (hperm.nodup_iff).2 ok.nodup
  have := bup_foldr ok hc hub hnuB hnd (fun y hy => hperm.mem_iff.1 hy) (fun y hy => hperm.mem_iff.2 hy) htopo
    (traverseEdges L) [] (by simp)
  intro y hy
  have h := this y (hperm.mem_iff.2 hy)
  unfold betaInt
  rw [List.foldl_reverse]
  exact h

end SSVerif.Lattice
