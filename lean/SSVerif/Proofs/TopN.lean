import SSVerif.Model.TopN
/-! The full scan of `eval_cb` ends in the same list whatever distinct codewords it started from. -/
namespace SSVerif.TopN

/-- what holds of the list after the first `k` codewords have been scanned -/
structure Good (sc : Nat → Int) (n N k : Nat) (a : List Entry) : Prop where
  len : a.length = N
  sorted : a.Pairwise (fun x y => x.2 ≤ y.2)
  /-- every entry carries the current frame's score of a valid codeword (this is what `eval_topn` establishes) -/
  cons : ∀ e ∈ a, e.2 = sc e.1 ∧ e.1 < n
  nodup : (a.map (·.1)).Nodup
  /-- every scanned codeword that is not in the list scores no better than any entry -/
  rest : ∀ x, x < k → x ∉ a.map (·.1) → ∀ e ∈ a, sc x ≤ e.2

theorem mem_insAsc (c : Nat) (d : Int) (l : List Entry) (x : Entry) :
    x ∈ insAsc c d l ↔ x = (c, d) ∨ x ∈ l := by
  induction l with
  | nil => simp [insAsc]
  | cons e rest ih =>
    unfold insAsc
    by_cases h : e.2 ≤ d
    · simp only [h, if_true, List.mem_cons, ih]
      constructor
      · rintro (h1 | h1 | h1)
        · exact Or.inr (Or.inl h1)
        · exact Or.inl h1
        · exact Or.inr (Or.inr h1)
      · rintro (h1 | h1 | h1)
        · exact Or.inr (Or.inl h1)
        · exact Or.inl h1
        · exact Or.inr (Or.inr h1)
    · simp only [h, if_false, List.mem_cons]

theorem length_insAsc (c : Nat) (d : Int) (l : List Entry) : (insAsc c d l).length = l.length + 1 := by
  induction l with
  | nil => simp [insAsc]
  | cons e rest ih =>
    unfold insAsc
    by_cases h : e.2 ≤ d
    · simp [h, ih]
    · simp [h]

theorem pairwise_insAsc (c : Nat) (d : Int) (l : List Entry)
    (hs : l.Pairwise (fun x y => x.2 ≤ y.2)) : (insAsc c d l).Pairwise (fun x y => x.2 ≤ y.2) := by
  induction l with
  | nil => simp [insAsc]
  | cons e rest ih =>
    rw [List.pairwise_cons] at hs
    unfold insAsc
    by_cases h : e.2 ≤ d
    · simp only [h, if_true, List.pairwise_cons]
      refine ⟨?_, ih hs.2⟩
      intro y hy
      rw [mem_insAsc] at hy
      cases hy with
      | inl h1 => subst h1; exact h
      | inr h1 => exact hs.1 y h1
    · simp only [h, if_false, List.pairwise_cons]
      have hd : d ≤ e.2 := by omega
      refine ⟨?_, hs.1, hs.2⟩
      intro y hy
      rw [List.mem_cons] at hy
      cases hy with
      | inl h1 => subst h1; exact hd
      | inr h1 => have h2 : e.2 ≤ y.2 := hs.1 y h1; show d ≤ y.2; omega

theorem mem_map_insAsc (c : Nat) (d : Int) (l : List Entry) (x : Nat) :
    x ∈ (insAsc c d l).map (·.1) ↔ x = c ∨ x ∈ l.map (·.1) := by
  simp only [List.mem_map, mem_insAsc]
  constructor
  · rintro ⟨e, he | he, rfl⟩
    · subst he; exact Or.inl rfl
    · exact Or.inr ⟨e, he, rfl⟩
  · rintro (h | ⟨e, he, rfl⟩)
    · exact ⟨(c, d), Or.inl rfl, h.symm⟩
    · exact ⟨e, Or.inr he, rfl⟩

theorem nodup_insAsc (c : Nat) (d : Int) (l : List Entry) (hn : (l.map (·.1)).Nodup)
    (hc : c ∉ l.map (·.1)) : ((insAsc c d l).map (·.1)).Nodup := by
  induction l with
  | nil => simp [insAsc]
  | cons e rest ih =>
    simp only [List.map_cons, List.nodup_cons, List.mem_cons, not_or] at hn hc
    unfold insAsc
    by_cases h : e.2 ≤ d
    · simp only [h, if_true, List.map_cons, List.nodup_cons]
      refine ⟨?_, ih hn.2 hc.2⟩
      rw [mem_map_insAsc]
      rintro (h1 | h1)
      · exact hc.1 h1.symm
      · exact hn.1 h1
    · simp only [h, if_false, List.map_cons, List.nodup_cons, List.mem_cons, not_or]
      exact ⟨⟨hc.1, hc.2⟩, hn.1, hn.2⟩

/-- scanning codeword `k` keeps the invariant -/
theorem step_good (sc : Nat → Int) (n N k : Nat) (a : List Entry) (hk : k < n) (g : Good sc n N k a) :
    Good sc n N (k + 1) (scanStep sc a k) := by
  cases a with
  | nil =>
    exact ⟨g.len, by simp [scanStep], by simp [scanStep], by simp [scanStep], by simp [scanStep]⟩
  | cons w rest =>
    have hs := g.sorted
    rw [List.pairwise_cons] at hs
    unfold scanStep
    by_cases h1 : sc k < w.2
    · simp only [h1, if_true]
      refine ⟨g.len, g.sorted, g.cons, g.nodup, ?_⟩
      intro x hx hxn e he
      by_cases hxk : x = k
      · subst hxk
        rw [List.mem_cons] at he
        cases he with
        | inl h => subst h; omega
        | inr h => have h2 : w.2 ≤ e.2 := hs.1 e h; omega
      · exact g.rest x (by omega) hxn e he
    · simp only [h1, if_false]
      by_cases h2 : k ∈ (w :: rest).map (·.1)
      · simp only [h2, if_true]
        refine ⟨g.len, g.sorted, g.cons, g.nodup, ?_⟩
        intro x hx hxn e he
        by_cases hxk : x = k
        · subst hxk; exact absurd h2 hxn
        · exact g.rest x (by omega) hxn e he
      · simp only [h2, if_false]
        have hw : w.2 ≤ sc k := by omega
        have hnd := g.nodup
        simp only [List.map_cons, List.nodup_cons] at hnd
        have hkrest : k ∉ rest.map (·.1) := by
          intro hm; exact h2 (by simp only [List.map_cons, List.mem_cons]; exact Or.inr hm)
        refine ⟨?_, pairwise_insAsc _ _ _ hs.2, ?_, nodup_insAsc _ _ _ hnd.2 hkrest, ?_⟩
        · rw [length_insAsc]; have := g.len; simpa using this
        · intro e he
          rw [mem_insAsc] at he
          cases he with
          | inl h => subst h; exact ⟨rfl, hk⟩
          | inr h => exact g.cons e (List.mem_cons_of_mem _ h)
        · intro x hx hxn e he
          rw [mem_map_insAsc] at hxn
          have hxk : x ≠ k := fun h => hxn (Or.inl h)
          have hxr : x ∉ rest.map (·.1) := fun h => hxn (Or.inr h)
          rw [mem_insAsc] at he
          by_cases hxw : x = w.1
          · -- the dropped (worst) entry
            have hscw : w.2 = sc w.1 := (g.cons w (List.mem_cons_self ..)).1
            cases he with
            | inl h => subst h; subst hxw; show sc w.1 ≤ sc k; omega
            | inr h => have h2 : w.2 ≤ e.2 := hs.1 e h; subst hxw; omega
          · have hxa : x ∉ (w :: rest).map (·.1) := by
              simp only [List.map_cons, List.mem_cons, not_or]; exact ⟨hxw, hxr⟩
            have hold := g.rest x (by omega) hxa
            cases he with
            | inl h => subst h; have h3 := hold w (List.mem_cons_self ..); show sc x ≤ sc k; omega
            | inr h => exact hold e (List.mem_cons_of_mem _ h)

theorem scan_good (sc : Nat → Int) (n N : Nat) (a : List Entry) (g : Good sc n N 0 a) :
    ∀ m, m ≤ n → Good sc n N m ((List.range m).foldl (scanStep sc) a) := by
  intro m
  induction m with
  | zero => intro _; simpa using g
  | succ m ih =>
    intro hm
    rw [List.range_succ, List.foldl_append]
    simp only [List.foldl_cons, List.foldl_nil]
    exact step_good sc n N m _ (by omega) (ih (by omega))

/-- with pairwise different scores there is only one list that satisfies the invariant after the full scan -/
theorem good_unique (sc : Nat → Int) (n N : Nat)
    (hinj : ∀ x y, x < n → y < n → sc x = sc y → x = y) (a b : List Entry)
    (ga : Good sc n N n a) (gb : Good sc n N n b) : a = b := by
  -- the codeword sets coincide
  have sub : ∀ (a b : List Entry), Good sc n N n a → Good sc n N n b →
      ∀ c, c ∈ a.map (·.1) → c ∈ b.map (·.1) := by
    intro a b ga gb c hca
    refine Classical.byContradiction fun hcb => ?_
    -- some codeword of b is not in a (pigeonhole)
    have hex : ∃ y, y ∈ b.map (·.1) ∧ y ∉ a.map (·.1) := by
      refine Classical.byContradiction fun hno => ?_
      have hall : ∀ y, y ∈ b.map (·.1) → y ∈ (a.map (·.1)).erase c := by
        intro y hy
        have hya : y ∈ a.map (·.1) := Classical.byContradiction fun h => hno ⟨y, hy, h⟩
        have hyc : y ≠ c := fun h => hcb (h ▸ hy)
        exact (List.mem_erase_of_ne hyc).2 hya
      have hle := List.Nodup.length_le_of_subset gb.nodup hall
      rw [List.length_erase_of_mem hca] at hle
      simp only [List.length_map] at hle
      have hpos : 0 < a.length := by
        cases a with
        | nil => simp at hca
        | cons _ _ => simp
      have := ga.len; have := gb.len; omega
    obtain ⟨y, hyb, hya⟩ := hex
    obtain ⟨ec, hec, hec1⟩ := List.mem_map.1 hca
    obtain ⟨ey, hey, hey1⟩ := List.mem_map.1 hyb
    have hcn : c < n := hec1 ▸ (ga.cons ec hec).2
    have hyn : y < n := hey1 ▸ (gb.cons ey hey).2
    have h1 := ga.rest y hyn hya ec hec          -- sc y ≤ ec.2 = sc c
    have h2 := gb.rest c hcn hcb ey hey          -- sc c ≤ ey.2 = sc y
    have e1 := (ga.cons ec hec).1
    have e2 := (gb.cons ey hey).1
    rw [hec1] at e1
    rw [hey1] at e2
    have : sc c = sc y := by omega
    have hcy := hinj c y hcn hyn this
    exact hcb (hcy ▸ hyb)
  have memiff : ∀ e, e ∈ a ↔ e ∈ b := by
    have one : ∀ (a b : List Entry), Good sc n N n a → Good sc n N n b → ∀ e, e ∈ a → e ∈ b := by
      intro a b ga gb e he
      have hc := sub a b ga gb e.1 (List.mem_map.2 ⟨e, he, rfl⟩)
      obtain ⟨e', he', h1⟩ := List.mem_map.1 hc
      have s1 := (ga.cons e he).1
      have s2 := (gb.cons e' he').1
      have : e' = e := by
        apply Prod.ext
        · exact h1
        · rw [s2, s1, h1]
      exact this ▸ he'
    exact fun e => ⟨one a b ga gb e, one b a gb ga e⟩
  have nda : a.Nodup := List.Pairwise.of_map (S := fun x y => x ≠ y) (fun e : Entry => e.1)
    (fun _ _ h hab => h (by rw [hab])) ga.nodup
  have ndb : b.Nodup := List.Pairwise.of_map (S := fun x y => x ≠ y) (fun e : Entry => e.1)
    (fun _ _ h hab => h (by rw [hab])) gb.nodup
  have hperm : a.Perm b := (List.perm_ext_iff_of_nodup nda ndb).2 memiff
  refine List.Perm.eq_of_pairwise (le := fun x y => x.2 ≤ y.2) ?_ ga.sorted gb.sorted hperm
  intro x y hx hy hxy hyx
  have s1 := ga.cons x hx
  have s2 := gb.cons y hy
  have : sc x.1 = sc y.1 := by omega
  have h1 := hinj x.1 y.1 s1.2 s2.2 this
  apply Prod.ext h1
  omega

end SSVerif.TopN
