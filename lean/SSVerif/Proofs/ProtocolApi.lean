import SSVerif.Model.ProtocolApi
import SSVerif.Proofs.ProtocolSys
import SSVerif.Props.C09
/-! helper lemmas for the API-level model (`Model/ProtocolApi.lean`): the system component of every API-level step is
reached by base-level steps (well-formedness carries over), listed out-of-order calls are no-ops, and the releasing
history `releaseAll` empties every table -/
namespace SSVerif.Protocol


@[simp] theorem setCreated_sys (x : XState) (i : Inst) (v n : Bool) : (x.setCreated i v n).sys = x.sys := by
  cases i <;> rfl
@[simp] theorem setProc_sys (x : XState) (i : Inst) (v : Bool) : (x.setProc i v).sys = x.sys := by
  cases i <;> rfl
@[simp] theorem setCreated_strs (x : XState) (i : Inst) (v n : Bool) : (x.setCreated i v n).strs = x.strs := by
  cases i <;> rfl
@[simp] theorem setProc_strs (x : XState) (i : Inst) (v : Bool) : (x.setProc i v).strs = x.strs := by
  cases i <;> rfl
@[simp] theorem postBase_sys (x1 : XState) (c : SysCall) (cons : Bool) (r : Ret) : (postBase x1 c cons r).sys = x1.sys := by
  unfold postBase; split <;> (try split) <;> simp
@[simp] theorem postBase_strs (x1 : XState) (c : SysCall) (cons : Bool) (r : Ret) : (postBase x1 c cons r).strs = x1.strs := by
  unfold postBase; split <;> (try split) <;> simp

theorem baseStep_wf (x : XState) (c : SysCall) (cons : Bool) (h : SysWF x.sys) : SysWF (baseStep x c cons).1.sys := by
  unfold baseStep
  simp only []
  split
  · exact h
  · split
    · exact sysStep_wf _ _ h
    · simpa using sysStep_wf _ _ h

theorem xStep_wf (x : XState) (c : XCall) (h : SysWF x.sys) : SysWF (xStep x c).1.sys := by
  have w1 : ∀ c1, SysWF (sysStep x.sys c1).1 := fun c1 => sysStep_wf _ _ h
  have w2 : ∀ c1 c2, SysWF (sysStep (sysStep x.sys c1).1 c2).1 := fun c1 c2 => sysStep_wf _ _ (w1 c1)
  unfold xStep
  split
  · exact h
  · unfold xCore
    split <;> (try simp only []) <;> (repeat' split) <;>
        first
        | exact h
        | exact baseStep_wf _ _ _ h
        | (simp; first | exact h | exact w1 _ | exact w2 _ _)



theorem setInst_inst (s : Sys) (i : Inst) : s.setInst i (s.inst i) = s := by cases i <;> rfl

/-- the documented error value of an API-level call -/
def errorValueX : XCall → Ret
  | .base (.dec _ c) _ => errorValue c
  | _ => .null

theorem error_is_noop (x : XState) (c : XCall) (h : outOfOrderX x c) : xStep x c = (x, errorValueX c) := by
  cases c with
  | base sc cons =>
    cases sc with
    | dec i dc =>
      obtain ⟨hc, ho⟩ := h
      have hst := C09_out_of_order_is_noop (x.sys.inst i) dc ho
      have hns : needsSys dc = false := by cases dc <;> simp_all [outOfOrder, needsSys]
      have hb : blocked x (.base (.dec i dc) cons) = false := by
        simp [blocked, instOfX, instOf, hc, usesDecCfg]
      have hq : quietCall x (.dec i dc) = true := by simp [quietCall, ho]
      have hne : errorValue dc ≠ .oop := by cases dc <;> simp [errorValue]
      have hx : xCore x (.base (.dec i dc) cons) = baseStep x (.dec i dc) cons := by
        unfold xCore; rfl
      simp only [xStep, hb, Bool.false_eq_true, if_false, hx, baseStep, sysStep, hns, hst, hq, if_true, setInst_inst,
        errorValueX]
      simp [hne]
    | _ => simp [outOfOrderX] at h
  | hypHold i k e =>
    obtain ⟨hc, h0, hs⟩ := h
    have hb : blocked x (.hypHold i k e) = false := by simp [blocked, instOfX, hc, usesDecCfg]
    simp [xStep, hb, xCore, sysStep, needsSys, step, h0, hs, ptrIf, errorValueX]
  | _ => simp [outOfOrderX] at h



theorem findIter_head (it : Iter) (rest : List Iter) : findIter (it :: rest) it.id = some it := by
  simp [findIter, List.find?]

theorem removeIter_head_lt (it : Iter) (rest : List Iter) : (removeIter (it :: rest) it.id).length < (it :: rest).length := by
  simp only [removeIter, List.filter, bne_self_eq_false, List.length_cons]
  exact Nat.lt_succ_of_le (List.length_filter_le _ _)

theorem invalidate_length (p : IterKind → Bool) (l : List Iter) : (invalidate p l).length = l.length := by
  simp [invalidate]

/-- the next release of an instance succeeds and strictly decreases what the instance holds -/
theorem nextI_step (s : ApiState) (c : Call) (h : nextI s = some c) :
    (step s c).2 ≠ .oop ∧ heldI (step s c).1 < heldI s ∧ needsSys c = false ∧ takesDec c = (c == .free)
      ∧ ¬ outOfOrder s c := by
  unfold nextI at h
  split at h
  · -- an iterator
    rename_i it rest hi
    injection h with h; subst h
    have hf := findIter_head it rest
    have hl := removeIter_head_lt it rest
    rw [← hi] at hf hl
    unfold freeCall
    cases hk : it.kind <;>
      simp [step, hf, hk, isSeg, isHyp, isAli, isLatN, isLatL, heldI, needsSys, takesDec, outOfOrder] <;> omega
  · split at h
    · rename_i p rest hl
      injection h with h; subst h
      have hlo : (latObj s.lats p.1).isSome = true := by simp [latObj, hl, List.find?]
      have hlen : (s.lats.filter (·.1 != p.1)).length < s.lats.length := by
        rw [hl]
        simp only [List.filter, bne_self_eq_false, List.length_cons]
        exact Nat.lt_succ_of_le (List.length_filter_le _ _)
      simp [step, hlo, heldI, invalidate_length, needsSys, takesDec, outOfOrder]
      exact ⟨p.2, by simp [hl]⟩
    · split at h
      · rename_i k rest ha
        injection h with h; subst h
        have hm : k ∈ s.alns := by simp [ha]
        have hlen : (s.alns.filter (· != k)).length < s.alns.length := by
          rw [ha]
          simp only [List.filter, bne_self_eq_false, List.length_cons]
          exact Nat.lt_succ_of_le (List.length_filter_le _ _)
        simp [step, hm, heldI, invalidate_length, needsSys, takesDec, outOfOrder]
      · split at h
        · rename_i h0
          injection h with h; subst h
          by_cases h1 : s.refs = 1
          · simp [step, h0, h1, heldI, dropDecoderOwned, invalidate_length, needsSys, takesDec, outOfOrder]
          · simp [step, h0, h1, heldI, needsSys, takesDec, outOfOrder]; omega
        · cases h

theorem nextI_none (s : ApiState) (h : nextI s = none) : Closed s := by
  unfold nextI at h
  cases hi : s.iters with
  | cons it r => simp [hi] at h
  | nil =>
    cases hl : s.lats with
    | cons p r => simp [hi, hl] at h
    | nil =>
      cases ha : s.alns with
      | cons k r => simp [hi, hl, ha] at h
      | nil =>
        simp [hi, hl, ha] at h
        exact ⟨h, hi, hl, ha⟩

theorem filter_head_lt {α : Type} (p : α → Bool) (a : α) (l : List α) (h : p a = false) :
    ((a :: l).filter p).length < (a :: l).length := by
  simp only [List.filter, h, List.length_cons]
  exact Nat.lt_succ_of_le (List.length_filter_le _ _)

theorem blockedCreated_release (i : Inst) (dc : Call) (b : Bool) (h : takesDec dc = (dc == .free)) :
    blockedCreated (.base (.dec i dc) b) = false := by
  cases dc <;> simp_all [blockedCreated, takesDec]

/-- a base call that the base level accepts, that is neither blocked nor a listed out-of-order call: the API level
follows the base level -/
theorem xStep_base (x : XState) (c : SysCall) (cons : Bool) (hb : blocked x (.base c cons) = false)
    (hk : ∀ i, c ≠ .reinitKeep i) (hr : (sysStep x.sys c).2 ≠ .oop) (hq : quietCall x c = false) :
    (xStep x (.base c cons)).2 = (sysStep x.sys c).2 ∧ (xStep x (.base c cons)).1.sys = (sysStep x.sys c).1
      ∧ (xStep x (.base c cons)).1.strs = x.strs := by
  have hx : xCore x (.base c cons) = baseStep x c cons := by
    unfold xCore
    cases c <;> first | rfl | (exfalso; exact hk _ rfl)
  simp [xStep, hb, hx, baseStep, hr, hq]

theorem held_setInst (x x' : XState) (i : Inst) (s' : ApiState) (h1 : x'.sys = x.sys.setInst i s') (h2 : x'.strs = x.strs) :
    held x' + heldI (x.sys.inst i) = held x + heldI s' := by
  cases i <;> simp [held, h1, h2, Sys.setInst, Sys.inst] <;> omega


theorem nextRelease_none (x : XState) (h : nextRelease x = none) : XClosed x := by
  unfold nextRelease at h
  cases ha : nextI x.sys.da with
  | some c => simp [ha] at h
  | none =>
    cases hb : nextI x.sys.db with
    | some c => simp [ha, hb] at h
    | none =>
      cases h1 : x.sys.cfgSlots with
      | cons p r => simp [ha, hb, h1] at h
      | nil =>
        cases h2 : x.sys.subs with
        | cons p r => simp [ha, hb, h1, h2] at h
        | nil =>
          cases h3 : x.sys.mllrs with
          | cons p r => simp [ha, hb, h1, h2, h3] at h
          | nil =>
            cases h4 : x.strs with
            | cons p r => simp [ha, hb, h1, h2, h3, h4] at h
            | nil => exact ⟨⟨nextI_none _ ha, nextI_none _ hb, h1, h2, h3⟩, h4⟩

theorem release_dec (x : XState) (i : Inst) (dc : Call) (h : nextI (x.sys.inst i) = some dc) :
    (xStep x (.base (.dec i dc) false)).2 ≠ .oop ∧ held (xStep x (.base (.dec i dc) false)).1 < held x := by
  obtain ⟨h1, h2, h3, h4, h5⟩ := nextI_step _ _ h
  have hb : blocked x (.base (.dec i dc) false) = false := by
    simp [blocked, instOfX, instOf, blockedCreated_release i dc false h4, usesDecCfg]
  have hs : sysStep x.sys (.dec i dc) = (x.sys.setInst i (step (x.sys.inst i) dc).1, (step (x.sys.inst i) dc).2) := by
    simp [sysStep, h3]
  have hq : quietCall x (.dec i dc) = false := by simp [quietCall, h5]
  obtain ⟨r1, r2, r3⟩ := xStep_base x (.dec i dc) false hb (by intro j; simp) (by rw [hs]; exact h1) hq
  rw [hs] at r1 r2
  refine ⟨by rw [r1]; exact h1, ?_⟩
  have := held_setInst x _ i _ r2 r3
  omega

theorem release_step (x : XState) (c : XCall) (h : nextRelease x = some c) :
    (xStep x c).2 ≠ .oop ∧ held (xStep x c).1 < held x := by
  unfold nextRelease at h
  cases ha : nextI x.sys.da with
  | some dc =>
    simp only [ha] at h; injection h with h; subst h
    exact release_dec x .a dc ha
  | none =>
    cases hb : nextI x.sys.db with
    | some dc =>
      simp only [ha, hb] at h; injection h with h; subst h
      exact release_dec x .b dc hb
    | none =>
      cases h1 : x.sys.cfgSlots with
      | cons p r =>
        simp only [ha, hb, h1] at h; injection h with h; subst h
        have hlen := filter_head_lt (fun q : Nat × Nat => q.1 != p.1) p r (by simp)
        obtain ⟨r1, r2, r3⟩ := xStep_base x (.cfgFree p.1) false (by simp [blocked, instOfX, instOf]) (by intro j; simp)
          (by simp [sysStep, slotObj, h1]) (by simp [quietCall])
        refine ⟨by rw [r1]; simp [sysStep, slotObj, h1], ?_⟩
        simp only [held, r2, r3]
        simp [sysStep, slotObj, h1]
        simp at hlen
        omega
      | nil =>
        cases h2 : x.sys.subs with
        | cons p r =>
          simp only [ha, hb, h1, h2] at h; injection h with h; subst h
          have hlen := filter_head_lt (fun q : SubKind × Nat => q != (p.1, p.2)) p r (by simp)
          obtain ⟨r1, r2, r3⟩ := xStep_base x (.subFree p.1 p.2) false (by simp [blocked, instOfX, instOf]) (by intro j; simp)
            (by simp [sysStep, h2]) (by simp [quietCall])
          refine ⟨by rw [r1]; simp [sysStep, h2], ?_⟩
          simp only [held, r2, r3]
          simp [sysStep, h2]
          simp at hlen
          omega
        | nil =>
          cases h3 : x.sys.mllrs with
          | cons k r =>
            simp only [ha, hb, h1, h2, h3] at h; injection h with h; subst h
            have hlen := filter_head_lt (fun q : Nat => q != k) k r (by simp)
            obtain ⟨r1, r2, r3⟩ := xStep_base x (.mllrFree k) false (by simp [blocked, instOfX, instOf]) (by intro j; simp)
              (by simp [sysStep, h3]) (by simp [quietCall])
            refine ⟨by rw [r1]; simp [sysStep, h3], ?_⟩
            simp only [held, r2, r3]
            simp [sysStep, h3]
            simp at hlen
            omega
          | nil =>
            cases h4 : x.strs with
            | cons k r =>
              simp only [ha, hb, h1, h2, h3, h4] at h; injection h with h; subst h
              have hlen := filter_head_lt (fun q : Nat => q != k) k r (by simp)
              simp [xStep, blocked, instOfX, xCore, h4, held]
              simp at hlen
              omega
            | nil => simp [ha, hb, h1, h2, h3, h4] at h

/-- running the releasing calls closes the state; none of them is out-of-protocol -/
theorem drain_closed : ∀ (n : Nat) (x : XState), held x ≤ n →
    XClosed (xRun x (drain n x)) ∧ ∀ r ∈ xRets x (drain n x), r ≠ .oop := by
  intro n
  induction n with
  | zero =>
    intro x hx
    have h0 : nextRelease x = none := by
      cases hn : nextRelease x with
      | none => rfl
      | some c => have := (release_step x c hn).2; omega
    exact ⟨by simpa [drain, xRun] using nextRelease_none x h0, by simp [drain, xRets]⟩
  | succ n ih =>
    intro x hx
    cases hn : nextRelease x with
    | none => exact ⟨by simpa [drain, hn, xRun] using nextRelease_none x hn, by simp [drain, hn, xRets]⟩
    | some c =>
      obtain ⟨h1, h2⟩ := release_step x c hn
      obtain ⟨i1, i2⟩ := ih (xStep x c).1 (by omega)
      refine ⟨by simpa [drain, hn, xRun] using i1, ?_⟩
      intro r hr
      simp only [drain, hn, xRets, List.mem_cons] at hr
      rcases hr with rfl | hr
      · exact h1
      · exact i2 r hr

end SSVerif.Protocol
