import SSVerif.Proofs.LexFlatPaths
import SSVerif.Model.LexCoverHyps
/-!
# Every leaf pnode of the lextree the code builds has a context bit (C02: discharges `leafCtxB` for `buildLexTree`)

`LB a`: a leaf of the pnode array has a non-empty context set.  Every step of `psubtree_add_trans` keeps it: a single-phone word's
pnode is allocated with its left-context bit, a filler's with all bits, a word-final pnode gets the bit of the right context it is
allocated for in the same step; context bits are only ever added; the pointer updates do not touch them.  Core Lean only.
-/
namespace SSVerif.LexCover
open SSVerif.Search SSVerif.LexFlat SSVerif.Hist

def LB (a : Array PNode) : Prop := ∀ p, (ndOf a p).leaf = true → (ndOf a p).ctxt ≠ 0

theorem lb_empty : LB #[] := fun p h => by
  rw [ndOf_ge _ (by simp)] at h; cases h

theorem or_bit_ne (x c : Nat) : x ||| (1 <<< c) ≠ 0 := by
  intro h
  have h2 := (Nat.or_eq_zero_iff.1 h).2
  rw [Nat.one_shiftLeft] at h2
  exact absurd h2 (Nat.pos_iff_ne_zero.1 (Nat.two_pow_pos c))

theorem lb_push {a : Array PNode} {n : PNode} (h : LB a) (hn : n.leaf = true → n.ctxt ≠ 0) : LB (a.push n) := by
  intro p hl
  rcases Nat.lt_trichotomy p a.size with h1 | h1 | h1
  · rw [ndOf_push_lt a n h1] at hl ⊢; exact h p hl
  · subst h1; rw [ndOf_push_eq] at hl ⊢; exact hn hl
  · rw [ndOf_ge _ (by rw [Array.size_push]; omega)] at hl; cases hl

theorem lb_amod {a : Array PNode} {p : Nat} {f : PNode → PNode} (h : LB a)
    (hf : ∀ n, (n.leaf = true → n.ctxt ≠ 0) → (f n).leaf = true → (f n).ctxt ≠ 0) : LB (amod a p f) := by
  intro q hl
  by_cases hq : q < a.size
  · rw [ndOf_modify a p f hq] at hl ⊢
    by_cases hpq : p = q
    · rw [if_pos hpq] at hl ⊢; exact hf _ (h q) hl
    · rw [if_neg hpq] at hl ⊢; exact h q hl
  · rw [ndOf_ge _ (by rw [size_amod]; omega)] at hl; cases hl

theorem lb_addCtxt {a : Array PNode} (h : LB a) (p c : Nat) : LB (addCtxt a p c) :=
  lb_amod h fun n _ _ => or_bit_ne n.ctxt c

theorem lb_setSucc {a : Array PNode} (h : LB a) (p : Nat) (q : Option Nat) : LB (setSucc a p q) :=
  lb_amod h fun _ hn hl => hn hl

theorem lb_setSibling {a : Array PNode} (h : LB a) (p : Nat) (q : Option Nat) : LB (setSibling a p q) :=
  lb_amod h fun _ hn hl => hn hl

/-- allocate a pnode and set a context bit in it (word-initial and word-final pnodes) -/
theorem lb_push_addCtxt {a : Array PNode} (h : LB a) (n : PNode) (c : Nat) : LB (addCtxt (a.push n) a.size c) := by
  intro q hl
  have hsz : (a.push n).size = a.size + 1 := Array.size_push ..
  by_cases hq : q < a.size + 1
  · unfold addCtxt at hl ⊢
    rw [ndOf_modify _ _ _ (by omega)] at hl ⊢
    by_cases hpq : a.size = q
    · rw [if_pos hpq]; exact or_bit_ne _ c
    · rw [if_neg hpq] at hl ⊢
      rw [ndOf_push_lt a n (by omega)] at hl ⊢
      exact h q hl
  · rw [ndOf_ge _ (by unfold addCtxt; rw [size_amod]; omega)] at hl; cases hl

theorem foldl_inv {α β : Type} (P : β → Prop) (f : β → α → β) (hf : ∀ b x, P b → P (f b x)) : ∀ (l : List α) (b : β), P b → P (l.foldl f b)
  | [], _, h => h
  | x :: rest, b, h => foldl_inv P f hf rest (f b x) (hf b x h)

theorem lb_singleStep (li : LexIn) (s lid ci : Nat) (logp : Int) (st : LcSt) (lc : Nat) (h : LB st.nodes) :
    LB (singleStep li s lid ci logp st lc).nodes := by
  unfold singleStep
  dsimp only
  split
  · exact lb_addCtxt h _ _
  · exact lb_push h (fun _ => by show (1 <<< lc) ≠ 0; have := or_bit_ne 0 lc; rw [Nat.zero_or] at this; exact this)

theorem lb_rootStep (li : LexIn) (s ci rc : Nat) (st : LcSt) (lc : Nat) (h : LB st.nodes) : LB (rootStep li s ci rc st lc).nodes := by
  unfold rootStep
  dsimp only
  split
  · exact lb_addCtxt h _ _
  · exact lb_push_addCtxt h _ _

theorem lb_leafStep (li : LexIn) (s lid ci lc p : Nat) (logp : Int) (st : RcSt) (rc : Nat) (h : LB st.nodes) :
    LB (leafStep li s lid ci lc p logp st rc).nodes := by
  unfold leafStep
  split
  · exact lb_addCtxt h _ _
  · exact lb_push_addCtxt h _ _

theorem lb_attachOne {a : Array PNode} (h : LB a) (pred : Nat) (head : Option Nat) : LB (attachOne a pred head) := by
  unfold attachOne
  split
  · exact lb_setSucc h _ _
  · exact lb_setSibling h _ _

theorem lb_attachRoots (head : Option Nat) : ∀ (l : List Nat) (a : Array PNode), LB a → LB (attachRoots a head l)
  | [], a, h => h
  | r :: rest, a, h => by
    unfold attachRoots
    split
    · exact lb_attachRoots head rest _ (lb_setSucc h _ _)
    · exact lb_setSibling h _ _

theorem lb_phoneStep (li : LexIn) (s lid : Nat) (w : WordInfo) (logp : Int) (rclist lcl : List Nat) (st : PhSt) (p : Nat)
    (h : LB st.nodes) : LB (phoneStep li s lid w logp rclist lcl st p).nodes := by
  unfold phoneStep
  split
  · split
    · exact h
    · split
      · exact foldl_inv LB _ (fun b x hb => lb_setSucc hb _ _) lcl _ (lb_push h (fun hl => by cases hl))
      · exact lb_setSucc (lb_push h (fun hl => by cases hl)) _ _
  · have hr : LB (rclist.foldl (leafStep li s lid (w.pron.getD p 0) (w.pron.getD (p - 1) 0) p logp) { nodes := st.nodes }).nodes :=
      foldl_inv (fun (r : RcSt) => LB r.nodes) _ (fun b x hb => lb_leafStep li s lid _ _ p logp b x hb) rclist _ h
    split
    · exact lb_attachRoots _ lcl _ hr
    · exact lb_attachOne hr _ _

theorem ctxtAll_ne : ctxtAll ≠ 0 := by decide

theorem lb_rootFold (li : LexIn) (s ci rc : Nat) (lclist : List Nat) (st : LcSt) (h : LB st.nodes) :
    LB (lclist.foldl (rootStep li s ci rc) st).nodes :=
  foldl_inv (fun (r : LcSt) => LB r.nodes) _ (fun b x hb => lb_rootStep li s ci rc b x hb) lclist _ h

theorem lb_phones (li : LexIn) (s lid : Nat) (w : WordInfo) (logp : Int) (rclist lcl : List Nat) (l : List Nat) (st : PhSt)
    (h : LB st.nodes) : LB (l.foldl (phoneStep li s lid w logp rclist lcl) st).nodes :=
  foldl_inv (fun (r : PhSt) => LB r.nodes) _ (fun b x hb => lb_phoneStep li s lid w logp rclist lcl b x hb) l _ h

theorem lb_addTrans (li : LexIn) (g : Fsg) (s : Nat) (lclist rclist : List Nat) (w0 : Bld) (lid : Nat) (h : LB w0.nodes) :
    LB (addTrans li g s lclist rclist w0 lid).nodes := by
  unfold addTrans
  dsimp only
  split
  · split
    · exact foldl_inv (fun (r : LcSt) => LB r.nodes) _ (fun b x hb => lb_singleStep li s lid _ _ b x hb) lclist _ h
    · exact lb_push h (fun _ => ctxtAll_ne)
  · split
    · split
      · exact lb_phones li s lid _ _ rclist _ _ _ h
      · exact lb_phones li s lid _ _ rclist _ _ _ (lb_rootFold li s _ _ lclist _ h)
    · exact lb_phones li s lid _ _ rclist _ _ _ (lb_rootFold li s _ _ lclist _ h)

theorem lb_buildState (li : LexIn) (g : Fsg) (lcs rcs : Array Nat) (nodes : Array PNode) (s : Nat) (h : LB nodes) :
    LB (buildState li g lcs rcs nodes s).1 := by
  unfold buildState
  exact foldl_inv (fun (r : Bld) => LB r.nodes) _ (fun b x hb => lb_addTrans li g s _ _ b x hb) _ _ h

theorem lb_build (li : LexIn) (g : Fsg) : LB (buildLexTree li g).nodes := by
  unfold buildLexTree
  exact foldl_inv (fun (r : Array PNode × Array (Option Nat)) => LB r.1) _
    (fun b x hb => lb_buildState li g _ _ b.1 x hb) _ _ lb_empty

/-- **`leafCtxB` holds for the lextree the construction builds**, for every FSG and lookups -/
theorem leafCtxB_build (li : LexIn) (g : Fsg) : leafCtxB (buildLexTree li g) = true := by
  unfold leafCtxB
  refine List.all_eq_true.2 fun p _ => ?_
  cases hl : ((buildLexTree li g).node p).leaf with
  | false => rfl
  | true =>
    have := lb_build li g p hl
    simp only [Bool.not_true, Bool.false_or, bne_iff_ne, ne_eq]
    exact this

end SSVerif.LexCover
