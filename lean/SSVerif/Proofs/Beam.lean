import SSVerif.Model.Beam
import SSVerif.Proofs.Viterbi
/-! Beams wider than the per-frame score spread prune nothing: the beam mask is the identity on every finite
candidate and the beam search computes the DP. Core Lean only. -/
namespace SSVerif.Viterbi

/-- a mask that keeps every candidate with a finite source changes nothing -/
theorem viterbiK_eq_of_keep (N : Net) (K : Mask) (em : Nat → Nat → Int) (T : Nat)
    (hi : ∀ e ∈ N.init, K.init e = true)
    (he : ∀ t, t + 1 < T → ∀ e ∈ N.edges, vAt N em t e.1 ≠ none → K.edge t e = true)
    (hx : ∀ e ∈ N.exits, vAt N em (T-1) e.1 ≠ none → K.exit e = true) :
    viterbiK N K em T = viterbi N em T := by
  have hv : ∀ t, t ≤ T - 1 → vAtK N K em t = vAt N em t := by
    intro t
    induction t with
    | zero =>
      intro _
      funext j
      simp only [vAtK, v0K, vAt, v0]
      congr 1
      apply List.map_congr_left
      intro e hm
      simp [hi e hm]
    | succ t ih =>
      intro ht
      funext j
      simp only [vAtK, stepVK, vAt, stepV]
      rw [ih (by omega)]
      congr 1
      apply List.map_congr_left
      intro e hm
      obtain ⟨i, j', c⟩ := e
      cases hs : vAt N em t i with
      | none => simp
      | some x =>
        have := he t (by omega) (i, j', c) hm (by simp [hs])
        simp [this]
  unfold viterbiK viterbi
  rw [hv (T-1) (Nat.le_refl _)]
  congr 1
  apply List.map_congr_left
  intro e hm
  obtain ⟨i, c⟩ := e
  cases hs : vAt N em (T-1) i with
  | none => simp [hs]
  | some x =>
    have := hx (i, c) hm (by simp [hs])
    simp [this, hs]

end SSVerif.Viterbi

namespace SSVerif.Beam
open SSVerif.Viterbi

theorem ole_some {y : Int} {a : Option Int} (h : ole (some y) a) : ∃ z, a = some z ∧ y ≤ z := by
  cases a with
  | none => simp [ole] at h
  | some z => exact ⟨z, rfl, by simpa [ole] using h⟩

theorem narrow_ge (bm : Beams) : bm.beam ≤ bm.narrow ∧ bm.pbeam ≤ bm.narrow ∧ bm.wbeam ≤ bm.narrow := by
  unfold Beams.narrow; omega

theorem above_some {lim y : Int} (h : above lim (some y) = true) : y > lim := by
  simpa [above] using h

/-- a finite exit candidate of HMM `g` bounds `outOf` and `bestOf` from below -/
theorem outOf_ge {B : BNet} {v e} {s : Nat} {c y : Int} (ho : (s, c) ∈ B.outs) (hy : cand v e s c = some y) :
    (∃ z, outOf B v e (B.hmm s) = some z ∧ y ≤ z) ∧ (∃ z, bestOf B v e (B.hmm s) = some z ∧ y ≤ z) ∧
    (∃ z, bestAll B v e = some z ∧ y ≤ z) := by
  refine ⟨ole_some (best_ge ?_), ole_some (best_ge ?_), ole_some (best_ge ?_)⟩
  · simp only [List.mem_map]
    exact ⟨(s, c), ho, by simp [hy]⟩
  · simp only [held, List.mem_map, List.mem_append]
    exact ⟨(B.hmm s, some y), Or.inr ⟨(s, c), ho, by simp [hy]⟩, by simp⟩
  · simp only [held, List.mem_map, List.mem_append]
    exact ⟨(B.hmm s, some y), Or.inr ⟨(s, c), ho, by simp [hy]⟩, rfl⟩

theorem bestOf_ge_intra {B : BNet} {v e} {b : BEdge} (hb : b ∈ B.edges) (hi : b.isIntra = true) {y : Int}
    (hy : cand v e b.src b.cx = some y) : ∃ z, bestOf B v e (B.hmm b.src) = some z ∧ y ≤ z := by
  refine ole_some (best_ge ?_)
  simp only [held, List.mem_map, List.mem_append]
  exact ⟨(B.hmm b.src, some y), Or.inl ⟨b, hb, by simp [hi, hy]⟩, by simp⟩

theorem cand_some {v : Nat → Option Int} {e : Nat → Int} {s : Nat} {x : Int} (hx : v s = some x) (c : Int) :
    cand v e s c = some (x + e s + c) := by simp [cand, hx]

/-- in a frame that satisfies `frameOK` every edge with a finite source passes all beam tests -/
theorem keepEdge_of_frameOK {B : BNet} {bm : Beams} {v e last} (hw : wfOuts B = true)
    (hf : frameOK B bm v e last = true) {b : BEdge} (hb : b ∈ B.edges) {x : Int} (hx : v b.src = some x) :
    keepEdge B bm v e b = true := by
  unfold keepEdge
  cases hbb : bestAll B v e with
  | none => rfl
  | some bb =>
    simp only
    unfold frameOK at hf
    simp only [hbb, Bool.and_eq_true, List.all_eq_true] at hf
    obtain ⟨⟨hE, _⟩, _⟩ := hf
    obtain ⟨⟨a1, a2⟩, a3⟩ := hE b hb
    rw [cand_some hx] at a1 a2 a3
    have p1 := above_some a1
    have p2 := above_some a2
    have p3 := above_some a3
    obtain ⟨n1, n2, n3⟩ := narrow_ge bm
    unfold wfOuts at hw
    simp only [Bool.and_eq_true, List.all_eq_true, Bool.or_eq_true] at hw
    have hwb := hw.1 b hb
    by_cases hi : b.isIntra = true
    · -- inside an HMM
      obtain ⟨z, hz, hle⟩ := bestOf_ge_intra (v := v) (e := e) hb hi (cand_some hx b.cx)
      have hh : b.hop = none ∧ b.entry = none := by
        unfold BEdge.isIntra at hi
        simpa using hi
      simp only [hz, hh.1, hh.2, oge, Bool.and_true, decide_eq_true_eq]
      omega
    · have ho : (b.src, b.cx) ∈ B.outs := by
        rcases hwb with h | h
        · exact absurd h hi
        · simpa using h
      obtain ⟨⟨z, hz, hle⟩, ⟨z', hz', hle'⟩, _⟩ := outOf_ge (v := v) (e := e) ho (cand_some hx b.cx)
      simp only [hz, hz', oge, ogt, Option.map_some, decide_eq_true_eq, Bool.and_eq_true]
      refine ⟨by omega, ?_⟩
      cases hh : b.hop with
      | none =>
        cases hen : b.entry with
        | none => simp [BEdge.isIntra, hh, hen] at hi
        | some en =>
          simp only [decide_eq_true_eq, Bool.and_eq_true]
          simp only [BEdge.cost, hh, hen, Option.getD_none, Option.getD_some] at p3
          exact ⟨by omega, by omega⟩
      | some hp =>
        simp only [hh, Option.getD_some] at p2
        simp only [decide_eq_true_eq, Bool.and_eq_true]
        refine ⟨⟨by omega, by omega⟩, ?_⟩
        cases hen : b.entry with
        | none => rfl
        | some en =>
          simp only [BEdge.cost, hh, hen, Option.getD_some] at p3
          simp only [decide_eq_true_eq]
          omega

theorem keepExit_of_frameOK {B : BNet} {bm : Beams} {v e} (hw : wfOuts B = true)
    (hf : frameOK B bm v e true = true) {x : BExit} (hb : x ∈ B.exits) {y : Int} (hx : v x.state = some y) :
    keepExit B bm v e x = true := by
  unfold keepExit
  cases hbb : bestAll B v e with
  | none => rfl
  | some bb =>
    simp only
    unfold frameOK at hf
    simp only [hbb, Bool.and_eq_true, List.all_eq_true, Bool.not_true, Bool.false_or] at hf
    obtain ⟨⟨_, hO⟩, hX⟩ := hf
    unfold wfOuts at hw
    simp only [Bool.and_eq_true, List.all_eq_true] at hw
    have ho : (x.state, x.cx) ∈ B.outs := by simpa using hw.2 x hb
    have a1 := hO (x.state, x.cx) ho
    have a2 := hX x hb
    rw [cand_some hx] at a1 a2
    have p1 := above_some a1
    have p2 := above_some a2
    obtain ⟨n1, n2, n3⟩ := narrow_ge bm
    obtain ⟨⟨z, hz, hle⟩, ⟨z', hz', hle'⟩, _⟩ := outOf_ge (v := v) (e := e) ho (cand_some hx x.cx)
    simp only [hz, hz', oge, Option.map_some, decide_eq_true_eq, Bool.and_eq_true]
    exact ⟨⟨by omega, by omega⟩, by omega⟩

/-- the regime stated on the specification DP -/
def FramesOK (B : BNet) (bm : Beams) (em : Nat → Nat → Int) (T : Nat) : Prop :=
  ∀ t, t < T → frameOK B bm (vAt B.toNet em t) (em t) (t + 1 == T) = true

theorem regimeFrom_spec (B : BNet) (bm : Beams) (n : Nat) (em : Nat → Nat → Int) (T : Nat)
    (hwf : B.toNet.wf n = true) :
    ∀ k t (v : Vec), k + t = T → vget v = vAt B.toNet em t → regimeFrom B bm n em k t v = true →
      ∀ t', t ≤ t' → t' < T → frameOK B bm (vAt B.toNet em t') (em t') (t' + 1 == T) = true := by
  intro k
  induction k with
  | zero => intro t v hk _ _ t' h1 h2; omega
  | succ k ih =>
    intro t v hk hv hr t' h1 h2
    simp only [regimeFrom, Bool.and_eq_true] at hr
    obtain ⟨hr1, hr2⟩ := hr
    by_cases heq : t' = t
    · subst heq
      rw [hv] at hr1
      have : (k == 0) = (t' + 1 == T) := by
        by_cases hk0 : k = 0
        · have h3 : t' + 1 = T := by omega
          rw [hk0, h3]; simp
        · have h3 : ¬ t' + 1 = T := by omega
          rw [beq_eq_false_iff_ne.mpr hk0, beq_eq_false_iff_ne.mpr h3]
      rw [← this]; exact hr1
    · have hv' : vget (stepArr B.toNet.edges n (em t) v) = vAt B.toNet em (t+1) := by
        funext j
        rw [stepArr_get B.toNet n (em t) v (fun e h => ((Net.wf_spec hwf).1 e h).2) j, hv]
        rfl
      exact ih (t+1) _ (by omega) hv' hr2 t' (by omega) h2

theorem init_eq (B : BNet) (bm : Beams) (hinit : ∀ i ∈ B.init, keepInit bm i = true) (j : Nat) :
    best (B.init.map fun i => if keepInit bm i ∧ i.state = j then some (i.hop + i.entry) else none) = v0 B.toNet j := by
  unfold v0
  simp only [BNet.toNet, List.map_map]
  congr 1
  apply List.map_congr_left
  intro i hi
  have := hinit i hi
  by_cases hj : i.state = j <;> simp [Function.comp, BInit.pair, this, hj]

theorem step_eq (B : BNet) (bm : Beams) (w : Nat → Option Int) (e : Nat → Int)
    (hk : ∀ b ∈ B.edges, ∀ x, w b.src = some x → keepEdge B bm w e b = true) (j : Nat) :
    best (B.edges.map fun b => if keepEdge B bm w e b ∧ b.dst = j then cand w e b.src b.cost else none) =
      stepV B.toNet e w j := by
  unfold stepV
  simp only [BNet.toNet, List.map_map]
  congr 1
  apply List.map_congr_left
  intro b hb
  simp only [Function.comp, BEdge.triple]
  cases hs : w b.src with
  | none => by_cases hj : b.dst = j <;> simp [cand, hs, hj]
  | some x =>
    have := hk b hb x hs
    by_cases hj : b.dst = j <;> simp [this, cand, hs, hj]

theorem exit_eq (B : BNet) (bm : Beams) (w : Nat → Option Int) (e : Nat → Int)
    (hk : ∀ x ∈ B.exits, ∀ y, w x.state = some y → keepExit B bm w e x = true) :
    best (B.exits.map fun x => if keepExit B bm w e x then cand w e x.state (x.cx + x.hop) else none) =
      best (B.toNet.exits.map fun (i, c) => (w i).map (· + e i + c)) := by
  simp only [BNet.toNet, List.map_map]
  congr 1
  apply List.map_congr_left
  intro x hx
  simp only [Function.comp, BExit.pair]
  cases hs : w x.state with
  | none => simp [cand, hs]
  | some y =>
    have := hk x hx y hs
    simp only [this, if_true, cand, hs]

/-- under the regime the beam search's own vectors are the unpruned ones -/
theorem bv_eq_vAt (B : BNet) (bm : Beams) (em : Nat → Nat → Int) (T : Nat) (hw : wfOuts B = true)
    (hinit : ∀ i ∈ B.init, keepInit bm i = true) (hF : FramesOK B bm em T) :
    ∀ t, t < T → bv B bm em t = vAt B.toNet em t := by
  intro t
  induction t with
  | zero =>
    intro _
    funext j
    exact init_eq B bm hinit j
  | succ t ih =>
    intro ht
    funext j
    have iht := ih (by omega)
    show best (B.edges.map fun b => if keepEdge B bm (bv B bm em t) (em t) b ∧ b.dst = j
        then cand (bv B bm em t) (em t) b.src b.cost else none) = stepV B.toNet (em t) (vAt B.toNet em t) j
    rw [iht]
    exact step_eq B bm _ (em t) (fun b hb x hs => keepEdge_of_frameOK hw (hF t (by omega)) hb hs) j

/-- **beams wider than the spread prune nothing** (specification form) -/
theorem beam_identity_spec (B : BNet) (bm : Beams) (em : Nat → Nat → Int) (T : Nat) (hT : 0 < T)
    (hw : wfOuts B = true) (hinit : ∀ i ∈ B.init, keepInit bm i = true) (hF : FramesOK B bm em T) :
    viterbiK B.toNet (beamMask B bm em T) em T = viterbi B.toNet em T ∧
    viterbiBeam B bm em T = viterbi B.toNet em T := by
  have hbv := bv_eq_vAt B bm em T hw hinit hF
  have hlast : (T - 1 + 1 == T) = true := by
    have : T - 1 + 1 = T := by omega
    rw [this]; simp
  have hfl := hF (T-1) (by omega)
  rw [hlast] at hfl
  constructor
  · apply viterbiK_eq_of_keep
    · intro e he
      simp only [BNet.toNet, List.mem_map] at he
      obtain ⟨i, hi, rfl⟩ := he
      simp only [beamMask, List.any_eq_true, Bool.and_eq_true, beq_iff_eq]
      exact ⟨i, hi, rfl, hinit i hi⟩
    · intro t ht e he hs
      simp only [BNet.toNet, List.mem_map] at he
      obtain ⟨b, hb, rfl⟩ := he
      simp only [beamMask, List.any_eq_true, Bool.and_eq_true, beq_iff_eq]
      refine ⟨b, hb, rfl, ?_⟩
      rw [hbv t (by omega)]
      cases hx : vAt B.toNet em t b.src with
      | none => exact absurd hx hs
      | some x => exact keepEdge_of_frameOK hw (hF t (by omega)) hb hx
    · intro e he hs
      simp only [BNet.toNet, List.mem_map] at he
      obtain ⟨x, hx, rfl⟩ := he
      simp only [beamMask, List.any_eq_true, Bool.and_eq_true, beq_iff_eq]
      refine ⟨x, hx, rfl, ?_⟩
      rw [hbv (T-1) (by omega)]
      cases hy : vAt B.toNet em (T-1) x.state with
      | none => exact absurd hy hs
      | some y => exact keepExit_of_frameOK hw hfl hx hy
  · unfold viterbiBeam viterbi
    rw [hbv (T-1) (by omega)]
    exact exit_eq B bm _ (em (T-1)) (fun x hx y hy => keepExit_of_frameOK hw hfl hx hy)

/-! ### the beam search is the masked DP (for any beams) -/

theorem ole_antisymm {a b : Option Int} (h1 : ole a b) (h2 : ole b a) : a = b := by
  cases a <;> cases b <;> simp_all [ole]; omega

theorem best_le_of_sub {l1 l2 : List (Option Int)} (h : ∀ x ∈ l1, x = none ∨ x ∈ l2) : ole (best l1) (best l2) := by
  rcases best_mem l1 with h1 | h1
  · rw [h1]; trivial
  · rcases h _ h1 with h2 | h2
    · rw [h2]; trivial
    · exact best_ge h2

theorem best_eq_of_sub {l1 l2 : List (Option Int)} (h12 : ∀ x ∈ l1, x = none ∨ x ∈ l2)
    (h21 : ∀ x ∈ l2, x = none ∨ x ∈ l1) : best l1 = best l2 :=
  ole_antisymm (best_le_of_sub h12) (best_le_of_sub h21)

theorem vAtK_beam_eq_bv (B : BNet) (bm : Beams) (em : Nat → Nat → Int) (T : Nat) :
    ∀ t, vAtK B.toNet (beamMask B bm em T) em t = bv B bm em t := by
  intro t
  induction t with
  | zero =>
    funext j
    simp only [vAtK, v0K, bv]
    apply best_eq_of_sub
    · intro x hx
      simp only [BNet.toNet, List.map_map, List.mem_map, Function.comp] at hx
      obtain ⟨i, hi, rfl⟩ := hx
      by_cases hc : (beamMask B bm em T).init i.pair = true ∧ i.pair.1 = j
      · right
        obtain ⟨hm, hj⟩ := hc
        have hm' := hm
        simp only [beamMask, List.any_eq_true, Bool.and_eq_true, beq_iff_eq] at hm'
        obtain ⟨i', hi', heq, hk⟩ := hm'
        simp only [List.mem_map]
        refine ⟨i', hi', ?_⟩
        have h1 : i'.state = j := by rw [← hj, ← heq]; rfl
        have h2 : i'.hop + i'.entry = i.pair.2 := by rw [← heq]; rfl
        simp only [hk, h1, hm, hj, and_self, if_true, h2]
      · left; simp only [hc, if_false]
    · intro x hx
      simp only [List.mem_map] at hx
      obtain ⟨i, hi, rfl⟩ := hx
      by_cases hc : keepInit bm i = true ∧ i.state = j
      · right
        obtain ⟨hk, rfl⟩ := hc
        simp only [BNet.toNet, List.map_map, List.mem_map, Function.comp]
        refine ⟨i, hi, ?_⟩
        have hm : (beamMask B bm em T).init (i.state, i.hop + i.entry) = true := by
          simp only [beamMask, List.any_eq_true, Bool.and_eq_true, beq_iff_eq]
          exact ⟨i, hi, rfl, hk⟩
        simp only [BInit.pair, hm, hk, and_self, if_true]
      · left; simp only [hc, if_false]
  | succ t ih =>
    funext j
    simp only [vAtK, stepVK, bv]
    rw [ih]
    apply best_eq_of_sub
    · intro x hx
      simp only [BNet.toNet, List.map_map, List.mem_map, Function.comp] at hx
      obtain ⟨b, hb, rfl⟩ := hx
      by_cases hc : (beamMask B bm em T).edge t b.triple = true ∧ b.triple.2.1 = j
      · right
        obtain ⟨hm, hj⟩ := hc
        have hm' := hm
        simp only [beamMask, List.any_eq_true, Bool.and_eq_true, beq_iff_eq] at hm'
        obtain ⟨b', hb', heq, hk⟩ := hm'
        simp only [List.mem_map]
        refine ⟨b', hb', ?_⟩
        have h1 : b'.dst = j := by rw [← hj, ← heq]; rfl
        have h2 : b'.src = b.triple.1 := by rw [← heq]; rfl
        have h3 : b'.cost = b.triple.2.2 := by rw [← heq]; rfl
        simp only [hk, h1, hm, hj, and_self, if_true, cand, h2, h3]
      · left; simp only [hc, if_false]
    · intro x hx
      simp only [List.mem_map] at hx
      obtain ⟨b, hb, rfl⟩ := hx
      by_cases hc : keepEdge B bm (bv B bm em t) (em t) b = true ∧ b.dst = j
      · right
        obtain ⟨hk, rfl⟩ := hc
        simp only [BNet.toNet, List.map_map, List.mem_map, Function.comp]
        refine ⟨b, hb, ?_⟩
        have hm : (beamMask B bm em T).edge t (b.src, b.dst, b.cost) = true := by
          simp only [beamMask, List.any_eq_true, Bool.and_eq_true, beq_iff_eq]
          exact ⟨b, hb, rfl, hk⟩
        simp only [BEdge.triple, hm, hk, and_self, if_true, cand]
      · left; simp only [hc, if_false]

/-- the value the beam search reports is the value of the masked DP, for any beams -/
theorem viterbiBeam_eq_mask (B : BNet) (bm : Beams) (em : Nat → Nat → Int) (T : Nat) :
    viterbiBeam B bm em T = viterbiK B.toNet (beamMask B bm em T) em T := by
  unfold viterbiBeam viterbiK
  rw [vAtK_beam_eq_bv]
  apply best_eq_of_sub
  · intro y hy
    simp only [List.mem_map] at hy
    obtain ⟨x, hx, rfl⟩ := hy
    by_cases hc : keepExit B bm (bv B bm em (T-1)) (em (T-1)) x = true
    · right
      simp only [BNet.toNet, List.map_map, List.mem_map, Function.comp]
      refine ⟨x, hx, ?_⟩
      have hm : (beamMask B bm em T).exit (x.state, x.cx + x.hop) = true := by
        simp only [beamMask, List.any_eq_true, Bool.and_eq_true, beq_iff_eq]
        exact ⟨x, hx, rfl, hc⟩
      simp only [BExit.pair, hm, hc, if_true, cand]
    · left; simp only [hc]; rfl
  · intro y hy
    simp only [BNet.toNet, List.map_map, List.mem_map, Function.comp] at hy
    obtain ⟨x, hx, rfl⟩ := hy
    by_cases hc : (beamMask B bm em T).exit x.pair = true
    · right
      have hm := hc
      simp only [beamMask, List.any_eq_true, Bool.and_eq_true, beq_iff_eq] at hm
      obtain ⟨x', hx', heq, hk⟩ := hm
      simp only [List.mem_map]
      refine ⟨x', hx', ?_⟩
      have h1 : x'.state = x.pair.1 := by rw [← heq]; rfl
      have h2 : x'.cx + x'.hop = x.pair.2 := by rw [← heq]; rfl
      simp only [hk, hc, if_true, cand, h1, h2]
    · left; simp only [hc]; rfl

/-- **beams wider than the spread prune nothing** (what the driver evaluates) -/
theorem beam_identity (B : BNet) (bm : Beams) (n : Nat) (em : Nat → Nat → Int) (T : Nat) (hT : 0 < T)
    (hr : regime B bm n em T = true) :
    viterbiK B.toNet (beamMask B bm em T) em T = viterbi B.toNet em T ∧
    viterbiBeam B bm em T = viterbi B.toNet em T ∧
    viterbiArr B.toNet n em T = viterbi B.toNet em T := by
  unfold regime at hr
  simp only [Bool.and_eq_true, List.all_eq_true] at hr
  obtain ⟨⟨⟨hw, hwf⟩, hinit⟩, hrf⟩ := hr
  have hF : FramesOK B bm em T := by
    intro t ht
    exact regimeFrom_spec B bm n em T hwf T 0 (v0Arr B.toNet n) (by omega)
      (funext fun j => v0Arr_get B.toNet n (Net.wf_spec hwf).2.1 j) hrf t (by omega) ht
  obtain ⟨h1, h2⟩ := beam_identity_spec B bm em T hT hw hinit hF
  exact ⟨h1, h2, viterbiArr_eq B.toNet n em T hwf⟩

end SSVerif.Beam
