import SSVerif.Model.Dict2pidBuild
import SSVerif.Proofs.Dict2pid
/-!
# Lemmas for `Props/C16D2p.lean`: `mdefGood` excludes `BAD_S3SSID`; an all-BAD row compresses to `n_ssid = 0`;
the dense view of the compression passes agrees with the sparse tables.
-/
namespace SSVerif.Dict2pid
open SSVerif.Dict

/-! ## `mdefGood m → ssidOf … ≠ bad` -/

/-- a node the scan returns is a node of the tree, or the default node read outside it -/
theorem scan_mem {t : Array CdNode} {c : Int} : ∀ (n off : Nat) (nd : CdNode), scan t c off n = some nd →
    nd = default ∨ ∃ i, ∃ h : i < t.size, nd = t[i]
  | 0, _, _, h => by simp [scan] at h
  | n + 1, off, nd, h => by
    unfold scan at h
    simp only at h
    split at h
    · cases h
      by_cases ho : off < t.size
      · right; exact ⟨off, ho, by simp [Array.getD, ho]⟩
      · left; simp [Array.getD, ho]
    · exact scan_mem n (off + 1) nd h

/-- the walk ends in a leaf found by a scan -/
theorem walk_leaf {t : Array CdNode} : ∀ (lv off max : Nat) (cs : List Int) (p : Int), walk t lv off max cs = some p →
    ∃ nd : CdNode, (nd = default ∨ ∃ i, ∃ h : i < t.size, nd = t[i]) ∧ nd.nDown = 0 ∧ p = nd.c
  | 0, _, _, _, _, h => by simp [walk] at h
  | _ + 1, _, _, [], _, h => by simp [walk] at h
  | lv + 1, off, max, c :: cs, p, h => by
    unfold walk at h
    split at h
    · cases h
    · next nd hs =>
      split at h
      · next h0 => cases h; exact ⟨nd, scan_mem _ _ _ hs, h0, rfl⟩
      · exact walk_leaf lv _ _ cs p h

structure MdefGood (m : BinMdef) : Prop where
  ci : m.nCi ≤ m.ssid.size
  leaf : ∀ i, ∀ h : i < m.tree.size, m.tree[i].nDown = 0 → m.tree[i].c.toNat < m.ssid.size
  noBad : ∀ i, ∀ h : i < m.ssid.size, m.ssid[i] ≠ bad

theorem mdefGood_iff {m : BinMdef} (h : mdefGood m = true) : MdefGood m := by
  unfold mdefGood at h
  simp only [Bool.and_eq_true, decide_eq_true_eq, List.all_eq_true, Bool.or_eq_true, bne_iff_ne, ne_eq] at h
  obtain ⟨⟨h1, h2⟩, h3⟩ := h
  refine ⟨h1, fun i hi h0 => ?_, fun i hi => h3 _ (by simp)⟩
  rcases h2 m.tree[i] (by simp) with hh | hh
  · exact absurd h0 hh
  · exact hh

theorem phoneId_lt {m : BinMdef} (g : MdefGood m) (hpos : 0 < m.ssid.size) {ci lc rc wpos p : Nat}
    (h : phoneId m ci lc rc wpos = some p) : p < m.ssid.size := by
  unfold phoneId at h
  split at h
  · cases h
  · simp only at h
    split at h
    · next q hq =>
      split at h
      · cases h
        obtain ⟨nd, hnd, h0, e⟩ := walk_leaf _ _ _ _ _ hq
        subst e
        rcases hnd with e | ⟨i, hi, e⟩
        · subst e; exact hpos
        · subst e; exact g.leaf i hi h0
      · cases h
    · cases h

theorem tryPos_lt {m : BinMdef} (g : MdefGood m) (hpos : 0 < m.ssid.size) {b l r pos p : Nat}
    (h : tryPos m b l r pos = some p) : p < m.ssid.size := by
  unfold tryPos at h
  split at h
  · next q hq => cases h; exact phoneId_lt g hpos hq
  · unfold otherPos at h
    obtain ⟨a, _, ha⟩ := List.exists_of_findSome?_eq_some h
    exact phoneId_lt g hpos ha

theorem nearest_lt {m : BinMdef} (g : MdefGood m) {b : Nat} (hb : b < m.nCi) (l r pos : Nat) :
    nearest m b l r pos < m.ssid.size := by
  have hbs : b < m.ssid.size := Nat.lt_of_lt_of_le hb g.ci
  have hpos : 0 < m.ssid.size := Nat.lt_of_le_of_lt (Nat.zero_le _) hbs
  unfold nearest
  split
  · next p hp => exact tryPos_lt g hpos hp
  · split
    · simp only
      split
      · cases hq : tryPos m b (silCtx m l r pos).1 (silCtx m l r pos).2 pos with
        | none => simpa using hbs
        | some q => simpa using tryPos_lt g hpos hq
      · exact hbs
    · exact hbs

/-- with a good model definition the direct lookup of a CI base phone is never `BAD_S3SSID` -/
theorem ssidOf_ne_bad {m : BinMdef} (g : MdefGood m) {b : Nat} (hb : b < m.nCi) (l r pos : Nat) :
    m.ssidOf b l r pos ≠ bad := by
  have h := nearest_lt g hb l r pos
  unfold BinMdef.ssidOf BinMdef.pid2ssid
  simp only [Array.getD, h, dite_true]
  exact g.noBad _ h

/-! ## an all-BAD row -/

theorem foldl_bad (n : Nat) : ∀ (c : List Nat), (List.replicate n bad).foldl compressStep ([], c) = ([], c ++ List.replicate n 0)
  := by
  induction n with
  | zero => intro c; simp
  | succ k ih =>
    intro c
    rw [List.replicate_succ, List.foldl_cons]
    have : compressStep ([], c) bad = ([], c ++ [0]) := by simp [compressStep]
    rw [this, ih]
    simp [List.replicate_succ]

/-- `compress_table` of a row never written: no id stored (`n_ssid = 0`, the C code stores `{NULL, NULL, 0}`) -/
theorem compress_all_bad (n : Nat) : compressTable (List.replicate n bad) = { ssid := [], cimap := List.replicate n 0 } := by
  unfold compressTable
  simp only [foldl_bad n [], List.nil_append]

/-! ## dense = sparse -/

/-- the `rssid[b][l]` the dense pass of `compress_right_context_tree` stores has the `n_ssid` / `ssid` the sparse
tables of `Build.finish` show, and when `n_ssid > 0` also the same `cimap` -/
theorem finish_dense (nCi : Nat) (s : Build) (b l : Nat) :
    (s.finish.rssidAt b l).ssid = (s.rssidDense nCi b l).ssid ∧
    ((s.finish.rssidAt b l).ssid ≠ [] → s.finish.rssidAt b l = s.rssidDense nCi b l) := by
  unfold Build.finish Tabs.rssidAt Build.rssidDense Build.denseRow
  simp only [lookup_map_val]
  cases hh : s.rdiph.lookup (b, l) with
  | none =>
    simp [compress_all_bad]
  | some row =>
    simp only [Option.map_some, Option.getD_some]
    by_cases he : (compressTable row).ssid.length = 0
    · simp only [he, if_true]
      have : (compressTable row).ssid = [] := List.eq_nil_of_length_eq_zero he
      simp [this]
    · simp [he]

end SSVerif.Dict2pid
