import SSVerif.Proofs.JsgfExpandSound
/-!
Completeness half of the correctness of the mirror of `expand_rule`: every sentence the top rule
denotes is accepted by the produced automaton, whenever the expansion is not refused.

Bookkeeping: every state has a form (`φ`), every rule instance is registered with its entry state
and continuation (`ents`).  A state is *done* when the first move of its form is implemented by a
link out of it (or it forwards by a null link to a smaller state with the same form, or it is the
final state); an entry is *done* when every alternative of its rule is implemented from it.
While the expansion runs, the states still waiting for their link are the pending set `P`.
-/
namespace SSVerif.Jsgf
open SSVerif.Nfa

def HasLink (st : XSt) (p : Nat) (l : Option Nat) (q : Nat) : Prop :=
  ∃ x ∈ st.links, x.src = p ∧ x.label = l ∧ x.dst = q

abbrev Ents := List (Nat × RName × Form)

/-- the first move of form `g` is implemented by a link out of `q` -/
def Impl (st : XSt) (φ : Nat → Form) (ents : Ents) (q : Nat) : Form → Prop
  | [] => False
  | .tok w :: f => ∃ q', HasLink st q (some w) q' ∧ φ q' = f
  | .null :: f => ∃ q', HasLink st q none q' ∧ φ q' = f
  | .void :: _ => True
  | .ref s :: f => ∃ e, HasLink st q none e ∧ (e, s, f) ∈ ents

def FwdTo (st : XSt) (φ : Nat → Form) (q : Nat) (g : Form) : Prop :=
  ∃ q', HasLink st q none q' ∧ φ q' = g

def Done (st : XSt) (φ : Nat → Form) (ents : Ents) (q : Nat) : Prop :=
  Impl st φ ents q (φ q) ∨ (∃ q', HasLink st q none q' ∧ φ q' = φ q ∧ q' < q) ∨ (φ q = [] ∧ q = 1)

def EntDone (R : Rules) (st : XSt) (φ : Nat → Form) (ents : Ents) (e : Nat) (s : RName) (κ : Form) : Prop :=
  ∀ alt ∈ R s, Impl st φ ents e (alt ++ κ) ∨ FwdTo st φ e (alt ++ κ)

def IsEnt (ents : Ents) (q : Nat) : Prop := ∃ s κ, (q, s, κ) ∈ ents

/-- `P`: pending ordinary states; `A`: entries of the rule instances still being expanded -/
structure CInv (R : Rules) (st : XSt) (φ : Nat → Form) (ents : Ents) (P A : Nat → Prop) : Prop where
  bnd : ∀ l ∈ st.links, l.src < st.nstate ∧ l.dst < st.nstate
  states : ∀ q, q < st.nstate → P q ∨ IsEnt ents q ∨ Done st φ ents q
  entd : ∀ e s κ, (e, s, κ) ∈ ents → A e ∨ EntDone R st φ ents e s κ
  entf : ∀ e s κ, (e, s, κ) ∈ ents → e < st.nstate ∧ φ e = .ref s :: κ

theorem HasLink.arc {st : XSt} {p q : Nat} {l : Option Nat} (h : HasLink st p l q) :
    (p, l, q) ∈ st.toNfa.arcs := by
  obtain ⟨x, hx, rfl, rfl, rfl⟩ := h
  exact List.mem_map.mpr ⟨x, hx, rfl⟩

theorem HasLink.lt {R : Rules} {st : XSt} {φ : Nat → Form} {ents : Ents} {P A : Nat → Prop}
    (I : CInv R st φ ents P A) {p q : Nat} {l : Option Nat} (h : HasLink st p l q) :
    p < st.nstate ∧ q < st.nstate := by
  obtain ⟨x, hx, rfl, rfl, rfl⟩ := h
  exact I.bnd x hx

/-! ### end game: with nothing pending, the automaton simulates the machine -/

/-- state `q` may behave as form `f` -/
def GoodSt (st : XSt) (φ : Nat → Form) (ents : Ents) (R : Rules) (q : Nat) (f : Form) : Prop :=
  q < st.nstate ∧ (φ q = f ∨ ∃ s κ alt, (q, s, κ) ∈ ents ∧ alt ∈ R s ∧ f = alt ++ κ)

theorem sim {R : Rules} {st : XSt} {φ : Nat → Form} {ents : Ents} (I : CInv R st φ ents (fun _ => False) (fun _ => False))
    {f : Form} {ws : List Nat} (hr : Run R f ws) :
    ∀ q, GoodSt st φ ents R q f → Reach st.toNfa q ws 1 := by
  induction hr with
  | done =>
    -- form [] : forward to the final state
    have ord : ∀ n q, q < n → q < st.nstate → φ q = [] → Reach st.toNfa q [] 1 := by
      intro n
      induction n with
      | zero => intro q h; omega
      | succ n ih =>
        intro q hq hlt hφ
        rcases I.states q hlt with hp | hent | hdone
        · exact hp.elim
        · obtain ⟨s, κ, hm⟩ := hent
          have := (I.entf q s κ hm).2
          rw [hφ] at this; cases this
        · rcases hdone with himpl | ⟨q', hl, hφ', hlt'⟩ | ⟨_, rfl⟩
          · rw [hφ] at himpl; exact himpl.elim
          · exact .eps hl.arc (ih q' (by omega) (hl.lt I).2 (by rw [hφ', hφ]))
          · exact .refl
    intro q ⟨hlt, hg⟩
    rcases hg with hφ | ⟨s, κ, alt, hm, halt, heq⟩
    · exact ord (q + 1) q (by omega) hlt hφ
    · have hnil : alt ++ κ = [] := heq.symm
      rcases (I.entd q s κ hm) with hp | hd
      · exact hp.elim
      · rcases hd alt halt with himpl | ⟨x, hl, hφx⟩
        · rw [hnil] at himpl; exact himpl.elim
        · exact .eps hl.arc (ord (x + 1) x (by omega) (hl.lt I).2 (by rw [hφx, hnil]))
  | @eps a b ws hs _ ih =>
    -- ordinary states whose form is `a`
    have ord : ∀ n q, q < n → q < st.nstate → φ q = a → Reach st.toNfa q ws 1 := by
      intro n
      induction n with
      | zero => intro q h; omega
      | succ n ihn =>
        intro q hq hlt hφ
        rcases I.states q hlt with hp | hent | hdone
        · exact hp.elim
        · -- an entry: the machine step must be the choice of an alternative
          obtain ⟨s, κ, hm⟩ := hent
          have hf := (I.entf q s κ hm).2
          rw [hφ] at hf
          subst hf
          cases hs with
          | ref halt => exact ih q ⟨hlt, Or.inr ⟨s, κ, _, hm, halt, rfl⟩⟩
        · rcases hdone with himpl | ⟨q', hl, hφ', hlt'⟩ | ⟨hnil, _⟩
          · rw [hφ] at himpl
            cases hs with
            | null =>
              obtain ⟨q', hl, hφ'⟩ := himpl
              exact .eps hl.arc (ih q' ⟨(hl.lt I).2, Or.inl hφ'⟩)
            | @ref r alt rest halt =>
              obtain ⟨e, hl, hm⟩ := himpl
              exact .eps hl.arc (ih e ⟨(hl.lt I).2, Or.inr ⟨r, rest, alt, hm, halt, rfl⟩⟩)
          · exact .eps hl.arc (ihn q' (by omega) (hl.lt I).2 (by rw [hφ', hφ]))
          · rw [hφ] at hnil; subst hnil; cases hs
    intro q ⟨hlt, hg⟩
    rcases hg with hφ | ⟨s, κ, alt, hm, halt, heq⟩
    · exact ord (q + 1) q (by omega) hlt hφ
    · rcases (I.entd q s κ hm) with hp | hd
      · exact hp.elim
      · rcases hd alt halt with himpl | ⟨x, hl, hφx⟩
        · rw [← heq] at himpl
          cases hs with
          | null =>
            obtain ⟨q', hl, hφ'⟩ := himpl
            exact .eps hl.arc (ih q' ⟨(hl.lt I).2, Or.inl hφ'⟩)
          | @ref r alt' rest halt' =>
            obtain ⟨e, hl, hm'⟩ := himpl
            exact .eps hl.arc (ih e ⟨(hl.lt I).2, Or.inr ⟨r, rest, alt', hm', halt', rfl⟩⟩)
        · exact .eps hl.arc (ord (x + 1) x (by omega) (hl.lt I).2 (by rw [hφx, heq]))
  | @sym a b w ws hs _ ih =>
    have ord : ∀ n q, q < n → q < st.nstate → φ q = a → Reach st.toNfa q (w :: ws) 1 := by
      intro n
      induction n with
      | zero => intro q h; omega
      | succ n ihn =>
        intro q hq hlt hφ
        rcases I.states q hlt with hp | hent | hdone
        · exact hp.elim
        · obtain ⟨s, κ, hm⟩ := hent
          have hf := (I.entf q s κ hm).2
          rw [hφ] at hf
          subst hf
          cases hs
        · rcases hdone with himpl | ⟨q', hl, hφ', hlt'⟩ | ⟨hnil, _⟩
          · rw [hφ] at himpl
            cases hs with
            | tok =>
              obtain ⟨q', hl, hφ'⟩ := himpl
              exact .sym hl.arc (ih q' ⟨(hl.lt I).2, Or.inl hφ'⟩)
          · exact .eps hl.arc (ihn q' (by omega) (hl.lt I).2 (by rw [hφ', hφ]))
          · rw [hφ] at hnil; subst hnil; cases hs
    intro q ⟨hlt, hg⟩
    rcases hg with hφ | ⟨s, κ, alt, hm, halt, heq⟩
    · exact ord (q + 1) q (by omega) hlt hφ
    · rcases (I.entd q s κ hm) with hp | hd
      · exact hp.elim
      · rcases hd alt halt with himpl | ⟨x, hl, hφx⟩
        · rw [← heq] at himpl
          cases hs with
          | tok =>
            obtain ⟨q', hl, hφ'⟩ := himpl
            exact .sym hl.arc (ih q' ⟨(hl.lt I).2, Or.inl hφ'⟩)
        · exact .eps hl.arc (ord (x + 1) x (by omega) (hl.lt I).2 (by rw [hφx, heq]))

/-! ### monotonicity -/

structure CExt (st : XSt) (φ : Nat → Form) (ents : Ents) (st' : XSt) (φ' : Nat → Form) (ents' : Ents) : Prop where
  ns : st.nstate ≤ st'.nstate
  links : ∀ x ∈ st.links, x ∈ st'.links
  forms : ∀ q, q < st.nstate → φ' q = φ q
  ents : ∀ x ∈ ents, x ∈ ents'

theorem CExt.refl (st : XSt) (φ : Nat → Form) (ents : Ents) : CExt st φ ents st φ ents :=
  ⟨Nat.le_refl _, fun _ h => h, fun _ _ => rfl, fun _ h => h⟩

theorem CExt.trans {a b c : XSt} {φa φb φc : Nat → Form} {ea eb ec : Ents}
    (h1 : CExt a φa ea b φb eb) (h2 : CExt b φb eb c φc ec) : CExt a φa ea c φc ec :=
  ⟨Nat.le_trans h1.ns h2.ns, fun x hx => h2.links x (h1.links x hx),
   fun q hq => (h2.forms q (Nat.lt_of_lt_of_le hq h1.ns)).trans (h1.forms q hq),
   fun x hx => h2.ents x (h1.ents x hx)⟩

theorem HasLink.mono {st st' : XSt} (hl : ∀ x ∈ st.links, x ∈ st'.links) {p q : Nat} {l : Option Nat}
    (h : HasLink st p l q) : HasLink st' p l q := by
  obtain ⟨x, hx, h1⟩ := h
  exact ⟨x, hl x hx, h1⟩

/-- link targets of `st` are below `st.nstate` -/
def Bnd (st : XSt) : Prop := ∀ l ∈ st.links, l.src < st.nstate ∧ l.dst < st.nstate

theorem HasLink.dst_lt {st : XSt} (hb : Bnd st) {p q : Nat} {l : Option Nat} (h : HasLink st p l q) :
    q < st.nstate := by
  obtain ⟨x, hx, _, _, rfl⟩ := h
  exact (hb x hx).2

theorem Impl.mono {st st' : XSt} {φ φ' : Nat → Form} {ents ents' : Ents} (hb : Bnd st)
    (E : CExt st φ ents st' φ' ents') {q : Nat} : ∀ {g : Form}, Impl st φ ents q g → Impl st' φ' ents' q g
  | [], h => h.elim
  | .tok w :: f, h => by
    obtain ⟨q', hl, hφ⟩ := h
    exact ⟨q', hl.mono E.links, by rw [E.forms q' (hl.dst_lt hb)]; exact hφ⟩
  | .null :: f, h => by
    obtain ⟨q', hl, hφ⟩ := h
    exact ⟨q', hl.mono E.links, by rw [E.forms q' (hl.dst_lt hb)]; exact hφ⟩
  | .void :: _, _ => trivial
  | .ref s :: f, h => by
    obtain ⟨e, hl, hm⟩ := h
    exact ⟨e, hl.mono E.links, E.ents _ hm⟩

theorem FwdTo.mono {st st' : XSt} {φ φ' : Nat → Form} {ents ents' : Ents} (hb : Bnd st)
    (E : CExt st φ ents st' φ' ents') {q : Nat} {g : Form} (h : FwdTo st φ q g) : FwdTo st' φ' q g := by
  obtain ⟨q', hl, hφ⟩ := h
  exact ⟨q', hl.mono E.links, by rw [E.forms q' (hl.dst_lt hb)]; exact hφ⟩

theorem Done.mono {st st' : XSt} {φ φ' : Nat → Form} {ents ents' : Ents} (hb : Bnd st)
    (E : CExt st φ ents st' φ' ents') {q : Nat} (hq : q < st.nstate) (h : Done st φ ents q) :
    Done st' φ' ents' q := by
  unfold Done at *
  rw [E.forms q hq]
  rcases h with h | ⟨q', hl, hφ, hlt⟩ | h
  · exact Or.inl (h.mono hb E)
  · exact Or.inr (Or.inl ⟨q', hl.mono E.links, by rw [E.forms q' (hl.dst_lt hb)]; exact hφ, hlt⟩)
  · exact Or.inr (Or.inr h)

theorem EntDone.mono {R : Rules} {st st' : XSt} {φ φ' : Nat → Form} {ents ents' : Ents} (hb : Bnd st)
    (E : CExt st φ ents st' φ' ents') {e : Nat} {s : RName} {κ : Form} (h : EntDone R st φ ents e s κ) :
    EntDone R st' φ' ents' e s κ := by
  intro alt halt
  rcases h alt halt with h1 | h1
  · exact Or.inl (h1.mono hb E)
  · exact Or.inr (h1.mono hb E)

theorem IsEnt.mono {ents ents' : Ents} (h : ∀ x ∈ ents, x ∈ ents') {q : Nat} (hq : IsEnt ents q) : IsEnt ents' q := by
  obtain ⟨s, κ, hm⟩ := hq
  exact ⟨s, κ, h _ hm⟩

/-! ### primitive operations on the invariant -/

theorem CInv.weaken {R : Rules} {st : XSt} {φ : Nat → Form} {ents : Ents} {P P' A A' : Nat → Prop}
    (I : CInv R st φ ents P A) (hP : ∀ q, P q → P' q) (hA : ∀ q, A q → A' q) : CInv R st φ ents P' A' :=
  ⟨I.bnd, fun q hq => (I.states q hq).imp (hP q) id, fun e s κ h => (I.entd e s κ h).imp (hA e) id, I.entf⟩

/-- a pending state whose link has been emitted is no longer pending -/
theorem CInv.resolve {R : Rules} {st : XSt} {φ : Nat → Form} {ents : Ents} {P A : Nat → Prop}
    (I : CInv R st φ ents P A) (q0 : Nat) (hd : Done st φ ents q0) :
    CInv R st φ ents (fun q => P q ∧ q ≠ q0) A := by
  refine ⟨I.bnd, ?_, I.entd, I.entf⟩
  intro q hq
  by_cases h : q = q0
  · subst h; exact Or.inr (Or.inr hd)
  · rcases I.states q hq with hp | h2
    · exact Or.inl ⟨hp, h⟩
    · exact Or.inr h2

/-- allocate a state (pending) -/
theorem CInv.alloc {R : Rules} {st : XSt} {φ : Nat → Form} {ents : Ents} {P A : Nat → Prop}
    (I : CInv R st φ ents P A) (f : Form) :
    CInv R { st with nstate := st.nstate + 1 } (setForm φ st.nstate f) ents (fun q => P q ∨ q = st.nstate) A ∧
      CExt st φ ents { st with nstate := st.nstate + 1 } (setForm φ st.nstate f) ents := by
  have E : CExt st φ ents { st with nstate := st.nstate + 1 } (setForm φ st.nstate f) ents :=
    ⟨Nat.le_succ _, fun _ h => h, fun q hq => setForm_other φ f (Nat.ne_of_lt hq), fun _ h => h⟩
  refine ⟨⟨?_, ?_, ?_, ?_⟩, E⟩
  · intro l hl
    obtain ⟨b1, b2⟩ := I.bnd l hl
    exact ⟨Nat.lt_succ_of_lt b1, Nat.lt_succ_of_lt b2⟩
  · intro q hq
    by_cases h : q = st.nstate
    · exact Or.inl (Or.inr h)
    · have hq' : q < st.nstate := by
        have : q < st.nstate + 1 := hq
        omega
      rcases I.states q hq' with h1 | h1 | h1
      · exact Or.inl (Or.inl h1)
      · exact Or.inr (Or.inl h1)
      · exact Or.inr (Or.inr (h1.mono I.bnd E hq'))
  · intro e s κ hm
    exact (I.entd e s κ hm).imp id (fun h => h.mono I.bnd E)
  · intro e s κ hm
    obtain ⟨h1, h2⟩ := I.entf e s κ hm
    exact ⟨Nat.lt_succ_of_lt h1, by rw [setForm_other φ f (Nat.ne_of_lt h1)]; exact h2⟩

/-- add a link between allocated states -/
theorem CInv.link {R : Rules} {st : XSt} {φ : Nat → Form} {ents : Ents} {P A : Nat → Prop}
    (I : CInv R st φ ents P A) (a : Nat) (l : Option Nat) (b : Nat) (w : Rat)
    (ha : a < st.nstate) (hb : b < st.nstate) :
    CInv R (st.addLink a l b w) φ ents P A ∧ CExt st φ ents (st.addLink a l b w) φ ents ∧
      HasLink (st.addLink a l b w) a l b := by
  have E : CExt st φ ents (st.addLink a l b w) φ ents :=
    ⟨Nat.le_refl _, fun x hx => by simp [XSt.addLink, hx], fun _ _ => rfl, fun _ h => h⟩
  refine ⟨⟨?_, ?_, ?_, I.entf⟩, E, ⟨⟨a, l, b, w⟩, by simp [XSt.addLink], rfl, rfl, rfl⟩⟩
  · intro x hx
    simp only [XSt.addLink, List.mem_append, List.mem_singleton] at hx
    rcases hx with h | rfl
    · exact I.bnd x h
    · exact ⟨ha, hb⟩
  · intro q hq
    rcases I.states q hq with h1 | h1 | h1
    · exact Or.inl h1
    · exact Or.inr (Or.inl h1)
    · exact Or.inr (Or.inr (h1.mono I.bnd E hq))
  · intro e s κ hm
    exact (I.entd e s κ hm).imp id (fun h => h.mono I.bnd E)

/-! ### `expand_rhs` -/

def CFrames (st : XSt) (φ : Nat → Form) (ents : Ents) (frames : List Frame) : Prop :=
  ∀ f ∈ frames, st.entryExit f.rule = (f.entry, f.exit) ∧ (f.entry, f.rule, f.κ) ∈ ents ∧
    f.exit < st.nstate ∧ φ f.exit = f.κ

def CAtomsPost (R : Rules) (frames : List Frame) (κ : Form) (P A : Nat → Prop) (st : XSt) (φ : Nat → Form)
    (ents : Ents) (last : Nat) (g : Form) : RhsRes × XSt → Prop
  | (.err, _) => True
  | (.recursion, st') => ∃ φ' ents', CExt st φ ents st' φ' ents' ∧ CFrames st' φ' ents' frames ∧
      CInv R st' φ' ents' P A ∧ Impl st' φ' ents' last g
  | (.last n, st') => ∃ φ' ents', CExt st φ ents st' φ' ents' ∧ CFrames st' φ' ents' frames ∧
      ((g = κ ∧ n = last ∧ CInv R st' φ' ents' P A) ∨
       (Impl st' φ' ents' last g ∧ st.nstate ≤ n ∧ n < st'.nstate ∧ φ' n = κ ∧
          CInv R st' φ' ents' (fun q => P q ∨ q = n) A))

/-- the first atom has been emitted from `last` into the pending state `n`; the rest of the
sequence has been expanded from `n` -/
theorem CAtomsPost.combine {R : Rules} {frames : List Frame} {κ : Form} {P A : Nat → Prop}
    {st st1 : XSt} {φ φ1 : Nat → Form} {ents ents1 : Ents} {last n : Nat} {g g' : Form}
    (E1 : CExt st φ ents st1 φ1 ents1) (hb1 : Bnd st1) (himpl : Impl st1 φ1 ents1 last g)
    (hn : n < st1.nstate) (hn0 : st.nstate ≤ n) (hφn : φ1 n = g')
    {res : RhsRes × XSt}
    (h : CAtomsPost R frames κ (fun q => P q ∨ q = n) A st1 φ1 ents1 n g' res) :
    CAtomsPost R frames κ P A st φ ents last g res := by
  obtain ⟨r, st'⟩ := res
  cases r with
  | err => trivial
  | recursion =>
    obtain ⟨φ', ents', E2, hF, I2, himpl2⟩ := h
    have hdone : Done st' φ' ents' n := by
      unfold Done
      rw [E2.forms n hn, hφn]
      exact Or.inl himpl2
    refine ⟨φ', ents', E1.trans E2, hF, ?_, himpl.mono hb1 E2⟩
    exact (I2.resolve n hdone).weaken (by
      intro q ⟨hq, hne⟩
      rcases hq with h | h
      · exact h
      · exact (hne h).elim) (fun _ h => h)
  | last m =>
    obtain ⟨φ', ents', E2, hF, hcase⟩ := h
    refine ⟨φ', ents', E1.trans E2, hF, Or.inr ?_⟩
    rcases hcase with ⟨hg, hm, I2⟩ | ⟨himpl2, hm0, hm1, hφm, I2⟩
    · subst hm
      refine ⟨himpl.mono hb1 E2, hn0, Nat.lt_of_lt_of_le hn E2.ns, ?_, I2⟩
      rw [E2.forms _ hn, hφn, hg]
    · have hdone : Done st' φ' ents' n := by
        unfold Done
        rw [E2.forms n hn, hφn]
        exact Or.inl himpl2
      refine ⟨himpl.mono hb1 E2, Nat.le_trans hn0 (Nat.le_trans (Nat.le_of_lt hn) hm0), hm1, hφm, ?_⟩
      exact (I2.resolve n hdone).weaken (by
        intro q ⟨hq, hne⟩
        rcases hq with (h | h) | h
        · exact Or.inl h
        · exact (hne h).elim
        · exact Or.inr h) (fun _ h => h)

theorem CFrames.mono_same_inst {st st' : XSt} {φ φ' : Nat → Form} {ents ents' : Ents} {frames : List Frame}
    (h : CFrames st φ ents frames) (E : CExt st φ ents st' φ' ents') (hi : st'.inst = st.inst) :
    CFrames st' φ' ents' frames := by
  intro f hf
  obtain ⟨h1, h2, h3, h4⟩ := h f hf
  refine ⟨?_, E.ents _ h2, Nat.lt_of_lt_of_le h3 E.ns, by rw [E.forms _ h3]; exact h4⟩
  unfold XSt.entryExit at h1 ⊢
  rw [hi]; exact h1

def CRecSpec (R : Rules) (T : Table) (recur : Nat → RName → XSt → Option XSt) (frames : List Frame)
    (ntail : Nat) (κ : Form) (A : Nat → Prop) : Prop :=
  ∀ (P : Nat → Prop) (nt : Nat) (s : RName) (st : XSt) (φ : Nat → Form) (ents : Ents) (κJ : Form),
    CInv R st φ ents P A → CFrames st φ ents frames → s ∉ frames.map (·.rule) → T.defined s = true →
    (nt = 0 ∨ (nt = ntail + 1 ∧ κJ = κ)) →
    match recur nt s st with
    | none => True
    | some st' => ∃ φ' ents', CExt st φ ents st' φ' ents' ∧ CFrames st' φ' ents' frames ∧
        ((st'.entryExit s).1, s, κJ) ∈ ents' ∧ st.nstate ≤ (st'.entryExit s).2 ∧
        (st'.entryExit s).2 < st'.nstate ∧ (st'.entryExit s).1 < st'.nstate ∧
        φ' (st'.entryExit s).2 = κJ ∧
        CInv R st' φ' ents' (fun q => P q ∨ q = (st'.entryExit s).2) A

theorem xAtoms_complete {R : Rules} {T : Table} {recur : Nat → RName → XSt → Option XSt}
    {frames : List Frame} {ntail : Nat} {κ : Form} {A : Nat → Prop}
    (Hrec : CRecSpec R T recur frames ntail κ A) (hchain : Chain frames ntail κ) :
    ∀ (alt : List WAtom) (last : Nat) (st : XSt) (φ : Nat → Form) (ents : Ents) (P : Nat → Prop),
      CInv R st φ ents P A → CFrames st φ ents frames → last < st.nstate →
      CAtomsPost R frames κ P A st φ ents last (atomsOf alt ++ κ)
        (xAtoms T recur (frames.map (·.rule)) ntail alt last st)
  | [], last, st, φ, ents, P, I, hF, hl => by
    simp only [xAtoms]
    exact ⟨φ, ents, CExt.refl _ _ _, hF, Or.inl ⟨by simp [atomsOf], rfl, I⟩⟩
  | a :: rest, last, st, φ, ents, P, I, hF, hl => by
    have ih := xAtoms_complete Hrec hchain rest
    have hform : atomsOf (a :: rest) ++ κ = a.atom :: (atomsOf rest ++ κ) := by simp [atomsOf]
    rw [hform]
    cases ha : a.atom with
    | tok w =>
      simp only [xAtoms, ha]
      obtain ⟨I1, E1⟩ := I.alloc (P := P) (A := A) (atomsOf rest ++ κ)
      obtain ⟨I2, E2, hlink⟩ := I1.link last (some w) st.nstate a.wt (Nat.lt_succ_of_lt hl) (Nat.lt_succ_self _)
      have hF2 : CFrames _ _ ents frames := (hF.mono_same_inst E1 rfl).mono_same_inst E2 rfl
      have hφn : setForm φ st.nstate (atomsOf rest ++ κ) st.nstate = atomsOf rest ++ κ := setForm_same _ _ _
      have := ih st.nstate _ _ ents _ I2 hF2 (Nat.lt_succ_self _)
      exact CAtomsPost.combine (last := last) (g := .tok w :: (atomsOf rest ++ κ)) (E1.trans E2) I2.bnd
        (show Impl _ _ _ last (.tok w :: (atomsOf rest ++ κ)) from ⟨st.nstate, hlink, hφn⟩)
        (Nat.lt_succ_self _) (Nat.le_refl _) hφn this
    | null =>
      simp only [xAtoms, ha]
      obtain ⟨I1, E1⟩ := I.alloc (P := P) (A := A) (atomsOf rest ++ κ)
      obtain ⟨I2, E2, hlink⟩ := I1.link last none st.nstate a.wt (Nat.lt_succ_of_lt hl) (Nat.lt_succ_self _)
      have hF2 : CFrames _ _ ents frames := (hF.mono_same_inst E1 rfl).mono_same_inst E2 rfl
      have hφn : setForm φ st.nstate (atomsOf rest ++ κ) st.nstate = atomsOf rest ++ κ := setForm_same _ _ _
      have := ih st.nstate _ _ ents _ I2 hF2 (Nat.lt_succ_self _)
      exact CAtomsPost.combine (last := last) (g := .null :: (atomsOf rest ++ κ)) (E1.trans E2) I2.bnd
        (show Impl _ _ _ last (.null :: (atomsOf rest ++ κ)) from ⟨st.nstate, hlink, hφn⟩)
        (Nat.lt_succ_self _) (Nat.le_refl _) hφn this
    | void =>
      simp only [xAtoms, ha]
      obtain ⟨I1, E1⟩ := I.alloc (P := P) (A := A) (atomsOf rest ++ κ)
      have hF1 : CFrames _ _ ents frames := hF.mono_same_inst E1 rfl
      have hφn : setForm φ st.nstate (atomsOf rest ++ κ) st.nstate = atomsOf rest ++ κ := setForm_same _ _ _
      have := ih st.nstate _ _ ents _ I1 hF1 (Nat.lt_succ_self _)
      exact CAtomsPost.combine (last := last) (g := .void :: (atomsOf rest ++ κ)) E1 I1.bnd
        (show Impl _ _ _ last (.void :: (atomsOf rest ++ κ)) from trivial)
        (Nat.lt_succ_self _) (Nat.le_refl _) hφn this
    | ref s =>
      simp only [xAtoms, ha]
      cases hd : T.defined s with
      | false => simp [CAtomsPost]
      | true =>
        simp only [Bool.not_true, Bool.false_eq_true, if_false]
        cases hs : (frames.map (·.rule)).contains s with
        | true =>
          simp only [if_true]
          cases hc : (rest.isEmpty && decide (List.idxOf s (frames.map (·.rule)) ≤ ntail)) with
          | false => simp [CAtomsPost]
          | true =>
            simp only [if_true, CAtomsPost]
            simp only [Bool.and_eq_true, List.isEmpty_iff, decide_eq_true_eq] at hc
            obtain ⟨hre, hdepth⟩ := hc
            subst hre
            have hmem : s ∈ frames.map (·.rule) := by simpa using hs
            obtain ⟨f, hf, hfm, hfr⟩ := frame_of_stacked hmem
            obtain ⟨h1, h2, _, _⟩ := hF f hfm
            have hκ : f.κ = κ := hchain _ hdepth f hf
            rw [hfr] at h1 h2
            rw [h1]
            have hE := (I.entf _ _ _ h2).1
            obtain ⟨I2, E2, hlink⟩ := I.link last none f.entry a.wt hl hE
            refine ⟨φ, ents, E2, hF.mono_same_inst E2 rfl, I2, f.entry, hlink, ?_⟩
            rw [hκ] at h2
            simpa [atomsOf] using h2
        | false =>
          simp only [Bool.false_eq_true, if_false]
          have hnot : s ∉ frames.map (·.rule) := by
            intro hm
            have : (frames.map (·.rule)).contains s = true := by simpa using hm
            rw [hs] at this; cases this
          have hcond : ((if rest.isEmpty = true then ntail + 1 else 0) = 0 ∨
              ((if rest.isEmpty = true then ntail + 1 else 0) = ntail + 1 ∧ atomsOf rest ++ κ = κ)) := by
            cases rest with
            | nil => right; simp [atomsOf]
            | cons b r => left; simp
          have hr := Hrec P (if rest.isEmpty then ntail + 1 else 0) s st φ ents (atomsOf rest ++ κ) I hF hnot hd hcond
          cases hrec : recur (if rest.isEmpty = true then ntail + 1 else 0) s st with
          | none => simp [CAtomsPost]
          | some st' =>
            rw [hrec] at hr
            simp only at hr ⊢
            obtain ⟨φ', ents', E1, hF1, hent, hx0, hx1, he1, hφx, I1⟩ := hr
            have hl' : last < st'.nstate := Nat.lt_of_lt_of_le hl E1.ns
            obtain ⟨I2, E2, hlink⟩ := I1.link last none (st'.entryExit s).1 a.wt hl' he1
            have hF2 : CFrames _ φ' ents' frames := hF1.mono_same_inst E2 rfl
            have := ih (st'.entryExit s).2 _ φ' ents' _ I2 hF2 hx1
            exact CAtomsPost.combine (last := last) (g := .ref s :: (atomsOf rest ++ κ)) (E1.trans E2) I2.bnd
              (show Impl _ _ _ last (.ref s :: (atomsOf rest ++ κ)) from ⟨_, hlink, hent⟩) hx1 hx0 hφx this

/-! ### the alternatives of one rule instance -/

def AltsFacts (st : XSt) (φ : Nat → Form) (ents : Ents) (cur : Frame) (alts : List (List WAtom)) : Prop :=
  ∀ alt ∈ alts, Impl st φ ents cur.entry (atomsOf alt ++ cur.κ) ∨ FwdTo st φ cur.entry (atomsOf alt ++ cur.κ)

theorem xAlts_complete {R : Rules} {T : Table} {recur : Nat → RName → XSt → Option XSt}
    {rest : List Frame} {cur : Frame} {ntail : Nat} {A : Nat → Prop}
    (Hrec : CRecSpec R T recur (cur :: rest) ntail cur.κ A) (hchain : Chain (cur :: rest) ntail cur.κ) :
    ∀ (alts : List (List WAtom)) (st : XSt) (φ : Nat → Form) (ents : Ents) (P : Nat → Prop),
      CInv R st φ ents P A → CFrames st φ ents (cur :: rest) →
      match xAlts T recur ((cur :: rest).map (·.rule)) ntail cur.entry cur.exit alts st with
      | none => True
      | some st' => ∃ φ' ents', CExt st φ ents st' φ' ents' ∧ CFrames st' φ' ents' (cur :: rest) ∧
          CInv R st' φ' ents' P A ∧ AltsFacts st' φ' ents' cur alts
  | [], st, φ, ents, P, I, hF => by
    simp only [xAlts]
    exact ⟨φ, ents, CExt.refl _ _ _, hF, I, by intro a ha; cases ha⟩
  | alt :: more, st, φ, ents, P, I, hF => by
    have ih := xAlts_complete Hrec hchain more
    obtain ⟨_, hcm, hX, hφX⟩ := hF cur (by simp)
    have hE : cur.entry < st.nstate := (I.entf _ _ _ hcm).1
    have hpost := xAtoms_complete Hrec hchain alt cur.entry st φ ents P I hF hE
    simp only [xAlts]
    generalize xAtoms T recur ((cur :: rest).map (·.rule)) ntail alt cur.entry st = r at hpost
    obtain ⟨res, st1⟩ := r
    -- the facts of the first alternative are carried through the expansion of the others
    have finish : ∀ (st2 : XSt) (φ2 : Nat → Form) (ents2 : Ents),
        CExt st φ ents st2 φ2 ents2 → CFrames st2 φ2 ents2 (cur :: rest) → CInv R st2 φ2 ents2 P A →
        (Impl st2 φ2 ents2 cur.entry (atomsOf alt ++ cur.κ) ∨ FwdTo st2 φ2 cur.entry (atomsOf alt ++ cur.κ)) →
        match xAlts T recur ((cur :: rest).map (·.rule)) ntail cur.entry cur.exit more st2 with
        | none => True
        | some st' => ∃ φ' ents', CExt st φ ents st' φ' ents' ∧ CFrames st' φ' ents' (cur :: rest) ∧
            CInv R st' φ' ents' P A ∧ AltsFacts st' φ' ents' cur (alt :: more) := by
      intro st2 φ2 ents2 E2 hF2 I2 hfact
      have := ih st2 φ2 ents2 P I2 hF2
      generalize xAlts T recur ((cur :: rest).map (·.rule)) ntail cur.entry cur.exit more st2 = r2 at this
      cases r2 with
      | none => trivial
      | some st3 =>
        obtain ⟨φ3, ents3, E3, hF3, I3, hfacts⟩ := this
        refine ⟨φ3, ents3, E2.trans E3, hF3, I3, ?_⟩
        intro a ha
        rcases List.mem_cons.mp ha with rfl | ha'
        · exact hfact.imp (fun h => h.mono I2.bnd E3) (fun h => h.mono I2.bnd E3)
        · exact hfacts a ha'
    cases res with
    | err => trivial
    | recursion =>
      obtain ⟨φ1, ents1, E1, hF1, I1, himpl⟩ := hpost
      exact finish st1 φ1 ents1 E1 hF1 I1 (Or.inl himpl)
    | last n =>
      obtain ⟨φ1, ents1, E1, hF1, hcase⟩ := hpost
      obtain ⟨_, hcm1, hX1, hφX1⟩ := hF1 cur (by simp)
      rcases hcase with ⟨hg, hn, I1⟩ | ⟨himpl, hn0, hn1, hφn, I1⟩
      · -- empty alternative: the entry forwards to the exit
        subst hn
        have hE1 : cur.entry < st1.nstate := (I1.entf _ _ _ hcm1).1
        obtain ⟨I2, E2, hlink⟩ := I1.link cur.entry none cur.exit 1 hE1 hX1
        exact finish _ φ1 ents1 (E1.trans E2) (hF1.mono_same_inst E2 rfl) I2
          (Or.inr ⟨cur.exit, hlink, by rw [hφX1, hg]⟩)
      · obtain ⟨I2, E2, hlink⟩ := I1.link n none cur.exit 1 hn1 hX1
        have hdone : Done (st1.addLink n none cur.exit 1) φ1 ents1 n := by
          unfold Done
          refine Or.inr (Or.inl ⟨cur.exit, hlink, by rw [hφX1, hφn], ?_⟩)
          omega
        have I3 := (I2.resolve n hdone).weaken (P' := P) (A' := A) (by
          intro q ⟨hq, hne⟩
          rcases hq with h | h
          · exact h
          · exact (hne h).elim) (fun _ h => h)
        exact finish _ φ1 ents1 (E1.trans E2) (hF1.mono_same_inst E2 rfl) I3
          (Or.inl (himpl.mono I1.bnd E2))

/-! ### `expand_rule` -/

theorem CInv.resolveEnt {R : Rules} {st : XSt} {φ : Nat → Form} {ents : Ents} {P A : Nat → Prop} {e0 : Nat}
    (I : CInv R st φ ents P (fun q => A q ∨ q = e0))
    (h : ∀ s κ, (e0, s, κ) ∈ ents → EntDone R st φ ents e0 s κ) : CInv R st φ ents P A := by
  refine ⟨I.bnd, I.states, ?_, I.entf⟩
  intro e s κ hm
  rcases I.entd e s κ hm with (ha | rfl) | hd
  · exact Or.inl ha
  · exact Or.inr (h s κ hm)
  · exact Or.inr hd

theorem xRule_complete (T : Table) : ∀ (fuel : Nat) (frames : List Frame) (ntail : Nat) (r : RName) (st : XSt)
    (φ : Nat → Form) (ents : Ents) (κJ : Form) (P A : Nat → Prop),
    CInv T.rules st φ ents P A → CFrames st φ ents frames → r ∉ frames.map (·.rule) →
    Chain (⟨r, st.nstate, st.nstate + 1, κJ⟩ :: frames) ntail κJ →
    match xRule T fuel (frames.map (·.rule)) ntail r st with
    | none => True
    | some st' => ∃ φ' ents', CExt st φ ents st' φ' ents' ∧ CFrames st' φ' ents' frames ∧
        st'.entryExit r = (st.nstate, st.nstate + 1) ∧ (st.nstate, r, κJ) ∈ ents' ∧
        st.nstate + 1 < st'.nstate ∧ φ' (st.nstate + 1) = κJ ∧
        CInv T.rules st' φ' ents' (fun q => P q ∨ q = st.nstate + 1) A
  | 0, _, _, _, _, _, _, _, _, _, _, _, _, _ => by simp [xRule]
  | fuel + 1, frames, ntail, r, st, φ, ents, κJ, P, A, I, hF, hnot, hchain => by
    simp only [xRule]
    cases hf : T.find r with
    | none => trivial
    | some rl =>
      simp only
      let cur : Frame := ⟨r, st.nstate, st.nstate + 1, κJ⟩
      let st1 : XSt := { st with nstate := st.nstate + 2, inst := (r, st.nstate, st.nstate + 1) :: st.inst }
      let φ1 : Nat → Form := setForm (setForm φ st.nstate (.ref r :: κJ)) (st.nstate + 1) κJ
      let ents1 : Ents := (st.nstate, r, κJ) :: ents
      have hφ_old : ∀ q, q < st.nstate → φ1 q = φ q := by
        intro q hq
        simp only [φ1]
        rw [setForm_other _ _ (by omega), setForm_other _ _ (by omega)]
      have hφe : φ1 st.nstate = .ref r :: κJ := by
        simp only [φ1]
        rw [setForm_other _ _ (by omega), setForm_same]
      have hφx : φ1 (st.nstate + 1) = κJ := by
        simp only [φ1]
        rw [setForm_same]
      have E01 : CExt st φ ents st1 φ1 ents1 :=
        ⟨by show st.nstate ≤ st.nstate + 2; omega, fun _ h => h, hφ_old, fun x hx => List.mem_cons_of_mem _ hx⟩
      have I1 : CInv T.rules st1 φ1 ents1 (fun q => P q ∨ q = st.nstate + 1) (fun q => A q ∨ q = st.nstate) := by
        refine ⟨?_, ?_, ?_, ?_⟩
        · intro l hl
          obtain ⟨b1, b2⟩ := I.bnd l hl
          show l.src < st.nstate + 2 ∧ l.dst < st.nstate + 2
          omega
        · intro q hq
          have hq2 : q < st.nstate + 2 := hq
          by_cases h0 : q = st.nstate
          · exact Or.inr (Or.inl ⟨r, κJ, by rw [h0]; exact List.mem_cons_self ..⟩)
          · by_cases h1 : q = st.nstate + 1
            · exact Or.inl (Or.inr h1)
            · have hq' : q < st.nstate := by omega
              rcases I.states q hq' with h | h | h
              · exact Or.inl (Or.inl h)
              · exact Or.inr (Or.inl (h.mono E01.ents))
              · exact Or.inr (Or.inr (h.mono I.bnd E01 hq'))
        · intro e s κ hm
          rcases List.mem_cons.mp hm with heq | hm'
          · cases heq; exact Or.inl (Or.inr rfl)
          · exact (I.entd e s κ hm').imp (fun h => Or.inl h) (fun h => h.mono I.bnd E01)
        · intro e s κ hm
          rcases List.mem_cons.mp hm with heq | hm'
          · cases heq
            exact ⟨by show st.nstate < st.nstate + 2; omega, hφe⟩
          · obtain ⟨h1, h2⟩ := I.entf e s κ hm'
            exact ⟨by show e < st.nstate + 2; omega, by rw [hφ_old _ h1]; exact h2⟩
      have hF1 : CFrames st1 φ1 ents1 (cur :: frames) := by
        intro f hfm
        rcases List.mem_cons.mp hfm with rfl | hfm'
        · exact ⟨entryExit_cons_same st r _ _ _, List.mem_cons_self .., by show st.nstate + 1 < st.nstate + 2; omega, hφx⟩
        · obtain ⟨h1, h2, h3, h4⟩ := hF f hfm'
          have hne : r ≠ f.rule := by
            intro heq
            apply hnot
            rw [heq]
            exact List.mem_map.mpr ⟨f, hfm', rfl⟩
          exact ⟨(entryExit_cons_other st _ _ _ hne).trans h1, List.mem_cons_of_mem _ h2,
            by show f.exit < st.nstate + 2; omega, by rw [hφ_old _ h3]; exact h4⟩
      have Hrec : CRecSpec T.rules T (fun nt s st' => xRule T fuel (r :: frames.map (·.rule)) nt s st')
          (cur :: frames) ntail cur.κ (fun q => A q ∨ q = st.nstate) := by
        intro P' nt s st' φ' ents' κ' I' hF' hs _ hcond
        have := xRule_complete T fuel (cur :: frames) nt s st' φ' ents' κ' P' _ I' hF' hs (by
          intro i hi f hfi
          cases i with
          | zero =>
            simp only [List.getElem?_cons_zero, Option.some.injEq] at hfi
            subst hfi; rfl
          | succ j =>
            simp only [List.getElem?_cons_succ] at hfi
            rcases hcond with h0 | ⟨h1, h2⟩
            · omega
            · rw [h2]
              exact hchain j (by omega) f hfi)
        have key : ∀ res : Option XSt,
            (match res with
              | none => True
              | some st2 => ∃ φ2 ents2, CExt st' φ' ents' st2 φ2 ents2 ∧ CFrames st2 φ2 ents2 (cur :: frames) ∧
                  st2.entryExit s = (st'.nstate, st'.nstate + 1) ∧ (st'.nstate, s, κ') ∈ ents2 ∧
                  st'.nstate + 1 < st2.nstate ∧ φ2 (st'.nstate + 1) = κ' ∧
                  CInv T.rules st2 φ2 ents2 (fun q => P' q ∨ q = st'.nstate + 1) (fun q => A q ∨ q = st.nstate)) →
            (match res with
              | none => True
              | some st2 => ∃ φ2 ents2, CExt st' φ' ents' st2 φ2 ents2 ∧ CFrames st2 φ2 ents2 (cur :: frames) ∧
                  ((st2.entryExit s).1, s, κ') ∈ ents2 ∧ st'.nstate ≤ (st2.entryExit s).2 ∧
                  (st2.entryExit s).2 < st2.nstate ∧ (st2.entryExit s).1 < st2.nstate ∧
                  φ2 (st2.entryExit s).2 = κ' ∧
                  CInv T.rules st2 φ2 ents2 (fun q => P' q ∨ q = (st2.entryExit s).2)
                    (fun q => A q ∨ q = st.nstate)) := by
          intro res hres
          cases res with
          | none => trivial
          | some st2 =>
            obtain ⟨φ2, ents2, a1, a2, a3, a4, a5, a6, a7⟩ := hres
            refine ⟨φ2, ents2, a1, a2, ?_, ?_, ?_, ?_, ?_, ?_⟩
            · rw [a3]; exact a4
            · rw [a3]; show st'.nstate ≤ st'.nstate + 1; omega
            · rw [a3]; exact a5
            · rw [a3]; show st'.nstate < st2.nstate; omega
            · rw [a3]; exact a6
            · rw [a3]; exact a7
        exact key _ this
      have hA := xAlts_complete (R := T.rules) (T := T) (rest := frames) (cur := cur) (ntail := ntail)
        Hrec hchain (normaliseRule rl).alts st1 φ1 ents1 _ I1 hF1
      have hA' : match xAlts T (fun nt s st' => xRule T fuel (r :: frames.map (·.rule)) nt s st')
            (r :: frames.map (·.rule)) ntail st.nstate (st.nstate + 1) (normaliseRule rl).alts st1 with
        | none => True
        | some st' => ∃ φ' ents', CExt st1 φ1 ents1 st' φ' ents' ∧ CFrames st' φ' ents' (cur :: frames) ∧
            CInv T.rules st' φ' ents' (fun q => P q ∨ q = st.nstate + 1) (fun q => A q ∨ q = st.nstate) ∧
            AltsFacts st' φ' ents' cur (normaliseRule rl).alts := hA
      show match xAlts T (fun nt s st' => xRule T fuel (r :: frames.map (·.rule)) nt s st')
            (r :: frames.map (·.rule)) ntail st.nstate (st.nstate + 1) (normaliseRule rl).alts st1 with
        | none => True
        | some st' => ∃ φ' ents', CExt st φ ents st' φ' ents' ∧ CFrames st' φ' ents' frames ∧
            st'.entryExit r = (st.nstate, st.nstate + 1) ∧ (st.nstate, r, κJ) ∈ ents' ∧
            st.nstate + 1 < st'.nstate ∧ φ' (st.nstate + 1) = κJ ∧
            CInv T.rules st' φ' ents' (fun q => P q ∨ q = st.nstate + 1) A
      generalize xAlts T (fun nt s st' => xRule T fuel (r :: frames.map (·.rule)) nt s st')
            (r :: frames.map (·.rule)) ntail st.nstate (st.nstate + 1) (normaliseRule rl).alts st1 = res at hA'
      cases res with
      | none => trivial
      | some st' =>
        obtain ⟨φ', ents', E12, hF2, I2, hfacts⟩ := hA'
        obtain ⟨h1, h2, h3, h4⟩ := hF2 cur (by simp)
        have hφe' : φ' st.nstate = .ref r :: κJ := (I2.entf _ _ _ h2).2
        have I3 : CInv T.rules st' φ' ents' (fun q => P q ∨ q = st.nstate + 1) A := by
          apply I2.resolveEnt
          intro s κ hm
          have := (I2.entf _ _ _ hm).2
          rw [hφe'] at this
          cases this
          intro alt halt
          have e1 : T.rules r = altsOf rl.alts := by
            unfold Table.rules; rw [hf]; rfl
          rw [e1, ← altsOf_normalise] at halt
          obtain ⟨a, ha, rfl⟩ := List.mem_map.mp halt
          exact hfacts a ha
        exact ⟨φ', ents', E01.trans E12, fun f hfm => hF2 f (List.mem_cons_of_mem _ hfm), h1, h2, h3, h4, I3⟩

/-! ### the whole expansion -/

/-- every sentence the top rule denotes is accepted by the automaton the mirror of `expand_rule` builds -/
theorem expandTop_complete {T : Table} {top : RName} {st : XSt} (h : expandTop T top = some st)
    (ws : List Nat) : Der T.rules [.ref top] ws → Accepts st.toNfa ws := by
  unfold expandTop at h
  split at h
  · have I0 : CInv T.rules ({} : XSt) (fun _ => []) [] (fun _ => False) (fun _ => False) :=
      { bnd := by intro l hl; cases hl
        states := by intro q hq; exact absurd hq (Nat.not_lt_zero q)
        entd := by intro e s κ hm; cases hm
        entf := by intro e s κ hm; cases hm }
    have := xRule_complete T (T.length + 1) [] 0 top {} (fun _ => []) [] [] _ _ I0
      (by intro f hf; cases hf) (by simp) (by
        intro i hi f hfi
        have : i = 0 := by omega
        subst this
        simp only [List.getElem?_cons_zero, Option.some.injEq] at hfi
        subst hfi; rfl)
    simp only [List.map_nil] at this
    rw [h] at this
    obtain ⟨φ', ents', _, _, _, hent, h1lt, hφ1, I⟩ := this
    have hdone : Done st φ' ents' 1 := Or.inr (Or.inr ⟨hφ1, rfl⟩)
    have I' : CInv T.rules st φ' ents' (fun _ => False) (fun _ => False) :=
      (I.resolve 1 hdone).weaken (by
        intro q ⟨hq, hne⟩
        rcases hq with h | h
        · exact h
        · exact hne h) (fun _ h => h)
    intro hder
    have hφ0 := (I'.entf _ _ _ hent).2
    have h0lt := (I'.entf _ _ _ hent).1
    exact sim I' hder.toRun 0 ⟨h0lt, Or.inl hφ0⟩
  · cases h

end SSVerif.Jsgf
