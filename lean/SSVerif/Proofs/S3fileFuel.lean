import SSVerif.Proofs.S3file
import SSVerif.Proofs.BinMdef
/-!
# The fuel of the scanners is enough

Every loop of the model that is written with a `fuel` argument (so that it is structurally recursive) is called
with its loop variant as fuel.  At fuel 0 such a loop returns a value that looks like a regular outcome (`.ok p`,
`.ok none`, or the reject of the end-of-file case).  The lemmas here show that this never replaces a real
outcome: once `fuel` is at least the variant, **one more unit of fuel does not change the result** (`*_step`),
hence every larger fuel gives the result of the variant itself (`*_fuel`).  With `safety for every fuel`
(`Proofs/S3file.lean`) this makes the results the ones of the unbounded C loops.
-/
namespace SSVerif.S3file

theorem Sat.bind_congr {α β : Type} {x : Res α} {g1 g2 : α → Res β} {P : α → Prop}
    (hx : x.Sat P) (h : ∀ a, P a → g1 a = g2 a) : (x >>= g1) = (x >>= g2) := by
  cases x with
  | ok a => exact h a hx
  | reject s => rfl
  | oob i => rfl
  | idx i n => rfl

theorem bind_congr_all {α β : Type} (x : Res α) {g1 g2 : α → Res β} (h : ∀ a, g1 a = g2 a) :
    (x >>= g1) = (x >>= g2) := by
  cases x with
  | ok a => exact h a
  | reject s => rfl
  | oob i => rfl
  | idx i n => rfl

/-- from "one more unit does not change the result above `m`" to "every fuel ≥ `m` gives the result at `m`" -/
theorem stable_of_step {β : Type} (F : Nat → β) (m : Nat) (h : ∀ fuel, m ≤ fuel → F (fuel + 1) = F fuel) :
    ∀ fuel, m ≤ fuel → F fuel = F m := by
  intro fuel hf
  obtain ⟨d, rfl⟩ := Nat.exists_eq_add_of_le hf
  induction d with
  | zero => rfl
  | succ d ih => rw [← Nat.add_assoc, h _ (by omega), ih (by omega)]

/-! ## single-index loops: variant `bound - p` -/

theorem scanNl_step (f : File) : ∀ fuel p, f.size - p ≤ fuel → scanNl f (fuel + 1) p = scanNl f fuel p
  | 0, p, h => by
    have : ¬ p < f.size := by omega
    simp only [scanNl, if_neg this]
  | fuel + 1, p, h => by
    rw [scanNl]; conv => rhs; rw [scanNl]
    by_cases hp : p < f.size
    · rw [if_pos hp, if_pos hp]
      refine bind_congr_all _ fun b => ?_
      by_cases hb : b = 10
      · rw [if_pos hb, if_pos hb]
      · rw [if_neg hb, if_neg hb]; exact scanNl_step f fuel (p + 1) (by omega)
    · rw [if_neg hp, if_neg hp]

theorem scanNl_fuel (f : File) (p fuel : Nat) (h : f.size - p ≤ fuel) : scanNl f fuel p = scanNl f (f.size - p) p :=
  stable_of_step (fun n => scanNl f n p) _ (fun n hn => scanNl_step f n p hn) fuel h

/-- the newline scan really ends at a newline or at the end of the file (never because the fuel ran out) -/
theorem scanNl_exact (f : File) : ∀ fuel p, f.size - p ≤ fuel → p ≤ f.size →
    (scanNl f fuel p).Sat fun e => p ≤ e ∧ e ≤ f.size ∧ (e = f.size ∨ f.byte e = 10) ∧ ∀ q, p ≤ q → q < e → f.byte q ≠ 10
  | 0, p, h, hp => ⟨Nat.le_refl _, hp, Or.inl (by omega), fun q h1 h2 => by omega⟩
  | fuel + 1, p, h, hp => by
    rw [scanNl]
    by_cases hlt : p < f.size
    · rw [if_pos hlt]
      have hr : rd f p = .ok (f.byte p) := by unfold rd; rw [if_pos hlt]
      rw [hr]
      show Res.Sat (if f.byte p = 10 then _ else _) _
      by_cases hb : f.byte p = 10
      · rw [if_pos hb]; exact ⟨Nat.le_refl _, hp, Or.inr hb, fun q h1 h2 => by omega⟩
      · rw [if_neg hb]
        refine Sat.mono (scanNl_exact f fuel (p + 1) (by omega) hlt) ?_
        intro e ⟨a1, a2, a3, a4⟩
        refine ⟨by omega, a2, a3, fun q h1 h2 => ?_⟩
        by_cases hq : q = p
        · subst hq; exact hb
        · exact a4 q (by omega) h2
    · rw [if_neg hlt]; exact ⟨Nat.le_refl _, hp, Or.inl (by omega), fun q h1 h2 => by omega⟩

theorem skipSp_step (f : File) (lim : Nat) : ∀ fuel p, lim - p ≤ fuel → skipSp f lim (fuel + 1) p = skipSp f lim fuel p
  | 0, p, h => by
    have : ¬ p < lim := by omega
    simp only [skipSp, if_neg this]
  | fuel + 1, p, h => by
    rw [skipSp]; conv => rhs; rw [skipSp]
    by_cases hp : p < lim
    · rw [if_pos hp, if_pos hp]
      refine bind_congr_all _ fun b => ?_
      by_cases hb : isSpace b = true
      · rw [if_pos hb, if_pos hb]; exact skipSp_step f lim fuel (p + 1) (by omega)
      · rw [if_neg hb, if_neg hb]
    · rw [if_neg hp, if_neg hp]

theorem skipSp_fuel (f : File) (lim p fuel : Nat) (h : lim - p ≤ fuel) : skipSp f lim fuel p = skipSp f lim (lim - p) p :=
  stable_of_step (fun n => skipSp f lim n p) _ (fun n hn => skipSp_step f lim n p hn) fuel h

theorem skipNon_step (f : File) (lim : Nat) : ∀ fuel p, lim - p ≤ fuel → skipNon f lim (fuel + 1) p = skipNon f lim fuel p
  | 0, p, h => by
    have : ¬ p < lim := by omega
    simp only [skipNon, if_neg this]
  | fuel + 1, p, h => by
    rw [skipNon]; conv => rhs; rw [skipNon]
    by_cases hp : p < lim
    · rw [if_pos hp, if_pos hp]
      refine bind_congr_all _ fun b => ?_
      by_cases hb : isSpace b = true
      · rw [if_pos hb, if_pos hb]
      · rw [if_neg hb, if_neg hb]; exact skipNon_step f lim fuel (p + 1) (by omega)
    · rw [if_neg hp, if_neg hp]

theorem skipNon_fuel (f : File) (lim p fuel : Nat) (h : lim - p ≤ fuel) : skipNon f lim fuel p = skipNon f lim (lim - p) p :=
  stable_of_step (fun n => skipNon f lim n p) _ (fun n hn => skipNon_step f lim n p hn) fuel h

theorem findNul_step (f : File) (lim : Nat) : ∀ fuel p, lim - p ≤ fuel → findNul f lim (fuel + 1) p = findNul f lim fuel p
  | 0, p, h => by
    have : ¬ p < lim := by omega
    simp only [findNul, if_neg this]
  | fuel + 1, p, h => by
    rw [findNul]; conv => rhs; rw [findNul]
    by_cases hp : p < lim
    · rw [if_pos hp, if_pos hp]
      refine bind_congr_all _ fun b => ?_
      by_cases hb : b = 0
      · rw [if_pos hb, if_pos hb]
      · rw [if_neg hb, if_neg hb]; exact findNul_step f lim fuel (p + 1) (by omega)
    · rw [if_neg hp, if_neg hp]

theorem findNul_fuel (f : File) (lim p fuel : Nat) (h : lim - p ≤ fuel) : findNul f lim fuel p = findNul f lim (lim - p) p :=
  stable_of_step (fun n => findNul f lim n p) _ (fun n hn => findNul_step f lim n p hn) fuel h

/-! ## the header line loops: every line is at least one byte, variant `size - p + 1` -/

/-- `s3file_nextline` makes progress: the next line starts strictly after `p` -/
theorem nextline_progress (f : File) (p : Nat) (hp : p ≤ f.size) :
    (nextline f p).Sat fun o => ∀ np, o = some np → p < np ∧ np ≤ f.size := by
  unfold nextline
  by_cases h : p = f.size
  · rw [if_pos h]; intro np hnp; cases hnp
  · rw [if_neg h]
    refine Sat.bind (scanNl_sat f _ p hp) ?_
    intro e ⟨h1, h2⟩ np hnp
    injection hnp with hnp
    subst hnp
    by_cases he : e ≠ f.size
    · rw [if_pos he]; omega
    · rw [if_neg he]; omega

def Line.np : Line → Nat
  | .comment np => np
  | .endhdr np => np
  | .entry np _ _ => np

theorem classify_progress (f : File) (p : Nat) (hp : p ≤ f.size) :
    (classify f p).Sat fun l => p < l.np ∧ l.np ≤ f.size := by
  unfold classify
  refine Sat.bind (nextline_progress f p hp) ?_
  intro o ho
  cases o with
  | none => trivial
  | some np =>
    obtain ⟨h1, h2⟩ := ho np rfl
    simp only
    refine Sat.bind (nextword_sat f np p h2) ?_
    intro o2 ho2
    cases o2 with
    | none => trivial
    | some we =>
      obtain ⟨w, e⟩ := we
      obtain ⟨a1, a2, a3, a4⟩ := ho2 w e rfl
      simp only
      refine Sat.bind (rd_sat (by omega)) ?_
      intro c _
      by_cases hc : c = 35
      · rw [if_pos hc]; exact ⟨h1, h2⟩
      · rw [if_neg hc]
        refine Sat.bind (strncmpEq_sat f w _ (e - w) 0 (by omega)) ?_
        intro b _
        cases b with
        | true => exact ⟨h1, h2⟩
        | false => exact ⟨h1, h2⟩

theorem pass1_step (f : File) : ∀ fuel p cnt, p ≤ f.size → f.size - p + 1 ≤ fuel →
    pass1 f (fuel + 1) p cnt = pass1 f fuel p cnt
  | 0, _, _, _, h => by omega
  | fuel + 1, p, cnt, hp, h => by
    rw [pass1]; conv => rhs; rw [pass1]
    refine Sat.bind_congr (classify_progress f p hp) ?_
    intro l ⟨h1, h2⟩
    cases l with
    | comment np => exact pass1_step f fuel np cnt h2 (by simp only [Line.np] at h1 h2; omega)
    | endhdr np => rfl
    | entry np w e => exact pass1_step f fuel np (cnt + 1) h2 (by simp only [Line.np] at h1 h2; omega)

theorem pass1_fuel (f : File) (p cnt fuel : Nat) (hp : p ≤ f.size) (h : f.size - p + 1 ≤ fuel) :
    pass1 f fuel p cnt = pass1 f (f.size - p + 1) p cnt :=
  stable_of_step (fun n => pass1 f n p cnt) _ (fun n hn => pass1_step f n p cnt hp hn) fuel h

theorem pass2_step (f : File) (nhdr : Nat) : ∀ fuel p acc chk, p ≤ f.size → f.size - p + 1 ≤ fuel →
    pass2 f nhdr (fuel + 1) p acc chk = pass2 f nhdr fuel p acc chk
  | 0, _, _, _, _, h => by omega
  | fuel + 1, p, acc, chk, hp, h => by
    rw [pass2]; conv => rhs; rw [pass2]
    refine Sat.bind_congr (classify_progress f p hp) ?_
    intro l ⟨h1, h2⟩
    cases l with
    | comment np => exact pass2_step f nhdr fuel np acc chk h2 (by simp only [Line.np] at h1 h2; omega)
    | endhdr np => rfl
    | entry np w e =>
      simp only [Line.np] at h1 h2
      show (if acc.length ≥ nhdr then _ else _) = (if acc.length ≥ nhdr then _ else _)
      by_cases hl : acc.length ≥ nhdr
      · rw [if_pos hl, if_pos hl]
      · rw [if_neg hl, if_neg hl]
        refine bind_congr_all _ fun name => ?_
        refine bind_congr_all _ fun o => ?_
        cases o with
        | none => rfl
        | some ve =>
          refine bind_congr_all _ fun value => ?_
          exact pass2_step f nhdr fuel np _ _ h2 (by omega)

theorem pass2_fuel (f : File) (nhdr p : Nat) (acc : List Hdr) (chk : Bool) (fuel : Nat) (hp : p ≤ f.size)
    (h : f.size - p + 1 ≤ fuel) : pass2 f nhdr fuel p acc chk = pass2 f nhdr (f.size - p + 1) p acc chk :=
  stable_of_step (fun n => pass2 f nhdr n p acc chk) _ (fun n hn => pass2_step f nhdr n p acc chk hp hn) fuel h

theorem oldFmt_step (f : File) : ∀ fuel p, p ≤ f.size → f.size - p + 1 ≤ fuel →
    oldFmt f (fuel + 1) p = oldFmt f fuel p
  | 0, _, _, h => by omega
  | fuel + 1, p, hp, h => by
    rw [oldFmt]; conv => rhs; rw [oldFmt]
    refine Sat.bind_congr (nextline_progress f p hp) ?_
    intro o ho
    cases o with
    | none => rfl
    | some np =>
      obtain ⟨h1, h2⟩ := ho np rfl
      refine bind_congr_all _ fun b => ?_
      cases b with
      | true => rfl
      | false => exact oldFmt_step f fuel np h2 (by omega)

theorem oldFmt_fuel (f : File) (p fuel : Nat) (hp : p ≤ f.size) (h : f.size - p + 1 ≤ fuel) :
    oldFmt f fuel p = oldFmt f (f.size - p + 1) p :=
  stable_of_step (fun n => oldFmt f n p) _ (fun n hn => oldFmt_step f n p hp hn) fuel h

/-! ## the header strings of a sendump: every string costs its 4-byte length, variant `avail / 4 + 1` -/

theorem sdStrings_step {f : File} : ∀ fuel (s : S) (h : SdHdr), Good f s → s.avail / 4 + 1 ≤ fuel →
    sdStrings (fuel + 1) s h = sdStrings fuel s h
  | 0, _, _, _, hf => by omega
  | fuel + 1, s, h, hs, hf => by
    rw [sdStrings]; conv => rhs; rw [sdStrings]
    refine Sat.bind_congr (get32_sat _ hs) ?_
    rintro ⟨s1, nn⟩ ⟨h1, hp1, _⟩
    simp only at h1 hp1 ⊢
    by_cases h0 : toI32 nn = 0
    · rw [if_pos h0, if_pos h0]
    · rw [if_neg h0, if_neg h0]
      by_cases h2 : toI32 nn < 0 ∨ (toI32 nn).toNat > s1.avail
      · rw [if_pos h2, if_pos h2]
      · rw [if_neg h2, if_neg h2]
        refine bind_congr_all _ fun raw => ?_
        refine Sat.bind_congr (skip_sat _ _ h1) ?_
        intro s2 ⟨g2, hp2, _⟩
        refine sdStrings_step fuel s2 _ g2 ?_
        have e1 : s.avail = s.f.size - s.ptr := rfl
        have e2 : s2.avail = s2.f.size - s2.ptr := rfl
        have e3 : s2.f.size = f.size := by rw [g2.1]
        have e4 : s.f.size = f.size := by rw [hs.1]
        have := hs.2
        have := g2.2
        omega

theorem sdStrings_fuel {f : File} (s : S) (h : SdHdr) (hs : Good f s) (fuel : Nat) (hf : s.avail / 4 + 1 ≤ fuel) :
    sdStrings fuel s h = sdStrings (s.avail / 4 + 1) s h :=
  stable_of_step (fun n => sdStrings n s h) _ (fun n hn => sdStrings_step n s h hs hn) fuel hf

/-! ## the loops of the binary model definition: variants `len - j`, `n_phone - i`, `high - low` -/

theorem mapStates_step (f : File) (h : MdefHdr) (l : MdefLayout) (ssid ci : Nat) :
    ∀ fuel j c2c s2c, l.topo.len ssid - j ≤ fuel →
      mapStates f h l ssid ci (fuel + 1) j c2c s2c = mapStates f h l ssid ci fuel j c2c s2c
  | 0, j, c2c, s2c, hf => by
    have : j ≥ l.topo.len ssid := by omega
    simp only [mapStates, if_pos this]
  | fuel + 1, j, c2c, s2c, hf => by
    rw [mapStates]; conv => rhs; rw [mapStates]
    by_cases hj : j ≥ l.topo.len ssid
    · rw [if_pos hj, if_pos hj]
    · rw [if_neg hj, if_neg hj]
      refine bind_congr_all _ fun s => ?_
      by_cases hs : s ≥ h.nSen
      · rw [if_pos hs, if_pos hs]
      · rw [if_neg hs, if_neg hs]
        refine bind_congr_all _ fun cur => ?_
        refine bind_congr_all _ fun s2c' => ?_
        refine bind_congr_all _ fun cissid => ?_
        refine bind_congr_all _ fun cilen => ?_
        refine bind_congr_all _ fun c2c' => ?_
        exact mapStates_step f h l ssid ci fuel (j + 1) _ _ (by omega)

theorem mapPhones_step (f : File) (h : MdefHdr) (l : MdefLayout) :
    ∀ fuel i c2c s2c, h.nPhone - i ≤ fuel →
      mapPhones f h l (fuel + 1) i c2c s2c = mapPhones f h l fuel i c2c s2c
  | 0, i, c2c, s2c, hf => by
    have : i ≥ h.nPhone := by omega
    simp only [mapPhones, if_pos this]
  | fuel + 1, i, c2c, s2c, hf => by
    rw [mapPhones]; conv => rhs; rw [mapPhones]
    by_cases hi : i ≥ h.nPhone
    · rw [if_pos hi, if_pos hi]
    · rw [if_neg hi, if_neg hi]
      refine bind_congr_all _ fun ssidW => ?_
      refine bind_congr_all _ fun tmatW => ?_
      refine bind_congr_all _ fun c0 => ?_
      refine bind_congr_all _ fun c1 => ?_
      refine bind_congr_all _ fun c2 => ?_
      simp only
      split
      · rfl
      · refine bind_congr_all _ fun r => ?_
        exact mapPhones_step f h l fuel (i + 1) _ _ (by omega)

theorem mapPhones_fuel (f : File) (h : MdefHdr) (l : MdefLayout) (i : Nat) (c2c s2c : Array Nat) (fuel : Nat)
    (hf : h.nPhone - i ≤ fuel) : mapPhones f h l fuel i c2c s2c = mapPhones f h l (h.nPhone - i) i c2c s2c :=
  stable_of_step (fun n => mapPhones f h l n i c2c s2c) _ (fun n hn => mapPhones_step f h l n i c2c s2c hn) fuel hf

theorem findCiphone_step (f : File) (names : List Nat) (name : List UInt8) :
    ∀ fuel low high, high - low ≤ fuel →
      findCiphone f names name (fuel + 1) low high = findCiphone f names name fuel low high
  | 0, low, high, hf => by
    have : low ≥ high := by omega
    simp only [findCiphone, if_pos this]
  | fuel + 1, low, high, hf => by
    rw [findCiphone]; conv => rhs; rw [findCiphone]
    by_cases hl : low ≥ high
    · rw [if_pos hl, if_pos hl]
    · rw [if_neg hl, if_neg hl]
      simp only
      by_cases hm : (low + high) / 2 ≥ names.length
      · rw [if_pos hm, if_pos hm]
      · rw [if_neg hm, if_neg hm]
        refine bind_congr_all _ fun o => ?_
        cases o with
        | eq => rfl
        | gt => exact findCiphone_step f names name fuel _ high (by omega)
        | lt => exact findCiphone_step f names name fuel low _ (by omega)

theorem findCiphone_fuel (f : File) (names : List Nat) (name : List UInt8) (low high fuel : Nat)
    (hf : high - low ≤ fuel) :
    findCiphone f names name fuel low high = findCiphone f names name (high - low) low high :=
  stable_of_step (fun n => findCiphone f names name n low high) _
    (fun n hn => findCiphone_step f names name n low high hn) fuel hf

/-! ## short-read branches behind a length pre-check are dead -/

/-- a read of `n ≤ avail / k` elements returns all `n` (the "short read" branches behind such a pre-check are dead) -/
theorem get_full {f : File} {s : S} (k n : Nat) (hk : 0 < k) (hs : Good f s) (hn : n ≤ s.avail / k) :
    ∃ s', get s k n = .ok (s', n) ∧ Good f s' ∧ s'.ptr = s.ptr + k * n := by
  have h := get_sat k n hk hs
  cases hg : get s k n with
  | ok r =>
    rw [hg] at h
    obtain ⟨s', c⟩ := r
    obtain ⟨g, hc, hp, _⟩ := h
    simp only at g hc hp
    have : c = n := by omega
    subst this
    exact ⟨s', rfl, g, hp⟩
  | reject site => exact (get_ne_reject s k n site hg).elim
  | oob i => rw [hg] at h; exact h.elim
  | idx i m => rw [hg] at h; exact h.elim

/-- `s3file_get_1d`: once the size passed the `Bad arraysize` pre-check the data read is complete — the reject
`get(arraydata) failed` (ledger stage `ArrStage.data`) is dead code of the repaired reader -/
theorem get1d_data_dead {f : File} {s : S} (k : Nat) (hk : 0 < k) (hs : Good f s) :
    get1d s k ≠ .reject "get(arraydata) failed" := by
  unfold get1d
  have h32 := get32_sat (f := f) (s := s) "get(arraysize) failed" hs
  cases hg : get32 s "get(arraysize) failed" with
  | ok r =>
    rw [hg] at h32
    obtain ⟨s1, n⟩ := r
    obtain ⟨g1, _⟩ := h32
    simp only at g1
    show (if n = 0 ∨ n > s1.avail / k then _ else _) ≠ _
    by_cases hpre : n = 0 ∨ n > s1.avail / k
    · rw [if_pos hpre]; intro hc; exact absurd (Res.reject.inj hc) (by decide)
    · rw [if_neg hpre]
      obtain ⟨s2, e, _, _⟩ := get_full k n hk g1 (by omega)
      rw [e]
      show (if n ≠ n then _ else _) ≠ _
      rw [if_neg (by simp)]
      intro hc; cases hc
  | reject site =>
    intro hc
    have hc' : (Res.reject site : Res (S × Arr)) = .reject "get(arraydata) failed" := hc
    have hs' : site = "get(arraydata) failed" := Res.reject.inj hc'
    subst hs'
    -- get32 rejects only with its own site
    unfold get32 at hg
    cases hgg : get s 4 1 with
    | ok r =>
      rw [hgg] at hg
      obtain ⟨s', c⟩ := r
      change (if c ≠ 1 then _ else _) = _ at hg
      by_cases hc1 : c ≠ 1
      · rw [if_pos hc1] at hg; exact absurd (Res.reject.inj hg) (by decide)
      · rw [if_neg hc1] at hg; cases hg
    | reject s2 => exact get_ne_reject s 4 1 s2 hgg
    | oob i => rw [hgg] at hg; cases hg
    | idx i m => rw [hgg] at hg; cases hg
  | oob i => intro hc; cases hc
  | idx i m => intro hc; cases hc

/-- the row loop of `tmat_init_s3file` / `read_mixw` behind the length pre-check `n_rows * per ≤ avail / 4`
completes: the reject `Failed to read transition matrix` (ledger stage `TmatStage.row`) is dead code -/
theorem getRows_complete {f : File} (site : String) (per : Nat) :
    ∀ n (s : S), Good f s → n * per ≤ s.avail / 4 → ∃ s', getRows site per n s = .ok s' ∧ Good f s'
  | 0, s, hs, _ => ⟨s, rfl, hs⟩
  | n + 1, s, hs, h => by
    rw [Nat.succ_mul] at h
    obtain ⟨s1, e, g1, hp⟩ := get_full 4 per (by omega) hs (by omega)
    have ha : s.avail = s.f.size - s.ptr := rfl
    have ha1 : s1.avail = s1.f.size - s1.ptr := rfl
    have e1 : s1.f.size = f.size := by rw [g1.1]
    have e2 : s.f.size = f.size := by rw [hs.1]
    obtain ⟨s2, e', g2⟩ := getRows_complete site per n s1 g1 (by omega)
    refine ⟨s2, ?_, g2⟩
    rw [getRows, e]
    show (if per ≠ per then _ else _) = _
    rw [if_neg (by simp)]
    exact e'

end SSVerif.S3file
