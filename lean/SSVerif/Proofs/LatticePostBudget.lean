import SSVerif.Proofs.LatticeGraph
import SSVerif.Proofs.LatticeTraverse
/-!
# Error budgets of the integer forward/backward passes (helper definitions and lemmas for C12)

The number of table additions whose rounding can accumulate in one integer alpha / beta / normaliser,
as an explicit function of the lattice (core Lean only, computable):

* `budA L l`: `0` for a link leaving the start node (no entries), otherwise the largest budget among the
  links entering the source node of `l`, plus one per entering link after the first (the first log-add
  of a node adds to log-zero and is exact; adding the link's own score is exact);
* `budB L l`: the same towards the end node over the exits of the target of `l`;
* `budN L`, `budW L`: the same for the normaliser (entries of the end node) and the backward total
  (exits of the start node).

`BudA`/`BudB` are the inequalities the accuracy induction uses; `budA_ok`/`budB_ok` show that the
explicit budgets satisfy them on every lattice with the C11 predicate.
-/
namespace SSVerif.Lattice
open SSVerif.Nfa

variable {G : Nfa} {L : Lat}

/-- budget condition of the forward pass: the budget of a link covers the budget of every link
entering its source node, plus one per further entering link -/
def BudA (L : Lat) (E : Link → Nat) : Prop :=
  ∀ l ∈ L.links, ∀ x ∈ entries L l.src, E x + ((entries L l.src).length - 1) ≤ E l

/-- budget condition of the backward pass: the budget of a link covers the budget of every exit of its
target node, plus one per further exit -/
def BudB (L : Lat) (E : Link → Nat) : Prop :=
  ∀ l ∈ L.links, ∀ x ∈ exits L l.dst, E x + ((exits L l.dst).length - 1) ≤ E l

def maxL (xs : List Nat) : Nat := xs.foldl max 0

theorem le_foldl_max (xs : List Nat) (b : Nat) : b ≤ xs.foldl max b ∧ ∀ x ∈ xs, x ≤ xs.foldl max b := by
  induction xs generalizing b with
  | nil => exact ⟨Nat.le_refl _, fun x hx => by cases hx⟩
  | cons y ys ih =>
    simp only [List.foldl_cons]
    obtain ⟨h1, h2⟩ := ih (max b y)
    refine ⟨by omega, fun x hx => ?_⟩
    rcases List.mem_cons.1 hx with rfl | hx
    · omega
    · exact h2 x hx

theorem le_maxL {xs : List Nat} {x : Nat} (h : x ∈ xs) : x ≤ maxL xs := (le_foldl_max xs 0).2 x h

/-- forward budget of a node after `fuel` levels -/
def budNodeA (L : Lat) : Nat → Nat → Nat
  | 0, _ => 0
  | f + 1, v => maxL ((entries L v).map fun x => budNodeA L f x.src) + ((entries L v).length - 1)

/-- backward budget of a node after `fuel` levels -/
def budNodeB (L : Lat) : Nat → Nat → Nat
  | 0, _ => 0
  | f + 1, v => maxL ((exits L v).map fun x => budNodeB L f x.dst) + ((exits L v).length - 1)

/-- forward budget of a link (`link->alpha`) -/
def budA (L : Lat) (l : Link) : Nat := budNodeA L (L.nframes + 2) l.src
/-- backward budget of a link (`link->beta`) -/
def budB (L : Lat) (l : Link) : Nat := budNodeB L (L.nframes + 2) l.dst
/-- budget of the normaliser (`dag->norm`) -/
def budN (L : Lat) : Nat := budNodeA L (L.nframes + 3) L.final
/-- budget of the backward total -/
def budW (L : Lat) : Nat := budNodeB L (L.nframes + 3) L.start

theorem budNodeA_stable {rank : Nat → Nat} (hrank : ∀ l ∈ L.links, rank l.src < rank l.dst) :
    ∀ f v, rank v ≤ f → budNodeA L (f + 1) v = budNodeA L f v := by
  intro f
  induction f with
  | zero =>
    intro v hv
    have : entries L v = [] := by
      rw [List.eq_nil_iff_forall_not_mem]
      intro x hx
      have hm := mem_entries.1 hx
      have := hrank x hm.1
      rw [hm.2] at this
      omega
    simp [budNodeA, this, maxL]
  | succ f ih =>
    intro v hv
    show maxL ((entries L v).map fun x => budNodeA L (f + 1) x.src) + _ = maxL ((entries L v).map fun x => budNodeA L f x.src) + _
    congr 2
    apply List.map_congr_left
    intro x hx
    have hm := mem_entries.1 hx
    have := hrank x hm.1
    rw [hm.2] at this
    exact ih x.src (by omega)

theorem budNodeB_stable {rank : Nat → Nat} (hrank : ∀ l ∈ L.links, rank l.src < rank l.dst) (M : Nat)
    (hM : ∀ l ∈ L.links, rank l.src < M) :
    ∀ f v, M ≤ f + rank v → budNodeB L (f + 1) v = budNodeB L f v := by
  intro f
  induction f with
  | zero =>
    intro v hv
    have : exits L v = [] := by
      rw [List.eq_nil_iff_forall_not_mem]
      intro x hx
      have hm := mem_exits.1 hx
      have := hM x hm.1
      rw [hm.2] at this
      omega
    simp [budNodeB, this, maxL]
  | succ f ih =>
    intro v hv
    show maxL ((exits L v).map fun x => budNodeB L (f + 1) x.dst) + _ = maxL ((exits L v).map fun x => budNodeB L f x.dst) + _
    congr 2
    apply List.map_congr_left
    intro x hx
    have hm := mem_exits.1 hx
    have := hrank x hm.1
    rw [hm.2] at this
    exact ih x.dst (by omega)

/-- the explicit forward budgets satisfy the budget condition -/
theorem budA_ok (ok : LatticeOK G L) : BudA L (budA L) := by
  intro l hl x hx
  have hrank : ∀ l ∈ L.links, L.rank l.src < L.rank l.dst := fun l hl => rank_lt ok hl
  have hm := mem_entries.1 hx
  have hxs : L.rank x.src ≤ L.nframes + 1 := rank_le ok (ok.endpoints.2.2 x hm.1).1
  have hst := budNodeA_stable hrank (L.nframes + 1) x.src hxs
  unfold budA
  show budNodeA L (L.nframes + 2) x.src + _ ≤ maxL ((entries L l.src).map fun y => budNodeA L (L.nframes + 1) y.src) + _
  have h1 : budNodeA L (L.nframes + 1) x.src ≤ maxL ((entries L l.src).map fun y => budNodeA L (L.nframes + 1) y.src) :=
    le_maxL (List.mem_map.2 ⟨x, hx, rfl⟩)
  rw [hst]
  omega

/-- the explicit backward budgets satisfy the budget condition -/
theorem budB_ok (ok : LatticeOK G L) : BudB L (budB L) := by
  intro l hl x hx
  have hrank : ∀ l ∈ L.links, L.rank l.src < L.rank l.dst := fun l hl => rank_lt ok hl
  have hM : ∀ l ∈ L.links, L.rank l.src < L.nframes + 1 := by
    intro l hl
    have := rank_le ok (ok.endpoints.2.2 l hl).2
    have := hrank l hl
    omega
  have hm := mem_exits.1 hx
  have hst := budNodeB_stable hrank (L.nframes + 1) hM (L.nframes + 1) x.dst (by omega)
  unfold budB
  show budNodeB L (L.nframes + 2) x.dst + _ ≤ maxL ((exits L l.dst).map fun y => budNodeB L (L.nframes + 1) y.dst) + _
  have h1 : budNodeB L (L.nframes + 1) x.dst ≤ maxL ((exits L l.dst).map fun y => budNodeB L (L.nframes + 1) y.dst) :=
    le_maxL (List.mem_map.2 ⟨x, hx, rfl⟩)
  rw [hst]
  omega

theorem budN_ok (L : Lat) : ∀ x ∈ entries L L.final, budA L x + ((entries L L.final).length - 1) ≤ budN L := by
  intro x hx
  show budNodeA L (L.nframes + 2) x.src + _ ≤ maxL ((entries L L.final).map fun y => budNodeA L (L.nframes + 2) y.src) + _
  have : budNodeA L (L.nframes + 2) x.src ≤ maxL ((entries L L.final).map fun y => budNodeA L (L.nframes + 2) y.src) :=
    le_maxL (List.mem_map.2 ⟨x, hx, rfl⟩)
  omega

theorem budW_ok (L : Lat) : ∀ x ∈ exits L L.start, budB L x + ((exits L L.start).length - 1) ≤ budW L := by
  intro x hx
  show budNodeB L (L.nframes + 2) x.dst + _ ≤ maxL ((exits L L.start).map fun y => budNodeB L (L.nframes + 2) y.dst) + _
  have : budNodeB L (L.nframes + 2) x.dst ≤ maxL ((exits L L.start).map fun y => budNodeB L (L.nframes + 2) y.dst) :=
    le_maxL (List.mem_map.2 ⟨x, hx, rfl⟩)
  omega

/-- a bound of all backward budgets (the number of log-additions the overflow hypothesis has to leave room for) -/
def budKB (L : Lat) : Nat := max (maxL (L.links.map (budB L))) (budW L)

theorem budKB_ok (L : Lat) : (∀ l ∈ L.links, budB L l ≤ budKB L) ∧ budW L ≤ budKB L := by
  refine ⟨fun l hl => ?_, Nat.le_max_right _ _⟩
  have : budB L l ≤ maxL (L.links.map (budB L)) := le_maxL (List.mem_map.2 ⟨l, hl, rfl⟩)
  exact Nat.le_trans this (Nat.le_max_left _ _)

end SSVerif.Lattice
